/-
The simulation between the `FileStore` model (`LiquerModel/StoreFile.lean`) and the reference store `specOps`,
part 1: the algebra of the POSIX tree model (`PFS.get` after `set` / `erase` / `mkdirP`, `iterdir`, unique paths),
the paths of plain keys, the relation `SimF` and what it says about every read.

Part 2 (`StoreFileRef2.lean`): preservation by the writes; part 3 (`StoreFileRef3.lean`): recursive `removedir`,
`keys()` and whole histories.
-/
import LiquerProofs.Lemmas.StoreFileFrame

namespace Liquer

/-! ### `PFS.get` after `set` / `erase` -/

theorem PFS.get_of_ne_nil (s : PFS) {q : Path} (hq : q ≠ []) : s.get q = alGet s q := by
  rw [PFS.get_eq_alGet]
  have : q.isEmpty = false := by simpa using hq
  simp [this]

theorem PFS.get_root (s : PFS) : s.get [] = some .dir := rfl

theorem PFS.get_set (s : PFS) {p : Path} (hp : p ≠ []) (n : PNode) (q : Path) :
    (s.set p n).get q = if p = q then some n else s.get q := by
  by_cases e : p = q
  · subst e
    rw [PFS.get_of_ne_nil _ hp]
    show alGet (alSet s p n) p = _
    rw [alGet_set]
    simp
  · rw [PFS.get_set_ne _ _ _ _ e]
    simp [e]

theorem PFS.get_erase (s : PFS) {p : Path} (hp : p ≠ []) (q : Path) :
    (s.erase p).get q = if q = p then none else s.get q := by
  by_cases e : q = p
  · subst e
    rw [PFS.get_of_ne_nil _ hp]
    show alGet (alErase s q) q = _
    rw [alGet_erase]
    simp
  · rw [PFS.get_erase_ne _ _ _ (fun e' => e e'.symm)]
    simp [e]

/-! ### unique paths -/

/-- at most one binding per path -/
def PFS.ND (s : PFS) : Prop := (s.map (·.1)).Nodup

theorem PFS.nd_erase {s : PFS} (h : s.ND) (p : Path) : (s.erase p).ND :=
  ((List.filter_sublist (l := s)).map _).nodup h

theorem PFS.nd_set {s : PFS} (h : s.ND) (p : Path) (n : PNode) : (s.set p n).ND := by
  unfold PFS.set PFS.ND
  rw [List.map_cons, List.nodup_cons]
  refine ⟨?_, PFS.nd_erase h p⟩
  rw [al_mem_keys_iff]
  show (alGet (alErase s p) p).isSome = true → False
  rw [alGet_erase]
  simp

theorem PFS.nd_nil : PFS.ND [] := by simp [PFS.ND]

theorem al_mem_of_get {β : Type} {l : List (Key × β)} {k : Key} {v : β} (h : alGet l k = some v) : (k, v) ∈ l := by
  induction l with
  | nil => simp [alGet_nil] at h
  | cons kv l ih =>
    obtain ⟨q, w⟩ := kv
    rw [alGet_cons] at h
    by_cases e : q = k
    · subst e; simp at h; subst h; simp
    · simp [e] at h; exact List.mem_cons_of_mem _ (ih h)

theorem al_get_of_mem {β : Type} {l : List (Key × β)} (hn : (l.map (·.1)).Nodup) {k : Key} {v : β} (h : (k, v) ∈ l) :
    alGet l k = some v := by
  induction l with
  | nil => simp at h
  | cons kv l ih =>
    obtain ⟨q, w⟩ := kv
    rw [List.map_cons, List.nodup_cons] at hn
    rw [alGet_cons]
    rcases List.mem_cons.mp h with e | e
    · cases e; simp
    · have : q ≠ k := by
        intro e'; subst e'
        exact hn.1 (List.mem_map.mpr ⟨(q, v), e, rfl⟩)
      simp [this, ih hn.2 e]

/-! ### `iterdir` -/

theorem dropLast_concat_keyName {q : Path} (h : q ≠ []) : q.dropLast ++ [keyName q] = q :=
  (key_eq_parent_name h).symm

theorem PFS.mem_iterdir (s : PFS) (p : Path) (nm : Str) :
    nm ∈ s.iterdir p ↔ (alGet s (p ++ [nm])).isSome = true := by
  unfold PFS.iterdir
  rw [List.mem_map]
  constructor
  · rintro ⟨⟨q, x⟩, hq, rfl⟩
    simp only [List.mem_filter, Bool.and_eq_true, Bool.not_eq_true', List.isEmpty_eq_false_iff, beq_iff_eq] at hq
    obtain ⟨hmem, hne, hd⟩ := hq
    have : p ++ [keyName q] = q := by rw [← hd]; exact dropLast_concat_keyName hne
    rw [this, ← al_mem_keys_iff]
    exact List.mem_map.mpr ⟨(q, x), hmem, rfl⟩
  · intro h
    obtain ⟨x, hx⟩ := Option.isSome_iff_exists.mp h
    refine ⟨(p ++ [nm], x), ?_, by simp [keyName]⟩
    simp only [List.mem_filter, Bool.and_eq_true, Bool.not_eq_true', List.isEmpty_eq_false_iff, beq_iff_eq]
    exact ⟨al_mem_of_get hx, by simp, by simp⟩

theorem PFS.iterdir_nodup {s : PFS} (hn : s.ND) (p : Path) : (s.iterdir p).Nodup := by
  unfold PFS.iterdir
  have h1 : ((s.filter (fun kv => !kv.1.isEmpty && kv.1.dropLast == p)).map (·.1)).Nodup :=
    ((List.filter_sublist (l := s)).map _).nodup hn
  have : (s.filter (fun kv => !kv.1.isEmpty && kv.1.dropLast == p)).map (fun kv => keyName kv.1) =
      ((s.filter (fun kv => !kv.1.isEmpty && kv.1.dropLast == p)).map (·.1)).map keyName := by
    rw [List.map_map]; rfl
  rw [this]
  unfold List.Nodup at h1 ⊢
  rw [List.pairwise_map]
  refine h1.imp_of_mem ?_
  intro a b ha hb hab e
  apply hab
  simp only [List.mem_map, List.mem_filter, Bool.and_eq_true, Bool.not_eq_true', List.isEmpty_eq_false_iff,
    beq_iff_eq] at ha hb
  obtain ⟨⟨a', x⟩, ⟨_, ha1, ha2⟩, rfl⟩ := ha
  obtain ⟨⟨b', y⟩, ⟨_, hb1, hb2⟩, rfl⟩ := hb
  simp only at ha1 ha2 hb1 hb2 e ⊢
  rw [← dropLast_concat_keyName ha1, ← dropLast_concat_keyName hb1, ha2, hb2, e]

theorem PFS.iterdir_isEmpty (s : PFS) (p : Path) :
    (s.iterdir p).isEmpty = true ↔ ∀ nm, alGet s (p ++ [nm]) = none := by
  rw [List.isEmpty_iff, List.eq_nil_iff_forall_not_mem]
  constructor
  · intro h nm
    have := h nm
    rw [PFS.mem_iterdir] at this
    cases hg : alGet s (p ++ [nm]) with
    | none => rfl
    | some x => simp [hg] at this
  · intro h nm
    rw [PFS.mem_iterdir, h nm]
    simp

theorem PFS.iterdir_isEmpty' (s : PFS) (p : Path) :
    (s.iterdir p).isEmpty = true ↔ ∀ nm, s.get (p ++ [nm]) = none := by
  rw [PFS.iterdir_isEmpty]
  constructor
  · intro h nm; rw [PFS.get_of_ne_nil _ (by simp)]; exact h nm
  · intro h nm; rw [← PFS.get_of_ne_nil _ (by simp)]; exact h nm

/-! ### the POSIX primitives on states that allow them -/

/-- one step of `mkdir -p` -/
def PFS.mkdirStep (f : PFS) (a : Path) : Except StoreErr PFS :=
  match f.get a with
  | none => .ok (f.set a .dir)
  | some .dir => .ok f
  | some _ => .error .other

theorem PFS.mkdirP_eq (s : PFS) (p : Path) :
    s.mkdirP p = (ancestors p ++ (if p.isEmpty then [] else [p])).foldlM PFS.mkdirStep s := rfl

theorem PFS.mkdirP_list (as : List Path) :
    ∀ s : PFS, (∀ a ∈ as, a ≠ []) → (∀ a ∈ as, s.get a = none ∨ s.get a = some .dir) →
      ∃ s', as.foldlM PFS.mkdirStep s = .ok s' ∧
        (∀ q, s'.get q = if (q ∈ as ∧ s.get q = none) then some .dir else s.get q) ∧ (s.ND → s'.ND) := by
  induction as with
  | nil =>
    intro s _ _
    exact ⟨s, rfl, fun q => by simp, fun h => h⟩
  | cons a as ih =>
    intro s hne hok
    have ha : a ≠ [] := hne a List.mem_cons_self
    rw [List.foldlM_cons]
    rcases hok a List.mem_cons_self with hg | hg
    · have hstep : PFS.mkdirStep s a = .ok (s.set a .dir) := by simp [PFS.mkdirStep, hg]
      obtain ⟨s', h1, h2, h3⟩ := ih (s.set a .dir) (fun b hb => hne b (List.mem_cons_of_mem _ hb)) (by
        intro b hb
        rw [PFS.get_set _ ha]
        by_cases e : a = b
        · simp [e]
        · simp only [e, ↓reduceIte]; exact hok b (List.mem_cons_of_mem _ hb))
      refine ⟨s', by rw [hstep]; exact h1, ?_, fun h => h3 (PFS.nd_set h _ _)⟩
      intro q
      rw [h2 q, PFS.get_set _ ha]
      by_cases e : a = q
      · subst e; simp [hg]
      · have e' : ¬ q = a := fun x => e x.symm
        simp [e, e']
    · have hstep : PFS.mkdirStep s a = .ok s := by simp [PFS.mkdirStep, hg]
      obtain ⟨s', h1, h2, h3⟩ := ih s (fun b hb => hne b (List.mem_cons_of_mem _ hb))
        (fun b hb => hok b (List.mem_cons_of_mem _ hb))
      refine ⟨s', by rw [hstep]; exact h1, ?_, h3⟩
      intro q
      rw [h2 q]
      by_cases e : q = a
      · subst e; simp [hg]
      · simp [e]

theorem mem_mkdirP_list (p q : Path) :
    q ∈ ancestors p ++ (if p.isEmpty then [] else [p]) ↔ q ≠ [] ∧ q <+: p := by
  rw [List.mem_append, mem_ancestors]
  constructor
  · rintro (⟨h1, h2, _⟩ | h)
    · exact ⟨h1, h2⟩
    · split at h
      · simp at h
      · rename_i hp
        simp only [List.mem_cons, List.not_mem_nil, or_false] at h
        subst h
        exact ⟨by simpa using hp, List.prefix_refl _⟩
  · rintro ⟨h1, h2⟩
    by_cases e : q = p
    · right
      subst e
      have : q.isEmpty = false := by simpa using h1
      simp [this]
    · left; exact ⟨h1, h2, e⟩

/-- `mkdir -p` succeeds when no regular file is in the way, and creates exactly the missing prefixes -/
theorem PFS.mkdirP_spec (s : PFS) (p : Path) (h : ∀ a, a ≠ [] → a <+: p → s.get a = none ∨ s.get a = some .dir) :
    ∃ s', s.mkdirP p = .ok s' ∧
      (∀ q, s'.get q = if (q ≠ [] ∧ q <+: p ∧ s.get q = none) then some .dir else s.get q) ∧ (s.ND → s'.ND) := by
  obtain ⟨s', h1, h2, h3⟩ := PFS.mkdirP_list (ancestors p ++ (if p.isEmpty then [] else [p])) s
    (fun a ha => ((mem_mkdirP_list p a).mp ha).1)
    (fun a ha => h a ((mem_mkdirP_list p a).mp ha).1 ((mem_mkdirP_list p a).mp ha).2)
  refine ⟨s', by rw [PFS.mkdirP_eq]; exact h1, ?_, h3⟩
  intro q
  rw [h2 q]
  simp only [mem_mkdirP_list, and_assoc]

theorem PFS.write_ok (s : PFS) (p : Path) (n : PNode) (h1 : s.get p ≠ some .dir) (h2 : s.get p.dropLast = some .dir) :
    s.write p n = .ok (s.set p n) := by
  unfold PFS.write
  have : s.isDirB p.dropLast = true := by simp [PFS.isDirB, h2]
  rw [this]
  cases hg : s.get p with
  | none => simp
  | some x =>
    cases x with
    | dir => exact absurd hg h1
    | dfile d => simp
    | mfile m => simp

theorem PFS.unlink_file (s : PFS) (p : Path) {x : PNode} (h : s.get p = some x) (hx : x ≠ .dir) :
    s.unlinkMissingOk p = .ok (s.erase p) := by
  unfold PFS.unlinkMissingOk PFS.unlink
  rw [h]
  cases x with
  | dir => exact absurd rfl hx
  | dfile d => rfl
  | mfile m => rfl

theorem PFS.unlink_missing (s : PFS) (p : Path) (h : s.get p = none)
    (hw : ∀ a ∈ ancestors p, s.get a = none ∨ s.get a = some .dir) :
    s.unlinkMissingOk p = .ok s := by
  unfold PFS.unlinkMissingOk PFS.unlink
  rw [h]
  have : s.fileOnWay p = false := by
    unfold PFS.fileOnWay
    rw [List.any_eq_false]
    intro a ha
    rcases hw a ha with e | e <;> simp [e]
  simp [this]

theorem PFS.rmdir_ok (s : PFS) (p : Path) (hp : p ≠ []) (h : s.get p = some .dir) (he : (s.iterdir p).isEmpty = true) :
    s.rmdir p = .ok (s.erase p) := by
  unfold PFS.rmdir
  have : p.isEmpty = false := by simpa using hp
  simp [this, h, he]

end Liquer

namespace Liquer

/-! ### plain keys and their paths -/

/-- a component a `FileStore` key may use: non-empty, not `.`, `..` or the reserved folder name -/
def PlainC (c : Str) : Prop := c ≠ [] ∧ c ≠ dot ∧ c ≠ dotdot ∧ c ≠ metaDirName

def PlainKey (k : Key) : Prop := ∀ c ∈ k, PlainC c

def PlainFS (fs : FS) : Prop := ∀ q, (fs.get q).isSome = true → PlainKey q

/-- the metadata file of the key `k`, relative to the root directory -/
def metaRel (k : Key) : List Str := k.dropLast ++ [metaDirName, keyName k ++ jsonExt]

theorem PlainKey.nil : PlainKey [] := by intro c hc; cases hc

theorem PlainKey.no_meta {k : Key} (h : PlainKey k) : metaDirName ∉ k := fun hm => (h _ hm).2.2.2 rfl

theorem PlainKey.concat {k : Key} {c : Str} (h : PlainKey k) (hc : PlainC c) : PlainKey (k ++ [c]) := by
  intro x hx
  rcases List.mem_append.mp hx with h1 | h1
  · exact h x h1
  · simp only [List.mem_cons, List.not_mem_nil, or_false] at h1; subst h1; exact hc

theorem PlainKey.sub {k a : Key} (h : PlainKey k) (ha : ∀ c ∈ a, c ∈ k) : PlainKey a := fun c hc => h c (ha c hc)

theorem PlainKey.dropLast {k : Key} (h : PlainKey k) : PlainKey k.dropLast := h.sub (fun _ hc => List.dropLast_subset _ hc)

theorem PlainKey.last {k : Key} {c : Str} (h : PlainKey (k ++ [c])) : PlainC c := h c (by simp)

theorem keyName_append (root : Path) {k : Key} (hk : k ≠ []) : keyName (root ++ k) = keyName k := by
  unfold keyName
  rw [List.getLast?_append, List.getLast?_eq_some_getLast hk]
  simp

theorem keyName_mem {k : Key} (hk : k ≠ []) : keyName k ∈ k := by
  unfold keyName
  rw [List.getLast?_eq_some_getLast hk]
  exact List.getLast_mem hk

theorem keyName_concat (k : Key) (c : Str) : keyName (k ++ [c]) = c := by simp [keyName]

theorem compsParts_plain {k : Key} (h : PlainKey k) : compsParts k = k := by
  unfold compsParts
  rw [List.filter_eq_self]
  intro c hc
  obtain ⟨h1, h2, _⟩ := h c hc
  simp [h1, h2]

theorem compsAbsolute_plain {k : Key} (h : PlainKey k) : compsAbsolute k = false := by
  cases k with
  | nil => rfl
  | cons c t =>
    cases c with
    | nil => exact absurd rfl (h [] (by simp)).1
    | cons x xs => rfl

theorem compsOK_plain {k : Key} (h : PlainKey k) : compsOK k = true := by
  rw [compsOK_iff]
  refine ⟨compsAbsolute_plain h, ?_⟩
  rw [compsParts_plain h]
  exact fun hm => (h _ hm).2.2.1 rfl

theorem lexName_plain (root : Path) {k : Key} (h : PlainKey k) (hk : k ≠ []) :
    (File.lexName root k == metaDirName) = false := by
  unfold File.lexName
  rw [compsParts_plain h, keyName_append root hk, beq_eq_false_iff_ne]
  exact (h _ (keyName_mem hk)).2.2.2

theorem File.path_plain (root : Path) {k : Key} (h : PlainKey k) : File.path root k = .ok (root ++ k) := by
  unfold File.path
  simp only [compsOK_plain h, Bool.not_true, Bool.false_eq_true, ↓reduceIte]
  by_cases hk : k = []
  · subst hk; simp
  · have hke : k.isEmpty = false := by simpa using hk
    simp only [hke, Bool.false_eq_true, ↓reduceIte, lexName_plain root h hk]
    unfold pathOfC lexBase
    rw [compsAbsolute_plain h, compsParts_plain h]
    simp only [Bool.false_eq_true, ↓reduceIte]
    rw [osResolve_plain _ _ (fun hm => (h _ hm).2.2.1 rfl)]

theorem File.metaPath_plain (root : Path) {k : Key} (h : PlainKey k) (hk : k ≠ []) :
    File.metaPath root k = .ok (root ++ metaRel k) := by
  unfold File.metaPath
  have hok : compsMetaOK k = true := by
    unfold compsMetaOK
    rw [compsOK_plain h, compsParts_plain h]
    simpa using hk
  simp only [hok, Bool.not_true, Bool.false_eq_true, ↓reduceIte, lexName_plain root h hk]
  unfold metaPathOfC lexBase metaRel keyName
  simp only [compsAbsolute_plain h, compsParts_plain h, List.getLast?_eq_some_getLast hk, Bool.false_eq_true, ↓reduceIte,
    Option.getD_some]
  rw [osResolve_plain]
  intro hm
  rcases List.mem_append.mp hm with h1 | h1
  · exact (h.dropLast _ h1).2.2.1 rfl
  · simp only [List.mem_cons, List.not_mem_nil, or_false] at h1
    rcases h1 with h1 | h1
    · exact absurd h1 (by decide)
    · exact jsonExt_ne_dotdot _ h1.symm

/-! ### shapes of relative paths -/

theorem json_ne_meta (nm : Str) : nm ++ jsonExt ≠ metaDirName := by
  intro e
  have := congrArg List.getLast? e
  have h1 : jsonExt.getLast? = some 'n' := by decide
  have h2 : metaDirName.getLast? = some '_' := by decide
  rw [List.getLast?_append, h1, h2] at this
  simp at this

theorem meta_mem_metaRel (k : Key) : metaDirName ∈ metaRel k := by simp [metaRel]

theorem metaRel_ne_nil (k : Key) : metaRel k ≠ [] := by simp [metaRel]

theorem metaRel_ne_mdir (k k' : Key) : metaRel k ≠ k' ++ [metaDirName] := by
  intro e
  have : metaRel k = (k.dropLast ++ [metaDirName]) ++ [keyName k ++ jsonExt] := by simp [metaRel]
  rw [this] at e
  exact json_ne_meta _ (by simpa using (List.append_inj' e rfl).2)

theorem metaRel_split {k k' : Key} {nm : Str} (hk' : k' ≠ []) (e : k ++ [metaDirName, nm] = metaRel k') :
    k = k'.dropLast ∧ nm = keyName k' ++ jsonExt ∧ k' = k ++ [keyName k'] := by
  unfold metaRel at e
  obtain ⟨h1, h2⟩ := List.append_inj' e rfl
  refine ⟨h1, by simpa using h2, ?_⟩
  rw [h1]; exact (dropLast_concat_keyName hk').symm

theorem metaRel_inj {k k' : Key} (hk : k ≠ []) (hk' : k' ≠ []) (e : metaRel k = metaRel k') : k = k' := by
  obtain ⟨h1, h2, h3⟩ := metaRel_split hk' (show k.dropLast ++ [metaDirName, keyName k ++ jsonExt] = metaRel k' from e)
  have : keyName k = keyName k' := List.append_cancel_right h2
  rw [h3, ← this]
  exact (dropLast_concat_keyName hk).symm

theorem root_append_inj (root : Path) {a b : List Str} : root ++ a = root ++ b ↔ a = b :=
  ⟨List.append_cancel_left, fun e => e ▸ rfl⟩

/-! ### the simulation relation -/

/-- why a node sits at the relative path `t` below the root directory of the store -/
inductive Just (fs : FS) (t : List Str) (x : PNode) : Prop
  | dir (h : fs.get t = some .dir) (hx : x = .dir)
  | file (d : Data) (m : UMeta) (h : fs.get t = some (.file d m)) (hx : x = .dfile d)
  | mdir (k : Key) (ht : t = k ++ [metaDirName]) (hx : x = .dir) (h : k = [] ∨ fs.get k = some .dir)
  | mfile (k : Key) (d : Data) (m : UMeta) (ht : t = metaRel k) (hx : x = .mfile m) (h : fs.get k = some (.file d m))

/-- the POSIX tree below `root` holds exactly: a directory for every directory of the specification state, a data
file and a metadata file (`__metadata__/<name>.json` next to it) for every file, and `__metadata__` folders inside
existing directories — nothing else.  Paths are unique, the root directory and its ancestors exist. -/
structure SimF (root : Path) (s : PFS) (fs : FS) : Prop where
  nd : s.ND
  ready : rootReady root s
  cdir : ∀ k, fs.get k = some .dir → s.get (root ++ k) = some .dir
  cfile : ∀ k d m, fs.get k = some (.file d m) →
    s.get (root ++ k) = some (.dfile d) ∧ s.get (root ++ metaRel k) = some (.mfile m)
  sound : ∀ t x, t ≠ [] → s.get (root ++ t) = some x → Just fs t x

def dnode : Option Node → Option PNode
  | some (.file d _) => some (.dfile d)
  | some .dir => some .dir
  | none => none

def mnode : Option Node → Option PNode
  | some (.file _ m) => some (.mfile m)
  | _ => none

variable {root : Path} {s : PFS} {fs : FS}

theorem PlainFS.of_get (hp : PlainFS fs) {q : Key} {n : Node} (h : fs.get q = some n) : PlainKey q :=
  hp q (by simp [h])

theorem PlainFS.no_meta (hp : PlainFS fs) {q : Key} {n : Node} (h : fs.get q = some n) : metaDirName ∉ q :=
  (hp.of_get h).no_meta

/-- the node at a path without `__metadata__` component -/
theorem SimF.get_data (h : SimF root s fs) {k : Key} (hk : k ≠ []) (hm : metaDirName ∉ k) :
    s.get (root ++ k) = dnode (fs.get k) := by
  cases hg : fs.get k with
  | none =>
    cases hs : s.get (root ++ k) with
    | none => rfl
    | some x =>
      exfalso
      cases h.sound k x hk hs with
      | dir h' _ => rw [hg] at h'; cases h'
      | file d m h' _ => rw [hg] at h'; cases h'
      | mdir k' ht _ _ => exact hm (ht ▸ by simp)
      | mfile k' d m ht _ _ => exact hm (ht ▸ meta_mem_metaRel k')
  | some n =>
    cases n with
    | dir => exact h.cdir k hg
    | file d m => exact (h.cfile k d m hg).1

/-- a `__metadata__` folder is a directory inside an existing directory -/
theorem SimF.get_mdir (h : SimF root s fs) (hp : PlainFS fs) {k : Key} :
    s.get (root ++ (k ++ [metaDirName])) = none ∨
    (s.get (root ++ (k ++ [metaDirName])) = some .dir ∧ (k = [] ∨ fs.get k = some .dir)) := by
  cases hs : s.get (root ++ (k ++ [metaDirName])) with
  | none => left; rfl
  | some x =>
    right
    cases h.sound _ x (by simp) hs with
    | dir h' _ => exact absurd (hp.no_meta h' (by simp)) id
    | file d m h' _ => exact absurd (hp.no_meta h' (by simp)) id
    | mdir k' ht hx hk' =>
      have : k = k' := List.append_cancel_right ht
      subst this
      exact ⟨by rw [hx], hk'⟩
    | mfile k' d m ht _ _ => exact absurd ht.symm (metaRel_ne_mdir k' k)

/-- a node inside a `__metadata__` folder is the metadata file of a file key -/
theorem SimF.get_mfile (h : SimF root s fs) (hp : PlainFS fs) (ht : FS.Tree fs) {k : Key} {nm : Str} {x : PNode}
    (hs : s.get (root ++ (k ++ [metaDirName, nm])) = some x) :
    ∃ k' d m, k' ≠ [] ∧ k'.dropLast = k ∧ nm = keyName k' ++ jsonExt ∧ fs.get k' = some (.file d m) ∧ x = .mfile m := by
  cases h.sound _ x (by simp) hs with
  | dir h' _ => exact absurd (hp.no_meta h' (by simp)) id
  | file d m h' _ => exact absurd (hp.no_meta h' (by simp)) id
  | mdir k' ht' hx hk' =>
    exfalso
    have e : (k ++ [metaDirName]) ++ [nm] = k' ++ [metaDirName] := by simpa using ht'
    have h1 := (List.append_inj' e rfl).1
    rcases hk' with hk' | hk'
    · subst hk'; simp at h1
    · exact hp.no_meta hk' (by rw [← h1]; simp)
  | mfile k' d m ht' hx hk' =>
    have hne : k' ≠ [] := ht.nonroot k' (by simp [hk'])
    obtain ⟨h1, h2, _⟩ := metaRel_split hne ht'
    exact ⟨k', d, m, hne, h1.symm, h2, hk', hx⟩

end Liquer

namespace Liquer

variable {root : Path} {s : PFS} {fs : FS}

/-- the metadata file of a plain key exists exactly for files -/
theorem SimF.get_meta (h : SimF root s fs) (hp : PlainFS fs) (ht : FS.Tree fs) {k : Key} (hk : k ≠ []) :
    s.get (root ++ metaRel k) = mnode (fs.get k) := by
  cases hg : fs.get k with
  | some n =>
    cases n with
    | file d m => exact (h.cfile k d m hg).2
    | dir =>
      cases hs : s.get (root ++ metaRel k) with
      | none => rfl
      | some x =>
        exfalso
        obtain ⟨k', d, m, hne, h1, h2, h3, _⟩ := h.get_mfile hp ht hs
        have : keyName k = keyName k' := List.append_cancel_right h2
        have : k = k' := by
          rw [← dropLast_concat_keyName hk, ← dropLast_concat_keyName hne, h1, this]
        subst this
        rw [hg] at h3; cases h3
  | none =>
    cases hs : s.get (root ++ metaRel k) with
    | none => rfl
    | some x =>
      exfalso
      obtain ⟨k', d, m, hne, h1, h2, h3, _⟩ := h.get_mfile hp ht hs
      have : keyName k = keyName k' := List.append_cancel_right h2
      have : k = k' := by
        rw [← dropLast_concat_keyName hk, ← dropLast_concat_keyName hne, h1, this]
      subst this
      rw [hg] at h3; cases h3

/-! ### reads under the simulation -/

theorem SimF.contains (h : SimF root s fs) {k : Key} (hk : PlainKey k) :
    File.contains root s k = .ok (fs.containsB k) := by
  unfold File.contains FS.containsB
  by_cases hk0 : k = []
  · subst hk0; rfl
  · have hke : k.isEmpty = false := by simpa using hk0
    simp only [hke, Bool.false_eq_true, ↓reduceIte, File.path_plain root hk, bind, Except.bind, pure, Except.pure,
      Bool.false_or, PFS.existsB]
    rw [h.get_data hk0 hk.no_meta]
    cases fs.get k with
    | none => rfl
    | some n => cases n <;> rfl

theorem SimF.isDir (h : SimF root s fs) {k : Key} (hk : PlainKey k) :
    File.isDir root s k = .ok (fs.isDirB k) := by
  unfold File.isDir FS.isDirB
  by_cases hk0 : k = []
  · subst hk0; rfl
  · have hke : k.isEmpty = false := by simpa using hk0
    simp only [hke, Bool.false_eq_true, ↓reduceIte, File.path_plain root hk, bind, Except.bind, pure, Except.pure,
      Bool.false_or, PFS.isDirB]
    rw [h.get_data hk0 hk.no_meta]
    congr 1
    rw [Bool.eq_iff_iff, beq_iff_eq, beq_iff_eq]
    cases fs.get k with
    | none => simp [dnode]
    | some n => cases n <;> simp [dnode]

/-- `get_bytes`: the same data, or a failure on both sides (of a different kind for directories) -/
theorem SimF.getBytes (h : SimF root s fs) (ht : FS.Tree fs) {k : Key} (hk : PlainKey k) :
    (∃ d, File.getBytes root s k = .ok d ∧ specOps.getBytes fs k = .ok d) ∨
    (∃ e e', File.getBytes root s k = .error e ∧ specOps.getBytes fs k = .error e') := by
  unfold File.getBytes
  simp only [File.path_plain root hk, bind, Except.bind, specOps]
  by_cases hk0 : k = []
  · subst hk0
    have hr : s.get (root ++ []) = some .dir := by rw [List.append_nil]; exact h.ready root (List.prefix_refl _)
    have hn : fs.get [] = none := by
      cases hg : fs.get [] with
      | none => rfl
      | some n => exact absurd rfl (ht.nonroot [] (by simp [hg]))
    right
    rw [hr, hn]
    exact ⟨_, _, rfl, rfl⟩
  · rw [h.get_data hk0 hk.no_meta]
    cases fs.get k with
    | none => right; exact ⟨_, _, rfl, rfl⟩
    | some n =>
      cases n with
      | dir => right; exact ⟨_, _, rfl, rfl⟩
      | file d m => left; exact ⟨d, rfl, rfl⟩

theorem SimF.getMeta (h : SimF root s fs) (hp : PlainFS fs) (ht : FS.Tree fs) {k : Key} (hk : PlainKey k) :
    File.getMeta root s k = specOps.getMeta fs k := by
  unfold File.getMeta
  simp only [File.path_plain root hk, bind, Except.bind, specOps]
  by_cases hk0 : k = []
  · subst hk0
    have hr : s.get root = some .dir := h.ready root (List.prefix_refl _)
    have hn : fs.get [] = none := by
      cases hg : fs.get [] with
      | none => rfl
      | some n => exact absurd rfl (ht.nonroot [] (by simp [hg]))
    simp [PFS.isDirB, hr, hn, pure, Except.pure, keyName]
  · have hke : k.isEmpty = false := by simpa using hk0
    simp only [PFS.isDirB, PFS.existsB, File.metaPath_plain root hk hk0, File.readMeta, h.get_data hk0 hk.no_meta,
      h.get_meta hp ht hk0]
    cases fs.get k with
    | none => simp [dnode, mnode, hk0]
    | some n =>
      cases n with
      | dir => simp [dnode, pure, Except.pure]
      | file d m => simp [dnode, mnode]

theorem SimF.listing_perm (h : SimF root s fs) (hp : PlainFS fs) (ht : FS.Tree fs) {k : Key} (hk : PlainKey k) :
    ((s.iterdir (root ++ k)).filter (· != metaDirName)).Perm (fs.children k) := by
  rw [List.perm_ext_iff_of_nodup ((PFS.iterdir_nodup h.nd _).filter _) (children_nodup ht k)]
  intro nm
  rw [List.mem_filter, PFS.mem_iterdir, mem_children_iff, ← PFS.get_of_ne_nil _ (by simp), List.append_assoc]
  constructor
  · rintro ⟨h1, h2⟩
    have hnm : nm ≠ metaDirName := by simpa using h2
    have hm : metaDirName ∉ k ++ [nm] := by
      intro hx
      rcases List.mem_append.mp hx with e | e
      · exact hk.no_meta e
      · simp at e; exact hnm e.symm
    rw [h.get_data (by simp) hm] at h1
    cases hg : fs.get (k ++ [nm]) with
    | none => simp [hg, dnode] at h1
    | some n => rfl
  · intro h1
    obtain ⟨n, hn⟩ := Option.isSome_iff_exists.mp h1
    have hpl := hp.of_get hn
    refine ⟨?_, ?_⟩
    · rw [h.get_data (by simp) hpl.no_meta, hn]
      cases n <;> rfl
    · have := hpl.last.2.2.2
      simpa using this

theorem SimF.listdir (h : SimF root s fs) (hp : PlainFS fs) (ht : FS.Tree fs) {k : Key} (hk : PlainKey k) :
    (fs.isDirB k = false ∧ File.listdir root s k = .ok none) ∨
    (fs.isDirB k = true ∧ ∃ l, File.listdir root s k = .ok (some l) ∧ l.Perm (fs.children k)) := by
  unfold File.listdir
  simp only [h.isDir hk, File.path_plain root hk, bind, Except.bind, pure, Except.pure]
  by_cases hd : fs.isDirB k = true
  · right
    refine ⟨hd, _, by simp only [hd, ↓reduceIte], h.listing_perm hp ht hk⟩
  · left
    have : fs.isDirB k = false := by simpa using hd
    exact ⟨this, by simp [this]⟩

end Liquer

namespace Liquer

variable {root : Path} {s : PFS} {fs : FS}

/-! ### paths below the root directory -/

theorem prefix_root_ne {root a : Path} {t : List Str} (ha : a <+: root) (ht : t ≠ []) : a ≠ root ++ t := by
  intro e
  have h1 := ha.length_le
  have h2 : 0 < t.length := List.length_pos_iff.mpr ht
  rw [e, List.length_append] at h1
  omega

theorem prefix_root_cases {root a : Path} {k : List Str} (h : a <+: root ++ k) :
    a <+: root ∨ ∃ t, t ≠ [] ∧ a = root ++ t ∧ t <+: k := by
  rcases List.prefix_or_prefix_of_prefix h (List.prefix_append root k) with h1 | ⟨t, rfl⟩
  · exact Or.inl h1
  · by_cases ht : t = []
    · subst ht; left; simp
    · right; exact ⟨t, ht, rfl, (List.prefix_append_right_inj root).mp h⟩

/-- the directories on the way to an existing directory exist -/
theorem SimF.chain (h : SimF root s fs) (ht : FS.Tree fs) {k : Key} (hd : k = [] ∨ fs.get k = some .dir) :
    ∀ a, a <+: root ++ k → s.get a = some .dir := by
  intro a ha
  rcases prefix_root_cases ha with h1 | ⟨t, ht0, rfl, htk⟩
  · exact h.ready a h1
  · apply h.cdir
    by_cases e : t = k
    · subst e
      rcases hd with hd | hd
      · exact absurd hd ht0
      · exact hd
    · rcases hd with hd | hd
      · subst hd; exact absurd (List.prefix_nil.mp htk) ht0
      · exact ht.anc k (by simp [hd]) t ((mem_ancestors t k).mpr ⟨ht0, htk, e⟩)

/-! ### the initial state -/

theorem fileInit_spec (root : Path) :
    (fileInit root).ND ∧ ∀ q, (fileInit root).get q = if q <+: root then some .dir else none := by
  obtain ⟨s', h1, h2, h3⟩ := PFS.mkdirP_spec [] root (fun a ha _ => by left; rw [PFS.get_of_ne_nil _ ha]; rfl)
  have : fileInit root = s' := by unfold fileInit; rw [h1]
  rw [this]
  refine ⟨h3 PFS.nd_nil, ?_⟩
  intro q
  rw [h2 q]
  by_cases hq : q = []
  · subst hq; simp [PFS.get_root]
  · have : PFS.get [] q = none := by rw [PFS.get_of_ne_nil _ hq]; rfl
    simp [hq, this]

theorem simF_init (root : Path) : SimF root (fileInit root) [] := by
  obtain ⟨hnd, hget⟩ := fileInit_spec root
  refine ⟨hnd, ?_, ?_, ?_, ?_⟩
  · intro a ha; rw [hget]; simp [ha]
  · intro k hk; simp [FS.get_nil] at hk
  · intro k d m hk; simp [FS.get_nil] at hk
  · intro t x ht hs
    rw [hget] at hs
    have : ¬ (root ++ t) <+: root := by
      intro hp
      exact prefix_root_ne hp ht rfl
    simp [this] at hs

theorem plainFS_nil : PlainFS [] := by intro q hq; simp [FS.get_nil] at hq

end Liquer
