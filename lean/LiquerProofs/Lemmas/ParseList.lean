/-
C02 helper lemmas, part 5 (S1/S2): parameters (strings and links), dash-separated parameter lists
and actions. Links are handled through the induction hypothesis `LinkIH` on the nesting depth.
Fuel: a nonterminal reading a text of length `L` needs `8 * L + k` units, `k` its grammar level.
-/
import LiquerProofs.Lemmas.ParseDefs

namespace Liquer
open PS

/-- the round trip of every well-formed link query nested less deeply than `d` -/
def LinkIH (dec : List UInt8 → List Char) (d : Nat) : Prop :=
  ∀ q : Query, q.depth < d → wfInner q = true → ∀ (rest : Str) (p n : Nat),
    NoWs (q.encode T ++ rest) → qStop rest = true → 8 * (q.encode T).length + 9 ≤ n →
    ∃ q' p', parseQuery dec n ⟨q.encode T ++ rest, p⟩ = some (q', ⟨rest, p'⟩) ∧ q'.erase = q.erase

variable {dec : List UInt8 → List Char}

theorem qStop_linkClose (rest : Str) : qStop ('~' :: 'E' :: rest) = true := by
  simp [qStop, isPrefix]

/-- S1: a parameter -/
theorem param_spec (hd : DecOK dec) {d : Nat} (ih : LinkIH dec d) (x : Param) (hdep : x.depth ≤ d)
    (hwf : wfParam x = true) (rest : Str) (hs : pieceStop rest = true)
    (hws : NoWs (x.encode T ++ rest)) (p n : Nat) (hn : 8 * (x.encode T).length + 1 ≤ n) :
    ∃ x' p', parseParameter dec n ⟨x.encode T ++ rest, p⟩ = some (x', ⟨rest, p'⟩) ∧
      x'.erase = x.erase := by
  cases n with
  | zero => omega
  | succ n =>
    cases x with
    | str s pos =>
      obtain ⟨p', hp'⟩ := parseParameter_str hd s rest hs hws.right p n
      exact ⟨_, p', by simpa [Param.encode] using hp', by simp [Param.erase]⟩
    | link q pos =>
      simp only [Param.encode, List.length_append, List.length_cons, List.length_nil] at hn
      simp only [Param.depth] at hdep
      simp only [wfParam] at hwf
      have e : (Param.link q pos).encode T ++ rest =
          ['~', 'X', '~'] ++ (q.encode T ++ ('~' :: 'E' :: rest)) := by simp [Param.encode]
      rw [e] at hws ⊢
      obtain ⟨q', p1, hq, he⟩ := ih q (by omega) hwf ('~' :: 'E' :: rest) (p + 3) n hws.right
        (qStop_linkClose rest) (by omega)
      have hclose : lit Gen.linkClose ⟨'~' :: 'E' :: rest, p1⟩ = some ⟨rest, p1 + 2⟩ := by
        rw [Inst.link_shape.2]
        exact lit_append (l := ['~', 'E']) hws.right.right
      have hopen : lit Gen.linkOpen ⟨['~', 'X', '~'] ++ (q.encode T ++ ('~' :: 'E' :: rest)), p⟩ =
          some ⟨q.encode T ++ ('~' :: 'E' :: rest), p + 3⟩ := by
        rw [Inst.link_shape.1]
        exact lit_append hws
      refine ⟨.link q' p, p1 + 2, ?_, by simp [Param.erase, he]⟩
      simp only [parseParameter, skipWs_noWs hws, hopen, hq, hclose]

/-! ### parameter lists -/

theorem parseDashes_cons {y : Str} {p : Nat} (hws : NoWs ('-' :: y)) (hy : stopAt [(45, 45)] y = true) :
    parseDashes ⟨'-' :: y, p⟩ = some ⟨y, p + 1⟩ := by
  have := takeWhile_dash_replicate 1 y hy
  simp only [List.replicate_one, List.singleton_append] at this
  simp [parseDashes, skipWs_noWs hws, this]

theorem parseDashes_none {y : Str} {p : Nat} (hws : NoWs y) (hy : stopAt [(45, 45)] y = true) :
    parseDashes ⟨y, p⟩ = none := by
  have := takeWhile_dash_replicate 0 y hy
  simp only [List.replicate_zero, List.nil_append] at this
  simp [parseDashes, skipWs_noWs hws, this]

theorem lit_dash_none {y : Str} {p : Nat} (hws : NoWs y) (hy : stopAt [(45, 45)] y = true) :
    lit ['-'] ⟨y, p⟩ = none := by
  cases y with
  | nil => exact lit_nil_input (by simp)
  | cons c t =>
    apply lit_ne_head hws
    rintro rfl
    simp [stopAt] at hy; revert hy; decide

theorem stopAt_dash_of_tokSafe {c : Char} (t : Str) (hc : tokSafe c = true) :
    stopAt [(45, 45)] (c :: t) = true := by
  have : c ≠ '-' := by rintro rfl; revert hc; decide
  have h2 : c.toNat ≠ 45 := fun e => this ((char_eq_iff _ _).mpr e)
  simp only [stopAt, inRanges, List.any_cons, List.any_nil, Bool.or_false, Bool.not_eq_true',
    Bool.and_eq_false_imp, decide_eq_true_eq, decide_eq_false_iff_not]
  omega

theorem encodeToken_ne_nil (hd : DecOK dec) {s : Str} (h : s ≠ []) : encodeToken T s ≠ [] := by
  intro he
  have := decodeToken_encodeToken T dec Inst.escapeTable_ok hd s
  rw [he] at this
  exact h (by simpa [decodeToken, decodeTokenF] using this.symm)

/-- the text of a parameter followed by `rest'` does not begin with a dash, unless the parameter is
the empty string and `rest'` does -/
theorem param_noDash (hd : DecOK dec) (x : Param) (rest' : Str)
    (h : (∀ pos, x = .str [] pos → stopAt [(45, 45)] rest' = true)) :
    stopAt [(45, 45)] (x.encode T ++ rest') = true := by
  cases x with
  | link q pos => simp [Param.encode, stopAt]; decide
  | str s pos =>
    simp only [Param.encode]
    cases hs : s with
    | nil =>
      subst hs
      have : encodeToken T [] = [] := by
        simp [encodeToken, applyTable, replaceAll_nil, quote_nil, T]
        sorry
      rw [this]; exact h pos rfl
    | cons a b =>
      have hne := encodeToken_ne_nil hd (s := a :: b) (by simp)
      cases he : encodeToken T (a :: b) with
      | nil => exact absurd he hne
      | cons c t =>
        have : tokSafe c = true :=
          encodeToken_safe' T Inst.escapeTable_sepCovered (a :: b) c (by rw [he]; simp)
        exact stopAt_dash_of_tokSafe _ this

end Liquer
