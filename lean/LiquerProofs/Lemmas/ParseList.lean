/-
C02 helper lemmas, part 5 (S1/S2): parameters (strings and links), dash-separated parameter lists
and actions. Links are handled through the induction hypothesis `LinkIH` on the nesting depth.
Fuel: a nonterminal reading a text of length `L` needs `8 * L + k` units, `k` its grammar level.
-/
import LiquerProofs.Lemmas.ParseDefs

namespace Liquer
open PS

/-- the round trip of every well-formed link query nested less deeply than `d` -/
def LinkIH (dec : List UInt8 → List Char) (d : Nat) : Prop :=
  ∀ q : Query, q.depth < d → wfInner q = true → ∀ (rest : Str) (p n : Nat),
    NoWs (q.encode T ++ rest) → qStop rest = true → 8 * (q.encode T).length + 9 ≤ n →
    ∃ q' p', parseQuery dec n ⟨q.encode T ++ rest, p⟩ = some (q', ⟨rest, p'⟩) ∧ q'.erase = q.erase

variable {dec : List UInt8 → List Char}

theorem qStop_linkClose (rest : Str) : qStop ('~' :: 'E' :: rest) = true := by
  simp [qStop, isPrefix]

/-- S1: a parameter -/
theorem param_spec (hd : DecOK dec) {d : Nat} (ih : LinkIH dec d) (x : Param) (hdep : x.depth ≤ d)
    (hwf : wfParam x = true) (rest : Str) (hs : pieceStop rest = true)
    (hws : NoWs (x.encode T ++ rest)) (p n : Nat) (hn : 8 * (x.encode T).length + 1 ≤ n) :
    ∃ x' p', parseParameter dec n ⟨x.encode T ++ rest, p⟩ = some (x', ⟨rest, p'⟩) ∧
      x'.erase = x.erase := by
  cases n with
  | zero => omega
  | succ n =>
    cases x with
    | str s pos =>
      obtain ⟨p', hp'⟩ := parseParameter_str hd s rest hs hws.right p n
      exact ⟨_, p', by simpa [Param.encode] using hp', by simp [Param.erase]⟩
    | link q pos =>
      simp only [Param.encode, List.length_append, List.length_cons, List.length_nil] at hn
      simp only [Param.depth] at hdep
      simp only [wfParam] at hwf
      have e : (Param.link q pos).encode T ++ rest =
          ['~', 'X', '~'] ++ (q.encode T ++ ('~' :: 'E' :: rest)) := by simp [Param.encode]
      rw [e] at hws ⊢
      obtain ⟨q', p1, hq, he⟩ := ih q (by omega) hwf ('~' :: 'E' :: rest) (p + 3) n hws.right
        (qStop_linkClose rest) (by omega)
      have hclose : lit Gen.linkClose ⟨'~' :: 'E' :: rest, p1⟩ = some ⟨rest, p1 + 2⟩ := by
        rw [Inst.link_shape.2]
        exact lit_append (l := ['~', 'E']) hws.right.right
      have hopen : lit Gen.linkOpen ⟨['~', 'X', '~'] ++ (q.encode T ++ ('~' :: 'E' :: rest)), p⟩ =
          some ⟨q.encode T ++ ('~' :: 'E' :: rest), p + 3⟩ := by
        rw [Inst.link_shape.1]
        exact lit_append hws
      refine ⟨.link q' p, p1 + 2, ?_, by simp [Param.erase, he]⟩
      simp only [parseParameter, skipWs_noWs hws, hopen, hq, hclose]

/-! ### parameter lists -/

theorem parseDashes_cons {y : Str} {p : Nat} (hws : NoWs ('-' :: y)) (hy : stopAt [(45, 45)] y = true) :
    parseDashes ⟨'-' :: y, p⟩ = some ⟨y, p + 1⟩ := by
  have := takeWhile_dash_replicate 1 y hy
  simp only [List.replicate_one, List.singleton_append] at this
  simp [parseDashes, skipWs_noWs hws, this]

theorem parseDashes_none {y : Str} {p : Nat} (hws : NoWs y) (hy : stopAt [(45, 45)] y = true) :
    parseDashes ⟨y, p⟩ = none := by
  have := takeWhile_dash_replicate 0 y hy
  simp only [List.replicate_zero, List.nil_append] at this
  simp [parseDashes, skipWs_noWs hws, this]

theorem lit_dash_none {y : Str} {p : Nat} (hws : NoWs y) (hy : stopAt [(45, 45)] y = true) :
    lit ['-'] ⟨y, p⟩ = none := by
  cases y with
  | nil => exact lit_nil_input (by simp)
  | cons c t =>
    apply lit_ne_head hws
    rintro rfl
    simp [stopAt] at hy; revert hy; decide

theorem stopAt_dash_of_tokSafe {c : Char} (t : Str) (hc : tokSafe c = true) :
    stopAt [(45, 45)] (c :: t) = true := by
  have : c ≠ '-' := by rintro rfl; revert hc; decide
  have h2 : c.toNat ≠ 45 := fun e => this ((char_eq_iff _ _).mpr e)
  simp only [stopAt, inRanges, List.any_cons, List.any_nil, Bool.or_false, Bool.not_eq_true',
    Bool.and_eq_false_imp, decide_eq_true_eq, decide_eq_false_iff_not]
  omega

theorem encodeToken_ne_nil (hd : DecOK dec) {s : Str} (h : s ≠ []) : encodeToken T s ≠ [] := by
  intro he
  have := decodeToken_encodeToken T dec Inst.escapeTable_ok hd s
  rw [he] at this
  exact h (by simpa [decodeToken, decodeTokenF] using this.symm)

theorem applyTable_nil : ∀ tbl : EscTable, applyTable tbl [] = [] := by
  intro tbl
  unfold applyTable
  induction tbl with
  | nil => rfl
  | cons pe tbl ih => simp only [List.foldl_cons, replaceAll_nil]; exact ih

theorem encodeToken_nil (tbl : EscTable) : encodeToken tbl [] = [] := by
  rw [encodeToken_eq_quote, applyTable_nil]; rfl

/-- the text of a parameter followed by `rest'` does not begin with a dash, unless the parameter is
the empty string and `rest'` does -/
theorem param_noDash (hd : DecOK dec) (x : Param) (rest' : Str)
    (h : (∀ pos, x = .str [] pos → stopAt [(45, 45)] rest' = true)) :
    stopAt [(45, 45)] (x.encode T ++ rest') = true := by
  cases x with
  | link q pos => simp [Param.encode, stopAt]; decide
  | str s pos =>
    simp only [Param.encode]
    cases hs : s with
    | nil =>
      subst hs
      have : encodeToken T [] = [] := encodeToken_nil T
      rw [this]; exact h pos rfl
    | cons a b =>
      have hne := encodeToken_ne_nil hd (s := a :: b) (by simp)
      cases he : encodeToken T (a :: b) with
      | nil => exact absurd he hne
      | cons c t =>
        have : tokSafe c = true :=
          encodeToken_safe' T Inst.escapeTable_sepCovered (a :: b) c (by rw [he]; simp)
        exact stopAt_dash_of_tokSafe _ this


theorem resParamsOK_tail {x : Param} {ps : List Param} (h : resParamsOK (x :: ps) = true) :
    resParamsOK ps = true := by
  cases ps with
  | nil => rfl
  | cons y ys =>
    cases x with
    | str s pos => simp only [resParamsOK, Bool.and_eq_true] at h; exact h.2
    | link q pos => simpa only [resParamsOK] using h

theorem resParamsOK_empty {pos : Nat} {ps : List Param} (h : resParamsOK (.str [] pos :: ps) = true) :
    ps = [] := by
  cases ps with
  | nil => rfl
  | cons y ys => simp [resParamsOK] at h

theorem pieceStop_dashParams (ps : List Param) {rest : Str} (hs : dpStop rest = true) :
    pieceStop (encodeDashParams T ps ++ rest) = true := by
  cases ps with
  | nil => simpa [encodeDashParams] using pieceStop_of_dpStop hs
  | cons y ys => simp [encodeDashParams, pieceStop]

/-- S2: `ZeroOrMore("-" + parameter)`; `wide` = the `Word("-")` separator of resource headers -/
theorem dashParams_spec (hd : DecOK dec) {d : Nat} (ih : LinkIH dec d) (wide : Bool) :
    ∀ (ps : List Param), depthParams ps ≤ d → wfParams ps = true →
      (wide = true → resParamsOK ps = true) →
      ∀ (rest : Str), dpStop rest = true → ∀ (p n : Nat), NoWs (encodeDashParams T ps ++ rest) →
      8 * (encodeDashParams T ps).length + 2 ≤ n →
      ∃ ps' p', parseDashParams dec wide n ⟨encodeDashParams T ps ++ rest, p⟩ = (ps', ⟨rest, p'⟩) ∧
        eraseParams ps' = eraseParams ps := by
  intro ps
  induction ps with
  | nil =>
    intro _ _ _ rest hs p n hws _
    simp only [encodeDashParams, List.nil_append] at hws ⊢
    refine ⟨[], p, ?_, rfl⟩
    cases n with
    | zero => simp [parseDashParams]
    | succ n =>
      cases wide with
      | true => simp [parseDashParams, parseDashes_none hws (dpStop_not_dash hs)]
      | false => simp [parseDashParams, lit_dash_none hws (dpStop_not_dash hs)]
  | cons x ps ihps =>
    intro hdep hwf hres rest hs p n hws hn
    simp only [depthParams, Nat.max_le] at hdep
    simp only [wfParams, Bool.and_eq_true] at hwf
    simp only [encodeDashParams, List.length_cons, List.length_append] at hn
    have e : encodeDashParams T (x :: ps) ++ rest = '-' :: (x.encode T ++ (encodeDashParams T ps ++ rest)) := by
      simp [encodeDashParams]
    rw [e] at hws ⊢
    cases n with
    | zero => omega
    | succ n =>
      have hsep : (if wide = true then parseDashes ⟨'-' :: (x.encode T ++ (encodeDashParams T ps ++ rest)), p⟩
          else lit ['-'] ⟨'-' :: (x.encode T ++ (encodeDashParams T ps ++ rest)), p⟩) =
          some ⟨x.encode T ++ (encodeDashParams T ps ++ rest), p + 1⟩ := by
        cases wide with
        | false => simpa using lit_cons hws
        | true =>
          simp only [↓reduceIte]
          apply parseDashes_cons hws
          apply param_noDash hd
          intro pos hx
          subst hx
          have := resParamsOK_empty (hres rfl)
          subst this
          simpa [encodeDashParams] using dpStop_not_dash hs
      obtain ⟨x', p1, hx, hxe⟩ := param_spec hd ih x hdep.1 hwf.1 (encodeDashParams T ps ++ rest)
        (pieceStop_dashParams ps hs) hws.tail (p + 1) n (by omega)
      obtain ⟨ps', p2, hps, hpe⟩ := ihps hdep.2 hwf.2 (fun hw => resParamsOK_tail (hres hw)) rest hs p1 n
        hws.tail.right (by omega)
      refine ⟨x' :: ps', p2, ?_, by simp [eraseParams, hxe, hpe]⟩
      simp only [parseDashParams, hsep, hx, hps]

/-- S2: an action -/
theorem action_spec (hd : DecOK dec) {d : Nat} (ih : LinkIH dec d) (a : Action) (hdep : a.depth ≤ d)
    (hwf : wfAction a = true) (rest : Str) (hs : dpStop rest = true) (p n : Nat)
    (hws : NoWs (a.encode T ++ rest)) (hn : 8 * (a.encode T).length + 3 ≤ n) :
    ∃ a' p', parseAction dec n ⟨a.encode T ++ rest, p⟩ = some (a', ⟨rest, p'⟩) ∧ a'.erase = a.erase := by
  obtain ⟨name, ps, pos⟩ := a
  simp only [Action.depth] at hdep
  simp only [wfAction, Bool.and_eq_true] at hwf
  simp only [Action.encode, List.length_append] at hn
  have e : (Action.mk name ps pos).encode T ++ rest = name ++ (encodeDashParams T ps ++ rest) := by
    simp [Action.encode]
  rw [e] at hws ⊢
  cases n with
  | zero => omega
  | succ n =>
    have hid := re_identifier (p := p) hwf.1 (pieceStop_dashParams ps hs) hws
    obtain ⟨ps', p2, hps, hpe⟩ := dashParams_spec hd ih false ps hdep hwf.2 (by simp) rest hs
      (p + name.length) n hws.right (by omega)
    refine ⟨.mk name ps' p, p2, ?_, by simp [Action.erase, hpe]⟩
    simp only [parseAction, skipWs_noWs hws, hid, hps]

end Liquer
