/-
C12, file-operation granularity, directory tree (3): what a reader (`readSC`: a fresh `StoreCache` on a fresh `FileStore`) sees
after every prefix of every interleaving of the file operations of two `FileStore.store` writers of one path (and, optionally,
one `store_metadata` progress writer), and the frame for every other path.
-/
import LiquerProofs.Lemmas.ConcFileT2

namespace Liquer
namespace Crash

/-- the core: two store writers and a third list `lp` that is the step list of a progress writer (or empty) -/
theorem twriters_core (deM : Data → Option CMeta) (deD : Str → Data → Option (Option Str)) (t0 : Tree) (p : Key)
    (b mbA mbB : Data) (mA mB : CMeta) (v : Option Str)
    (hMA : deM mbA = some mA) (hAr : mA.status = ready) (hAv : deD mA.typeId b = some v)
    (hMB : deM mbB = some mB) (hBr : mB.status = ready) (hBv : deD mB.typeId b = some v)
    (a1 a2 b1 b2 tp : Key) (hdist : [a1, a2, b1, b2, tp].Nodup) (mbP : Data)
    (lb : List (Step SName)) (hlb : lb = [] ∨ lb = storeStepsTN (.tmp b1) (.tmp b2) p b mbB)
    (lp : List (Step SName)) (hlp : lp = [] ∨ lp = storeMetaStepsTN (.tmp tp) p mbP)
    (hP : lp ≠ [] → ∀ m, deM mbP = some m → m.status ≠ ready)
    (l : List (Step SName)) (hl : Interleave3 (storeStepsTN (.tmp a1) (.tmp a2) p b mbA) lb lp l) (n : Nat) :
    (readSC deM deD (runPrefixT n l t0) p = readSC deM deD t0 p ∨
     readSC deM deD (runPrefixT n l t0) p = none ∨
     readSC deM deD (runPrefixT n l t0) p = some { metadata := mA, data := v } ∨
     readSC deM deD (runPrefixT n l t0) p = some { metadata := mB, data := v }) ∧
    ∀ p', p' ≠ p → readSC deM deD (runPrefixT n l t0) p' = readSC deM deD t0 p' := by
  constructor
  · rw [storeStepsTN_split] at hl
    obtain ⟨i, j, k, -, -, -, hG⟩ := inv3T_prefix p b t0 (fun x => lp ≠ [] ∧ x = mbP) a1 a2 b1 b2 tp mbA mbB mbP hdist lb
      (by
        intro j s hs
        rcases hlb with rfl | rfl
        · simp at hs
        · rw [storeStepsTN_split] at hs; exact hs)
      lp (fun h => ⟨h, rfl⟩)
      (by
        intro k s hs
        rcases hlp with rfl | rfl
        · simp at hs
        · rw [storeMetaStepsTN_split] at hs; exact hs)
      l hl n
    refine hG.read deM deD mA mB v hMA hAr hAv hMB hBr hBv ?_
    rintro x ⟨hne, rfl⟩ m hm
    exact hP hne m hm
  · intro p' hne
    apply readSC_frame deM deD p p' hne
    intro s hs
    have hs' : s ∈ l := List.mem_of_mem_take hs
    rcases hl.mem s hs' with h | h | h
    · exact storeStepsTN_benign p a1 a2 b mbA s h
    · rcases hlb with rfl | rfl
      · cases h
      · exact storeStepsTN_benign p b1 b2 b mbB s h
    · rcases hlp with rfl | rfl
      · cases h
      · exact storeMetaStepsTN_benign p tp mbP s h

/-- a label different from the given ones -/
theorem fresh_label (ks : List Key) : ∃ k : Key, k ∉ ks := by
  refine ⟨[List.replicate ((ks.map (fun k => (k.map List.length).sum)).sum + 1) 'x'], ?_⟩
  intro h
  have hle : ∀ (ks : List Key) (k : Key), k ∈ ks → (k.map List.length).sum ≤ (ks.map (fun k => (k.map List.length).sum)).sum := by
    intro ks k hk
    induction ks with
    | nil => cases hk
    | cons a ks ih =>
      rcases List.mem_cons.mp hk with rfl | hk
      · simp
      · have := ih hk; simp; omega
  have := hle ks _ h
  simp at this
  omega

/-- two store writers -/
theorem twriters2 (deM : Data → Option CMeta) (deD : Str → Data → Option (Option Str)) (t0 : Tree) (p : Key)
    (b mbA mbB : Data) (mA mB : CMeta) (v : Option Str)
    (hMA : deM mbA = some mA) (hAr : mA.status = ready) (hAv : deD mA.typeId b = some v)
    (hMB : deM mbB = some mB) (hBr : mB.status = ready) (hBv : deD mB.typeId b = some v)
    (a1 a2 b1 b2 : Key) (hdist : [a1, a2, b1, b2].Nodup) (l : List (Step SName))
    (hl : Interleave (storeStepsTN (.tmp a1) (.tmp a2) p b mbA) (storeStepsTN (.tmp b1) (.tmp b2) p b mbB) l) (n : Nat) :
    (readSC deM deD (runPrefixT n l t0) p = readSC deM deD t0 p ∨
     readSC deM deD (runPrefixT n l t0) p = none ∨
     readSC deM deD (runPrefixT n l t0) p = some { metadata := mA, data := v } ∨
     readSC deM deD (runPrefixT n l t0) p = some { metadata := mB, data := v }) ∧
    ∀ p', p' ≠ p → readSC deM deD (runPrefixT n l t0) p' = readSC deM deD t0 p' := by
  obtain ⟨tp, htp⟩ := fresh_label [a1, a2, b1, b2]
  refine twriters_core deM deD t0 p b mbA mbB mA mB v hMA hAr hAv hMB hBr hBv a1 a2 b1 b2 tp ?_ [] _ (Or.inr rfl) []
    (Or.inl rfl) (fun h => absurd rfl h) l hl.to3 n
  simp only [List.nodup_cons, List.mem_cons, List.not_mem_nil, or_false, not_or, List.nodup_nil, and_true, not_false_eq_true] at hdist htp ⊢
  obtain ⟨⟨h1, h2, h3⟩, ⟨h4, h5⟩, h6⟩ := hdist
  obtain ⟨g1, g2, g3, g4⟩ := htp
  exact ⟨⟨h1, h2, h3, fun e => g1 e.symm⟩, ⟨h4, h5, fun e => g2 e.symm⟩, ⟨h6, fun e => g3 e.symm⟩, fun e => g4 e.symm⟩

/-- two store writers and a progress writer -/
theorem twriters3 (deM : Data → Option CMeta) (deD : Str → Data → Option (Option Str)) (t0 : Tree) (p : Key)
    (b mbA mbB mbP : Data) (mA mB : CMeta) (v : Option Str)
    (hMA : deM mbA = some mA) (hAr : mA.status = ready) (hAv : deD mA.typeId b = some v)
    (hMB : deM mbB = some mB) (hBr : mB.status = ready) (hBv : deD mB.typeId b = some v)
    (hP : ∀ m, deM mbP = some m → m.status ≠ ready)
    (a1 a2 b1 b2 tp : Key) (hdist : [a1, a2, b1, b2, tp].Nodup) (l : List (Step SName))
    (hl : Interleave3 (storeStepsTN (.tmp a1) (.tmp a2) p b mbA) (storeStepsTN (.tmp b1) (.tmp b2) p b mbB)
      (storeMetaStepsTN (.tmp tp) p mbP) l) (n : Nat) :
    (readSC deM deD (runPrefixT n l t0) p = readSC deM deD t0 p ∨
     readSC deM deD (runPrefixT n l t0) p = none ∨
     readSC deM deD (runPrefixT n l t0) p = some { metadata := mA, data := v } ∨
     readSC deM deD (runPrefixT n l t0) p = some { metadata := mB, data := v }) ∧
    ∀ p', p' ≠ p → readSC deM deD (runPrefixT n l t0) p' = readSC deM deD t0 p' :=
  twriters_core deM deD t0 p b mbA mbB mA mB v hMA hAr hAv hMB hBr hBv a1 a2 b1 b2 tp hdist mbP _ (Or.inr rfl) _ (Or.inr rfl)
    (fun _ => hP) l hl n

/-- one store writer and a progress writer -/
theorem twriter_and_progress (deM : Data → Option CMeta) (deD : Str → Data → Option (Option Str)) (t0 : Tree) (p : Key)
    (b mb mbP : Data) (m : CMeta) (v : Option Str)
    (hM : deM mb = some m) (hr : m.status = ready) (hv : deD m.typeId b = some v)
    (hP : ∀ m, deM mbP = some m → m.status ≠ ready)
    (a1 a2 tp : Key) (hdist : [a1, a2, tp].Nodup) (l : List (Step SName))
    (hl : Interleave (storeStepsTN (.tmp a1) (.tmp a2) p b mb) (storeMetaStepsTN (.tmp tp) p mbP) l) (n : Nat) :
    (readSC deM deD (runPrefixT n l t0) p = readSC deM deD t0 p ∨
     readSC deM deD (runPrefixT n l t0) p = none ∨
     readSC deM deD (runPrefixT n l t0) p = some { metadata := m, data := v }) ∧
    ∀ p', p' ≠ p → readSC deM deD (runPrefixT n l t0) p' = readSC deM deD t0 p' := by
  obtain ⟨b1, hb1⟩ := fresh_label [a1, a2, tp]
  obtain ⟨b2, hb2⟩ := fresh_label [a1, a2, tp, b1]
  have h := twriters_core deM deD t0 p b mb mb m m v hM hr hv hM hr hv a1 a2 b1 b2 tp
    (by
      simp only [List.nodup_cons, List.mem_cons, List.not_mem_nil, or_false, not_or, List.nodup_nil, and_true,
        not_false_eq_true] at hdist hb1 hb2 ⊢
      obtain ⟨⟨h1, h2⟩, h3⟩ := hdist
      obtain ⟨g1, g2, g3⟩ := hb1
      obtain ⟨k1, k2, k3, k4⟩ := hb2
      exact ⟨⟨h1, fun e => g1 e.symm, fun e => k1 e.symm, h2⟩, ⟨fun e => g2 e.symm, fun e => k2 e.symm, h3⟩,
        ⟨fun e => k4 e.symm, g3⟩, k3⟩)
    mbP [] (Or.inl rfl) _ (Or.inr rfl) (fun _ => hP) l hl.to3' n
  refine ⟨?_, h.2⟩
  rcases h.1 with h | h | h | h
  · exact Or.inl h
  · exact Or.inr (Or.inl h)
  · exact Or.inr (Or.inr h)
  · exact Or.inr (Or.inr h)

end Crash
end Liquer
