/-
`FileCache` / `XORFileCache` / `FernetFileCache` (as fixed) refine the key-value specification, for every
history, given an injective digest and codecs whose decoders invert the encoders.
-/
import LiquerProofs.Lemmas.CacheKV
import LiquerProofs.Lemmas.CrashFlat

namespace Liquer
open Crash (CodecOK)

namespace FileC

/-! ### lookups after each operation -/

theorem get_remove_state (c : FileCfg) (dir : CDir) (k x : Str) :
    AL.get (remove c dir k) (.state x) = if x == c.h k then none else AL.get dir (.state x) := by
  unfold remove
  rw [AL.get_filter (AL.erase dir (.state (c.h k))) (fun n => !isDataOf (c.h k) n), AL.get_erase]
  by_cases h : x = c.h k <;> simp [isDataOf, h]

theorem get_remove_data (c : FileCfg) (dir : CDir) (k x e : Str) :
    AL.get (remove c dir k) (.data x e) = if x == c.h k then none else AL.get dir (.data x e) := by
  unfold remove
  rw [AL.get_filter (AL.erase dir (.state (c.h k))) (fun n => !isDataOf (c.h k) n), AL.get_erase]
  by_cases h : x = c.h k <;> simp [isDataOf, h]

theorem get_storeMeta_state (c : FileCfg) (dir : CDir) (m : CMeta) (x : Str) :
    AL.get (storeMeta c dir m) (.state x) = if x == c.h m.query then some (c.enc (c.serM m)) else AL.get dir (.state x) := by
  unfold storeMeta
  rw [AL.get_set]
  by_cases h : x = c.h m.query <;> simp [h]

theorem get_storeMeta_data (c : FileCfg) (dir : CDir) (m : CMeta) (x e : Str) :
    AL.get (storeMeta c dir m) (.data x e) = AL.get dir (.data x e) := by
  unfold storeMeta
  rw [AL.get_set]; simp

theorem get_store_state (c : FileCfg) (dir : CDir) (st : CState) (x : Str) :
    AL.get (store c dir st) (.state x) =
      if x == c.h st.metadata.query then some (c.enc (c.serM { st.metadata with status := ready })) else AL.get dir (.state x) := by
  simp only [store, get_storeMeta_state, AL.get_set, get_remove_state]
  by_cases h : x = c.h st.metadata.query <;> simp [h]

theorem get_store_data (c : FileCfg) (dir : CDir) (st : CState) (x e : Str) :
    AL.get (store c dir st) (.data x e) =
      if x == c.h st.metadata.query then
        (if e == c.ext st.metadata.typeId then some (c.enc (c.serD st.metadata.typeId st.data)) else none)
      else AL.get dir (.data x e) := by
  simp only [store, get_storeMeta_data, AL.get_set, get_remove_data]
  by_cases h : x = c.h st.metadata.query
  · subst h
    by_cases h2 : e = c.ext st.metadata.typeId <;> simp [h2]
  · simp [h]

/-! ### `keys` -/

/-- every metadata file decodes, and sits under the digest of its own query -/
def HashOK (c : FileCfg) (dir : CDir) : Prop :=
  ∀ e ∈ dir, ∀ x, e.1 = .state x → ∃ m, (c.dec e.2).bind c.deM = some m ∧ c.h m.query = x

def keyOfEntry (c : FileCfg) (e : FName × Data) : Option Str :=
  match e.1 with
  | .state _ => ((c.dec e.2).bind c.deM).map (·.query)
  | _ => none

theorem keys_eq (c : FileCfg) (dir : CDir) : keys c dir = dir.filterMap (keyOfEntry c) := rfl

theorem keys_erase_state (c : FileCfg) (hinj : ∀ a b, c.h a = c.h b → a = b) (dir : CDir) (k : Str) (hok : HashOK c dir) :
    keys c (AL.erase dir (.state (c.h k))) = (keys c dir).filter (· != k) := by
  induction dir with
  | nil => rfl
  | cons e dir ih =>
    have hok' : HashOK c dir := fun e' he' => hok e' (List.mem_cons_of_mem _ he')
    have ih := ih hok'
    simp only [keys_eq, AL.erase] at ih ⊢
    rw [List.filter_cons, List.filterMap_cons]
    obtain ⟨nm, b⟩ := e
    cases nm with
    | state x =>
      obtain ⟨m, hm, hx⟩ := hok (.state x, b) (List.mem_cons_self ..) x rfl
      have hk : keyOfEntry c (.state x, b) = some m.query := by simp only [keyOfEntry]; rw [hm]; rfl
      rw [hk]
      by_cases hxk : x = c.h k
      · have hq : m.query = k := hinj _ _ (hx.trans hxk)
        have h1 : ((FName.state x, b).1 != FName.state (c.h k)) = false := by simp [hxk]
        have h2 : (m.query != k) = false := by simp [hq]
        simp only [h1, Bool.false_eq_true, ↓reduceIte, List.filter_cons, h2]
        exact ih
      · have hq : m.query ≠ k := fun h => hxk (by rw [← hx, h])
        have h1 : ((FName.state x, b).1 != FName.state (c.h k)) = true := by simp [hxk]
        have h2 : (m.query != k) = true := by simp [hq]
        simp only [h1, ↓reduceIte, List.filter_cons, h2, List.filterMap_cons, hk, ih]
    | data x y =>
      have hk : keyOfEntry c (.data x y, b) = none := rfl
      simp [hk, ih]
    | tmp i =>
      have hk : keyOfEntry c (.tmp i, b) = none := rfl
      simp [hk, ih]

theorem keys_filter_data (c : FileCfg) (dir : CDir) (p : FName → Bool) (hp : ∀ x, p (.state x) = true) :
    keys c (dir.filter (fun e => p e.1)) = keys c dir := by
  induction dir with
  | nil => rfl
  | cons e dir ih =>
    simp only [keys_eq] at ih ⊢
    rw [List.filter_cons, List.filterMap_cons]
    obtain ⟨nm, b⟩ := e
    cases nm with
    | state x =>
      have h1 : p (FName.state x, b).1 = true := hp x
      simp only [h1, ↓reduceIte, List.filterMap_cons, ih]
    | data x y =>
      have hk : keyOfEntry c (.data x y, b) = none := rfl
      by_cases h : p (.data x y) <;> simp [h, hk, ih]
    | tmp i =>
      have hk : keyOfEntry c (.tmp i, b) = none := rfl
      by_cases h : p (.tmp i) <;> simp [h, hk, ih]

theorem HashOK_filter (c : FileCfg) (dir : CDir) (p : FName × Data → Bool) (h : HashOK c dir) : HashOK c (dir.filter p) :=
  fun e he => h e (List.mem_filter.1 he).1

theorem HashOK_remove (c : FileCfg) (dir : CDir) (k : Str) (h : HashOK c dir) : HashOK c (remove c dir k) :=
  HashOK_filter c _ _ (HashOK_filter c _ _ h)

theorem HashOK_set_data (c : FileCfg) (dir : CDir) (x e : Str) (b : Data) (h : HashOK c dir) : HashOK c (AL.set dir (.data x e) b) := by
  intro e' he' y hy
  simp only [AL.set, List.mem_cons] at he'
  rcases he' with rfl | he'
  · cases hy
  · exact HashOK_filter c _ _ h e' he' y hy

theorem HashOK_storeMeta (c : FileCfg) (ok : CodecOK c) (dir : CDir) (m : CMeta) (h : HashOK c dir) : HashOK c (storeMeta c dir m) := by
  intro e' he' y hy
  simp only [storeMeta, AL.set, List.mem_cons] at he'
  rcases he' with rfl | he'
  · simp only [FName.state.injEq] at hy
    exact ⟨m, by simp [ok.dec_enc, ok.deM_serM], hy⟩
  · exact HashOK_filter c _ _ h e' he' y hy

theorem keys_remove (c : FileCfg) (hinj : ∀ a b, c.h a = c.h b → a = b) (dir : CDir) (k : Str) (hok : HashOK c dir) :
    keys c (remove c dir k) = (keys c dir).filter (· != k) := by
  unfold remove
  rw [keys_filter_data c _ (fun n => !isDataOf (c.h k) n) (by simp [isDataOf]), keys_erase_state c hinj dir k hok]

theorem keys_storeMeta (c : FileCfg) (ok : CodecOK c) (hinj : ∀ a b, c.h a = c.h b → a = b) (dir : CDir) (m : CMeta) (hok : HashOK c dir) :
    keys c (storeMeta c dir m) = m.query :: (keys c dir).filter (· != m.query) := by
  have := keys_erase_state c hinj dir m.query hok
  simp only [keys_eq] at this ⊢
  simp only [storeMeta, AL.set, List.filterMap_cons]
  simp [keyOfEntry, ok.dec_enc, ok.deM_serM, this]

theorem keys_set_data (c : FileCfg) (dir : CDir) (x e : Str) (b : Data) : keys c (AL.set dir (.data x e) b) = keys c dir := by
  have := keys_filter_data c dir (fun n => n != .data x e) (by simp)
  simp only [keys_eq] at this ⊢
  simp only [AL.set, AL.erase, List.filterMap_cons]
  simp [keyOfEntry, this]

end FileC

/-! ### the simulation -/

structure RF (c : FileCfg) (dir : CDir) (kv : KV) : Prop where
  metaOK : ∀ k, FileC.loadMeta c dir (.state (c.h k)) = (kv.get k).map (·.1)
  dataOK : ∀ k m d, kv.get k = some (m, some d) →
    AL.get dir (.data (c.h k) (c.ext m.typeId)) = some (c.enc (c.serD m.typeId (some d)))
  noData : ∀ k, (kv.get k).bind (·.2) = none → ∀ e, AL.get dir (.data (c.h k) e) = none
  keysOK : FileC.keys c dir = kv.map (·.1)
  hashOK : FileC.HashOK c dir
  queryOK : ∀ k m d, kv.get k = some (m, d) → m.query = k

def okF (kv : KV) (op : CacheOp) : Prop := op.hasData = true ∧ op.typeStable kv = true

theorem file_sim (c : FileCfg) (ok : CodecOK c) (hinj : ∀ a b, c.h a = c.h b → a = b) :
    CSim (fileCOps c) (kvOpsC kvCfgKeep) (RF c) okF := by
  intro dir kv op R ⟨hdata, hstable⟩
  have hne : ∀ {a b : Str}, a ≠ b → (c.h a == c.h b) = false := fun h => by simpa using fun e => h (hinj _ _ e)
  cases op with
  | get k =>
    refine ⟨R, outEq_of_eq ?_⟩
    simp only [CacheOps.step, fileCOps, kvOpsC, kvOps, FileC.get, R.metaOK k]
    cases h : kv.get k with
    | none => rfl
    | some e =>
      obtain ⟨m, d⟩ := e
      cases d with
      | none =>
        have := R.noData k (by simp [h]) (c.ext m.typeId)
        by_cases hr : m.status = ready <;> simp [hr, this]
      | some d =>
        have := R.dataOK k m d h
        by_cases hr : m.status = ready <;> simp [hr, this, ok.dec_enc, ok.deD_serD]
  | getMeta k =>
    refine ⟨R, outEq_of_eq ?_⟩
    simp [CacheOps.step, fileCOps, kvOpsC, kvOps, R.metaOK k]
  | contains k =>
    refine ⟨R, outEq_of_eq ?_⟩
    simp only [CacheOps.step, fileCOps, kvOpsC, kvOps, FileC.contains, R.metaOK k]
    cases h : kv.get k with
    | none => rfl
    | some e => obtain ⟨m, d⟩ := e; simp [R.queryOK k m d h]
  | keys =>
    refine ⟨R, outEq_of_eq ?_⟩
    simp [CacheOps.step, fileCOps, kvOpsC, kvOps, R.keysOK]
  | clean =>
    refine ⟨⟨?_, ?_, ?_, ?_, ?_, ?_⟩, outEq_refl _⟩ <;>
      simp [CacheOps.step, fileCOps, kvOpsC, kvOps, FileC.loadMeta, AL.get, KV.get, FileC.keys, FileC.HashOK]
  | remove k =>
    refine ⟨⟨?_, ?_, ?_, ?_, ?_, ?_⟩, outEq_refl _⟩ <;> try simp only [CacheOps.step, fileCOps, kvOpsC, kvOps]
    · intro k'
      simp only [FileC.loadMeta, FileC.get_remove_state, KV.get_erase]
      by_cases h : k' = k
      · subst h; simp
      · have h1 : (k' == k) = false := by simpa using h
        have := R.metaOK k'
        simp only [FileC.loadMeta] at this
        simp [hne h, h1, this]
    · intro k' m d hk
      rw [KV.get_erase] at hk
      by_cases h : k' = k
      · subst h; simp at hk
      · have h1 : (k' == k) = false := by simpa using h
        simp only [h1] at hk
        simp [FileC.get_remove_data, hne h, R.dataOK k' m d hk]
    · intro k' hk e
      rw [KV.get_erase] at hk
      rw [FileC.get_remove_data]
      by_cases h : k' = k
      · subst h; simp
      · have h1 : (k' == k) = false := by simpa using h
        simp only [h1] at hk
        simp [hne h, R.noData k' hk e]
    · rw [FileC.keys_remove c hinj dir k R.hashOK, R.keysOK, KV.erase_eq, AL.keys_erase]
    · exact FileC.HashOK_remove c dir k R.hashOK
    · intro k' m d hk
      rw [KV.get_erase] at hk
      by_cases h : k' = k
      · subst h; simp at hk
      · have h1 : (k' == k) = false := by simpa using h
        simp only [h1] at hk
        exact R.queryOK k' m d hk
  | storeMeta m =>
    have hkv : ((kvOpsC kvCfgKeep).step kv (.storeMeta m)).1 = kv.set m.query m ((kv.get m.query).bind (·.2)) := by
      simp only [CacheOps.step, kvOpsC, kvCfgKeep]
      cases kv.get m.query with
      | none => rfl
      | some e => rfl
    have hout : ((kvOpsC kvCfgKeep).step kv (.storeMeta m)).2 = .bool true := by
      simp only [CacheOps.step, kvOpsC, kvCfgKeep]
      cases kv.get m.query with
      | none => rfl
      | some e => rfl
    rw [hkv, hout]
    refine ⟨⟨?_, ?_, ?_, ?_, ?_, ?_⟩, outEq_refl _⟩ <;> try simp only [CacheOps.step, fileCOps]
    · intro k'
      simp only [FileC.loadMeta, FileC.get_storeMeta_state, KV.get_set]
      by_cases h : k' = m.query
      · subst h; simp [ok.dec_enc, ok.deM_serM]
      · have h1 : (k' == m.query) = false := by simpa using h
        have := R.metaOK k'
        simp only [FileC.loadMeta] at this
        simp [hne h, h1, this]
    · intro k' m' d hk
      rw [KV.get_set] at hk
      rw [FileC.get_storeMeta_data]
      by_cases h : k' = m.query
      · subst h
        simp only [BEq.rfl, ↓reduceIte, Option.some.injEq, Prod.mk.injEq] at hk
        obtain ⟨rfl, hd⟩ := hk
        cases hg : kv.get m.query with
        | none => simp [hg] at hd
        | some e =>
          obtain ⟨m0, d0⟩ := e
          simp only [hg, Option.bind_some] at hd
          subst hd
          have hst : m.typeId = m0.typeId := by simpa [CacheOp.typeStable, hg] using hstable
          have := R.dataOK m.query m0 d hg
          rw [hst]; exact this
      · have h1 : (k' == m.query) = false := by simpa using h
        simp only [h1] at hk
        exact R.dataOK k' m' d hk
    · intro k' hk e
      rw [KV.get_set] at hk
      rw [FileC.get_storeMeta_data]
      by_cases h : k' = m.query
      · subst h
        simp only [BEq.rfl, ↓reduceIte, Option.bind_some] at hk
        exact R.noData m.query hk e
      · have h1 : (k' == m.query) = false := by simpa using h
        simp only [h1] at hk
        exact R.noData k' hk e
    · rw [FileC.keys_storeMeta c ok hinj dir m R.hashOK, R.keysOK, KV.set_eq, AL.keys_set]
    · exact FileC.HashOK_storeMeta c ok dir m R.hashOK
    · intro k' m' d hk
      rw [KV.get_set] at hk
      by_cases h : k' = m.query
      · subst h; simp at hk; rw [← hk.1]
      · have h1 : (k' == m.query) = false := by simpa using h
        simp only [h1] at hk
        exact R.queryOK k' m' d hk
  | store st =>
    by_cases he : st.metadata.isError
    · refine ⟨?_, outEq_of_eq ?_⟩ <;> simp [CacheOps.step, fileCOps, kvOpsC, kvOps, he, R]
    · have he : st.metadata.isError = false := by simpa using he
      obtain ⟨d, hd⟩ : ∃ d, st.data = some d := by
        have : st.data.isSome = true := by simpa [CacheOp.hasData] using hdata
        exact Option.isSome_iff_exists.1 this
      have hkv : ((kvOpsC kvCfgKeep).step kv (.store st)).1 = kv.set st.metadata.query { st.metadata with status := ready } (some d) := by
        simp [CacheOps.step, kvOpsC, kvOps, he, hd]
      have hout : ((kvOpsC kvCfgKeep).step kv (.store st)).2 = .res .true := by
        simp [CacheOps.step, kvOpsC, kvOps, he]
      have hstep : (fileCOps c).step dir (.store st) = (FileC.store c dir st, .res .true) := by
        simp [CacheOps.step, fileCOps, he]
      rw [hkv, hout, hstep]
      refine ⟨⟨?_, ?_, ?_, ?_, ?_, ?_⟩, ?_⟩
      · intro k'
        simp only [FileC.loadMeta, FileC.get_store_state, KV.get_set]
        by_cases h : k' = st.metadata.query
        · subst h; simp [ok.dec_enc, ok.deM_serM]
        · have h1 : (k' == st.metadata.query) = false := by simpa using h
          have := R.metaOK k'
          simp only [FileC.loadMeta] at this
          simp [hne h, h1, this]
      · intro k' m' d' hk
        rw [KV.get_set] at hk
        rw [FileC.get_store_data]
        by_cases h : k' = st.metadata.query
        · subst h
          simp only [BEq.rfl, ↓reduceIte, Option.some.injEq, Prod.mk.injEq] at hk
          obtain ⟨rfl, rfl⟩ := hk
          simp [hd]
        · have h1 : (k' == st.metadata.query) = false := by simpa using h
          simp only [h1] at hk
          simp [hne h, R.dataOK k' m' d' hk]
      · intro k' hk e
        rw [KV.get_set] at hk
        rw [FileC.get_store_data]
        by_cases h : k' = st.metadata.query
        · subst h; simp at hk
        · have h1 : (k' == st.metadata.query) = false := by simpa using h
          simp only [h1] at hk
          simp [hne h, R.noData k' hk e]
      · simp only [FileC.store]
        rw [FileC.keys_storeMeta c ok hinj _ _ (FileC.HashOK_set_data c _ _ _ _ (FileC.HashOK_remove c dir _ R.hashOK)),
          FileC.keys_set_data, FileC.keys_remove c hinj dir _ R.hashOK, R.keysOK, KV.set_eq, AL.keys_set, List.filter_filter]
        simp
      · simp only [FileC.store]
        exact FileC.HashOK_storeMeta c ok _ _ (FileC.HashOK_set_data c _ _ _ _ (FileC.HashOK_remove c dir _ R.hashOK))
      · intro k' m' d' hk
        rw [KV.get_set] at hk
        by_cases h : k' = st.metadata.query
        · subst h; simp at hk; rw [← hk.1]
        · have h1 : (k' == st.metadata.query) = false := by simpa using h
          simp only [h1] at hk
          exact R.queryOK k' m' d' hk
      · exact outEq_refl _

theorem RF_init (c : FileCfg) : RF c [] [] :=
  ⟨by simp [FileC.loadMeta, AL.get, KV.get], by simp [KV.get], by simp [AL.get], rfl, by simp [FileC.HashOK], by simp [KV.get]⟩

end Liquer
