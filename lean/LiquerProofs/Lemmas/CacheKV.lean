/-
Lemmas on the key-value specification `kvOpsC c` (every configuration `c`, every state, every key
string), and the simulation framework used by the refinement theorems of C13.
-/
import LiquerProofs.Lemmas.CacheAL
import LiquerModel.CacheComb

namespace Liquer

theorem KV.get_eq (kv : KV) (k : Str) : kv.get k = AL.get kv k := rfl
theorem KV.erase_eq (kv : KV) (k : Str) : kv.erase k = AL.erase kv k := rfl
theorem KV.set_eq (kv : KV) (k : Str) (m : CMeta) (d : Option Str) : kv.set k m d = AL.set kv k (m, d) := rfl

theorem KV.get_set (kv : KV) (k k' : Str) (m : CMeta) (d : Option Str) :
    (kv.set k m d).get k' = if k' == k then some (m, d) else kv.get k' := AL.get_set kv k k' (m, d)

theorem KV.get_erase (kv : KV) (k k' : Str) : (kv.erase k).get k' = if k' == k then none else kv.get k' :=
  AL.get_erase kv k k'

theorem KV.count_keys_erase (kv : KV) (k k' : Str) :
    ((kv.erase k).map (·.1)).count k' = if k' == k then 0 else (kv.map (·.1)).count k' := by
  rw [KV.erase_eq, AL.keys_erase]
  by_cases h : k' = k
  · subst h
    have : List.count k' (List.filter (fun x => x != k') (List.map (fun x => x.fst) kv)) = 0 :=
      List.count_eq_zero.2 (by simp [List.mem_filter])
    simpa using this
  · have h1 : (k' == k) = false := by simpa using h
    rw [List.count_filter (by simpa using h)]
    simp [h1]

theorem KV.count_keys_set (kv : KV) (k k' : Str) (m : CMeta) (d : Option Str) :
    ((kv.set k m d).map (·.1)).count k' = if k' == k then 1 else (kv.map (·.1)).count k' := by
  have he := KV.count_keys_erase kv k k'
  rw [KV.erase_eq, AL.keys_erase] at he
  rw [KV.set_eq, AL.keys_set, List.count_cons, he]
  by_cases h : k' = k
  · subst h; simp
  · have h1 : (k' == k) = false := by simpa using h
    have h2 : (k == k') = false := by simpa using fun e => h e.symm
    simp [h1, h2]

/-- the key an operation addresses -/
def CacheOp.key? : CacheOp → Option Str
  | .get k => some k | .getMeta k => some k | .store st => some st.metadata.query | .storeMeta m => some m.query
  | .remove k => some k | .contains k => some k | .keys => none | .clean => none

/-- what the specification shows for one key: metadata, data, served state, presence, multiplicity in `keys` -/
structure KeyView where
  entry : Option (CMeta × Option Str)
  served : Option CState
  meta? : Option CMeta
  present : Bool
  listed : Nat
  deriving DecidableEq

def kvView (c : KVCfg) (kv : KV) (k : Str) : KeyView :=
  { entry := kv.get k, served := ((kvOpsC c).get kv k).2, meta? := ((kvOpsC c).getMeta kv k).2,
    present := ((kvOpsC c).contains kv k).2, listed := ((kvOpsC c).keys kv).2.count k }

section spec
variable (c : KVCfg)

/-- after a successful `store` the key is present, listed exactly once, and `get` returns the stored value
with status `ready` and the query of the state -/
theorem kv_store_get (kv : KV) (st : CState) (he : st.metadata.isError = false) (d : Str) (hd : st.data = some d) :
    ((kvOpsC c).store kv st).2 = .true ∧
    kvView c ((kvOpsC c).store kv st).1 st.metadata.query =
      { entry := some ({ st.metadata with status := ready }, some d),
        served := some { metadata := { st.metadata with status := ready }, data := some d },
        meta? := some { st.metadata with status := ready }, present := true, listed := 1 } := by
  simp only [kvOpsC, kvOps, he, kvView, Bool.false_eq_true, ↓reduceIte, hd]
  simp [KV.get_set, KV.count_keys_set, ready]

/-- an error state is never filed -/
theorem kv_store_error (kv : KV) (st : CState) (he : st.metadata.isError = true) :
    (kvOpsC c).store kv st = (kv, .none) := by
  simp [kvOpsC, kvOps, he]

theorem kv_remove (kv : KV) (k : Str) :
    kvView c ((kvOpsC c).remove kv k).1 k = { entry := none, served := none, meta? := none, present := false, listed := 0 } := by
  simp [kvOpsC, kvOps, kvView, KV.get_erase, KV.count_keys_erase]

theorem kv_clean (kv : KV) (k : Str) :
    kvView c ((kvOpsC c).clean kv) k = { entry := none, served := none, meta? := none, present := false, listed := 0 } := by
  simp [kvOpsC, kvOps, kvView, KV.get]

/-- the data slot after a metadata-only write is the old one or empty: such a write never creates data -/
theorem kv_meta_data (kv : KV) (m : CMeta) :
    ((((kvOpsC c).storeMeta kv m).1.get m.query).bind (·.2)) = none ∨
    ((((kvOpsC c).storeMeta kv m).1.get m.query).bind (·.2)) = (kv.get m.query).bind (·.2) := by
  simp only [kvOpsC]
  cases h : kv.get m.query with
  | none =>
    by_cases hf : c.metaFresh
    · simp [hf, KV.get_set]
    · simp [hf, h]
  | some e =>
    obtain ⟨m0, d⟩ := e
    by_cases hk : c.keepData <;> simp [hk, KV.get_set]

/-- a metadata-only write on a key that holds no data leaves `get` empty -/
theorem kv_meta_only_no_data (kv : KV) (m : CMeta) (h : (kv.get m.query).bind (·.2) = none) :
    ((kvOpsC c).get ((kvOpsC c).storeMeta kv m).1 m.query).2 = none := by
  have hd := kv_meta_data c kv m
  rw [h, or_self] at hd
  simp only [kvOpsC, kvOps] at hd ⊢
  generalize (match kv.get m.query with
    | none => if c.metaFresh = true then (kv.set m.query m none, true) else (kv, c.metaFreshRes)
    | some (_, d) => (kv.set m.query m (if c.keepData = true then d else none), true)).1.get m.query = r at hd ⊢
  match r, hd with
  | none, _ => rfl
  | some (_, none), _ => rfl
  | some (_, some _), hd => simp at hd

/-- **frame**: an operation addressing `k` leaves every other key `k'` exactly as it was — for arbitrary key strings -/
theorem kv_frame (kv : KV) (op : CacheOp) (k k' : Str) (hk : op.key? = some k) (hne : k' ≠ k) :
    kvView c ((kvOpsC c).step kv op).1 k' = kvView c kv k' := by
  have h1 : (k' == k) = false := by simpa using hne
  cases op with
  | get q => simp [CacheOps.step, kvOpsC, kvOps]
  | getMeta q => simp [CacheOps.step, kvOpsC, kvOps]
  | contains q => simp [CacheOps.step, kvOpsC, kvOps]
  | keys => simp [CacheOp.key?] at hk
  | clean => simp [CacheOp.key?] at hk
  | remove q =>
    simp only [CacheOp.key?, Option.some.injEq] at hk; subst hk
    simp [CacheOps.step, kvOpsC, kvOps, kvView, KV.get_erase, KV.count_keys_erase, h1]
  | store st =>
    simp only [CacheOp.key?, Option.some.injEq] at hk
    by_cases he : st.metadata.isError
    · simp [CacheOps.step, kvOpsC, kvOps, he]
    · simp [CacheOps.step, kvOpsC, kvOps, he, kvView, KV.get_set, KV.count_keys_set, hk, h1]
  | storeMeta m =>
    simp only [CacheOp.key?, Option.some.injEq] at hk
    simp only [CacheOps.step, kvOpsC]
    cases hg : kv.get m.query with
    | none =>
      by_cases hf : c.metaFresh
      · simp [hf, kvView, kvOpsC, kvOps, KV.get_set, KV.count_keys_set, hk, h1]
      · simp [hf]
    | some e =>
      simp [kvView, kvOpsC, kvOps, KV.get_set, KV.count_keys_set, hk, h1]

end spec

/-- the given specification `kvOps` is the instance that drops data on a metadata-only write -/
theorem kvOps_eq : kvOpsC kvCfgDrop = kvOps := by
  unfold kvOpsC kvOps kvCfgDrop
  congr 1
  funext kv m
  cases h : kv.get m.query with
  | none => simp
  | some e => simp

/-! ### simulation -/

/-- observations are compared up to the order of `keys` -/
def outEq (a b : CacheOut) : Prop :=
  match a, b with
  | .keys x, .keys y => x.Perm y
  | _, _ => a = b

theorem outEq_refl (a : CacheOut) : outEq a a := by
  cases a <;> simp [outEq]

theorem outEq_of_eq {a b : CacheOut} (h : a = b) : outEq a b := h ▸ outEq_refl a

def outsEq : List CacheOut → List CacheOut → Prop
  | [], [] => True
  | a :: as, b :: bs => outEq a b ∧ outsEq as bs
  | _, _ => False

/-- well-formed history, decided along the run of the specification -/
def HistOK {τ : Type} (S : CacheOps τ) (ok : τ → CacheOp → Prop) : τ → List CacheOp → Prop
  | _, [] => True
  | t, op :: rest => ok t op ∧ HistOK S ok (S.step t op).1 rest

/-- `C` simulates `S` through `R` on operations satisfying `ok` -/
def CSim {σ τ : Type} (C : CacheOps σ) (S : CacheOps τ) (R : σ → τ → Prop) (ok : τ → CacheOp → Prop) : Prop :=
  ∀ s t op, R s t → ok t op → R (C.step s op).1 (S.step t op).1 ∧ outEq (C.step s op).2 (S.step t op).2

theorem CSim.run {σ τ : Type} {C : CacheOps σ} {S : CacheOps τ} {R : σ → τ → Prop} {ok : τ → CacheOp → Prop}
    (sim : CSim C S R ok) (h : List CacheOp) : ∀ s t, R s t → HistOK S ok t h →
    R (C.run s h).1 (S.run t h).1 ∧ outsEq (C.run s h).2 (S.run t h).2 := by
  induction h with
  | nil => intro s t hr _; exact ⟨hr, trivial⟩
  | cons op rest ih =>
    intro s t hr hok
    obtain ⟨h1, h2⟩ := hok
    obtain ⟨hr', ho⟩ := sim s t op hr h1
    obtain ⟨hr'', hos⟩ := ih _ _ hr' h2
    simp only [CacheOps.run]
    exact ⟨hr'', ho, hos⟩

end Liquer
