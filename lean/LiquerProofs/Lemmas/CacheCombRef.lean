/-
The cache combinators preserve simulation: if the parts refine their specifications, the combination
refines the combination of the specifications (congruence), for every history.
-/
import LiquerProofs.Lemmas.CacheKV

namespace Liquer

section proj
variable {σ τ : Type} {C : CacheOps σ} {S : CacheOps τ} {R : σ → τ → Prop} {ok : τ → CacheOp → Prop}

theorem CSim.get' (sim : CSim C S R ok) {s t} (k : Str) (hr : R s t) (hp : ok t (.get k)) :
    R (C.get s k).1 (S.get t k).1 ∧ (C.get s k).2 = (S.get t k).2 := by
  have := sim s t (.get k) hr hp
  simp only [CacheOps.step, outEq, CacheOut.state.injEq] at this
  exact this

theorem CSim.getMeta' (sim : CSim C S R ok) {s t} (k : Str) (hr : R s t) (hp : ok t (.getMeta k)) :
    R (C.getMeta s k).1 (S.getMeta t k).1 ∧ (C.getMeta s k).2 = (S.getMeta t k).2 := by
  have := sim s t (.getMeta k) hr hp
  simp only [CacheOps.step, outEq, CacheOut.metadata.injEq] at this
  exact this

theorem CSim.store' (sim : CSim C S R ok) {s t} (st : CState) (hr : R s t) (hp : ok t (.store st)) :
    R (C.store s st).1 (S.store t st).1 ∧ (C.store s st).2 = (S.store t st).2 := by
  have := sim s t (.store st) hr hp
  simp only [CacheOps.step, outEq, CacheOut.res.injEq] at this
  exact this

theorem CSim.storeMeta' (sim : CSim C S R ok) {s t} (m : CMeta) (hr : R s t) (hp : ok t (.storeMeta m)) :
    R (C.storeMeta s m).1 (S.storeMeta t m).1 ∧ (C.storeMeta s m).2 = (S.storeMeta t m).2 := by
  have := sim s t (.storeMeta m) hr hp
  simp only [CacheOps.step, outEq, CacheOut.bool.injEq] at this
  exact this

theorem CSim.remove' (sim : CSim C S R ok) {s t} (k : Str) (hr : R s t) (hp : ok t (.remove k)) :
    R (C.remove s k).1 (S.remove t k).1 ∧ (C.remove s k).2 = (S.remove t k).2 := by
  have := sim s t (.remove k) hr hp
  simp only [CacheOps.step, outEq, CacheOut.bool.injEq] at this
  exact this

theorem CSim.contains' (sim : CSim C S R ok) {s t} (k : Str) (hr : R s t) (hp : ok t (.contains k)) :
    R (C.contains s k).1 (S.contains t k).1 ∧ (C.contains s k).2 = (S.contains t k).2 := by
  have := sim s t (.contains k) hr hp
  simp only [CacheOps.step, outEq, CacheOut.bool.injEq] at this
  exact this

theorem CSim.keys' (sim : CSim C S R ok) {s t} (hr : R s t) (hp : ok t .keys) :
    R (C.keys s).1 (S.keys t).1 ∧ ((C.keys s).2).Perm (S.keys t).2 := by
  have := sim s t .keys hr hp
  simp only [CacheOps.step, outEq] at this
  exact this

theorem CSim.clean' (sim : CSim C S R ok) {s t} (hr : R s t) (hp : ok t .clean) : R (C.clean s) (S.clean t) := by
  have := sim s t .clean hr hp
  simp only [CacheOps.step] at this
  exact this.1

end proj

/-- `NoCache` is its own specification -/
theorem no_sim : CSim noCOps noCOps (fun _ _ => True) (fun _ _ => True) := by
  intro s t op _ _
  exact ⟨trivial, by cases op <;> simp [CacheOps.step, noCOps, outEq]⟩

/-- `CacheProxy` -/
theorem proxy_sim {σ τ : Type} {C : CacheOps σ} {S : CacheOps τ} {R : σ → τ → Prop} {ok : τ → CacheOp → Prop}
    (sim : CSim C S R ok) : CSim (proxyCOps C) (proxyCOps S) R ok := by
  intro s t op hr hp
  have := sim s t op hr hp
  cases op <;> exact this

section cong
variable {α β α' β' : Type} {A : CacheOps α} {B : CacheOps β} {SA : CacheOps α'} {SB : CacheOps β'}
variable {RA : α → α' → Prop} {RB : β → β' → Prop} {p : CacheOp → Prop}

/-- `cache1 + cache2` -/
theorem combine_sim (simA : CSim A SA RA (fun _ => p)) (simB : CSim B SB RB (fun _ => p))
    (hrem : ∀ k, p (.remove k)) :
    CSim (combineOps A B) (combineOps SA SB) (fun s t => RA s.1 t.1 ∧ RB s.2 t.2) (fun _ => p) := by
  intro s t op ⟨ha, hb⟩ hp
  cases op with
  | get k =>
    obtain ⟨h1, e1⟩ := simA.get' k ha hp
    obtain ⟨h2, e2⟩ := simB.get' k hb hp
    simp only [CacheOps.step, combineOps, e1]
    cases SA.get t.1 k |>.2 with
    | some v => exact ⟨⟨h1, hb⟩, outEq_refl _⟩
    | none => exact ⟨⟨h1, h2⟩, outEq_of_eq (by rw [e2])⟩
  | getMeta k =>
    obtain ⟨h1, e1⟩ := simA.getMeta' k ha hp
    obtain ⟨h2, e2⟩ := simB.getMeta' k hb hp
    simp only [CacheOps.step, combineOps, e1]
    cases SA.getMeta t.1 k |>.2 with
    | some v => exact ⟨⟨h1, hb⟩, outEq_refl _⟩
    | none => exact ⟨⟨h1, h2⟩, outEq_of_eq (by rw [e2])⟩
  | contains k =>
    obtain ⟨h1, e1⟩ := simA.contains' k ha hp
    obtain ⟨h2, e2⟩ := simB.contains' k hb hp
    simp only [CacheOps.step, combineOps, e1]
    cases SA.contains t.1 k |>.2 with
    | true => exact ⟨⟨h1, hb⟩, outEq_refl _⟩
    | false => exact ⟨⟨h1, h2⟩, outEq_of_eq (by simp [e2])⟩
  | storeMeta m =>
    obtain ⟨h1, e1⟩ := simA.storeMeta' m ha hp
    obtain ⟨h2, e2⟩ := simB.storeMeta' m hb hp
    simp only [CacheOps.step, combineOps, e1]
    cases SA.storeMeta t.1 m |>.2 with
    | true => exact ⟨⟨h1, hb⟩, outEq_refl _⟩
    | false => exact ⟨⟨h1, h2⟩, outEq_of_eq (by simp [e2])⟩
  | remove k =>
    obtain ⟨h1, e1⟩ := simA.remove' k ha hp
    obtain ⟨h2, e2⟩ := simB.remove' k hb hp
    simp only [CacheOps.step, combineOps, e1, e2]
    exact ⟨⟨h1, h2⟩, outEq_refl _⟩
  | keys =>
    obtain ⟨h1, e1⟩ := simA.keys' ha hp
    obtain ⟨h2, e2⟩ := simB.keys' hb hp
    simp only [CacheOps.step, combineOps]
    exact ⟨⟨h1, h2⟩, by simpa [outEq] using e1.append e2⟩
  | clean =>
    simp only [CacheOps.step, combineOps]
    exact ⟨⟨simA.clean' ha hp, simB.clean' hb hp⟩, outEq_refl _⟩
  | store st =>
    obtain ⟨h1, _⟩ := simA.remove' st.metadata.query ha (hrem _)
    obtain ⟨h2, _⟩ := simB.remove' st.metadata.query hb (hrem _)
    obtain ⟨h3, e3⟩ := simA.store' st h1 hp
    obtain ⟨h4, e4⟩ := simB.store' st h2 hp
    simp only [CacheOps.step, combineOps, e3]
    cases (SA.store (SA.remove t.1 st.metadata.query).1 st).2 with
    | true => exact ⟨⟨h3, h2⟩, outEq_refl _⟩
    | false => exact ⟨⟨h3, h4⟩, outEq_of_eq (by rw [e4])⟩
    | none => exact ⟨⟨h3, h4⟩, outEq_of_eq (by rw [e4])⟩

/-- the conditional wrappers (`if_contains`, `if_not_contains`, `if_attribute_equal`, …) -/
theorem guard_sim (g : CMeta → Bool) (simA : CSim A SA RA (fun _ => p)) (hrem : ∀ k, p (.remove k)) :
    CSim (guardOps g A) (guardOps g SA) RA (fun _ => p) := by
  intro s t op ha hp
  cases op with
  | get k => exact simA s t (.get k) ha hp
  | getMeta k => exact simA s t (.getMeta k) ha hp
  | contains k => exact simA s t (.contains k) ha hp
  | remove k => exact simA s t (.remove k) ha hp
  | keys => exact simA s t .keys ha hp
  | clean => exact simA s t .clean ha hp
  | storeMeta m =>
    simp only [CacheOps.step, guardOps]
    by_cases hg : g m
    · simp only [hg, ↓reduceIte]; exact simA s t (.storeMeta m) ha hp
    · obtain ⟨h1, _⟩ := simA.remove' m.query ha (hrem _)
      simp only [hg]; exact ⟨h1, outEq_refl _⟩
  | store st =>
    obtain ⟨h1, _⟩ := simA.remove' st.metadata.query ha (hrem _)
    simp only [CacheOps.step, guardOps]
    by_cases hg : g st.metadata
    · simp only [hg, ↓reduceIte]; exact simA _ _ (.store st) h1 hp
    · simp only [hg]; exact ⟨h1, outEq_refl _⟩

end cong

end Liquer
