/-
Consequences of the refinement theorem in the forms the property files use: instances of the closure
hypothesis, sufficient conditions for `CanonOK`, observational transparency, `Sound` along histories,
"never retrievable" for failed / volatile / cache-disabled keys.
-/
import LiquerProofs.Lemmas.EvalRefine
import LiquerProofs.Lemmas.EvalPlain

namespace Liquer

/-! ### instances of the hypotheses -/

/-- everything is closed -/
theorem Closed.univ (env : Env) : Closed env (fun _ => True) (fun _ => True) where
  pred := fun _ _ _ _ _ _ => trivial
  act := fun _ _ _ _ _ _ => ⟨fun _ _ _ => ⟨fun _ => trivial, fun _ _ _ _ _ _ _ _ => trivial⟩, fun _ _ _ _ _ _ _ _ _ => trivial⟩
  text := fun _ _ _ _ => trivial

/-- a link-free, `sub`-free action needs nothing of the classes -/
theorem plain_act (env : Env) (C : Query → Prop) (T : Str → Prop) (parent : Str) {a : Action} (ha : a.plain = true) :
    LinksIn env C T parent a.params ∧ SubIn env T a := by
  simp only [Action.plain, Bool.and_eq_true, bne_iff_ne, ne_eq, List.all_eq_true] at ha
  refine ⟨fun lq pos hm => ?_, fun nss sig hr input vars args x qt hc => ?_⟩
  · have := ha.2 _ hm; simp [Param.isStr] at this
  · exact absurd (cmdSem_subeval_name hc) (by rw [resolve_name hr]; exact ha.1)

theorem Outcome.good_st {o : Outcome} (h : o.good) : ∃ a, o = .st a ∧ a.isError = false := by
  cases o <;> simp [Outcome.good] at h; exact ⟨_, rfl, h⟩

/-- the same-fuel form of the canonical-text hypothesis (as C02 provides it) implies the form used here -/
theorem CanonOK.of_same {env : Env} {q : Query} (h : CanonSame env q) : CanonOK env q := by
  constructor
  · intro fuel st c hrt he
    cases fuel with
    | zero => simp [refText_zero] at hrt
    | succ fuel =>
      have := h fuel (Or.inl (by rw [hrt]; exact he))
      rw [hrt] at this
      obtain ⟨b, hb, hcore⟩ := Outcome.sim_st_left this
      rcases hr : refQ env fuel q (q.encode Gen.escapeTable) .none none with ⟨o, c'⟩
      rw [hr] at hb; simp only at hb; subst hb
      exact ⟨fuel, b, c', hr, hcore⟩
  · intro fuel st c hrq he
    have := h fuel (Or.inr (by rw [hrq]; exact he))
    rw [hrq] at this
    obtain ⟨b, hb, hcore⟩ := Outcome.sim_st_left (Outcome.sim_symm this)
    rcases hr : refText env (fuel+1) (q.encode Gen.escapeTable) with ⟨o, c'⟩
    rw [hr] at hb; simp only at hb; subst hb
    exact ⟨fuel+1, b, c', hr, hcore⟩

/-- for a concrete query: one modelled run of each side with core-equal states suffices (determinism) -/
theorem CanonOK.of_witness {env : Env} {q : Query} {m m' : Nat} {a b : EState} {c c' : List Str}
    (h1 : refQ env m q (q.encode Gen.escapeTable) .none none = (.st a, c))
    (h2 : refText env m' (q.encode Gen.escapeTable) = (.st b, c')) (hcore : a.core = b.core) : CanonOK env q := by
  constructor
  · intro fuel st c0 hrt _
    have := refText_det env (q.encode Gen.escapeTable) (m := fuel) (m' := m') (by rw [hrt]; simp) (by rw [h2]; simp)
    rw [hrt, h2] at this
    simp only [Prod.mk.injEq, Outcome.st.injEq] at this
    exact ⟨m, a, c, h1, by rw [this.1]; exact hcore.symm⟩
  · intro fuel st c0 hrq _
    have := refQ_det env q (q.encode Gen.escapeTable) .none none (m := fuel) (m' := m) (by rw [hrq]; simp) (by rw [h1]; simp)
    rw [hrq, h1] at this
    simp only [Prod.mk.injEq, Outcome.st.injEq] at this
    exact ⟨m', b, c', h2, by rw [this.1]; exact hcore⟩

/-! ### the query-level statement -/

/-- R-eval for `evaluate(query)` -/
theorem evalQ_refines {env : Env} {C : Query → Prop} {T : Str → Prop} (hC : Closed env C T)
    (hcanon : ∀ q, C q → CanonOK env q) (n : Nat) (w : World) (q : Query) (raw : Str) (extra : Extra)
    (input : Option Val) (uc : Bool) (hS : Sound env w) (hCq : C q) (huc : uc = true → input = none) :
    Sound env (evalQ env n w q raw extra input uc).1 ∧
    ((evalQ env n w q raw extra input uc).2 ≠ .unmodelled →
      ∃ m c', (evalQ env n w q raw extra input uc).1.calls = w.calls ++ c' ∧
        c'.Sublist (refQ env m q raw extra input).2 ∧
        Outcome.sim (evalQ env n w q raw extra input uc).2 (refQ env m q raw extra input).1) :=
  (refines hC hcanon n).q w q raw extra input uc hS hCq huc

/-- R-eval for `evaluate(text)` -/
theorem evalText_refines {env : Env} {C : Query → Prop} {T : Str → Prop} (hC : Closed env C T)
    (hcanon : ∀ q, C q → CanonOK env q) (n : Nat) (w : World) (t : Str) (ug : Bool) (hS : Sound env w) (hT : T t) :
    Sound env (evalText env n w t ug).1 ∧
    ((evalText env n w t ug).2 ≠ .unmodelled →
      ∃ m c', (evalText env n w t ug).1.calls = w.calls ++ c' ∧ c'.Sublist (refText env m t).2 ∧
        Outcome.sim (evalText env n w t ug).2 (refText env m t).1) :=
  (refines hC hcanon n).text w t ug hS hT

/-- transparency against *every* modelled run of the reference interpretation -/
theorem evalQ_obs {env : Env} {C : Query → Prop} {T : Str → Prop} (hC : Closed env C T)
    (hcanon : ∀ q, C q → CanonOK env q) (n m : Nat) (w : World) (q : Query) (raw : Str) (extra : Extra)
    (input : Option Val) (uc : Bool) (hS : Sound env w) (hCq : C q) (huc : uc = true → input = none)
    (he : (evalQ env n w q raw extra input uc).2 ≠ .unmodelled)
    (hr : (refQ env m q raw extra input).1 ≠ .unmodelled) :
    (evalQ env n w q raw extra input uc).2.obs = (refQ env m q raw extra input).1.obs := by
  obtain ⟨m', c', _, _, hsim⟩ := (evalQ_refines hC hcanon n w q raw extra input uc hS hCq huc).2 he
  rw [Outcome.sim_obs hsim, refQ_det env q raw extra input (Outcome.sim_ne_unmodelled hsim he) hr]

/-! ### histories -/

/-- the queries and texts of a history operation are in the classes -/
def HistOp.ok (C : Query → Prop) (T : Str → Prop) : HistOp → Prop
  | .eval q _ => C q
  | .text t => T t
  | .evalOn q _ _ => C q
  | .evalExtra q _ _ => C q
  | .remove _ => True
  | .clean => True

theorem stepHist_sound {env : Env} {C : Query → Prop} {T : Str → Prop} (hC : Closed env C T)
    (hcanon : ∀ q, C q → CanonOK env q) (fuel : Nat) (w : World) (op : HistOp) (hS : Sound env w)
    (hop : op.ok C T) : Sound env (stepHist env fuel w op) := by
  cases op with
  | eval q raw => exact (evalQ_refines hC hcanon fuel w q raw .none none true hS hop (fun _ => rfl)).1
  | text t => exact (evalText_refines hC hcanon fuel w t true hS hop).1
  | evalOn q raw v => exact (evalQ_refines hC hcanon fuel w q raw .none v false hS hop (fun h => by simp at h)).1
  | evalExtra q raw e => exact (evalQ_refines hC hcanon fuel w q raw e none true hS hop (fun _ => rfl)).1
  | remove k => exact hS.remove k
  | clean => exact Sound.clean w

/-- `Sound` is an invariant of every history -/
theorem runHist_sound {env : Env} {C : Query → Prop} {T : Str → Prop} (hC : Closed env C T)
    (hcanon : ∀ q, C q → CanonOK env q) (fuel : Nat) (h : List HistOp) :
    ∀ w, Sound env w → (∀ op ∈ h, op.ok C T) → Sound env (runHist env fuel w h) := by
  induction h with
  | nil => intro w hS _; exact hS
  | cons op h ih =>
    intro w hS hok
    exact ih _ (stepHist_sound hC hcanon fuel w op hS (hok op (List.mem_cons_self ..)))
      (fun op' hm => hok op' (List.mem_cons_of_mem _ hm))

/-! ### never retrievable -/

/-- C05: in a sound world, a key whose fresh evaluation fails, is volatile or has caching switched off holds no
data (visible or hidden) -/
theorem Sound.no_data_of_bad {env : Env} {w : World} (hS : Sound env w) {k : Str} {fuel : Nat} {s : EState}
    {c : List Str} (href : refText env fuel k = (.st s, c))
    (hbad : s.isError = true ∨ s.volatile = true ∨ s.caching = false) : w.dataAt k = none := by
  cases hd : w.dataAt k with
  | none => rfl
  | some st =>
    obtain ⟨fuel', st', c', hrt, he, hv, hc, _⟩ := hS k st hd
    have := refText_det env k (m := fuel) (m' := fuel') (by rw [href]; simp) (by rw [hrt]; simp)
    rw [href, hrt] at this
    simp only [Prod.mk.injEq, Outcome.st.injEq] at this
    rw [this.1] at hbad
    simp [he, hv, hc] at hbad

/-- … and a key whose text does not parse, or whose evaluation raises, neither -/
theorem Sound.no_data_of_not_st {env : Env} {w : World} (hS : Sound env w) {k : Str} {fuel : Nat}
    (hne : (refText env fuel k).1 ≠ .unmodelled) (hns : ∀ s, (refText env fuel k).1 ≠ .st s) : w.dataAt k = none := by
  cases hd : w.dataAt k with
  | none => rfl
  | some st =>
    obtain ⟨fuel', st', c', hrt, _⟩ := hS k st hd
    have := refText_det env k (m := fuel) (m' := fuel') hne (by rw [hrt]; simp)
    rw [hrt] at this
    exact absurd (by rw [this]) (hns st')

theorem World.get_none_of_dataAt {w : World} {k : Str} (h : w.dataAt k = none) : w.get k = none := by
  cases hg : w.get k with
  | none => rfl
  | some s => rw [World.dataAt_of_get hg] at h; simp at h

end Liquer
