import LiquerProofs.Lemmas.ConcO2
import LiquerProofs.Lemmas.ConcW
/-
The oracle evaluator fed the answers of a real cache is the sequential evaluator: same outcome, same call log, and the trace
replayed on the cache gives the final cache of the sequential run (`agreeO`, `evalQO_agrees`).
-/

namespace Liquer

/-- replay a trace on a world: the final world and the answers its `get`s receive, appended to `acc` -/
def replay (w : World) (acc : List (Option EState)) (tr : List COp) : World × List (Option EState) :=
  tr.foldl applyOp (w, acc)

/-- the sequential run from `w` with result `r` is reproduced by the oracle run `fO` fed the answers `A` of `w`: the trace `d`
replayed on `w` gives the cache of `r.1` and the answers `A`; the oracle consumes exactly `A`, emits exactly `d`, logs the same
calls `dc`, does not starve and returns the same result -/
def AgreeO {α : Type} (w : World) (r : World × α) (fO : OW → OW × α) : Prop :=
  ∃ (A : List (Option EState)) (d : List COp) (dc : List Str),
    r.1.calls = w.calls ++ dc ∧
    (∀ acc, replay w acc d = ({ r.1 with calls := w.calls }, acc ++ A)) ∧
    (∀ (ow : OW) (rest : List (Option EState)), ow.starved = false → ow.answers = A ++ rest →
      fO ow = ({ answers := rest, trace := ow.trace ++ d, calls := ow.calls ++ dc, starved := false }, r.2))

/-! ### the call log is a passenger of the cache operations -/

/-- the same cache with another call log -/
def World.setCalls (w : World) (c : List Str) : World := { w with calls := c }

@[simp] theorem World.setCalls_calls (w : World) (c : List Str) : (w.setCalls c).calls = c := rfl

theorem World.setCalls_of_eq {w : World} {c : List Str} (h : w.calls = c) : w.setCalls c = w := by
  cases w; cases h; rfl

@[simp] theorem World.setCalls_setCalls (w : World) (c c' : List Str) : (w.setCalls c).setCalls c' = w.setCalls c' := rfl

@[simp] theorem World.get_setCalls (w : World) (c : List Str) (k : Str) : (w.setCalls c).get k = w.get k := rfl

theorem World.put_setCalls (w : World) (c : List Str) (k : Str) (e : Entry) :
    (w.setCalls c).put k e = (w.put k e).setCalls c := by
  unfold World.put
  cases h : w.enabled <;> simp [World.setCalls, h]

theorem World.storeMeta_setCalls (w : World) (c : List Str) (k x : Str) :
    (w.setCalls c).storeMeta k x = (w.storeMeta k x).setCalls c := by
  unfold World.storeMeta
  have e : (w.setCalls c).entry k = w.entry k := rfl
  rw [e]
  split <;> exact World.put_setCalls _ _ _ _

theorem World.store_setCalls (w : World) (c : List Str) (st : EState) :
    (w.setCalls c).store st = (w.store st).setCalls c := World.put_setCalls _ _ _ _

theorem World.remove_setCalls (w : World) (c : List Str) (k : Str) :
    (w.setCalls c).remove k = (w.remove k).setCalls c := rfl

theorem applyOp_setCalls (w : World) (c : List Str) (acc : List (Option EState)) (op : COp) :
    applyOp (w.setCalls c, acc) op = ((applyOp (w, acc) op).1.setCalls c, (applyOp (w, acc) op).2) := by
  cases op with
  | get k => rfl
  | storeMeta k x => simp only [applyOp_storeMeta, World.storeMeta_setCalls]
  | store st => simp only [applyOp_store, World.store_setCalls]
  | remove k => rfl

@[simp] theorem replay_nil (w : World) (acc : List (Option EState)) : replay w acc [] = (w, acc) := rfl

theorem replay_cons (w : World) (acc : List (Option EState)) (op : COp) (d : List COp) :
    replay w acc (op :: d) = replay (applyOp (w, acc) op).1 (applyOp (w, acc) op).2 d := rfl

theorem replay_append (w : World) (acc : List (Option EState)) (d1 d2 : List COp) :
    replay w acc (d1 ++ d2) = replay (replay w acc d1).1 (replay w acc d1).2 d2 := by
  simp only [replay, List.foldl_append]

theorem replay_setCalls (w : World) (c : List Str) (acc : List (Option EState)) (d : List COp) :
    replay (w.setCalls c) acc d = ((replay w acc d).1.setCalls c, (replay w acc d).2) := by
  induction d generalizing w acc with
  | nil => rfl
  | cons op d ih =>
    rw [replay_cons, replay_cons, applyOp_setCalls]
    exact ih _ _

/-! ### basic facts about `AgreeO` -/

/-- the definition with `setCalls` -/
theorem AgreeO.intro {α : Type} {w : World} {r : World × α} {fO : OW → OW × α}
    (A : List (Option EState)) (d : List COp) (dc : List Str)
    (h1 : r.1.calls = w.calls ++ dc)
    (h2 : ∀ acc, replay w acc d = (r.1.setCalls w.calls, acc ++ A))
    (h3 : ∀ (ow : OW) (rest : List (Option EState)), ow.starved = false → ow.answers = A ++ rest →
      fO ow = ({ answers := rest, trace := ow.trace ++ d, calls := ow.calls ++ dc, starved := false }, r.2)) :
    AgreeO w r fO := ⟨A, d, dc, h1, h2, h3⟩

theorem OW.eta_of_not_starved {ow : OW} (h : ow.starved = false) :
    ({ answers := ow.answers, trace := ow.trace ++ [], calls := ow.calls ++ [], starved := false } : OW) = ow := by
  cases ow; simp_all

theorem AgreeO.ret {α : Type} (w : World) (o : α) : AgreeO w (w, o) (fun ow => (ow, o)) := by
  refine AgreeO.intro [] [] [] (by simp) (fun acc => ?_) (fun ow rest hs ha => ?_)
  · simp [World.setCalls_of_eq]
  · simp only [List.nil_append] at ha
    rw [← ha, OW.eta_of_not_starved hs]

/-- the oracle side may be rewritten on worlds that are not starved -/
theorem AgreeO.congrS {α : Type} {w : World} {r : World × α} {fO gO : OW → OW × α}
    (h : ∀ ow, ow.starved = false → fO ow = gO ow) (hg : AgreeO w r gO) : AgreeO w r fO := by
  obtain ⟨A, d, dc, h1, h2, h3⟩ := hg
  exact ⟨A, d, dc, h1, h2, fun ow rest hs ha => by rw [h ow hs]; exact h3 ow rest hs ha⟩

theorem AgreeO.congr {α : Type} {w : World} {r : World × α} {fO gO : OW → OW × α}
    (h : ∀ ow, fO ow = gO ow) (hg : AgreeO w r gO) : AgreeO w r fO := AgreeO.congrS (fun ow _ => h ow) hg

/-- sequential composition -/
theorem AgreeO.bind {α β : Type} {w : World} {r1 : World × α} {fO1 : OW → OW × α}
    (k : World × α → World × β) (kO : OW × α → OW × β)
    (h1 : AgreeO w r1 fO1) (h2 : AgreeO r1.1 (k r1) (fun ow => kO (ow, r1.2))) :
    AgreeO w (k r1) (fun ow => kO (fO1 ow)) := by
  obtain ⟨A1, d1, dc1, c1, p1, o1⟩ := h1
  obtain ⟨A2, d2, dc2, c2, p2, o2⟩ := h2
  refine AgreeO.intro (A1 ++ A2) (d1 ++ d2) (dc1 ++ dc2) ?_ (fun acc => ?_) (fun ow rest hs ha => ?_)
  · rw [c2, c1, List.append_assoc]
  · have p1' : replay w acc d1 = (r1.1.setCalls w.calls, acc ++ A1) := p1 acc
    have p2' : replay r1.1 (acc ++ A1) d2 = ((k r1).1.setCalls r1.1.calls, acc ++ A1 ++ A2) := p2 (acc ++ A1)
    rw [replay_append, p1', replay_setCalls, p2']
    simp only [World.setCalls_setCalls, List.append_assoc]
  · rw [List.append_assoc] at ha
    have e1 := o1 ow (A2 ++ rest) hs ha
    simp only [e1]
    have e2 := o2 { answers := A2 ++ rest, trace := ow.trace ++ d1, calls := ow.calls ++ dc1, starved := false } rest rfl rfl
    simp only [e2, List.append_assoc]

/-! ### operations that ask nothing -/

/-- `g` on the cache and `gO` on the oracle world are the same writes `d` and the same log lines `dc` -/
def QuietAgree (g : World → World) (gO : OW → OW) : Prop :=
  ∃ (d : List COp) (dc : List Str),
    (∀ w, (g w).calls = w.calls ++ dc) ∧
    (∀ w acc, replay w acc d = ((g w).setCalls w.calls, acc)) ∧
    (∀ ow : OW, ow.starved = false →
      gO ow = { answers := ow.answers, trace := ow.trace ++ d, calls := ow.calls ++ dc, starved := false })

theorem QuietAgree.id : QuietAgree (fun w => w) (fun ow => ow) :=
  ⟨[], [], fun w => by simp, fun w acc => by simp [World.setCalls_of_eq], fun ow hs => (OW.eta_of_not_starved hs).symm⟩

theorem QuietAgree.comp {g1 g2 : World → World} {gO1 gO2 : OW → OW} (h1 : QuietAgree g1 gO1) (h2 : QuietAgree g2 gO2) :
    QuietAgree (fun w => g2 (g1 w)) (fun ow => gO2 (gO1 ow)) := by
  obtain ⟨d1, dc1, c1, p1, o1⟩ := h1
  obtain ⟨d2, dc2, c2, p2, o2⟩ := h2
  refine ⟨d1 ++ d2, dc1 ++ dc2, fun w => ?_, fun w acc => ?_, fun ow hs => ?_⟩
  · rw [c2, c1, List.append_assoc]
  · rw [replay_append, p1, replay_setCalls, p2]
    simp only [World.setCalls_setCalls]
  · show gO2 (gO1 ow) = _
    rw [o1 ow hs, o2 _ rfl]
    simp only [List.append_assoc]

theorem OW.emit_of_not_starved {ow : OW} (hs : ow.starved = false) (op : COp) :
    ow.emit op = { answers := ow.answers, trace := ow.trace ++ [op], calls := ow.calls ++ [], starved := false } := by
  cases ow; simp_all [OW.emit]

theorem QuietAgree.storeMeta (k x : Str) : QuietAgree (fun w => w.storeMeta k x) (fun ow => ow.storeMeta k x) :=
  ⟨[.storeMeta k x], [], fun w => by simp,
    fun w acc => by
      rw [replay_cons, replay_nil, applyOp_storeMeta, World.setCalls_of_eq (World.calls_storeMeta _ _ _)],
    fun ow hs => OW.emit_of_not_starved hs _⟩

theorem QuietAgree.store (st : EState) : QuietAgree (fun w => w.store st) (fun ow => ow.store st) :=
  ⟨[.store st], [], fun w => by simp,
    fun w acc => by
      rw [replay_cons, replay_nil, applyOp_store, World.setCalls_of_eq (World.calls_store _ _)],
    fun ow hs => OW.emit_of_not_starved hs _⟩

theorem QuietAgree.remove (k : Str) : QuietAgree (fun w => w.remove k) (fun ow => ow.remove k) :=
  ⟨[.remove k], [], fun w => by simp,
    fun w acc => by
      rw [replay_cons, replay_nil, applyOp_remove, World.setCalls_of_eq (World.calls_remove _ _)],
    fun ow hs => OW.emit_of_not_starved hs _⟩

theorem QuietAgree.log (c : Str) : QuietAgree (fun w => w.log c) (fun ow => ow.log c) :=
  ⟨[], [c], fun w => rfl, fun w acc => by cases w; rfl,
    fun ow hs => by cases ow; simp_all [OW.log]⟩

theorem QuietAgree.metaIf (uc : Bool) (k x : Str) : QuietAgree (fun w => w.metaIf uc k x) (fun ow => ow.metaIf uc k x) := by
  cases uc
  · exact QuietAgree.id
  · exact QuietAgree.storeMeta k x

theorem QuietAgree.logCall (st : EState) (sig : CmdSig) (args : List Val) :
    QuietAgree (fun w => w.logCall st sig args) (fun ow => ow.logCall st sig args) := by
  cases h : isLibraryCommand sig.name
  · simp only [World.logCall, OW.logCall, h, Bool.false_eq_true, if_false]
    exact QuietAgree.log _
  · simp only [World.logCall, OW.logCall, h, if_true]
    exact QuietAgree.id

theorem QuietAgree.subW (uc : Bool) (raw : Str) (o : Outcome) :
    QuietAgree (fun w => subW uc raw o w) (fun ow => subWO uc raw o ow) := by
  cases o with
  | st sub => exact QuietAgree.metaIf _ _ _
  | parseError => exact QuietAgree.metaIf _ _ _
  | raised a b => exact QuietAgree.id
  | unmodelled => exact QuietAgree.id

theorem QuietAgree.admitW (uc : Bool) (key : Str) (st3 : EState) :
    QuietAgree (fun w => admitW uc key st3 w) (fun ow => admitWO uc key st3 ow) := by
  cases uc
  · exact QuietAgree.id
  · simp only [Liquer.admitW, admitWO, Bool.not_true, Bool.false_eq_true, if_false]
    cases (st3.caching && !st3.isError && !st3.volatile)
    · cases st3.isError
      · simp only [Bool.false_eq_true, if_false]
        exact QuietAgree.remove _
      · simp only [Bool.false_eq_true, if_false, if_true]
        exact QuietAgree.storeMeta _ _
    · simp only [if_true]
      exact QuietAgree.store _

theorem QuietAgree.fileW (uc : Bool) (key : Str) (st2 : EState) :
    QuietAgree (fun w => fileW uc key st2 w) (fun ow => fileWO uc key st2 ow) := by
  cases uc
  · exact QuietAgree.id
  · cases h1 : (st2.caching && !st2.volatile)
    · simp only [Liquer.fileW, fileWO, h1, Bool.not_true, Bool.false_eq_true, if_false]
      exact QuietAgree.remove _
    · simp only [Liquer.fileW, fileWO, h1, Bool.not_true, Bool.false_eq_true, if_false, if_true]
      exact QuietAgree.store _

/-- a quiet operation as an evaluation with a fixed result -/
theorem QuietAgree.ret {α : Type} {g : World → World} {gO : OW → OW} (h : QuietAgree g gO) (w : World) (o : α) :
    AgreeO w (g w, o) (fun ow => (gO ow, o)) := by
  obtain ⟨d, dc, c, p, oq⟩ := h
  refine AgreeO.intro [] d dc (c w) (fun acc => ?_) (fun ow rest hs ha => ?_)
  · rw [p, List.append_nil]
  · simp only [List.nil_append] at ha
    simp only [oq ow hs, ha]

/-- a quiet operation before an evaluation -/
theorem AgreeO.pre {α : Type} {g : World → World} {gO : OW → OW} {w : World} {r : World × α} {fO : OW → OW × α}
    (hq : QuietAgree g gO) (h : AgreeO (g w) r fO) : AgreeO w r (fun ow => fO (gO ow)) :=
  AgreeO.bind (α := Unit) (r1 := (g w, ())) (fun _ => r) (fun x => fO x.1) (hq.ret w ()) h

/-! ### the look-up -/

theorem askIf_agreeO (w : World) (c : Bool) (key : Str) :
    AgreeO w (w, if c then w.get key else none) (fun ow => ow.askIf c key) := by
  cases c
  · exact AgreeO.ret w none
  · refine AgreeO.intro [w.get key] [.get key] [] (by simp) (fun acc => ?_) (fun ow rest hs ha => ?_)
    · rw [replay_cons, replay_nil, applyOp_get, World.setCalls_of_eq rfl]
    · cases ow
      simp_all [OW.askIf, OW.ask]

/-! ### the four functions -/

structure AgreeAtO (env : Env) (n : Nat) : Prop where
  text : ∀ w t ug, AgreeO w (evalText env n w t ug) (fun ow => evalTextO env n ow t ug)
  q : ∀ w q raw extra input uc,
    AgreeO w (evalQ env n w q raw extra input uc) (fun ow => evalQO env n ow q raw extra input uc)
  act : ∀ w st a raw parent extra uc,
    AgreeO w (evalAction env n w st a raw parent extra uc) (fun ow => evalActionO env n ow st a raw parent extra uc)
  params : ∀ w ps raw parent,
    AgreeO w (evalParams env n w ps raw parent) (fun ow => evalParamsO env n ow ps raw parent)

theorem call_agreeO {env : Env} {n : Nat} (ih : AgreeAtO env n) (w1 : World) (st act raw sig x uc) :
    AgreeO w1 (evalCall env n w1 st act raw sig x uc) (fun ow => evalCallO env n ow st act raw sig x uc) := by
  unfold evalCall evalCallO
  cases parseArgv sig.args x.1 x.2.1 with
  | unmodelled => exact AgreeO.ret _ _
  | fail => exact (QuietAgree.metaIf uc raw (s "error")).ret w1 _
  | ok args =>
    simp only []
    cases cmdSem sig.ns sig.name st.data st.vars args with
    | unmodelled => exact (QuietAgree.logCall st sig args).ret w1 _
    | raises => exact ((QuietAgree.logCall st sig args).comp (QuietAgree.metaIf uc raw (s "error"))).ret w1 _
    | value v => exact ((QuietAgree.logCall st sig args).comp (QuietAgree.metaIf uc raw statusReady)).ret w1 _
    | stateVars v vars => exact ((QuietAgree.logCall st sig args).comp (QuietAgree.metaIf uc raw statusReady)).ret w1 _
    | nocache v => exact ((QuietAgree.logCall st sig args).comp (QuietAgree.metaIf uc raw statusReady)).ret w1 _
    | subeval y qtext =>
      exact AgreeO.pre (QuietAgree.logCall st sig args)
        (AgreeO.bind (fun r => (subW uc raw r.2 r.1, subOutcome st act raw sig x.2.2 y r.2))
          (fun r => (subWO uc raw r.2 r.1, subOutcome st act raw sig x.2.2 y r.2))
          (ih.text (w1.logCall st sig args) qtext true)
          ((QuietAgree.subW uc raw _).ret _ _))

theorem link_agreeO {env : Env} {n : Nat} (ih : AgreeAtO env n) (w : World) (lq : Query) (parent : Str) :
    AgreeO w (evalLink env n w lq parent) (fun ow => evalLinkO env n ow lq parent) := by
  unfold evalLink evalLinkO
  cases (lq.absolute || parent.isEmpty || parent == ['/'])
  · simp only [Bool.false_eq_true, if_false]
    split
    · cases parse env.dec parent with
      | none => exact AgreeO.ret _ _
      | some pq => exact ih.text _ _ _
    · next hne =>
      refine AgreeO.congr (gO := fun ow => (ow, .unmodelled)) (fun ow => ?_) (AgreeO.ret _ _)
      split
      · exact absurd rfl (hne _ _ _ _)
      · rfl
  · simp only [if_true]
    exact ih.q _ _ _ _ _ _

/-- what follows the conversion of the remaining parameters -/
def consKA (pv : PVal) (r : World × (List PVal ⊕ Outcome)) : World × (List PVal ⊕ Outcome) :=
  match r with
  | (w1, .inl rest) => (w1, .inl (pv :: rest))
  | other => other

def consKAO (pv : PVal) (r : OW × (List PVal ⊕ Outcome)) : OW × (List PVal ⊕ Outcome) :=
  match r with
  | (w1, .inl rest) => (w1, .inl (pv :: rest))
  | other => other

theorem consKA_agreeO (pv : PVal) (w : World) (x : List PVal ⊕ Outcome) :
    AgreeO w (consKA pv (w, x)) (fun ow => consKAO pv (ow, x)) := by
  cases x <;> exact AgreeO.ret _ _

/-- what follows the evaluation of a link -/
def linkKA (env : Env) (n : Nat) (pos : Nat) (ps : List Param) (raw parent : Str) (r : World × Outcome) :
    World × (List PVal ⊕ Outcome) :=
  match r with
  | (w1, .st v) =>
    if v.isError then (w1, .inr (.raised (some pos) (some raw)))
    else consKA (.expanded v.data pos) (evalParams env n w1 ps raw parent)
  | (w1, .raised a b) => (w1, .inr (.raised a b))
  | (w1, .parseError) => (w1, .inr .parseError)
  | (w1, .unmodelled) => (w1, .inr .unmodelled)

def linkKAO (env : Env) (n : Nat) (pos : Nat) (ps : List Param) (raw parent : Str) (r : OW × Outcome) :
    OW × (List PVal ⊕ Outcome) :=
  match r with
  | (w1, .st v) =>
    if v.isError then (w1, .inr (.raised (some pos) (some raw)))
    else consKAO (.expanded v.data pos) (evalParamsO env n w1 ps raw parent)
  | (w1, .raised a b) => (w1, .inr (.raised a b))
  | (w1, .parseError) => (w1, .inr .parseError)
  | (w1, .unmodelled) => (w1, .inr .unmodelled)

theorem evalParams_str_K (env : Env) (n : Nat) (w : World) (t : Str) (pos : Nat) (ps : List Param) (raw parent : Str) :
    evalParams env (n+1) w (.str t pos :: ps) raw parent = consKA (.text t pos) (evalParams env n w ps raw parent) := by
  rw [evalParams_str]; rfl

theorem evalParamsO_str_K (env : Env) (n : Nat) (w : OW) (t : Str) (pos : Nat) (ps : List Param) (raw parent : Str) :
    evalParamsO env (n+1) w (.str t pos :: ps) raw parent = consKAO (.text t pos) (evalParamsO env n w ps raw parent) := by
  rw [evalParamsO_str]; rfl

theorem evalParams_link_K (env : Env) (n : Nat) (w : World) (lq : Query) (pos : Nat) (ps : List Param) (raw parent : Str) :
    evalParams env (n+1) w (.link lq pos :: ps) raw parent = linkKA env n pos ps raw parent (evalLink env n w lq parent) := by
  rw [evalParams_link]; rfl

theorem evalParamsO_link_K (env : Env) (n : Nat) (w : OW) (lq : Query) (pos : Nat) (ps : List Param) (raw parent : Str) :
    evalParamsO env (n+1) w (.link lq pos :: ps) raw parent = linkKAO env n pos ps raw parent (evalLinkO env n w lq parent) := by
  rw [evalParamsO_link]; rfl

theorem linkKA_agreeO {env : Env} {n : Nat} (ih : AgreeAtO env n) (pos : Nat) (ps : List Param) (raw parent : Str)
    (w1 : World) (o : Outcome) :
    AgreeO w1 (linkKA env n pos ps raw parent (w1, o)) (fun ow => linkKAO env n pos ps raw parent (ow, o)) := by
  cases o with
  | st v =>
    simp only [linkKA, linkKAO]
    cases v.isError
    · simp only [Bool.false_eq_true, if_false]
      exact AgreeO.bind (consKA (.expanded v.data pos)) (consKAO (.expanded v.data pos)) (ih.params w1 ps raw parent)
        (consKA_agreeO _ _ _)
    · simp only [if_true]
      exact AgreeO.ret _ _
  | raised a b => exact AgreeO.ret _ _
  | parseError => exact AgreeO.ret _ _
  | unmodelled => exact AgreeO.ret _ _

theorem params_agreeO_step {env : Env} {n : Nat} (ih : AgreeAtO env n) (w : World) (ps : List Param) (raw parent : Str) :
    AgreeO w (evalParams env (n+1) w ps raw parent) (fun ow => evalParamsO env (n+1) ow ps raw parent) := by
  cases ps with
  | nil =>
    rw [evalParams_nil]
    exact AgreeO.congr (fun ow => evalParamsO_nil env n ow raw parent) (AgreeO.ret _ _)
  | cons p ps =>
    cases p with
    | str t pos =>
      rw [evalParams_str_K]
      refine AgreeO.congr (fun ow => evalParamsO_str_K env n ow t pos ps raw parent) ?_
      exact AgreeO.bind (consKA (.text t pos)) (consKAO (.text t pos)) (ih.params w ps raw parent) (consKA_agreeO _ _ _)
    | link lq pos =>
      rw [evalParams_link_K]
      refine AgreeO.congr (fun ow => evalParamsO_link_K env n ow lq pos ps raw parent) ?_
      exact AgreeO.bind (linkKA env n pos ps raw parent) (linkKAO env n pos ps raw parent) (link_agreeO ih w lq parent)
        (linkKA_agreeO ih pos ps raw parent _ _)

theorem text_agreeO_step {env : Env} {n : Nat} (ih : AgreeAtO env n) (w : World) (t : Str) (ug : Bool) :
    AgreeO w (evalText env (n+1) w t ug) (fun ow => evalTextO env (n+1) ow t ug) := by
  rw [evalText_succ]
  refine AgreeO.congr (fun ow => evalTextO_succ env n ow t ug) ?_
  cases parse env.dec t with
  | none => exact AgreeO.ret _ _
  | some q => exact ih.q _ _ _ _ _ _

/-- what follows the conversion of the parameters of an action -/
def callKA (env : Env) (n : Nat) (st : EState) (act : Action) (raw : Str) (sig : CmdSig) (extra : Extra) (uc : Bool)
    (r : World × (List PVal ⊕ Outcome)) : World × Outcome :=
  match r with
  | (w1, .inr o) => (w1, o)
  | (w1, .inl given) => evalCall env n w1 st act raw sig (applyExtra extra given) uc

def callKAO (env : Env) (n : Nat) (st : EState) (act : Action) (raw : Str) (sig : CmdSig) (extra : Extra) (uc : Bool)
    (r : OW × (List PVal ⊕ Outcome)) : OW × Outcome :=
  match r with
  | (w1, .inr o) => (w1, o)
  | (w1, .inl given) => evalCallO env n w1 st act raw sig (applyExtra extra given) uc

theorem callKA_agreeO {env : Env} {n : Nat} (ih : AgreeAtO env n) (st act raw sig extra uc) (w1 : World)
    (x : List PVal ⊕ Outcome) :
    AgreeO w1 (callKA env n st act raw sig extra uc (w1, x)) (fun ow => callKAO env n st act raw sig extra uc (ow, x)) := by
  cases x with
  | inr o => exact AgreeO.ret _ _
  | inl given => exact call_agreeO ih w1 _ _ _ _ _ _

theorem act_agreeO_step {env : Env} {n : Nat} (ih : AgreeAtO env n) (w : World) (st : EState) (a : Action)
    (raw parent : Str) (extra : Extra) (uc : Bool) :
    AgreeO w (evalAction env (n+1) w st a raw parent extra uc) (fun ow => evalActionO env (n+1) ow st a raw parent extra uc) := by
  rw [evalAction_succ]
  refine AgreeO.congr (fun ow => evalActionO_succ env n ow st a raw parent extra uc) ?_
  have h0 := QuietAgree.metaIf uc raw (s "evaluation")
  cases namespacesOf st.vars with
  | none => exact h0.ret w _
  | some nss =>
    simp only []
    cases (!(nss.getLast?.map env.reg.hasNs).getD false)
    · simp only [Bool.false_eq_true, if_false]
      cases resolve env.reg nss a.name with
      | none => exact (h0.comp (QuietAgree.metaIf uc raw (s "error"))).ret w _
      | some sig =>
        exact AgreeO.pre h0
          (AgreeO.bind (callKA env n st a raw sig extra uc) (callKAO env n st a raw sig extra uc)
            (ih.params (w.metaIf uc raw (s "evaluation")) a.params raw parent)
            (callKA_agreeO ih _ _ _ _ _ _ _ _))
    · simp only [if_true]
      exact h0.ret w _

/-- what follows the last action -/
def admitKA (uc : Bool) (key : Str) (x : World × Outcome) : World × Outcome :=
  match x.2 with
  | .st st2 => (admitW uc key { st2 with query := key } x.1, .st { st2 with query := key })
  | other => (x.1, other)

def admitKAO (uc : Bool) (key : Str) (x : OW × Outcome) : OW × Outcome :=
  match x.2 with
  | .st st2 => (admitWO uc key { st2 with query := key } x.1, .st { st2 with query := key })
  | other => (x.1, other)

theorem admitKA_agreeO (uc : Bool) (key : Str) (w2 : World) (o : Outcome) :
    AgreeO w2 (admitKA uc key (w2, o)) (fun ow => admitKAO uc key (ow, o)) := by
  cases o with
  | st st2 => exact (QuietAgree.admitW uc key _).ret w2 _
  | raised a b => exact AgreeO.ret _ _
  | parseError => exact AgreeO.ret _ _
  | unmodelled => exact AgreeO.ret _ _

theorem post_agreeO {env : Env} {n : Nat} (ih : AgreeAtO env n) (w1 : World) (st parent r key raw extra uc) :
    AgreeO w1 (evalPost env n w1 st parent r key raw extra uc) (fun ow => evalPostO env n ow st parent r key raw extra uc) := by
  unfold evalPost evalPostO
  split
  · exact AgreeO.ret _ _
  · exact ((QuietAgree.metaIf uc raw (s "evaluation")).comp (QuietAgree.fileW uc key _)).ret w1 _
  · next hd a =>
    exact AgreeO.bind (admitKA uc key) (admitKAO uc key) (ih.act w1 st a raw parent extra uc) (admitKA_agreeO _ _ _ _)
  · next h1 h2 =>
    refine AgreeO.congr (gO := fun ow => (ow, .unmodelled)) (fun ow => ?_) (AgreeO.ret _ _)
    split
    · next heq => cases heq
    · next heq => cases heq; exact absurd rfl (h1 _ _)
    · next heq => cases heq; exact absurd rfl (h2 _ _)
    · rfl

theorem after_agreeO {env : Env} {n : Nat} (ih : AgreeAtO env n) (w1 : World) (o parent r key raw extra uc) :
    AgreeO w1 (evalAfter env n w1 o parent r key raw extra uc) (fun ow => evalAfterO env n ow o parent r key raw extra uc) := by
  unfold evalAfter evalAfterO
  cases o with
  | raised a b => exact AgreeO.ret _ _
  | parseError => exact AgreeO.ret _ _
  | unmodelled => exact AgreeO.ret _ _
  | st st =>
    simp only []
    cases st.isError
    · simp only [Bool.false_eq_true, if_false]
      exact post_agreeO ih w1 _ _ _ _ _ _ _
    · simp only [if_true]
      exact (QuietAgree.metaIf uc raw (s "error")).ret w1 _

theorem pre_agreeO {env : Env} {n : Nat} (ih : AgreeAtO env n) (w : World) (q raw input uc) :
    AgreeO w (evalPre env n w q raw input uc) (fun ow => evalPreO env n ow q raw input uc) := by
  unfold evalPre evalPreO
  cases q.preQ with
  | none => exact AgreeO.ret _ _
  | some p =>
    exact AgreeO.pre (QuietAgree.metaIf uc raw (s "evaluating parent")) (ih.q _ p (p.encode Gen.escapeTable) .none input uc)

/-- what follows a miss of the look-up -/
def missKA (env : Env) (n : Nat) (w : World) (q : Query) (raw : Str) (extra : Extra) (input : Option Val) (uc : Bool) :
    World × Outcome :=
  if q.isRes then (w, .unmodelled) else
    evalAfter env n (evalPre env n w q raw input uc).1 (evalPre env n w q raw input uc).2 q.preParent q.preRem
      (q.encode Gen.escapeTable) raw extra uc

theorem miss_agreeO {env : Env} {n : Nat} (ih : AgreeAtO env n) (w : World) (q : Query) (raw : Str) (extra : Extra)
    (input : Option Val) (uc : Bool) :
    AgreeO w (missKA env n w q raw extra input uc) (fun ow => evalMissO env n ow q raw extra input uc) := by
  unfold missKA evalMissO
  cases q.isRes
  · simp only [Bool.false_eq_true, if_false]
    exact AgreeO.bind (fun x => evalAfter env n x.1 x.2 q.preParent q.preRem (q.encode Gen.escapeTable) raw extra uc)
      (fun x => evalAfterO env n x.1 x.2 q.preParent q.preRem (q.encode Gen.escapeTable) raw extra uc)
      (pre_agreeO ih w q raw input uc) (after_agreeO ih _ _ _ _ _ _ _ _)
  · simp only [if_true]
    exact AgreeO.ret _ _

/-- what follows the look-up -/
def lookKA (env : Env) (n : Nat) (q : Query) (raw : Str) (extra : Extra) (input : Option Val) (uc : Bool)
    (a : World × Option EState) : World × Outcome :=
  match a.2 with
  | some st => (a.1, .st st)
  | none => missKA env n a.1 q raw extra input uc

def lookKAO (env : Env) (n : Nat) (q : Query) (raw : Str) (extra : Extra) (input : Option Val) (uc : Bool)
    (a : OW × Option EState) : OW × Outcome :=
  if a.1.starved then (a.1, .unmodelled) else
    match a.2 with
    | some st => (a.1, .st st)
    | none => evalMissO env n a.1 q raw extra input uc

theorem lookKA_agreeO {env : Env} {n : Nat} (ih : AgreeAtO env n) (q : Query) (raw : Str) (extra : Extra)
    (input : Option Val) (uc : Bool) (w : World) (hit : Option EState) :
    AgreeO w (lookKA env n q raw extra input uc (w, hit)) (fun ow => lookKAO env n q raw extra input uc (ow, hit)) := by
  cases hit with
  | some st =>
    refine AgreeO.congrS (gO := fun ow => (ow, .st st)) (fun ow hs => ?_) (AgreeO.ret _ _)
    simp only [lookKAO, hs, Bool.false_eq_true, if_false]
  | none =>
    refine AgreeO.congrS (gO := fun ow => evalMissO env n ow q raw extra input uc) (fun ow hs => ?_)
      (miss_agreeO ih w q raw extra input uc)
    simp only [lookKAO, hs, Bool.false_eq_true, if_false]

theorem q_agreeO_step {env : Env} {n : Nat} (ih : AgreeAtO env n) (w : World) (q : Query) (raw : Str) (extra : Extra)
    (input : Option Val) (uc : Bool) :
    AgreeO w (evalQ env (n+1) w q raw extra input uc) (fun ow => evalQO env (n+1) ow q raw extra input uc) := by
  rw [evalQ_succ']
  refine AgreeO.congr (fun ow => evalQO_succ' env n ow q raw extra input uc) ?_
  exact AgreeO.bind (lookKA env n q raw extra input uc) (lookKAO env n q raw extra input uc)
    (askIf_agreeO w (extra.isEmpty && input.isNone && uc) (q.encode Gen.escapeTable)) (lookKA_agreeO ih _ _ _ _ _ _ _)

theorem agreeAtO_zero (env : Env) : AgreeAtO env 0 where
  text := fun w t ug => by
    rw [evalText_zero]; exact AgreeO.congr (fun ow => evalTextO_zero env ow t ug) (AgreeO.ret _ _)
  q := fun w q raw extra input uc => by
    rw [evalQ_zero]; exact AgreeO.congr (fun ow => evalQO_zero env ow q raw extra input uc) (AgreeO.ret _ _)
  act := fun w st a raw parent extra uc => by
    rw [evalAction_zero]; exact AgreeO.congr (fun ow => evalActionO_zero env ow st a raw parent extra uc) (AgreeO.ret _ _)
  params := fun w ps raw parent => by
    rw [evalParams_zero]; exact AgreeO.congr (fun ow => evalParamsO_zero env ow ps raw parent) (AgreeO.ret _ _)

/-- the oracle evaluator fed the answers of the cache is the sequential evaluator -/
theorem agreeO (env : Env) : ∀ n, AgreeAtO env n
  | 0 => agreeAtO_zero env
  | n + 1 =>
    have ih := agreeO env n
    { text := text_agreeO_step ih, q := q_agreeO_step ih, act := act_agreeO_step ih, params := params_agreeO_step ih }

/-- a thread that is fed the answers of the cache, in order, is the sequential evaluation -/
theorem evalQO_agrees (env : Env) (n : Nat) (w : World) (q : Query) (raw : Str) (extra : Extra) (input : Option Val)
    (uc : Bool) :
    ∃ A : List (Option EState),
      (evalQO env n { answers := A } q raw extra input uc).2 = (evalQ env n w q raw extra input uc).2 ∧
      (evalQO env n { answers := A } q raw extra input uc).1.starved = false ∧
      (evalQO env n { answers := A } q raw extra input uc).1.answers = [] ∧
      (evalQ env n w q raw extra input uc).1.calls = w.calls ++ (evalQO env n { answers := A } q raw extra input uc).1.calls ∧
      replay w [] (evalQO env n { answers := A } q raw extra input uc).1.trace =
        ({ (evalQ env n w q raw extra input uc).1 with calls := w.calls }, A) := by
  obtain ⟨A, d, dc, h1, h2, h3⟩ := (agreeO env n).q w q raw extra input uc
  have e := h3 { answers := A } [] rfl (by simp)
  simp only at e
  refine ⟨A, ?_⟩
  rw [e]
  refine ⟨rfl, rfl, rfl, ?_, ?_⟩
  · simpa using h1
  · simpa using h2 []

end Liquer
