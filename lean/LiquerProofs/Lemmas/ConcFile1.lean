/-
C12, file-operation granularity (1): interleavings (membership, inversion, the executable `merge`, "an invariant
indexed by the positions of the threads holds after every prefix of every interleaving") and the link between the
step list of a writer with its own temporary names (`storeStepsN`) and the list `storeStepsC` of the crash model.
-/
import LiquerModel.ConcFile
import LiquerProofs.Lemmas.CrashFlat

namespace Liquer
namespace Crash

variable {α : Type}

/-! ### interleavings -/

theorem Interleave.mem {x y l : List α} (h : Interleave x y l) : ∀ s, s ∈ l → s ∈ x ∨ s ∈ y := by
  induction h with
  | nil => intro s hs; cases hs
  | left _ ih =>
    intro s hs
    rcases List.mem_cons.mp hs with rfl | hs
    · exact Or.inl (List.mem_cons_self ..)
    · rcases ih s hs with h | h
      · exact Or.inl (List.mem_cons_of_mem _ h)
      · exact Or.inr h
  | right _ ih =>
    intro s hs
    rcases List.mem_cons.mp hs with rfl | hs
    · exact Or.inr (List.mem_cons_self ..)
    · rcases ih s hs with h | h
      · exact Or.inl h
      · exact Or.inr (List.mem_cons_of_mem _ h)

theorem Interleave3.mem {x y z l : List α} (h : Interleave3 x y z l) : ∀ s, s ∈ l → s ∈ x ∨ s ∈ y ∨ s ∈ z := by
  induction h with
  | nil => intro s hs; cases hs
  | first _ ih =>
    intro s hs
    rcases List.mem_cons.mp hs with rfl | hs
    · exact Or.inl (List.mem_cons_self ..)
    · rcases ih s hs with h | h | h
      · exact Or.inl (List.mem_cons_of_mem _ h)
      · exact Or.inr (Or.inl h)
      · exact Or.inr (Or.inr h)
  | second _ ih =>
    intro s hs
    rcases List.mem_cons.mp hs with rfl | hs
    · exact Or.inr (Or.inl (List.mem_cons_self ..))
    · rcases ih s hs with h | h | h
      · exact Or.inl h
      · exact Or.inr (Or.inl (List.mem_cons_of_mem _ h))
      · exact Or.inr (Or.inr h)
  | third _ ih =>
    intro s hs
    rcases List.mem_cons.mp hs with rfl | hs
    · exact Or.inr (Or.inr (List.mem_cons_self ..))
    · rcases ih s hs with h | h | h
      · exact Or.inl h
      · exact Or.inr (Or.inl h)
      · exact Or.inr (Or.inr (List.mem_cons_of_mem _ h))

theorem Interleave.length {x y l : List α} (h : Interleave x y l) : l.length = x.length + y.length := by
  induction h with
  | nil => rfl
  | left _ ih => simp [ih]; omega
  | right _ ih => simp [ih]; omega

theorem Interleave3.cons_inv {x y z l : List α} {s : α} (h : Interleave3 x y z (s :: l)) :
    (∃ x', x = s :: x' ∧ Interleave3 x' y z l) ∨ (∃ y', y = s :: y' ∧ Interleave3 x y' z l) ∨
    (∃ z', z = s :: z' ∧ Interleave3 x y z' l) := by
  cases h with
  | first h => exact Or.inl ⟨_, rfl, h⟩
  | second h => exact Or.inr (Or.inl ⟨_, rfl, h⟩)
  | third h => exact Or.inr (Or.inr ⟨_, rfl, h⟩)

/-- two threads are three threads the third of which does nothing -/
theorem Interleave.to3 {x y l : List α} (h : Interleave x y l) : Interleave3 x y [] l := by
  induction h with
  | nil => exact .nil
  | left _ ih => exact .first ih
  | right _ ih => exact .second ih

theorem Interleave.to3' {x z l : List α} (h : Interleave x z l) : Interleave3 x [] z l := by
  induction h with
  | nil => exact .nil
  | left _ ih => exact .first ih
  | right _ ih => exact .third ih

theorem Interleave.nil_inv {x y : List α} (h : Interleave x y []) : x = [] ∧ y = [] := by
  cases h; exact ⟨rfl, rfl⟩

/-- a shuffle of (a shuffle of `x` and `y`) with `z` is a three-way shuffle -/
theorem Interleave.nest {x y xy z l : List α} (h1 : Interleave x y xy) (h2 : Interleave xy z l) : Interleave3 x y z l := by
  induction h2 generalizing x y with
  | nil => obtain ⟨rfl, rfl⟩ := h1.nil_inv; exact .nil
  | left _ ih =>
    cases h1 with
    | left h1 => exact .first (ih h1)
    | right h1 => exact .second (ih h1)
  | right _ ih => exact .third (ih h1)

theorem Interleave.left_nil (y : List α) : Interleave [] y y := by
  induction y with
  | nil => exact .nil
  | cons s y ih => exact .right ih

theorem Interleave.right_nil (x : List α) : Interleave x [] x := by
  induction x with
  | nil => exact .nil
  | cons s x ih => exact .left ih

theorem Interleave.append (x y : List α) : Interleave x y (x ++ y) := by
  induction x with
  | nil => exact Interleave.left_nil y
  | cons s x ih => exact .left ih

/-- every schedule of the executable `merge` is an interleaving -/
theorem merge_interleave (sch : List Bool) (x y : List α) : Interleave x y (merge sch x y) := by
  fun_induction merge sch x y with
  | case1 => exact Interleave.left_nil _
  | case2 => exact Interleave.right_nil _
  | case3 => exact Interleave.append _ _
  | case4 => exact .left (by assumption)
  | case5 => exact .right (by assumption)

/-- and every interleaving is the `merge` of some schedule -/
theorem interleave_merge {x y l : List α} (h : Interleave x y l) : ∃ sch, l = merge sch x y := by
  induction h with
  | nil => exact ⟨[], rfl⟩
  | @left s x y l _ ih =>
    obtain ⟨sch, rfl⟩ := ih
    cases y with
    | nil => exact ⟨[], by cases x <;> cases sch <;> simp [merge]⟩
    | cons t y => exact ⟨true :: sch, by simp [merge]⟩
  | @right s x y l _ ih =>
    obtain ⟨sch, rfl⟩ := ih
    cases x with
    | nil => exact ⟨[], by cases y <;> cases sch <;> simp [merge]⟩
    | cons t x => exact ⟨false :: sch, by simp [merge]⟩

theorem Interleave3.append (x y z : List α) : Interleave3 x y z (x ++ y ++ z) := by
  induction x with
  | nil =>
    induction y with
    | nil =>
      induction z with
      | nil => exact .nil
      | cons s z ih => exact .third ih
    | cons s y ih => exact .second ih
  | cons s x ih => exact .first ih

/-- every schedule of the executable `merge3` is a three-way interleaving -/
theorem merge3_interleave3 (sch : List Nat) (x y z : List α) : Interleave3 x y z (merge3 sch x y z) := by
  fun_induction merge3 sch x y z with
  | case1 => exact Interleave3.append _ _ _
  | case2 => exact .first (by assumption)
  | case3 => assumption
  | case4 => exact .second (by assumption)
  | case5 => assumption
  | case6 => exact .third (by assumption)
  | case7 => assumption

theorem drop_eq_cons {l : List α} {i : Nat} {s : α} {r : List α} (h : l.drop i = s :: r) : l[i]? = some s ∧ r = l.drop (i + 1) := by
  induction l generalizing i with
  | nil => simp at h
  | cons a l ih =>
    cases i with
    | zero => simp at h; simp [h]
    | succ i => simp at h; simpa using ih h

/-- **positions**: an invariant indexed by how many steps each of three threads has done, preserved by the next step of
each thread, holds (for some positions) after every prefix of every interleaving of the remaining steps -/
theorem prefix_inv3 {φ : Type} (exec : φ → α → φ) (la lb lp : List α) (I : Nat → Nat → Nat → φ → Prop)
    (hA : ∀ i j p d s, la[i]? = some s → I i j p d → I (i + 1) j p (exec d s))
    (hB : ∀ i j p d s, lb[j]? = some s → I i j p d → I i (j + 1) p (exec d s))
    (hP : ∀ i j p d s, lp[p]? = some s → I i j p d → I i j (p + 1) (exec d s))
    (l : List α) : ∀ (i j p : Nat) (d : φ), Interleave3 (la.drop i) (lb.drop j) (lp.drop p) l → I i j p d →
      ∀ n, ∃ i' j' p', I i' j' p' ((l.take n).foldl exec d) := by
  induction l with
  | nil => intro i j p d _ hI n; exact ⟨i, j, p, by simpa using hI⟩
  | cons s l ih =>
    intro i j p d h hI n
    cases n with
    | zero => exact ⟨i, j, p, by simpa using hI⟩
    | succ n =>
      simp only [List.take_succ_cons, List.foldl_cons]
      rcases h.cons_inv with ⟨x', hx, h'⟩ | ⟨y', hy, h'⟩ | ⟨z', hz, h'⟩
      · obtain ⟨hs, rfl⟩ := drop_eq_cons hx
        exact ih (i + 1) j p _ h' (hA i j p d s hs hI) n
      · obtain ⟨hs, rfl⟩ := drop_eq_cons hy
        exact ih i (j + 1) p _ h' (hB i j p d s hs hI) n
      · obtain ⟨hs, rfl⟩ := drop_eq_cons hz
        exact ih i j (p + 1) _ h' (hP i j p d s hs hI) n

/-! ### names touched by the step lists -/

/-- the names a writer of the key with digest `hk` may touch: the two kinds of files of the key, and temporaries -/
def keyN (hk : Str) : FName → Bool
  | .state h => h == hk
  | .data h _ => h == hk
  | .tmp _ => true

theorem writeFileN_names (hk : Str) (t target : FName) (b : Data) (ht : keyN hk t = true) (htg : keyN hk target = true) :
    ∀ s ∈ writeFileN t target b, ∀ n ∈ s.names, keyN hk n = true := by
  intro s hs n hn
  simp only [writeFileN, List.mem_cons, List.not_mem_nil, or_false] at hs
  rcases hs with rfl | rfl | rfl | rfl <;> simp [Step.names] at hn
  · subst hn; exact ht
  · subst hn; exact ht
  · subst hn; exact ht
  · rcases hn with rfl | rfl
    · exact ht
    · exact htg

theorem storeStepsN_names (c : FileCfg) (t1 t2 : FName) (st : CState) (h1 : keyN (c.h st.metadata.query) t1 = true)
    (h2 : keyN (c.h st.metadata.query) t2 = true) :
    ∀ s ∈ storeStepsN c t1 t2 st, ∀ n ∈ s.names, keyN (c.h st.metadata.query) n = true := by
  intro s hs n hn
  simp only [storeStepsN, List.mem_append] at hs
  rcases hs with (hs | hs) | hs
  · simp only [List.mem_cons, List.not_mem_nil, or_false] at hs
    rcases hs with rfl | rfl <;> simp [Step.names] at hn <;> subst hn <;> simp [keyN]
  · exact writeFileN_names _ _ _ _ h1 (by simp [keyN]) s hs n hn
  · exact writeFileN_names _ _ _ _ h2 (by simp [keyN]) s hs n hn

theorem storeMetaStepsN_names (c : FileCfg) (t : FName) (m : CMeta) (h1 : keyN (c.h m.query) t = true) :
    ∀ s ∈ storeMetaStepsN c t m, ∀ n ∈ s.names, keyN (c.h m.query) n = true :=
  writeFileN_names _ _ _ _ h1 (by simp [keyN])

/-- a name none of the executed steps mentions is read as before -/
theorem get_foldl_untouched (l : List (Step FName)) (nm : FName) (h : ∀ s ∈ l, nm ∉ s.names) (d : CDir) :
    AL.get (l.foldl execC d) nm = AL.get d nm := by
  induction l generalizing d with
  | nil => rfl
  | cons s l ih =>
    rw [List.foldl_cons, ih (fun s' hs' => h s' (List.mem_cons_of_mem _ hs')), get_execC_untouched d s nm (h s (List.mem_cons_self ..))]

theorem get_congr (c : FileCfg) (d1 d2 : CDir) (k : Str)
    (hs : AL.get d1 (.state (c.h k)) = AL.get d2 (.state (c.h k)))
    (hd : ∀ e, AL.get d1 (.data (c.h k) e) = AL.get d2 (.data (c.h k) e)) : FileC.get c d1 k = FileC.get c d2 k := by
  simp only [FileC.get, FileC.loadMeta, hs, hd]

/-- **frame**: steps that only touch files of the key with digest `hk` (and temporaries) leave every key with another digest alone -/
theorem get_frame (c : FileCfg) (hk : Str) (l : List (Step FName)) (hnames : ∀ s ∈ l, ∀ n ∈ s.names, keyN hk n = true)
    (k' : Str) (hne : c.h k' ≠ hk) (d : CDir) : FileC.get c (l.foldl execC d) k' = FileC.get c d k' := by
  apply get_congr
  · apply get_foldl_untouched
    intro s hs hm
    have := hnames s hs _ hm
    simp [keyN, hne] at this
  · intro e
    apply get_foldl_untouched
    intro s hs hm
    have := hnames s hs _ hm
    simp [keyN, hne] at this

/-! ### link to the crash model's step list -/

theorem writeFileN_tmpC (target : FName) (b : Data) : writeFileN tmpC target b = writeFileC target b := rfl

/-- **link (exact)**: with the crash model's temporary name, on a directory that holds the metadata file of the key and exactly
one data file of the key — the one of the state's type — the two step lists coincide -/
theorem storeStepsN_eq_storeStepsC (c : FileCfg) (d : CDir) (st : CState) (x : Data)
    (hs : (AL.get d (.state (c.h st.metadata.query))).isSome = true)
    (hd : d.filter (fun e => FileC.isDataOf (c.h st.metadata.query) e.1) =
      [(.data (c.h st.metadata.query) (c.ext st.metadata.typeId), x)]) :
    storeStepsN c tmpC tmpC st = storeStepsC c d st := by
  simp [storeStepsN, storeStepsC, removeStepsC, storeMetaStepsC, hs, hd, writeFileN_tmpC]

theorem erase_absent {β : Type} (d : List (FName × β)) (n : FName) (h : ∀ e ∈ d, e.1 ≠ n) : AL.erase d n = d := by
  unfold AL.erase
  apply List.filter_eq_self.mpr
  intro e he
  simpa using h e he

theorem erase_erase {β : Type} (d : List (FName × β)) (n : FName) : AL.erase (AL.erase d n) n = AL.erase d n := by
  apply erase_absent
  intro e he
  simp [AL.erase] at he
  exact he.2

theorem foldl_unlink_same (ns : List (FName × Data)) (n : FName) (h : ∀ e ∈ ns, e.1 = n) (d : CDir) :
    (ns.map (fun e => Step.unlink e.1)).foldl execC (AL.erase d n) = AL.erase d n := by
  induction ns with
  | nil => rfl
  | cons e ns ih =>
    simp only [List.map_cons, List.foldl_cons, execC]
    rw [h e (List.mem_cons_self ..), erase_erase]
    exact ih (fun e' he' => h e' (List.mem_cons_of_mem _ he'))

/-- the unlinks of `remove` amount to erasing the metadata file and the data file, whenever the directory holds no data
file of another type for the key -/
theorem removeStepsC_run (c : FileCfg) (d : CDir) (k : Str) (e : Str)
    (hd : ∀ f ∈ d, FileC.isDataOf (c.h k) f.1 = true → f.1 = .data (c.h k) e) :
    (removeStepsC c d k).foldl execC d = AL.erase (AL.erase d (.state (c.h k))) (.data (c.h k) e) := by
  have h1 : (if (AL.get d (.state (c.h k))).isSome then [Step.unlink (FName.state (c.h k))] else []).foldl execC d =
      AL.erase d (.state (c.h k)) := by
    split
    · rfl
    · rename_i hn
      symm; apply erase_absent
      intro f hf heq
      apply hn
      have : (d.find? (fun e => e.1 == FName.state (c.h k))).isSome = true := by
        rw [List.find?_isSome]; exact ⟨f, hf, by simp [heq]⟩
      simpa [AL.get] using this
  rw [removeStepsC, List.foldl_append, h1]
  -- the remaining unlinks all name the data file
  cases hfil : d.filter (fun f => FileC.isDataOf (c.h k) f.1) with
  | nil =>
    symm; apply erase_absent
    intro f hf heq
    have hf' : f ∈ d := by simp [AL.erase] at hf; exact hf.1
    have : f ∈ d.filter (fun f => FileC.isDataOf (c.h k) f.1) := by
      rw [List.mem_filter]; exact ⟨hf', by simp [heq, FileC.isDataOf]⟩
    rw [hfil] at this; cases this
  | cons f fs =>
    have hall : ∀ g ∈ f :: fs, g.1 = .data (c.h k) e := by
      intro g hg
      rw [← hfil, List.mem_filter] at hg
      exact hd g hg.1 hg.2
    simp only [List.map_cons, List.foldl_cons, execC]
    rw [hall f (List.mem_cons_self ..)]
    exact foldl_unlink_same fs _ (fun g hg => hall g (List.mem_cons_of_mem _ hg)) _

/-- **link (effect)**: on every directory without a data file of another type for the key, the list of the thread model and
the list of the crash model lead to the same directory (the crash model omits the unlinks of missing files; `execC` makes them
no-ops) -/
theorem storeStepsN_run_eq_storeStepsC (c : FileCfg) (d : CDir) (st : CState)
    (hd : ∀ f ∈ d, FileC.isDataOf (c.h st.metadata.query) f.1 = true →
      f.1 = .data (c.h st.metadata.query) (c.ext st.metadata.typeId)) :
    (storeStepsN c tmpC tmpC st).foldl execC d = (storeStepsC c d st).foldl execC d := by
  simp only [storeStepsN, storeStepsC, storeMetaStepsC, List.foldl_append, writeFileN_tmpC]
  rw [removeStepsC_run c d _ _ hd]
  rfl

end Crash
end Liquer
