/-
C12, file-operation granularity (3): what a reader sees after every prefix of every interleaving of the file operations of
two `FileCache.store` writers of one key (and, optionally, one `store_metadata` progress writer), and the frame for other keys.
-/
import LiquerProofs.Lemmas.ConcFile2

namespace Liquer
namespace Crash

theorem stepsB_eq (c : FileCfg) (stA stB : CState) (b1 b2 : Nat)
    (hq : stB.metadata.query = stA.metadata.query) (hty : stB.metadata.typeId = stA.metadata.typeId)
    (hdata : c.enc (c.serD stB.metadata.typeId stB.data) = c.enc (c.serD stA.metadata.typeId stA.data)) :
    storeStepsN c (.tmp b1) (.tmp b2) stB = stepsS (c.h stA.metadata.query) (c.ext stA.metadata.typeId) b1 b2
      (c.enc (c.serD stA.metadata.typeId stA.data)) (c.enc (c.serM { stB.metadata with status := ready })) := by
  rw [storeStepsN_eq_stepsS]
  generalize c.enc (c.serM { stB.metadata with status := ready }) = MB
  rw [hdata, hq, hty]

/-- the core: two store writers and a third list `lp` that is (a prefix of) the step list of a progress writer -/
theorem writers_core (c : FileCfg) (d0 : CDir) (stA stB : CState) (okA : CodecAt c stA) (okB : CodecAt c stB)
    (hq : stB.metadata.query = stA.metadata.query) (hty : stB.metadata.typeId = stA.metadata.typeId)
    (hdata : c.enc (c.serD stB.metadata.typeId stB.data) = c.enc (c.serD stA.metadata.typeId stA.data))
    (a1 a2 b1 b2 tp : Nat) (hdist : [a1, a2, b1, b2, tp].Nodup)
    (mP : CMeta) (hPq : c.h mP.query = c.h stA.metadata.query)
    (lb : List (Step FName)) (hlb : lb = [] ∨ lb = storeStepsN c (.tmp b1) (.tmp b2) stB)
    (lp : List (Step FName)) (hlp : lp = [] ∨ lp = storeMetaStepsN c (.tmp tp) mP)
    (hP : lp ≠ [] → ∀ m, (c.dec (c.enc (c.serM mP))).bind c.deM = some m → m.status ≠ ready)
    (l : List (Step FName))
    (hl : Interleave3 (storeStepsN c (.tmp a1) (.tmp a2) stA) lb lp l) (n : Nat) :
    (FileC.get c (runPrefix n l d0) stA.metadata.query = FileC.get c d0 stA.metadata.query ∨
     FileC.get c (runPrefix n l d0) stA.metadata.query = none ∨
     FileC.get c (runPrefix n l d0) stA.metadata.query = some { metadata := { stA.metadata with status := ready }, data := stA.data } ∨
     FileC.get c (runPrefix n l d0) stA.metadata.query = some { metadata := { stB.metadata with status := ready }, data := stA.data }) ∧
    ∀ k', c.h k' ≠ c.h stA.metadata.query → FileC.get c (runPrefix n l d0) k' = FileC.get c d0 k' := by
  constructor
  · rw [storeStepsN_eq_stepsS] at hl
    obtain ⟨i, j, p, -, -, -, hG⟩ := inv3_prefix (c.h stA.metadata.query) (c.ext stA.metadata.typeId)
      (c.enc (c.serD stA.metadata.typeId stA.data)) d0 (fun b => lp ≠ [] ∧ b = c.enc (c.serM mP)) a1 a2 b1 b2 tp
      (c.enc (c.serM { stA.metadata with status := ready })) (c.enc (c.serM { stB.metadata with status := ready }))
      (c.enc (c.serM mP)) hdist lb
      (by
        intro j s hs
        rcases hlb with rfl | rfl
        · simp at hs
        · rw [stepsB_eq c stA stB b1 b2 hq hty hdata] at hs; exact hs)
      lp (fun h => ⟨h, rfl⟩)
      (by
        intro p s hs
        rcases hlp with rfl | rfl
        · simp at hs
        · rw [storeMetaStepsN_eq_stepsM, hPq] at hs; exact hs)
      l hl n
    refine hG.read { stA.metadata with status := ready } { stB.metadata with status := ready } stA.data
      okA.metaOK rfl rfl okB.metaOK rfl hty okA.dataOK ?_
    rintro b ⟨hne, rfl⟩ m hm
    exact hP hne m hm
  · intro k' hne
    apply get_frame c (c.h stA.metadata.query) _ _ k' hne
    intro s hs
    have hs' : s ∈ l := List.mem_of_mem_take hs
    rcases hl.mem s hs' with h | h | h
    · exact storeStepsN_names c _ _ stA rfl rfl s h
    · rcases hlb with rfl | rfl
      · cases h
      · have := storeStepsN_names c (.tmp b1) (.tmp b2) stB rfl rfl s h
        rwa [hq] at this
    · rcases hlp with rfl | rfl
      · cases h
      · have := storeMetaStepsN_names c (.tmp tp) mP rfl s h
        rwa [hPq] at this

/-- two store writers -/
theorem writers2 (c : FileCfg) (d0 : CDir) (stA stB : CState) (okA : CodecAt c stA) (okB : CodecAt c stB)
    (hq : stB.metadata.query = stA.metadata.query) (hty : stB.metadata.typeId = stA.metadata.typeId)
    (hdata : c.enc (c.serD stB.metadata.typeId stB.data) = c.enc (c.serD stA.metadata.typeId stA.data))
    (a1 a2 b1 b2 : Nat) (hdist : [a1, a2, b1, b2].Nodup) (l : List (Step FName))
    (hl : Interleave (storeStepsN c (.tmp a1) (.tmp a2) stA) (storeStepsN c (.tmp b1) (.tmp b2) stB) l) (n : Nat) :
    (FileC.get c (runPrefix n l d0) stA.metadata.query = FileC.get c d0 stA.metadata.query ∨
     FileC.get c (runPrefix n l d0) stA.metadata.query = none ∨
     FileC.get c (runPrefix n l d0) stA.metadata.query = some { metadata := { stA.metadata with status := ready }, data := stA.data } ∨
     FileC.get c (runPrefix n l d0) stA.metadata.query = some { metadata := { stB.metadata with status := ready }, data := stA.data }) ∧
    ∀ k', c.h k' ≠ c.h stA.metadata.query → FileC.get c (runPrefix n l d0) k' = FileC.get c d0 k' := by
  refine writers_core c d0 stA stB okA okB hq hty hdata a1 a2 b1 b2 (a1 + a2 + b1 + b2 + 1) ?_ stA.metadata rfl _ (Or.inr rfl) []
    (Or.inl rfl) (fun h => absurd rfl h) l hl.to3 n
  simp only [List.nodup_cons, List.mem_cons, List.not_mem_nil, or_false, not_or, List.nodup_nil, and_true, not_false_eq_true] at hdist ⊢
  omega

/-- two store writers and a progress writer -/
theorem writers3 (c : FileCfg) (d0 : CDir) (stA stB : CState) (okA : CodecAt c stA) (okB : CodecAt c stB)
    (hq : stB.metadata.query = stA.metadata.query) (hty : stB.metadata.typeId = stA.metadata.typeId)
    (hdata : c.enc (c.serD stB.metadata.typeId stB.data) = c.enc (c.serD stA.metadata.typeId stA.data))
    (mP : CMeta) (hPq : mP.query = stA.metadata.query) (hPdec : (c.dec (c.enc (c.serM mP))).bind c.deM = some mP)
    (hPs : mP.status ≠ ready)
    (a1 a2 b1 b2 tp : Nat) (hdist : [a1, a2, b1, b2, tp].Nodup) (l : List (Step FName))
    (hl : Interleave3 (storeStepsN c (.tmp a1) (.tmp a2) stA) (storeStepsN c (.tmp b1) (.tmp b2) stB)
      (storeMetaStepsN c (.tmp tp) mP) l) (n : Nat) :
    (FileC.get c (runPrefix n l d0) stA.metadata.query = FileC.get c d0 stA.metadata.query ∨
     FileC.get c (runPrefix n l d0) stA.metadata.query = none ∨
     FileC.get c (runPrefix n l d0) stA.metadata.query = some { metadata := { stA.metadata with status := ready }, data := stA.data } ∨
     FileC.get c (runPrefix n l d0) stA.metadata.query = some { metadata := { stB.metadata with status := ready }, data := stA.data }) ∧
    ∀ k', c.h k' ≠ c.h stA.metadata.query → FileC.get c (runPrefix n l d0) k' = FileC.get c d0 k' :=
  writers_core c d0 stA stB okA okB hq hty hdata a1 a2 b1 b2 tp hdist mP (by rw [hPq]) _ (Or.inr rfl) _ (Or.inr rfl)
    (fun _ m hm => by rw [hPdec] at hm; cases hm; exact hPs) l hl n

/-- one store writer and a progress writer -/
theorem writer_and_progress (c : FileCfg) (d0 : CDir) (st : CState) (ok : CodecAt c st)
    (mP : CMeta) (hPq : mP.query = st.metadata.query) (hPdec : (c.dec (c.enc (c.serM mP))).bind c.deM = some mP)
    (hPs : mP.status ≠ ready) (a1 a2 tp : Nat) (hdist : [a1, a2, tp].Nodup) (l : List (Step FName))
    (hl : Interleave (storeStepsN c (.tmp a1) (.tmp a2) st) (storeMetaStepsN c (.tmp tp) mP) l) (n : Nat) :
    (FileC.get c (runPrefix n l d0) st.metadata.query = FileC.get c d0 st.metadata.query ∨
     FileC.get c (runPrefix n l d0) st.metadata.query = none ∨
     FileC.get c (runPrefix n l d0) st.metadata.query = some { metadata := { st.metadata with status := ready }, data := st.data }) ∧
    ∀ k', c.h k' ≠ c.h st.metadata.query → FileC.get c (runPrefix n l d0) k' = FileC.get c d0 k' := by
  have h := writers_core c d0 st st ok ok rfl rfl rfl a1 a2 (a1 + a2 + tp + 1) (a1 + a2 + tp + 2) tp
    (by
      simp only [List.nodup_cons, List.mem_cons, List.not_mem_nil, or_false, not_or, List.nodup_nil, and_true, not_false_eq_true] at hdist ⊢
      omega)
    mP (by rw [hPq]) [] (Or.inl rfl) _ (Or.inr rfl) (fun _ m hm => by rw [hPdec] at hm; cases hm; exact hPs) l hl.to3' n
  refine ⟨?_, h.2⟩
  rcases h.1 with h | h | h | h
  · exact Or.inl h
  · exact Or.inr (Or.inl h)
  · exact Or.inr (Or.inr h)
  · exact Or.inr (Or.inr h)

end Crash
end Liquer
