/-
`StoreCache` over the reference store `specOps` refines the key-value specification on the
point operations (get / get_metadata / store / store_metadata / remove / contains), for every history,
provided the path scheme is injective and prefix-free on the keys in use.
`keys()` and `clean()` are not covered here (correspondence only).
-/
import LiquerProofs.Lemmas.CacheKV
import LiquerModel.CacheStoreBacked

namespace Liquer

/-- metadata-only writes on absent keys are refused by the reference store -/
def kvCfgStore : KVCfg := { keepData := true, metaFresh := false, metaFreshRes := false }

theorem FS.get_eq_AL (fs : FS) (k : Key) : fs.get k = AL.get fs k := rfl
theorem FS.set_eq_AL (fs : FS) (k : Key) (n : Node) : fs.set k n = AL.set fs k n := rfl
theorem FS.erase_eq_AL (fs : FS) (k : Key) : fs.erase k = AL.erase fs k := rfl

theorem FS.get_mkdirs_of_notMem (fs : FS) (ks : List Key) (k : Key) (h : k ∉ ks) : (fs.mkdirs ks).get k = fs.get k := by
  unfold FS.mkdirs
  induction ks generalizing fs with
  | nil => rfl
  | cons a ks ih =>
    simp only [List.foldl_cons]
    rw [ih _ (fun hm => h (List.mem_cons_of_mem _ hm))]
    have hne : (k == a) = false := by simpa using fun (e : k = a) => h (by rw [e]; exact List.mem_cons_self ..)
    split
    · rfl
    · rw [FS.set_eq_AL, FS.get_eq_AL, AL.get_set, hne]; rfl

namespace StoreC

theorem splitSlash_ne_nil (s : Str) : splitSlash s ≠ [] := by
  cases s with
  | nil => simp [splitSlash]
  | cons c cs =>
    simp only [splitSlash]
    split
    · simp
    · split <;> simp

theorem toPath_ne_nil (c : StoreCCfg) (k : Str) : toPath c k ≠ [] := splitSlash_ne_nil _

def fileView : Node → Option (Data × Str)
  | .file d um => some (d, um.user)
  | .dir => none

end StoreC

open StoreC in
structure CodecS (c : StoreCCfg) : Prop where
  decM_encM : ∀ m, c.decM (c.encM m) = some m
  deD_serD : ∀ t v, c.deD t (c.serD t v) = some v

/-- the path scheme on the keys in use: injective, and no path is a directory above another path -/
structure PathsOK (c : StoreCCfg) (U : Str → Prop) : Prop where
  inj : ∀ a b, U a → U b → StoreC.toPath c a = StoreC.toPath c b → a = b
  prefixFree : ∀ a b, U a → U b → StoreC.toPath c a ∉ ancestors (StoreC.toPath c b)

structure RSt (c : StoreCCfg) (U : Str → Prop) (fs : FS) (kv : KV) : Prop where
  fileOK : ∀ k, U k → (fs.get (StoreC.toPath c k)).bind StoreC.fileView =
    (kv.get k).map (fun e => (c.serD e.1.typeId e.2, c.encM e.1))
  noDir : ∀ k, U k → fs.get (StoreC.toPath c k) ≠ some .dir
  hasData : ∀ k m d, kv.get k = some (m, d) → d.isSome = true

/-- point operations on keys in use -/
def okSt (U : Str → Prop) (kv : KV) (op : CacheOp) : Prop :=
  op.hasData = true ∧ op.typeStable kv = true ∧ ∃ k, op.key? = some k ∧ U k

theorem storec_sim (c : StoreCCfg) (U : Str → Prop) (ok : CodecS c) (paths : PathsOK c U) :
    CSim (storeCOps c specOps) (kvOpsC kvCfgStore) (RSt c U) (okSt U) := by
  intro fs kv op R ⟨hdata, hstable, k0, hk0, hU⟩
  -- what the store shows at the path of a key in use
  have hlook : ∀ k, U k → (kv.get k = none ∧ fs.get (StoreC.toPath c k) = none) ∨
      ∃ m d um, kv.get k = some (m, some d) ∧ fs.get (StoreC.toPath c k) = some (.file (c.serD m.typeId (some d)) um) ∧ um.user = c.encM m := by
    intro k hk
    have h1 := R.fileOK k hk
    have h2 := R.noDir k hk
    cases hg : kv.get k with
    | none =>
      left
      rw [hg] at h1
      cases hf : fs.get (StoreC.toPath c k) with
      | none => exact ⟨rfl, rfl⟩
      | some n =>
        cases n with
        | dir => exact absurd hf h2
        | file d um => simp [hf, StoreC.fileView] at h1
    | some e =>
      right
      obtain ⟨m, d⟩ := e
      obtain ⟨d', rfl⟩ := Option.isSome_iff_exists.1 (R.hasData k m d hg)
      rw [hg] at h1
      cases hf : fs.get (StoreC.toPath c k) with
      | none => simp [hf] at h1
      | some n =>
        cases n with
        | dir => exact absurd hf h2
        | file d um =>
          simp only [hf, Option.bind_some, StoreC.fileView, Option.map_some, Option.some.injEq, Prod.mk.injEq] at h1
          exact ⟨m, d', um, rfl, by rw [h1.1], h1.2⟩
  have hne : ∀ k, (StoreC.toPath c k).isEmpty = false := fun k => by
    cases h : StoreC.toPath c k with
    | nil => exact absurd h (StoreC.toPath_ne_nil c k)
    | cons a b => rfl
  have hpne : ∀ {a b : Str}, U a → U b → a ≠ b → (StoreC.toPath c a == StoreC.toPath c b) = false :=
    fun ha hb h => by simpa using fun e => h (paths.inj _ _ ha hb e)
  cases op with
  | keys => simp [CacheOp.key?] at hk0
  | clean => simp [CacheOp.key?] at hk0
  | get k =>
    simp only [CacheOp.key?, Option.some.injEq] at hk0; subst hk0
    refine ⟨R, outEq_of_eq ?_⟩
    simp only [CacheOps.step, storeCOps, kvOpsC, kvOps, StoreC.get, StoreC.loadMeta, specOps, FS.containsB, FS.isDirB, hne,
      Bool.false_or, StoreC.okB]
    rcases hlook k hU with ⟨h1, h2⟩ | ⟨m, d, um, h1, h2, h3⟩
    · simp [h1, h2]
    · by_cases hr : m.status = ready <;> simp [h1, h2, h3, ok.decM_encM, ok.deD_serD, hr]
  | getMeta k =>
    simp only [CacheOp.key?, Option.some.injEq] at hk0; subst hk0
    refine ⟨R, outEq_of_eq ?_⟩
    simp only [CacheOps.step, storeCOps, kvOpsC, kvOps, StoreC.loadMeta, specOps, FS.containsB, FS.isDirB, hne,
      Bool.false_or, StoreC.okB]
    rcases hlook k hU with ⟨h1, h2⟩ | ⟨m, d, um, h1, h2, h3⟩
    · simp [h1, h2]
    · simp [h1, h2, h3, ok.decM_encM]
  | contains k =>
    simp only [CacheOp.key?, Option.some.injEq] at hk0; subst hk0
    refine ⟨R, outEq_of_eq ?_⟩
    simp only [CacheOps.step, storeCOps, kvOpsC, kvOps, specOps, FS.containsB, hne, Bool.false_or, StoreC.okB]
    rcases hlook k hU with ⟨h1, h2⟩ | ⟨m, d, um, h1, h2, h3⟩ <;> simp [h1, h2]
  | remove k =>
    simp only [CacheOp.key?, Option.some.injEq] at hk0; subst hk0
    refine ⟨⟨?_, ?_, ?_⟩, outEq_refl _⟩ <;> simp only [CacheOps.step, storeCOps, kvOpsC, kvOps, specOps]
    · intro k' hk'
      rw [FS.erase_eq_AL, FS.get_eq_AL, AL.get_erase, KV.get_erase]
      by_cases h : k' = k
      · subst h; simp
      · have h1 : (k' == k) = false := by simpa using h
        rw [hpne hk' hU h, h1]
        exact R.fileOK k' hk'
    · intro k' hk'
      rw [FS.erase_eq_AL, FS.get_eq_AL, AL.get_erase]
      split
      · simp
      · exact R.noDir k' hk'
    · intro k' m d hk
      rw [KV.get_erase] at hk
      split at hk
      · cases hk
      · exact R.hasData k' m d hk
  | storeMeta m =>
    simp only [CacheOp.key?, Option.some.injEq] at hk0; subst hk0
    simp only [CacheOps.step, storeCOps, kvOpsC, kvCfgStore, specOps]
    rcases hlook m.query hU with ⟨h1, h2⟩ | ⟨m0, d, um, h1, h2, h3⟩
    · simp only [h1, h2]
      exact ⟨R, outEq_refl _⟩
    · simp only [h1, h2]
      have hst : m.typeId = m0.typeId := by simpa [CacheOp.typeStable, h1] using hstable
      refine ⟨⟨?_, ?_, ?_⟩, outEq_refl _⟩
      · intro k' hk'
        rw [FS.set_eq_AL, FS.get_eq_AL, AL.get_set, KV.get_set]
        by_cases h : k' = m.query
        · subst h; simp [StoreC.fileView, hst]
        · have h1' : (k' == m.query) = false := by simpa using h
          rw [hpne hk' hU h, h1']
          exact R.fileOK k' hk'
      · intro k' hk'
        rw [FS.set_eq_AL, FS.get_eq_AL, AL.get_set]
        split
        · simp
        · exact R.noDir k' hk'
      · intro k' m' d' hk
        rw [KV.get_set] at hk
        split at hk
        · simp only [Option.some.injEq, Prod.mk.injEq] at hk; rw [← hk.2]; rfl
        · exact R.hasData k' m' d' hk
  | store st =>
    simp only [CacheOp.key?, Option.some.injEq] at hk0; subst hk0
    by_cases he : st.metadata.isError
    · refine ⟨?_, outEq_of_eq ?_⟩ <;> simp [CacheOps.step, storeCOps, kvOpsC, kvOps, he, R]
    · have he : st.metadata.isError = false := by simpa using he
      obtain ⟨d, hd⟩ : ∃ d, st.data = some d := by
        have : st.data.isSome = true := by simpa [CacheOp.hasData] using hdata
        exact Option.isSome_iff_exists.1 this
      have hkv : (kvOpsC kvCfgStore).step kv (.store st) = (kv.set st.metadata.query { st.metadata with status := ready } (some d), .res .true) := by
        simp [CacheOps.step, kvOpsC, kvOps, he, hd]
      rw [hkv]
      simp only [CacheOps.step, storeCOps, he, Bool.false_eq_true, ↓reduceIte, specOps]
      refine ⟨⟨?_, ?_, ?_⟩, outEq_refl _⟩
      · intro k' hk'
        rw [FS.set_eq_AL, FS.get_eq_AL, AL.get_set, KV.get_set]
        by_cases h : k' = st.metadata.query
        · subst h; simp [StoreC.fileView, hd]
        · have h1' : (k' == st.metadata.query) = false := by simpa using h
          rw [hpne hk' hU h, h1']
          simp only [Bool.false_eq_true, ↓reduceIte]
          rw [← FS.get_eq_AL, FS.get_mkdirs_of_notMem _ _ _ (paths.prefixFree _ _ hk' hU)]
          exact R.fileOK k' hk'
      · intro k' hk'
        rw [FS.set_eq_AL, FS.get_eq_AL, AL.get_set]
        split
        · simp
        · rw [← FS.get_eq_AL, FS.get_mkdirs_of_notMem _ _ _ (paths.prefixFree _ _ hk' hU)]
          exact R.noDir k' hk'
      · intro k' m' d' hk
        rw [KV.get_set] at hk
        split at hk
        · simp only [Option.some.injEq, Prod.mk.injEq] at hk; rw [← hk.2]; rfl
        · exact R.hasData k' m' d' hk

end Liquer
