/-
C18, the copy of the metadata kept by the cache: the cache model of `evalQ` (LiquerModel/Eval.lean) connected with the
metadata model `metaQ` (LiquerModel/EvalMeta.lean).

  * `World.kept w k` / `keptAfter env n w q raw`: the record (status, state) found under the canonical key after an
    evaluation — what `cache.get_metadata(canonical key)` / `cache.get` are built from;
  * `recOfState e`: the part of `metaQ`'s record that is a function of the final evaluator state (query text, status,
    error flag, type identifier and kind of data characteristics of the value, last command and its name, file name,
    extension, media type, attributes); `MetaRec.stateView` forgets the other fields (namespace / version flag of the
    resolved command, parent query, argument queries, direct sub-queries: facts recorded by the evaluating context, which
    the cache model's entries do not carry).  `metaQ_stateView`: every record `metaQ` returns with a state `e` has
    `stateView = recOfState e`;
  * `meta_of_eval`: in a sound world the state an evaluation returns is, up to `status`, the state of every modelled
    run of the metadata model; hence `meta_describes_returned`;
  * `kept_copy_success` / `kept_copy_error` / `kept_copy_uncached`: the kept record after a successful cacheable /
    failed / successful but volatile or cache-disabled evaluation.
-/
import LiquerProofs.Lemmas.EvalMetaAttrs
import LiquerProofs.Lemmas.EvalCache
import LiquerProofs.Lemmas.EvalCor
import LiquerProofs.Lemmas.EvalExample

namespace Liquer

/-! ### the kept record -/

/-- the record kept under `k`: status of the metadata and the state (`none`: metadata only) -/
def World.kept (w : World) (k : Str) : Option (Str × Option EState) := (w.entry k).map (fun e => (e.status, e.st))

/-- the record kept under the canonical key after `evaluate(q)` typed as `raw` on the global cache -/
def keptAfter (env : Env) (n : Nat) (w : World) (q : Query) (raw : Str) : Option (Str × Option EState) :=
  (evalQ env n w q raw .none none true).1.kept (q.encode Gen.escapeTable)

theorem World.dataAt_eq_kept (w : World) (k : Str) : w.dataAt k = (w.kept k).bind (·.2) := by
  unfold World.dataAt World.kept
  cases w.entry k <;> rfl

/-- what `cache.get` serves is a kept record with status `ready` -/
theorem World.kept_of_get {w : World} {k : Str} {s : EState} (h : w.get k = some s) :
    w.kept k = some (statusReady, some s) := by
  unfold World.get at h
  unfold World.kept
  split at h
  next st s' he =>
    split at h
    · next hst =>
      simp only [Option.some.injEq] at h; subst h
      have : st = statusReady := by simpa using hst
      subst this
      simp [he]
    · simp at h
  next => simp at h

theorem World.kept_remove_self (w : World) (k : Str) : (w.remove k).kept k = none := by
  unfold World.kept; rw [World.entry_remove]; simp

/-- `store_metadata` under `k`: the record has the new status; data only if there was data and the cache keeps it -/
theorem World.kept_storeMeta_self (w : World) (hen : w.enabled = true) (k status : Str) :
    (w.storeMeta k status).kept k = some (status, if w.metaKeepsData then w.dataAt k else none) := by
  unfold World.storeMeta World.kept World.dataAt
  cases he : w.entry k with
  | none => simp only; rw [World.entry_put w hen]; simp
  | some e => simp only; rw [World.entry_put w hen]; cases w.metaKeepsData <;> simp

/-! ### the part of the metadata that is a function of the state -/

/-- the fields that are not a function of the final state forgotten -/
def MetaRec.stateView (m : MetaRec) : MetaRec :=
  { m with lastNs := none, lastVersionKnown := false, parentQuery := none, argumentQueries := [], directSubqueries := [] }

/-- the metadata fields determined by an evaluator state -/
def recOfState (e : EState) : MetaRec :=
  let lc := e.commands.getLast?.getD []
  { query := e.query
    status := if lc.head?.isSome then some (if e.isError then Gen.metaStatusError else Gen.metaStatusReady) else none
    isError := e.isError
    typeId := typeIdOf e.data
    dataKind := dataKindOf e.data
    lastCommand := lc
    lastName := lc.head?
    filename := e.filename
    extension := e.extension
    mimetype := match e.filename with
      | some f => some (mimeOfExt (extensionOf f))
      | none => if lc.head?.isSome then some Gen.metaDefaultMimetype else none
    attrs := e.attrs }

/-- `status` plays no role -/
theorem recOfState_core {a b : EState} (h : a.core = b.core) : recOfState a = recOfState b := by
  have ha : recOfState a = recOfState a.core := rfl
  have hb : recOfState b = recOfState b.core := rfl
  rw [ha, hb, h]

theorem Action.toList_head (tbl : EscTable) (a : Action) : (a.toList tbl).head? = some a.name := by
  cases a; rfl

/-- the name of the last command is the head of the last command -/
def NameOK (m : MetaRec) : Prop := m.lastName = m.lastCommand.head?

theorem metaPost_nameOK (env : Env) (n : Nat) {st : EState} {m : MetaRec} (h : NameOK m)
    (parent : Str) (r : Option Seg) (key raw : Str) (extra : Extra) (e : EState) (m' : MetaRec)
    (he : metaPost env n st m parent r key raw extra = (.st e, m')) : NameOK m' := by
  rcases metaPost_cases env n st m parent r key raw extra e m' he with
    ⟨_, _, rfl⟩ | ⟨_, f, _, _, rfl⟩ | ⟨_, a, e2, _, _, _, rfl⟩
  · exact h
  · exact h
  · simp [NameOK, actionMeta, Action.toList_head]

theorem metaAfter_nameOK (env : Env) (n : Nat) {o : Outcome} {m : MetaRec} (h : NameOK m)
    (parent : Str) (r : Option Seg) (key raw : Str) (extra : Extra) (e : EState) (m' : MetaRec)
    (he : metaAfter env n o m parent r key raw extra = (.st e, m')) : NameOK m' := by
  unfold metaAfter at he
  cases o with
  | st st =>
    simp only at he
    split at he
    · simp only [Prod.mk.injEq, Outcome.st.injEq] at he
      obtain ⟨_, rfl⟩ := he
      exact h
    · exact metaPost_nameOK env n h parent r key raw extra e m' he
  | _ => simp at he

theorem metaQ_nameOK (env : Env) : ∀ (n : Nat) (q : Query) (raw : Str) (extra : Extra) (input : Option Val) (e : EState)
    (m : MetaRec), metaQ env n q raw extra input = (.st e, m) → NameOK m
  | 0, q, raw, extra, input, e, m, h => by simp [metaQ_zero] at h
  | n + 1, q, raw, extra, input, e, m, h => by
    rcases metaQ_cases env n q raw extra input e m h with ⟨r, _, h⟩ | ⟨p, r, _, _, h⟩
    · exact metaAfter_nameOK env n (by simp [NameOK, initMeta]) _ _ _ _ _ e m h
    · rcases hm : metaQ env n p (p.encode Gen.escapeTable) .none input with ⟨o, m0⟩
      rw [hm] at h
      cases o with
      | st st0 => exact metaAfter_nameOK env n (metaQ_nameOK env n p _ .none input st0 m0 hm) _ _ _ _ _ e m h
      | _ => simp [metaAfter] at h

theorem stateView_of_describes {e : EState} {m : MetaRec} (h : Describes e m) (hn : NameOK m) :
    m.stateView = recOfState e := by
  obtain ⟨h1, h2, h3, h4, h5, h6, h7, h8, _, h10, _, h12, h13⟩ := h
  unfold NameOK at hn
  have hmime : m.mimetype = match e.filename with
      | some f => some (mimeOfExt (extensionOf f))
      | none => if m.lastName.isSome then some Gen.metaDefaultMimetype else none := by
    rw [← h5]
    cases hf : m.filename with
    | some f => exact (h12 f hf).2
    | none => exact (h13 hf).2
  cases m
  simp only at h1 h2 h3 h4 h5 h6 h7 h8 h10 hn hmime
  subst h1 h2 h3 h4 h5 h6 h7 h8 hn
  simp only [MetaRec.stateView, recOfState, h10, hmime]

/-- the state-determined fields of every record `metaQ` returns are those of the state it returns -/
theorem metaQ_stateView (env : Env) (n : Nat) (q : Query) (raw : Str) (extra : Extra) (input : Option Val) (e : EState)
    (m : MetaRec) (h : metaQ env n q raw extra input = (.st e, m)) : m.stateView = recOfState e :=
  stateView_of_describes (metaQ_describes env n q raw extra input e m h) (metaQ_nameOK env n q raw extra input e m h)

theorem metaOf_some {env : Env} {n : Nat} {q : Query} {raw : Str} {extra : Extra} {input : Option Val} {m : MetaRec} :
    metaOf env n q raw extra input = some m ↔ ∃ e, metaQ env n q raw extra input = (.st e, m) := by
  unfold metaOf
  rcases metaQ env n q raw extra input with ⟨o, m'⟩
  cases o <;> simp

theorem metaStatusReady_eq : Gen.metaStatusReady = statusReady := by decide
theorem metaStatusError_eq : Gen.metaStatusError = s "error" := by decide

/-! ### the evaluator's outcome and the metadata model -/

/-- in a sound world the state an evaluation returns is, up to `status`, the state every modelled run of the metadata
model returns; and there is a modelled run -/
theorem meta_of_eval {env : Env} {C : Query → Prop} {T : Str → Prop} (hC : Closed env C T)
    (hcanon : ∀ q, C q → CanonOK env q) (n : Nat) (w : World) (q : Query) (raw : Str) (hS : Sound env w) (hCq : C q)
    (st : EState) (h : (evalQ env n w q raw .none none true).2 = .st st) :
    ∃ e, st.core = e.core ∧ (∃ m, (metaOf env m q raw .none none).isSome = true) ∧
      ∀ m mrec, metaOf env m q raw .none none = some mrec → metaQ env m q raw .none none = (.st e, mrec) := by
  obtain ⟨m, c', _, _, hsim⟩ := (evalQ_refines hC hcanon n w q raw .none none true hS hCq (fun _ => rfl)).2
    (by rw [h]; simp)
  rw [h] at hsim
  obtain ⟨e, he, hcore⟩ := Outcome.sim_st_left hsim
  refine ⟨e, hcore, ⟨m, ?_⟩, ?_⟩
  · have := metaQ_fst env m q raw .none none
    rw [he] at this
    unfold metaOf
    rcases hm : metaQ env m q raw .none none with ⟨o, m'⟩
    rw [hm] at this
    simp only at this
    subst this
    rfl
  · intro m' mrec hm'
    obtain ⟨e', he'⟩ := metaOf_some.mp hm'
    have h1 : (refQ env m' q raw .none none).1 = .st e' := by rw [← metaQ_fst, he']
    have := refQ_det env q raw .none none (m := m) (m' := m') (by rw [he]; simp) (by rw [h1]; simp)
    rw [this, h1] at he
    simp only [Outcome.st.injEq] at he
    subst he
    exact he'

/-- the returned metadata describes the returned state -/
theorem meta_describes_returned {env : Env} {C : Query → Prop} {T : Str → Prop} (hC : Closed env C T)
    (hcanon : ∀ q, C q → CanonOK env q) (n : Nat) (w : World) (q : Query) (raw : Str) (hS : Sound env w) (hCq : C q)
    (st : EState) (h : (evalQ env n w q raw .none none true).2 = .st st) :
    (∃ m, (metaOf env m q raw .none none).isSome = true) ∧
      ∀ m mrec, metaOf env m q raw .none none = some mrec → mrec.stateView = recOfState st := by
  obtain ⟨e, hcore, hex, hall⟩ := meta_of_eval hC hcanon n w q raw hS hCq st h
  refine ⟨hex, fun m mrec hm => ?_⟩
  rw [recOfState_core hcore]
  exact metaQ_stateView env m q raw .none none e mrec (hall m mrec hm)

/-! ### one level of the evaluator: where the result is filed -/

/-- a failed, non-hit evaluation typed canonically ends with `store_metadata(canonical key, error)` on an enabled cache -/
theorem error_filed (env : Env) (n : Nat) (w w' : World) (q : Query) (st : EState) (hen : w.enabled = true)
    (hmiss : w.get (q.encode Gen.escapeTable) = none)
    (h : evalQ env (n+1) w q (q.encode Gen.escapeTable) .none none true = (w', .st st)) (he : st.isError = true) :
    ∃ X : World, X.enabled = true ∧ w' = X.storeMeta (q.encode Gen.escapeTable) (s "error") := by
  rw [evalQ_succ'] at h
  have hm : (if (Extra.none.isEmpty && (none : Option Val).isNone && true) = true then w.get (q.encode Gen.escapeTable) else none)
      = none := by simp [hmiss]
  rw [hm] at h
  simp only at h
  split at h
  · simp at h
  have hen1 := evalPre_enabled env n w q (q.encode Gen.escapeTable) none true
  generalize evalPre env n w q (q.encode Gen.escapeTable) none true = x at h hen1
  rcases x with ⟨w1, o⟩
  simp only at h hen1
  rw [hen] at hen1
  unfold evalAfter at h
  cases o with
  | st st0 =>
    simp only at h
    rcases Bool.eq_false_or_eq_true st0.isError with hs0 | hs0
    · rw [if_pos hs0] at h
      simp only [Prod.mk.injEq, Outcome.st.injEq] at h
      exact ⟨w1, hen1, h.1.symm⟩
    · rw [if_neg (by rw [hs0]; simp)] at h
      unfold evalPost at h
      split at h
      · simp only [Prod.mk.injEq, Outcome.st.injEq] at h
        obtain ⟨_, rfl⟩ := h
        simp [hs0] at he
      · simp only [Prod.mk.injEq, Outcome.st.injEq] at h
        obtain ⟨_, rfl⟩ := h
        simp [hs0] at he
      · next hdr a heq =>
        have hen2 := ((frame env n).act w1 st0 a (q.encode Gen.escapeTable) q.preParent .none true).1
        generalize evalAction env n w1 st0 a (q.encode Gen.escapeTable) q.preParent .none true = y at h hen2
        rcases y with ⟨w2, o2⟩
        cases o2 with
        | st st2 =>
          simp only [Prod.mk.injEq, Outcome.st.injEq] at h
          obtain ⟨rfl, rfl⟩ := h
          simp only at he hen2
          refine ⟨w2, by rw [hen2, hen1], ?_⟩
          simp [admitW, he]
        | _ => simp at h
      · simp at h
  | _ => simp at h

/-- a successful but volatile or cache-disabled non-hit evaluation through an action or a file name ends with the removal
of the canonical key -/
theorem uncached_removed (env : Env) (n : Nat) (w w' : World) (q : Query) (raw : Str) (st : EState)
    (hmiss : w.get (q.encode Gen.escapeTable) = none)
    (h : evalQ env (n+1) w q raw .none none true = (w', .st st)) (hstep : q.hasStep = true)
    (he : st.isError = false) (hbad : st.volatile = true ∨ st.caching = false) :
    ∃ X : World, w' = X.remove (q.encode Gen.escapeTable) := by
  obtain ⟨r, hrem, hres⟩ := Query.hasStep_preRem hstep
  rw [evalQ_succ'] at h
  have hm : (if (Extra.none.isEmpty && (none : Option Val).isNone && true) = true then w.get (q.encode Gen.escapeTable) else none)
      = none := by simp [hmiss]
  rw [hm] at h
  simp only [hres, Bool.false_eq_true, if_false] at h
  generalize evalPre env n w q raw none true = x at h
  rcases x with ⟨w1, o⟩
  simp only at h
  unfold evalAfter at h
  cases o with
  | st st0 =>
    simp only at h
    rcases Bool.eq_false_or_eq_true st0.isError with hs0 | hs0
    · rw [if_pos hs0] at h
      simp only [Prod.mk.injEq, Outcome.st.injEq] at h
      obtain ⟨_, rfl⟩ := h
      simp [hs0] at he
    · rw [if_neg (by rw [hs0]; simp)] at h
      unfold evalPost at h
      rw [hrem] at h
      split at h
      · next heq => simp at heq
      · next hd f heq =>
        simp only [Prod.mk.injEq, Outcome.st.injEq] at h
        obtain ⟨rfl, rfl⟩ := h
        have : (st0.caching && !st0.volatile) = false := by
          rcases hbad with hb | hb <;> simp at hb <;> simp [hb]
        refine ⟨w1.metaIf true raw (s "evaluation"), ?_⟩
        simp only [fileW, Bool.not_true, Bool.false_eq_true, if_false, this]
      · next hd a heq =>
        generalize evalAction env n w1 st0 a raw q.preParent .none true = y at h
        rcases y with ⟨w2, o2⟩
        cases o2 with
        | st st2 =>
          simp only [Prod.mk.injEq, Outcome.st.injEq] at h
          obtain ⟨rfl, rfl⟩ := h
          simp only at hbad he
          refine ⟨w2, ?_⟩
          rcases hbad with hb | hb <;> simp [admitW, he, hb]
        | _ => simp at h
      · simp at h
  | _ => simp at h

/-! ### the kept copy -/

/-- SUCCESS: after a successful, non-volatile, caching-enabled evaluation through an action or a file name the kept
record has status `ready` and holds a state equal to the returned one up to `status`; every state-determined field of
the returned metadata (any modelled run of the metadata model) is that field of the kept state; and once an action was
executed the returned status is the kept status -/
theorem kept_copy_success {env : Env} {C : Query → Prop} {T : Str → Prop} (hC : Closed env C T)
    (hcanon : ∀ q, C q → CanonOK env q) (n : Nat) (w : World) (q : Query) (raw : Str) (hS : Sound env w)
    (hen : w.enabled = true) (hCq : C q) (st : EState)
    (h : (evalQ env (n+1) w q raw .none none true).2 = .st st)
    (hc : st.caching = true) (he : st.isError = false) (hv : st.volatile = false) (hstep : q.hasStep = true) :
    ∃ s, keptAfter env (n+1) w q raw = some (statusReady, some s) ∧ s.core = st.core ∧
      (∃ m, (metaOf env m q raw .none none).isSome = true) ∧
      ∀ m mrec, metaOf env m q raw .none none = some mrec →
        mrec.stateView = recOfState s ∧ mrec.isError = false ∧ (mrec.lastName ≠ none → mrec.status = some statusReady) := by
  obtain ⟨hex, hall⟩ := meta_describes_returned hC hcanon (n+1) w q raw hS hCq st h
  have hpa := present_after env n w (evalQ env (n+1) w q raw .none none true).fst q raw st hen (Prod.ext rfl h) hc he hv
    hstep
  have key : ∀ s, (evalQ env (n+1) w q raw .none none true).1.get (q.encode Gen.escapeTable) = some s → s.core = st.core →
      ∃ s, keptAfter env (n+1) w q raw = some (statusReady, some s) ∧ s.core = st.core ∧
      (∃ m, (metaOf env m q raw .none none).isSome = true) ∧
      ∀ m mrec, metaOf env m q raw .none none = some mrec →
        mrec.stateView = recOfState s ∧ mrec.isError = false ∧ (mrec.lastName ≠ none → mrec.status = some statusReady) := by
    intro s hg hcore
    refine ⟨s, World.kept_of_get hg, hcore, hex, fun m mrec hm => ?_⟩
    have hv := hall m mrec hm
    have herr : mrec.isError = false := by
      have := congrArg MetaRec.isError hv
      simpa [MetaRec.stateView, recOfState, he] using this
    refine ⟨by rw [hv, recOfState_core hcore], herr, fun hl => ?_⟩
    obtain ⟨e, hq⟩ := metaOf_some.mp hm
    have hd := (metaQ_describes env m q raw .none none e mrec hq).status
    have : mrec.lastName.isSome = true := by cases hn : mrec.lastName <;> simp_all
    rw [hd, this, herr, ← metaStatusReady_eq]
    simp
  rcases hpa with hg | hg
  · exact key _ hg rfl
  · exact key _ hg rfl

/-- ERROR: after a failed evaluation (typed canonically) the kept record is metadata-only with status `error`; the
returned metadata (any modelled run) carries the error flag and the same status -/
theorem kept_copy_error {env : Env} {C : Query → Prop} {T : Str → Prop} (hC : Closed env C T)
    (hcanon : ∀ q, C q → CanonOK env q) (n : Nat) (w : World) (q : Query) (hS : Sound env w)
    (hen : w.enabled = true) (hCq : C q) (st : EState)
    (h : (evalQ env (n+1) w q (q.encode Gen.escapeTable) .none none true).2 = .st st) (he : st.isError = true) :
    keptAfter env (n+1) w q (q.encode Gen.escapeTable) = some (s "error", none) ∧
      (∃ m, (metaOf env m q (q.encode Gen.escapeTable) .none none).isSome = true) ∧
      ∀ m mrec, metaOf env m q (q.encode Gen.escapeTable) .none none = some mrec →
        mrec.isError = true ∧ mrec.status = some (s "error") := by
  obtain ⟨e, hcore, hex, hall⟩ := meta_of_eval hC hcanon (n+1) w q _ hS hCq st h
  have hee : e.isError = true := by rw [← EState.core_isError hcore]; exact he
  -- not a hit: a sound cache serves successful states only
  have hmiss : w.get (q.encode Gen.escapeTable) = none := by
    cases hg : w.get (q.encode Gen.escapeTable) with
    | none => rfl
    | some s0 =>
      rw [evalQ_hit env n w q _ .none none s0 hg rfl rfl] at h
      simp only [Outcome.st.injEq] at h
      subst h
      obtain ⟨_, st', _, _, he', _, _, hc'⟩ := hS.get hg
      rw [EState.core_isError hc', he'] at he
      cases he
  -- no data under the key afterwards: the final world is sound, and the reference value of the key is not successful
  have hS' := (evalQ_refines hC hcanon (n+1) w q (q.encode Gen.escapeTable) .none none true hS hCq (fun _ => rfl)).1
  obtain ⟨m0, hm0⟩ := hex
  obtain ⟨mrec0, hm0⟩ := Option.isSome_iff_exists.mp hm0
  have hq0 := hall m0 mrec0 hm0
  have href : (refQ env m0 q (q.encode Gen.escapeTable) .none none).1 = .st e := by rw [← metaQ_fst, hq0]
  have hnodata : (evalQ env (n+1) w q (q.encode Gen.escapeTable) .none none true).1.dataAt (q.encode Gen.escapeTable) = none := by
    cases hd : (evalQ env (n+1) w q (q.encode Gen.escapeTable) .none none true).1.dataAt (q.encode Gen.escapeTable) with
    | none => rfl
    | some d =>
      obtain ⟨fuel, st', c, hrt, he', _, _, _⟩ := hS' _ d hd
      obtain ⟨fuel', st'', c'', hrq, hc''⟩ := (hcanon q hCq).1 fuel st' c hrt he'
      have := refQ_det env q (q.encode Gen.escapeTable) .none none (m := m0) (m' := fuel') (by rw [href]; simp)
        (by rw [hrq]; simp)
      rw [this, hrq] at href
      simp only [Outcome.st.injEq] at href
      subst href
      rw [← EState.core_isError hc'', he'] at hee
      cases hee
  refine ⟨?_, ⟨m0, by rw [hm0]; rfl⟩, fun m mrec hm => ?_⟩
  · obtain ⟨X, henX, hw'⟩ := error_filed env n w (evalQ env (n+1) w q (q.encode Gen.escapeTable) .none none true).fst q st hen hmiss
      (Prod.ext rfl h) he
    unfold keptAfter
    rw [World.dataAt_eq_kept] at hnodata
    rw [hw'] at hnodata ⊢
    rw [World.kept_storeMeta_self X henX] at hnodata ⊢
    simp only [Option.bind_some] at hnodata
    rw [hnodata]
  · have hq := hall m mrec hm
    have hd := metaQ_describes env m q _ .none none e mrec hq
    have herr : mrec.isError = true := by rw [hd.isError]; exact hee
    refine ⟨herr, ?_⟩
    have hl : mrec.lastName.isSome = true := by
      cases hn : mrec.lastName with
      | some _ => rfl
      | none => rw [hd.noAction hn] at herr; cases herr
    rw [hd.status, hl, herr, ← metaStatusError_eq]
    simp

/-- UNCACHED: after a successful but volatile or cache-disabled evaluation through an action or a file name no record
is kept under the canonical key — in particular no data; the returned metadata still describes the returned state -/
theorem kept_copy_uncached {env : Env} {C : Query → Prop} {T : Str → Prop} (hC : Closed env C T)
    (hcanon : ∀ q, C q → CanonOK env q) (n : Nat) (w : World) (q : Query) (raw : Str) (hS : Sound env w) (hCq : C q)
    (st : EState) (h : (evalQ env (n+1) w q raw .none none true).2 = .st st)
    (he : st.isError = false) (hbad : st.volatile = true ∨ st.caching = false) (hstep : q.hasStep = true) :
    keptAfter env (n+1) w q raw = none ∧
      (evalQ env (n+1) w q raw .none none true).1.dataAt (q.encode Gen.escapeTable) = none ∧
      (∃ m, (metaOf env m q raw .none none).isSome = true) ∧
      ∀ m mrec, metaOf env m q raw .none none = some mrec → mrec.stateView = recOfState st := by
  -- not a hit: a sound cache serves non-volatile, caching-enabled states only
  have hmiss : w.get (q.encode Gen.escapeTable) = none := by
    cases hg : w.get (q.encode Gen.escapeTable) with
    | none => rfl
    | some s0 =>
      rw [evalQ_hit env n w q _ .none none s0 hg rfl rfl] at h
      simp only [Outcome.st.injEq] at h
      subst h
      obtain ⟨_, st', _, _, _, hv', hc', hcore⟩ := hS.get hg
      rw [EState.core_volatile hcore, EState.core_caching hcore, hv', hc'] at hbad
      simp at hbad
  obtain ⟨X, hw'⟩ := uncached_removed env n w (evalQ env (n+1) w q raw .none none true).fst q raw st hmiss
    (Prod.ext rfl h) hstep he hbad
  have hk : keptAfter env (n+1) w q raw = none := by
    unfold keptAfter; rw [hw']; exact World.kept_remove_self X _
  refine ⟨hk, ?_, meta_describes_returned hC hcanon (n+1) w q raw hS hCq st h⟩
  rw [World.dataAt_eq_kept]
  unfold keptAfter at hk
  rw [hk]; rfl

end Liquer

/-! ### an instance of the hypotheses for the non-vacuity examples of C18: `one`, `one/add-2` (cacheable), `one/boom`
(the last step raises), `one/vol` (volatile), `one/nocache` (caching switched off) -/

namespace Liquer.Ex

/-- `one/vol`: the last command is volatile -/
def qOneVol : Query := .mk [.transform none [aOne 0, .mk (s "vol") [] 4] none] false
/-- `one/nocache`: the last command switches caching off -/
def qOneNocache : Query := .mk [.transform none [aOne 0, .mk (s "nocache") [] 4] none] false

theorem keysK : qOneBoom.encode Gen.escapeTable = s "one/boom" ∧ qOneVol.encode Gen.escapeTable = s "one/vol" ∧
    qOneNocache.encode Gen.escapeTable = s "one/nocache" := by decide +kernel

def CK (q : Query) : Prop := q = qOneAdd ∨ q = qOneBoom ∨ q = qOneVol ∨ q = qOneNocache ∨ q = qOne

theorem closedK : Closed env0 CK T0 where
  pred := by
    intro q p r hq hp hpe
    rcases hq with rfl | rfl | rfl | rfl | rfl
    · simp [qOneAdd, Query.predecessor] at hp; right; right; right; right; exact hp.1.symm
    · simp [qOneBoom, Query.predecessor] at hp; right; right; right; right; exact hp.1.symm
    · simp [qOneVol, Query.predecessor] at hp; right; right; right; right; exact hp.1.symm
    · simp [qOneNocache, Query.predecessor] at hp; right; right; right; right; exact hp.1.symm
    · simp [qOne, Query.predecessor] at hp; rw [← hp.1] at hpe; simp [Query.segments] at hpe
  act := by
    intro q p h a hq hp
    rcases hq with rfl | rfl | rfl | rfl | rfl
    · simp [qOneAdd, Query.predecessor] at hp
      obtain ⟨_, _, rfl⟩ := hp
      exact plain_act _ _ _ _ (by decide)
    · simp [qOneBoom, Query.predecessor] at hp
      obtain ⟨_, _, rfl⟩ := hp
      exact plain_act _ _ _ _ (by decide)
    · simp [qOneVol, Query.predecessor] at hp
      obtain ⟨_, _, rfl⟩ := hp
      exact plain_act _ _ _ _ (by decide)
    · simp [qOneNocache, Query.predecessor] at hp
      obtain ⟨_, _, rfl⟩ := hp
      exact plain_act _ _ _ _ (by decide)
    · simp [qOne, Query.predecessor] at hp
      obtain ⟨_, _, rfl⟩ := hp
      exact plain_act _ _ _ _ (by decide)
  text := fun _ _ h => h.elim

theorem canonK : ∀ q, CK q → CanonOK env0 q := by
  intro q hq
  rcases hq with rfl | rfl | rfl | rfl | rfl
  · exact CanonOK.of_check (m := 8) (m' := 9) (by decide +kernel)
  · exact CanonOK.of_check (m := 8) (m' := 9) (by decide +kernel)
  · exact CanonOK.of_check (m := 8) (m' := 9) (by decide +kernel)
  · exact CanonOK.of_check (m := 8) (m' := 9) (by decide +kernel)
  · exact CanonOK.of_check (m := 8) (m' := 9) (by decide +kernel)

end Liquer.Ex
