/-
C03 helper lemmas: URL-path safety of `encodeToken` and the list-of-lists round trip.
-/
import LiquerProofs.Lemmas.Token
import LiquerProofs.Lemmas.TokenDefs

namespace Liquer

/-! ### separators do not survive the table -/

theorem sepCovered_spec {tbl : EscTable} (hs : sepCovered tbl = true) {a : Char}
    (ha : a = '/' ∨ a = '-' ∨ a = ' ') :
    (∃ r ∈ tbl, r.1 = [a]) ∧ ∀ r ∈ tbl, a ∉ r.2 := by
  simp only [sepCovered, List.all_cons, List.all_nil, Bool.and_true, Bool.and_eq_true,
    List.any_eq_true, beq_iff_eq, List.all_eq_true, Bool.not_eq_true'] at hs
  obtain ⟨⟨h1, h1'⟩, ⟨h2, h2'⟩, ⟨h3, h3'⟩⟩ := hs
  rcases ha with rfl | rfl | rfl
  · exact ⟨h1, fun r hr => by simpa using h1' r hr⟩
  · exact ⟨h2, fun r hr => by simpa using h2' r hr⟩
  · exact ⟨h3, fun r hr => by simpa using h3' r hr⟩

theorem not_mem_fold (a : Char) : ∀ (tbl : EscTable), (∀ r ∈ tbl, a ∉ r.2) →
    ∀ s : List Char, (a ∉ s ∨ ∃ r ∈ tbl, r.1 = [a]) →
      a ∉ tbl.foldl (fun t pe => replaceAll pe.1 pe.2 t) s := by
  intro tbl
  induction tbl with
  | nil =>
    intro _ s h
    rcases h with h | ⟨r, hr, _⟩
    · exact h
    · simp at hr
  | cons pe tbl ih =>
    intro hc s h
    simp only [List.foldl_cons]
    apply ih (fun r hr => hc r (List.mem_cons_of_mem _ hr))
    have hpe := hc pe List.mem_cons_self
    rcases h with h | ⟨r, hr, hra⟩
    · left
      intro hm
      rcases mem_replaceAll _ _ _ _ _ (Nat.le_refl _) hm with h' | h'
      · exact h h'
      · exact hpe h'
    · rcases List.mem_cons.mp hr with rfl | hr
      · left
        intro hm
        rw [hra] at hm
        rcases mem_replaceAll_single _ _ _ _ hm with h' | h'
        · exact h'.2 rfl
        · exact hpe h'
      · exact Or.inr ⟨r, hr, hra⟩

theorem sep_not_mem_applyTable {tbl : EscTable} (hs : sepCovered tbl = true) {a : Char}
    (ha : a = '/' ∨ a = '-' ∨ a = ' ') (s : List Char) : a ∉ applyTable tbl s := by
  obtain ⟨h1, h2⟩ := sepCovered_spec hs ha
  exact not_mem_fold a tbl h2 s (Or.inr h1)

/-! ### characters of an encoded token -/

theorem tokSafe_iff (c : Char) : tokSafe c = true ↔
    ((65 ≤ c.toNat ∧ c.toNat ≤ 90) ∨ (97 ≤ c.toNat ∧ c.toNat ≤ 122) ∨
      (48 ≤ c.toNat ∧ c.toNat ≤ 57) ∨
      c.toNat = 95 ∨ c.toNat = 46 ∨ c.toNat = 126 ∨ c.toNat = 37) := by
  simp only [tokSafe, Bool.or_eq_true, Bool.and_eq_true, decide_eq_true_eq, beq_iff_eq,
    char_le_iff, char_eq_iff]
  have e1 : 'A'.toNat = 65 := rfl
  have e2 : 'Z'.toNat = 90 := rfl
  have e3 : 'a'.toNat = 97 := rfl
  have e4 : 'z'.toNat = 122 := rfl
  have e5 : '0'.toNat = 48 := rfl
  have e6 : '9'.toNat = 57 := rfl
  have e7 : '_'.toNat = 95 := rfl
  have e8 : '.'.toNat = 46 := rfl
  have e10 : '~'.toNat = 126 := rfl
  have e11 : '%'.toNat = 37 := rfl
  rw [e1, e2, e3, e4, e5, e6, e7, e8, e10, e11]
  omega

theorem tokSafe_of_quoteSafe {c : Char} (h : quoteSafe c = true) (h1 : c ≠ '/') (h2 : c ≠ '-') :
    tokSafe c = true := by
  rw [quoteSafe_iff] at h
  rw [tokSafe_iff]
  have e1 : c.toNat ≠ 47 := fun e => h1 ((char_eq_iff _ _).mpr e)
  have e2 : c.toNat ≠ 45 := fun e => h2 ((char_eq_iff _ _).mpr e)
  omega

theorem tokSafe_hexDigitUpper {n : Nat} (h : n < 16) : tokSafe (hexDigitUpper n) = true :=
  (by decide : ∀ n : Fin 16, tokSafe (hexDigitUpper n.val) = true) ⟨n, h⟩

theorem encodeToken_safe' (tbl : EscTable) (hs : sepCovered tbl = true) (s : List Char) :
    ∀ c ∈ encodeToken tbl s, tokSafe c = true := by
  intro c hc
  rw [encodeToken_eq_quote] at hc
  rcases mem_quote hc with ⟨h1, h2⟩ | rfl | ⟨n, hn, rfl⟩
  · apply tokSafe_of_quoteSafe h2
    · rintro rfl; exact sep_not_mem_applyTable hs (Or.inl rfl) s h1
    · rintro rfl; exact sep_not_mem_applyTable hs (Or.inr (Or.inl rfl)) s h1
  · decide
  · exact tokSafe_hexDigitUpper hn

/-- the encoded token is a sequence of blocks: a bare safe character other than `%`, or `%XY` with
two upper-case hexadecimal digits -/
theorem encodeToken_blocks' (tbl : EscTable) (hs : sepCovered tbl = true) (s : List Char) :
    ∃ blocks : List (List Char), encodeToken tbl s = blocks.flatMap id ∧
      ∀ b ∈ blocks, (∃ c, b = [c] ∧ tokSafe c = true ∧ c ≠ '%') ∨
        (∃ x y, x < 16 ∧ y < 16 ∧ b = ['%', hexDigitUpper x, hexDigitUpper y]) := by
  refine ⟨((applyTable tbl s).flatMap atomsOf).map Atom.str, ?_, ?_⟩
  · rw [encodeToken_eq_quote, quote_eq, flatAtoms, List.flatMap_id, List.flatMap_def]
  · intro b hb
    obtain ⟨a, ha, rfl⟩ := List.mem_map.mp hb
    obtain ⟨c, hc, hac⟩ := List.mem_flatMap.mp ha
    cases a with
    | pct v => exact Or.inr ⟨_, _, byte_hi_lt v, byte_lo_lt v, rfl⟩
    | ch x =>
      left
      unfold atomsOf at hac
      split at hac
      next hq =>
        simp only [List.mem_singleton, Atom.ch.injEq] at hac
        subst hac
        refine ⟨x, rfl, tokSafe_of_quoteSafe hq ?_ ?_, quoteSafe_ne_pct hq⟩
        · rintro rfl; exact sep_not_mem_applyTable hs (Or.inl rfl) s hc
        · rintro rfl; exact sep_not_mem_applyTable hs (Or.inr (Or.inl rfl)) s hc
      next => simp at hac

/-! ### split / join -/

theorem splitOnChar_noSep (sep : Char) (w : List Char) (h : sep ∉ w) :
    splitOnChar sep w = [w] := by
  induction w with
  | nil => rfl
  | cons c w ih =>
    have hc : c ≠ sep := fun e => h (e ▸ List.mem_cons_self)
    simp [splitOnChar, hc, ih (fun hm => h (List.mem_cons_of_mem _ hm))]

theorem splitOnChar_append (sep : Char) (w rest : List Char) (h : sep ∉ w) :
    splitOnChar sep (w ++ sep :: rest) = w :: splitOnChar sep rest := by
  induction w with
  | nil => simp [splitOnChar]
  | cons c w ih =>
    have hc : c ≠ sep := fun e => h (e ▸ List.mem_cons_self)
    simp [splitOnChar, hc, ih (fun hm => h (List.mem_cons_of_mem _ hm))]

theorem splitOnChar_joinWith (sep : Char) : ∀ (ws : List (List Char)), ws ≠ [] →
    (∀ w ∈ ws, sep ∉ w) → splitOnChar sep (joinWith sep ws) = ws := by
  intro ws
  induction ws with
  | nil => intro h; exact absurd rfl h
  | cons w ws ih =>
    intro _ h
    cases ws with
    | nil => exact splitOnChar_noSep sep w (h w List.mem_cons_self)
    | cons w' ws =>
      simp only [joinWith]
      rw [splitOnChar_append sep w _ (h w List.mem_cons_self),
        ih (by simp) (fun v hv => h v (List.mem_cons_of_mem _ hv))]

theorem mem_joinWith {sep c : Char} : ∀ {ws : List (List Char)}, c ∈ joinWith sep ws →
    c = sep ∨ ∃ w ∈ ws, c ∈ w := by
  intro ws
  induction ws with
  | nil => intro h; simp [joinWith] at h
  | cons w ws ih =>
    intro h
    cases ws with
    | nil => exact Or.inr ⟨w, List.mem_cons_self, by simpa [joinWith] using h⟩
    | cons w' ws =>
      simp only [joinWith, List.mem_append, List.mem_cons] at h
      rcases h with h | h | h
      · exact Or.inr ⟨w, List.mem_cons_self, h⟩
      · exact Or.inl h
      · rcases ih h with h | ⟨v, hv, hc⟩
        · exact Or.inl h
        · exact Or.inr ⟨v, List.mem_cons_of_mem _ hv, hc⟩

/-! ### the list-of-lists round trip -/

theorem decodeLL_encodeLL' (tbl : EscTable) (dec : List UInt8 → List Char)
    (h : tableOK tbl = true) (hs : sepCovered tbl = true) (hd : DecOK dec)
    (ql : List (List (List Char)))
    (hne : ∀ cmd ∈ ql, ∃ t ts, cmd = t :: ts ∧ t ≠ []) :
    decodeLL tbl dec (encodeLL tbl ql) = ql := by
  have hslash : ∀ s, '/' ∉ encodeToken tbl s := fun s hm => by
    have := encodeToken_safe' tbl hs s _ hm; revert this; decide
  have hdash : ∀ s, '-' ∉ encodeToken tbl s := fun s hm => by
    have := encodeToken_safe' tbl hs s _ hm; revert this; decide
  cases hql : ql with
  | nil => simp [decodeLL, encodeLL, joinWith, splitOnChar, decodeToken, decodeTokenF]
  | cons q0 ql0 =>
    rw [← hql]
    unfold decodeLL encodeLL
    rw [splitOnChar_joinWith '/' _ (by simp [hql])]
    · rw [List.map_map]
      have hmap : ∀ qv ∈ ql, ((fun eqv => (splitOnChar '-' eqv).map (decodeToken tbl dec)) ∘
          (fun qv => joinWith '-' (qv.map (encodeToken tbl)))) qv = qv := by
        intro qv hqv
        obtain ⟨t, ts, rfl, _⟩ := hne qv hqv
        simp only [Function.comp]
        rw [splitOnChar_joinWith '-' _ (by simp)]
        · rw [List.map_map]
          conv => rhs; rw [← List.map_id (t :: ts)]
          apply List.map_congr_left
          intro s _
          exact decodeToken_encodeToken tbl dec h hd s
        · intro w hw
          obtain ⟨s, _, rfl⟩ := List.mem_map.mp hw
          exact hdash s
      rw [List.map_congr_left hmap, List.map_id', List.filter_eq_self]
      intro cmd hcmd
      obtain ⟨t, ts, rfl, ht⟩ := hne cmd hcmd
      cases t with
      | nil => exact absurd rfl ht
      | cons => rfl
    · intro w hw
      obtain ⟨qv, _, rfl⟩ := List.mem_map.mp hw
      intro hm
      rcases mem_joinWith hm with h' | ⟨v, hv, hc⟩
      · revert h'; decide
      · obtain ⟨s, _, rfl⟩ := List.mem_map.mp hv
        exact hslash s hc

end Liquer
