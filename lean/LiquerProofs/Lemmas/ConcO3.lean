/-
The refinement theorem for the oracle evaluator (the analogue of R-eval, Lemmas/EvalRefine.lean): if every answer the evaluation
consumed was good for the key it was asked for (`GoodPairs`), then every `store` of its trace writes the good value of its key
(`StoresGood`) and a modelled outcome is similar to the reference interpretation.  Same induction on the fuel; instead of a
`Sound` world the statements thread the accounting `WFO A0 w` and `w.starved = false`.
-/
import LiquerProofs.Lemmas.ConcO2
import LiquerProofs.Lemmas.ConcW
import LiquerProofs.Lemmas.EvalRefine

namespace Liquer

/-! ### answers paired with the `get`s of a trace -/

/-- the `i`-th answer is good for the key of the `i`-th `get` of the trace (as far as both exist) -/
def GoodPairs (env : Env) (tr : List COp) (A : List (Option EState)) : Prop :=
  ∀ (i : Nat) k a, (gets tr)[i]? = some k → A[i]? = some a → GoodAns env k a

theorem GoodPairs.mono {env : Env} {tr tr' : List COp} {A : List (Option EState)} (h : GoodPairs env tr' A)
    (hp : tr <+: tr') : GoodPairs env tr A := by
  intro i k a hk ha
  refine h i k a ?_ ha
  obtain ⟨c, hc⟩ := gets_prefix hp
  have hi : i < (gets tr).length := (List.getElem?_eq_some_iff.1 hk).1
  rw [← hc, List.getElem?_append_left hi]; exact hk

theorem GoodPairs.nil_answers (env : Env) (tr : List COp) : GoodPairs env tr [] := by
  intro i k a _ ha; simp at ha

/-- the answer consumed by an `ask` -/
theorem GoodPairs.ask {env : Env} {A0 : List (Option EState)} {w : OW} {k : Str} {a : Option EState}
    {rest : List (Option EState)} (hW : WFO A0 w) (hs : w.starved = false) (ha : w.answers = a :: rest)
    (hG : GoodPairs env (w.trace ++ [.get k]) A0) : GoodAns env k a := by
  obtain ⟨pre, h1, h2⟩ := hW.2 hs
  refine hG pre.length k a ?_ ?_
  · simp [h2]
  · simp [h1, ha]

/-- every operation of the trace is harmless -/
def StoresGood (env : Env) (tr : List COp) : Prop := ∀ op ∈ tr, OpGood env op

/-- the trace of the world is harmless -/
def SG (env : Env) (w : OW) : Prop := StoresGood env w.trace

theorem SG.emit {env : Env} {w : OW} (h : SG env w) {op : COp} (hop : w.starved = false → OpGood env op) : SG env (w.emit op) := by
  unfold OW.emit
  split
  · exact h
  · next hs =>
    intro o ho
    simp only [List.mem_append, List.mem_singleton] at ho
    rcases ho with ho | rfl
    · exact h o ho
    · exact hop (by simpa using hs)

theorem SG.storeMeta {env : Env} {w : OW} (h : SG env w) (k x : Str) : SG env (w.storeMeta k x) := h.emit (fun _ => trivial)
theorem SG.remove {env : Env} {w : OW} (h : SG env w) (k : Str) : SG env (w.remove k) := h.emit (fun _ => trivial)
theorem SG.store {env : Env} {w : OW} (h : SG env w) (st : EState) (hst : GoodAt env st.query st) : SG env (w.store st) :=
  h.emit (fun _ => hst)
theorem SG.log {env : Env} {w : OW} (h : SG env w) (c : Str) : SG env (w.log c) := by
  unfold OW.log; split <;> exact h
theorem SG.metaIf {env : Env} {w : OW} (h : SG env w) (uc : Bool) (k x : Str) : SG env (w.metaIf uc k x) := by
  cases uc
  · exact h
  · exact h.storeMeta k x
theorem SG.logCall {env : Env} {w : OW} (h : SG env w) (st sig args) : SG env (w.logCall st sig args) := by
  unfold OW.logCall; split
  · exact h
  · exact h.log _
theorem SG.subWO {env : Env} {w : OW} (h : SG env w) (uc raw o) : SG env (subWO uc raw o w) := by
  unfold Liquer.subWO; split
  · exact h.metaIf _ _ _
  · exact h.metaIf _ _ _
  · exact h

theorem SG.admitWO {env : Env} {w : OW} (h : SG env w) (uc : Bool) (key : Str) (st3 : EState)
    (hstore : uc = true → st3.isError = false → st3.volatile = false → st3.caching = true → GoodAt env st3.query st3) :
    SG env (admitWO uc key st3 w) := by
  unfold Liquer.admitWO
  split
  · exact h
  · next huc =>
    split
    · next hadm =>
      simp only [Bool.and_eq_true, Bool.not_eq_eq_eq_not, Bool.not_true] at hadm huc
      exact h.store st3 (hstore (by simpa using huc) hadm.1.2 hadm.2 hadm.1.1)
    · split
      · exact h.storeMeta _ _
      · exact h.remove _

theorem SG.fileWO {env : Env} {w : OW} (h : SG env w) (uc : Bool) (key : Str) (st2 : EState)
    (hstore : uc = true → st2.volatile = false → st2.caching = true → GoodAt env st2.query st2) :
    SG env (fileWO uc key st2 w) := by
  unfold Liquer.fileWO
  split
  · exact h
  · next huc =>
    split
    · next hadm =>
      simp only [Bool.and_eq_true, Bool.not_eq_eq_eq_not, Bool.not_true] at hadm huc
      exact h.store st2 (hstore (by simpa using huc) hadm.2 hadm.1)
    · exact h.remove _

theorem SG.ask {env : Env} {w : OW} (h : SG env w) (k : Str) : SG env (w.ask k).1 := by
  intro o ho
  simp only [OW.ask_trace, List.mem_append, List.mem_singleton] at ho
  rcases ho with ho | rfl
  · exact h o ho
  · trivial

theorem SG.askIf {env : Env} {w : OW} (h : SG env w) (c : Bool) (k : Str) : SG env (w.askIf c k).1 := by
  unfold OW.askIf; split
  · exact h.ask k
  · exact h

/-- a hit is the good value of its key -/
theorem askIf_hit {env : Env} {A0 : List (Option EState)} {w : OW} {c : Bool} {k : Str} {st : EState} (hW : WFO A0 w)
    (hs : w.starved = false) (h2 : (w.askIf c k).2 = some st) (hG : GoodPairs env (w.askIf c k).1.trace A0) :
    c = true ∧ GoodAt env k st := by
  cases c with
  | false => simp [OW.askIf] at h2
  | true =>
    refine ⟨rfl, ?_⟩
    simp only [OW.askIf, if_true, OW.ask_trace] at h2 hG
    cases ha : w.answers with
    | nil => simp [OW.ask, ha] at h2
    | cons a rest =>
      have : a = some st := by simpa [OW.ask, ha] using h2
      exact GoodPairs.ask hW hs ha hG st this

theorem OkO.ns {α : Type} {u : α} {w w1 : OW} {o1 : α} (h : OkO u w (w1, o1)) (hs : w.starved = false) (ho : o1 ≠ u) :
    w1.starved = false := by
  cases h1 : w1.starved
  · rfl
  · exact absurd (h.2.2 hs h1) ho

/-! ### the statements -/

/-- the result `r` of an oracle evaluation started in `w` refines the reference computation `f`, provided the answers it
consumed were good -/
def RefO (env : Env) (A0 : List (Option EState)) (w : OW) (r : OW × Outcome) (f : Nat → Outcome × List Str) : Prop :=
  GoodPairs env r.1.trace A0 → SG env w → SG env r.1 ∧ (r.2 ≠ .unmodelled → ∃ m, Outcome.sim r.2 (f m).1)

def RefOP (env : Env) (A0 : List (Option EState)) (w : OW) (r : OW × (List PVal ⊕ Outcome))
    (f : Nat → (List PVal ⊕ Outcome) × List Str) : Prop :=
  GoodPairs env r.1.trace A0 → SG env w → SG env r.1 ∧ (r.2 ≠ .inr .unmodelled → ∃ m, (f m).1 = r.2)

structure RefAtO (env : Env) (C : Query → Prop) (T : Str → Prop) (A0 : List (Option EState)) (n : Nat) : Prop where
  text : ∀ w t ug, WFO A0 w → w.starved = false → T t →
    RefO env A0 w (evalTextO env n w t ug) (fun m => refText env m t)
  q : ∀ w q raw extra input uc, WFO A0 w → w.starved = false → C q → (uc = true → input = none) →
    RefO env A0 w (evalQO env n w q raw extra input uc) (fun m => refQ env m q raw extra input)
  act : ∀ w st a raw parent extra uc, WFO A0 w → w.starved = false → LinksIn env C T parent a.params → SubIn env T a →
    RefO env A0 w (evalActionO env n w st a raw parent extra uc) (fun m => refAction env m st a raw parent extra)
  params : ∀ w ps raw parent, WFO A0 w → w.starved = false → LinksIn env C T parent ps →
    RefOP env A0 w (evalParamsO env n w ps raw parent) (fun m => refParams env m ps raw parent)

theorem RefO.ret {env : Env} {A0 : List (Option EState)} (w : OW) (f) : RefO env A0 w (w, .unmodelled) f :=
  fun _ h => ⟨h, by simp⟩

theorem RefO.congr {env : Env} {A0 : List (Option EState)} {w : OW} {r : OW × Outcome} {f g : Nat → Outcome × List Str}
    (hfg : ∀ m, f m = g m) (h : RefO env A0 w r g) : RefO env A0 w r f := by
  have : f = g := funext hfg
  rw [this]; exact h

/-! ### the call -/

theorem call_refO {env : Env} {C : Query → Prop} {T : Str → Prop} {A0 : List (Option EState)} {n : Nat}
    (ih : RefAtO env C T A0 n) (w1 : OW) (st act raw sig x) (uc : Bool) (hW : WFO A0 w1) (hs : w1.starved = false)
    (hsub : ∀ args y qt, cmdSem sig.ns sig.name st.data st.vars args = .subeval y qt → T qt) :
    RefO env A0 w1 (evalCallO env n w1 st act raw sig x uc) (fun m => refCall env m st act raw sig x) := by
  unfold evalCallO
  split
  · exact RefO.ret _ _
  · next hpa =>
    exact fun _ hSG => ⟨hSG.metaIf _ _ _, fun _ => ⟨0, by simp [refCall, hpa]⟩⟩
  · next args hpa =>
    split
    · exact fun _ hSG => ⟨hSG.logCall _ _ _, by simp⟩
    · next hc =>
      exact fun _ hSG => ⟨(hSG.logCall _ _ _).metaIf _ _ _, fun _ => ⟨0, by simp [refCall, hpa, hc]⟩⟩
    · next v hc =>
      exact fun _ hSG => ⟨(hSG.logCall _ _ _).metaIf _ _ _, fun _ => ⟨0, by simp [refCall, hpa, hc]⟩⟩
    · next v vars hc =>
      exact fun _ hSG => ⟨(hSG.logCall _ _ _).metaIf _ _ _, fun _ => ⟨0, by simp [refCall, hpa, hc]⟩⟩
    · next v hc =>
      exact fun _ hSG => ⟨(hSG.logCall _ _ _).metaIf _ _ _, fun _ => ⟨0, by simp [refCall, hpa, hc]⟩⟩
    · next y qtext hc =>
      have hq := Quiet.logCall w1 st sig args
      have h3 := ih.text (w1.logCall st sig args) qtext true (hq.wfo hW) (by rw [hq.2.1]; exact hs) (hsub _ _ _ hc)
      intro hG hSG
      obtain ⟨hSG3, hw⟩ := h3 (hG.mono (Quiet.subWO _ _ _ _).prefix) (hSG.logCall _ _ _)
      refine ⟨hSG3.subWO _ _ _, fun hne => ?_⟩
      obtain ⟨m, hsim⟩ := hw (subOutcome_ne_unmodelled hne)
      refine ⟨m, ?_⟩
      simp only [refCall, hpa, hc]; rw [subOutcome_sim hsim]; exact Outcome.sim_refl _

/-! ### link arguments -/

theorem link_refO {env : Env} {C : Query → Prop} {T : Str → Prop} {A0 : List (Option EState)} {n : Nat}
    (ih : RefAtO env C T A0 n) (w : OW) (lq : Query) (parent : Str) (hW : WFO A0 w) (hs : w.starved = false)
    (hC : (lq.absolute || parent.isEmpty || parent == ['/']) = true → C lq)
    (hT : (lq.absolute || parent.isEmpty || parent == ['/']) = false →
      ∀ h as f ab pq, lq = .mk [.transform h as f] ab → parse env.dec parent = some pq →
      T ((Query.mk (pq.segments ++ [.transform h as f]) pq.absolute).encode Gen.escapeTable)) :
    RefO env A0 w (evalLinkO env n w lq parent) (fun m => refLink env m lq parent) := by
  unfold evalLinkO
  split
  · next hc =>
    exact RefO.congr (fun m => by simp only [refLink, hc, if_true]) (ih.q w lq _ .none none true hW hs (hC hc) (fun _ => rfl))
  · next hc =>
    have hc' : (lq.absolute || parent.isEmpty || parent == ['/']) = false := by simpa using hc
    split
    · split
      · exact RefO.ret _ _
      · next pq hpq =>
        exact RefO.congr (fun m => by simp only [refLink, hc', Bool.false_eq_true, if_false, hpq])
          (ih.text w _ true hW hs (hT hc' _ _ _ _ _ rfl hpq))
    · exact RefO.ret _ _

/-! ### parameters -/

theorem params_stepO {env : Env} {C : Query → Prop} {T : Str → Prop} {A0 : List (Option EState)} {n : Nat}
    (ih : RefAtO env C T A0 n) (w : OW) (ps : List Param) (raw parent : Str) (hW : WFO A0 w) (hs : w.starved = false)
    (hL : LinksIn env C T parent ps) :
    RefOP env A0 w (evalParamsO env (n+1) w ps raw parent) (fun m => refParams env m ps raw parent) := by
  cases ps with
  | nil =>
    rw [evalParamsO_nil]
    exact fun _ hSG => ⟨hSG, fun _ => ⟨1, by simp [refParams_nil]⟩⟩
  | cons p ps =>
    have hL' : LinksIn env C T parent ps := hL.tail
    cases p with
    | str t pos =>
      rw [evalParamsO_str]
      have h1 := ih.params w ps raw parent hW hs hL'
      rcases hp : evalParamsO env n w ps raw parent with ⟨w1, r⟩
      rw [hp] at h1
      cases r with
      | inl rest =>
        intro hG hSG
        obtain ⟨hSG1, hw⟩ := h1 hG hSG
        refine ⟨hSG1, fun _ => ?_⟩
        obtain ⟨m, h3⟩ := hw (by simp)
        exact ⟨m+1, by simp only [refParams_str]; rw [show refParams env m ps raw parent = (.inl rest, (refParams env m ps raw parent).2) from Prod.ext h3 rfl]⟩
      | inr o =>
        intro hG hSG
        obtain ⟨hSG1, hw⟩ := h1 hG hSG
        refine ⟨hSG1, fun hne => ?_⟩
        obtain ⟨m, h3⟩ := hw hne
        exact ⟨m+1, by simp only [refParams_str]; rw [show refParams env m ps raw parent = (.inr o, (refParams env m ps raw parent).2) from Prod.ext h3 rfl]⟩
    | link lq pos =>
      rw [evalParamsO_link]
      have hl1 := link_refO ih w lq parent hW hs (hL lq pos (List.mem_cons_self ..)).1
        (hL lq pos (List.mem_cons_self ..)).2
      have fl := link_frameO (frameO env n) w lq parent
      rcases hl : evalLinkO env n w lq parent with ⟨w1, o⟩
      rw [hl] at hl1 fl
      cases o with
      | unmodelled => exact fun hG hSG => ⟨(hl1 hG hSG).1, by simp⟩
      | raised a b =>
        intro hG hSG
        obtain ⟨hSG1, hw⟩ := hl1 hG hSG
        refine ⟨hSG1, fun _ => ?_⟩
        obtain ⟨m, h3⟩ := hw (by simp)
        rcases hr : refLink env m lq parent with ⟨o', c1⟩
        simp only [hr, Outcome.sim_raised] at h3
        subst h3
        exact ⟨m+1, by simp only [refParams_link, hr]⟩
      | parseError =>
        intro hG hSG
        obtain ⟨hSG1, hw⟩ := hl1 hG hSG
        refine ⟨hSG1, fun _ => ?_⟩
        obtain ⟨m, h3⟩ := hw (by simp)
        rcases hr : refLink env m lq parent with ⟨o', c1⟩
        simp only [hr, Outcome.sim_parseError] at h3
        subst h3
        exact ⟨m+1, by simp only [refParams_link, hr]⟩
      | st v =>
        simp only
        cases hv : v.isError
        · simp only [Bool.false_eq_true, if_false]
          have hW1 := fl.2.1 A0 hW
          have hs1 := fl.ns hs (by simp)
          have h2 := ih.params w1 ps raw parent hW1 hs1 hL'
          have f2 := (frameO env n).params w1 ps raw parent
          rcases hp : evalParamsO env n w1 ps raw parent with ⟨w2, r⟩
          rw [hp] at h2 f2
          cases r <;> (
            intro hG hSG
            obtain ⟨hSG1, hw⟩ := hl1 (hG.mono f2.1) hSG
            obtain ⟨hSG2, hw2⟩ := h2 hG hSG1
            refine ⟨hSG2, fun hne => ?_⟩
            obtain ⟨m, h3⟩ := hw (by simp)
            rcases hr : refLink env m lq parent with ⟨o', c1⟩
            simp only [hr] at h3
            obtain ⟨v', rfl, hcore⟩ := Outcome.sim_st_left h3
            have hve : v'.isError = false := by rw [← EState.core_isError hcore]; exact hv
            have hvd := EState.core_data hcore
            obtain ⟨m2, g3⟩ := hw2 (by first | exact Sum.inl_ne_inr | exact hne)
            rcases hr2 : refParams env m2 ps raw parent with ⟨r2, c2⟩
            simp only [hr2] at g3
            subst g3
            have hlM : refLink env (max m m2) lq parent = (.st v', c1) := by
              rw [refLink_mono_le env (Nat.le_max_left m m2) lq parent (by rw [hr]; simp), hr]
            have hpM := refParams_mono_le env (Nat.le_max_right m m2) ps raw parent
                (by rw [hr2]; first | exact Sum.inl_ne_inr | exact hne)
            rw [hr2] at hpM
            refine ⟨max m m2 + 1, ?_⟩
            simp only [refParams_link, hlM, hve, Bool.false_eq_true, if_false, hpM, hvd])
        · simp only [if_true]
          intro hG hSG
          obtain ⟨hSG1, hw⟩ := hl1 hG hSG
          refine ⟨hSG1, fun _ => ?_⟩
          obtain ⟨m, h3⟩ := hw (by simp)
          rcases hr : refLink env m lq parent with ⟨o', c1⟩
          simp only [hr] at h3
          obtain ⟨v', rfl, hcore⟩ := Outcome.sim_st_left h3
          have hve : v'.isError = true := by rw [← EState.core_isError hcore]; exact hv
          exact ⟨m+1, by simp only [refParams_link, hr, hve, if_true]⟩

/-! ### actions -/

theorem act_stepO {env : Env} {C : Query → Prop} {T : Str → Prop} {A0 : List (Option EState)} {n : Nat}
    (ih : RefAtO env C T A0 n) (w : OW) (st : EState) (a : Action) (raw parent : Str) (extra : Extra) (uc : Bool)
    (hW : WFO A0 w) (hs : w.starved = false) (hL : LinksIn env C T parent a.params) (hSub : SubIn env T a) :
    RefO env A0 w (evalActionO env (n+1) w st a raw parent extra uc) (fun m => refAction env m st a raw parent extra) := by
  rw [evalActionO_succ]
  have hq0 := Quiet.metaIf w uc raw (s "evaluation")
  have hW0 := hq0.wfo hW
  have hs0 : (w.metaIf uc raw (s "evaluation")).starved = false := by rw [hq0.2.1]; exact hs
  split
  · exact fun _ hSG => ⟨hSG.metaIf _ _ _, by simp⟩
  · next nss hns =>
    split
    · exact fun _ hSG => ⟨hSG.metaIf _ _ _, by simp⟩
    · next hl =>
      split
      · next hr =>
        refine fun _ hSG => ⟨(hSG.metaIf _ _ _).metaIf _ _ _, fun _ => ⟨1, ?_⟩⟩
        simp only [refAction_succ, hns, hl, hr]; exact Outcome.sim_refl _
      · next sig hr =>
        have h1 := ih.params (w.metaIf uc raw (s "evaluation")) a.params raw parent hW0 hs0 hL
        have f1 := (frameO env n).params (w.metaIf uc raw (s "evaluation")) a.params raw parent
        rcases hp : evalParamsO env n (w.metaIf uc raw (s "evaluation")) a.params raw parent with ⟨w1, r⟩
        rw [hp] at h1 f1
        cases r with
        | inr o =>
          intro hG hSG
          obtain ⟨hSG1, hw⟩ := h1 hG (hSG.metaIf _ _ _)
          refine ⟨hSG1, fun hne => ?_⟩
          obtain ⟨m, h3⟩ := hw (fun hu => hne (by simpa using hu))
          rcases hr1 : refParams env m a.params raw parent with ⟨r', c1⟩
          simp only [hr1] at h3
          subst h3
          refine ⟨m+1, ?_⟩
          simp only [refAction_succ, hns, hl, hr, hr1]; exact Outcome.sim_refl _
        | inl given =>
          have hW1 := f1.2.1 A0 hW0
          have hs1 := f1.ns hs0 (by simp)
          have h2 := call_refO ih w1 st a raw sig (applyExtra extra given) uc hW1 hs1
            (fun args y qt hc => hSub nss sig hr _ _ _ _ _ hc)
          have f2 := call_frameO (frameO env n) w1 st a raw sig (applyExtra extra given) uc
          intro hG hSG
          obtain ⟨hSG1, hw⟩ := h1 (hG.mono f2.1) (hSG.metaIf _ _ _)
          obtain ⟨hSG2, hw2⟩ := h2 hG hSG1
          refine ⟨hSG2, fun hne => ?_⟩
          obtain ⟨m, h3⟩ := hw (by simp)
          obtain ⟨m2, g3⟩ := hw2 hne
          rcases hr1 : refParams env m a.params raw parent with ⟨r', c1⟩
          simp only [hr1] at h3
          subst h3
          have hpM := refParams_mono_le env (Nat.le_max_left m m2) a.params raw parent (by rw [hr1]; simp)
          rw [hr1] at hpM
          have hcM := refCall_mono_le env (Nat.le_max_right m m2) st a raw sig (applyExtra extra given)
            (Outcome.sim_ne_unmodelled g3 hne)
          refine ⟨max m m2 + 1, ?_⟩
          simp only [refAction_succ, hns, hl, hr, hpM, hcM]; exact g3

/-! ### texts -/

theorem text_stepO {env : Env} {C : Query → Prop} {T : Str → Prop} {A0 : List (Option EState)} {n : Nat}
    (hC : Closed env C T) (ih : RefAtO env C T A0 n) (w : OW) (t : Str) (ug : Bool) (hW : WFO A0 w)
    (hs : w.starved = false) (hT : T t) :
    RefO env A0 w (evalTextO env (n+1) w t ug) (fun m => refText env m t) := by
  rw [evalTextO_succ]
  split
  · next hp =>
    refine fun _ hSG => ⟨hSG, fun _ => ⟨1, ?_⟩⟩
    simp only [refText_succ, hp]; exact Outcome.sim_refl _
  · next q hp =>
    have h1 := ih.q w q t .none none ug hW hs (hC.text t q hT hp) (fun _ => rfl)
    intro hG hSG
    obtain ⟨hSG1, hw⟩ := h1 hG hSG
    refine ⟨hSG1, fun hne => ?_⟩
    obtain ⟨m, h3⟩ := hw hne
    exact ⟨m+1, by simp only [refText_succ, hp]; exact h3⟩

/-! ### queries -/

theorem sim_at {f : Nat → Outcome × List Str} {o o' : Outcome} {c : List Str} (m : Nat) (hf : f m = (o', c))
    (h : Outcome.sim o o') : ∃ m, Outcome.sim o (f m).1 := ⟨m, by rw [hf]; exact h⟩

theorem pre_refO {env : Env} {C : Query → Prop} {T : Str → Prop} {A0 : List (Option EState)} {n : Nat}
    (hC : Closed env C T) (ih : RefAtO env C T A0 n) (w : OW) (q : Query) (raw : Str) (input : Option Val) (uc : Bool)
    (hW : WFO A0 w) (hs : w.starved = false) (hCq : C q) (huc : uc = true → input = none) :
    RefO env A0 w (evalPreO env n w q raw input uc) (fun m => refPre env m q input) := by
  unfold evalPreO
  split
  · next hp =>
    exact fun _ hSG => ⟨hSG, fun _ => ⟨0, by simp only [refPre, hp]; exact Outcome.sim_refl _⟩⟩
  · next p hp =>
    obtain ⟨r, hpr, hpe⟩ := Query.preQ_some hp
    have hq := Quiet.metaIf w uc raw (s "evaluating parent")
    have h1 := ih.q (w.metaIf uc raw (s "evaluating parent")) p (p.encode Gen.escapeTable) .none input uc (hq.wfo hW)
      (by rw [hq.2.1]; exact hs) (hC.pred q p r hCq hpr hpe) huc
    refine RefO.congr (g := fun m => refQ env m p (p.encode Gen.escapeTable) .none input)
      (fun m => by simp only [refPre, hp]) ?_
    exact fun hG hSG => h1 hG (hSG.metaIf _ _ _)

theorem store_okO {env : Env} {q : Query} (hcs : CanonStore env q) {M : Nat} {raw : Str} {extra : Extra}
    {s' : EState} (href : (refQ env M q raw extra none).1 = .st s')
    (s : EState) (hcore : s.core = s'.core) (he : s.isError = false) (hv : s.volatile = false) (hc : s.caching = true)
    (hq : s.query = q.encode Gen.escapeTable) : GoodAt env s.query s :=
  store_ok hcs href s hcore he hv hc hq

/-- what follows the evaluation of the predecessor -/
theorem after_refO {env : Env} {C : Query → Prop} {T : Str → Prop} {A0 : List (Option EState)} {n : Nat}
    (hC : Closed env C T) (hcanon : ∀ q, C q → CanonOK env q) (ih : RefAtO env C T A0 n) (w1 : OW) (o : Outcome)
    (q : Query) (raw : Str) (extra : Extra) (input : Option Val) (uc : Bool) (hW1 : WFO A0 w1) (hs1 : w1.starved = false)
    (hCq : C q) (huc : uc = true → input = none) (hres : q.isRes = false)
    (hw : o ≠ .unmodelled → ∃ m1, Outcome.sim o (refPre env m1 q input).1) :
    RefO env A0 w1 (evalAfterO env n w1 o q.preParent q.preRem (q.encode Gen.escapeTable) raw extra uc)
      (fun m => refQ env m q raw extra input) := by
  unfold evalAfterO
  cases o with
  | unmodelled => exact RefO.ret _ _
  | raised a b =>
    refine fun _ hSG => ⟨hSG, fun _ => ?_⟩
    obtain ⟨m1, h3⟩ := hw (by simp)
    rcases hr1 : refPre env m1 q input with ⟨o', c0⟩
    simp only [hr1, Outcome.sim_raised] at h3
    subst h3
    refine ⟨m1+1, ?_⟩
    simp only [refQ_succ_of_pre hres hr1, refAfter]; exact Outcome.sim_refl _
  | parseError =>
    refine fun _ hSG => ⟨hSG, fun _ => ?_⟩
    obtain ⟨m1, h3⟩ := hw (by simp)
    rcases hr1 : refPre env m1 q input with ⟨o', c0⟩
    simp only [hr1, Outcome.sim_parseError] at h3
    subst h3
    refine ⟨m1+1, ?_⟩
    simp only [refQ_succ_of_pre hres hr1, refAfter]; exact Outcome.sim_refl _
  | st st =>
    obtain ⟨m1, h3⟩ := hw (by simp)
    rcases hr1 : refPre env m1 q input with ⟨o', c0⟩
    simp only [hr1] at h3
    obtain ⟨st', rfl, hcore⟩ := Outcome.sim_st_left h3
    have hse := EState.core_isError hcore
    simp only
    rcases Bool.eq_false_or_eq_true st.isError with hserr | hserr
    rotate_left
    · -- successful predecessor: the last step
      have hserr' : st'.isError = false := by rw [← hse]; exact hserr
      rw [if_neg (by rw [hserr]; simp)]
      unfold evalPostO
      generalize hrem : q.preRem = r
      split
      · -- no step
        have href : (refQ env (m1+1) q raw extra input) =
            (.st { st' with query := q.encode Gen.escapeTable }, c0) := by
          simp only [refQ_succ_of_pre hres hr1, refAfter, hserr', Bool.false_eq_true, if_false, hrem, refPost,
            List.append_nil]
        exact fun _ hSG => ⟨hSG, fun _ => sim_at (m1+1) href (core_setQuery hcore _)⟩
      · -- file name
        next hd f =>
        have href : (refQ env (m1+1) q raw extra input) =
            (.st { st' with filename := some f, extension := some (extensionOf f), query := q.encode Gen.escapeTable },
              c0) := by
          simp only [refQ_succ_of_pre hres hr1, refAfter, hserr', Bool.false_eq_true, if_false, hrem, refPost,
            List.append_nil]
        have hcore2 := core_file hcore f (q.encode Gen.escapeTable)
        refine fun _ hSG => ⟨(hSG.metaIf _ _ _).fileWO _ _ _ ?_, fun _ => sim_at (m1+1) href (hcore2)⟩
        intro hu hv hc
        have hin := huc hu; subst hin
        exact store_okO (hcanon q hCq).2 (by rw [href]) _ hcore2 hserr hv hc rfl
      · -- action
        next hd a =>
        obtain ⟨p0, hp0⟩ := Query.preRem_some hrem
        obtain ⟨hL, hSub⟩ := hC.act q p0 hd a hCq hp0
        have h2 := ih.act w1 st a raw q.preParent extra uc hW1 hs1 hL hSub
        rcases hact : evalActionO env n w1 st a raw q.preParent extra uc with ⟨w2, o2⟩
        rw [hact] at h2
        simp only
        -- the reference side at a common fuel
        have key : ∀ m2, Outcome.sim o2 (refAction env m2 st a raw q.preParent extra).1 → o2 ≠ .unmodelled →
            ∃ M o2' c2, Outcome.sim o2 o2' ∧
            refPre env M q input = (.st st', c0) ∧ refAction env M st' a raw q.preParent extra = (o2', c2) := by
          intro m2 g3 hne
          simp only [refAction_core env m2 hcore] at g3
          refine ⟨max m1 m2, (refAction env m2 st' a raw q.preParent extra).1,
            (refAction env m2 st' a raw q.preParent extra).2, g3, ?_, ?_⟩
          · rw [refPre_mono_le env (Nat.le_max_left m1 m2) q input (by rw [hr1]; simp), hr1]
          · rw [refAction_mono_le env (Nat.le_max_right m1 m2) st' a raw q.preParent extra
              (Outcome.sim_ne_unmodelled g3 hne)]
        cases o2 with
        | unmodelled => exact fun hG hSG => ⟨(h2 hG hSG).1, by simp⟩
        | raised x y =>
          intro hG hSG
          obtain ⟨hSG2, hw2⟩ := h2 hG hSG
          refine ⟨hSG2, fun _ => ?_⟩
          obtain ⟨m2, g3⟩ := hw2 (by simp)
          obtain ⟨M, o2', c2, g3, hpM, haM⟩ := key m2 g3 (by simp)
          simp only [Outcome.sim_raised] at g3; subst g3
          refine ⟨M+1, ?_⟩
          simp only [refQ_succ_of_pre hres hpM, refAfter, hserr', Bool.false_eq_true, if_false, hrem, refPost, haM]
          exact Outcome.sim_refl _
        | parseError =>
          intro hG hSG
          obtain ⟨hSG2, hw2⟩ := h2 hG hSG
          refine ⟨hSG2, fun _ => ?_⟩
          obtain ⟨m2, g3⟩ := hw2 (by simp)
          obtain ⟨M, o2', c2, g3, hpM, haM⟩ := key m2 g3 (by simp)
          simp only [Outcome.sim_parseError] at g3; subst g3
          refine ⟨M+1, ?_⟩
          simp only [refQ_succ_of_pre hres hpM, refAfter, hserr', Bool.false_eq_true, if_false, hrem, refPost, haM]
          exact Outcome.sim_refl _
        | st st2 =>
          intro hG hSG
          obtain ⟨hSG2, hw2⟩ := h2 (hG.mono (Quiet.admitWO _ _ _ _).prefix) hSG
          obtain ⟨m2, g3⟩ := hw2 (by simp)
          obtain ⟨M, o2', c2, g3, hpM, haM⟩ := key m2 g3 (by simp)
          obtain ⟨st2', rfl, hcore2⟩ := Outcome.sim_st_left g3
          have href : (refQ env (M+1) q raw extra input) =
              (.st { st2' with query := q.encode Gen.escapeTable }, c0 ++ c2) := by
            simp only [refQ_succ_of_pre hres hpM, refAfter, hserr', Bool.false_eq_true, if_false, hrem, refPost, haM]
          have hcore3 := core_setQuery hcore2 (q.encode Gen.escapeTable)
          refine ⟨hSG2.admitWO _ _ _ ?_, fun _ => sim_at (M+1) href (hcore3)⟩
          intro hu he hv hc
          have hin := huc hu; subst hin
          exact store_okO (hcanon q hCq).2 (by rw [href]) _ hcore3 he hv hc rfl
      · exact RefO.ret _ _
    · -- failed predecessor: propagated
      have hserr' : st'.isError = true := by rw [← hse]; exact hserr
      rw [if_pos hserr]
      have href : (refQ env (m1+1) q raw extra input) =
          (.st { st' with data := .none, query := q.encode Gen.escapeTable }, c0) := by
        simp only [refQ_succ_of_pre hres hr1, refAfter, hserr', if_true, List.append_nil]
      exact fun _ hSG => ⟨hSG.metaIf _ _ _, fun _ => sim_at (m1+1) href (core_propagate hcore _)⟩

theorem miss_refO {env : Env} {C : Query → Prop} {T : Str → Prop} {A0 : List (Option EState)} {n : Nat}
    (hC : Closed env C T) (hcanon : ∀ q, C q → CanonOK env q) (ih : RefAtO env C T A0 n) (w : OW) (q : Query)
    (raw : Str) (extra : Extra) (input : Option Val) (uc : Bool) (hW : WFO A0 w) (hs : w.starved = false) (hCq : C q)
    (huc : uc = true → input = none) :
    RefO env A0 w (evalMissO env n w q raw extra input uc) (fun m => refQ env m q raw extra input) := by
  unfold evalMissO
  split
  · exact RefO.ret _ _
  · next hres =>
    have hres : q.isRes = false := by simpa using hres
    have h1 := pre_refO hC ih w q raw input uc hW hs hCq huc
    have f1 := pre_frameO (frameO env n) w q raw input uc
    rcases hpre : evalPreO env n w q raw input uc with ⟨w1, o⟩
    rw [hpre] at h1 f1
    simp only
    by_cases ho : o = .unmodelled
    · subst ho
      exact fun hG hSG => ⟨(h1 hG hSG).1, by simp [evalAfterO]⟩
    · have f2 := after_frameO (frameO env n) w1 o q.preParent q.preRem (q.encode Gen.escapeTable) raw extra uc
      intro hG hSG
      obtain ⟨hSG1, hw⟩ := h1 (hG.mono f2.1) hSG
      exact after_refO hC hcanon ih w1 o q raw extra input uc (f1.2.1 A0 hW) (f1.ns hs ho) hCq huc hres
        (fun hne => hw hne) hG hSG1

theorem q_stepO {env : Env} {C : Query → Prop} {T : Str → Prop} {A0 : List (Option EState)} {n : Nat}
    (hC : Closed env C T) (hcanon : ∀ q, C q → CanonOK env q) (ih : RefAtO env C T A0 n) (w : OW) (q : Query)
    (raw : Str) (extra : Extra) (input : Option Val) (uc : Bool) (hW : WFO A0 w) (hs : w.starved = false) (hCq : C q)
    (huc : uc = true → input = none) :
    RefO env A0 w (evalQO env (n+1) w q raw extra input uc) (fun m => refQ env m q raw extra input) := by
  rw [evalQO_succ']
  have hwa := OW.askIf_wfo hW (extra.isEmpty && input.isNone && uc) (q.encode Gen.escapeTable)
  have hsg := fun (h : SG env w) => h.askIf (extra.isEmpty && input.isNone && uc) (q.encode Gen.escapeTable)
  have hhit := fun st => askIf_hit (env := env) (c := extra.isEmpty && input.isNone && uc) (k := q.encode Gen.escapeTable)
    (st := st) hW hs
  generalize w.askIf (extra.isEmpty && input.isNone && uc) (q.encode Gen.escapeTable) = a at hwa hsg hhit ⊢
  split
  · exact fun _ hSG => ⟨hsg hSG, by simp⟩
  · next hsa =>
    have hsa : a.1.starved = false := by simpa using hsa
    split
    · next st hst =>
      -- cache hit: the answer is good for the key, `CanonHit` gives the reference value of the query
      intro hG hSG
      refine ⟨hsg hSG, fun _ => ?_⟩
      obtain ⟨hcond, fuel, st', c, hrt, he, hv, hc, hcore⟩ := hhit st hst hG
      simp only [Bool.and_eq_true] at hcond
      obtain ⟨⟨hxe, hin⟩, _⟩ := hcond
      have hin : input = none := by cases input <;> simp_all
      subst hin
      obtain ⟨fuel', st'', c', hrq, hcore'⟩ := (hcanon q hCq).1 fuel st' c hrt he
      have he'' : st''.isError = false := by rw [← EState.core_isError hcore']; exact he
      have := refQ_good_indep' env raw fuel' q _ extra none st'' (by rw [hrq]) he'' hxe
      refine ⟨fuel', ?_⟩
      simp only [this, hrq]; exact hcore.trans hcore'
    · intro hG hSG
      exact miss_refO hC hcanon ih a.1 q raw extra input uc hwa hsa hCq huc hG (hsg hSG)

/-! ### the refinement theorem -/

theorem refAtO_zero (env : Env) (C : Query → Prop) (T : Str → Prop) (A0 : List (Option EState)) : RefAtO env C T A0 0 where
  text := fun w t ug _ _ _ => by rw [evalTextO_zero]; exact RefO.ret _ _
  q := fun w q raw extra input uc _ _ _ _ => by rw [evalQO_zero]; exact RefO.ret _ _
  act := fun w st a raw parent extra uc _ _ _ _ => by rw [evalActionO_zero]; exact RefO.ret _ _
  params := fun w ps raw parent _ _ _ => by rw [evalParamsO_zero]; exact fun _ h => ⟨h, by simp⟩

/-- R-eval for the oracle evaluator: for every fuel, all four functions refine their reference counterparts as long as the
answers they consume are good -/
theorem refinesO {env : Env} {C : Query → Prop} {T : Str → Prop} (hC : Closed env C T)
    (hcanon : ∀ q, C q → CanonOK env q) (A0 : List (Option EState)) :
    ∀ n, RefAtO env C T A0 n
  | 0 => refAtO_zero env C T A0
  | n + 1 =>
    have ih := refinesO hC hcanon A0 n
    { text := fun w t ug hW hs hT => text_stepO hC ih w t ug hW hs hT
      q := fun w q raw extra input uc hW hs hCq huc => q_stepO hC hcanon ih w q raw extra input uc hW hs hCq huc
      act := fun w st a raw parent extra uc hW hs hL hSub => act_stepO ih w st a raw parent extra uc hW hs hL hSub
      params := fun w ps raw parent hW hs hL => params_stepO ih w ps raw parent hW hs hL }

/-- the query-level statement, from a fresh oracle world: if the answers consumed are good for the keys asked, every
operation of the trace is harmless, and a modelled outcome of a run that did not starve is similar to the reference
interpretation -/
theorem evalQO_refines {env : Env} {C : Query → Prop} {T : Str → Prop} (hC : Closed env C T)
    (hcanon : ∀ q, C q → CanonOK env q) (n : Nat) (A : List (Option EState)) (q : Query) (raw : Str) (hCq : C q)
    (hG : GoodPairs env (evalQO env n { answers := A } q raw .none none true).1.trace A) :
    StoresGood env (evalQO env n { answers := A } q raw .none none true).1.trace ∧
    ((evalQO env n { answers := A } q raw .none none true).2 ≠ .unmodelled →
      ∃ m, Outcome.sim (evalQO env n { answers := A } q raw .none none true).2 (refQ env m q raw .none none).1) :=
  (refinesO hC hcanon A n).q { answers := A } q raw .none none true (WFO.init A) rfl hCq (fun _ => rfl) hG
    (fun _ h => by simp at h)

end Liquer
