/-
C02 helper lemmas, part 1: white space, literals, character classes and regular-expression terminals
of the PEG model (`LiquerModel/Parse.lean`).
-/
import LiquerModel.WF
import LiquerProofs.Lemmas.Text

namespace Liquer
open PS

/-! ### white space -/

/-- the text contains no white-space character (so `skipWs` is the identity on every suffix) -/
def NoWs (s : Str) : Prop := ∀ c ∈ s, isWhite c = false

theorem NoWs.nil : NoWs [] := by intro c h; simp at h

theorem NoWs.append {a b : Str} (ha : NoWs a) (hb : NoWs b) : NoWs (a ++ b) := by
  intro c hc
  rcases List.mem_append.mp hc with h | h
  · exact ha c h
  · exact hb c h

theorem NoWs.left {a b : Str} (h : NoWs (a ++ b)) : NoWs a :=
  fun c hc => h c (List.mem_append_left _ hc)

theorem NoWs.right {a b : Str} (h : NoWs (a ++ b)) : NoWs b :=
  fun c hc => h c (List.mem_append_right _ hc)

theorem NoWs.cons {c : Char} {a : Str} (hc : isWhite c = false) (ha : NoWs a) : NoWs (c :: a) := by
  intro x hx
  rcases List.mem_cons.mp hx with rfl | h
  · exact hc
  · exact ha x h

theorem NoWs.tail {c : Char} {a : Str} (h : NoWs (c :: a)) : NoWs a :=
  fun x hx => h x (List.mem_cons_of_mem _ hx)

theorem NoWs.head {c : Char} {a : Str} (h : NoWs (c :: a)) : isWhite c = false :=
  h c List.mem_cons_self

theorem NoWs.drop {a : Str} (h : NoWs a) (n : Nat) : NoWs (a.drop n) :=
  fun x hx => h x (List.mem_of_mem_drop hx)

theorem skipWs_noWs {r : Str} {p : Nat} (h : NoWs r) : (⟨r, p⟩ : PS).skipWs = ⟨r, p⟩ := by
  cases r with
  | nil => simp [skipWs]
  | cons c t =>
    have hc := h.head
    simp [skipWs, List.takeWhile, hc]

theorem lit_noWs {l r : Str} {p : Nat} (h : NoWs r) :
    lit l ⟨r, p⟩ = if isPrefix l r then some ⟨r.drop l.length, p + l.length⟩ else none := by
  simp only [lit, skipWs_noWs h]

theorem lit_append {l r : Str} {p : Nat} (h : NoWs (l ++ r)) :
    lit l ⟨l ++ r, p⟩ = some ⟨r, p + l.length⟩ := by
  rw [lit_noWs h]
  have : isPrefix l (l ++ r) = true := (isPrefix_iff _ _).mpr ⟨r, rfl⟩
  simp [this]

theorem lit_cons {c : Char} {r : Str} {p : Nat} (h : NoWs (c :: r)) :
    lit [c] ⟨c :: r, p⟩ = some ⟨r, p + 1⟩ := by
  have := lit_append (l := [c]) (r := r) (p := p) h
  simpa using this

theorem lit_nil_input {l : Str} {p : Nat} (hl : l ≠ []) : lit l ⟨[], p⟩ = none := by
  rw [lit_noWs NoWs.nil]
  cases l with
  | nil => exact absurd rfl hl
  | cons a l => simp [isPrefix]

theorem lit_ne_head {a c : Char} {l r : Str} {p : Nat} (h : NoWs (c :: r)) (hne : a ≠ c) :
    lit (a :: l) ⟨c :: r, p⟩ = none := by
  rw [lit_noWs h]
  simp [isPrefix, hne]

theorem atEnd_nil {p : Nat} : atEnd ⟨[], p⟩ = true := by
  simp [atEnd, skipWs_noWs NoWs.nil]

theorem atEnd_cons {c : Char} {r : Str} {p : Nat} (h : NoWs (c :: r)) : atEnd ⟨c :: r, p⟩ = false := by
  simp [atEnd, skipWs_noWs h]

/-! ### character classes -/

/-- the text is empty or begins with a character outside the class -/
def stopAt (rs : List (Nat × Nat)) : Str → Bool
  | [] => true
  | c :: _ => !inRanges rs c

theorem takeClass_zero (rs : List (Nat × Nat)) (s : Str) : takeClass rs (some 0) s = ([], s) := by
  cases s <;> simp [takeClass]

theorem takeClass_nil (rs : List (Nat × Nat)) (lim : Option Nat) : takeClass rs lim [] = ([], []) := by
  rcases lim with _ | _ | k <;> simp [takeClass]

theorem takeClass_cons_none (rs : List (Nat × Nat)) (c : Char) (cs : Str) :
    takeClass rs none (c :: cs) =
      if inRanges rs c then (c :: (takeClass rs none cs).1, (takeClass rs none cs).2) else ([], c :: cs) := by
  simp [takeClass]

theorem takeClass_cons_succ (rs : List (Nat × Nat)) (k : Nat) (c : Char) (cs : Str) :
    takeClass rs (some (k + 1)) (c :: cs) =
      if inRanges rs c then (c :: (takeClass rs (some k) cs).1, (takeClass rs (some k) cs).2)
      else ([], c :: cs) := by
  simp [takeClass]

/-- the scan of `s` is not disturbed by appending a text that stops the class -/
theorem takeClass_append (rs : List (Nat × Nat)) (rest : Str) (hstop : stopAt rs rest = true) :
    ∀ (s : Str) (lim : Option Nat),
      takeClass rs lim (s ++ rest) = ((takeClass rs lim s).1, (takeClass rs lim s).2 ++ rest) := by
  intro s
  induction s with
  | nil =>
    intro lim
    rw [takeClass_nil]
    rcases lim with _ | _ | k
    · cases rest with
      | nil => simp [takeClass_nil]
      | cons c t =>
        simp only [stopAt, Bool.not_eq_true'] at hstop
        simp [takeClass_cons_none, hstop]
    · simp [takeClass_zero]
    · cases rest with
      | nil => simp [takeClass_nil]
      | cons c t =>
        simp only [stopAt, Bool.not_eq_true'] at hstop
        simp [takeClass_cons_succ, hstop]
  | cons c cs ih =>
    intro lim
    rcases lim with _ | _ | k
    · simp only [List.cons_append, takeClass_cons_none]
      split
      · rw [ih]
      · rfl
    · simp [takeClass_zero]
    · simp only [List.cons_append, takeClass_cons_succ]
      split
      · rw [ih]
      · rfl

/-- what `takeClass` returns -/
theorem takeClass_spec (rs : List (Nat × Nat)) :
    ∀ (s : Str) (lim : Option Nat),
      s = (takeClass rs lim s).1 ++ (takeClass rs lim s).2 ∧
      (∀ c ∈ (takeClass rs lim s).1, inRanges rs c = true) ∧
      (∀ k, lim = some k → (takeClass rs lim s).1.length ≤ k) := by
  intro s
  induction s with
  | nil => intro lim; simp [takeClass_nil]
  | cons c cs ih =>
    intro lim
    rcases lim with _ | _ | k
    · rw [takeClass_cons_none]
      split
      next hc =>
        obtain ⟨h1, h2, _⟩ := ih none
        refine ⟨by simp only [List.cons_append]; rw [← h1], ?_, by simp⟩
        intro x hx
        rcases List.mem_cons.mp hx with rfl | hx
        · exact hc
        · exact h2 x hx
      · simp
    · simp [takeClass_zero]
    · rw [takeClass_cons_succ]
      split
      next hc =>
        obtain ⟨h1, h2, h3⟩ := ih (some k)
        refine ⟨by simp only [List.cons_append]; rw [← h1], ?_, ?_⟩
        · intro x hx
          rcases List.mem_cons.mp hx with rfl | hx
          · exact hc
          · exact h2 x hx
        · intro k' hk'
          simp only [Option.some.injEq] at hk'
          have := h3 k rfl
          simp only [List.length_cons]; omega
      · simp

/-- a run of class characters followed by a stopping text is taken exactly -/
theorem takeClass_run (rs : List (Nat × Nat)) (rest : Str) :
    ∀ (m : Str) (lim : Option Nat), (∀ c ∈ m, inRanges rs c = true) →
      (∀ k, lim = some k → m.length ≤ k) →
      (lim = some m.length ∨ stopAt rs rest = true) →
      takeClass rs lim (m ++ rest) = (m, rest) := by
  intro m
  induction m with
  | nil =>
    intro lim _ _ hstop
    rcases lim with _ | _ | k
    · cases rest with
      | nil => simp [takeClass_nil]
      | cons c t =>
        rcases hstop with h | h
        · simp at h
        · simp only [stopAt, Bool.not_eq_true'] at h
          simp [takeClass_cons_none, h]
    · simp [takeClass_zero]
    · cases rest with
      | nil => simp [takeClass_nil]
      | cons c t =>
        rcases hstop with h | h
        · simp at h
        · simp only [stopAt, Bool.not_eq_true'] at h
          simp [takeClass_cons_succ, h]
  | cons c cs ih =>
    intro lim hm hl hstop
    have hc := hm c List.mem_cons_self
    have hm' : ∀ x ∈ cs, inRanges rs x = true := fun x hx => hm x (List.mem_cons_of_mem _ hx)
    rcases lim with _ | _ | k
    · have hs : (none : Option Nat) = some cs.length ∨ stopAt rs rest = true := by
        rcases hstop with h | h
        · simp at h
        · exact Or.inr h
      simp only [List.cons_append, takeClass_cons_none, hc, ↓reduceIte]
      rw [ih none hm' (by simp) hs]
    · have := hl 0 rfl
      simp at this
    · have hl' : ∀ k', some k = some k' → cs.length ≤ k' := by
        intro k' hk'
        simp only [Option.some.injEq] at hk'
        have := hl _ rfl
        simp only [List.length_cons] at this; omega
      have hs : some k = some cs.length ∨ stopAt rs rest = true := by
        rcases hstop with h | h
        · left; simp only [Option.some.injEq, List.length_cons] at h; simp; omega
        · exact Or.inr h
      simp only [List.cons_append, takeClass_cons_succ, hc, ↓reduceIte]
      rw [ih (some k) hm' hl' hs]

/-! ### regular expressions -/

theorem matchRe_nil (s : Str) : matchRe [] s = some ([], s) := rfl

theorem matchRe_cons (it : ReItem) (its : Re) (s : Str) :
    matchRe (it :: its) s =
      if (takeClass it.ranges it.max s).1.length < it.min then none
      else match matchRe its (takeClass it.ranges it.max s).2 with
        | none => none
        | some (m2, r2) => some ((takeClass it.ranges it.max s).1 ++ m2, r2) := by
  simp only [matchRe]
  rfl

/-- the matched text and the remainder make up the input -/
theorem matchRe_eq : ∀ (r : Re) (s m t : Str), matchRe r s = some (m, t) → s = m ++ t := by
  intro r
  induction r with
  | nil => intro s m t h; simp only [matchRe_nil, Option.some.injEq, Prod.mk.injEq] at h; simp [← h.1, h.2]
  | cons it its ih =>
    intro s m t h
    rw [matchRe_cons] at h
    split at h
    · simp at h
    · cases hm : matchRe its (takeClass it.ranges it.max s).2 with
      | none => simp [hm] at h
      | some mr =>
        obtain ⟨m2, r2⟩ := mr
        simp only [hm, Option.some.injEq, Prod.mk.injEq] at h
        have h1 := (takeClass_spec it.ranges s it.max).1
        have h2 := ih _ _ _ hm
        rw [← h.1, ← h.2, List.append_assoc, ← h2, ← h1]

/-- every character of the matched text is in one of the classes of the expression -/
theorem matchRe_mem : ∀ (r : Re) (s m t : Str), matchRe r s = some (m, t) →
    ∀ c ∈ m, ∃ it ∈ r, inRanges it.ranges c = true := by
  intro r
  induction r with
  | nil => intro s m t h c hc; simp only [matchRe_nil, Option.some.injEq, Prod.mk.injEq] at h; simp [← h.1] at hc
  | cons it its ih =>
    intro s m t h c hc
    rw [matchRe_cons] at h
    split at h
    · simp at h
    · cases hm : matchRe its (takeClass it.ranges it.max s).2 with
      | none => simp [hm] at h
      | some mr =>
        obtain ⟨m2, r2⟩ := mr
        simp only [hm, Option.some.injEq, Prod.mk.injEq] at h
        rw [← h.1] at hc
        rcases List.mem_append.mp hc with hc | hc
        · exact ⟨it, List.mem_cons_self, (takeClass_spec it.ranges s it.max).2.1 c hc⟩
        · obtain ⟨it', h1, h2⟩ := ih _ _ _ hm c hc
          exact ⟨it', List.mem_cons_of_mem _ h1, h2⟩

/-- a full match of `name` is still the match when a text follows that no class of the expression
can continue -/
theorem matchRe_append : ∀ (r : Re) (name m rest : Str), matchRe r name = some (m, []) →
    (∀ it ∈ r, stopAt it.ranges rest = true) → matchRe r (name ++ rest) = some (name, rest) := by
  intro r
  induction r with
  | nil =>
    intro name m rest h _
    simp only [matchRe_nil, Option.some.injEq, Prod.mk.injEq] at h
    simp [matchRe_nil, h.2]
  | cons it its ih =>
    intro name m rest h hstop
    have heq := matchRe_eq _ _ _ _ h
    rw [matchRe_cons] at h ⊢
    rw [takeClass_append it.ranges rest (hstop it List.mem_cons_self)]
    split at h
    · simp at h
    next hmin =>
      simp only [hmin, ↓reduceIte]
      cases hm : matchRe its (takeClass it.ranges it.max name).2 with
      | none => simp [hm] at h
      | some mr =>
        obtain ⟨m2, r2⟩ := mr
        simp only [hm, Option.some.injEq, Prod.mk.injEq] at h
        obtain ⟨h1, rfl⟩ := h
        rw [ih _ _ rest hm (fun it' hi => hstop it' (List.mem_cons_of_mem _ hi))]
        simp only [Option.some.injEq, Prod.mk.injEq, and_true]
        exact ((takeClass_spec it.ranges name it.max).1).symm

theorem fullMatch_iff (r : Re) (s : Str) : fullMatch r s = true ↔ matchRe r s = some (s, []) := by
  unfold fullMatch
  constructor
  · intro h
    split at h
    next m hm =>
      have := matchRe_eq _ _ _ _ hm
      simp only [List.append_nil] at this
      rw [hm, this]
    · simp at h
  · intro h; simp [h]

/-- the terminal `Regex(r)` consumes exactly `name` -/
theorem re_append {r : Re} {name rest : Str} {p : Nat} (hf : fullMatch r name = true)
    (hstop : ∀ it ∈ r, stopAt it.ranges rest = true) (hws : NoWs (name ++ rest)) :
    PS.re r ⟨name ++ rest, p⟩ = some (name, ⟨rest, p + name.length⟩) := by
  simp only [PS.re, skipWs_noWs hws]
  rw [matchRe_append r name name rest ((fullMatch_iff _ _).mp hf) hstop]

theorem re_noWs {r : Re} {s : Str} {p : Nat} (hws : NoWs s) :
    PS.re r ⟨s, p⟩ = match matchRe r s with
      | some (m, rest) => some (m, ⟨rest, p + m.length⟩)
      | none => none := by
  simp only [PS.re, skipWs_noWs hws]
  rfl

/-- a terminal whose first item needs at least one character of a class fails on a text that stops it -/
theorem matchRe_fail_first {it : ReItem} {its : Re} {s : Str} (hmin : 1 ≤ it.min)
    (hs : stopAt it.ranges s = true) : matchRe (it :: its) s = none := by
  rw [matchRe_cons]
  have : (takeClass it.ranges it.max s).1 = [] := by
    have := takeClass_run it.ranges s [] it.max (by simp) (by simp) (Or.inr hs)
    simp only [List.nil_append] at this
    rw [this]
  rw [this]
  simp only [List.length_nil]
  rw [if_pos (by omega)]

theorem fullMatch_mem {r : Re} {s : Str} (h : fullMatch r s = true) :
    ∀ c ∈ s, ∃ it ∈ r, inRanges it.ranges c = true :=
  matchRe_mem r s s [] ((fullMatch_iff _ _).mp h)

end Liquer
