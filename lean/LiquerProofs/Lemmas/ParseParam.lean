import LiquerProofs.Lemmas.ParseBasics
import LiquerProofs.Lemmas.TokenSafe
import LiquerProofs.Inst.Grammar
import LiquerProofs.Inst.EscapeTable

/-!
C02 helper lemmas, part 2: a string parameter. The canonical text `encodeToken s` followed by a
delimiter is consumed by the piece loop of `parameter`, and the collected raw text unquotes to `s`.
-/

namespace Liquer
open PS

/-! ### single pieces -/

theorem parseEntity_noWs {r : Str} {p : Nat} (h : NoWs r) :
    parseEntity ⟨r, p⟩ = match Gen.entityTable.find? (fun e => isPrefix e.1 r) with
      | some e => some (e.2, ⟨r.drop e.1.length, p + e.1.length⟩)
      | none => none := by
  simp only [parseEntity, skipWs_noWs h]
  rfl

theorem find?_congr' {α} {p q : α → Bool} : ∀ {l : List α}, (∀ x ∈ l, p x = q x) → l.find? p = l.find? q := by
  intro l
  induction l with
  | nil => intro _; rfl
  | cons a l ih =>
    intro h
    simp only [List.find?_cons, h a List.mem_cons_self]
    rw [ih (fun x hx => h x (List.mem_cons_of_mem _ hx))]

theorem isPrefix_len2 {l : Str} (hl : l.length = 2) (a b : Char) (t : Str) :
    isPrefix l (a :: b :: t) = isPrefix l [a, b] := by
  match l, hl with
  | [x, y], _ => simp [isPrefix]

theorem re_pt_noWs {r : Str} {p : Nat} (h : NoWs r) :
    PS.re Gen.parameterTextRe ⟨r, p⟩ =
      if (takeClass Inst.ptR none r).1.length < 1 then none
      else some ((takeClass Inst.ptR none r).1, ⟨(takeClass Inst.ptR none r).2, p + (takeClass Inst.ptR none r).1.length⟩) := by
  rw [re_noWs h, Inst.parameterText_shape, matchRe_cons]
  simp only [matchRe_nil, List.append_nil]
  by_cases hl : (takeClass Inst.ptR none r).1.length < 1
  · simp [hl]
  · simp [hl]

/-- (A) a run of parameter text -/
theorem piece_text {c : Char} {cs : Str} {p : Nat} (h : NoWs (c :: cs)) (hc : inRanges Inst.ptR c = true) :
    parseParamPiece ⟨c :: cs, p⟩ =
      some (c :: (takeClass Inst.ptR none cs).1,
        ⟨(takeClass Inst.ptR none cs).2, p + ((takeClass Inst.ptR none cs).1.length + 1)⟩) := by
  simp only [parseParamPiece, re_pt_noWs h, takeClass_cons_none, hc, ↓reduceIte, List.length_cons]
  simp


theorem pt_excl {c : Char} (hc : c = '%' ∨ c = '-' ∨ c = '/' ∨ c = '~') : inRanges Inst.ptR c = false := by
  have := Inst.parameterText_stops
  rw [Inst.parameterText_shape] at this
  simp only [Inst.delims, Inst.excl, List.all_cons, List.all_nil, Bool.and_true, Bool.and_eq_true,
    Bool.not_eq_true'] at this
  rcases hc with rfl | rfl | rfl | rfl
  · exact this.1
  · exact this.2.1
  · exact this.2.2.1
  · exact this.2.2.2

theorem entity_literal {e : Str × Str} (he : e ∈ Gen.entityTable) : ∃ x, e.1 = ['~', x] := by
  have := List.all_eq_true.mp Inst.entity_literals e he
  simp only [Bool.and_eq_true, beq_iff_eq] at this
  obtain ⟨h1, h2⟩ := this
  match h : e.1, h1, h2 with
  | [a, b], _, h2 => simp only [List.head?_cons, Option.some.injEq] at h2; exact ⟨b, by rw [h2]⟩

theorem entity_none_of_head {c : Char} (t : Str) (hc : c ≠ '~') :
    Gen.entityTable.find? (fun e => isPrefix e.1 (c :: t)) = none := by
  rw [List.find?_eq_none]
  intro e he
  obtain ⟨x, hx⟩ := entity_literal he
  simp [hx, isPrefix, Ne.symm hc]

theorem entity_none_nil : Gen.entityTable.find? (fun e => isPrefix e.1 []) = none := by
  rw [List.find?_eq_none]
  intro e he
  obtain ⟨x, hx⟩ := entity_literal he
  simp [hx, isPrefix]

theorem takeClass_cons_one (rs : List (Nat × Nat)) (c : Char) (cs : Str) :
    takeClass rs (some 1) (c :: cs) = if inRanges rs c then ([c], cs) else ([], c :: cs) := by
  have := takeClass_cons_succ rs 0 c cs
  simp only [Nat.zero_add, takeClass_zero] at this
  exact this

/-- (B) a percent escape -/
theorem piece_pct {a b : Char} {t : Str} {p : Nat} (h : NoWs ('%' :: a :: b :: t))
    (ha : inRanges Inst.hexR a = true) (hb : inRanges Inst.hexR b = true) :
    parseParamPiece ⟨'%' :: a :: b :: t, p⟩ = some (['%', a, b], ⟨t, p + 3⟩) := by
  have h37 : inRanges [(37, 37)] '%' = true := by decide
  have h1 : PS.re Gen.parameterTextRe ⟨'%' :: a :: b :: t, p⟩ = none := by
    simp [re_pt_noWs h, takeClass_cons_none, pt_excl (Or.inl rfl)]
  have h2 : parseEntity ⟨'%' :: a :: b :: t, p⟩ = none := by
    simp [parseEntity_noWs h, entity_none_of_head _ (by decide : '%' ≠ '~')]
  simp only [parseParamPiece, h1, h2, re_noWs h, Inst.percentEncoding_shape, matchRe_cons, matchRe_nil,
    takeClass_cons_one, h37]
  simp [takeClass_cons_one, ha, hb]


theorem escape_code {pe : Str × Str} (he : pe ∈ Gen.escapeTable) :
    ∃ y, pe.2 = ['~', y] ∧ y ≠ 'X' ∧
      Gen.entityTable.find? (fun e => isPrefix e.1 ['~', y]) = some (['~', y], pe.1) := by
  have := List.all_eq_true.mp Inst.entity_inverts_escape pe he
  simp only [Bool.and_eq_true, beq_iff_eq, Bool.not_eq_true'] at this
  obtain ⟨⟨h1, h2⟩, h3⟩ := this
  obtain ⟨e, he1, he2⟩ : ∃ e ∈ Gen.entityTable, e = (pe.2, pe.1) := by
    have := List.mem_of_find?_eq_some h1
    exact ⟨_, this, rfl⟩
  obtain ⟨x, hx⟩ := entity_literal he1
  rw [he2] at hx
  simp only at hx
  refine ⟨x, hx, ?_, by rw [← hx]; exact h1⟩
  rintro rfl
  rw [hx, Inst.link_shape.1] at h3
  simp [isPrefix] at h3

/-- (C) an entity -/
theorem piece_entity {pat : Str} {y : Char} {t : Str} {p : Nat} (h : NoWs ('~' :: y :: t))
    (he : (pat, ['~', y]) ∈ Gen.escapeTable) :
    parseParamPiece ⟨'~' :: y :: t, p⟩ = some (pat, ⟨t, p + 2⟩) := by
  have h1 : PS.re Gen.parameterTextRe ⟨'~' :: y :: t, p⟩ = none := by
    simp [re_pt_noWs h, takeClass_cons_none, pt_excl (Or.inr (Or.inr (Or.inr rfl)))]
  obtain ⟨y', hy, _, hf⟩ := escape_code he
  simp only [List.cons.injEq, and_true, true_and] at hy
  subst hy
  have h2 : Gen.entityTable.find? (fun e => isPrefix e.1 ('~' :: y :: t)) = some (['~', y], pat) := by
    rw [← hf]
    apply find?_congr'
    intro e he
    obtain ⟨x, hx⟩ := entity_literal he
    rw [isPrefix_len2 (by rw [hx]; rfl)]
  simp [parseParamPiece, h1, parseEntity_noWs h, h2]

/-- what may follow a parameter: nothing, the next parameter, the next action or segment, the end of a link -/
def pieceStop (r : Str) : Bool :=
  r.isEmpty || r.head? == some '-' || r.head? == some '/' || isPrefix ['~', 'E'] r

theorem pieceStop_cases {r : Str} (h : pieceStop r = true) :
    r = [] ∨ (∃ t, r = '-' :: t) ∨ (∃ t, r = '/' :: t) ∨ (∃ t, r = '~' :: 'E' :: t) := by
  simp only [pieceStop, Bool.or_eq_true, beq_iff_eq] at h
  rcases h with ((h | h) | h) | h
  · left; simpa using h
  · right; left
    cases r with
    | nil => simp at h
    | cons c t => simp only [List.head?_cons, Option.some.injEq] at h; exact ⟨t, by rw [h]⟩
  · right; right; left
    cases r with
    | nil => simp at h
    | cons c t => simp only [List.head?_cons, Option.some.injEq] at h; exact ⟨t, by rw [h]⟩
  · right; right; right
    obtain ⟨t, ht⟩ := (isPrefix_iff _ _).mp h
    exact ⟨t, ht⟩

/-- (D) the piece loop stops -/
theorem piece_stop {r : Str} {p : Nat} (h : NoWs r) (hs : pieceStop r = true) :
    parseParamPiece ⟨r, p⟩ = none := by
  have hpct : ∀ c : Char, (c = '-' ∨ c = '/' ∨ c = '~') → inRanges [(37, 37)] c = false := by
    rintro c (rfl | rfl | rfl) <;> decide
  rcases pieceStop_cases hs with rfl | ⟨t, rfl⟩ | ⟨t, rfl⟩ | ⟨t, rfl⟩
  · simp [parseParamPiece, re_pt_noWs h, takeClass_nil, parseEntity_noWs h, entity_none_nil, re_noWs h,
      Inst.percentEncoding_shape, matchRe_cons]
  · simp [parseParamPiece, re_pt_noWs h, takeClass_cons_none, pt_excl (Or.inr (Or.inl rfl)),
      parseEntity_noWs h, entity_none_of_head _ (by decide : '-' ≠ '~'), re_noWs h,
      Inst.percentEncoding_shape, matchRe_cons, takeClass_cons_one, hpct]
  · simp [parseParamPiece, re_pt_noWs h, takeClass_cons_none, pt_excl (Or.inr (Or.inr (Or.inl rfl))),
      parseEntity_noWs h, entity_none_of_head _ (by decide : '/' ≠ '~'), re_noWs h,
      Inst.percentEncoding_shape, matchRe_cons, takeClass_cons_one, hpct]
  · have h2 : Gen.entityTable.find? (fun e => isPrefix e.1 ('~' :: 'E' :: t)) = none := by
      rw [List.find?_eq_none]
      intro e he
      obtain ⟨x, hx⟩ := entity_literal he
      have := List.all_eq_true.mp Inst.linkClose_not_entity e he
      rw [Inst.link_shape.2] at this
      rw [isPrefix_len2 (by rw [hx]; rfl)]
      simpa using this
    simp [parseParamPiece, re_pt_noWs h, takeClass_cons_none, pt_excl (Or.inr (Or.inr (Or.inr rfl))),
      parseEntity_noWs h, h2, re_noWs h,
      Inst.percentEncoding_shape, matchRe_cons, takeClass_cons_one, hpct]


/-! ### the piece loop -/

theorem parseParamPieces_succ (n : Nat) (s : PS) :
    parseParamPieces (n + 1) s = match parseParamPiece s with
      | none => ([], s)
      | some (t, s1) =>
        if s1.rest.length < s.rest.length then
          (t ++ (parseParamPieces n s1).1, (parseParamPieces n s1).2)
        else ([], s) := by
  simp only [parseParamPieces]
  rfl

theorem parseParamPieces_fuel : ∀ (n m : Nat) (s : PS), s.rest.length ≤ n → s.rest.length ≤ m →
    parseParamPieces n s = parseParamPieces m s := by
  intro n
  induction n with
  | zero =>
    intro m s hn _
    cases m with
    | zero => rfl
    | succ m =>
      rw [parseParamPieces_succ]
      simp only [parseParamPieces]
      split
      · rfl
      · rw [if_neg (by omega)]
  | succ n ih =>
    intro m s hn hm
    cases m with
    | zero =>
      rw [parseParamPieces_succ]
      simp only [parseParamPieces]
      split
      · rfl
      · rw [if_neg (by omega)]
    | succ m =>
      rw [parseParamPieces_succ, parseParamPieces_succ]
      split
      · rfl
      next t s1 _ =>
        split
        next hlt => rw [ih m s1 (by omega) (by omega)]
        · rfl

/-- one piece `X` is consumed, the loop goes on behind it -/
theorem pieces_step {X R t : Str} {p p1 n : Nat}
    (hp : parseParamPiece ⟨X ++ R, p⟩ = some (t, ⟨R, p1⟩)) (hX : X ≠ [])
    (hn : (X ++ R).length ≤ n) :
    parseParamPieces n ⟨X ++ R, p⟩ =
      (t ++ (parseParamPieces R.length ⟨R, p1⟩).1, (parseParamPieces R.length ⟨R, p1⟩).2) := by
  have hpos : 0 < X.length := List.length_pos_iff.mpr hX
  cases n with
  | zero => simp only [List.length_append] at hn; omega
  | succ n =>
    rw [parseParamPieces_succ, hp]
    simp only [List.length_append] at hn ⊢
    rw [if_pos (by omega), parseParamPieces_fuel n R.length ⟨R, p1⟩ (by simp only; omega) (by simp)]

/-- a character of parameter text is consumed (possibly as part of a longer run) -/
theorem pieces_text {c : Char} {cs : Str} {p n : Nat} (h : NoWs (c :: cs))
    (hc : inRanges Inst.ptR c = true) (hn : (c :: cs).length ≤ n) :
    parseParamPieces n ⟨c :: cs, p⟩ =
      (c :: (parseParamPieces cs.length ⟨cs, p + 1⟩).1, (parseParamPieces cs.length ⟨cs, p + 1⟩).2) := by
  cases n with
  | zero => simp at hn
  | succ n =>
    simp only [List.length_cons] at hn
    have hspec := takeClass_spec Inst.ptR cs none
    rw [parseParamPieces_succ, piece_text h hc]
    simp only [List.length_cons]
    have hlen : (takeClass Inst.ptR none cs).2.length ≤ cs.length := by
      have := congrArg List.length hspec.1
      simp only [List.length_append] at this; omega
    rw [if_pos (by omega)]
    cases cs with
    | nil => simp [takeClass_nil, parseParamPieces_fuel n 0 ⟨[], p + 1⟩ (by simp) (by simp)]
    | cons c' cs' =>
      simp only [List.length_cons] at hn
      by_cases hc' : inRanges Inst.ptR c' = true
      · rw [takeClass_cons_none, if_pos hc']
        simp only [List.length_cons]
        rw [parseParamPieces_succ, piece_text h.tail hc']
        simp only [List.length_cons]
        have hlen' : (takeClass Inst.ptR none cs').2.length ≤ cs'.length := by
          have := congrArg List.length (takeClass_spec Inst.ptR cs' none).1
          simp only [List.length_append] at this; omega
        rw [if_pos (by omega)]
        have e : p + ((takeClass Inst.ptR none cs').1.length + 1 + 1) =
            p + 1 + ((takeClass Inst.ptR none cs').1.length + 1) := by omega
        rw [e, parseParamPieces_fuel n cs'.length _ (by simp only; omega) (by simp only; omega)]
        simp
      · have hc'' : inRanges Inst.ptR c' = false := by simpa using hc'
        rw [takeClass_cons_none, if_neg hc']
        simp only [List.length_nil, Nat.zero_add]
        rw [parseParamPieces_fuel n (c' :: cs').length _ (by simp only [List.length_cons]; omega)
          (by simp)]
        simp


/-! ### the raw text collected by the loop and its decoding -/

/-- what the piece loop collects for an item: entities are replaced by their pattern -/
def Item.raw : Item → Str
  | .lit c => quoteChar c
  | .ent p _ => p

def rawI (is : List Item) : Str := is.flatMap Item.raw

theorem rawI_cons (i : Item) (is : List Item) : rawI (i :: is) = i.raw ++ rawI is := by simp [rawI]

theorem unquoteBytes_plain_append (q rest : Str) (h : ∀ c ∈ q, isAscii c = true ∧ c ≠ '%') :
    unquoteBytes (q ++ rest) = q.flatMap String.utf8EncodeChar ++ unquoteBytes rest := by
  induction q with
  | nil => simp
  | cons c q ih =>
    have hc := h c List.mem_cons_self
    rw [List.cons_append, unquoteBytes_cons_ne hc.2, ih (fun c hc => h c (List.mem_cons_of_mem _ hc)),
      List.flatMap_cons, utf8_ascii hc.1]
    rfl

theorem unquoteBytes_rawI {tbl rest : EscTable} (hf : TableFacts tbl rest) :
    ∀ items : List Item, (∀ it ∈ items, it.good tbl []) →
      unquoteBytes (rawI items) = (valI items).flatMap String.utf8EncodeChar := by
  intro items
  induction items with
  | nil => intro _; simp [rawI, valI, unquoteBytes]
  | cons it items ih =>
    intro hg
    have ih := ih (fun it h => hg it (List.mem_cons_of_mem _ h))
    rw [rawI_cons, valI_cons, List.flatMap_append]
    cases it with
    | lit c => simp only [Item.raw, Item.val, unquoteBytes_quoteChar, ih]; simp
    | ent q y =>
      have hmem : (q, ['~', y]) ∈ tbl := (hg (Item.ent q y) List.mem_cons_self).1
      simp only [Item.raw, Item.val]
      rw [unquoteBytes_plain_append q _ (hf.plain _ hmem), ih]

theorem rawI_isAscii {tbl rest : EscTable} (hf : TableFacts tbl rest) (items : List Item)
    (hg : ∀ it ∈ items, it.good tbl []) : ∀ c ∈ rawI items, isAscii c = true := by
  intro c hc
  obtain ⟨it, hit, hc⟩ := List.mem_flatMap.mp hc
  cases it with
  | lit x => exact quoteChar_isAscii x c hc
  | ent q y => exact (hf.plain _ (hg _ hit).1 c hc).1

theorem unquote_rawI {tbl rest : EscTable} (hf : TableFacts tbl rest) {dec : List UInt8 → List Char}
    (hd : DecOK dec) (items : List Item) (hg : ∀ it ∈ items, it.good tbl []) :
    unquote dec (rawI items) = valI items := by
  rw [unquote_ascii hd _ (rawI_isAscii hf items hg), unquoteBytes_rawI hf items hg]
  exact hd _

/-! ### the loop on an encoded token -/

theorem ptR_of_safe {c : Char} (hq : quoteSafe c = true) (h1 : c ≠ '~') (h2 : c ≠ '/') (h3 : c ≠ '-') :
    inRanges Inst.ptR c = true := by
  have hlt : c.toNat < 128 := by simpa [isAscii] using quoteSafe_isAscii hq
  have := Inst.parameterText_covers ⟨c.toNat, hlt⟩
  simp only [Char.ofNat_toNat] at this
  apply this
  simp [tokSafe_of_quoteSafe hq h2 h3, quoteSafe_ne_pct hq, h1]

theorem hexR_hexDigitUpper {n : Nat} (h : n < 16) : inRanges Inst.hexR (hexDigitUpper n) = true :=
  Inst.hex_covers ⟨n, h⟩

theorem pieces_pctBytes (R : Str) : ∀ (bs : List UInt8) (p n : Nat), NoWs (bs.flatMap pctByte ++ R) →
    (bs.flatMap pctByte ++ R).length ≤ n →
    ∃ p', parseParamPieces n ⟨bs.flatMap pctByte ++ R, p⟩ =
      (bs.flatMap pctByte ++ (parseParamPieces R.length ⟨R, p'⟩).1, (parseParamPieces R.length ⟨R, p'⟩).2) := by
  intro bs
  induction bs with
  | nil =>
    intro p n _ hn
    refine ⟨p, ?_⟩
    simp only [List.flatMap_nil, List.nil_append] at hn ⊢
    rw [parseParamPieces_fuel n R.length ⟨R, p⟩ hn (Nat.le_refl _)]
  | cons b bs ih =>
    intro p n hws hn
    simp only [List.flatMap_cons, List.append_assoc] at hws hn ⊢
    have hpiece : parseParamPiece ⟨pctByte b ++ (bs.flatMap pctByte ++ R), p⟩ =
        some (pctByte b, ⟨bs.flatMap pctByte ++ R, p + 3⟩) :=
      piece_pct hws (hexR_hexDigitUpper (byte_hi_lt b)) (hexR_hexDigitUpper (byte_lo_lt b))
    rw [pieces_step hpiece (by simp [pctByte]) hn]
    obtain ⟨p', hp'⟩ := ih (p + 3) _ hws.right (Nat.le_refl _)
    exact ⟨p', by rw [hp']⟩

theorem pieces_items (rest : Str) (hstop : pieceStop rest = true) :
    ∀ (items : List Item), (∀ it ∈ items, it.good Gen.escapeTable []) →
      (∀ c, Item.lit c ∈ items → c ≠ '/' ∧ c ≠ '-') →
      ∀ (p n : Nat), NoWs (encI items ++ rest) → (encI items ++ rest).length ≤ n →
      ∃ p', parseParamPieces n ⟨encI items ++ rest, p⟩ = (rawI items, ⟨rest, p'⟩) := by
  intro items
  induction items with
  | nil =>
    intro _ _ p n hws _
    refine ⟨p, ?_⟩
    simp only [encI, rawI, List.flatMap_nil, List.nil_append] at hws ⊢
    cases n with
    | zero => rfl
    | succ n => rw [parseParamPieces_succ, piece_stop hws hstop]
  | cons it items ih =>
    intro hg hsep p n hws hn
    have ih := ih (fun it h => hg it (List.mem_cons_of_mem _ h))
      (fun c h => hsep c (List.mem_cons_of_mem _ h))
    rw [encI_cons, List.append_assoc] at hws hn
    rw [encI_cons, rawI_cons, List.append_assoc]
    cases it with
    | ent q y =>
      have hmem : (q, ['~', y]) ∈ Gen.escapeTable := (hg (Item.ent q y) List.mem_cons_self).1
      simp only [Item.enc, Item.raw] at hws hn ⊢
      have hpiece := piece_entity (p := p) hws hmem
      have := pieces_step (X := ['~', y]) hpiece (by simp) hn
      simp only [List.cons_append, List.nil_append] at this ⊢
      rw [this]
      obtain ⟨p', hp'⟩ := ih (p + 2) _ hws.tail.tail (Nat.le_refl _)
      exact ⟨p', by rw [hp']⟩
    | lit c =>
      have hc1 : c ≠ '~' := hg (Item.lit c) List.mem_cons_self
      have hc2 := hsep c List.mem_cons_self
      simp only [Item.enc, Item.raw] at hws hn ⊢
      by_cases hq : quoteSafe c = true
      · have e : quoteChar c = [c] := by simp [quoteChar, hq]
        rw [e] at hws hn ⊢
        simp only [List.cons_append, List.nil_append] at hws hn ⊢
        rw [pieces_text hws (ptR_of_safe hq hc1 hc2.1 hc2.2) hn]
        obtain ⟨p', hp'⟩ := ih (p + 1) _ hws.tail (Nat.le_refl _)
        exact ⟨p', by rw [hp']⟩
      · have e : quoteChar c = (String.utf8EncodeChar c).flatMap pctByte := by simp [quoteChar, hq]
        rw [e] at hws hn ⊢
        obtain ⟨p1, hp1⟩ := pieces_pctBytes _ (String.utf8EncodeChar c) p n hws hn
        rw [hp1]
        obtain ⟨p', hp'⟩ := ih p1 _ hws.right (Nat.le_refl _)
        exact ⟨p', by rw [hp']⟩


/-! ### `parameter` on an encoded string -/

theorem isWhite_false_of {P : Char → Bool} (h : Gen.whiteChars.all (fun w => !P w) = true) {c : Char}
    (hc : P c = true) : isWhite c = false := by
  cases hw : isWhite c with
  | false => rfl
  | true =>
    have hm : c ∈ Gen.whiteChars := by simpa [isWhite] using hw
    have := List.all_eq_true.mp h c hm
    simp [hc] at this

theorem noWs_of_tokSafe {s : Str} (h : ∀ c ∈ s, tokSafe c = true) : NoWs s := by
  intro c hc
  apply isWhite_false_of (P := tokSafe) _ (h c hc)
  have := Inst.tokSafe_noWhite
  simp only [List.all_eq_true, Bool.and_eq_true] at this ⊢
  exact fun w hw => (this w hw).1.1

theorem encodeToken_noWs (s : Str) : NoWs (encodeToken Gen.escapeTable s) :=
  noWs_of_tokSafe (encodeToken_safe' _ Inst.escapeTable_sepCovered s)

theorem quoteChar_head {c : Char} (hc : c ≠ '~') : ∃ x t, quoteChar c = x :: t ∧ x ≠ '~' := by
  unfold quoteChar
  split
  · exact ⟨c, [], rfl, hc⟩
  · cases h : String.utf8EncodeChar c with
    | nil => exact absurd h String.utf8EncodeChar_ne_nil
    | cons b bs =>
      exact ⟨'%', hexDigitUpper (b.toNat / 16) :: hexDigitUpper (b.toNat % 16) :: bs.flatMap pctByte,
        by simp [pctByte], by decide⟩

/-- an encoded string never looks like the opening of a link -/
theorem encI_not_linkOpen (rest : Str) (hstop : pieceStop rest = true) (items : List Item)
    (hg : ∀ it ∈ items, it.good Gen.escapeTable []) :
    isPrefix ['~', 'X', '~'] (encI items ++ rest) = false := by
  cases items with
  | nil =>
    simp only [encI, List.flatMap_nil, List.nil_append]
    rcases pieceStop_cases hstop with rfl | ⟨t, rfl⟩ | ⟨t, rfl⟩ | ⟨t, rfl⟩ <;> simp [isPrefix]
  | cons it items =>
    rw [encI_cons]
    cases it with
    | lit c =>
      obtain ⟨x, t, hx, hne⟩ := quoteChar_head (hg (Item.lit c) List.mem_cons_self)
      simp only [Item.enc, hx, List.cons_append, isPrefix]
      simp [Ne.symm hne]
    | ent q y =>
      obtain ⟨y', hy, hX, _⟩ := escape_code (hg (Item.ent q y) List.mem_cons_self).1
      simp only [List.cons.injEq, and_true, true_and] at hy
      subst hy
      simp [Item.enc, isPrefix, Ne.symm hX]

/-- the items of an encoded string, packaged for the parser lemmas -/
theorem encodeToken_items (s : Str) :
    ∃ items, encodeToken Gen.escapeTable s = encI items ∧ valI items = s ∧
      (∀ it ∈ items, it.good Gen.escapeTable []) ∧ (∀ c, Item.lit c ∈ items → c ≠ '/' ∧ c ≠ '-') := by
  obtain ⟨rest, hf⟩ := tableFacts Inst.escapeTable_ok
  obtain ⟨items, h1, h2, h3⟩ := applyTable_items hf s
  have hq : ∀ q y, Item.ent q y ∈ items → quoteSafe y = true := by
    intro q y hm
    obtain ⟨c, hc, hs⟩ := hf.codes _ (h3 _ hm).1
    simp only [List.cons.injEq, and_true, true_and] at hc
    exact hc ▸ hs
  refine ⟨items, by rw [encodeToken_eq_quote, ← h1, quote_flatI items hq], h2, h3, ?_⟩
  intro c hc
  have hmem : c ∈ flatI items := List.mem_flatMap.mpr ⟨_, hc, by simp [Item.flat]⟩
  rw [h1] at hmem
  constructor
  · rintro rfl; exact sep_not_mem_applyTable Inst.escapeTable_sepCovered (Or.inl rfl) s hmem
  · rintro rfl; exact sep_not_mem_applyTable Inst.escapeTable_sepCovered (Or.inr (Or.inl rfl)) s hmem

/-- S1: `parameter` reads back an encoded string, whatever delimiter follows -/
theorem parseParameter_str {dec : List UInt8 → List Char} (hd : DecOK dec) (s rest : Str)
    (hstop : pieceStop rest = true) (hws : NoWs rest) (p n : Nat) :
    ∃ p', parseParameter dec (n + 1) ⟨encodeToken Gen.escapeTable s ++ rest, p⟩ =
      some (.str s p, ⟨rest, p'⟩) := by
  obtain ⟨trest, hf⟩ := tableFacts Inst.escapeTable_ok
  obtain ⟨items, he, hv, hg, hsep⟩ := encodeToken_items s
  have hws' : NoWs (encodeToken Gen.escapeTable s ++ rest) := (encodeToken_noWs s).append hws
  have hlink : lit Gen.linkOpen ⟨encodeToken Gen.escapeTable s ++ rest, p⟩ = none := by
    rw [lit_noWs hws', Inst.link_shape.1, he, encI_not_linkOpen rest hstop items hg]
    simp
  rw [he] at hws' hlink ⊢
  obtain ⟨p', hp'⟩ := pieces_items rest hstop items hg hsep p _ hws' (Nat.le_refl _)
  refine ⟨p', ?_⟩
  simp only [parseParameter, skipWs_noWs hws', hlink, hp', unquote_rawI hf hd items hg, hv]

end Liquer
