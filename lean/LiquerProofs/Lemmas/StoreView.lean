/-
Function-level view of the specification file system: `FS.get` characterisations of the `specOps`
operations, the tree invariant on lookup functions, and its preservation by well-formed operations.
Used by the overlay (C15) and mount (C14) refinement proofs.  All names live in `Liquer.SV`.
-/
import LiquerModel.StoreCore

namespace Liquer.SV
open Liquer

abbrev Look := Key → Option Node

deriving instance DecidableEq for Except

/-- the key an operation is about -/
def opKey : StoreOp → Key
  | .store k _ _ => k
  | .storeMeta k _ => k
  | .remove k => k
  | .removedir k _ => k
  | .makedir k => k

/-! ### association-list lemmas -/

theorem get_nil (x : Key) : FS.get [] x = none := rfl

theorem get_cons (kv : Key × Node) (fs : FS) (x : Key) :
    FS.get (kv :: fs) x = if kv.1 = x then some kv.2 else FS.get fs x := by
  unfold FS.get
  by_cases h : kv.1 = x <;> simp [h]

theorem get_filter (p : Key → Bool) (fs : FS) (x : Key) :
    FS.get (fs.filter (fun kv => p kv.1)) x = if p x then FS.get fs x else none := by
  induction fs with
  | nil => simp [get_nil]
  | cons kv fs ih =>
    by_cases hp : p kv.1 = true
    · rw [List.filter_cons_of_pos (by simpa using hp), get_cons, get_cons, ih]
      by_cases hx : kv.1 = x
      · subst hx; simp [hp]
      · simp [hx]
    · rw [List.filter_cons_of_neg (by simpa using hp), get_cons, ih]
      by_cases hx : kv.1 = x
      · subst hx; simp [hp]
      · simp [hx]

theorem get_erase (fs : FS) (k x : Key) : (fs.erase k).get x = if x = k then none else fs.get x := by
  have := get_filter (fun q => q != k) fs x
  unfold FS.erase
  rw [this]
  by_cases h : x = k <;> simp [h]

theorem get_set (fs : FS) (k : Key) (n : Node) (x : Key) :
    (fs.set k n).get x = if x = k then some n else fs.get x := by
  unfold FS.set
  rw [get_cons, get_erase]
  by_cases h : x = k
  · subst h; simp
  · have : ¬ k = x := fun e => h e.symm
    simp [h, this]

theorem mem_keys (fs : FS) (x : Key) : x ∈ fs.map (·.1) ↔ (fs.get x).isSome = true := by
  induction fs with
  | nil => simp [get_nil]
  | cons kv fs ih =>
    rw [get_cons]
    by_cases h : kv.1 = x
    · simp [h]
    · have : ¬ x = kv.1 := fun e => h e.symm
      simp [h, this, ih]

/-- one step of `mkdirs` -/
def mk1 (f : FS) (a : Key) : FS := if (f.get a).isSome then f else f.set a .dir

theorem get_mk1 (f : FS) (a x : Key) :
    (mk1 f a).get x = if x = a ∧ f.get x = none then some .dir else f.get x := by
  unfold mk1
  by_cases h : (f.get a).isSome = true
  · simp only [h, ↓reduceIte]
    by_cases hx : x = a
    · subst hx
      have : f.get x ≠ none := by
        intro e; simp [e] at h
      simp [this]
    · simp [hx]
  · simp only [h, Bool.false_eq_true, ↓reduceIte, get_set]
    by_cases hx : x = a
    · subst hx
      have : f.get x = none := by
        cases hh : f.get x with
        | none => rfl
        | some n => simp [hh] at h
      simp [this]
    · simp [hx]

theorem get_mkdirs (fs : FS) (ks : List Key) (x : Key) :
    (fs.mkdirs ks).get x = if x ∈ ks ∧ fs.get x = none then some .dir else fs.get x := by
  unfold FS.mkdirs
  induction ks generalizing fs with
  | nil => simp
  | cons a ks ih =>
    rw [List.foldl_cons]
    have h1 : (if (fs.get a).isSome = true then fs else fs.set a Node.dir) = mk1 fs a := rfl
    rw [h1, ih, get_mk1]
    by_cases hxa : x = a
    · subst hxa
      cases hg : fs.get x with
      | none => simp
      | some n => simp
    · cases hg : fs.get x with
      | none => simp [hxa]
      | some n => simp [hxa]

/-! ### keys, prefixes, ancestors -/

theorem take_of_prefix {a k : Key} (h : a <+: k) : k.take a.length = a := by
  obtain ⟨t, rfl⟩ := h
  simp

theorem mem_ancestors (a k : Key) : a ∈ ancestors k ↔ a ≠ [] ∧ a <+: k ∧ a ≠ k := by
  unfold ancestors
  simp only [List.mem_filterMap, List.mem_range]
  constructor
  · rintro ⟨i, hi, h⟩
    by_cases h0 : (i == 0) = true
    · simp [h0] at h
    · simp only [h0, Bool.false_eq_true, ↓reduceIte, Option.some.injEq] at h
      subst h
      have hi0 : i ≠ 0 := by simpa using h0
      refine ⟨?_, List.take_prefix _ _, ?_⟩
      · intro e
        have : (List.take i k).length = 0 := by rw [e]; rfl
        rw [List.length_take] at this
        omega
      · intro e
        have : (List.take i k).length = k.length := by rw [e]
        rw [List.length_take] at this
        omega
  · rintro ⟨hne, hp, hk⟩
    refine ⟨a.length, ?_, ?_⟩
    · have := hp.length_le
      have hlt : a.length ≠ k.length := by
        intro e
        exact hk (hp.eq_of_length e)
      omega
    · have h0 : ¬ (a.length == 0) = true := by
        simp
        exact hne
      simp only [h0, Bool.false_eq_true, ↓reduceIte, Option.some.injEq]
      exact take_of_prefix hp

theorem dropLast_keyName {q : Key} (h : q ≠ []) : q.dropLast ++ [keyName q] = q := by
  unfold keyName
  rw [List.getLast?_eq_some_getLast h]
  exact List.dropLast_concat_getLast h

theorem mem_children (fs : FS) (k : Key) (nm : Str) :
    nm ∈ fs.children k ↔ (fs.get (k ++ [nm])).isSome = true := by
  rw [← mem_keys]
  unfold FS.children
  simp only [List.mem_map, List.mem_filter, Bool.and_eq_true, Bool.not_eq_true', List.isEmpty_eq_false_iff,
    beq_iff_eq]
  constructor
  · rintro ⟨kv, ⟨hm, hne, hd⟩, rfl⟩
    refine ⟨kv, hm, ?_⟩
    rw [← hd]
    exact (dropLast_keyName hne).symm
  · rintro ⟨kv, hm, hk⟩
    refine ⟨kv, ⟨hm, ?_, ?_⟩, ?_⟩
    · rw [hk]; simp
    · rw [hk]; simp
    · rw [hk]; simp [keyName]

/-! ### the tree invariant on lookup functions -/

/-- a proper, non-root prefix -/
def Anc (a k : Key) : Prop := a ≠ [] ∧ a <+: k ∧ a ≠ k

theorem anc_iff (a k : Key) : Anc a k ↔ a ∈ ancestors k := (mem_ancestors a k).symm

/-- every present key is non-root and all its ancestors are directories -/
def TreeF (g : Look) : Prop := ∀ k n, g k = some n → k ≠ [] ∧ ∀ a, Anc a k → g a = some .dir

def TreeP (fs : FS) : Prop := TreeF fs.get

theorem treeP_of_tree (fs : FS) (h : fs.tree = true) : TreeP fs := by
  intro k n hk
  unfold FS.tree at h
  simp only [Bool.and_eq_true, List.all_eq_true, Bool.not_eq_true', List.isEmpty_eq_false_iff, beq_iff_eq] at h
  have hmem : k ∈ fs.map (·.1) := by rw [mem_keys, hk]; rfl
  obtain ⟨kv, hkv, rfl⟩ := List.mem_map.mp hmem
  have := h.1 kv hkv
  refine ⟨this.1, ?_⟩
  intro a ha
  exact this.2 a ((anc_iff a _).mp ha)

theorem treeP_nil : TreeP [] := by
  intro k n h; simp [get_nil] at h

/-- a file has nothing below it -/
theorem TreeF.below_file {g : Look} (hg : TreeF g) {k x : Key} {d : Data} {m : UMeta}
    (hk : g k = some (.file d m)) (hp : k <+: x) (hx : x ≠ k) : g x = none := by
  cases hgx : g x with
  | none => rfl
  | some n =>
    have hk0 : k ≠ [] := (hg k _ hk).1
    have := (hg x n hgx).2 k ⟨hk0, hp, fun e => hx e.symm⟩
    rw [hk] at this
    cases this

/-! ### function-level specification steps ("most recent write or removal wins") -/

def setF (g : Look) (k : Key) (n : Node) : Look := fun x => if x = k then some n else g x
def eraseF (g : Look) (k : Key) : Look := fun x => if x = k then none else g x
def rmTreeF (g : Look) (k : Key) : Look := fun x => if k <+: x then none else g x
/-- directories appear at the listed keys that are absent -/
def mkdirsF (g : Look) (ks : List Key) : Look := fun x => if x ∈ ks ∧ g x = none then some .dir else g x
def storeF (g : Look) (k : Key) (n : Node) : Look := setF (mkdirsF g (ancestors k)) k n

/-- the specification's effect of one operation on the lookup function -/
def stepF (g : Look) : StoreOp → Look
  | .store k d m => storeF g k (.file d { m with size := some d.length, md5 := some d })
  | .storeMeta k m => match g k with
    | some (.file d _) => setF g k (.file d m)
    | _ => g
  | .remove k => eraseF g k
  | .removedir k _ => rmTreeF g k
  | .makedir k => mkdirsF g (ancestors k ++ [k])

/-- well-formed next operation, on a lookup function (`wfOp` of `StoreCore` with `fs.get` abstracted) -/
def WfF (g : Look) : StoreOp → Prop
  | .store k _ _ => k ≠ [] ∧ g k ≠ some .dir ∧ ∀ a, Anc a k → ∀ d m, g a ≠ some (.file d m)
  | .storeMeta k _ => ∃ d m, g k = some (.file d m)
  | .remove k => ∃ d m, g k = some (.file d m)
  | .removedir k recursive => k ≠ [] ∧ g k = some .dir ∧ (recursive = true ∨ ∀ nm, g (k ++ [nm]) = none)
  | .makedir k => k ≠ [] ∧ (∀ d m, g k ≠ some (.file d m)) ∧ ∀ a, Anc a k → ∀ d m, g a ≠ some (.file d m)

theorem anc_trans {a b c : Key} (h1 : Anc a b) (h2 : b <+: c) : Anc a c := by
  refine ⟨h1.1, h1.2.1.trans h2, ?_⟩
  intro e
  subst e
  exact h1.2.2 (h1.2.1.eq_of_length (Nat.le_antisymm h1.2.1.length_le h2.length_le))

theorem prefix_cases {a b k : Key} (ha : a <+: k) (hb : b <+: k) : a <+: b ∨ b <+: a := by
  rcases Nat.le_total a.length b.length with h | h
  · exact Or.inl (List.prefix_of_prefix_length_le ha hb h)
  · exact Or.inr (List.prefix_of_prefix_length_le hb ha h)

theorem treeF_mkdirs {g : Look} (hg : TreeF g) (k : Key) (hk : k ≠ [])
    (hf : ∀ a, a ≠ [] → a <+: k → ∀ d m, g a ≠ some (.file d m)) :
    TreeF (mkdirsF g (ancestors k ++ [k])) := by
  have hmem : ∀ x, x ∈ ancestors k ++ [k] ↔ (x ≠ [] ∧ x <+: k) := by
    intro x
    simp only [List.mem_append, mem_ancestors, List.mem_singleton]
    constructor
    · rintro (⟨h1, h2, _⟩ | rfl)
      · exact ⟨h1, h2⟩
      · exact ⟨hk, List.prefix_refl _⟩
    · rintro ⟨h1, h2⟩
      by_cases e : x = k
      · exact Or.inr e
      · exact Or.inl ⟨h1, h2, e⟩
  intro x n hx
  unfold mkdirsF at hx
  by_cases hc : x ∈ ancestors k ++ [k] ∧ g x = none
  · -- a new directory: its ancestors are prefixes of k
    have hxk := (hmem x).mp hc.1
    refine ⟨hxk.1, ?_⟩
    intro a ha
    have hak : a ≠ [] ∧ a <+: k := ⟨ha.1, ha.2.1.trans hxk.2⟩
    unfold mkdirsF
    by_cases hga : g a = none
    · simp [(hmem a).mpr hak, hga]
    · have hna : ¬ (a ∈ ancestors k ++ [k] ∧ g a = none) := fun h => hga h.2
      rw [if_neg hna]
      cases hgn : g a with
      | none => exact absurd hgn hga
      | some na =>
        cases na with
        | dir => rfl
        | file d m => exact absurd hgn (hf a hak.1 hak.2 d m)
  · rw [if_neg hc] at hx
    obtain ⟨h0, hanc⟩ := hg x n hx
    refine ⟨h0, ?_⟩
    intro a ha
    unfold mkdirsF
    have := hanc a ha
    have hna : ¬ (a ∈ ancestors k ++ [k] ∧ g a = none) := by
      intro h; rw [this] at h; cases h.2
    rw [if_neg hna]
    exact this

theorem mkdirsF_anc_eq (g : Look) (k : Key) (x : Key) (hx : x ≠ k) :
    mkdirsF g (ancestors k ++ [k]) x = mkdirsF g (ancestors k) x := by
  unfold mkdirsF
  simp [hx]

theorem treeF_store {g : Look} (hg : TreeF g) (k : Key) (n : Node) 
    (hk : k ≠ []) (hkd : g k ≠ some .dir)
    (hf : ∀ a, Anc a k → ∀ d m, g a ≠ some (.file d m)) :
    TreeF (storeF g k n) := by
  -- nothing lies below k: k is absent or a file
  have hbelow : ∀ x, k <+: x → x ≠ k → g x = none := by
    intro x hp hne
    cases hgx : g x with
    | none => rfl
    | some nx =>
      have := (hg x nx hgx).2 k ⟨hk, hp, fun e => hne e.symm⟩
      exact absurd this hkd
  intro x nx hx
  unfold storeF setF at hx
  by_cases hxk : x = k
  · subst hxk
    refine ⟨hk, ?_⟩
    intro a ha
    unfold storeF setF
    rw [if_neg ha.2.2]
    unfold mkdirsF
    have hma : a ∈ ancestors x := (anc_iff a x).mp ha
    cases hga : g a with
    | none => simp [hma]
    | some na =>
      cases na with
      | dir => simp
      | file d m => exact absurd hga (hf a ha d m)
  · rw [if_neg hxk] at hx
    unfold mkdirsF at hx
    by_cases hc : x ∈ ancestors k ∧ g x = none
    · have hxa : Anc x k := (anc_iff x k).mpr hc.1
      refine ⟨hxa.1, ?_⟩
      intro a ha
      have hak : Anc a k := anc_trans ha hxa.2.1
      unfold storeF setF
      rw [if_neg hak.2.2]
      unfold mkdirsF
      have hma : a ∈ ancestors k := (anc_iff a k).mp hak
      cases hga : g a with
      | none => simp [hma]
      | some na =>
        cases na with
        | dir => simp
        | file d m => exact absurd hga (hf a hak d m)
    · rw [if_neg hc] at hx
      obtain ⟨h0, hanc⟩ := hg x nx hx
      refine ⟨h0, ?_⟩
      intro a ha
      have hga := hanc a ha
      have hak : a ≠ k := by
        intro e; subst e
        have := hbelow x ha.2.1 hxk
        rw [this] at hx; cases hx
      unfold storeF setF
      rw [if_neg hak]
      unfold mkdirsF
      have hna : ¬ (a ∈ ancestors k ∧ g a = none) := by
        intro h; rw [hga] at h; cases h.2
      rw [if_neg hna]
      exact hga

theorem treeF_setFile {g : Look} (hg : TreeF g) (k : Key) (d d' : Data) (m m' : UMeta)
    (hk : g k = some (.file d m)) : TreeF (setF g k (.file d' m')) := by
  intro x n hx
  unfold setF at hx
  by_cases hxk : x = k
  · subst hxk
    obtain ⟨h0, hanc⟩ := hg x _ hk
    refine ⟨h0, ?_⟩
    intro a ha
    unfold setF
    rw [if_neg ha.2.2]
    exact hanc a ha
  · rw [if_neg hxk] at hx
    obtain ⟨h0, hanc⟩ := hg x n hx
    refine ⟨h0, ?_⟩
    intro a ha
    unfold setF
    have hak : a ≠ k := by
      intro e; subst e
      have := hanc a ha
      rw [hk] at this; cases this
    rw [if_neg hak]
    exact hanc a ha

theorem treeF_rmTree {g : Look} (hg : TreeF g) (k : Key) : TreeF (rmTreeF g k) := by
  intro x n hx
  unfold rmTreeF at hx
  by_cases hp : k <+: x
  · rw [if_pos hp] at hx; cases hx
  · rw [if_neg hp] at hx
    obtain ⟨h0, hanc⟩ := hg x n hx
    refine ⟨h0, ?_⟩
    intro a ha
    unfold rmTreeF
    have : ¬ k <+: a := fun h => hp (h.trans ha.2.1)
    rw [if_neg this]
    exact hanc a ha

/-- removing a key that has nothing below it (a file, or an empty directory) is removing its subtree -/
theorem eraseF_eq_rmTreeF {g : Look} (k : Key) (h : ∀ x, k <+: x → x ≠ k → g x = none) :
    eraseF g k = rmTreeF g k := by
  funext x
  unfold eraseF rmTreeF
  by_cases hxk : x = k
  · subst hxk; simp
  · rw [if_neg hxk]
    by_cases hp : k <+: x
    · rw [if_pos hp]; exact h x hp hxk
    · rw [if_neg hp]

theorem TreeF.no_children_below {g : Look} (hg : TreeF g) {k : Key} (hc : ∀ nm, g (k ++ [nm]) = none) :
    ∀ x, k <+: x → x ≠ k → g x = none := by
  intro x hp hne
  obtain ⟨t, rfl⟩ := hp
  cases t with
  | nil => simp at hne
  | cons nm rest =>
    cases hgx : g (k ++ nm :: rest) with
    | none => rfl
    | some n =>
      by_cases hr : rest = []
      · subst hr; rw [hc nm] at hgx; cases hgx
      · have hanc : Anc (k ++ [nm]) (k ++ nm :: rest) := by
          refine ⟨by simp, ?_, ?_⟩
          · exact ⟨rest, by simp⟩
          · intro e
            cases rest with
            | nil => exact hr rfl
            | cons r rs => simp at e
        have := (hg _ n hgx).2 _ hanc
        rw [hc nm] at this; cases this

/-- **the specification steps preserve the tree invariant on well-formed operations** -/
theorem treeF_step {g : Look} (hg : TreeF g) (op : StoreOp) (hw : WfF g op) : TreeF (stepF g op) := by
  cases op with
  | store k d m =>
    obtain ⟨hk, hkd, hf⟩ := hw
    exact treeF_store hg k _ hk hkd hf
  | storeMeta k m =>
    obtain ⟨d, m0, hk⟩ := hw
    simp only [stepF, hk]
    exact treeF_setFile hg k d d m0 m hk
  | remove k =>
    obtain ⟨d, m0, hk⟩ := hw
    simp only [stepF]
    rw [eraseF_eq_rmTreeF k (fun x hp hne => hg.below_file hk hp hne)]
    exact treeF_rmTree hg k
  | removedir k r => exact treeF_rmTree hg k
  | makedir k =>
    obtain ⟨hk, hkf, hf⟩ := hw
    refine treeF_mkdirs hg k hk ?_
    intro a ha hp d m
    by_cases e : a = k
    · subst e; exact hkf d m
    · exact hf a ⟨ha, hp, e⟩ d m

/-! ### the specification store `specOps` computes `stepF` -/

theorem spec_store_get (fs : FS) (k : Key) (d : Data) (m : UMeta) :
    ∃ fs', specOps.store fs k d m = .ok fs' ∧
      fs'.get = storeF fs.get k (.file d { m with size := some d.length, md5 := some d }) := by
  refine ⟨_, rfl, ?_⟩
  funext x
  rw [get_set, get_mkdirs]
  rfl

theorem spec_makedir_get (fs : FS) (k : Key) (hk : k ≠ []) :
    ∃ fs', specOps.makedir fs k = .ok fs' ∧ fs'.get = mkdirsF fs.get (ancestors k ++ [k]) := by
  refine ⟨_, rfl, ?_⟩
  funext x
  have : k.isEmpty = false := by simpa using hk
  rw [get_mkdirs]
  simp only [this, Bool.false_eq_true, ↓reduceIte]
  rfl

theorem spec_remove_get (fs : FS) (k : Key) :
    ∃ fs', specOps.remove fs k = .ok fs' ∧ fs'.get = eraseF fs.get k := by
  refine ⟨_, rfl, ?_⟩
  funext x
  rw [get_erase]
  rfl

theorem spec_storeMeta_get (fs : FS) (k : Key) (m : UMeta) (d : Data) (m0 : UMeta) (hk : fs.get k = some (.file d m0)) :
    ∃ fs', specOps.storeMeta fs k m = .ok fs' ∧ fs'.get = setF fs.get k (.file d m) := by
  refine ⟨fs.set k (.file d m), ?_, ?_⟩
  · simp [specOps, hk]
  · funext x
    rw [get_set]
    rfl

theorem children_isEmpty (fs : FS) (k : Key) : (fs.children k).isEmpty = true ↔ ∀ nm, fs.get (k ++ [nm]) = none := by
  constructor
  · intro h nm
    cases hg : fs.get (k ++ [nm]) with
    | none => rfl
    | some n =>
      have : nm ∈ fs.children k := (mem_children fs k nm).mpr (by simp [hg])
      rw [List.isEmpty_iff.mp h] at this
      cases this
  · intro h
    rw [List.isEmpty_iff]
    cases hc : fs.children k with
    | nil => rfl
    | cons nm rest =>
      have : nm ∈ fs.children k := by rw [hc]; exact List.mem_cons_self
      have := (mem_children fs k nm).mp this
      rw [h nm] at this
      cases this

theorem spec_removedir_get (fs : FS) (k : Key) (r : Bool) (ht : TreeP fs) (hk : k ≠ [])
    (hc : r = true ∨ ∀ nm, fs.get (k ++ [nm]) = none) :
    ∃ fs', specOps.removedir fs k r = .ok fs' ∧ fs'.get = rmTreeF fs.get k := by
  have hke : k.isEmpty = false := by simpa using hk
  by_cases hr : r = true
  · subst hr
    refine ⟨fs.filter (fun kv => !(k.isPrefixOf kv.1)), ?_, ?_⟩
    · simp [specOps, hk]
    · funext x
      have := get_filter (fun q => !(k.isPrefixOf q)) fs x
      rw [this]
      unfold rmTreeF
      by_cases hp : k <+: x
      · have : k.isPrefixOf x = true := List.isPrefixOf_iff_prefix.mpr hp
        simp [this, hp]
      · have : k.isPrefixOf x = false := by
          cases h : k.isPrefixOf x with
          | false => rfl
          | true => exact absurd (List.isPrefixOf_iff_prefix.mp h) hp
        simp [this, hp]
  · have hnc : ∀ nm, fs.get (k ++ [nm]) = none := by
      rcases hc with h | h
      · exact absurd h hr
      · exact h
    have hr' : r = false := by simpa using hr
    subst hr'
    refine ⟨fs.erase k, ?_, ?_⟩
    · have he := List.isEmpty_iff.mp ((children_isEmpty fs k).mpr hnc)
      simp [specOps, hk, he]
    · rw [← eraseF_eq_rmTreeF k (TreeF.no_children_below ht hnc)]
      funext x
      rw [get_erase]
      rfl

/-- `wfOp` of `StoreCore` (decidable, on the concrete `FS`) implies the function-level `WfF` -/
theorem wfF_of_wfOp (fs : FS) (op : StoreOp) (h : wfOp fs op = true) : WfF fs.get op := by
  cases op with
  | store k d m =>
    simp only [wfOp, Bool.and_eq_true, Bool.not_eq_true', List.isEmpty_eq_false_iff, List.all_eq_true] at h
    obtain ⟨⟨hk, hd⟩, ha⟩ := h
    refine ⟨hk, ?_, ?_⟩
    · intro e
      simp [FS.isDirB, e] at hd
    · intro a haa d' m' e
      have := ha a ((anc_iff a k).mp haa)
      simp [e] at this
  | storeMeta k m =>
    simp only [wfOp] at h
    cases hg : fs.get k with
    | none => simp [hg] at h
    | some n =>
      cases n with
      | dir => simp [hg] at h
      | file d m0 => exact ⟨d, m0, hg⟩
  | remove k =>
    simp only [wfOp] at h
    cases hg : fs.get k with
    | none => simp [hg] at h
    | some n =>
      cases n with
      | dir => simp [hg] at h
      | file d m0 => exact ⟨d, m0, hg⟩
  | removedir k r =>
    simp only [wfOp, Bool.and_eq_true, Bool.not_eq_true', List.isEmpty_eq_false_iff, beq_iff_eq, Bool.or_eq_true] at h
    obtain ⟨⟨hk, hd⟩, hc⟩ := h
    refine ⟨hk, hd, ?_⟩
    rcases hc with hc | hc
    · exact Or.inl hc
    · exact Or.inr ((children_isEmpty fs k).mp hc)
  | makedir k =>
    simp only [wfOp, Bool.and_eq_true, Bool.not_eq_true', List.isEmpty_eq_false_iff, List.all_eq_true] at h
    obtain ⟨hk, ha⟩ := h
    refine ⟨hk, ?_, ?_⟩
    · intro d m e
      have := ha k (by simp)
      simp [e] at this
    · intro a haa d m e
      have := ha a (by simp [(anc_iff a k).mp haa])
      simp [e] at this

/-- **the specification store refines `stepF`** on well-formed operations over a tree -/
theorem spec_step_get (fs : FS) (op : StoreOp) (ht : TreeP fs) (hw : WfF fs.get op) :
    (specOps.step fs op).get = stepF fs.get op ∧ TreeP (specOps.step fs op) := by
  have key : (specOps.step fs op).get = stepF fs.get op := by
    cases op with
    | store k d m =>
      obtain ⟨fs', h1, h2⟩ := spec_store_get fs k d m
      simp only [StoreOps.step, StoreOps.apply, h1, h2, stepF]
    | storeMeta k m =>
      obtain ⟨d, m0, hk⟩ := hw
      obtain ⟨fs', h1, h2⟩ := spec_storeMeta_get fs k m d m0 hk
      simp only [StoreOps.step, StoreOps.apply, h1, h2, stepF, hk]
    | remove k =>
      obtain ⟨fs', h1, h2⟩ := spec_remove_get fs k
      simp only [StoreOps.step, StoreOps.apply, h1, h2, stepF]
    | removedir k r =>
      obtain ⟨hk, _, hc⟩ := hw
      obtain ⟨fs', h1, h2⟩ := spec_removedir_get fs k r ht hk hc
      simp only [StoreOps.step, StoreOps.apply, h1, h2, stepF]
    | makedir k =>
      obtain ⟨hk, _, _⟩ := hw
      obtain ⟨fs', h1, h2⟩ := spec_makedir_get fs k hk
      simp only [StoreOps.step, StoreOps.apply, h1, h2, stepF]
  refine ⟨key, ?_⟩
  unfold TreeP
  rw [key]
  exact treeF_step ht op hw

/-! ### reads as functions of the lookup -/

def rdContains (g : Look) (k : Key) : Bool := k.isEmpty || (g k).isSome
def rdIsDir (g : Look) (k : Key) : Bool := k.isEmpty || g k == some .dir
def rdBytes (g : Look) (k : Key) : Except StoreErr Data :=
  match g k with
  | some (.file d _) => .ok d
  | _ => .error .keyNotFound
def rdMeta (g : Look) (k : Key) : Except StoreErr MetaObs :=
  match g k with
  | some (.file _ m) => .ok { key := k, name := keyName k, isDir := false, size := m.size, md5 := m.md5, user := m.user }
  | some .dir => .ok { key := k, name := keyName k, isDir := true, size := none, md5 := none, user := [] }
  | none => if k.isEmpty then .ok { key := k, name := [], isDir := true, size := none, md5 := none, user := [] }
            else .error .keyNotFound

theorem spec_contains (fs : FS) (k : Key) : specOps.contains fs k = .ok (rdContains fs.get k) := rfl
theorem spec_isDir (fs : FS) (k : Key) : specOps.isDir fs k = .ok (rdIsDir fs.get k) := rfl
theorem spec_getBytes (fs : FS) (k : Key) : specOps.getBytes fs k = rdBytes fs.get k := rfl
theorem spec_getMeta (fs : FS) (k : Key) : specOps.getMeta fs k = rdMeta fs.get k := rfl
theorem spec_keys (fs : FS) : specOps.keys fs = .ok (fs.map (·.1)) := rfl
theorem spec_listdir (fs : FS) (k : Key) :
    specOps.listdir fs k = .ok (if rdIsDir fs.get k then some (fs.children k) else none) := by
  show (if fs.isDirB k then _ else _) = _
  unfold FS.isDirB rdIsDir
  split <;> rfl

theorem TreeF.root_none {g : Look} (hg : TreeF g) : g [] = none := by
  cases h : g [] with
  | none => rfl
  | some n => exact absurd rfl (hg [] n h).1

theorem TreeF.parent_dir {g : Look} (hg : TreeF g) {k : Key} {nm : Str} {n : Node} (hk : k ≠ [])
    (h : g (k ++ [nm]) = some n) : g k = some .dir := by
  refine (hg _ n h).2 k ⟨hk, List.prefix_append _ _, ?_⟩
  intro e
  have := congrArg List.length e
  simp at this

end Liquer.SV
