/-
C02 helper lemmas, part 10 (S4): `parse` tries `resource_transform_query` first. What `resource_path`
does on canonical text, character by character, and why that alternative cannot reach the end of the
canonical text of a query that is not `rtqCaptured`.
-/
import LiquerProofs.Lemmas.ParseQuery

namespace Liquer
open PS

variable {dec : List UInt8 → List Char}

/-! ### `resource_path` as a scanner -/

/-- the input left by `resource_path`, started inside a name -/
def scanName : Str → Str
  | [] => []
  | c :: cs =>
    if inRanges Inst.rnR2 c then scanName cs
    else match cs with
      | d :: ds => if c == '/' && inRanges Inst.rnR1 d then scanName ds else c :: cs
      | [] => c :: cs

/-- the input left by `resource_path`, at the end of a name -/
def afterName (r : Str) : Str :=
  match r with
  | c :: d :: ds => if c == '/' && inRanges Inst.rnR1 d then scanName ds else r
  | _ => r

theorem scanName_cons (c : Char) (cs : Str) :
    scanName (c :: cs) = if inRanges Inst.rnR2 c then scanName cs else afterName (c :: cs) := by
  cases cs with
  | nil => unfold scanName; simp [afterName, scanName]
  | cons d ds => rw [scanName]; simp [afterName]

theorem scanName_takeClass (W : Str) : scanName W = afterName (takeClass Inst.rnR2 none W).2 := by
  induction W with
  | nil => simp [scanName, takeClass_nil, afterName]
  | cons c cs ih =>
    rw [takeClass_cons_none, scanName_cons]
    by_cases hc : inRanges Inst.rnR2 c = true
    · simp only [hc, ↓reduceIte, ih]
    · simp only [hc, Bool.false_eq_true, ↓reduceIte]

theorem re_resourceName_first {c : Char} {W : Str} {p : Nat} (hws : NoWs (c :: W))
    (hc : inRanges Inst.rnR1 c = true) :
    PS.re Gen.resourceNameRe ⟨c :: W, p⟩ =
      some (c :: (takeClass Inst.rnR2 none W).1,
        ⟨(takeClass Inst.rnR2 none W).2, p + (c :: (takeClass Inst.rnR2 none W).1).length⟩) := by
  rw [re_noWs hws, Inst.resourceName_shape]
  simp [matchRe_cons, matchRe_nil, takeClass_cons_one, hc]

theorem resNamesMore_scan : ∀ (n : Nat) (r : Str) (p : Nat), NoWs r → r.length ≤ n →
    ∃ names p', parseResNamesMore n ⟨r, p⟩ = (names, ⟨afterName r, p'⟩) := by
  intro n
  induction n with
  | zero =>
    intro r p _ hn
    have : r = [] := List.eq_nil_of_length_eq_zero (by omega)
    subst this
    exact ⟨[], p, rfl⟩
  | succ n ih =>
    intro r p hws hn
    cases r with
    | nil => exact ⟨[], p, by simp [parseResNamesMore, lit_nil_input, afterName]⟩
    | cons x xs =>
      by_cases hx : x = '/'
      · subst hx
        cases xs with
        | nil =>
          have : PS.re Gen.resourceNameRe ⟨[], p + 1⟩ = none := by
            rw [Inst.resourceName_shape]; exact re_fail_first NoWs.nil rfl
          exact ⟨[], p, by simp [parseResNamesMore, lit_cons hws, this, afterName]⟩
        | cons d ds =>
          by_cases hd : inRanges Inst.rnR1 d = true
          · have hre := re_resourceName_first (p := p + 1) hws.tail hd
            have hspec := takeClass_spec Inst.rnR2 ds none
            have hlen : (takeClass Inst.rnR2 none ds).2.length ≤ n := by
              have := congrArg List.length hspec.1
              simp only [List.length_append, List.length_cons] at this hn; omega
            have hw2 : NoWs (takeClass Inst.rnR2 none ds).2 := by
              have : NoWs ds := hws.tail.tail
              rw [hspec.1] at this
              exact this.right
            obtain ⟨names, p', hp'⟩ := ih _ (p + 1 + (d :: (takeClass Inst.rnR2 none ds).1).length) hw2 hlen
            refine ⟨(d :: (takeClass Inst.rnR2 none ds).1) :: names, p', ?_⟩
            simp only [parseResNamesMore, lit_cons hws, hre, hp', afterName, beq_self_eq_true, hd,
              Bool.and_self, ↓reduceIte, scanName_takeClass ds]
          · have : PS.re Gen.resourceNameRe ⟨d :: ds, p + 1⟩ = none := by
              rw [Inst.resourceName_shape]
              exact re_fail_first hws.tail (by simpa [stopAt] using hd)
            exact ⟨[], p, by simp [parseResNamesMore, lit_cons hws, this, afterName, hd]⟩
      · have : lit ['/'] ⟨x :: xs, p⟩ = none := lit_ne_head hws (Ne.symm hx)
        refine ⟨[], p, ?_⟩
        simp only [parseResNamesMore, this]
        cases xs <;> simp [afterName, hx]

/-- `resource_path` leaves `scanName` of what follows the first character -/
theorem resPath_scan {c : Char} {W : Str} {p : Nat} (hws : NoWs (c :: W))
    (hc : inRanges Inst.rnR1 c = true) :
    ∃ names p', parseResPath ⟨c :: W, p⟩ = some (names, ⟨scanName W, p'⟩) := by
  have hre := re_resourceName_first (p := p) hws hc
  have hspec := takeClass_spec Inst.rnR2 W none
  have hw2 : NoWs (takeClass Inst.rnR2 none W).2 := by
    have : NoWs W := hws.tail
    rw [hspec.1] at this
    exact this.right
  obtain ⟨names, p', hp'⟩ := resNamesMore_scan _ _
    (p + (c :: (takeClass Inst.rnR2 none W).1).length) hw2 (Nat.le_refl _)
  refine ⟨(c :: (takeClass Inst.rnR2 none W).1) :: names, p', ?_⟩
  simp only [parseResPath, hre, hp', scanName_takeClass W]


/-! ### scanning canonical text -/

/-- not one of the characters that `noTildePercent` looks for -/
def notTP (c : Char) : Bool := c != '~' && c != '%' && c != '+'

theorem noTildePercent_eq (s : Str) : noTildePercent s = s.all notTP := rfl

theorem rn_excl {c : Char} (h : c = '~' ∨ c = '%' ∨ c = '+' ∨ c = '/') :
    inRanges Inst.rnR2 c = false ∧ inRanges Inst.rnR1 c = false := by
  have := Inst.resourceName_excl
  simp only [List.all_cons, List.all_nil, Bool.and_true, Bool.and_eq_true, Bool.not_eq_true'] at this
  rcases h with rfl | rfl | rfl | rfl
  · exact this.1
  · exact this.2.1
  · exact this.2.2.1
  · exact this.2.2.2

theorem notTP_false {c : Char} (h : notTP c = false) : c = '~' ∨ c = '%' ∨ c = '+' := by
  by_cases h1 : c = '~'
  · exact Or.inl h1
  · by_cases h2 : c = '%'
    · exact Or.inr (Or.inl h2)
    · by_cases h3 : c = '+'
      · exact Or.inr (Or.inr h3)
      · simp [notTP, h1, h2, h3] at h

theorem scan_class {u : Str} (X : Str) (h : ∀ c ∈ u, inRanges Inst.rnR2 c = true) :
    scanName (u ++ X) = scanName X := by
  induction u with
  | nil => rfl
  | cons c u ih =>
    rw [List.cons_append, scanName_cons, if_pos (h c List.mem_cons_self)]
    exact ih (fun x hx => h x (List.mem_cons_of_mem _ hx))

theorem scan_tp {c : Char} (h : notTP c = false) (X : Str) : scanName (c :: X) = c :: X := by
  have hc := notTP_false h
  have h1 : inRanges Inst.rnR2 c = false := by
    rcases hc with rfl | rfl | rfl
    · exact (rn_excl (Or.inl rfl)).1
    · exact (rn_excl (Or.inr (Or.inl rfl))).1
    · exact (rn_excl (Or.inr (Or.inr (Or.inl rfl)))).1
  have h2 : c ≠ '/' := by rcases hc with rfl | rfl | rfl <;> decide
  rw [scanName_cons, h1]
  cases X <;> simp [afterName, h2]

theorem scan_slash {d : Char} (hd : inRanges Inst.rnR1 d = true) (X : Str) :
    scanName ('/' :: d :: X) = scanName X := by
  rw [scanName_cons, (rn_excl (Or.inr (Or.inr (Or.inr rfl)))).1]
  simp [afterName, hd]

theorem scan_slash_dash (X : Str) : scanName ('/' :: '-' :: X) = '/' :: '-' :: X := by
  rw [scanName_cons, (rn_excl (Or.inr (Or.inr (Or.inr rfl)))).1]
  simp [afterName, Inst.resourceName_first]

/-- up to its first `~`, `%` or `+` the text consists of resource-name characters -/
def Good (u : Str) : Prop := ∀ c ∈ u.takeWhile notTP, inRanges Inst.rnR2 c = true

theorem scan_good {u : Str} (X : Str) (h : Good u) :
    scanName (u ++ X) = if u.all notTP then scanName X else u.dropWhile notTP ++ X := by
  induction u with
  | nil => rfl
  | cons c u ih =>
    cases hc : notTP c with
    | true =>
      have hin : inRanges Inst.rnR2 c = true := h c (by simp [List.takeWhile, hc])
      have hg : Good u := fun x hx => h x (by simp [List.takeWhile, hc, hx])
      rw [List.cons_append, scanName_cons, if_pos hin, ih hg]
      simp [hc, List.dropWhile]
    | false =>
      rw [List.cons_append, scan_tp hc]
      simp [hc, List.dropWhile]

theorem dropWhile_tp {u : Str} (h : u.all notTP = false) :
    ∃ c v, u.dropWhile notTP = c :: v ∧ notTP c = false := by
  induction u with
  | nil => simp at h
  | cons c u ih =>
    cases hc : notTP c with
    | true =>
      simp only [List.all_cons, hc, Bool.true_and] at h
      simpa [List.dropWhile, hc] using ih h
    | false => exact ⟨c, u, by simp [List.dropWhile, hc], hc⟩

theorem Good.nil : Good [] := by intro c hc; simp at hc

theorem good_append {u v : Str} (hu : ∀ c ∈ u, inRanges Inst.rnR2 c = true ∨ notTP c = false)
    (hv : Good v) : Good (u ++ v) := by
  induction u with
  | nil => exact hv
  | cons c u ih =>
    have ih := ih (fun x hx => hu x (List.mem_cons_of_mem _ hx))
    intro x hx
    cases hc : notTP c with
    | true =>
      simp only [List.cons_append, List.takeWhile, hc, List.mem_cons] at hx
      rcases hx with rfl | hx
      · rcases hu x List.mem_cons_self with h | h
        · exact h
        · rw [hc] at h; cases h
      · exact ih x hx
    | false => simp [hc] at hx

theorem good_of_class {u : Str} (hu : ∀ c ∈ u, inRanges Inst.rnR2 c = true) : Good u := by
  have := good_append (u := u) (v := []) (fun c hc => Or.inl (hu c hc)) Good.nil
  simpa using this

theorem good_tilde (w : Str) : Good ('~' :: w) := by
  intro c hc
  simp [List.takeWhile, notTP] at hc


/-! ### canonical text of header-less transform segments is `Good` -/

theorem tokSafe_good {c : Char} (h : tokSafe c = true) : inRanges Inst.rnR2 c = true ∨ notTP c = false := by
  by_cases h1 : c = '~'
  · right; subst h1; rfl
  · by_cases h2 : c = '%'
    · right; subst h2; rfl
    · left
      have hlt : c.toNat < 128 := by
        rw [tokSafe_iff] at h; omega
      have := Inst.resourceName_covers ⟨c.toNat, hlt⟩
      simp only [Char.ofNat_toNat] at this
      apply this
      simp [h, h1, h2]

theorem sub_rn {a b : List (Nat × Nat)} (h : Inst.subRanges a b = true) {c : Char}
    (hc : inRanges a c = true) : inRanges b c = true := subRanges_sound h hc

theorem names_facts :
    Inst.subRanges Inst.idR1 Inst.rnR1 = true ∧ Inst.subRanges Inst.idR1 Inst.rnR2 = true ∧
    Inst.subRanges Inst.idR2 Inst.rnR2 = true ∧ Inst.subRanges Inst.fnR1 Inst.rnR1 = true ∧
    Inst.subRanges Inst.fnR1 Inst.rnR2 = true ∧ Inst.subRanges Inst.fnR3 Inst.rnR2 = true ∧
    inRanges Inst.rnR1 '.' = true ∧ inRanges Inst.rnR2 '.' = true ∧ inRanges Inst.rnR2 '-' = true := by
  have := Inst.names_in_resourceName
  simp only [Bool.and_eq_true] at this
  obtain ⟨⟨⟨⟨⟨⟨⟨⟨h1, h2⟩, h3⟩, h4⟩, h5⟩, h6⟩, h7⟩, h8⟩, h9⟩ := this
  exact ⟨h1, h2, h3, h4, h5, h6, h7, h8, h9⟩

theorem param_good (x : Param) (w : Str) (hw : Good w) : Good (x.encode T ++ w) := by
  cases x with
  | str s pos =>
    simp only [Param.encode]
    exact good_append (fun c hc => tokSafe_good (encodeToken_safe' T Inst.escapeTable_sepCovered s c hc)) hw
  | link q pos =>
    simp only [Param.encode, List.cons_append, List.append_assoc]
    exact good_tilde _

theorem dashParams_good (ps : List Param) (w : Str) (hw : Good w) : Good (encodeDashParams T ps ++ w) := by
  induction ps with
  | nil => simpa [encodeDashParams] using hw
  | cons x ps ih =>
    simp only [encodeDashParams, List.cons_append, List.append_assoc]
    have := good_append (u := ['-']) (v := x.encode T ++ (encodeDashParams T ps ++ w))
      (fun c hc => by
        simp only [List.mem_singleton] at hc
        subst hc; exact Or.inl names_facts.2.2.2.2.2.2.2.2)
      (param_good x _ ih)
    simpa using this

/-- a piece of a path: its first character may start a resource name, the rest is `Good` -/
def PieceOK (x : Str) : Prop := ∃ d t, x = d :: t ∧ inRanges Inst.rnR1 d = true ∧ Good t

theorem rnR1_notTP {d : Char} (h : inRanges Inst.rnR1 d = true) : notTP d = true := by
  cases hd : notTP d with
  | true => rfl
  | false =>
    rcases notTP_false hd with rfl | rfl | rfl
    · rw [(rn_excl (Or.inl rfl)).2] at h; cases h
    · rw [(rn_excl (Or.inr (Or.inl rfl))).2] at h; cases h
    · rw [(rn_excl (Or.inr (Or.inr (Or.inl rfl)))).2] at h; cases h

theorem action_piece {a : Action} (hwf : wfAction a = true) : PieceOK (a.encode T) := by
  obtain ⟨name, ps, pos⟩ := a
  simp only [wfAction, Bool.and_eq_true] at hwf
  have h1 := hwf.1
  rw [Inst.identifier_shape] at h1
  obtain ⟨d, t, rfl, hd⟩ := fullMatch_first h1
  refine ⟨d, t ++ encodeDashParams T ps, by simp [Action.encode], sub_rn names_facts.1 hd, ?_⟩
  apply good_append _ (by simpa using dashParams_good ps [] Good.nil)
  intro c hc
  left
  obtain ⟨it, hit, hin⟩ := fullMatch_mem hwf.1 c (List.mem_cons_of_mem _ hc)
  rw [Inst.identifier_shape] at hit
  simp only [List.mem_cons, List.not_mem_nil, or_false] at hit
  rcases hit with rfl | rfl
  · exact sub_rn names_facts.2.1 hin
  · exact sub_rn names_facts.2.2.1 hin

theorem filename_piece {f : Str} (hf : fullMatch Gen.filenameRe f = true) : PieceOK f := by
  obtain ⟨d, t, rfl, hd⟩ := filename_head hf
  refine ⟨d, t, rfl, ?_, ?_⟩
  · rcases hd with h | h | h
    · exact sub_rn names_facts.1 h
    · exact sub_rn names_facts.2.2.2.1 h
    · subst h; exact names_facts.2.2.2.2.2.2.1
  · apply good_of_class
    intro c hc
    obtain ⟨it, hit, hin⟩ := fullMatch_mem hf c (List.mem_cons_of_mem _ hc)
    rw [Inst.filename_shape] at hit
    simp only [List.mem_cons, List.not_mem_nil, or_false] at hit
    rcases hit with rfl | rfl | rfl
    · exact sub_rn names_facts.2.2.2.2.1 hin
    · rw [inRanges_dot hin]; exact names_facts.2.2.2.2.2.2.2.1
    · exact sub_rn names_facts.2.2.2.2.2.1 hin

/-- scanning a sequence of pieces `/x/y/z` -/
theorem scan_pieces (X : Str) : ∀ (xs : List Str), (∀ x ∈ xs, PieceOK x) →
    (xs.all (fun x => x.all notTP) = true ∧ scanName (slashed xs ++ X) = scanName X) ∨
    (xs.all (fun x => x.all notTP) = false ∧
      ∃ c v, scanName (slashed xs ++ X) = c :: v ∧ notTP c = false) := by
  intro xs
  induction xs with
  | nil => intro _; left; exact ⟨rfl, rfl⟩
  | cons x xs ih =>
    intro h
    obtain ⟨d, t, rfl, hd, hg⟩ := h x List.mem_cons_self
    have ih := ih (fun y hy => h y (List.mem_cons_of_mem _ hy))
    rw [slashed_cons]
    simp only [List.cons_append, List.append_assoc]
    rw [scan_slash hd, scan_good _ hg]
    simp only [List.all_cons, rnR1_notTP hd, Bool.true_and]
    cases ht : t.all notTP with
    | true =>
      simp only [↓reduceIte, Bool.true_and]
      exact ih
    | false =>
      right
      obtain ⟨c, v, hc, hn⟩ := dropWhile_tp ht
      exact ⟨by simp, c, v ++ (slashed xs ++ X), by simp [hc], hn⟩


/-! ### header-less transform segments as lists of pieces -/

def segPieces (as : List Action) (f : Option Str) : List Str :=
  encodeActions T as ++ (match f with | none => [] | some x => [x])

theorem bodyText_pieces {as : List Action} (hwfa : wfActions as = true) (f : Option Str) :
    bodyText T as f = joinStr ['/'] (segPieces as f) := by
  cases f with
  | none => simp [bodyText, segPieces]
  | some fn => rw [bodyText_file as hwfa fn, segPieces, joinStr_snoc]

theorem encodeActions_ok : ∀ {as : List Action}, wfActions as = true → ∀ x ∈ encodeActions T as, PieceOK x
  | [], _ => by simp [encodeActions]
  | a :: as, h => by
    simp only [wfActions, Bool.and_eq_true] at h
    simp only [encodeActions, List.mem_cons]
    rintro x (rfl | hx)
    · exact action_piece h.1
    · exact encodeActions_ok h.2 x hx

def isPlain : Seg → Bool
  | .transform none _ _ => true
  | _ => false

def Seg.pieces : Seg → List Str
  | .transform none as f => segPieces as f
  | _ => []

theorem plain_facts {s : Seg} (hp : isPlain s = true) (hwf : wfSeg s = true) :
    s.encode T = joinStr ['/'] s.pieces ∧ s.pieces ≠ [] ∧ ∀ x ∈ s.pieces, PieceOK x := by
  match s, hp, hwf with
  | .transform none as f, _, hwf =>
    simp only [wfSeg, Bool.and_eq_true, Bool.or_eq_true, Bool.not_eq_true'] at hwf
    obtain ⟨⟨has, hne⟩, hfn⟩ := hwf
    refine ⟨by rw [Seg.encode_plain, bodyText_pieces has]; rfl, ?_, ?_⟩
    · simp only [Seg.pieces, segPieces]
      rcases hne with h | h
      · cases as with
        | nil => simp at h
        | cons a as => simp [encodeActions]
      · cases f with
        | none => simp at h
        | some x => simp
    · intro x hx
      simp only [Seg.pieces, segPieces, List.mem_append] at hx
      rcases hx with hx | hx
      · exact encodeActions_ok has x hx
      · cases f with
        | none => simp at hx
        | some fn =>
          simp only [List.mem_singleton] at hx
          subst hx; exact filename_piece hfn

theorem slashed_joinStr {l : List Str} (h : l ≠ []) : '/' :: joinStr ['/'] l = slashed l := by
  cases l with
  | nil => exact absurd rfl h
  | cons x xs => rw [joinStr_cons, slashed_cons]

theorem all_joinStr : ∀ (l : List Str), (joinStr ['/'] l).all notTP = l.all (fun x => x.all notTP)
  | [] => rfl
  | [w] => by simp [joinStr]
  | w :: w' :: ws => by
    have ih := all_joinStr (w' :: ws)
    simp only [joinStr, List.all_append, ih, List.all_cons]
    simp [notTP]

theorem plain_text : ∀ (P : List Seg), (∀ x ∈ P, isPlain x = true) → wfSegs P = true →
    slashSegs P = slashed (P.flatMap Seg.pieces) ∧ (∀ x ∈ P.flatMap Seg.pieces, PieceOK x) ∧
    P.all (fun x => noTildePercent (x.encode T)) = (P.flatMap Seg.pieces).all (fun x => x.all notTP) := by
  intro P
  induction P with
  | nil => intro _ _; exact ⟨rfl, by simp, rfl⟩
  | cons s P ih =>
    intro hp hwf
    simp only [wfSegs, Bool.and_eq_true] at hwf
    obtain ⟨h1, h2, h3⟩ := ih (fun x hx => hp x (List.mem_cons_of_mem _ hx)) hwf.2
    obtain ⟨e1, e2, e3⟩ := plain_facts (hp s List.mem_cons_self) hwf.1
    refine ⟨?_, ?_, ?_⟩
    · rw [slashSegs_cons, List.flatMap_cons, slashed_append, ← slashed_joinStr e2, ← e1, h1]
      simp
    · intro x hx
      simp only [List.flatMap_cons, List.mem_append] at hx
      rcases hx with hx | hx
      · exact e3 x hx
      · exact h2 x hx
    · simp only [noTildePercent_eq] at h3
      simp only [List.all_cons, List.flatMap_cons, List.all_append, noTildePercent_eq, e1, all_joinStr, h3]

/-- what `resource_path` leaves of the canonical text of header-less transform segments followed by `Z` -/
theorem scan_plain (s : Seg) (P : List Seg) (hp : ∀ x ∈ s :: P, isPlain x = true)
    (hwf : wfSegs (s :: P) = true) (Z : Str) :
    ∃ d W, s.encode T ++ slashSegs P ++ Z = d :: W ∧ inRanges Inst.rnR1 d = true ∧
      (((s :: P).all (fun x => noTildePercent (x.encode T)) = true ∧ scanName W = scanName Z) ∨
       ((s :: P).all (fun x => noTildePercent (x.encode T)) = false ∧
          ∃ c v, scanName W = c :: v ∧ notTP c = false)) := by
  obtain ⟨h1, h2, h3⟩ := plain_text (s :: P) hp hwf
  have hwf' := hwf
  simp only [wfSegs, Bool.and_eq_true] at hwf'
  obtain ⟨e1, e2, e3⟩ := plain_facts (hp s List.mem_cons_self) hwf'.1
  obtain ⟨g1, _, _⟩ := plain_text P (fun x hx => hp x (List.mem_cons_of_mem _ hx)) hwf'.2
  cases hps : s.pieces with
  | nil => exact absurd hps e2
  | cons x1 xs1 =>
    obtain ⟨d, t, rfl, hd, hg⟩ := e3 x1 (by rw [hps]; exact List.mem_cons_self)
    refine ⟨d, t ++ (slashed (xs1 ++ P.flatMap Seg.pieces) ++ Z), ?_, hd, ?_⟩
    · rw [e1, hps, joinStr_cons, g1, slashed_append]; simp
    · rw [h3, List.flatMap_cons, hps]
      simp only [List.cons_append, List.all_cons, rnR1_notTP hd, Bool.true_and]
      rw [scan_good _ hg]
      have hok : ∀ x ∈ xs1 ++ P.flatMap Seg.pieces, PieceOK x := by
        intro x hx
        apply h2 x
        rw [List.flatMap_cons, hps]
        exact List.mem_cons_of_mem _ hx
      cases ht : t.all notTP with
      | true =>
        simp only [↓reduceIte, Bool.true_and]
        exact scan_pieces Z _ hok
      | false =>
        right
        obtain ⟨c, v, hc, hn⟩ := dropWhile_tp ht
        exact ⟨by simp, c, v ++ (slashed (xs1 ++ P.flatMap Seg.pieces) ++ Z), by simp [hc], hn⟩

end Liquer
