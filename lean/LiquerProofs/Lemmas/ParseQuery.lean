/-
C02 helper lemmas, part 9 (S4/S5): segment lists, `parse_query`, and the closure of the induction on
the nesting depth of links.
-/
import LiquerProofs.Lemmas.ParseSeg

namespace Liquer
open PS

variable {dec : List UInt8 → List Char}

/-- `/seg/seg…` -/
def slashSegs (ss : List Seg) : Str := slashed (encodeSegs T ss)

theorem slashSegs_nil : slashSegs [] = [] := rfl
theorem slashSegs_cons (s : Seg) (ss : List Seg) :
    slashSegs (s :: ss) = '/' :: (s.encode T ++ slashSegs ss) := by
  simp [slashSegs, encodeSegs, slashed_cons]

theorem dpStop_slashSegs (ss : List Seg) {rest : Str} (hq : qStop rest = true) :
    dpStop (slashSegs ss ++ rest) = true := by
  cases ss with
  | nil => simpa [slashSegs_nil] using dpStop_of_qStop hq
  | cons s ss => simp [slashSegs_cons, dpStop]

theorem adjacencyOK_cons2 {k k2 : SegKind} {ks : List SegKind} (h : adjacencyOK (k :: k2 :: ks) = true) :
    k ≠ .rPlain ∧ k2 ≠ .rPlain ∧ adjacencyOK (k2 :: ks) = true ∧
      (∀ e, k2 = .tPlain e → plainMayFollow k = true) := by
  simp only [adjacencyOK, Bool.and_eq_true] at h
  obtain ⟨⟨h1, h2⟩, h3⟩ := h
  refine ⟨?_, ?_, h3, ?_⟩
  · rintro rfl; simp at h1
  · rintro rfl; simp at h2
  · rintro e rfl; simpa using h2

theorem adjacencyOK_head {k : SegKind} {ks : List SegKind} (h : adjacencyOK (k :: ks) = true) :
    k ≠ .rPlain := by
  cases ks with
  | nil => rintro rfl; simp [adjacencyOK] at h
  | cons k2 ks => exact (adjacencyOK_cons2 h).1

theorem kindsOf_cons (s : Seg) (ss : List Seg) : kindsOf (s :: ss) = s.kind :: kindsOf ss := by
  simp [kindsOf]

/-- what follows a segment inside a well-formed segment list -/
theorem follow_of_adj (s : Seg) (ss : List Seg) (rest : Str) (hq : qStop rest = true)
    (hadj : adjacencyOK (s.kind :: kindsOf ss) = true) (hwf : wfSegs ss = true)
    (hws : NoWs (slashSegs ss ++ rest)) :
    Follow (plainMayFollow s.kind) (adjacencyOK [s.kind]) (slashSegs ss ++ rest) := by
  cases ss with
  | nil =>
    left
    exact ⟨by simpa [kindsOf] using hadj, by simpa [slashSegs_nil] using hq⟩
  | cons s2 ss2 =>
    right
    rw [kindsOf_cons] at hadj
    obtain ⟨_, hk2, hrest, hplain⟩ := adjacencyOK_cons2 hadj
    simp only [wfSegs, Bool.and_eq_true] at hwf
    rw [slashSegs_cons] at hws ⊢
    simp only [List.cons_append, List.append_assoc] at hws ⊢
    refine ⟨_, rfl, ?_⟩
    by_cases hh : s2.header.isSome = true
    · right
      apply headerStart_seg s2 hwf.1 hh _ _ (dpStop_slashSegs ss2 hq) hws.tail
      intro hfalse
      cases ss2 with
      | nil => simp only [kindsOf] at hrest; rw [hrest] at hfalse; cases hfalse
      | cons s3 ss3 => exact ⟨_, by rw [slashSegs_cons]; rfl⟩
    · left
      match s2, hk2, hplain, hh with
      | .transform none as f, _, hplain, _ => exact hplain _ rfl
      | .resource none ns, hk2, _, _ => exact absurd rfl hk2
      | .transform (some h) _ _, _, _, hh => simp [Seg.header] at hh
      | .resource (some h) _, _, _, hh => simp [Seg.header] at hh

/-- S4: `ZeroOrMore("/" + query_segment)` -/
theorem segmentsMore_spec (hd : DecOK dec) {d : Nat} (ih : LinkIH dec d) :
    ∀ (ss : List Seg) (k : SegKind), adjacencyOK (k :: kindsOf ss) = true → wfSegs ss = true →
      depthSegs ss ≤ d → ∀ (rest : Str), qStop rest = true → ∀ (p n : Nat),
      NoWs (slashSegs ss ++ rest) → 8 * (slashSegs ss).length + 8 ≤ n →
      ∃ ss' p', parseSegmentsMore dec n ⟨slashSegs ss ++ rest, p⟩ = (ss', ⟨rest, p'⟩) ∧
        eraseSegs ss' = eraseSegs ss := by
  intro ss
  induction ss with
  | nil =>
    intro k _ _ _ rest hq p n hws _
    simp only [slashSegs_nil, List.nil_append] at hws ⊢
    refine ⟨[], p, ?_, rfl⟩
    cases n with
    | zero => simp [parseSegmentsMore]
    | succ n => simp only [parseSegmentsMore, lit_slash_qStop hws hq]
  | cons s ss ihs =>
    intro k hadj hwf hdep rest hq p n hws hn
    rw [kindsOf_cons] at hadj
    obtain ⟨_, hk2, hrest, _⟩ := adjacencyOK_cons2 hadj
    simp only [wfSegs, Bool.and_eq_true] at hwf
    simp only [depthSegs, Nat.max_le] at hdep
    rw [slashSegs_cons] at hws hn ⊢
    simp only [List.cons_append, List.append_assoc, List.length_cons, List.length_append] at hws hn ⊢
    cases n with
    | zero => omega
    | succ n =>
      obtain ⟨s', p1, hs, hse⟩ := seg_spec hd ih s hdep.1 hwf.1 hk2 (slashSegs ss ++ rest)
        (follow_of_adj s ss rest hq hrest hwf.2 hws.tail.right) (p + 1) n hws.tail (by omega)
      obtain ⟨ss', p2, hss, hsse⟩ := ihs s.kind hrest hwf.2 hdep.2 rest hq p1 n hws.tail.right (by omega)
      refine ⟨s' :: ss', p2, ?_, by simp [eraseSegs, hse, hsse]⟩
      simp only [parseSegmentsMore, lit_cons hws, hs, hss]

/-! ### `parse_query` -/

theorem seg_head (s : Seg) (hwf : wfSeg s = true) (hk : s.kind ≠ .rPlain) :
    ∃ c t, s.encode T = c :: t ∧ c ≠ '/' ∧ (s.header.isSome = true → c = '-') ∧
      (s.header.isSome = false → c ≠ '-') := by
  match s, hwf, hk with
  | .transform (some (.mk name lvl ps res)) as f, hwf, _ =>
    simp only [wfSeg, Bool.and_eq_true, Bool.not_eq_true', decide_eq_true_eq, Bool.or_eq_true] at hwf
    obtain ⟨⟨⟨⟨⟨⟨hres, hl⟩, _⟩, _⟩, _⟩, has⟩, hfn⟩ := hwf
    subst hres
    rw [encode_headed_eq name lvl ps as f has (by rintro x rfl; exact hfn)]
    cases lvl with
    | zero => omega
    | succ k => exact ⟨'-', _, by simp only [List.replicate_succ, List.cons_append]; rfl, by decide,
        fun _ => rfl, by simp [Seg.header]⟩
  | .resource (some (.mk name lvl ps res)) ns, hwf, _ =>
    simp only [wfSeg, Bool.and_eq_true, decide_eq_true_eq] at hwf
    obtain ⟨⟨⟨⟨⟨hres, hl⟩, _⟩, _⟩, _⟩, hns⟩ := hwf
    subst hres
    rw [encode_resHeaded_eq name lvl ps ns hl hns]
    cases lvl with
    | zero => omega
    | succ k => exact ⟨'-', _, by simp only [List.replicate_succ, List.cons_append]; rfl, by decide,
        fun _ => rfl, by simp [Seg.header]⟩
  | .transform none as f, hwf, _ =>
    simp only [wfSeg, Bool.and_eq_true, Bool.or_eq_true, Bool.not_eq_true'] at hwf
    obtain ⟨⟨has, hne⟩, hfn⟩ := hwf
    have hne' : as ≠ [] ∨ f.isSome = true := by
      rcases hne with h | h
      · left; intro e; subst e; simp at h
      · exact Or.inr h
    obtain ⟨c, t, he, hc⟩ := bodyText_head has hne' (by rintro x rfl; exact hfn)
    rw [Seg.encode_plain]
    exact ⟨c, t, he, pathHead_ne_slash hc, by simp [Seg.header], fun _ => pathHead_ne_dash hc⟩
  | .resource none ns, _, hk => exact absurd rfl hk

theorem encode_inner (s : Seg) (ss : List Seg) (a : Bool) (hwf : wfInner (.mk (s :: ss) a) = true) :
    (Query.mk (s :: ss) a).encode T = (if a then ['/'] else []) ++ (s.encode T ++ slashSegs ss) := by
  simp only [wfInner, Bool.and_eq_true, wfSegs] at hwf
  rw [Query.encode_eq]
  have hj : joinStr ['/'] (encodeSegs T (s :: ss)) = s.encode T ++ slashSegs ss := by
    simp [encodeSegs, joinStr_cons, slashSegs]
  rw [hj]
  have : (isSingleRes (s :: ss) && (s.encode T ++ slashSegs ss).head? != some '-') = false := by
    cases hsr : isSingleRes (s :: ss) with
    | false => rfl
    | true =>
      have hk : s.kind ≠ .rPlain := adjacencyOK_head (by simpa [kindsOf_cons] using hwf.2)
      obtain ⟨c, t, he, _, h1, _⟩ := seg_head s hwf.1.2.1 hk
      have hh : s.header.isSome = true := by
        match s, ss, hsr, hk with
        | .resource (some h) ns, [], _, _ => rfl
        | .resource none ns, [], _, hk => exact absurd rfl hk
        | .transform _ _ _, [], hsr, _ => simp [isSingleRes] at hsr
        | _, _ :: _, hsr, _ => simp [isSingleRes] at hsr
      simp [he, h1 hh]
  rw [this]
  simp

/-- S4/S5: `parse_query` on the canonical text of a well-formed link query -/
theorem query_spec (hd : DecOK dec) {d : Nat} (ih : LinkIH dec d) (q : Query) (hdep : q.depth ≤ d)
    (hwf : wfInner q = true) (rest : Str) (p n : Nat) (hws : NoWs (q.encode T ++ rest))
    (hq : qStop rest = true) (hn : 8 * (q.encode T).length + 9 ≤ n) :
    ∃ q' p', parseQuery dec n ⟨q.encode T ++ rest, p⟩ = some (q', ⟨rest, p'⟩) ∧ q'.erase = q.erase := by
  obtain ⟨segs, a⟩ := q
  cases segs with
  | nil => simp [wfInner] at hwf
  | cons s ss =>
    rw [encode_inner s ss a hwf] at hws hn ⊢
    simp only [wfInner, Bool.and_eq_true, wfSegs] at hwf
    obtain ⟨⟨_, hws1, hwss⟩, hadj⟩ := hwf
    rw [kindsOf_cons] at hadj
    have hk := adjacencyOK_head hadj
    simp only [Query.depth, depthSegs, Nat.max_le] at hdep
    cases n with
    | zero => omega
    | succ n =>
      have hmain : ∀ p0, NoWs (s.encode T ++ slashSegs ss ++ rest) →
          8 * (s.encode T ++ slashSegs ss).length + 8 ≤ n →
          ∃ s' ss' p', parseSegment dec n ⟨s.encode T ++ slashSegs ss ++ rest, p0⟩ =
              some (s', ⟨slashSegs ss ++ rest, p'⟩) ∧
            (∃ p'', parseSegmentsMore dec n ⟨slashSegs ss ++ rest, p'⟩ = (ss', ⟨rest, p''⟩)) ∧
            s'.erase = s.erase ∧ eraseSegs ss' = eraseSegs ss := by
        intro p0 hw hn'
        rw [List.append_assoc] at hw ⊢
        simp only [List.length_append] at hn'
        obtain ⟨s', p1, hs, hse⟩ := seg_spec hd ih s hdep.1 hws1 hk (slashSegs ss ++ rest)
          (follow_of_adj s ss rest hq hadj hwss hw.right) p0 n hw (by omega)
        obtain ⟨ss', p2, hss, hsse⟩ := segmentsMore_spec hd ih ss s.kind hadj hwss hdep.2 rest hq p1 n
          hw.right (by omega)
        exact ⟨s', ss', p1, hs, ⟨p2, hss⟩, hse, hsse⟩
      cases a with
      | true =>
        simp only [↓reduceIte, List.cons_append, List.nil_append, List.length_cons] at hws hn ⊢
        obtain ⟨s', ss', p1, hs, ⟨p2, hss⟩, hse, hsse⟩ := hmain (p + 1) hws.tail (by omega)
        refine ⟨.mk (s' :: ss') true, p2, ?_, by simp [Query.erase, eraseSegs, hse, hsse]⟩
        simp only [parseQuery, lit_cons hws, hs, hss]
      | false =>
        simp only [Bool.false_eq_true, ↓reduceIte, List.nil_append] at hws hn ⊢
        obtain ⟨s', ss', p1, hs, ⟨p2, hss⟩, hse, hsse⟩ := hmain p hws (by omega)
        refine ⟨.mk (s' :: ss') false, p2, ?_, by simp [Query.erase, eraseSegs, hse, hsse]⟩
        obtain ⟨c, t, he, hc, _⟩ := seg_head s hws1 hk
        have hlit : lit ['/'] ⟨s.encode T ++ slashSegs ss ++ rest, p⟩ = none := by
          rw [he] at hws ⊢
          exact lit_ne_head hws (Ne.symm hc)
        simp only [parseQuery, hlit, hs, hss]

/-- S5: the induction on the nesting depth closes -/
theorem linkIH_all (hd : DecOK dec) : ∀ d, LinkIH dec d := by
  intro d
  induction d with
  | zero => intro q hq; omega
  | succ d ih =>
    intro q hdep hwf rest p n hws hq hn
    exact query_spec hd ih q (by omega) hwf rest p n hws hq hn

/-- every well-formed link query, links nested to any depth -/
theorem parseQuery_encode (hd : DecOK dec) (q : Query) (hwf : wfInner q = true) (rest : Str)
    (p n : Nat) (hws : NoWs (q.encode T ++ rest)) (hq : qStop rest = true)
    (hn : 8 * (q.encode T).length + 9 ≤ n) :
    ∃ q' p', parseQuery dec n ⟨q.encode T ++ rest, p⟩ = some (q', ⟨rest, p'⟩) ∧ q'.erase = q.erase :=
  query_spec hd (linkIH_all hd q.depth) q (Nat.le_refl _) hwf rest p n hws hq hn

end Liquer
