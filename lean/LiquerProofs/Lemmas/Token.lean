/-
Helper lemmas for C03: the escape-table stages of `encode_token` seen as rewriting of an item list,
decoding of the resulting text, URL-path safety, and the split/join lemmas of the list-of-lists form.
-/
import LiquerModel.Token
import LiquerProofs.Lemmas.Quote

namespace Liquer

/-! ### items: the text between two table stages

After some stages the text is a sequence of literal characters and of *entities* `~x`, each entity
standing for the pattern `p` it replaced. -/

inductive Item where
  | lit (c : Char)
  | ent (p : List Char) (x : Char)

/-- how an item is printed in the current (escaped, not yet quoted) text -/
def Item.flat : Item → List Char
  | .lit c => [c]
  | .ent _ x => ['~', x]

/-- what an item denotes in the original text -/
def Item.val : Item → List Char
  | .lit c => [c]
  | .ent p _ => p

/-- how an item is printed after `quote` -/
def Item.enc : Item → List Char
  | .lit c => quoteChar c
  | .ent _ x => ['~', x]

def flatI (is : List Item) : List Char := is.flatMap Item.flat
def valI (is : List Item) : List Char := is.flatMap Item.val
def encI (is : List Item) : List Char := is.flatMap Item.enc

theorem flatI_cons (i : Item) (is : List Item) : flatI (i :: is) = i.flat ++ flatI is := by
  simp [flatI]
theorem valI_cons (i : Item) (is : List Item) : valI (i :: is) = i.val ++ valI is := by
  simp [valI]
theorem encI_cons (i : Item) (is : List Item) : encI (i :: is) = i.enc ++ encI is := by
  simp [encI]
theorem flatI_append (a b : List Item) : flatI (a ++ b) = flatI a ++ flatI b := by simp [flatI]
theorem valI_append (a b : List Item) : valI (a ++ b) = valI a ++ valI b := by simp [valI]
theorem flatI_lits (p : List Char) : flatI (p.map Item.lit) = p := by
  induction p with
  | nil => rfl
  | cons c p ih => rw [List.map_cons, flatI_cons, ih]; rfl
theorem valI_lits (p : List Char) : valI (p.map Item.lit) = p := by
  induction p with
  | nil => rfl
  | cons c p ih => rw [List.map_cons, valI_cons, ih]; rfl

/-- a pattern without `~` can only match inside a run of literals -/
theorem prefix_lits (p : List Char) (hpt : '~' ∉ p) :
    ∀ items : List Item, isPrefix p (flatI items) = true →
      ∃ rest, items = p.map Item.lit ++ rest := by
  induction p with
  | nil => intro items _; exact ⟨items, rfl⟩
  | cons a p ih =>
    intro items h
    cases items with
    | nil => simp [flatI, isPrefix] at h
    | cons it items =>
      cases it with
      | lit c =>
        simp only [flatI_cons, Item.flat, List.singleton_append, isPrefix_cons_cons,
          Bool.and_eq_true, beq_iff_eq] at h
        obtain ⟨rest, hr⟩ := ih (fun hm => hpt (List.mem_cons_of_mem _ hm)) items h.2
        exact ⟨rest, by rw [h.1, hr]; rfl⟩
      | ent q y =>
        simp only [flatI_cons, Item.flat, List.cons_append, List.nil_append, isPrefix_cons_cons,
          Bool.and_eq_true, beq_iff_eq] at h
        exact absurd (h.1 ▸ List.mem_cons_self) hpt

/-- one table stage `(p, ~x)` on an item list whose entity letters do not occur in `p` -/
theorem stage_items (p : List Char) (x : Char) (hp : p ≠ []) (hpt : '~' ∉ p) :
    ∀ (n : Nat) (items : List Item), items.length ≤ n →
      (∀ q y, Item.ent q y ∈ items → y ∉ p) →
      ∃ items', flatI items' = replaceAll p ['~', x] (flatI items) ∧ valI items' = valI items ∧
        ∀ it ∈ items', it ∈ items ∨ it = Item.ent p x := by
  intro n
  induction n with
  | zero =>
    intro items hl _
    have : items = [] := List.eq_nil_of_length_eq_zero (by omega)
    subst this
    exact ⟨[], by simp [flatI, replaceAll_nil], rfl, by simp⟩
  | succ n ih =>
    intro items hl he
    cases items with
    | nil => exact ⟨[], by simp [flatI, replaceAll_nil], rfl, by simp⟩
    | cons it items =>
      have hl' : items.length ≤ n := by simp only [List.length_cons] at hl; omega
      have he' : ∀ q y, Item.ent q y ∈ items → y ∉ p :=
        fun q y h => he q y (List.mem_cons_of_mem _ h)
      cases it with
      | ent q y =>
        obtain ⟨items', h1, h2, h3⟩ := ih items hl' he'
        refine ⟨Item.ent q y :: items', ?_, ?_, ?_⟩
        · cases p with
          | nil => exact absurd rfl hp
          | cons a p' =>
            have ha1 : a ≠ '~' := fun h => hpt (h ▸ List.mem_cons_self)
            have ha2 : a ≠ y := fun h => he q y List.mem_cons_self (h ▸ List.mem_cons_self)
            simp only [flatI_cons, Item.flat, List.cons_append, List.nil_append]
            rw [replaceAll_cons_ne _ _ _ _ _ ha1, replaceAll_cons_ne _ _ _ _ _ ha2, h1]
        · rw [valI_cons, valI_cons, h2]
        · intro it hit
          rcases List.mem_cons.mp hit with rfl | hit
          · exact Or.inl List.mem_cons_self
          · rcases h3 it hit with h | h
            · exact Or.inl (List.mem_cons_of_mem _ h)
            · exact Or.inr h
      | lit c =>
        cases hpre : isPrefix p (flatI (Item.lit c :: items)) with
        | true =>
          obtain ⟨rest, hr⟩ := prefix_lits p hpt _ hpre
          have hlen : rest.length ≤ n := by
            have := congrArg List.length hr
            simp only [List.length_cons, List.length_append, List.length_map] at this
            have : 0 < p.length := List.length_pos_iff.mpr hp
            omega
          have hsub : ∀ it, it ∈ rest → it ∈ Item.lit c :: items := by
            intro it h; rw [hr]; exact List.mem_append_right _ h
          obtain ⟨items', h1, h2, h3⟩ := ih rest hlen (fun q y h => he q y (hsub _ h))
          refine ⟨Item.ent p x :: items', ?_, ?_, ?_⟩
          · rw [hr, flatI_append, flatI_lits, replaceAll_append_match _ _ _ hp, flatI_cons, h1]
            rfl
          · rw [hr, valI_append, valI_lits, valI_cons, h2]; rfl
          · intro it hit
            rcases List.mem_cons.mp hit with rfl | hit
            · exact Or.inr rfl
            · rcases h3 it hit with h | h
              · exact Or.inl (hsub _ h)
              · exact Or.inr h
        | false =>
          obtain ⟨items', h1, h2, h3⟩ := ih items hl' he'
          refine ⟨Item.lit c :: items', ?_, ?_, ?_⟩
          · simp only [flatI_cons, Item.flat, List.singleton_append] at hpre ⊢
            rw [replaceAll_cons_noPrefix _ _ _ _ hpre, h1]
          · rw [valI_cons, valI_cons, h2]
          · intro it hit
            rcases List.mem_cons.mp hit with rfl | hit
            · exact Or.inl List.mem_cons_self
            · rcases h3 it hit with h | h
              · exact Or.inl (List.mem_cons_of_mem _ h)
              · exact Or.inr h

/-- the first stage `("~", "~~")` -/
theorem stage0_items (s : List Char) :
    ∃ items, flatI items = replaceAll ['~'] ['~', '~'] s ∧ valI items = s ∧
      ∀ it ∈ items, (∃ c, it = Item.lit c ∧ c ≠ '~') ∨ it = Item.ent ['~'] '~' := by
  induction s with
  | nil => exact ⟨[], by simp [flatI, replaceAll_nil], rfl, by simp⟩
  | cons c s ih =>
    obtain ⟨items, h1, h2, h3⟩ := ih
    by_cases hc : c = '~'
    · subst hc
      refine ⟨Item.ent ['~'] '~' :: items, ?_, ?_, ?_⟩
      · have := replaceAll_append_match ['~'] ['~', '~'] s (by simp)
        simp only [List.cons_append, List.nil_append] at this
        rw [this, flatI_cons, h1]; rfl
      · rw [valI_cons, h2]; rfl
      · intro it hit
        rcases List.mem_cons.mp hit with rfl | hit
        · exact Or.inr rfl
        · exact h3 it hit
    · refine ⟨Item.lit c :: items, ?_, ?_, ?_⟩
      · rw [replaceAll_cons_ne _ _ _ _ _ (Ne.symm hc), flatI_cons, h1]; rfl
      · rw [valI_cons, h2]; rfl
      · intro it hit
        rcases List.mem_cons.mp hit with rfl | hit
        · exact Or.inl ⟨c, rfl, hc⟩
        · exact h3 it hit

/-! ### unpacking `tableOK` -/

/-- side condition on the not-yet-applied part of the table -/
def RemOK : EscTable → Prop
  | [] => True
  | (p, e) :: rest =>
    p ≠ [] ∧ '~' ∉ p ∧ (∃ x, e = ['~', x] ∧ ∀ r ∈ rest, x ∉ r.1) ∧ RemOK rest

theorem codeLetter?_eq_some {e : List Char} {c : Char} (h : codeLetter? e = some c) :
    e = ['~', c] := by
  unfold codeLetter? at h
  split at h
  · simp only [Option.some.injEq] at h; subst h; rfl
  · simp at h

theorem laterOK_cons {p e : List Char} {rest : EscTable} (h : laterOK ((p, e) :: rest) = true) :
    (∃ c, e = ['~', c] ∧ quoteSafe c = true ∧ (∀ r ∈ rest, c ∉ r.1) ∧ (∀ r ∈ rest, r.2 ≠ e)) ∧
      laterOK rest = true := by
  simp only [laterOK, Bool.and_eq_true] at h
  refine ⟨?_, h.2⟩
  have h1 := h.1
  split at h1
  · simp at h1
  next c hc =>
    simp only [Bool.and_eq_true, List.all_eq_true, Bool.not_eq_true', bne_iff_ne, ne_eq] at h1
    refine ⟨c, codeLetter?_eq_some hc, h1.1, fun r hr => ?_, fun r hr => (h1.2 r hr).2⟩
    have := (h1.2 r hr).1
    simpa using this

theorem RemOK_of_laterOK : ∀ (l : EscTable), laterOK l = true →
    (∀ q ∈ l, q.1 ≠ [] ∧ '~' ∉ q.1) → RemOK l := by
  intro l
  induction l with
  | nil => intro _ _; trivial
  | cons pe rest ih =>
    intro h hq
    obtain ⟨p, e⟩ := pe
    obtain ⟨⟨c, he, _, hc, _⟩, hl⟩ := laterOK_cons h
    have := hq (p, e) List.mem_cons_self
    exact ⟨this.1, this.2, ⟨c, he, hc⟩, ih hl (fun q hq' => hq q (List.mem_cons_of_mem _ hq'))⟩

/-- all codes of a `laterOK` table are `~c` with a quote-safe letter `c` -/
theorem laterOK_codes : ∀ (l : EscTable), laterOK l = true →
    ∀ q ∈ l, ∃ c, q.2 = ['~', c] ∧ quoteSafe c = true := by
  intro l
  induction l with
  | nil => intro _ q hq; simp at hq
  | cons pe rest ih =>
    intro h q hq
    obtain ⟨p, e⟩ := pe
    obtain ⟨⟨c, he, hs, _, _⟩, hl⟩ := laterOK_cons h
    rcases List.mem_cons.mp hq with rfl | hq
    · exact ⟨c, he, hs⟩
    · exact ih hl q hq

/-- codes are pairwise distinct, so the decoding dictionary finds the pattern of every entry -/
theorem decLookup_of_mem : ∀ (l : EscTable), laterOK l = true →
    ∀ q ∈ l, decLookup l q.2 = some q.1 := by
  intro l
  induction l with
  | nil => intro _ q hq; simp at hq
  | cons pe rest ih =>
    intro h q hq
    obtain ⟨p, e⟩ := pe
    obtain ⟨⟨c, he, _, _, hne⟩, hl⟩ := laterOK_cons h
    unfold decLookup
    rw [List.reverse_cons, List.find?_append]
    rcases List.mem_cons.mp hq with rfl | hq
    · have : List.find? (fun pe => pe.2 == e) rest.reverse = none := by
        rw [List.find?_eq_none]
        intro r hr
        simpa using hne r (List.mem_reverse.mp hr)
      simp [this]
    · have := ih hl q hq
      unfold decLookup at this
      cases hf : List.find? (fun pe => pe.2 == q.2) rest.reverse with
      | none => simp [hf] at this
      | some r => simp only [hf, Option.map_some, Option.some.injEq] at this; simp [this]

structure TableFacts (tbl rest : EscTable) : Prop where
  eq : tbl = (['~'], ['~', '~']) :: rest
  rem : RemOK rest
  noTilde : ∀ r ∈ rest, '~' ∉ r.1
  plain : ∀ q ∈ tbl, ∀ c ∈ q.1, isAscii c = true ∧ c ≠ '%'
  codes : ∀ q ∈ tbl, ∃ c, q.2 = ['~', c] ∧ quoteSafe c = true
  lookup : ∀ q ∈ tbl, decLookup tbl q.2 = some q.1

theorem tableFacts {tbl : EscTable} (h : tableOK tbl = true) : ∃ rest, TableFacts tbl rest := by
  unfold tableOK at h
  split at h
  · simp at h
  next p0 e0 rest =>
    simp only [Bool.and_eq_true, beq_iff_eq, List.all_eq_true, Bool.not_eq_true',
      bne_iff_ne, ne_eq] at h
    obtain ⟨⟨⟨⟨rfl, rfl⟩, h3⟩, h4⟩, h5⟩ := h
    have h3' : ∀ q ∈ rest, q.1 ≠ [] ∧ '~' ∉ q.1 := by
      intro q hq
      have := h3 q hq
      constructor
      · intro he; simp [he] at this
      · simpa using this.2
    refine ⟨rest, rfl, RemOK_of_laterOK rest (laterOK_cons h5).2 h3', fun r hr => (h3' r hr).2,
      ?_, laterOK_codes _ h5, decLookup_of_mem _ h5⟩
    intro q hq c hc
    rcases List.mem_cons.mp hq with rfl | hq
    · simp only [List.mem_singleton] at hc; subst hc; decide
    · exact h4 q hq c hc

/-! ### all stages -/

/-- the invariant of an item while the entries `rem` are still to be applied -/
def Item.good (tbl rem : EscTable) : Item → Prop
  | .lit c => c ≠ '~'
  | .ent q y => (q, ['~', y]) ∈ tbl ∧ ∀ r ∈ rem, y ∉ r.1

theorem fold_items (tbl : EscTable) : ∀ (rem : EscTable), (∀ r ∈ rem, r ∈ tbl) → RemOK rem →
    ∀ items : List Item, (∀ it ∈ items, it.good tbl rem) →
      ∃ items', flatI items' = rem.foldl (fun t pe => replaceAll pe.1 pe.2 t) (flatI items) ∧
        valI items' = valI items ∧ ∀ it ∈ items', it.good tbl [] := by
  intro rem
  induction rem with
  | nil =>
    intro _ _ items hg
    exact ⟨items, rfl, rfl, hg⟩
  | cons pe rem ih =>
    intro hsub hrem items hg
    obtain ⟨p, e⟩ := pe
    obtain ⟨hp, hpt, ⟨x, rfl, hx⟩, hrem'⟩ := hrem
    have he : ∀ q y, Item.ent q y ∈ items → y ∉ p :=
      fun q y h => (hg _ h).2 (p, ['~', x]) List.mem_cons_self
    obtain ⟨items1, h1, h2, h3⟩ := stage_items p x hp hpt items.length items (Nat.le_refl _) he
    have hg1 : ∀ it ∈ items1, it.good tbl rem := by
      intro it hit
      rcases h3 it hit with h | rfl
      · have := hg it h
        cases it with
        | lit c => exact this
        | ent q y => exact ⟨this.1, fun r hr => this.2 r (List.mem_cons_of_mem _ hr)⟩
      · exact ⟨hsub _ List.mem_cons_self, hx⟩
    obtain ⟨items2, k1, k2, k3⟩ :=
      ih (fun r hr => hsub r (List.mem_cons_of_mem _ hr)) hrem' items1 hg1
    exact ⟨items2, by rw [k1, h1]; rfl, by rw [k2, h2], k3⟩

/-- the escaped text is an item list denoting the original string -/
theorem applyTable_items {tbl rest : EscTable} (hf : TableFacts tbl rest) (s : List Char) :
    ∃ items, flatI items = applyTable tbl s ∧ valI items = s ∧ ∀ it ∈ items, it.good tbl [] := by
  obtain ⟨items0, h1, h2, h3⟩ := stage0_items s
  have hsub : ∀ r ∈ rest, r ∈ tbl := by
    intro r hr; rw [hf.eq]; exact List.mem_cons_of_mem _ hr
  have hg0 : ∀ it ∈ items0, it.good tbl rest := by
    intro it hit
    rcases h3 it hit with ⟨c, rfl, hc⟩ | rfl
    · exact hc
    · exact ⟨by rw [hf.eq]; exact List.mem_cons_self, hf.noTilde⟩
  obtain ⟨items, k1, k2, k3⟩ := fold_items tbl rest hsub hf.rem items0 hg0
  refine ⟨items, ?_, by rw [k2, h2], k3⟩
  rw [k1, h1, applyTable, hf.eq]
  rfl

/-! ### `quote` and the trailing replacements -/

theorem encodeToken_eq_quote (tbl : EscTable) (s : List Char) :
    encodeToken tbl s = quote (applyTable tbl s) := by
  unfold encodeToken
  have hok : ∀ a ∈ (applyTable tbl s).flatMap atomsOf, a.ok := by
    intro a ha
    obtain ⟨c, _, hc⟩ := List.mem_flatMap.mp ha
    exact atomsOf_ok c a hc
  rw [quote_eq, replaceAll_pct7_noop 'E' (Or.inl rfl) _ hok,
    replaceAll_pct7_noop 'e' (Or.inr rfl) _ hok]

theorem quote_flatI (items : List Item)
    (hq : ∀ q y, Item.ent q y ∈ items → quoteSafe y = true) :
    quote (flatI items) = encI items := by
  induction items with
  | nil => rfl
  | cons it items ih =>
    rw [flatI_cons, quote_append, encI_cons,
      ih (fun q y h => hq q y (List.mem_cons_of_mem _ h))]
    congr 1
    cases it with
    | lit c => simp [Item.flat, Item.enc, quote]
    | ent q y =>
      have hy := hq q y List.mem_cons_self
      simp [Item.flat, Item.enc, quote, quoteChar, hy, quoteSafe_tilde]

/-! ### decoding -/

theorem splitAtTilde_none (t : List Char) (h : '~' ∉ t) : splitAtTilde t = none := by
  induction t with
  | nil => rfl
  | cons c t ih =>
    have hc : c ≠ '~' := fun e => h (e ▸ List.mem_cons_self)
    simp [splitAtTilde, hc, ih (fun hm => h (List.mem_cons_of_mem _ hm))]

theorem splitAtTilde_append (hd r : List Char) (h : '~' ∉ hd) :
    splitAtTilde (hd ++ '~' :: r) = some (hd, '~' :: r) := by
  induction hd with
  | nil => simp [splitAtTilde]
  | cons c hd ih =>
    have hc : c ≠ '~' := fun e => h (e ▸ List.mem_cons_self)
    simp [splitAtTilde, hc, ih (fun hm => h (List.mem_cons_of_mem _ hm))]

theorem splitAtTilde_some {t hd r : List Char} (h : splitAtTilde t = some (hd, r)) :
    r ≠ [] ∧ r.length ≤ t.length := by
  induction t generalizing hd r with
  | nil => simp [splitAtTilde] at h
  | cons c t ih =>
    simp only [splitAtTilde] at h
    split at h
    · simp only [Option.some.injEq, Prod.mk.injEq] at h
      obtain ⟨_, rfl⟩ := h
      simp
    · cases hs : splitAtTilde t with
      | none => simp [hs] at h
      | some hr =>
        obtain ⟨hd', r'⟩ := hr
        simp only [hs, Option.map_some, Option.some.injEq, Prod.mk.injEq] at h
        obtain ⟨_, rfl⟩ := h
        have := ih hs
        exact ⟨this.1, by simp only [List.length_cons]; omega⟩

theorem decodeTokenF_fuel (tbl : EscTable) (dec : List UInt8 → List Char) :
    ∀ (n m : Nat) (t : List Char), t.length < n → t.length < m →
      decodeTokenF tbl dec n t = decodeTokenF tbl dec m t := by
  intro n
  induction n with
  | zero => intro m t h; omega
  | succ n ih =>
    intro m t hn hm
    cases m with
    | zero => omega
    | succ m =>
      simp only [decodeTokenF]
      split
      · rfl
      · split
        · rfl
        next hd r hs =>
          have ⟨hne, hlen⟩ := splitAtTilde_some hs
          have : (r.drop 2).length < r.length := by
            cases r with
            | nil => exact absurd rfl hne
            | cons a r => simp only [List.length_drop, List.length_cons]; omega
          congr 1
          apply ih <;> omega

theorem decodeToken_noTilde (tbl : EscTable) (dec : List UInt8 → List Char) (t : List Char)
    (h : '~' ∉ t) : decodeToken tbl dec t = unquote dec t := by
  unfold decodeToken
  simp only [decodeTokenF, splitAtTilde_none t h]
  split
  next he =>
    have : t = [] := by simpa using he
    subst this; rfl
  · rfl

theorem decodeToken_tilde (tbl : EscTable) (dec : List UInt8 → List Char) (hd : List Char)
    (y : Char) (r : List Char) (h : '~' ∉ hd) :
    decodeToken tbl dec (hd ++ '~' :: y :: r) =
      unquote dec (hd ++ (decLookup tbl ['~', y]).getD ['~', y]) ++ decodeToken tbl dec r := by
  unfold decodeToken
  rw [decodeTokenF]
  have : (hd ++ '~' :: y :: r).isEmpty = false := by cases hd <;> rfl
  simp only [splitAtTilde_append hd (y :: r) h, this, Bool.false_eq_true, ↓reduceIte, List.take_succ_cons, List.take_zero,
    List.drop_succ_cons, List.drop_zero]
  congr 1
  apply decodeTokenF_fuel
  · simp only [List.length_append, List.length_cons]; omega
  · omega

theorem mem_quoteChar {c x : Char} (h : c ∈ quoteChar x) :
    (c = x ∧ quoteSafe x = true) ∨ c = '%' ∨ ∃ n, n < 16 ∧ c = hexDigitUpper n := by
  unfold quoteChar at h
  split at h
  next hs => simp only [List.mem_singleton] at h; exact Or.inl ⟨h, hs⟩
  next =>
    obtain ⟨b, _, hb⟩ := List.mem_flatMap.mp h
    simp only [pctByte, List.mem_cons, List.not_mem_nil, or_false] at hb
    rcases hb with rfl | rfl | rfl
    · exact Or.inr (Or.inl rfl)
    · exact Or.inr (Or.inr ⟨_, byte_hi_lt b, rfl⟩)
    · exact Or.inr (Or.inr ⟨_, byte_lo_lt b, rfl⟩)

theorem mem_quote {c : Char} {s : List Char} (h : c ∈ quote s) :
    (c ∈ s ∧ quoteSafe c = true) ∨ c = '%' ∨ ∃ n, n < 16 ∧ c = hexDigitUpper n := by
  obtain ⟨x, hx, hc⟩ := List.mem_flatMap.mp h
  rcases mem_quoteChar hc with ⟨rfl, hs⟩ | h | h
  · exact Or.inl ⟨hx, hs⟩
  · exact Or.inr (Or.inl h)
  · exact Or.inr (Or.inr h)

theorem hexDigitUpper_ne_tilde {n : Nat} (h : n < 16) : hexDigitUpper n ≠ '~' :=
  (by decide : ∀ n : Fin 16, hexDigitUpper n.val ≠ '~') ⟨n, h⟩

theorem tilde_not_mem_quote (s : List Char) (h : '~' ∉ s) : '~' ∉ quote s := by
  intro hm
  rcases mem_quote hm with ⟨h1, _⟩ | h1 | ⟨n, hn, h1⟩
  · exact h h1
  · revert h1; decide
  · exact hexDigitUpper_ne_tilde hn h1.symm

theorem quote_eq_nil {s : List Char} (h : quote s = []) : s = [] := by
  cases s with
  | nil => rfl
  | cons c s =>
    rw [quote_cons] at h
    exact absurd (List.append_eq_nil_iff.mp h).1 (quoteChar_ne_nil c)

/-- decoding the quoted item list gives back what the items denote -/
theorem decodeToken_encI {tbl rest : EscTable} (hf : TableFacts tbl rest)
    {dec : List UInt8 → List Char} (hd : DecOK dec) :
    ∀ (items : List Item), (∀ it ∈ items, it.good tbl []) →
      ∀ pre : List Char, '~' ∉ pre →
        decodeToken tbl dec (quote pre ++ encI items) = pre ++ valI items := by
  intro items
  induction items with
  | nil =>
    intro _ pre hpre
    simp only [encI, valI, List.flatMap_nil, List.append_nil]
    rw [decodeToken_noTilde _ _ _ (tilde_not_mem_quote pre hpre)]
    have := unquote_quote_append hd pre [] (by simp)
    simpa using this
  | cons it items ih =>
    intro hg pre hpre
    have hg' : ∀ it ∈ items, it.good tbl [] := fun it h => hg it (List.mem_cons_of_mem _ h)
    cases it with
    | lit c =>
      have hc : c ≠ '~' := hg (Item.lit c) List.mem_cons_self
      have := ih hg' (pre ++ [c]) (by
        intro hm
        rcases List.mem_append.mp hm with h | h
        · exact hpre h
        · simp only [List.mem_singleton] at h; exact hc h.symm)
      rw [encI_cons, valI_cons]
      simp only [Item.enc, Item.val]
      rw [quote_append, List.append_assoc, List.append_assoc] at this
      simpa [quote] using this
    | ent q y =>
      have hmem : (q, ['~', y]) ∈ tbl := (hg (Item.ent q y) List.mem_cons_self).1
      rw [encI_cons, valI_cons]
      simp only [Item.enc, Item.val, List.cons_append, List.nil_append]
      rw [decodeToken_tilde _ _ _ _ _ (tilde_not_mem_quote pre hpre)]
      have hl := hf.lookup _ hmem
      simp only at hl
      rw [hl, Option.getD_some, unquote_quote_append hd pre q (hf.plain _ hmem)]
      have := ih hg' [] (by simp)
      simp only [quote_nil, List.nil_append] at this
      rw [this, List.append_assoc]

theorem decodeToken_encodeToken (tbl : EscTable) (dec : List UInt8 → List Char)
    (h : tableOK tbl = true) (hd : DecOK dec) (s : List Char) :
    decodeToken tbl dec (encodeToken tbl s) = s := by
  obtain ⟨rest, hf⟩ := tableFacts h
  obtain ⟨items, h1, h2, h3⟩ := applyTable_items hf s
  have hq : ∀ q y, Item.ent q y ∈ items → quoteSafe y = true := by
    intro q y hm
    obtain ⟨c, hc, hs⟩ := hf.codes _ (h3 _ hm).1
    simp only [List.cons.injEq, and_true, true_and] at hc
    exact hc ▸ hs
  rw [encodeToken_eq_quote, ← h1, quote_flatI items hq]
  have := decodeToken_encI hf hd items h3 [] (by simp)
  simpa [quote_nil, h2] using this

end Liquer
