/-
Helper lemmas for C03: the escape-table stages of `encode_token` seen as rewriting of an item list,
decoding of the resulting text, URL-path safety, and the split/join lemmas of the list-of-lists form.
-/
import LiquerModel.Token
import LiquerProofs.Lemmas.Quote

namespace Liquer

/-! ### items: the text between two table stages

After some stages the text is a sequence of literal characters and of *entities* `~x`, each entity
standing for the pattern `p` it replaced. -/

inductive Item where
  | lit (c : Char)
  | ent (p : List Char) (x : Char)

/-- how an item is printed in the current (escaped, not yet quoted) text -/
def Item.flat : Item → List Char
  | .lit c => [c]
  | .ent _ x => ['~', x]

/-- what an item denotes in the original text -/
def Item.val : Item → List Char
  | .lit c => [c]
  | .ent p _ => p

/-- how an item is printed after `quote` -/
def Item.enc : Item → List Char
  | .lit c => quoteChar c
  | .ent _ x => ['~', x]

def flatI (is : List Item) : List Char := is.flatMap Item.flat
def valI (is : List Item) : List Char := is.flatMap Item.val
def encI (is : List Item) : List Char := is.flatMap Item.enc

theorem flatI_cons (i : Item) (is : List Item) : flatI (i :: is) = i.flat ++ flatI is := by
  simp [flatI]
theorem valI_cons (i : Item) (is : List Item) : valI (i :: is) = i.val ++ valI is := by
  simp [valI]
theorem encI_cons (i : Item) (is : List Item) : encI (i :: is) = i.enc ++ encI is := by
  simp [encI]
theorem flatI_append (a b : List Item) : flatI (a ++ b) = flatI a ++ flatI b := by simp [flatI]
theorem valI_append (a b : List Item) : valI (a ++ b) = valI a ++ valI b := by simp [valI]
theorem flatI_lits (p : List Char) : flatI (p.map Item.lit) = p := by
  induction p with
  | nil => rfl
  | cons c p ih => rw [List.map_cons, flatI_cons, ih]; rfl
theorem valI_lits (p : List Char) : valI (p.map Item.lit) = p := by
  induction p with
  | nil => rfl
  | cons c p ih => rw [List.map_cons, valI_cons, ih]; rfl

/-- a pattern without `~` can only match inside a run of literals -/
theorem prefix_lits (p : List Char) (hpt : '~' ∉ p) :
    ∀ items : List Item, isPrefix p (flatI items) = true →
      ∃ rest, items = p.map Item.lit ++ rest := by
  induction p with
  | nil => intro items _; exact ⟨items, rfl⟩
  | cons a p ih =>
    intro items h
    cases items with
    | nil => simp [flatI, isPrefix] at h
    | cons it items =>
      cases it with
      | lit c =>
        simp only [flatI_cons, Item.flat, List.singleton_append, isPrefix_cons_cons,
          Bool.and_eq_true, beq_iff_eq] at h
        obtain ⟨rest, hr⟩ := ih (fun hm => hpt (List.mem_cons_of_mem _ hm)) items h.2
        exact ⟨rest, by rw [h.1, hr]; rfl⟩
      | ent q y =>
        simp only [flatI_cons, Item.flat, List.cons_append, List.nil_append, isPrefix_cons_cons,
          Bool.and_eq_true, beq_iff_eq] at h
        exact absurd (h.1 ▸ List.mem_cons_self) hpt

/-- one table stage `(p, ~x)` on an item list whose entity letters do not occur in `p` -/
theorem stage_items (p : List Char) (x : Char) (hp : p ≠ []) (hpt : '~' ∉ p) :
    ∀ (n : Nat) (items : List Item), items.length ≤ n →
      (∀ q y, Item.ent q y ∈ items → y ∉ p) →
      ∃ items', flatI items' = replaceAll p ['~', x] (flatI items) ∧ valI items' = valI items ∧
        ∀ it ∈ items', it ∈ items ∨ it = Item.ent p x := by
  intro n
  induction n with
  | zero =>
    intro items hl _
    have : items = [] := List.eq_nil_of_length_eq_zero (by omega)
    subst this
    exact ⟨[], by simp [flatI, replaceAll_nil], rfl, by simp⟩
  | succ n ih =>
    intro items hl he
    cases items with
    | nil => exact ⟨[], by simp [flatI, replaceAll_nil], rfl, by simp⟩
    | cons it items =>
      have hl' : items.length ≤ n := by simp only [List.length_cons] at hl; omega
      have he' : ∀ q y, Item.ent q y ∈ items → y ∉ p :=
        fun q y h => he q y (List.mem_cons_of_mem _ h)
      cases it with
      | ent q y =>
        obtain ⟨items', h1, h2, h3⟩ := ih items hl' he'
        refine ⟨Item.ent q y :: items', ?_, ?_, ?_⟩
        · cases p with
          | nil => exact absurd rfl hp
          | cons a p' =>
            have ha1 : a ≠ '~' := fun h => hpt (h ▸ List.mem_cons_self)
            have ha2 : a ≠ y := fun h => he q y List.mem_cons_self (h ▸ List.mem_cons_self)
            simp only [flatI_cons, Item.flat, List.cons_append, List.nil_append]
            rw [replaceAll_cons_ne _ _ _ _ _ ha1, replaceAll_cons_ne _ _ _ _ _ ha2, h1]
        · rw [valI_cons, valI_cons, h2]
        · intro it hit
          rcases List.mem_cons.mp hit with rfl | hit
          · exact Or.inl List.mem_cons_self
          · rcases h3 it hit with h | h
            · exact Or.inl (List.mem_cons_of_mem _ h)
            · exact Or.inr h
      | lit c =>
        cases hpre : isPrefix p (flatI (Item.lit c :: items)) with
        | true =>
          obtain ⟨rest, hr⟩ := prefix_lits p hpt _ hpre
          have hlen : rest.length ≤ n := by
            have := congrArg List.length hr
            simp only [List.length_cons, List.length_append, List.length_map] at this
            have : 0 < p.length := List.length_pos_iff.mpr hp
            omega
          have hsub : ∀ it, it ∈ rest → it ∈ Item.lit c :: items := by
            intro it h; rw [hr]; exact List.mem_append_right _ h
          obtain ⟨items', h1, h2, h3⟩ := ih rest hlen (fun q y h => he q y (hsub _ h))
          refine ⟨Item.ent p x :: items', ?_, ?_, ?_⟩
          · rw [hr, flatI_append, flatI_lits, replaceAll_append_match _ _ _ hp, flatI_cons, h1]
            rfl
          · rw [hr, valI_append, valI_lits, valI_cons, h2]; rfl
          · intro it hit
            rcases List.mem_cons.mp hit with rfl | hit
            · exact Or.inr rfl
            · rcases h3 it hit with h | h
              · exact Or.inl (hsub _ h)
              · exact Or.inr h
        | false =>
          obtain ⟨items', h1, h2, h3⟩ := ih items hl' he'
          refine ⟨Item.lit c :: items', ?_, ?_, ?_⟩
          · simp only [flatI_cons, Item.flat, List.singleton_append] at hpre ⊢
            rw [replaceAll_cons_noPrefix _ _ _ _ hpre, h1]
          · rw [valI_cons, valI_cons, h2]
          · intro it hit
            rcases List.mem_cons.mp hit with rfl | hit
            · exact Or.inl List.mem_cons_self
            · rcases h3 it hit with h | h
              · exact Or.inl (List.mem_cons_of_mem _ h)
              · exact Or.inr h

/-- the first stage `("~", "~~")` -/
theorem stage0_items (s : List Char) :
    ∃ items, flatI items = replaceAll ['~'] ['~', '~'] s ∧ valI items = s ∧
      ∀ it ∈ items, (∃ c, it = Item.lit c ∧ c ≠ '~') ∨ it = Item.ent ['~'] '~' := by
  induction s with
  | nil => exact ⟨[], by simp [flatI, replaceAll_nil], rfl, by simp⟩
  | cons c s ih =>
    obtain ⟨items, h1, h2, h3⟩ := ih
    by_cases hc : c = '~'
    · subst hc
      refine ⟨Item.ent ['~'] '~' :: items, ?_, ?_, ?_⟩
      · have := replaceAll_append_match ['~'] ['~', '~'] s (by simp)
        simp only [List.cons_append, List.nil_append] at this
        rw [this, flatI_cons, h1]; rfl
      · rw [valI_cons, h2]; rfl
      · intro it hit
        rcases List.mem_cons.mp hit with rfl | hit
        · exact Or.inr rfl
        · exact h3 it hit
    · refine ⟨Item.lit c :: items, ?_, ?_, ?_⟩
      · rw [replaceAll_cons_ne _ _ _ _ _ (Ne.symm hc), flatI_cons, h1]; rfl
      · rw [valI_cons, h2]; rfl
      · intro it hit
        rcases List.mem_cons.mp hit with rfl | hit
        · exact Or.inl ⟨c, rfl, hc⟩
        · exact h3 it hit

/-! ### unpacking `tableOK` -/

/-- side condition on the not-yet-applied part of the table -/
def RemOK : EscTable → Prop
  | [] => True
  | (p, e) :: rest =>
    p ≠ [] ∧ '~' ∉ p ∧ (∃ x, e = ['~', x] ∧ ∀ r ∈ rest, x ∉ r.1) ∧ RemOK rest

theorem codeLetter?_eq_some {e : List Char} {c : Char} (h : codeLetter? e = some c) :
    e = ['~', c] := by
  unfold codeLetter? at h
  split at h
  · simp only [Option.some.injEq] at h; subst h; rfl
  · simp at h

theorem laterOK_cons {p e : List Char} {rest : EscTable} (h : laterOK ((p, e) :: rest) = true) :
    (∃ c, e = ['~', c] ∧ quoteSafe c = true ∧ (∀ r ∈ rest, c ∉ r.1) ∧ (∀ r ∈ rest, r.2 ≠ e)) ∧
      laterOK rest = true := by
  simp only [laterOK, Bool.and_eq_true] at h
  refine ⟨?_, h.2⟩
  have h1 := h.1
  split at h1
  · simp at h1
  next c hc =>
    simp only [Bool.and_eq_true, List.all_eq_true, Bool.not_eq_true', bne_iff_ne, ne_eq] at h1
    refine ⟨c, codeLetter?_eq_some hc, h1.1, fun r hr => ?_, fun r hr => (h1.2 r hr).2⟩
    have := (h1.2 r hr).1
    simpa using this

theorem RemOK_of_laterOK : ∀ (l : EscTable), laterOK l = true →
    (∀ q ∈ l, q.1 ≠ [] ∧ '~' ∉ q.1) → RemOK l := by
  intro l
  induction l with
  | nil => intro _ _; trivial
  | cons pe rest ih =>
    intro h hq
    obtain ⟨p, e⟩ := pe
    obtain ⟨⟨c, he, _, hc, _⟩, hl⟩ := laterOK_cons h
    have := hq (p, e) List.mem_cons_self
    exact ⟨this.1, this.2, ⟨c, he, hc⟩, ih hl (fun q hq' => hq q (List.mem_cons_of_mem _ hq'))⟩

/-- all codes of a `laterOK` table are `~c` with a quote-safe letter `c` -/
theorem laterOK_codes : ∀ (l : EscTable), laterOK l = true →
    ∀ q ∈ l, ∃ c, q.2 = ['~', c] ∧ quoteSafe c = true := by
  intro l
  induction l with
  | nil => intro _ q hq; simp at hq
  | cons pe rest ih =>
    intro h q hq
    obtain ⟨p, e⟩ := pe
    obtain ⟨⟨c, he, hs, _, _⟩, hl⟩ := laterOK_cons h
    rcases List.mem_cons.mp hq with rfl | hq
    · exact ⟨c, he, hs⟩
    · exact ih hl q hq

/-- codes are pairwise distinct, so the decoding dictionary finds the pattern of every entry -/
theorem decLookup_of_mem : ∀ (l : EscTable), laterOK l = true →
    ∀ q ∈ l, decLookup l q.2 = some q.1 := by
  intro l
  induction l with
  | nil => intro _ q hq; simp at hq
  | cons pe rest ih =>
    intro h q hq
    obtain ⟨p, e⟩ := pe
    obtain ⟨⟨c, he, _, _, hne⟩, hl⟩ := laterOK_cons h
    unfold decLookup
    rw [List.reverse_cons, List.find?_append]
    rcases List.mem_cons.mp hq with rfl | hq
    · have : List.find? (fun pe => pe.2 == e) rest.reverse = none := by
        rw [List.find?_eq_none]
        intro r hr
        simpa using hne r (List.mem_reverse.mp hr)
      simp [this]
    · have := ih hl q hq
      unfold decLookup at this
      cases hf : List.find? (fun pe => pe.2 == q.2) rest.reverse with
      | none => simp [hf] at this
      | some r => simp only [hf, Option.map_some, Option.some.injEq] at this; simp [this]

structure TableFacts (tbl rest : EscTable) : Prop where
  eq : tbl = (['~'], ['~', '~']) :: rest
  rem : RemOK rest
  noTilde : ∀ r ∈ rest, '~' ∉ r.1
  plain : ∀ q ∈ tbl, ∀ c ∈ q.1, isAscii c = true ∧ c ≠ '%'
  codes : ∀ q ∈ tbl, ∃ c, q.2 = ['~', c] ∧ quoteSafe c = true
  lookup : ∀ q ∈ tbl, decLookup tbl q.2 = some q.1

theorem tableFacts {tbl : EscTable} (h : tableOK tbl = true) : ∃ rest, TableFacts tbl rest := by
  unfold tableOK at h
  split at h
  · simp at h
  next p0 e0 rest =>
    simp only [Bool.and_eq_true, beq_iff_eq, List.all_eq_true, Bool.not_eq_true',
      bne_iff_ne, ne_eq] at h
    obtain ⟨⟨⟨⟨rfl, rfl⟩, h3⟩, h4⟩, h5⟩ := h
    have h3' : ∀ q ∈ rest, q.1 ≠ [] ∧ '~' ∉ q.1 := by
      intro q hq
      have := h3 q hq
      constructor
      · intro he; simp [he] at this
      · simpa using this.2
    refine ⟨rest, rfl, RemOK_of_laterOK rest (laterOK_cons h5).2 h3', fun r hr => (h3' r hr).2,
      ?_, laterOK_codes _ h5, decLookup_of_mem _ h5⟩
    intro q hq c hc
    rcases List.mem_cons.mp hq with rfl | hq
    · simp only [List.mem_singleton] at hc; subst hc; decide
    · exact h4 q hq c hc

end Liquer
