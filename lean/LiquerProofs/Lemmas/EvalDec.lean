/-
Decidable equality for values, states and outcomes (the model types only derive `Repr`), so that concrete
evaluations can be checked by `decide +kernel` in non-vacuity examples; a Boolean sufficient check for `CanonOK`.
-/
import LiquerProofs.Lemmas.EvalCor

namespace Liquer

mutual
theorem Val.beq_sound : ∀ a b, Val.beq a b = true → a = b
  | .none, b, h => by cases b <;> simp [Val.beq] at h ⊢
  | .int i, b, h => by cases b <;> simp [Val.beq] at h ⊢; exact h
  | .bool i, b, h => by cases b <;> simp [Val.beq] at h ⊢; exact h
  | .str i, b, h => by cases b <;> simp [Val.beq] at h ⊢; exact h
  | .flt i, b, h => by cases b <;> simp [Val.beq] at h ⊢; exact h
  | .list l, b, h => by
    cases b <;> simp [Val.beq] at h ⊢
    exact Val.beqList_sound l _ h
theorem Val.beqList_sound : ∀ as bs, Val.beqList as bs = true → as = bs
  | [], bs, h => by cases bs <;> simp [Val.beqList] at h ⊢
  | a :: as, bs, h => by
    cases bs with
    | nil => simp [Val.beqList] at h
    | cons b bs =>
      simp [Val.beqList] at h
      rw [Val.beq_sound a b h.1, Val.beqList_sound as bs h.2]
end

mutual
theorem Val.beq_refl : ∀ a, Val.beq a a = true
  | .none => by simp [Val.beq]
  | .int i => by simp [Val.beq]
  | .bool i => by simp [Val.beq]
  | .str i => by simp [Val.beq]
  | .flt i => by simp [Val.beq]
  | .list l => by simp [Val.beq]; exact Val.beqList_refl l
theorem Val.beqList_refl : ∀ as, Val.beqList as as = true
  | [] => by simp [Val.beqList]
  | a :: as => by simp [Val.beqList]; exact ⟨Val.beq_refl a, Val.beqList_refl as⟩
end

instance : DecidableEq Val := fun a b =>
  if h : Val.beq a b = true then isTrue (Val.beq_sound a b h)
  else isFalse (fun e => h (e ▸ Val.beq_refl a))

deriving instance DecidableEq for EState
deriving instance DecidableEq for Outcome

/-- one run of each side, compared up to status -/
def canonCheck (env : Env) (q : Query) (m m' : Nat) : Bool :=
  match refQ env m q (q.encode Gen.escapeTable) .none none, refText env m' (q.encode Gen.escapeTable) with
  | (.st a, _), (.st b, _) => decide (a.core = b.core)
  | _, _ => false

theorem CanonOK.of_check {env : Env} {q : Query} {m m' : Nat} (h : canonCheck env q m m' = true) : CanonOK env q := by
  unfold canonCheck at h
  split at h
  · next a c b c' h1 h2 => exact CanonOK.of_witness h1 h2 (by simpa using h)
  · simp at h

end Liquer
