/-
C02 helper lemmas, part 4: measures and simple structural facts about the AST and its printers
(`encode_erase`, no white space in canonical text, link nesting depth).
-/
import LiquerProofs.Lemmas.ParseTerm
namespace Liquer

/-! ### link nesting depth (the induction measure of the round-trip proof) -/

mutual
  def Param.depth : Param → Nat
    | .str _ _ => 0
    | .link q _ => q.depth + 1
  def depthParams : List Param → Nat
    | [] => 0
    | p :: ps => max p.depth (depthParams ps)
  def Action.depth : Action → Nat
    | .mk _ ps _ => depthParams ps
  def depthActions : List Action → Nat
    | [] => 0
    | a :: as => max a.depth (depthActions as)
  def Header.depth : Header → Nat
    | .mk _ _ ps _ => depthParams ps
  def Seg.depth : Seg → Nat
    | .transform h as _ => max (match h with | none => 0 | some h => h.depth) (depthActions as)
    | .resource h _ => (match h with | none => 0 | some h => h.depth)
  def depthSegs : List Seg → Nat
    | [] => 0
    | s :: ss => max s.depth (depthSegs ss)
  def Query.depth : Query → Nat
    | .mk segs _ => depthSegs segs
end

variable (tbl : EscTable)

/-- exactly one segment, a resource segment -/
def isSingleRes : List Seg → Bool
  | [.resource _ _] => true
  | _ => false

theorem Query.encode_eq (segs : List Seg) (a : Bool) :
    (Query.mk segs a).encode tbl =
      (if a then ['/'] else []) ++
        (if isSingleRes segs && (joinStr ['/'] (encodeSegs tbl segs)).head? != some '-' then ['-', 'R', '/'] else []) ++
          joinStr ['/'] (encodeSegs tbl segs) := by
  match segs with
  | [] => cases a <;> simp [Query.encode, isSingleRes]
  | [.resource h ns] => cases a <;> simp [Query.encode, isSingleRes] <;> split <;> simp
  | [.transform _ _ _] => cases a <;> simp [Query.encode, isSingleRes]
  | _ :: _ :: _ => cases a <;> simp [Query.encode, isSingleRes]

theorem isSingleRes_erase (segs : List Seg) : isSingleRes (eraseSegs segs) = isSingleRes segs := by
  match segs with
  | [] => rfl
  | [.resource _ _] => rfl
  | [.transform _ _ _] => rfl
  | _ :: _ :: _ => simp [eraseSegs, isSingleRes]

mutual
  theorem Param.encode_erase : (p : Param) → p.erase.encode tbl = p.encode tbl
    | .str s _ => by simp [Param.erase, Param.encode]
    | .link q _ => by simp [Param.erase, Param.encode, Query.encode_erase q]
  theorem encodeDashParams_erase : (ps : List Param) → encodeDashParams tbl (eraseParams ps) = encodeDashParams tbl ps
    | [] => rfl
    | p :: ps => by simp [eraseParams, encodeDashParams, Param.encode_erase p, encodeDashParams_erase ps]
  theorem Action.encode_erase : (a : Action) → a.erase.encode tbl = a.encode tbl
    | .mk n ps _ => by simp [Action.erase, Action.encode, encodeDashParams_erase ps]
  theorem encodeActions_erase : (as : List Action) → encodeActions tbl (eraseActions as) = encodeActions tbl as
    | [] => rfl
    | a :: as => by simp [eraseActions, encodeActions, Action.encode_erase a, encodeActions_erase as]
  theorem Header.encode_erase : (h : Header) → h.erase.encode tbl = h.encode tbl
    | .mk n l ps r => by simp [Header.erase, Header.encode, encodeDashParams_erase ps]
  theorem Seg.encode_erase : (s : Seg) → s.erase.encode tbl = s.encode tbl
    | .transform none as f => by simp [Seg.erase, Seg.encode, encodeActions_erase as]
    | .transform (some h) as f => by simp [Seg.erase, Seg.encode, encodeActions_erase as, Header.encode_erase h]
    | .resource none ns => by simp [Seg.erase, Seg.encode]
    | .resource (some h) ns => by simp [Seg.erase, Seg.encode, Header.encode_erase h]
  theorem encodeSegs_erase : (ss : List Seg) → encodeSegs tbl (eraseSegs ss) = encodeSegs tbl ss
    | [] => rfl
    | s :: ss => by simp [eraseSegs, encodeSegs, Seg.encode_erase s, encodeSegs_erase ss]
  theorem Query.encode_erase : (q : Query) → q.erase.encode tbl = q.encode tbl
    | .mk segs a => by
      rw [Query.erase, Query.encode_eq, Query.encode_eq, encodeSegs_erase segs, isSingleRes_erase]
end

/-! ### canonical text contains no white space -/

theorem noWs_joinStr : ∀ (l : List Str), (∀ x ∈ l, NoWs x) → NoWs (joinStr ['/'] l)
  | [], _ => NoWs.nil
  | [w], h => by simpa [joinStr] using h w (by simp)
  | w :: w' :: ws, h => by
    simp only [joinStr]
    exact ((h w (by simp)).append (NoWs.cons isWhite_slash NoWs.nil)).append
      (noWs_joinStr (w' :: ws) (fun x hx => h x (List.mem_cons_of_mem _ hx)))

theorem noWs_linkOpen : NoWs ['~', 'X', '~'] := noWs_of_tokSafe (by decide)
theorem noWs_linkClose : NoWs ['~', 'E'] := noWs_of_tokSafe (by decide)
theorem noWs_R : NoWs ['R'] := noWs_of_tokSafe (by decide)

theorem noWs_transformName {n : Str} (h : transformHeaderNameOK n = true) : NoWs n := by
  simp only [transformHeaderNameOK, Bool.or_eq_true, Bool.and_eq_true] at h
  rcases h with h | ⟨_, h⟩
  · have : n = [] := by simpa using h
    subst this; exact NoWs.nil
  · exact (fullMatch_noWs (terminal_noWhite (by simp)) h).tail

theorem noWs_resourceName {n : Str} (h : resourceHeaderNameOK n = true) : NoWs n :=
  (fullMatch_noWs (terminal_noWhite (by simp)) h).tail.tail

theorem noWs_names {names : List Str} (h : names.all (fullMatch Gen.resourceNameRe) = true) :
    ∀ x ∈ names, NoWs x :=
  fun x hx => fullMatch_noWs (terminal_noWhite (by simp)) (List.all_eq_true.mp h x hx)

abbrev T : EscTable := Gen.escapeTable

/-- the text of the action path of a transform segment -/
def bodyText (tbl : EscTable) (as : List Action) (f : Option Str) : Str :=
  match f with
  | none => joinStr ['/'] (encodeActions tbl as)
  | some f => if (joinStr ['/'] (encodeActions tbl as)).isEmpty then f
      else joinStr ['/'] (encodeActions tbl as) ++ '/' :: f

theorem Seg.encode_plain (tbl : EscTable) (as : List Action) (f : Option Str) :
    (Seg.transform none as f).encode tbl = bodyText tbl as f := by
  cases f <;> simp [Seg.encode, bodyText]

theorem Seg.encode_headed (tbl : EscTable) (h : Header) (as : List Action) (f : Option Str) :
    (Seg.transform (some h) as f).encode tbl =
      if (bodyText tbl as f).isEmpty then h.encode tbl else h.encode tbl ++ '/' :: bodyText tbl as f := by
  cases f <;> simp [Seg.encode, bodyText]

theorem Seg.encode_resPlain (tbl : EscTable) (ns : List Str) :
    (Seg.resource none ns).encode tbl = joinStr ['/'] ns := by
  simp only [Seg.encode]
  split
  next h => simp at h; simp [h]
  · simp

theorem Seg.encode_resHeaded (tbl : EscTable) (h : Header) (ns : List Str) :
    (Seg.resource (some h) ns).encode tbl =
      if (joinStr ['/'] ns).isEmpty then h.encode tbl
      else (if (h.encode tbl).isEmpty then [] else h.encode tbl ++ ['/']) ++ joinStr ['/'] ns := by
  simp only [Seg.encode]
  split
  · rfl
  · split
    next h1 => simp at h1; simp [h1]
    next h1 => simp at h1; simp

theorem noWs_bodyText {as : List Action} {f : Option Str} (has : ∀ x ∈ encodeActions T as, NoWs x)
    (hf : ∀ x, f = some x → NoWs x) : NoWs (bodyText T as f) := by
  have h1 := noWs_joinStr _ has
  cases f with
  | none => exact h1
  | some f =>
    simp only [bodyText]
    split
    · exact hf f rfl
    · exact h1.append (NoWs.cons isWhite_slash (hf f rfl))

theorem noWs_header {n : Str} {lvl : Nat} {ps : List Param} {res : Bool} (hn : NoWs n)
    (hps : NoWs (encodeDashParams T ps)) : NoWs ((Header.mk n lvl ps res).encode T) := by
  simp only [Header.encode]
  refine (((noWs_replicate_dash lvl).append ?_).append hn).append hps
  split
  · exact noWs_R
  · exact NoWs.nil

mutual
  theorem Param.noWs : (p : Param) → wfParam p = true → NoWs (p.encode T)
    | .str s _, _ => by simpa [Param.encode] using encodeToken_noWs s
    | .link q _, h => by
      simp only [wfParam] at h
      simp only [Param.encode]
      exact (noWs_linkOpen.append (Query.noWs q h)).append noWs_linkClose
  theorem dashParams_noWs : (ps : List Param) → wfParams ps = true → NoWs (encodeDashParams T ps)
    | [], _ => NoWs.nil
    | p :: ps, h => by
      simp only [wfParams, Bool.and_eq_true] at h
      simp only [encodeDashParams]
      exact NoWs.cons isWhite_dash ((Param.noWs p h.1).append (dashParams_noWs ps h.2))
  theorem Action.noWs : (a : Action) → wfAction a = true → NoWs (a.encode T)
    | .mk n ps _, h => by
      simp only [wfAction, Bool.and_eq_true] at h
      simp only [Action.encode]
      exact (fullMatch_noWs (terminal_noWhite (by simp)) h.1).append (dashParams_noWs ps h.2)
  theorem actions_noWs : (as : List Action) → wfActions as = true → ∀ x ∈ encodeActions T as, NoWs x
    | [], _ => by simp [encodeActions]
    | a :: as, h => by
      simp only [wfActions, Bool.and_eq_true] at h
      simp only [encodeActions, List.mem_cons]
      rintro x (rfl | hx)
      · exact Action.noWs a h.1
      · exact actions_noWs as h.2 x hx
  theorem Seg.noWs : (s : Seg) → wfSeg s = true → NoWs (s.encode T)
    | .transform none as f, h => by
      simp only [wfSeg, Bool.and_eq_true] at h
      rw [Seg.encode_plain]
      refine noWs_bodyText (actions_noWs as h.1.1) ?_
      rintro x rfl
      exact fullMatch_noWs (terminal_noWhite (by simp)) h.2
    | .transform (some (.mk n lvl ps res)) as f, h => by
      simp only [wfSeg, Bool.and_eq_true] at h
      obtain ⟨⟨⟨⟨⟨⟨_, _⟩, hn⟩, _⟩, hps⟩, has⟩, hf⟩ := h
      have hh := noWs_header (lvl := lvl) (res := res) (noWs_transformName hn) (dashParams_noWs ps hps)
      have hb : NoWs (bodyText T as f) := by
        refine noWs_bodyText (actions_noWs as has) ?_
        rintro x rfl
        exact fullMatch_noWs (terminal_noWhite (by simp)) hf
      rw [Seg.encode_headed]
      split
      · exact hh
      · exact hh.append (NoWs.cons isWhite_slash hb)
    | .resource none ns, h => by
      simp only [wfSeg, Bool.and_eq_true] at h
      rw [Seg.encode_resPlain]
      exact noWs_joinStr _ (noWs_names h.2)
    | .resource (some (.mk n lvl ps res)) ns, h => by
      simp only [wfSeg, Bool.and_eq_true] at h
      obtain ⟨⟨⟨⟨⟨_, _⟩, hn⟩, hps⟩, _⟩, hns⟩ := h
      have h1 := noWs_joinStr _ (noWs_names hns)
      have hh := noWs_header (lvl := lvl) (res := res) (noWs_resourceName hn) (dashParams_noWs ps hps)
      rw [Seg.encode_resHeaded]
      split
      · exact hh
      · refine NoWs.append ?_ h1
        split
        · exact NoWs.nil
        · exact hh.append (NoWs.cons isWhite_slash NoWs.nil)
  theorem segs_noWs : (ss : List Seg) → wfSegs ss = true → ∀ x ∈ encodeSegs T ss, NoWs x
    | [], _ => by simp [encodeSegs]
    | s :: ss, h => by
      simp only [wfSegs, Bool.and_eq_true] at h
      simp only [encodeSegs, List.mem_cons]
      rintro x (rfl | hx)
      · exact Seg.noWs s h.1
      · exact segs_noWs ss h.2 x hx
  theorem Query.noWs : (q : Query) → wfInner q = true → NoWs (q.encode T)
    | .mk segs a, h => by
      simp only [wfInner, Bool.and_eq_true] at h
      rw [Query.encode_eq]
      refine (NoWs.append ?_ ?_).append (noWs_joinStr _ (segs_noWs segs h.1.2))
      · split
        · exact NoWs.cons isWhite_slash NoWs.nil
        · exact NoWs.nil
      · split
        · exact NoWs.cons isWhite_dash (NoWs.cons (noWs_R.head) (NoWs.cons isWhite_slash NoWs.nil))
        · exact NoWs.nil
end

end Liquer
