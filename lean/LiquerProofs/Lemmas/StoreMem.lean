/-
The simulation between the `MemoryStore` model (`LiquerModel/StoreMem.lean`) and the reference store
`specOps`: the relation `Sim`, what it says about observations, and its preservation by every
well-formed operation (including the fuel-bounded recursive `removedir`).
-/
import LiquerModel.StoreMem
import LiquerProofs.Lemmas.StoreSpec

namespace Liquer

/-! ### association lists -/

theorem alGet_nil {β : Type} (k : Key) : alGet ([] : List (Key × β)) k = none := rfl

theorem alGet_cons {β : Type} (k' : Key) (v : β) (l : List (Key × β)) (k : Key) :
    alGet ((k', v) :: l) k = if k' = k then some v else alGet l k := by
  unfold alGet
  by_cases h : k' = k <;> simp [h]

theorem alGet_erase {β : Type} (l : List (Key × β)) (k k' : Key) :
    alGet (alErase l k) k' = if k' = k then none else alGet l k' := by
  induction l with
  | nil => simp [alErase, alGet_nil]
  | cons kv l ih =>
    obtain ⟨q, v⟩ := kv
    unfold alErase at ih ⊢
    by_cases hq : q = k
    · subst hq
      rw [List.filter_cons_of_neg (by simp), ih, alGet_cons]
      by_cases h : k' = q
      · simp [h]
      · have : ¬ q = k' := fun e => h e.symm
        simp [h, this]
    · rw [List.filter_cons_of_pos (by simpa using hq), alGet_cons, alGet_cons, ih]
      by_cases h : q = k'
      · subst h; simp [hq]
      · simp [h]

theorem alGet_set {β : Type} (l : List (Key × β)) (k : Key) (v : β) (k' : Key) :
    alGet (alSet l k v) k' = if k = k' then some v else alGet l k' := by
  unfold alSet
  rw [alGet_cons, alGet_erase]
  by_cases h : k = k'
  · simp [h]
  · have : ¬ k' = k := fun e => h e.symm
    simp [h, this]

theorem al_mem_keys_iff {β : Type} (l : List (Key × β)) (k : Key) : k ∈ l.map (·.1) ↔ (alGet l k).isSome = true := by
  induction l with
  | nil => simp [alGet_nil]
  | cons kv l ih =>
    obtain ⟨q, v⟩ := kv
    rw [List.map_cons, List.mem_cons, alGet_cons, ih]
    by_cases h : q = k
    · subst h; simp
    · have : ¬ k = q := fun e => h e.symm
      simp [h, this]

theorem mem_foldl_setAdd (ks l : List Key) (q : Key) : q ∈ ks.foldl setAdd l ↔ q ∈ l ∨ q ∈ ks := by
  induction ks generalizing l with
  | nil => simp
  | cons a ks ih =>
    rw [List.foldl_cons, ih]
    unfold setAdd
    by_cases h : l.contains a = true
    · have : a ∈ l := by simpa using h
      simp only [h, ↓reduceIte, List.mem_cons]
      constructor
      · rintro (h1 | h1)
        · exact Or.inl h1
        · exact Or.inr (Or.inr h1)
      · rintro (h1 | h1 | h1)
        · exact Or.inl h1
        · exact Or.inl (h1 ▸ this)
        · exact Or.inr h1
    · simp only [h, Bool.false_eq_true, ↓reduceIte, List.mem_cons]
      constructor
      · rintro ((h1 | h1) | h1)
        · exact Or.inr (Or.inl h1)
        · exact Or.inl h1
        · exact Or.inr (Or.inr h1)
      · rintro (h1 | h1 | h1)
        · exact Or.inl (Or.inr h1)
        · exact Or.inl (Or.inl h1)
        · exact Or.inr h1

/-! ### the simulation relation -/

def dataOf (fs : FS) (k : Key) : Option Data :=
  match fs.get k with
  | some (.file d _) => some d
  | _ => none

def metaOf (fs : FS) (k : Key) : Option UMeta :=
  match fs.get k with
  | some (.file _ m) => some m
  | _ => none

/-- the three containers of the `MemoryStore` hold exactly the directories, the file data and the file
metadata of the specification state -/
structure Sim (s : MemState) (fs : FS) : Prop where
  dirs : ∀ k, k ∈ s.directories ↔ fs.get k = some .dir
  data : ∀ k, alGet s.data k = dataOf fs k
  mdata : ∀ k, alGet s.metadata k = metaOf fs k

theorem Sim.congr {s : MemState} {fs fs' : FS} (h : Sim s fs) (e : ∀ q, fs'.get q = fs.get q) : Sim s fs' :=
  ⟨fun k => by rw [e]; exact h.dirs k, fun k => by unfold dataOf; rw [e]; exact h.data k,
   fun k => by unfold metaOf; rw [e]; exact h.mdata k⟩

theorem sim_init : Sim memInit [] :=
  ⟨fun k => by simp [memInit, FS.get_nil], fun k => by simp [memInit, alGet_nil, dataOf, FS.get_nil],
   fun k => by simp [memInit, alGet_nil, metaOf, FS.get_nil]⟩

/-! ### observations under the simulation -/

theorem Sim.isDir {s : MemState} {fs : FS} (h : Sim s fs) (k : Key) : Mem.isDir s k = fs.isDirB k := by
  unfold Mem.isDir FS.isDirB
  by_cases hd : fs.get k = some .dir
  · have : k ∈ s.directories := (h.dirs k).mpr hd
    simp [hd, this]
  · have : k ∉ s.directories := fun hm => hd ((h.dirs k).mp hm)
    simp [hd, this]

theorem Sim.contains {s : MemState} {fs : FS} (h : Sim s fs) (k : Key) : Mem.contains s k = fs.containsB k := by
  unfold Mem.contains FS.containsB
  rw [h.data, h.mdata]
  unfold dataOf metaOf
  cases hg : fs.get k with
  | none =>
    have : k ∉ s.directories := fun hm => by have := (h.dirs k).mp hm; rw [hg] at this; cases this
    simp [this]
  | some n =>
    cases n with
    | dir =>
      have : k ∈ s.directories := (h.dirs k).mpr hg
      simp [this]
    | file d m => simp

theorem Sim.getBytes {s : MemState} {fs : FS} (h : Sim s fs) (k : Key) : Mem.getBytes s k = specOps.getBytes fs k := by
  unfold Mem.getBytes
  rw [h.data]
  unfold dataOf
  simp only [specOps]
  cases hg : fs.get k with
  | none => rfl
  | some n => cases n <;> rfl

theorem Sim.getMeta {s : MemState} {fs : FS} (h : Sim s fs) (ht : FS.Tree fs) (k : Key) :
    Mem.getMeta s k = specOps.getMeta fs k := by
  unfold Mem.getMeta
  rw [h.mdata, h.isDir]
  unfold metaOf FS.isDirB
  simp only [specOps]
  cases hg : fs.get k with
  | none =>
    by_cases hk : k = []
    · subst hk; simp [keyName]
    · simp [hk]
  | some n =>
    cases n with
    | dir => simp
    | file d m =>
      have hk : k ≠ [] := ht.nonroot k (by simp [hg])
      simp [hk]

/-- `keys()` of the memory store: no duplicates, the keys bound in the specification state -/
theorem Sim.mem_keys {s : MemState} {fs : FS} (h : Sim s fs) (k : Key) : k ∈ Mem.keys s ↔ (fs.get k).isSome = true := by
  unfold Mem.keys
  rw [List.mem_eraseDups, List.mem_append, List.mem_append, al_mem_keys_iff, al_mem_keys_iff, h.dirs, h.data, h.mdata]
  unfold dataOf metaOf
  cases hg : fs.get k with
  | none => simp
  | some n => cases n <;> simp

theorem Mem.keys_nodup (s : MemState) : (Mem.keys s).Nodup := nodup_eraseDups' _

theorem Sim.keys_perm {s : MemState} {fs : FS} (h : Sim s fs) (ht : FS.Tree fs) : (Mem.keys s).Perm (fs.map (·.1)) := by
  rw [List.perm_ext_iff_of_nodup (Mem.keys_nodup s) ht.nodup]
  intro k
  rw [h.mem_keys, FS.mem_keys_iff]

/-- listing of a non-root key -/
theorem Sim.listdir_nonroot {s : MemState} {fs : FS} (h : Sim s fs) (ht : FS.Tree fs) (k : Key) (hk : k ≠ []) :
    (Mem.listdir s k = none ∧ fs.isDirB k = false) ∨
    (∃ l, Mem.listdir s k = some l ∧ fs.isDirB k = true ∧ l.Perm (fs.children k)) := by
  have hke : k.isEmpty = false := by simpa using hk
  unfold Mem.listdir
  simp only [hke, Bool.false_eq_true, ↓reduceIte]
  rw [h.isDir]
  by_cases hd : fs.isDirB k = true
  · right
    refine ⟨((Mem.keys s).filter (fun q => parentKey q == k)).map keyName, by simp only [hd, ↓reduceIte], hd, ?_⟩
    rw [FS.children_eq]
    apply List.Perm.map
    have hp := (h.keys_perm ht).filter (fun q => parentKey q == k)
    refine hp.trans ?_
    apply List.Perm.of_eq
    apply List.filter_congr
    intro q _
    unfold parentKey
    by_cases hq : q = []
    · subst hq
      simp [hk]
    · simp [hq]
  · left
    simp [hd]

end Liquer

namespace Liquer

/-! ### preservation by the non-recursive operations -/

theorem ancestors_parent_mem {k : Key} (hk : k ≠ []) (q : Key) :
    q ∈ ancestors (parentKey k) ++ (if (parentKey k).isEmpty then [] else [parentKey k]) ↔ q ∈ ancestors k := by
  have hlen : (parentKey k).length + 1 = k.length := by
    unfold parentKey
    rw [List.length_dropLast]
    have : k.length ≠ 0 := fun e => hk (List.eq_nil_of_length_eq_zero e)
    omega
  have hpk : parentKey k <+: k := List.dropLast_prefix k
  rw [List.mem_append, mem_ancestors, mem_ancestors]
  constructor
  · rintro (⟨h1, h2, h3⟩ | h)
    · refine ⟨h1, h2.trans hpk, ?_⟩
      intro e; subst e
      have := h2.length_le; omega
    · by_cases he : (parentKey k).isEmpty = true
      · simp [he] at h
      · simp only [he, Bool.false_eq_true, ↓reduceIte, List.mem_cons, List.not_mem_nil, or_false] at h
        subst h
        refine ⟨by simpa using he, hpk, ?_⟩
        intro e
        have := congrArg List.length e
        omega
  · rintro ⟨h1, h2, h3⟩
    have hp : q <+: parentKey k := prefix_dropLast_of_ne h2 h3
    by_cases e : q = parentKey k
    · right
      have : (parentKey k).isEmpty = false := by rw [← e]; simpa using h1
      simp [this, e]
    · left; exact ⟨h1, hp, e⟩

theorem dataOf_eq_none_of_get {fs : FS} {k : Key} (h : fs.get k = none ∨ fs.get k = some .dir) :
    dataOf fs k = none ∧ metaOf fs k = none := by
  unfold dataOf metaOf
  rcases h with h | h <;> simp [h]

theorem sim_mkdirs {s : MemState} {fs : FS} (h : Sim s fs) (ks : List Key)
    (hnf : ∀ a ∈ ks, fs.get a = none ∨ fs.get a = some .dir) :
    Sim { s with directories := ks.foldl setAdd s.directories } (fs.mkdirs ks) := by
  refine ⟨?_, ?_, ?_⟩
  · intro q
    simp only
    rw [mem_foldl_setAdd, FS.get_mkdirs, h.dirs]
    by_cases hq : q ∈ ks
    · rcases hnf q hq with e | e
      · simp [hq, e]
      · simp [e]
    · simp [hq]
  · intro q
    simp only
    rw [h.data]
    unfold dataOf
    rw [FS.get_mkdirs]
    by_cases hq : q ∈ ks ∧ fs.get q = none
    · simp [hq]
    · simp [hq]
  · intro q
    simp only
    rw [h.mdata]
    unfold metaOf
    rw [FS.get_mkdirs]
    by_cases hq : q ∈ ks ∧ fs.get q = none
    · simp [hq]
    · simp [hq]

theorem FS.get_mkdirs_congr (fs : FS) (ks ks' : List Key) (h : ∀ q, q ∈ ks ↔ q ∈ ks') (q : Key) :
    (fs.mkdirs ks).get q = (fs.mkdirs ks').get q := by
  rw [FS.get_mkdirs, FS.get_mkdirs]
  simp only [h q]

theorem sim_setFile {s : MemState} {fs : FS} (h : Sim s fs) (k : Key) (d : Data) (m : UMeta)
    (hk : fs.get k ≠ some .dir) :
    Sim { s with data := alSet s.data k d, metadata := alSet s.metadata k m } (fs.set k (.file d m)) := by
  refine ⟨?_, ?_, ?_⟩
  · intro q
    simp only
    rw [FS.get_set, h.dirs]
    by_cases e : k = q
    · subst e; simp [hk]
    · simp [e]
  · intro q
    simp only
    rw [alGet_set, h.data]
    unfold dataOf
    rw [FS.get_set]
    by_cases e : k = q <;> simp [e]
  · intro q
    simp only
    rw [alGet_set, h.mdata]
    unfold metaOf
    rw [FS.get_set]
    by_cases e : k = q <;> simp [e]

theorem sim_store {s : MemState} {fs : FS} (h : Sim s fs) (k : Key) (d : Data) (m : UMeta)
    (hwf : wfOp fs (.store k d m) = true) :
    Sim (Mem.store s k d m) (specOps.step fs (.store k d m)) := by
  simp only [wfOp, Bool.and_eq_true, Bool.not_eq_true', List.isEmpty_eq_false_iff, List.all_eq_true] at hwf
  obtain ⟨⟨hk, hnd⟩, hanc⟩ := hwf
  have hnf : ∀ a ∈ ancestors k, fs.get a = none ∨ fs.get a = some .dir := fun a ha => notFile_cases (hanc a ha)
  have hkd : fs.get k ≠ some .dir := by
    intro e; simp [FS.isDirB, e] at hnd
  have h1 : Sim (Mem.makedir s (parentKey k)) (fs.mkdirs (ancestors k)) := by
    unfold Mem.makedir
    refine (sim_mkdirs h _ ?_).congr (fun q => FS.get_mkdirs_congr fs _ _ (fun q => (ancestors_parent_mem hk q).symm) q)
    intro a ha
    exact hnf a ((ancestors_parent_mem hk a).mp ha)
  have hk1 : (fs.mkdirs (ancestors k)).get k ≠ some .dir := by
    rw [FS.get_mkdirs]
    have : k ∉ ancestors k := fun hm => ancestors_ne_self hm rfl
    simpa [this] using hkd
  exact sim_setFile h1 k d _ hk1

theorem sim_storeMeta {s : MemState} {fs : FS} (h : Sim s fs) (k : Key) (m : UMeta) {d0 : Data} {m0 : UMeta}
    (hk : fs.get k = some (.file d0 m0)) :
    Sim (Mem.storeMeta s k m) (fs.set k (.file d0 m)) := by
  have hd : alGet s.data k = some d0 := by rw [h.data]; simp [dataOf, hk]
  have h2 := sim_setFile h k d0 m (by rw [hk]; simp)
  refine ⟨h2.dirs, ?_, h2.mdata⟩
  intro q
  have := h2.data q
  simp only [Mem.storeMeta] at this ⊢
  rw [← this, alGet_set]
  by_cases e : k = q
  · subst e; simp [hd]
  · simp [e]

theorem sim_remove {s : MemState} {fs : FS} (h : Sim s fs) (k : Key) : Sim (Mem.remove s k) (fs.erase k) := by
  refine ⟨?_, ?_, ?_⟩
  · intro q
    simp only [Mem.remove, List.mem_filter, bne_iff_ne, ne_eq]
    rw [FS.get_erase, h.dirs]
    by_cases e : q = k <;> simp [e]
  · intro q
    simp only [Mem.remove]
    rw [alGet_erase, h.data]
    unfold dataOf
    rw [FS.get_erase]
    by_cases e : q = k <;> simp [e]
  · intro q
    simp only [Mem.remove]
    rw [alGet_erase, h.mdata]
    unfold metaOf
    rw [FS.get_erase]
    by_cases e : q = k <;> simp [e]

theorem sim_dropDir {s : MemState} {fs : FS} (h : Sim s fs) (k : Key) (hk : fs.get k = none ∨ fs.get k = some .dir) :
    Sim { s with directories := s.directories.filter (· != k) } (fs.erase k) := by
  obtain ⟨hd, hm⟩ := dataOf_eq_none_of_get hk
  refine ⟨?_, ?_, ?_⟩
  · intro q
    simp only [List.mem_filter, bne_iff_ne, ne_eq]
    rw [FS.get_erase, h.dirs]
    by_cases e : q = k <;> simp [e]
  · intro q
    simp only
    rw [h.data]
    unfold dataOf at hd ⊢
    rw [FS.get_erase]
    by_cases e : q = k
    · subst e; simp [hd]
    · simp [e]
  · intro q
    simp only
    rw [h.mdata]
    unfold metaOf at hm ⊢
    rw [FS.get_erase]
    by_cases e : q = k
    · subst e; simp [hm]
    · simp [e]

/-- the last phase of `removedir`: an empty directory is dropped -/
theorem mem_removedir_tail {s : MemState} {fs : FS} (h : Sim s fs) (ht : FS.Tree fs) (k : Key) (hk : k ≠ [])
    (hd : fs.get k = some .dir) (hc : (fs.children k).isEmpty = true) :
    (match Mem.listdir s k with
      | none => (.error .other : Except StoreErr MemState)
      | some l => .ok (if l.isEmpty then { s with directories := s.directories.filter (· != k) } else s)) =
      .ok { s with directories := s.directories.filter (· != k) } := by
  have hdir : fs.isDirB k = true := by simp [FS.isDirB, hd]
  rcases h.listdir_nonroot ht k hk with ⟨_, hf⟩ | ⟨l, hl, _, hp⟩
  · rw [hdir] at hf; cases hf
  · rw [hl]
    have : l.isEmpty = true := by rw [hp.isEmpty_eq]; exact hc
    simp [this]

theorem sim_removedir_nonrec {s : MemState} {fs : FS} (h : Sim s fs) (ht : FS.Tree fs) (k : Key) (n : Nat) (hk : k ≠ [])
    (hd : fs.get k = some .dir) (hc : (fs.children k).isEmpty = true) :
    ∃ s', Mem.removedirFuel (n + 1) s k false = .ok s' ∧ Sim s' (fs.erase k) := by
  have hke : k.isEmpty = false := by simpa using hk
  refine ⟨{ s with directories := s.directories.filter (· != k) }, ?_, sim_dropDir h k (Or.inr hd)⟩
  simp only [Mem.removedirFuel, hke, Bool.false_eq_true, ↓reduceIte]
  exact mem_removedir_tail h ht k hk hd hc

end Liquer

namespace Liquer

/-! ### the recursive `removedir` -/

/-- `q` lies at or below one of the children `k ++ [c]`, `c ∈ cs` -/
def underAny (k : Key) (cs : List Str) (q : Key) : Bool := cs.any (fun c => (k ++ [c]).isPrefixOf q)

/-- the specification state with the subtrees of the children `cs` of `k` removed -/
def removeSubs (fs : FS) (k : Key) (cs : List Str) : FS := fs.filter (fun kv => !(underAny k cs kv.1))

/-- size of the subtree at `k` (fuel measure) -/
def subSize (fs : FS) (k : Key) : Nat := (fs.filter (fun kv => k.isPrefixOf kv.1)).length

theorem underAny_iff (k : Key) (cs : List Str) (q : Key) : underAny k cs q = true ↔ ∃ c ∈ cs, (k ++ [c]) <+: q := by
  unfold underAny
  simp [List.any_eq_true]

theorem underAny_append (k : Key) (cs : List Str) (nm : Str) (q : Key) :
    underAny k (cs ++ [nm]) q = (underAny k cs q || (k ++ [nm]).isPrefixOf q) := by
  unfold underAny
  simp [List.any_append]

theorem removeSubs_get (fs : FS) (k : Key) (cs : List Str) (q : Key) :
    (removeSubs fs k cs).get q = if underAny k cs q then none else fs.get q := by
  unfold removeSubs
  rw [FS.get_filter_key (fun q => !(underAny k cs q))]
  cases underAny k cs q <;> simp

theorem removeSubs_tree {fs : FS} (ht : FS.Tree fs) (k : Key) (cs : List Str) : FS.Tree (removeSubs fs k cs) := by
  unfold removeSubs
  apply ht.filter (fun q => !(underAny k cs q))
  intro q hq _ a ha
  simp only [Bool.not_eq_true', ← Bool.not_eq_true, underAny_iff] at hq ⊢
  rintro ⟨c, hc, hp⟩
  exact hq ⟨c, hc, hp.trans (ancestors_prefix ha)⟩

theorem length_filter_lt_of_imp {α : Type} (l : List α) (p q : α → Bool) (himp : ∀ x ∈ l, p x = true → q x = true)
    (x : α) (hx : x ∈ l) (hq : q x = true) (hp : p x = false) : (l.filter p).length < (l.filter q).length := by
  induction l with
  | nil => cases hx
  | cons y l ih =>
    have hle : (l.filter p).length ≤ (l.filter q).length := by
      rw [← List.countP_eq_length_filter, ← List.countP_eq_length_filter]
      exact List.countP_mono_left (fun z hz => himp z (List.mem_cons_of_mem _ hz))
    rcases List.mem_cons.mp hx with e | e
    · subst e
      rw [List.filter_cons_of_neg (by simp [hp]), List.filter_cons_of_pos hq]
      simp only [List.length_cons]; omega
    · have := ih (fun z hz => himp z (List.mem_cons_of_mem _ hz)) e
      by_cases hpy : p y = true
      · rw [List.filter_cons_of_pos hpy, List.filter_cons_of_pos (himp y List.mem_cons_self hpy)]
        simp only [List.length_cons]; omega
      · rw [List.filter_cons_of_neg hpy]
        by_cases hqy : q y = true
        · rw [List.filter_cons_of_pos hqy]; simp only [List.length_cons]; omega
        · rw [List.filter_cons_of_neg hqy]; exact this

theorem child_not_prefix_parent (k : Key) (c : Str) : ¬ (k ++ [c]) <+: k := by
  intro h
  have := h.length_le
  simp at this
  omega

theorem child_prefix_child {k : Key} {c c' : Str} (h : (k ++ [c']) <+: (k ++ [c])) : c' = c := by
  have := h.eq_of_length_le (by simp)
  simpa using this

/-- a name listed below `k` is a bound key `k ++ [name]` -/
theorem mem_children_iff (fs : FS) (k : Key) (nm : Str) :
    nm ∈ fs.children k ↔ (fs.get (k ++ [nm])).isSome = true := by
  rw [FS.children_eq, List.mem_map]
  constructor
  · rintro ⟨q, hq, rfl⟩
    simp only [List.mem_filter, Bool.and_eq_true, Bool.not_eq_true', List.isEmpty_eq_false_iff, beq_iff_eq] at hq
    have : k ++ [keyName q] = q := by
      have := key_eq_parent_name hq.2.1
      unfold parentKey at this
      rw [hq.2.2] at this
      exact this.symm
    rw [this]
    exact (FS.mem_keys_iff fs q).mp hq.1
  · intro h
    refine ⟨k ++ [nm], ?_, by simp [keyName]⟩
    simp only [List.mem_filter, Bool.and_eq_true, Bool.not_eq_true', List.isEmpty_eq_false_iff, beq_iff_eq]
    exact ⟨(FS.mem_keys_iff fs _).mpr h, by simp, by simp⟩

theorem children_nodup {fs : FS} (ht : FS.Tree fs) (k : Key) : (fs.children k).Nodup := by
  rw [List.nodup_iff_count]
  intro nm
  by_cases h : nm ∈ fs.children k
  · have hs := (mem_children_iff fs k nm).mp h
    have := (spec_listed_once ht hs).2.2
    simp only [parentKey, keyName, List.dropLast_concat, List.getLast?_append, List.getLast?_singleton, Option.some_or,
      Option.getD_some] at this
    omega
  · rw [List.count_eq_zero_of_not_mem h]; omega

/-- the specification state after `removedir k` (recursive), in terms of `get` -/
theorem get_removeRec (fs : FS) (k q : Key) :
    FS.get (fs.filter (fun kv => !(k.isPrefixOf kv.1))) q = if k <+: q then none else fs.get q := by
  rw [FS.get_filter_key (fun q => !(k.isPrefixOf q))]
  by_cases h : k <+: q
  · have : k.isPrefixOf q = true := List.isPrefixOf_iff_prefix.mpr h
    simp [this, h]
  · have : k.isPrefixOf q = false := by rw [← Bool.not_eq_true, List.isPrefixOf_iff_prefix]; exact h
    simp [this, h]

/-- the statement proved by induction on the fuel -/
def RemovedirRec (n : Nat) : Prop :=
  ∀ (s : MemState) (fs : FS) (k : Key), Sim s fs → FS.Tree fs → k ≠ [] → fs.get k = some .dir → subSize fs k < n →
    ∃ s', Mem.removedirFuel n s k true = .ok s' ∧ Sim s' (fs.filter (fun kv => !(k.isPrefixOf kv.1)))

theorem fold_children (n : Nat) (IH : RemovedirRec n) (fs0 : FS) (k : Key) (ht0 : FS.Tree fs0) (_hk : k ≠ [])
    (hd : fs0.get k = some .dir) (hsub : subSize fs0 k < n + 1) :
    ∀ (rest done : List Str), (done ++ rest).Nodup → (∀ c ∈ done ++ rest, c ∈ fs0.children k) →
      ∀ st, Sim st (removeSubs fs0 k done) →
      ∃ st', rest.foldlM (fun st nm =>
                let c := k ++ [nm]
                if Mem.isDir st c then Mem.removedirFuel n st c true else .ok (Mem.remove st c)) st = .ok st' ∧
             Sim st' (removeSubs fs0 k (done ++ rest)) := by
  intro rest
  induction rest with
  | nil =>
    intro done _ _ st hst
    exact ⟨st, rfl, by simpa using hst⟩
  | cons nm rest ih =>
    intro done hnd hmem st hst
    have hnm : nm ∈ fs0.children k := hmem nm (by simp)
    have hpres : (fs0.get (k ++ [nm])).isSome = true := (mem_children_iff fs0 k nm).mp hnm
    have hnotdone : nm ∉ done := by
      intro h
      have := (List.nodup_append.mp hnd).2.2 nm h nm (by simp)
      exact this rfl
    have hcur_tree := removeSubs_tree ht0 k done
    have hund : underAny k done (k ++ [nm]) = false := by
      rw [← Bool.not_eq_true, underAny_iff]
      rintro ⟨c', hc', hp⟩
      exact hnotdone (child_prefix_child hp ▸ hc')
    have hcur_get : (removeSubs fs0 k done).get (k ++ [nm]) = fs0.get (k ++ [nm]) := by
      rw [removeSubs_get, hund]; simp
    have hassoc : done ++ nm :: rest = (done ++ [nm]) ++ rest := by simp
    rw [List.foldlM_cons]
    simp only
    rw [hst.isDir]
    by_cases hdir : (removeSubs fs0 k done).isDirB (k ++ [nm]) = true
    · -- a sub-directory: recursive call with the remaining fuel
      simp only [hdir, ↓reduceIte]
      have hcd : (removeSubs fs0 k done).get (k ++ [nm]) = some .dir := by
        simpa [FS.isDirB] using hdir
      have hlt : subSize (removeSubs fs0 k done) (k ++ [nm]) < n := by
        have : subSize (removeSubs fs0 k done) (k ++ [nm]) < subSize fs0 k := by
          unfold subSize removeSubs
          rw [List.filter_filter]
          apply length_filter_lt_of_imp fs0 _ _ _ (k, .dir) (FS.mem_of_get hd)
          · simp
          · have : (k ++ [nm]).isPrefixOf k = false := by
              rw [← Bool.not_eq_true, List.isPrefixOf_iff_prefix]; exact child_not_prefix_parent k nm
            simp [this]
          · intro x _ hx
            simp only [Bool.and_eq_true, List.isPrefixOf_iff_prefix] at hx ⊢
            exact (List.prefix_append k [nm]).trans hx.1
        omega
      obtain ⟨st1, hrun, hsim1⟩ := IH st (removeSubs fs0 k done) (k ++ [nm]) hst hcur_tree (by simp) hcd hlt
      rw [hrun]
      simp only [bind, Except.bind]
      have hsim1' : Sim st1 (removeSubs fs0 k (done ++ [nm])) := by
        apply hsim1.congr
        intro q
        rw [get_removeRec, removeSubs_get, removeSubs_get, underAny_append]
        by_cases h1 : (k ++ [nm]) <+: q
        · have : (k ++ [nm]).isPrefixOf q = true := List.isPrefixOf_iff_prefix.mpr h1
          simp [h1, this]
        · have : (k ++ [nm]).isPrefixOf q = false := by rw [← Bool.not_eq_true, List.isPrefixOf_iff_prefix]; exact h1
          simp [h1, this]
      rw [hassoc]
      exact ih (done ++ [nm]) (by rw [← hassoc]; exact hnd) (by rw [← hassoc]; exact hmem) st1 hsim1'
    · -- a file: `remove`
      simp only [hdir, Bool.false_eq_true, ↓reduceIte, bind, Except.bind]
      have hnd' : (removeSubs fs0 k done).get (k ++ [nm]) ≠ some .dir := by
        intro e; apply hdir; simp [FS.isDirB, e]
      have hsim1' : Sim (Mem.remove st (k ++ [nm])) (removeSubs fs0 k (done ++ [nm])) := by
        apply (sim_remove hst (k ++ [nm])).congr
        intro q
        rw [FS.get_erase, removeSubs_get, removeSubs_get, underAny_append]
        by_cases h1 : (k ++ [nm]) <+: q
        · have hp : (k ++ [nm]).isPrefixOf q = true := List.isPrefixOf_iff_prefix.mpr h1
          simp only [hp, Bool.or_true, ↓reduceIte]
          by_cases e : q = k ++ [nm]
          · simp [e]
          · simp only [e, ↓reduceIte]
            -- a bound key strictly below the file would need the file to be a directory
            have hanc : (k ++ [nm]) ∈ ancestors q := (mem_ancestors _ _).mpr ⟨by simp, h1, fun e' => e e'.symm⟩
            have hq : (removeSubs fs0 k done).get q = none := by
              cases hg : (removeSubs fs0 k done).get q with
              | none => rfl
              | some x =>
                exfalso
                exact hnd' (hcur_tree.anc q (by simp [hg]) _ hanc)
            rw [removeSubs_get] at hq
            exact hq.symm
        · have hp : (k ++ [nm]).isPrefixOf q = false := by rw [← Bool.not_eq_true, List.isPrefixOf_iff_prefix]; exact h1
          have e : q ≠ k ++ [nm] := fun e => h1 (e ▸ List.prefix_refl _)
          simp [hp, e]
      rw [hassoc]
      exact ih (done ++ [nm]) (by rw [← hassoc]; exact hnd) (by rw [← hassoc]; exact hmem) _ hsim1'

theorem removedirRec_all (n : Nat) : RemovedirRec n := by
  induction n with
  | zero => intro s fs k _ _ _ _ h; omega
  | succ n IH =>
    intro s fs k hsim ht hk hd hsub
    have hke : k.isEmpty = false := by simpa using hk
    have hdir : fs.isDirB k = true := by simp [FS.isDirB, hd]
    rcases hsim.listdir_nonroot ht k hk with ⟨_, hf⟩ | ⟨names, hl, _, hperm⟩
    · rw [hdir] at hf; cases hf
    · have hnd : names.Nodup := (hperm.nodup_iff).mpr (children_nodup ht k)
      obtain ⟨st, hfold, hst⟩ := fold_children n IH fs k ht hk hd hsub names [] (by simpa using hnd)
        (fun c hc => hperm.mem_iff.mp (by simpa using hc)) s (by
          apply hsim.congr; intro q; rw [removeSubs_get]; simp [underAny])
      simp only [List.nil_append] at hst
      -- the directory itself
      have htree := removeSubs_tree ht k names
      have hkd : (removeSubs fs k names).get k = some .dir := by
        rw [removeSubs_get]
        have : underAny k names k = false := by
          rw [← Bool.not_eq_true, underAny_iff]
          rintro ⟨c, _, hp⟩
          exact child_not_prefix_parent k c hp
        simp [this, hd]
      have hempty : ((removeSubs fs k names).children k).isEmpty = true := by
        rw [FS.children_isEmpty_iff]
        intro q hq hqne hqk
        have hq' := hq
        rw [removeSubs_get] at hq'
        have hqe : k ++ [keyName q] = q := by
          have := key_eq_parent_name hqne
          unfold parentKey at this
          rw [hqk] at this
          exact this.symm
        by_cases hu : underAny k names q = true
        · simp [hu] at hq'
        · simp only [hu, Bool.false_eq_true, ↓reduceIte] at hq'
          apply hu
          rw [underAny_iff]
          refine ⟨keyName q, hperm.mem_iff.mpr ((mem_children_iff fs k _).mpr (by rw [hqe]; exact hq')), ?_⟩
          rw [hqe]
          exact List.prefix_refl _
      refine ⟨{ st with directories := st.directories.filter (· != k) }, ?_, ?_⟩
      · simp only [Mem.removedirFuel, hke, Bool.false_eq_true, ↓reduceIte, hl, hfold]
        exact mem_removedir_tail hst htree k hk hkd hempty
      · apply (sim_dropDir hst k (Or.inr hkd)).congr
        intro q
        rw [get_removeRec, FS.get_erase, removeSubs_get]
        by_cases e : q = k
        · subst e; simp
        · simp only [e, ↓reduceIte]
          by_cases hu : underAny k names q = true
          · obtain ⟨c, _, hp⟩ := (underAny_iff k names q).mp hu
            have : k <+: q := (List.prefix_append k [c]).trans hp
            simp [hu, this]
          · simp only [hu, Bool.false_eq_true, ↓reduceIte]
            by_cases hkq : k <+: q
            · simp only [hkq, ↓reduceIte]
              cases hg : fs.get q with
              | none => rfl
              | some x =>
                exfalso
                have hanc : k ∈ ancestors q := (mem_ancestors k q).mpr ⟨hk, hkq, fun e' => e e'.symm⟩
                obtain ⟨c, hc1, hc2, hc3⟩ := child_on_way hanc
                have hs : (fs.get q).isSome = true := by simp [hg]
                have hcs : (fs.get c).isSome = true := by
                  rcases hc1 with e1 | e1
                  · rw [e1]; exact hs
                  · simp [ht.anc q hs c e1]
                have hce : k ++ [keyName c] = c := by
                  have := key_eq_parent_name hc2
                  unfold parentKey at this
                  rw [hc3] at this
                  exact this.symm
                apply hu
                rw [underAny_iff]
                refine ⟨keyName c, hperm.mem_iff.mpr ((mem_children_iff fs k _).mpr (by rw [hce]; exact hcs)), ?_⟩
                rw [hce]
                rcases hc1 with e1 | e1
                · rw [e1]; exact List.prefix_refl _
                · exact ancestors_prefix e1
            · simp [hkq]

theorem subSize_le (fs : FS) (k : Key) : subSize fs k ≤ fs.length := List.length_filter_le _ _

theorem sim_removedir_rec {s : MemState} {fs : FS} (h : Sim s fs) (ht : FS.Tree fs) (k : Key) (hk : k ≠ [])
    (hd : fs.get k = some .dir) :
    ∃ s', Mem.removedir s k true = .ok s' ∧ Sim s' (fs.filter (fun kv => !(k.isPrefixOf kv.1))) := by
  unfold Mem.removedir
  apply removedirRec_all _ s fs k h ht hk hd
  have : (Mem.keys s).length = fs.length := by
    rw [(h.keys_perm ht).length_eq, List.length_map]
  have := subSize_le fs k
  omega

end Liquer

namespace Liquer

/-! ### every well-formed operation, whole histories -/

theorem sim_step {s : MemState} {fs : FS} (h : Sim s fs) (ht : FS.Tree fs) (op : StoreOp) (hwf : wfOp fs op = true) :
    ∃ s', memOps.apply s op = .ok s' ∧ Sim s' (specOps.step fs op) := by
  cases op with
  | store k d m => exact ⟨_, rfl, sim_store h k d m hwf⟩
  | storeMeta k m =>
    simp only [wfOp] at hwf
    obtain ⟨d0, m0, hk⟩ := isFile_cases hwf
    refine ⟨_, rfl, ?_⟩
    simp only [StoreOps.step, StoreOps.apply, specOps, hk]
    exact sim_storeMeta h k m hk
  | remove k =>
    refine ⟨_, rfl, ?_⟩
    simp only [StoreOps.step, StoreOps.apply, specOps]
    exact sim_remove h k
  | removedir k r =>
    simp only [wfOp, Bool.and_eq_true, Bool.not_eq_true', List.isEmpty_eq_false_iff, beq_iff_eq, Bool.or_eq_true] at hwf
    obtain ⟨⟨hk, hd⟩, hr⟩ := hwf
    have hke : k.isEmpty = false := by simpa using hk
    cases r with
    | true =>
      obtain ⟨s', h1, h2⟩ := sim_removedir_rec h ht k hk hd
      refine ⟨s', h1, ?_⟩
      simpa only [StoreOps.step, StoreOps.apply, specOps, hke, Bool.false_eq_true, ↓reduceIte] using h2
    | false =>
      have hc : (fs.children k).isEmpty = true := by simpa using hr
      obtain ⟨s', h1, h2⟩ := sim_removedir_nonrec h ht k (Mem.keys s).length hk hd hc
      refine ⟨s', h1, ?_⟩
      simpa only [StoreOps.step, StoreOps.apply, specOps, hke, Bool.false_eq_true, ↓reduceIte, hc] using h2
  | makedir k =>
    simp only [wfOp, Bool.and_eq_true, Bool.not_eq_true', List.isEmpty_eq_false_iff, List.all_eq_true] at hwf
    obtain ⟨hk, hall⟩ := hwf
    have hke : k.isEmpty = false := by simpa using hk
    refine ⟨_, rfl, ?_⟩
    simp only [StoreOps.step, StoreOps.apply, specOps, Mem.makedir, hke, Bool.false_eq_true, ↓reduceIte]
    exact sim_mkdirs h _ (fun a ha => notFile_cases (hall a ha))

theorem sim_run {s : MemState} {fs : FS} (h : Sim s fs) (ht : FS.Tree fs) (hist : List StoreOp) (hwf : wfHist fs hist = true) :
    Sim (memOps.run s hist) (specOps.run fs hist) := by
  induction hist generalizing s fs with
  | nil => exact h
  | cons op rest ih =>
    simp only [wfHist, Bool.and_eq_true] at hwf
    obtain ⟨s', h1, h2⟩ := sim_step h ht op hwf.1
    simp only [StoreOps.run, List.foldl_cons]
    have : memOps.step s op = s' := by simp only [StoreOps.step, h1]
    rw [this]
    exact ih h2 (spec_tree_step ht op hwf.1) hwf.2

/-- on a well-formed history no operation of the memory store fails -/
theorem mem_step_ok {s : MemState} {fs : FS} (h : Sim s fs) (ht : FS.Tree fs) (op : StoreOp) (hwf : wfOp fs op = true) :
    ∃ s', memOps.apply s op = .ok s' := by
  obtain ⟨s', h1, _⟩ := sim_step h ht op hwf
  exact ⟨s', h1⟩

/-! ### keys made of non-empty components -/

def NormalFS (fs : FS) : Prop := ∀ q, (fs.get q).isSome = true → ∀ c ∈ q, c ≠ []

theorem step_get_isSome (fs : FS) (op : StoreOp) (q : Key) (h : ((specOps.step fs op).get q).isSome = true) :
    (fs.get q).isSome = true ∨ q <+: op.key := by
  cases op with
  | store k d m =>
    simp only [StoreOps.step, StoreOps.apply, specOps, StoreOp.key] at h ⊢
    rw [FS.get_set, FS.get_mkdirs] at h
    by_cases e : k = q
    · right; rw [e]; exact List.prefix_refl _
    · by_cases ha : q ∈ ancestors k
      · right; exact ancestors_prefix ha
      · left; simpa [e, ha] using h
  | storeMeta k m =>
    simp only [StoreOp.key]
    cases hg : fs.get k with
    | none => left; simpa only [StoreOps.step, StoreOps.apply, specOps, hg] using h
    | some n =>
      cases n with
      | dir => left; simpa only [StoreOps.step, StoreOps.apply, specOps, hg] using h
      | file d0 m0 =>
        simp only [StoreOps.step, StoreOps.apply, specOps, hg] at h
        rw [FS.get_set] at h
        by_cases e : k = q
        · right; rw [e]; exact List.prefix_refl _
        · left; simpa [e] using h
  | remove k =>
    simp only [StoreOps.step, StoreOps.apply, specOps] at h
    rw [FS.get_erase] at h
    left
    by_cases e : q = k
    · simp [e] at h
    · simpa [e] using h
  | removedir k r =>
    left
    by_cases hk : k.isEmpty = true
    · simpa only [StoreOps.step, StoreOps.apply, specOps, hk, ↓reduceIte] using h
    · cases r with
      | true =>
        simp only [StoreOps.step, StoreOps.apply, specOps, hk, Bool.false_eq_true, ↓reduceIte] at h
        rw [get_removeRec] at h
        by_cases e : k <+: q
        · simp [e] at h
        · simpa [e] using h
      | false =>
        by_cases hc : (fs.children k).isEmpty = true
        · simp only [StoreOps.step, StoreOps.apply, specOps, hk, hc, Bool.false_eq_true, ↓reduceIte] at h
          rw [FS.get_erase] at h
          by_cases e : q = k
          · simp [e] at h
          · simpa [e] using h
        · simpa only [StoreOps.step, StoreOps.apply, specOps, hk, hc, Bool.false_eq_true, ↓reduceIte] using h
  | makedir k =>
    simp only [StoreOps.step, StoreOps.apply, specOps, StoreOp.key] at h ⊢
    rw [FS.get_mkdirs] at h
    by_cases ha : q ∈ ancestors k ++ (if k.isEmpty then [] else [k])
    · right
      rcases List.mem_append.mp ha with h1 | h1
      · exact ancestors_prefix h1
      · split at h1
        · simp at h1
        · simp at h1; rw [h1]; exact List.prefix_refl _
    · left
      have hn : ¬ (q ∈ ancestors k ++ (if k.isEmpty then [] else [k]) ∧ fs.get q = none) := fun x => ha x.1
      simpa only [hn, ↓reduceIte] using h

theorem normal_step {fs : FS} (hn : NormalFS fs) (op : StoreOp) (hk : ∀ c ∈ op.key, c ≠ []) : NormalFS (specOps.step fs op) := by
  intro q hq c hc
  rcases step_get_isSome fs op q hq with h | h
  · exact hn q h c hc
  · exact hk c (h.subset hc)

theorem normal_run {fs : FS} (hn : NormalFS fs) (hist : List StoreOp) (hk : ∀ op ∈ hist, ∀ c ∈ op.key, c ≠ []) :
    NormalFS (specOps.run fs hist) := by
  induction hist generalizing fs with
  | nil => exact hn
  | cons op rest ih =>
    simp only [StoreOps.run, List.foldl_cons]
    exact ih (normal_step hn op (hk op List.mem_cons_self)) (fun o ho => hk o (List.mem_cons_of_mem _ ho))

theorem normal_nil : NormalFS [] := by intro q hq; simp [FS.get_nil] at hq

/-! ### observations modulo the order of listings -/

def listingEquiv : Except StoreErr (Option (List Str)) → Except StoreErr (Option (List Str)) → Prop
  | .ok (some a), .ok (some b) => a.Perm b
  | .ok none, .ok none => True
  | .error e, .error e' => e = e'
  | _, _ => False

def keysEquiv : Except StoreErr (List Key) → Except StoreErr (List Key) → Prop
  | .ok a, .ok b => a.Perm b
  | .error e, .error e' => e = e'
  | _, _ => False

/-- two observations of a key agree: equal answers, listings equal as multisets -/
structure ObsEquiv (a b : KeyObs) : Prop where
  contains : a.contains = b.contains
  isDir : a.isDir = b.isDir
  bytes : a.bytes = b.bytes
  metadata : a.metadata = b.metadata
  listdir : listingEquiv a.listdir b.listdir

theorem Sim.listdir_root {s : MemState} {fs : FS} (h : Sim s fs) (ht : FS.Tree fs) (hn : NormalFS fs) :
    ∃ l, Mem.listdir s [] = some l ∧ l.Perm (fs.children []) := by
  refine ⟨_, rfl, ?_⟩
  rw [List.perm_ext_iff_of_nodup (nodup_eraseDups' _) (children_nodup ht [])]
  intro c
  rw [List.mem_eraseDups, mem_children_iff, List.mem_filterMap]
  simp only [List.nil_append]
  constructor
  · rintro ⟨q, hq, hf⟩
    cases q with
    | nil => simp at hf
    | cons c' t =>
      by_cases hc' : c'.isEmpty = true
      · simp [hc'] at hf
      · simp only [hc', Bool.false_eq_true, ↓reduceIte, Option.some.injEq] at hf
        subst hf
        have hs := (h.mem_keys _).mp hq
        cases t with
        | nil => exact hs
        | cons x t =>
          have : [c'] ∈ ancestors (c' :: x :: t) := by
            rw [mem_ancestors]
            exact ⟨by simp, ⟨x :: t, rfl⟩, by simp⟩
          simp [ht.anc _ hs _ this]
  · intro hs
    have hne : c ≠ [] := hn [c] hs c (by simp)
    refine ⟨[c], (h.mem_keys _).mpr hs, ?_⟩
    have : c.isEmpty = false := by simpa using hne
    simp [this]

theorem Sim.obsEquiv {s : MemState} {fs : FS} (h : Sim s fs) (ht : FS.Tree fs) (hn : NormalFS fs) (k : Key) :
    ObsEquiv (memOps.obs s k) (specOps.obs fs k) := by
  refine ⟨?_, ?_, ?_, ?_, ?_⟩
  · simp only [StoreOps.obs, memOps, specOps, h.contains]
  · simp only [StoreOps.obs, memOps, specOps, h.isDir]
  · simp only [StoreOps.obs, memOps]; exact h.getBytes k
  · simp only [StoreOps.obs, memOps]; exact h.getMeta ht k
  · simp only [StoreOps.obs, memOps, specOps]
    by_cases hk : k = []
    · subst hk
      obtain ⟨l, hl, hp⟩ := h.listdir_root ht hn
      rw [hl]
      simp only [FS.isDirB, List.isEmpty_nil, Bool.true_or, ↓reduceIte]
      exact hp
    · rcases h.listdir_nonroot ht k hk with ⟨h1, h2⟩ | ⟨l, h1, h2, h3⟩
      · rw [h1, h2]; simp [listingEquiv]
      · rw [h1, h2]; simpa [listingEquiv] using h3

theorem Sim.keysEquiv {s : MemState} {fs : FS} (h : Sim s fs) (ht : FS.Tree fs) :
    keysEquiv (memOps.keys s) (specOps.keys fs) := by
  simp only [memOps, specOps]
  exact h.keys_perm ht

end Liquer

namespace Liquer

/-! ### the abstraction function -/

/-- the specification state a `MemoryStore` state stands for -/
def absMem (s : MemState) : FS :=
  s.directories.map (fun k => (k, Node.dir)) ++
  s.data.map (fun kd => (kd.1, Node.file kd.2 ((alGet s.metadata kd.1).getD default)))

theorem FS.get_append (a b : FS) (k : Key) : FS.get (a ++ b) k = (FS.get a k).or (FS.get b k) := by
  induction a with
  | nil => simp [FS.get_nil]
  | cons kv a ih =>
    obtain ⟨q, n⟩ := kv
    rw [List.cons_append, FS.get_cons, FS.get_cons, ih]
    by_cases h : q = k <;> simp [h]

theorem FS.get_dirs (ds : List Key) (k : Key) :
    FS.get (ds.map (fun k => (k, Node.dir))) k = if k ∈ ds then some .dir else none := by
  induction ds with
  | nil => simp [FS.get_nil]
  | cons d ds ih =>
    rw [List.map_cons, FS.get_cons, ih]
    by_cases h : d = k
    · simp [h]
    · have : ¬ k = d := fun e => h e.symm
      simp [h, this]

theorem FS.get_files (f : Key → Data → Node) (l : List (Key × Data)) (k : Key) :
    FS.get (l.map (fun kd => (kd.1, f kd.1 kd.2))) k = (alGet l k).map (f k) := by
  induction l with
  | nil => simp [FS.get_nil, alGet_nil]
  | cons kd l ih =>
    obtain ⟨q, d⟩ := kd
    rw [List.map_cons, FS.get_cons, alGet_cons, ih]
    by_cases h : q = k
    · subst h; simp
    · simp [h]

/-- under the simulation, the abstraction of the memory state binds every key as the specification state does -/
theorem absMem_get {s : MemState} {fs : FS} (h : Sim s fs) (k : Key) : (absMem s).get k = fs.get k := by
  unfold absMem
  rw [FS.get_append, FS.get_dirs, FS.get_files (fun q d => Node.file d ((alGet s.metadata q).getD default)),
    h.data, h.mdata]
  unfold dataOf metaOf
  cases hg : fs.get k with
  | none =>
    have : k ∉ s.directories := fun hm => by have := (h.dirs k).mp hm; rw [hg] at this; cases this
    simp [this]
  | some n =>
    cases n with
    | dir =>
      have : k ∈ s.directories := (h.dirs k).mpr hg
      simp [this]
    | file d m =>
      have : k ∉ s.directories := fun hm => by have := (h.dirs k).mp hm; rw [hg] at this; cases this
      simp [this]

end Liquer
