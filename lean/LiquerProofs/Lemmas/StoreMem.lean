/-
The simulation between the `MemoryStore` model (`LiquerModel/StoreMem.lean`) and the reference store
`specOps`: the relation `Sim`, what it says about observations, and its preservation by every
well-formed operation (including the fuel-bounded recursive `removedir`).
-/
import LiquerModel.StoreMem
import LiquerProofs.Lemmas.StoreSpec

namespace Liquer

/-! ### association lists -/

theorem alGet_nil {β : Type} (k : Key) : alGet ([] : List (Key × β)) k = none := rfl

theorem alGet_cons {β : Type} (k' : Key) (v : β) (l : List (Key × β)) (k : Key) :
    alGet ((k', v) :: l) k = if k' = k then some v else alGet l k := by
  unfold alGet
  by_cases h : k' = k <;> simp [h]

theorem alGet_erase {β : Type} (l : List (Key × β)) (k k' : Key) :
    alGet (alErase l k) k' = if k' = k then none else alGet l k' := by
  induction l with
  | nil => simp [alErase, alGet_nil]
  | cons kv l ih =>
    obtain ⟨q, v⟩ := kv
    unfold alErase at ih ⊢
    by_cases hq : q = k
    · subst hq
      rw [List.filter_cons_of_neg (by simp), ih, alGet_cons]
      by_cases h : k' = q
      · simp [h]
      · have : ¬ q = k' := fun e => h e.symm
        simp [h, this]
    · rw [List.filter_cons_of_pos (by simpa using hq), alGet_cons, alGet_cons, ih]
      by_cases h : q = k'
      · subst h; simp [hq]
      · simp [h]

theorem alGet_set {β : Type} (l : List (Key × β)) (k : Key) (v : β) (k' : Key) :
    alGet (alSet l k v) k' = if k = k' then some v else alGet l k' := by
  unfold alSet
  rw [alGet_cons, alGet_erase]
  by_cases h : k = k'
  · simp [h]
  · have : ¬ k' = k := fun e => h e.symm
    simp [h, this]

theorem al_mem_keys_iff {β : Type} (l : List (Key × β)) (k : Key) : k ∈ l.map (·.1) ↔ (alGet l k).isSome = true := by
  induction l with
  | nil => simp [alGet_nil]
  | cons kv l ih =>
    obtain ⟨q, v⟩ := kv
    rw [List.map_cons, List.mem_cons, alGet_cons, ih]
    by_cases h : q = k
    · subst h; simp
    · have : ¬ k = q := fun e => h e.symm
      simp [h, this]

theorem mem_foldl_setAdd (ks l : List Key) (q : Key) : q ∈ ks.foldl setAdd l ↔ q ∈ l ∨ q ∈ ks := by
  induction ks generalizing l with
  | nil => simp
  | cons a ks ih =>
    rw [List.foldl_cons, ih]
    unfold setAdd
    by_cases h : l.contains a = true
    · have : a ∈ l := by simpa using h
      simp only [h, ↓reduceIte, List.mem_cons]
      constructor
      · rintro (h1 | h1)
        · exact Or.inl h1
        · exact Or.inr (Or.inr h1)
      · rintro (h1 | h1 | h1)
        · exact Or.inl h1
        · exact Or.inl (h1 ▸ this)
        · exact Or.inr h1
    · simp only [h, Bool.false_eq_true, ↓reduceIte, List.mem_cons]
      constructor
      · rintro ((h1 | h1) | h1)
        · exact Or.inr (Or.inl h1)
        · exact Or.inl h1
        · exact Or.inr (Or.inr h1)
      · rintro (h1 | h1 | h1)
        · exact Or.inl (Or.inr h1)
        · exact Or.inl (Or.inl h1)
        · exact Or.inr h1

/-! ### the simulation relation -/

def dataOf (fs : FS) (k : Key) : Option Data :=
  match fs.get k with
  | some (.file d _) => some d
  | _ => none

def metaOf (fs : FS) (k : Key) : Option UMeta :=
  match fs.get k with
  | some (.file _ m) => some m
  | _ => none

/-- the three containers of the `MemoryStore` hold exactly the directories, the file data and the file
metadata of the specification state -/
structure Sim (s : MemState) (fs : FS) : Prop where
  dirs : ∀ k, k ∈ s.directories ↔ fs.get k = some .dir
  data : ∀ k, alGet s.data k = dataOf fs k
  mdata : ∀ k, alGet s.metadata k = metaOf fs k

theorem Sim.congr {s : MemState} {fs fs' : FS} (h : Sim s fs) (e : ∀ q, fs'.get q = fs.get q) : Sim s fs' :=
  ⟨fun k => by rw [e]; exact h.dirs k, fun k => by unfold dataOf; rw [e]; exact h.data k,
   fun k => by unfold metaOf; rw [e]; exact h.mdata k⟩

theorem sim_init : Sim memInit [] :=
  ⟨fun k => by simp [memInit, FS.get_nil], fun k => by simp [memInit, alGet_nil, dataOf, FS.get_nil],
   fun k => by simp [memInit, alGet_nil, metaOf, FS.get_nil]⟩

/-! ### observations under the simulation -/

theorem Sim.isDir {s : MemState} {fs : FS} (h : Sim s fs) (k : Key) : Mem.isDir s k = fs.isDirB k := by
  unfold Mem.isDir FS.isDirB
  by_cases hd : fs.get k = some .dir
  · have : k ∈ s.directories := (h.dirs k).mpr hd
    simp [hd, this]
  · have : k ∉ s.directories := fun hm => hd ((h.dirs k).mp hm)
    simp [hd, this]

theorem Sim.contains {s : MemState} {fs : FS} (h : Sim s fs) (k : Key) : Mem.contains s k = fs.containsB k := by
  unfold Mem.contains FS.containsB
  rw [h.data, h.mdata]
  unfold dataOf metaOf
  cases hg : fs.get k with
  | none =>
    have : k ∉ s.directories := fun hm => by have := (h.dirs k).mp hm; rw [hg] at this; cases this
    simp [this]
  | some n =>
    cases n with
    | dir =>
      have : k ∈ s.directories := (h.dirs k).mpr hg
      simp [this]
    | file d m => simp

theorem Sim.getBytes {s : MemState} {fs : FS} (h : Sim s fs) (k : Key) : Mem.getBytes s k = specOps.getBytes fs k := by
  unfold Mem.getBytes
  rw [h.data]
  unfold dataOf
  simp only [specOps]
  cases hg : fs.get k with
  | none => rfl
  | some n => cases n <;> rfl

theorem Sim.getMeta {s : MemState} {fs : FS} (h : Sim s fs) (ht : FS.Tree fs) (k : Key) :
    Mem.getMeta s k = specOps.getMeta fs k := by
  unfold Mem.getMeta
  rw [h.mdata, h.isDir]
  unfold metaOf FS.isDirB
  simp only [specOps]
  cases hg : fs.get k with
  | none =>
    by_cases hk : k = []
    · subst hk; simp [keyName]
    · simp [hk]
  | some n =>
    cases n with
    | dir => simp
    | file d m =>
      have hk : k ≠ [] := ht.nonroot k (by simp [hg])
      simp [hk]

/-- `keys()` of the memory store: no duplicates, the keys bound in the specification state -/
theorem Sim.mem_keys {s : MemState} {fs : FS} (h : Sim s fs) (k : Key) : k ∈ Mem.keys s ↔ (fs.get k).isSome = true := by
  unfold Mem.keys
  rw [List.mem_eraseDups, List.mem_append, List.mem_append, al_mem_keys_iff, al_mem_keys_iff, h.dirs, h.data, h.mdata]
  unfold dataOf metaOf
  cases hg : fs.get k with
  | none => simp
  | some n => cases n <;> simp

theorem Mem.keys_nodup (s : MemState) : (Mem.keys s).Nodup := nodup_eraseDups' _

theorem Sim.keys_perm {s : MemState} {fs : FS} (h : Sim s fs) (ht : FS.Tree fs) : (Mem.keys s).Perm (fs.map (·.1)) := by
  rw [List.perm_ext_iff_of_nodup (Mem.keys_nodup s) ht.nodup]
  intro k
  rw [h.mem_keys, FS.mem_keys_iff]

/-- listing of a non-root key -/
theorem Sim.listdir_nonroot {s : MemState} {fs : FS} (h : Sim s fs) (ht : FS.Tree fs) (k : Key) (hk : k ≠ []) :
    (Mem.listdir s k = none ∧ fs.isDirB k = false) ∨
    (∃ l, Mem.listdir s k = some l ∧ fs.isDirB k = true ∧ l.Perm (fs.children k)) := by
  have hke : k.isEmpty = false := by simpa using hk
  unfold Mem.listdir
  simp only [hke, Bool.false_eq_true, ↓reduceIte]
  rw [h.isDir]
  by_cases hd : fs.isDirB k = true
  · right
    refine ⟨((Mem.keys s).filter (fun q => parentKey q == k)).map keyName, by simp only [hd, ↓reduceIte], hd, ?_⟩
    rw [FS.children_eq]
    apply List.Perm.map
    have hp := (h.keys_perm ht).filter (fun q => parentKey q == k)
    refine hp.trans ?_
    apply List.Perm.of_eq
    apply List.filter_congr
    intro q _
    unfold parentKey
    by_cases hq : q = []
    · subst hq
      have : ¬ ([] : Key) = k := fun e => hk e.symm
      simp [this]
    · simp [hq]
  · left
    simp [hd]

end Liquer
