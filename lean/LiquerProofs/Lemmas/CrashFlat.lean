/-
C16, flat cache directory (`FileCache`, `XORFileCache`, `FernetFileCache`): what every crash point of
`store`, `store_metadata`, `remove` leaves readable.
-/
import LiquerProofs.Lemmas.CrashGen

namespace Liquer
namespace Crash

/-- the laws the codec parameters are assumed to satisfy: decoders accept complete payloads
(nothing is assumed about what they do with anything else) -/
structure CodecOK (c : FileCfg) : Prop where
  dec_enc : ∀ b, c.dec (c.enc b) = some b
  deM_serM : ∀ m, c.deM (c.serM m) = some m
  deD_serD : ∀ t v, c.deD t (c.serD t v) = some v

/-- the same, only for the two payloads of one state (what the crash theorems need) -/
structure CodecAt (c : FileCfg) (st : CState) : Prop where
  metaOK : (c.dec (c.enc (c.serM { st.metadata with status := ready }))).bind c.deM = some { st.metadata with status := ready }
  dataOK : (c.dec (c.enc (c.serD st.metadata.typeId st.data))).bind (c.deD st.metadata.typeId) = some st.data

theorem CodecOK.at {c : FileCfg} (ok : CodecOK c) (st : CState) : CodecAt c st :=
  ⟨by simp [ok.dec_enc, ok.deM_serM], by simp [ok.dec_enc, ok.deD_serD]⟩

/-! ### reads depend only on the files of the key -/

theorem readC_congr (c : FileCfg) (d1 d2 : CDir) (k : Str)
    (hs : AL.get d1 (.state (c.h k)) = AL.get d2 (.state (c.h k)))
    (hd : ∀ e, AL.get d1 (.data (c.h k) e) = AL.get d2 (.data (c.h k) e)) : readC c d1 k = readC c d2 k := by
  simp only [readC, FileC.get, FileC.loadMeta, hs, hd]

theorem readC_absent (c : FileCfg) (d : CDir) (k : Str) (hs : AL.get d (.state (c.h k)) = none) : readC c d k = (none, none) := by
  simp [readC, FileC.get, FileC.loadMeta, hs]

/-! ### single steps -/

theorem get_execC_untouched (d : CDir) (s : Step FName) (n : FName) (h : n ∉ s.names) : AL.get (execC d s) n = AL.get d n := by
  cases s with
  | mkdir p => rfl
  | close p => rfl
  | create p =>
    have : (n == p) = false := by simpa [Step.names] using h
    simp [execC, AL.get_set, this]
  | unlink p =>
    have : (n == p) = false := by simpa [Step.names] using h
    simp [execC, AL.get_erase, this]
  | append p b =>
    have : (n == p) = false := by simpa [Step.names] using h
    simp only [execC]
    cases AL.get d p <;> simp [AL.get_set, this]
  | rename a b =>
    have h1 : (n == a) = false := by simp [Step.names] at h; simpa using h.1
    have h2 : (n == b) = false := by simp [Step.names] at h; simpa using h.2
    simp only [execC]
    cases AL.get d a <;> simp [AL.get_set, AL.get_erase, h1, h2]

/-- a name no step of the protocol mentions reads the same at every crash point -/
theorem get_crashAt_untouched (steps : List (Step FName)) (nm : FName) (h : ∀ s ∈ steps, nm ∉ s.names)
    (n cut : Nat) (d : CDir) : AL.get (crashAt execC n cut steps d) nm = AL.get d nm := by
  refine crashAt_inv execC (fun d' => AL.get d' nm = AL.get d nm) steps ?_ ?_ n cut d rfl
  · intro s hs fs hI
    rw [get_execC_untouched fs s nm (h s hs)]; exact hI
  · intro p b hm cut fs hI
    rw [get_execC_untouched fs _ nm (by simpa [Step.names] using h _ hm)]; exact hI

/-! ### the names the three protocols touch belong to the key -/

def ofKey (hk : Str) (n : FName) : Bool := n == .state hk || FileC.isDataOf hk n || n == tmpC

theorem writeFileC_names (hk : Str) (target : FName) (b : Data) (ht : ofKey hk target = true) :
    ∀ s ∈ writeFileC target b, ∀ n ∈ s.names, ofKey hk n = true := by
  intro s hs n hn
  simp only [writeFileC, List.mem_cons, List.not_mem_nil, or_false] at hs
  rcases hs with rfl | rfl | rfl | rfl <;> simp [Step.names] at hn
  · subst hn; simp [ofKey]
  · subst hn; simp [ofKey]
  · subst hn; simp [ofKey]
  · rcases hn with rfl | rfl
    · simp [ofKey]
    · exact ht

theorem removeStepsC_names (c : FileCfg) (d : CDir) (k : Str) :
    ∀ s ∈ removeStepsC c d k, ∀ n ∈ s.names, ofKey (c.h k) n = true := by
  intro s hs n hn
  simp only [removeStepsC, List.mem_append, List.mem_map, List.mem_filter] at hs
  rcases hs with hs | ⟨e, ⟨_, he⟩, rfl⟩
  · split at hs
    · simp only [List.mem_cons, List.not_mem_nil, or_false] at hs
      subst hs; simp [Step.names] at hn; subst hn; simp [ofKey]
    · simp at hs
  · simp [Step.names] at hn; subst hn; simp [ofKey, he]

theorem storeStepsC_names (c : FileCfg) (d : CDir) (st : CState) :
    ∀ s ∈ storeStepsC c d st, ∀ n ∈ s.names, ofKey (c.h st.metadata.query) n = true := by
  intro s hs n hn
  simp only [storeStepsC, storeMetaStepsC, List.mem_append] at hs
  rcases hs with (hs | hs) | hs
  · exact removeStepsC_names c d _ s hs n hn
  · exact writeFileC_names _ _ _ (by simp [ofKey, FileC.isDataOf]) s hs n hn
  · exact writeFileC_names _ _ _ (by simp [ofKey]) s hs n hn

theorem not_ofKey_state (hk hk' : Str) (h : hk' ≠ hk) : ofKey hk (.state hk') = false := by
  simp [ofKey, FileC.isDataOf, tmpC, h]

theorem not_ofKey_data (hk hk' e : Str) (h : hk' ≠ hk) : ofKey hk (.data hk' e) = false := by
  simp [ofKey, FileC.isDataOf, tmpC, h]

/-- **frame**: whatever the crash point, a key with another digest reads as before -/
theorem frame_of_names (c : FileCfg) (steps : List (Step FName)) (k k' : Str) (hne : c.h k' ≠ c.h k)
    (hnames : ∀ s ∈ steps, ∀ n ∈ s.names, ofKey (c.h k) n = true) (n cut : Nat) (d : CDir) :
    readC c (crashAt execC n cut steps d) k' = readC c d k' := by
  apply readC_congr
  · apply get_crashAt_untouched
    intro s hs hm
    have := hnames s hs _ hm
    rw [not_ofKey_state _ _ hne] at this; cases this
  · intro e
    apply get_crashAt_untouched
    intro s hs hm
    have := hnames s hs _ hm
    rw [not_ofKey_data _ _ _ hne] at this; cases this

/-! ### the metadata file is the switch: while it is absent the key is a miss -/

/-- steps that cannot bring `state_<hk>.json` into existence -/
def stateSafe (hk : Str) : Step FName → Bool
  | .create p => p != .state hk
  | .rename _ b => b != .state hk
  | _ => true

theorem absent_execC (hk : Str) (d : CDir) (s : Step FName) (hs : stateSafe hk s = true)
    (h : AL.get d (.state hk) = none) : AL.get (execC d s) (.state hk) = none := by
  cases s with
  | mkdir p => exact h
  | close p => exact h
  | create p =>
    have : (FName.state hk == p) = false := by simp [stateSafe] at hs; simpa using fun e => hs e.symm
    simp [execC, AL.get_set, this, h]
  | unlink p => simp only [execC, AL.get_erase]; split <;> simp [h]
  | append p b =>
    simp only [execC]
    cases hp : AL.get d p with
    | none => exact h
    | some x =>
      simp only [AL.get_set]
      split
      · rename_i heq
        have : FName.state hk = p := by simpa using heq
        subst this; rw [h] at hp; cases hp
      · exact h
  | rename a b =>
    have : (FName.state hk == b) = false := by simp [stateSafe] at hs; simpa using fun e => hs e.symm
    simp only [execC]
    cases AL.get d a with
    | none => exact h
    | some x =>
      simp only [AL.get_set, this, AL.get_erase, Bool.false_eq_true, ↓reduceIte]
      split <;> simp [h]

theorem writeFileC_safe (hk : Str) (target : FName) (b : Data) (ht : target ≠ .state hk) :
    ∀ s ∈ writeFileC target b, stateSafe hk s = true := by
  intro s hs
  simp only [writeFileC, List.mem_cons, List.not_mem_nil, or_false] at hs
  rcases hs with rfl | rfl | rfl | rfl <;> simp [stateSafe, tmpC, ht]

theorem removeStepsC_safe (c : FileCfg) (d : CDir) (k : Str) (hk : Str) : ∀ s ∈ removeStepsC c d k, stateSafe hk s = true := by
  intro s hs
  simp only [removeStepsC, List.mem_append, List.mem_map] at hs
  rcases hs with hs | ⟨e, _, rfl⟩
  · split at hs
    · simp only [List.mem_cons, List.not_mem_nil, or_false] at hs; subst hs; rfl
    · simp at hs
  · rfl

/-- every crash point of a protocol made of safe steps keeps an absent metadata file absent -/
theorem absent_crashAt (hk : Str) (steps : List (Step FName)) (hsafe : ∀ s ∈ steps, stateSafe hk s = true)
    (n cut : Nat) (d : CDir) (h : AL.get d (.state hk) = none) : AL.get (crashAt execC n cut steps d) (.state hk) = none := by
  refine crashAt_inv execC (fun d' => AL.get d' (.state hk) = none) steps ?_ ?_ n cut d h
  · intro s hs fs hI; exact absent_execC hk fs s (hsafe s hs) hI
  · intro p b _ cut fs hI; exact absent_execC hk fs _ rfl hI

/-! ### `remove` -/

/-- **`FileCache.remove`**: every crash point reads as before or as a miss -/
theorem remove_crash (c : FileCfg) (d : CDir) (k : Str) (n cut : Nat) :
    readC c (crashAt execC n cut (removeStepsC c d k) d) k = readC c d k ∨
    readC c (crashAt execC n cut (removeStepsC c d k) d) k = (none, none) := by
  cases hs : AL.get d (.state (c.h k)) with
  | none =>
    right
    exact readC_absent c _ k (absent_crashAt _ _ (removeStepsC_safe c d k _) n cut d hs)
  | some x =>
    have hsteps : removeStepsC c d k = .unlink (.state (c.h k)) ::
        ((d.filter (fun e => FileC.isDataOf (c.h k) e.1)).map (fun e => Step.unlink e.1)) := by
      simp [removeStepsC, hs]
    rw [hsteps]
    cases n with
    | zero => left; rw [crashAt_zero_cons _ _ _ _ _ rfl]
    | succ n =>
      right
      rw [crashAt_succ_cons]
      apply readC_absent
      apply absent_crashAt
      · intro s hs'; simp only [List.mem_map] at hs'; obtain ⟨e, _, rfl⟩ := hs'; rfl
      · simp [execC, AL.get_erase]

/-! ### `store_metadata` -/

theorem get_writeFileC_final (d : CDir) (target : FName) (b : Data) (nm : FName) (ht : target ≠ tmpC) (hn : nm ≠ tmpC) :
    AL.get ((writeFileC target b).foldl execC d) nm = if nm == target then some b else AL.get d nm := by
  have h1 : (nm == tmpC) = false := by simpa using hn
  have h2 : (tmpC == target) = false := by simpa using fun e => ht e.symm
  simp only [writeFileC, List.foldl_cons, List.foldl_nil, execC, AL.get_set, BEq.rfl, ↓reduceIte, List.nil_append,
    AL.get_erase, h1]
  split <;> simp_all

/-- **`FileCache.store_metadata`**: every crash point reads as before, or as after the complete operation -/
theorem storeMeta_crash (c : FileCfg) (d : CDir) (m : CMeta) (n cut : Nat) :
    readC c (crashAt execC n cut (storeMetaStepsC c m) d) m.query = readC c d m.query ∨
    readC c (crashAt execC n cut (storeMetaStepsC c m) d) m.query = readC c (FileC.storeMeta c d m) m.query := by
  by_cases hn : (storeMetaStepsC c m).length ≤ n
  · right
    rw [crashAt_ge _ _ _ _ _ hn]
    apply readC_congr
    · rw [storeMetaStepsC, get_writeFileC_final _ _ _ _ (by simp [tmpC]) (by simp [tmpC])]
      simp [FileC.storeMeta, AL.get_set]
    · intro e
      rw [storeMetaStepsC, get_writeFileC_final _ _ _ _ (by simp [tmpC]) (by simp [tmpC])]
      simp [FileC.storeMeta, AL.get_set]
  · left
    have hn' : n ≤ 3 := by simp [storeMetaStepsC, writeFileC] at hn; omega
    have hsplit : storeMetaStepsC c m = [.create tmpC, .append tmpC (c.enc (c.serM m)), .close tmpC] ++
        [.rename tmpC (.state (c.h m.query))] := rfl
    rw [hsplit]
    refine crashAt_before_last execC (fun d' => readC c d' m.query = readC c d m.query) _ _ rfl ?_ ?_ n cut d (by simpa using hn') rfl
    · intro s hs fs hI
      rw [← hI]
      apply readC_congr
      · apply get_execC_untouched
        simp only [List.mem_cons, List.not_mem_nil, or_false] at hs
        rcases hs with rfl | rfl | rfl <;> simp [Step.names, tmpC]
      · intro e
        apply get_execC_untouched
        simp only [List.mem_cons, List.not_mem_nil, or_false] at hs
        rcases hs with rfl | rfl | rfl <;> simp [Step.names, tmpC]
    · intro p b hm cut fs hI
      rw [← hI]
      simp only [List.mem_cons, List.not_mem_nil, or_false] at hm
      rcases hm with hm | hm | hm <;> try cases hm
      apply readC_congr
      · apply get_execC_untouched; simp [Step.names, tmpC]
      · intro e; apply get_execC_untouched; simp [Step.names, tmpC]

/-! ### `store` -/

/-- all steps of `store` but the last one (the `os.replace` that publishes the metadata file) -/
def storePreC (c : FileCfg) (d : CDir) (st : CState) : List (Step FName) :=
  let m := { st.metadata with status := ready }
  removeStepsC c d m.query ++ writeFileC (.data (c.h m.query) (c.ext m.typeId)) (c.enc (c.serD m.typeId st.data)) ++
    [.create tmpC, .append tmpC (c.enc (c.serM m)), .close tmpC]

theorem storeStepsC_split (c : FileCfg) (d : CDir) (st : CState) :
    storeStepsC c d st = storePreC c d st ++ [.rename tmpC (.state (c.h st.metadata.query))] := by
  simp [storeStepsC, storePreC, storeMetaStepsC, writeFileC, List.append_assoc]

theorem storePreC_safe (c : FileCfg) (d : CDir) (st : CState) : ∀ s ∈ storePreC c d st, stateSafe (c.h st.metadata.query) s = true := by
  intro s hs
  simp only [storePreC, List.mem_append] at hs
  rcases hs with (hs | hs) | hs
  · exact removeStepsC_safe c d _ _ s hs
  · exact writeFileC_safe _ _ _ (by simp) s hs
  · simp only [List.mem_cons, List.not_mem_nil, or_false] at hs
    rcases hs with rfl | rfl | rfl <;> simp [stateSafe, tmpC]

theorem store_final (c : FileCfg) (d : CDir) (st : CState) (ok : CodecAt c st) :
    readC c ((storeStepsC c d st).foldl execC d) st.metadata.query =
      (some { metadata := { st.metadata with status := ready }, data := st.data }, some { st.metadata with status := ready }) := by
  have hs : AL.get ((storeStepsC c d st).foldl execC d) (.state (c.h st.metadata.query)) =
      some (c.enc (c.serM { st.metadata with status := ready })) := by
    simp only [storeStepsC, storeMetaStepsC, List.foldl_append]
    rw [get_writeFileC_final _ _ _ _ (by simp [tmpC]) (by simp [tmpC])]
    simp
  have hd : AL.get ((storeStepsC c d st).foldl execC d) (.data (c.h st.metadata.query) (c.ext st.metadata.typeId)) =
      some (c.enc (c.serD st.metadata.typeId st.data)) := by
    simp only [storeStepsC, storeMetaStepsC, List.foldl_append]
    rw [get_writeFileC_final _ _ _ _ (by simp [tmpC]) (by simp [tmpC])]
    rw [get_writeFileC_final _ _ _ _ (by simp [tmpC]) (by simp [tmpC])]
    simp
  have h1 := ok.metaOK
  have h2 := ok.dataOK
  simp only [readC, FileC.get, FileC.loadMeta, hs, hd, h1, h2]
  simp [ready]

/-- **`FileCache.store`**: every crash point (every step boundary, every prefix of every write, payloads of any
length) reads as before, as a miss, or as the complete new entry -/
theorem store_crash (c : FileCfg) (d : CDir) (st : CState) (ok : CodecAt c st) (n cut : Nat) :
    readC c (crashAt execC n cut (storeStepsC c d st) d) st.metadata.query = readC c d st.metadata.query ∨
    readC c (crashAt execC n cut (storeStepsC c d st) d) st.metadata.query = (none, none) ∨
    readC c (crashAt execC n cut (storeStepsC c d st) d) st.metadata.query =
      (some { metadata := { st.metadata with status := ready }, data := st.data }, some { st.metadata with status := ready }) := by
  by_cases hn : (storeStepsC c d st).length ≤ n
  · right; right
    rw [crashAt_ge _ _ _ _ _ hn]
    exact store_final c d st ok
  · have hlen : n ≤ (storePreC c d st).length := by
      rw [storeStepsC_split] at hn; simp at hn; omega
    cases hs : AL.get d (.state (c.h st.metadata.query)) with
    | none =>
      right; left
      apply readC_absent
      rw [storeStepsC_split]
      exact crashAt_before_last execC (fun d' => AL.get d' (.state (c.h st.metadata.query)) = none) _ _ rfl
        (fun s hs' fs hI => absent_execC _ fs s (storePreC_safe c d st s hs') hI)
        (fun p b _ cut fs hI => absent_execC _ fs _ rfl hI) n cut d hlen hs
    | some x =>
      have hpre : storePreC c d st = .unlink (.state (c.h st.metadata.query)) :: (storePreC c d st).tail := by
        simp [storePreC, removeStepsC, hs]
      cases n with
      | zero =>
        left
        rw [storeStepsC_split, hpre, List.cons_append, crashAt_zero_cons _ _ _ _ _ rfl]
      | succ n =>
        right; left
        apply readC_absent
        rw [storeStepsC_split, hpre, List.cons_append, crashAt_succ_cons]
        refine crashAt_before_last execC (fun d' => AL.get d' (.state (c.h st.metadata.query)) = none) _ _ rfl
          (fun s hs' fs hI => absent_execC _ fs s (storePreC_safe c d st s (List.mem_of_mem_tail hs')) hI)
          (fun p b _ cut fs hI => absent_execC _ fs _ rfl hI) n cut _ ?_ ?_
        · rw [hpre] at hlen; simpa using hlen
        · simp [execC, AL.get_erase]

end Crash
end Liquer
