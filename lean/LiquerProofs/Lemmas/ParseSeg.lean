/-
C02 helper lemmas, part 8 (S3): transform segments with a header, `query_segment`.
-/
import LiquerProofs.Lemmas.ParsePath

namespace Liquer
open PS

variable {dec : List UInt8 → List Char}

/-! ### first characters -/

/-- the first character of an action path: of an identifier or of a file name -/
def pathHead (c : Char) : Prop := inRanges Inst.idR1 c = true ∨ inRanges Inst.fnR1 c = true ∨ c = '.'

theorem pathHead_ne_dash {c : Char} (h : pathHead c) : c ≠ '-' := by
  rintro rfl
  rcases h with h | h | h
  · rw [idR1_no_dash] at h; cases h
  · rw [fnR1_excl (Or.inl rfl)] at h; cases h
  · revert h; decide

theorem idR1_no_slash : inRanges Inst.idR1 '/' = false := by
  have := Inst.identifier_stops
  rw [Inst.identifier_shape] at this
  simp only [Inst.delims, Inst.excl, List.all_cons, List.all_nil, Bool.and_true, Bool.and_eq_true,
    Bool.not_eq_true'] at this
  exact this.2.1.1

theorem pathHead_ne_slash {c : Char} (h : pathHead c) : c ≠ '/' := by
  rintro rfl
  rcases h with h | h | h
  · rw [idR1_no_slash] at h; cases h
  · rw [fnR1_excl (Or.inr (Or.inr (Or.inl rfl)))] at h; cases h
  · revert h; decide

theorem filename_head {f : Str} (hf : fullMatch Gen.filenameRe f = true) :
    ∃ c t, f = c :: t ∧ pathHead c := by
  obtain ⟨a, b, rfl, ha⟩ := filename_split hf
  cases a with
  | nil => exact ⟨'.', b, rfl, Or.inr (Or.inr rfl)⟩
  | cons c a => exact ⟨c, a ++ '.' :: b, rfl, Or.inr (Or.inl (ha c List.mem_cons_self))⟩

theorem bodyText_head {as : List Action} {f : Option Str} (hwfa : wfActions as = true)
    (hne : as ≠ [] ∨ f.isSome = true) (hwff : ∀ x, f = some x → fullMatch Gen.filenameRe x = true) :
    ∃ c t, bodyText T as f = c :: t ∧ pathHead c := by
  have hact : ∀ (a : Action) (as' : List Action) (x : Str), wfActions (a :: as') = true →
      ∃ c t, slashActs (a :: as') ++ x = c :: t ∧ pathHead c := by
    intro a as' x h
    simp only [wfActions, Bool.and_eq_true] at h
    obtain ⟨c, t, he, hc⟩ := action_enc_head h.1
    exact ⟨c, t ++ '/' :: slashActs as' ++ x, by simp [slashActs, he], Or.inl hc⟩
  cases f with
  | some fn =>
    rw [bodyText_file as hwfa fn]
    cases as with
    | nil => simpa [slashActs] using filename_head (hwff fn rfl)
    | cons a as' => exact hact a as' fn hwfa
  | none =>
    have hne' : as ≠ [] := by simpa using hne
    obtain ⟨as0, c, rfl⟩ : ∃ as0 c, as = as0 ++ [c] :=
      ⟨as.dropLast, as.getLast hne', (List.dropLast_concat_getLast hne').symm⟩
    rw [bodyText_last]
    rw [wfActions_append] at hwfa
    simp only [wfActions, Bool.and_true, Bool.and_eq_true] at hwfa
    cases as0 with
    | nil =>
      obtain ⟨x, t, he, hx⟩ := action_enc_head hwfa.2
      exact ⟨x, t, by simp [slashActs, he], Or.inl hx⟩
    | cons a as' => exact hact a as' _ hwfa.1

theorem stopAt_dash_of_ne {c : Char} (t : Str) (h : c ≠ '-') : stopAt [(45, 45)] (c :: t) = true := by
  have h2 : c.toNat ≠ 45 := fun e => h ((char_eq_iff _ _).mpr e)
  simp only [stopAt, inRanges, List.any_cons, List.any_nil, Bool.or_false, Bool.not_eq_true',
    Bool.and_eq_false_imp, decide_eq_true_eq, decide_eq_false_iff_not]
  omega

/-! ### the text of a headed transform segment -/

/-- the part of a transform segment behind its header -/
def bodyTail (as : List Action) (f : Option Str) : Str :=
  if as.isEmpty && f.isNone then [] else '/' :: bodyText T as f

theorem bodyText_isEmpty {as : List Action} {f : Option Str} (hwfa : wfActions as = true)
    (hwff : ∀ x, f = some x → fullMatch Gen.filenameRe x = true) :
    (bodyText T as f).isEmpty = (as.isEmpty && f.isNone) := by
  by_cases hne : as ≠ [] ∨ f.isSome = true
  · obtain ⟨c, t, he, _⟩ := bodyText_head hwfa hne hwff
    rw [he]
    rcases hne with h | h
    · cases as with
      | nil => exact absurd rfl h
      | cons a as' => simp
    · cases f with
      | none => simp at h
      | some fn => simp
  · have h1 : as = [] := by
      cases as with
      | nil => rfl
      | cons a as' => exact absurd (Or.inl (by simp)) hne
    have h2 : f = none := by
      cases f with
      | none => rfl
      | some fn => exact absurd (Or.inr rfl) hne
    subst h1 h2
    simp [bodyText, encodeActions, joinStr]

theorem encode_headed_eq (name : Str) (lvl : Nat) (ps : List Param) (as : List Action) (f : Option Str)
    (hwfa : wfActions as = true) (hwff : ∀ x, f = some x → fullMatch Gen.filenameRe x = true) :
    (Seg.transform (some (.mk name lvl ps false)) as f).encode T =
      List.replicate lvl '-' ++ (name ++ (encodeDashParams T ps ++ bodyTail as f)) := by
  rw [Seg.encode_headed, bodyText_isEmpty hwfa hwff]
  simp only [Header.encode, bodyTail]
  split <;> simp


/-! ### `segment_with_header` -/

/-- the header of a transform segment: identifier and parameters -/
theorem header_part (hd : DecOK dec) {d : Nat} (ih : LinkIH dec d) (name : Str) (lvl : Nat)
    (ps : List Param) (hl : 1 ≤ lvl) (hname : transformHeaderNameOK name = true)
    (hbare : name = [] → ps = []) (hdep : depthParams ps ≤ d) (hps : wfParams ps = true)
    (X : Str) (hX : dpStop X = true) (hXb : name = [] → ∃ r, X = '/' :: r) (p n : Nat)
    (hws : NoWs (List.replicate lvl '-' ++ (name ++ (encodeDashParams T ps ++ X))))
    (hn : 8 * (encodeDashParams T ps).length + 2 ≤ n) :
    ∃ s1 ps' p2, parseSegIdent ⟨List.replicate lvl '-' ++ (name ++ (encodeDashParams T ps ++ X)), p⟩ =
        some ((lvl, name), s1) ∧
      parseDashParams dec false n s1 = (ps', ⟨X, p2⟩) ∧ eraseParams ps' = eraseParams ps := by
  by_cases hnm : name = []
  · have hp := hbare hnm
    obtain ⟨r, hr⟩ := hXb hnm
    subst hnm hp hr
    simp only [encodeDashParams, List.nil_append] at hws hn ⊢
    obtain ⟨ps', p2, h2, h3⟩ := dashParams_spec hd ih false [] (by simp [depthParams]) rfl (by simp)
      ('/' :: r) hX (p + (List.replicate lvl '-').length) n (by simpa [encodeDashParams] using hws.right)
      (by simpa [encodeDashParams] using hn)
    exact ⟨_, ps', p2, parseSegIdent_bare hl hws, by simpa [encodeDashParams] using h2, h3⟩
  · have hid := parseSegIdent_named (p := p) hl (segIdTail_of_nameOK hname hnm)
      (pieceStop_dashParams ps hX) hws
    obtain ⟨ps', p2, h2, h3⟩ := dashParams_spec hd ih false ps hdep hps (by simp) X hX
      (p + (List.replicate lvl '-' ++ name).length) n hws.right.right hn
    exact ⟨_, ps', p2, hid, h2, h3⟩

theorem kind_headed (name : Str) (lvl : Nat) (ps : List Param) (res : Bool) (as : List Action)
    (f : Option Str) :
    (Seg.transform (some (.mk name lvl ps res)) as f).kind =
      .tHeaded name.isEmpty (as.isEmpty && f.isNone) f.isSome := by
  simp [Seg.kind, Header.name]

/-- S3: a transform segment with a header -/
theorem segWithHeader_spec (hd : DecOK dec) {d : Nat} (ih : LinkIH dec d) (name : Str) (lvl : Nat)
    (ps : List Param) (res : Bool) (as : List Action) (f : Option Str)
    (hdep : (Seg.transform (some (.mk name lvl ps res)) as f).depth ≤ d)
    (hwf : wfSeg (.transform (some (.mk name lvl ps res)) as f) = true)
    (rest : Str)
    (hf : Follow (!(as.isEmpty && f.isNone) && f.isSome) (!(name.isEmpty && (as.isEmpty && f.isNone))) rest)
    (p n : Nat)
    (hws : NoWs ((Seg.transform (some (.mk name lvl ps res)) as f).encode T ++ rest))
    (hn : 8 * ((Seg.transform (some (.mk name lvl ps res)) as f).encode T).length + 6 ≤ n) :
    ∃ s' p', parseSegWithHeader dec n
        ⟨(Seg.transform (some (.mk name lvl ps res)) as f).encode T ++ rest, p⟩ = some (s', ⟨rest, p'⟩) ∧
      s'.erase = (Seg.transform (some (.mk name lvl ps res)) as f).erase := by
  simp only [wfSeg, Bool.and_eq_true, Bool.not_eq_true', decide_eq_true_eq, Bool.or_eq_true] at hwf
  obtain ⟨⟨⟨⟨⟨⟨hres, hl⟩, hname⟩, hbare⟩, hps⟩, has⟩, hfn⟩ := hwf
  subst hres
  have hwff : ∀ x, f = some x → fullMatch Gen.filenameRe x = true := by
    rintro x rfl; exact hfn
  have hbare' : name = [] → ps = [] := by
    intro h
    rcases hbare with h' | h'
    · subst h; simp at h'
    · simpa using h'
  simp only [Seg.depth, Header.depth, Nat.max_le] at hdep
  rw [encode_headed_eq name lvl ps as f has hwff] at hws hn ⊢
  simp only [List.append_assoc] at hws ⊢
  simp only [List.length_append, List.length_replicate] at hn
  cases n with
  | zero => omega
  | succ n =>
    have hX : dpStop (bodyTail as f ++ rest) = true := by
      unfold bodyTail
      split
      · simpa using hf.dpStop
      · simp [dpStop]
    have hXb : name = [] → ∃ r, bodyTail as f ++ rest = '/' :: r := by
      intro hnm
      unfold bodyTail
      split
      next hbe =>
        rcases hf with ⟨h1, _⟩ | ⟨r', rfl, _⟩
        · simp [hnm, hbe] at h1
        · exact ⟨r', by simp⟩
      · exact ⟨bodyText T as f ++ rest, by simp⟩
    obtain ⟨s1, ps', p2, hid, hdp, hpe⟩ := header_part hd ih name lvl ps hl hname hbare' hdep.1 hps
      (bodyTail as f ++ rest) hX hXb p n hws (by omega)
    have hw2 : NoWs (bodyTail as f ++ rest) := hws.right.right.right
    by_cases hbe : (as.isEmpty && f.isNone) = true
    · -- empty body
      have has' : as = [] := by simp at hbe; exact hbe.1
      have hf' : f = none := by simp at hbe; exact hbe.2
      subst has' hf'
      simp only [bodyTail, List.isEmpty_nil, Option.isNone_none, Bool.and_self, ↓reduceIte,
        List.nil_append] at hdp hw2 hid
      refine ⟨.transform (some (.mk name lvl ps' false)) [] none, p2, ?_,
        by simp [Seg.erase, Header.erase, hpe, eraseActions]⟩
      simp only [bodyTail, List.isEmpty_nil, Option.isNone_none, Bool.and_self, ↓reduceIte,
        List.nil_append]
      rcases hf with ⟨_, hq⟩ | ⟨r', rfl, hr⟩
      · simp only [parseSegWithHeader, hid, hdp, lit_slash_qStop hw2 hq]
      · rcases hr with hr | hr
        · simp at hr
        · obtain ⟨⟨t, rfl⟩, _⟩ := hr
          simp only [parseSegWithHeader, hid, hdp, lit_cons hw2, actionPath_fail_dash hw2.tail]
    · -- a body follows
      have hbe' : (as.isEmpty && f.isNone) = false := by
        cases h : (as.isEmpty && f.isNone) with
        | false => rfl
        | true => exact absurd h hbe
      have hne : as ≠ [] ∨ f.isSome = true := by
        cases as with
        | nil =>
          cases f with
          | none => simp at hbe'
          | some x => exact Or.inr rfl
        | cons a as' => exact Or.inl (by simp)
      simp only [bodyTail, hbe', Bool.false_eq_true, ↓reduceIte, List.cons_append] at hdp hw2 hid hn ⊢
      simp only [hbe', Bool.not_false, Bool.true_and] at hf
      simp only [List.length_cons] at hn
      obtain ⟨as', p3, hap, hae⟩ := actionPath_spec hd ih as f hdep.2 has hne hwff rest _ hf (p2 + 1) n
        hw2.tail (by omega)
      refine ⟨.transform (some (.mk name lvl ps' false)) as' f, p3, ?_,
        by simp [Seg.erase, Header.erase, hpe, hae]⟩
      simp only [parseSegWithHeader, hid, hdp, lit_cons hw2, hap]


/-! ### `query_segment` -/

theorem segWithHeader_none_of_noDash {r : Str} {p : Nat} (hws : NoWs r) (hx : stopAt [(45, 45)] r = true)
    (n : Nat) : parseSegWithHeader dec n ⟨r, p⟩ = none := by
  cases n with
  | zero => simp [parseSegWithHeader]
  | succ n => simp only [parseSegWithHeader, parseSegIdent_none hws hx]

theorem segWithHeader_none_of_resource {lvl : Nat} {r : Str} {p : Nat} (hl : 1 ≤ lvl)
    (hws : NoWs (List.replicate lvl '-' ++ 'R' :: r)) (n : Nat) :
    parseSegWithHeader dec n ⟨List.replicate lvl '-' ++ 'R' :: r, p⟩ = none := by
  cases n with
  | zero => simp [parseSegWithHeader]
  | succ n => simp only [parseSegWithHeader, parseSegIdent_resource hl hws]

theorem adjacencyOK_tHeaded (b e x : Bool) : adjacencyOK [.tHeaded b e x] = !(b && e) := by
  cases b <;> cases e <;> rfl

/-- S3: a query segment, given what follows it -/
theorem seg_spec (hd : DecOK dec) {d : Nat} (ih : LinkIH dec d) (s : Seg) (hdep : s.depth ≤ d)
    (hwf : wfSeg s = true) (hk : s.kind ≠ .rPlain) (rest : Str)
    (hf : Follow (plainMayFollow s.kind) (adjacencyOK [s.kind]) rest) (p n : Nat)
    (hws : NoWs (s.encode T ++ rest)) (hn : 8 * (s.encode T).length + 7 ≤ n) :
    ∃ s' p', parseSegment dec n ⟨s.encode T ++ rest, p⟩ = some (s', ⟨rest, p'⟩) ∧ s'.erase = s.erase := by
  cases n with
  | zero => omega
  | succ n =>
    match s, hdep, hwf, hk, hf, hws, hn with
    | .transform (some (.mk name lvl ps res)) as f, hdep, hwf, _, hf, hws, hn =>
      rw [kind_headed, adjacencyOK_tHeaded] at hf
      simp only [plainMayFollow] at hf
      obtain ⟨s', p', h1, h2⟩ := segWithHeader_spec hd ih name lvl ps res as f hdep hwf rest hf p n hws
        (by omega)
      exact ⟨s', p', by simp only [parseSegment, h1], h2⟩
    | .transform none as f, hdep, hwf, _, hf, hws, hn =>
      simp only [wfSeg, Bool.and_eq_true, Bool.or_eq_true, Bool.not_eq_true'] at hwf
      obtain ⟨⟨has, hne⟩, hfn⟩ := hwf
      have hwff : ∀ x, f = some x → fullMatch Gen.filenameRe x = true := by
        rintro x rfl; exact hfn
      have hne' : as ≠ [] ∨ f.isSome = true := by
        rcases hne with h | h
        · left; intro e; subst e; simp at h
        · exact Or.inr h
      simp only [Seg.depth, Nat.max_le] at hdep
      rw [Seg.encode_plain] at hws hn ⊢
      simp only [Seg.kind, plainMayFollow] at hf
      obtain ⟨c, t, he, hc⟩ := bodyText_head has hne' hwff
      have hnd : stopAt [(45, 45)] (bodyText T as f ++ rest) = true := by
        rw [he]; exact stopAt_dash_of_ne _ (pathHead_ne_dash hc)
      obtain ⟨as', p', h1, h2⟩ := actionPath_spec hd ih as f hdep.2 has hne' hwff rest _ hf p n hws
        (by omega)
      refine ⟨.transform none as' f, p', ?_, by simp [Seg.erase, h2]⟩
      simp only [parseSegment, segWithHeader_none_of_noDash hws hnd, h1]
    | .resource (some (.mk name lvl ps res)) ns, hdep, hwf, _, hf, hws, hn =>
      have hwf' := hwf
      simp only [wfSeg, Bool.and_eq_true, decide_eq_true_eq] at hwf'
      obtain ⟨⟨⟨⟨⟨hres, hl⟩, _⟩, _⟩, _⟩, hns⟩ := hwf'
      subst hres
      simp only [Seg.kind, plainMayFollow] at hf
      obtain ⟨s', p', h1, h2⟩ := resSeg_spec hd ih name lvl ps true ns hdep hwf rest _ hf p n hws (by omega)
      refine ⟨s', p', ?_, h2⟩
      rw [encode_resHeaded_eq name lvl ps ns hl hns] at hws h1 ⊢
      simp only [List.append_assoc, List.cons_append] at hws h1 ⊢
      have h3 := segWithHeader_none_of_resource (dec := dec) (p := p) hl hws n
      have h4 : parseActionPath dec n ⟨List.replicate lvl '-' ++
          'R' :: (name ++ (encodeDashParams T ps ++ (resTail ns ++ rest))), p⟩ = none := by
        cases lvl with
        | zero => omega
        | succ k =>
          simp only [List.replicate_succ, List.cons_append] at hws ⊢
          exact actionPath_fail_dash hws n p
      simp only [parseSegment, h3, h4, h1]
    | .resource none ns, _, _, hk, _, _, _ => exact absurd rfl hk

/-- the text of a segment with a header begins with a header -/
theorem headerStart_seg (s : Seg) (hwf : wfSeg s = true) (hh : s.header.isSome = true) (rest : Str)
    (hr : adjacencyOK [s.kind] = false → ∃ r', rest = '/' :: r') (hstop : dpStop rest = true)
    (hws : NoWs (s.encode T ++ rest)) : HeaderStart (s.encode T ++ rest) := by
  match s, hwf, hh, hr, hws with
  | .transform (some (.mk name lvl ps res)) as f, hwf, _, hr, hws =>
    simp only [wfSeg, Bool.and_eq_true, Bool.not_eq_true', decide_eq_true_eq, Bool.or_eq_true] at hwf
    obtain ⟨⟨⟨⟨⟨⟨hres, hl⟩, hname⟩, hbare⟩, hps⟩, has⟩, hfn⟩ := hwf
    subst hres
    have hwff : ∀ x, f = some x → fullMatch Gen.filenameRe x = true := by
      rintro x rfl; exact hfn
    rw [encode_headed_eq name lvl ps as f has hwff] at hws ⊢
    simp only [List.append_assoc] at hws ⊢
    have hX : dpStop (bodyTail as f ++ rest) = true := by
      unfold bodyTail
      split
      · simpa using hstop
      · simp [dpStop]
    refine ⟨?_, fun p => ?_⟩
    · cases lvl with
      | zero => omega
      | succ k => exact ⟨_, by simp only [List.replicate_succ, List.cons_append]; rfl⟩
    · by_cases hnm : name = []
      · have hp : ps = [] := by
          rcases hbare with h' | h'
          · subst hnm; simp at h'
          · simpa using h'
        subst hnm hp
        have : ∃ r, bodyTail as f ++ rest = '/' :: r := by
          unfold bodyTail
          split
          next hbe =>
            rw [kind_headed, adjacencyOK_tHeaded] at hr
            obtain ⟨r', rfl⟩ := hr (by simp [hbe])
            exact ⟨r', by simp⟩
          · exact ⟨bodyText T as f ++ rest, by simp⟩
        obtain ⟨r, hr'⟩ := this
        simp only [encodeDashParams, List.nil_append, hr'] at hws ⊢
        simp [notSegStart, parseSegIdent_bare hl hws]
      · have hid := parseSegIdent_named (p := p) hl (segIdTail_of_nameOK hname hnm)
          (pieceStop_dashParams ps hX) hws
        simp [notSegStart, hid]
  | .resource (some (.mk name lvl ps res)) ns, hwf, _, _, hws =>
    simp only [wfSeg, Bool.and_eq_true, decide_eq_true_eq] at hwf
    obtain ⟨⟨⟨⟨⟨hres, hl⟩, hname⟩, _⟩, _⟩, hns⟩ := hwf
    subst hres
    rw [encode_resHeaded_eq name lvl ps ns hl hns] at hws ⊢
    simp only [List.append_assoc, List.cons_append] at hws ⊢
    have hstop2 : dpStop (resTail ns ++ rest) = true := by
      cases ns with
      | nil => simpa [resTail] using hstop
      | cons x xs => simp [resTail, dpStop]
    refine ⟨?_, fun p => ?_⟩
    · cases lvl with
      | zero => omega
      | succ k => exact ⟨_, by simp only [List.replicate_succ, List.cons_append]; rfl⟩
    · have hid := parseResIdent_ok (p := p) hl (resIdTail_of_nameOK hname)
        (pieceStop_dashParams ps hstop2) (by simpa using hws)
      simp only [List.cons_append] at hid
      simp [notSegStart, hid]
  | .transform none _ _, _, hh, _, _ => simp [Seg.header] at hh
  | .resource none _, _, hh, _, _ => simp [Seg.header] at hh

end Liquer
