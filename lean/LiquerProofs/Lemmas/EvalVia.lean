/-
Evaluation through a cache back-end (LiquerModel/EvalVia.lean) is evaluation over the `World` of Eval.lean.

1. `noErrStore`: no oracle evaluation ever stores an error state (the admission test) — induction on the fuel in the style of
   Lemmas/ConcO2.lean;
2. `worldOf` commutes with the operations: a step of the specification `kvOpsC cfg` (with `metaFresh`) on the cache
   operation of a trace operation IS `applyOp` on the world (`applyVia_kv`), and a back-end that simulates the specification
   (`CSim`) follows (`applyVia_sim`, `replayVia_sim`);
3. the replay loop finds the run whose trace, replayed on the back-end, reproduces the answers it was produced from
   (`viaLoop_spec`: `extO`, `frameO`);
4. `eval_via_backend`.
-/
import LiquerModel.EvalVia
import LiquerProofs.Lemmas.ConcO4
import LiquerProofs.Lemmas.ConcO6
import LiquerProofs.Lemmas.CacheKV

namespace Liquer.Via
open Liquer

/-! ### 1. no error state is ever stored -/

/-- every `store` of the trace files a state that is not an error -/
def NE (w : OW) : Prop := ∀ st, COp.store st ∈ w.trace → st.isError = false

/-- from `w` to `w'` the property is kept -/
def Keeps (w w' : OW) : Prop := NE w → NE w'

theorem Keeps.refl (w : OW) : Keeps w w := fun h => h
theorem Keeps.trans {a b c : OW} (h1 : Keeps a b) (h2 : Keeps b c) : Keeps a c := fun h => h2 (h1 h)

theorem Keeps.emit (w : OW) (op : COp) (hop : ∀ st, op = .store st → st.isError = false) : Keeps w (w.emit op) := by
  unfold OW.emit
  split
  · exact Keeps.refl w
  · intro h st hm
    simp only [List.mem_append, List.mem_singleton] at hm
    rcases hm with hm | hm
    · exact h st hm
    · exact hop st hm.symm

theorem Keeps.storeMeta (w : OW) (k x : Str) : Keeps w (w.storeMeta k x) := Keeps.emit w _ (fun _ h => by cases h)
theorem Keeps.remove (w : OW) (k : Str) : Keeps w (w.remove k) := Keeps.emit w _ (fun _ h => by cases h)
theorem Keeps.store (w : OW) (st : EState) (h : st.isError = false) : Keeps w (w.store st) :=
  Keeps.emit w _ (fun _ e => by cases e; exact h)

theorem Keeps.log (w : OW) (c : Str) : Keeps w (w.log c) := by
  unfold OW.log; split
  · exact Keeps.refl w
  · exact fun h => h

theorem Keeps.metaIf (w : OW) (uc : Bool) (k x : Str) : Keeps w (w.metaIf uc k x) := by
  cases uc
  · exact Keeps.refl w
  · exact Keeps.storeMeta w k x

theorem Keeps.logCall (w : OW) (st sig args) : Keeps w (w.logCall st sig args) := by
  unfold OW.logCall; split
  · exact Keeps.refl w
  · exact Keeps.log w _

theorem Keeps.subWO (uc raw o) (w : OW) : Keeps w (subWO uc raw o w) := by
  unfold Liquer.subWO; split
  · exact Keeps.metaIf _ _ _ _
  · exact Keeps.metaIf _ _ _ _
  · exact Keeps.refl w

theorem Keeps.admitWO (uc key st3) (w : OW) : Keeps w (admitWO uc key st3 w) := by
  unfold Liquer.admitWO; split
  · exact Keeps.refl w
  · split
    · next h =>
      refine Keeps.store _ _ ?_
      simp only [Bool.and_eq_true, Bool.not_eq_eq_eq_not, Bool.not_true] at h
      exact h.1.2
    · split
      · exact Keeps.storeMeta _ _ _
      · exact Keeps.remove _ _

theorem Keeps.fileWO (uc key st2) (w : OW) (h : st2.isError = false) : Keeps w (fileWO uc key st2 w) := by
  unfold Liquer.fileWO; split
  · exact Keeps.refl w
  · split
    · exact Keeps.store _ _ h
    · exact Keeps.remove _ _

theorem Keeps.ask (w : OW) (k : Str) : Keeps w (w.ask k).1 := by
  intro h st hm
  rw [OW.ask_trace] at hm
  simp only [List.mem_append, List.mem_singleton] at hm
  rcases hm with hm | hm
  · exact h st hm
  · cases hm

theorem Keeps.askIf (w : OW) (c : Bool) (k : Str) : Keeps w (w.askIf c k).1 := by
  unfold OW.askIf; split
  · exact Keeps.ask w k
  · exact Keeps.refl w

structure NEAt (env : Env) (n : Nat) : Prop where
  text : ∀ w t ug, Keeps w (evalTextO env n w t ug).1
  q : ∀ w q raw extra input uc, Keeps w (evalQO env n w q raw extra input uc).1
  act : ∀ w st a raw parent extra uc, Keeps w (evalActionO env n w st a raw parent extra uc).1
  params : ∀ w ps raw parent, Keeps w (evalParamsO env n w ps raw parent).1

theorem call_ne {env : Env} {n : Nat} (ih : NEAt env n) (w1 : OW) (st act raw sig x uc) :
    Keeps w1 (evalCallO env n w1 st act raw sig x uc).1 := by
  unfold evalCallO
  split
  · exact Keeps.refl _
  · exact Keeps.metaIf _ _ _ _
  · split
    · exact Keeps.logCall _ _ _ _
    · exact (Keeps.logCall _ _ _ _).trans (Keeps.metaIf _ _ _ _)
    · exact (Keeps.logCall _ _ _ _).trans (Keeps.metaIf _ _ _ _)
    · exact (Keeps.logCall _ _ _ _).trans (Keeps.metaIf _ _ _ _)
    · exact (Keeps.logCall _ _ _ _).trans (Keeps.metaIf _ _ _ _)
    · exact ((Keeps.logCall _ _ _ _).trans (ih.text _ _ _)).trans (Keeps.subWO _ _ _ _)

theorem link_ne {env : Env} {n : Nat} (ih : NEAt env n) (w : OW) (lq : Query) (parent : Str) :
    Keeps w (evalLinkO env n w lq parent).1 := by
  unfold evalLinkO
  split
  · exact ih.q _ _ _ _ _ _
  · split
    · split
      · exact Keeps.refl _
      · exact ih.text _ _ _
    · exact Keeps.refl _

theorem params_ne_step {env : Env} {n : Nat} (ih : NEAt env n) (w : OW) (ps : List Param) (raw parent : Str) :
    Keeps w (evalParamsO env (n+1) w ps raw parent).1 := by
  cases ps with
  | nil => rw [evalParamsO_nil]; exact Keeps.refl _
  | cons p ps =>
    cases p with
    | str t pos =>
      rw [evalParamsO_str]
      have := ih.params w ps raw parent
      generalize evalParamsO env n w ps raw parent = x at this ⊢
      rcases x with ⟨w1, r⟩
      cases r with
      | inl rest => exact this
      | inr o => exact this
    | link lq pos =>
      rw [evalParamsO_link]
      have h1 := link_ne ih w lq parent
      generalize evalLinkO env n w lq parent = x at h1 ⊢
      rcases x with ⟨w1, o⟩
      cases o with
      | st v =>
        simp only
        split
        · exact h1
        · have h2 := ih.params w1 ps raw parent
          generalize evalParamsO env n w1 ps raw parent = x at h2 ⊢
          rcases x with ⟨w2, r⟩
          cases r with
          | inl rest => exact h1.trans h2
          | inr o => exact h1.trans h2
      | raised a b => exact h1
      | parseError => exact h1
      | unmodelled => exact h1

theorem act_ne_step {env : Env} {n : Nat} (ih : NEAt env n) (w : OW) (st : EState) (a : Action)
    (raw parent : Str) (extra : Extra) (uc : Bool) :
    Keeps w (evalActionO env (n+1) w st a raw parent extra uc).1 := by
  rw [evalActionO_succ]
  have h0 := Keeps.metaIf w uc raw (s "evaluation")
  split
  · exact h0
  · split
    · exact h0
    · split
      · exact h0.trans (Keeps.metaIf _ _ _ _)
      · have h1 := h0.trans (ih.params (w.metaIf uc raw (s "evaluation")) a.params raw parent)
        generalize evalParamsO env n (w.metaIf uc raw (s "evaluation")) a.params raw parent = x at h1 ⊢
        rcases x with ⟨w1, r⟩
        cases r with
        | inr o => exact h1
        | inl given => exact h1.trans (call_ne ih _ _ _ _ _ _ _)

theorem text_ne_step {env : Env} {n : Nat} (ih : NEAt env n) (w : OW) (t : Str) (ug : Bool) :
    Keeps w (evalTextO env (n+1) w t ug).1 := by
  rw [evalTextO_succ]
  split
  · exact Keeps.refl _
  · exact ih.q _ _ _ _ _ _

theorem post_ne {env : Env} {n : Nat} (ih : NEAt env n) (w1 : OW) (st parent r key raw extra uc)
    (hst : st.isError = false) : Keeps w1 (evalPostO env n w1 st parent r key raw extra uc).1 := by
  unfold evalPostO
  split
  · exact Keeps.refl _
  · exact (Keeps.metaIf _ _ _ _).trans (Keeps.fileWO _ _ _ _ hst)
  · next hd a =>
    have h1 := ih.act w1 st a raw parent extra uc
    generalize evalActionO env n w1 st a raw parent extra uc = x at h1 ⊢
    rcases x with ⟨w2, o2⟩
    cases o2 with
    | st st2 => exact h1.trans (Keeps.admitWO _ _ _ _)
    | _ => exact h1
  · exact Keeps.refl _

theorem after_ne {env : Env} {n : Nat} (ih : NEAt env n) (w1 : OW) (o parent r key raw extra uc) :
    Keeps w1 (evalAfterO env n w1 o parent r key raw extra uc).1 := by
  unfold evalAfterO
  split
  · exact Keeps.refl _
  · exact Keeps.refl _
  · exact Keeps.refl _
  · split
    · exact Keeps.metaIf _ _ _ _
    · next h => exact post_ne ih _ _ _ _ _ _ _ _ (by simpa using h)

theorem pre_ne {env : Env} {n : Nat} (ih : NEAt env n) (w : OW) (q raw input uc) :
    Keeps w (evalPreO env n w q raw input uc).1 := by
  unfold evalPreO
  split
  · exact Keeps.refl _
  · exact (Keeps.metaIf _ _ _ _).trans (ih.q _ _ _ _ _ _)

theorem miss_ne {env : Env} {n : Nat} (ih : NEAt env n) (w : OW) (q : Query) (raw : Str) (extra : Extra)
    (input : Option Val) (uc : Bool) : Keeps w (evalMissO env n w q raw extra input uc).1 := by
  unfold evalMissO
  split
  · exact Keeps.refl _
  · exact (pre_ne ih w q raw input uc).trans (after_ne ih _ _ _ _ _ _ _ _)

theorem q_ne_step {env : Env} {n : Nat} (ih : NEAt env n) (w : OW) (q : Query) (raw : Str) (extra : Extra)
    (input : Option Val) (uc : Bool) :
    Keeps w (evalQO env (n+1) w q raw extra input uc).1 := by
  rw [evalQO_succ']
  have hp := Keeps.askIf w (extra.isEmpty && input.isNone && uc) (q.encode Gen.escapeTable)
  generalize w.askIf (extra.isEmpty && input.isNone && uc) (q.encode Gen.escapeTable) = a at hp ⊢
  split
  · exact hp
  · split
    · exact hp
    · exact hp.trans (miss_ne ih a.1 q raw extra input uc)

theorem neAt_zero (env : Env) : NEAt env 0 where
  text := fun w t ug => by rw [evalTextO_zero]; exact Keeps.refl _
  q := fun w q raw extra input uc => by rw [evalQO_zero]; exact Keeps.refl _
  act := fun w st a raw parent extra uc => by rw [evalActionO_zero]; exact Keeps.refl _
  params := fun w ps raw parent => by rw [evalParamsO_zero]; exact Keeps.refl _

theorem neAt (env : Env) : ∀ n, NEAt env n
  | 0 => neAt_zero env
  | n + 1 =>
    have ih := neAt env n
    { text := text_ne_step ih, q := q_ne_step ih, act := act_ne_step ih, params := params_ne_step ih }

/-- **no evaluation ever hands an error state to `store`**, whatever answers it receives -/
theorem noErrStore (env : Env) (n : Nat) (A : List (Option EState)) (q : Query) (raw : Str) (extra : Extra)
    (input : Option Val) (uc : Bool) (st : EState)
    (h : COp.store st ∈ (evalQO env n { answers := A } q raw extra input uc).1.trace) : st.isError = false :=
  (neAt env n).q { answers := A } q raw extra input uc (fun _ hm => by simp at hm) st h

/-! ### 2. the world of a specification state -/

/-- the laws of a codec: `enc` is faithful on the fields the cache code looks at, every state carries a data token and the one
type identifier, and `dec` reads the state back **from the data slot** (the `World` of Eval.lean keeps the state of an entry
across metadata-only writes: the evaluator state of an entry is a function of its data) -/
structure CodecOK (c : StateCodec) : Prop where
  query : ∀ st, (c.enc st).metadata.query = st.query
  isError : ∀ st, (c.enc st).metadata.isError = st.isError
  typeId : ∀ st, (c.enc st).metadata.typeId = c.typeId
  hasData : ∀ st, (c.enc st).data.isSome = true
  dec_enc : ∀ st, c.dec (c.enc st) = some st
  dec_data : ∀ m m' d, c.dec { metadata := m, data := d } = c.dec { metadata := m', data := d }

/-- every binding with data was stored with the type identifier of the codec -/
def TypeInv (c : StateCodec) (kv : KV) : Prop := ∀ k m d, kv.get k = some (m, some d) → m.typeId = c.typeId

theorem TypeInv.empty (c : StateCodec) : TypeInv c [] := fun k m d h => by simp [KV.get] at h

section world
variable (cfg : KVCfg) (c : StateCodec)

theorem worldOf_entry (kv : KV) (k : Str) :
    (worldOf cfg c kv).entry k = (kv.get k).map (fun e => entryOf c e.1 e.2) := by
  simp only [World.entry, worldOf, KV.get, List.find?_map, Option.map_map]
  rfl

/-- `get`: the decoded answer of the specification is the answer of the world -/
theorem worldOf_get (kv : KV) (k : Str) :
    answerOf c ((kvOpsC cfg).get kv k).2 = (worldOf cfg c kv).get k := by
  simp only [World.get, worldOf_entry, kvOpsC, kvOps, answerOf]
  cases h : kv.get k with
  | none => rfl
  | some e =>
    obtain ⟨m, d⟩ := e
    cases d with
    | none => rfl
    | some x =>
      simp only [Option.map_some, entryOf]
      have hr : (m.status == ready) = (m.status == statusReady) := rfl
      cases hd : c.dec { metadata := m, data := some x } with
      | none => cases hs : (m.status == ready) <;> simp [hd]
      | some st =>
        cases hs : (m.status == ready)
        · simp [← hr, hs]
        · simp [hd, ← hr, hs]

theorem worldOf_erase (kv : KV) (k : Str) : worldOf cfg c (kv.erase k) = (worldOf cfg c kv).remove k := by
  simp only [worldOf, World.remove, KV.erase, List.filter_map]
  rfl

theorem worldOf_set (kv : KV) (k : Str) (m : CMeta) (d : Option Str) :
    worldOf cfg c (kv.set k m d) = (worldOf cfg c kv).put k (entryOf c m d) := by
  simp only [worldOf, World.put, KV.set, KV.erase, List.map_cons, List.filter_map]
  rfl

variable {c}

/-- `store` of a state that is not an error -/
theorem worldOf_store (hc : CodecOK c) (kv : KV) (st : EState) (he : st.isError = false) :
    worldOf cfg c ((kvOpsC cfg).store kv (c.enc st)).1 = (worldOf cfg c kv).store st := by
  have h1 : (c.enc st).metadata.isError = false := by rw [hc.isError, he]
  simp only [kvOpsC, kvOps, h1, Bool.false_eq_true, if_false, worldOf_set, World.store, hc.query]
  congr 1
  obtain ⟨x, hx⟩ := Option.isSome_iff_exists.1 (hc.hasData st)
  have e : ({ metadata := (c.enc st).metadata, data := some x } : CState) = c.enc st := by
    rw [← hx]
  simp only [entryOf, hx]
  rw [hc.dec_data _ (c.enc st).metadata, e, hc.dec_enc]
  rfl

/-- a progress write (`metaFresh`: recorded also for an absent key) -/
theorem worldOf_storeMeta (hc : CodecOK c) (hf : cfg.metaFresh = true) (kv : KV) (k status : Str) :
    worldOf cfg c ((kvOpsC cfg).storeMeta kv (c.metaOf k status)).1 = (worldOf cfg c kv).storeMeta k status := by
  have hq : (c.metaOf k status).query = k := rfl
  simp only [kvOpsC, hq, World.storeMeta, worldOf_entry]
  cases h : kv.get k with
  | none => simp only [hf, if_true, worldOf_set, Option.map_none]; rfl
  | some e =>
    obtain ⟨m0, d⟩ := e
    simp only [worldOf_set, Option.map_some]
    congr 1
    have hk : (worldOf cfg c kv).metaKeepsData = cfg.keepData := rfl
    rw [hk]
    cases cfg.keepData
    · rfl
    · cases d with
      | none => rfl
      | some x =>
        simp only [entryOf, if_true]
        rw [hc.dec_data _ m0]
        rfl

end world

/-- the specification step on the cache operation of a trace operation is `applyOp` on the world -/
theorem applyVia_kv (cfg : KVCfg) {c : StateCodec} (hc : CodecOK c) (hf : cfg.metaFresh = true) (kv : KV)
    (acc : List (Option EState)) (op : COp) (hop : ∀ st, op = .store st → st.isError = false) :
    applyOp (worldOf cfg c kv, acc) op =
      (worldOf cfg c ((kvOpsC cfg).step kv (op.toCache c)).1, (applyVia (kvOpsC cfg) c (kv, acc) op).2) := by
  cases op with
  | get k =>
    simp only [applyOp_get, applyVia, COp.toCache, CacheOps.step, worldOf_get]
    rfl
  | storeMeta k status =>
    simp only [applyOp_storeMeta, applyVia, COp.toCache, CacheOps.step, worldOf_storeMeta cfg hc hf]
  | store st =>
    simp only [applyOp_store, applyVia, COp.toCache, CacheOps.step, worldOf_store cfg hc kv st (hop st rfl)]
  | remove k =>
    simp only [applyOp_remove, applyVia, COp.toCache, CacheOps.step]
    exact congrArg (·, acc) (worldOf_erase cfg c kv k).symm

/-- the type identifier invariant is kept by the cache operation of every trace operation -/
theorem TypeInv.step (cfg : KVCfg) {c : StateCodec} (hc : CodecOK c) {kv : KV} (h : TypeInv c kv) (op : COp) :
    TypeInv c ((kvOpsC cfg).step kv (op.toCache c)).1 := by
  cases op with
  | get k => exact h
  | remove k =>
    intro k' m d hg
    simp only [COp.toCache, CacheOps.step, kvOpsC, kvOps, KV.get_erase] at hg
    split at hg
    · cases hg
    · exact h k' m d hg
  | store st =>
    intro k' m d hg
    simp only [COp.toCache, CacheOps.step, kvOpsC, kvOps] at hg
    split at hg
    · exact h k' m d hg
    · simp only [KV.get_set] at hg
      split at hg
      · simp only [Option.some.injEq, Prod.mk.injEq] at hg
        rw [← hg.1]; exact hc.typeId st
      · exact h k' m d hg
  | storeMeta k status =>
    intro k' m d hg
    simp only [COp.toCache, CacheOps.step, kvOpsC] at hg
    split at hg
    · split at hg
      · simp only [KV.get_set] at hg
        split at hg
        · simp only [Option.some.injEq, Prod.mk.injEq] at hg
          rw [← hg.1]; rfl
        · exact h k' m d hg
      · exact h k' m d hg
    · simp only [KV.get_set] at hg
      split at hg
      · simp only [Option.some.injEq, Prod.mk.injEq] at hg
        rw [← hg.1]; rfl
      · exact h k' m d hg

/-! ### 3. a back-end that simulates the specification, and the replay loop -/

section sim
variable {σ : Type} {C : CacheOps σ} {cfg : KVCfg} {R : σ → KV → Prop} {ok : KV → CacheOp → Prop} {c : StateCodec}

theorem applyVia_fst (C : CacheOps σ) (c : StateCodec) (acc : σ × List (Option EState)) (op : COp) :
    (applyVia C c acc op).1 = (C.step acc.1 (op.toCache c)).1 := by cases op <;> rfl

/-- one trace operation: the back-end stays related to the specification and records the same answer -/
theorem applyVia_sim (sim : CSim C (kvOpsC cfg) R ok) (s : σ) (kv : KV) (acc : List (Option EState)) (op : COp)
    (hR : R s kv) (hok : ok kv (op.toCache c)) :
    R (applyVia C c (s, acc) op).1 ((kvOpsC cfg).step kv (op.toCache c)).1 ∧
    (applyVia C c (s, acc) op).2 = (applyVia (kvOpsC cfg) c (kv, acc) op).2 := by
  obtain ⟨h1, h2⟩ := sim s kv _ hR hok
  refine ⟨by rw [applyVia_fst]; exact h1, ?_⟩
  cases op with
  | get k =>
    have e : (C.get s k).2 = ((kvOpsC cfg).get kv k).2 := by
      simpa [COp.toCache, CacheOps.step, outEq] using h2
    simp only [applyVia, e]
  | storeMeta k status => rfl
  | store st => rfl
  | remove k => rfl

theorem replayVia_cons (C : CacheOps σ) (c : StateCodec) (acc : σ × List (Option EState)) (op : COp) (tr : List COp) :
    replayVia C c acc (op :: tr) = replayVia C c (applyVia C c acc op) tr := rfl

theorem replayVia_append (C : CacheOps σ) (c : StateCodec) (acc : σ × List (Option EState)) (d1 d2 : List COp) :
    replayVia C c acc (d1 ++ d2) = replayVia C c (replayVia C c acc d1) d2 := by
  simp only [replayVia, List.foldl_append]

/-- a whole trace without error stores: the back-end ends related to the specification state the same replay on the
specification gives, with the same answers; and the world of that state is the world the trace replayed on the initial world
gives -/
theorem replayVia_sim (sim : CSim C (kvOpsC cfg) R ok) (hc : CodecOK c) (hf : cfg.metaFresh = true)
    (hok : ∀ kv op, TypeInv c kv → ok kv (COp.toCache c op)) :
    ∀ (tr : List COp) (s : σ) (kv : KV) (acc : List (Option EState)), R s kv → TypeInv c kv →
      (∀ st, COp.store st ∈ tr → st.isError = false) →
      R (replayVia C c (s, acc) tr).1 (replayVia (kvOpsC cfg) c (kv, acc) tr).1 ∧
      TypeInv c (replayVia (kvOpsC cfg) c (kv, acc) tr).1 ∧
      (replayVia C c (s, acc) tr).2 = (replayVia (kvOpsC cfg) c (kv, acc) tr).2 ∧
      replay (worldOf cfg c kv) acc tr =
        (worldOf cfg c (replayVia (kvOpsC cfg) c (kv, acc) tr).1, (replayVia (kvOpsC cfg) c (kv, acc) tr).2) := by
  intro tr
  induction tr with
  | nil => intro s kv acc hR hT _; exact ⟨hR, hT, rfl, rfl⟩
  | cons op tr ih =>
    intro s kv acc hR hT hne
    obtain ⟨h1, h2⟩ := applyVia_sim (c := c) sim s kv acc op hR (hok kv op hT)
    have h3 := applyVia_kv cfg hc hf kv acc op (fun st e => hne st (by rw [e]; exact List.mem_cons_self ..))
    have ekv : applyVia (kvOpsC cfg) c (kv, acc) op =
        (((kvOpsC cfg).step kv (op.toCache c)).1, (applyVia C c (s, acc) op).2) :=
      Prod.ext (applyVia_fst _ _ _ _) h2.symm
    obtain ⟨r1, r2, r3, r4⟩ := ih (applyVia C c (s, acc) op).1 _ (applyVia C c (s, acc) op).2 h1
      (TypeInv.step cfg hc hT op) (fun st hm => hne st (List.mem_cons_of_mem _ hm))
    rw [replayVia_cons, replayVia_cons, ekv, replay_cons, h3, ← h2]
    exact ⟨r1, r2, r3, r4⟩

/-- only a `get` extends the answers, by one -/
theorem applyVia_answers (C : CacheOps σ) (c : StateCodec) (acc : σ × List (Option EState)) (op : COp) :
    ∃ X, (applyVia C c acc op).2 = acc.2 ++ X ∧ X.length = (gets [op]).length := by
  cases op with
  | get k => exact ⟨[_], rfl, rfl⟩
  | storeMeta k status => exact ⟨[], by simp [applyVia], rfl⟩
  | store st => exact ⟨[], by simp [applyVia], rfl⟩
  | remove k => exact ⟨[], by simp [applyVia], rfl⟩

theorem replayVia_answers (C : CacheOps σ) (c : StateCodec) : ∀ (tr : List COp) (acc : σ × List (Option EState)),
    ∃ X, (replayVia C c acc tr).2 = acc.2 ++ X ∧ X.length = (gets tr).length := by
  intro tr
  induction tr with
  | nil => intro acc; exact ⟨[], by simp [replayVia], rfl⟩
  | cons op tr ih =>
    intro acc
    obtain ⟨X1, e1, l1⟩ := applyVia_answers C c acc op
    obtain ⟨X2, e2, l2⟩ := ih (applyVia C c acc op)
    refine ⟨X1 ++ X2, ?_, ?_⟩
    · rw [replayVia_cons, e2, e1, List.append_assoc]
    · have : gets (op :: tr) = gets [op] ++ gets tr := by rw [← gets_append]; rfl
      rw [this, List.length_append, List.length_append, l1, l2]

end sim

/-- the run against a prefix `ans` of the answers `A`, where `ans` answers exactly the `get`s among the first `done` operations
of the full trace: its next operation is that of the full run, and at the end it IS the full run -/
theorem run_prefix (env : Env) (n : Nat) (q : Query) (raw : Str) (A ans B : List (Option EState)) (hA : A = ans ++ B)
    (done : Nat)
    (hlen : ans.length = (gets ((evalQO env n { answers := A } q raw .none none true).1.trace.take done)).length) :
    (evalQO env n { answers := ans } q raw .none none true).1.trace[done]? =
      (evalQO env n { answers := A } q raw .none none true).1.trace[done]? ∧
    (done = (evalQO env n { answers := A } q raw .none none true).1.trace.length →
      (evalQO env n { answers := ans } q raw .none none true).2 = (evalQO env n { answers := A } q raw .none none true).2 ∧
      (evalQO env n { answers := ans } q raw .none none true).1.calls =
        (evalQO env n { answers := A } q raw .none none true).1.calls) := by
  subst hA
  have h := (extO env B n).q { answers := ans } q raw .none none true rfl
  have e : ({ answers := ans } : OW).ext B = { answers := ans ++ B } := rfl
  rw [e] at h
  cases hs : (evalQO env n { answers := ans } q raw .none none true).1.starved
  · rw [h.1 hs]
    exact ⟨rfl, fun _ => ⟨rfl, rfl⟩⟩
  · obtain ⟨E, hE⟩ := h.2 hs
    have hw := ((frameO env n).q { answers := ans } q raw .none none true).2.1 ans (WFO.init ans)
    have hgt := hw.1 hs
    rw [← hE] at hlen ⊢
    have hlt : done < (evalQO env n { answers := ans } q raw .none none true).1.trace.length := by
      apply Classical.byContradiction
      intro hcon
      have hle : (evalQO env n { answers := ans } q raw .none none true).1.trace.length ≤ done := by omega
      have hp : (evalQO env n { answers := ans } q raw .none none true).1.trace <+:
          ((evalQO env n { answers := ans } q raw .none none true).1.trace ++ E).take done := by
        rw [List.take_append, List.take_of_length_le hle]
        exact List.prefix_append _ _
      have := (gets_prefix hp).length_le
      omega
    refine ⟨(List.getElem?_append_left hlt).symm, fun hd => ?_⟩
    rw [List.length_append] at hd
    omega

/-- **the replay loop** finds the run whose trace, replayed on the back-end from `s0`, reproduces the answers `A` the run was
produced from: after `T.length` operations it returns the back-end state of the replay and the outcome and calls of that run -/
theorem viaLoop_spec {σ : Type} (C : CacheOps σ) (c : StateCodec) (env : Env) (n : Nat) (q : Query) (raw : Str)
    (A : List (Option EState)) (s0 : σ)
    (hrep : (replayVia C c (s0, []) (evalQO env n { answers := A } q raw .none none true).1.trace).2 = A) :
    ∀ (fuel done : Nat) (s : σ) (ans : List (Option EState)),
      done ≤ (evalQO env n { answers := A } q raw .none none true).1.trace.length →
      (evalQO env n { answers := A } q raw .none none true).1.trace.length - done < fuel →
      replayVia C c (s0, []) ((evalQO env n { answers := A } q raw .none none true).1.trace.take done) = (s, ans) →
      viaLoop C c env n q raw fuel s ans done =
        some ((replayVia C c (s0, []) (evalQO env n { answers := A } q raw .none none true).1.trace).1,
          (evalQO env n { answers := A } q raw .none none true).2,
          (evalQO env n { answers := A } q raw .none none true).1.calls) := by
  generalize hT : (evalQO env n { answers := A } q raw .none none true).1.trace = T at hrep ⊢
  intro fuel
  induction fuel with
  | zero => intro done s ans _ h; omega
  | succ fuel ih =>
    intro done s ans hd hfuel hpre
    -- the answers so far are a prefix of `A` and answer the `get`s performed
    obtain ⟨X, eX, lX⟩ := replayVia_answers C c (T.take done) (s0, [])
    rw [hpre] at eX
    simp only [List.nil_append] at eX
    obtain ⟨B, eB, _⟩ := replayVia_answers C c (T.drop done) (s, ans)
    have hsplit : replayVia C c (s0, []) T = replayVia C c (s, ans) (T.drop done) := by
      conv => lhs; rw [← List.take_append_drop done T]
      rw [replayVia_append, hpre]
    have hA : A = ans ++ B := by rw [← hrep, hsplit, eB]
    have hlen : ans.length = (gets (T.take done)).length := by rw [eX, lX]
    have hk := run_prefix env n q raw A ans B hA done (by rw [hT]; exact hlen)
    rw [hT] at hk
    unfold viaLoop
    simp only [hk.1]
    cases hop : T[done]? with
    | none =>
      have hdl : done = T.length := by
        have := List.getElem?_eq_none_iff.1 hop
        omega
      obtain ⟨h1, h2⟩ := hk.2 hdl
      simp only [h1, h2]
      have : T.take done = T := by rw [hdl]; exact List.take_length
      rw [this] at hpre
      rw [hpre]
    | some op =>
      have hlt : done < T.length := by
        apply Classical.byContradiction
        intro hcon
        rw [List.getElem?_eq_none (by omega)] at hop
        cases hop
      simp only
      refine ih (done + 1) _ _ hlt (by omega) ?_
      have : T.take (done + 1) = T.take done ++ [op] := by
        rw [List.take_add_one, hop]; rfl
      rw [this, replayVia_append, hpre]
      rfl

/-! ### 4. the bridge -/

/-- **Evaluation through a back-end that refines the key-value specification is evaluation over the world of that
specification.**  `C` simulates `kvOpsC cfg` through `R` on operations satisfying `ok`; `ok` admits the cache operations of an
evaluation on specification states whose data-bearing bindings carry the codec's type identifier (`hok`: for the provided
back-ends this is `hasData` — every stored state carries a value — and `typeStable`).  Then there are a number of cache
operations `N` and a specification state `kv'` — both determined by the specification state `kv` alone — such that `kv'`
stands for exactly the final world of `evalQ` on `worldOf cfg c kv`, and for every back-end state `s` related to `kv` and
every `steps ≥ N`, `evalVia` returns the outcome and the calls of that `evalQ` and ends in a state related to `kv'`. -/
theorem eval_via_backend {σ : Type} {C : CacheOps σ} {cfg : KVCfg} {R : σ → KV → Prop} {ok : KV → CacheOp → Prop}
    {c : StateCodec} (sim : CSim C (kvOpsC cfg) R ok) (hf : cfg.metaFresh = true) (hc : CodecOK c)
    (hok : ∀ kv op, TypeInv c kv → ok kv (COp.toCache c op))
    (env : Env) (n : Nat) (kv : KV) (hT : TypeInv c kv) (q : Query) (raw : Str) :
    ∃ (N : Nat) (kv' : KV),
      TypeInv c kv' ∧
      worldOf cfg c kv' = { (evalQ env n (worldOf cfg c kv) q raw .none none true).1 with calls := [] } ∧
      ∀ (s : σ), R s kv → ∀ steps, N ≤ steps →
        (evalVia C c env n steps s q raw).2.1 = (evalQ env n (worldOf cfg c kv) q raw .none none true).2 ∧
        (evalVia C c env n steps s q raw).2.2 = (evalQ env n (worldOf cfg c kv) q raw .none none true).1.calls ∧
        R (evalVia C c env n steps s q raw).1 kv' := by
  obtain ⟨A, ho, _, _, hcalls, hrep⟩ := evalQO_agrees env n (worldOf cfg c kv) q raw .none none true
  have hne : ∀ st, COp.store st ∈ (evalQO env n { answers := A } q raw .none none true).1.trace → st.isError = false :=
    fun st hm => noErrStore env n A q raw .none none true st hm
  refine ⟨(evalQO env n { answers := A } q raw .none none true).1.trace.length + 1,
    (replayVia (kvOpsC cfg) c (kv, []) (evalQO env n { answers := A } q raw .none none true).1.trace).1, ?_, ?_, ?_⟩
  · -- the specification simulates itself
    exact (replayVia_sim (C := kvOpsC cfg) (R := fun a b => a = b) (ok := fun _ _ => True)
      (fun s t op h _ => by subst h; exact ⟨rfl, outEq_refl _⟩) hc hf (fun _ _ _ => trivial) _ kv kv [] rfl hT hne).2.1
  · have r4 := (replayVia_sim (C := kvOpsC cfg) (R := fun a b => a = b) (ok := fun _ _ => True)
      (fun s t op h _ => by subst h; exact ⟨rfl, outEq_refl _⟩) hc hf (fun _ _ _ => trivial) _ kv kv [] rfl hT hne).2.2.2
    rw [hrep] at r4
    exact (congrArg Prod.fst r4).symm
  · intro s hR steps hN
    obtain ⟨r1, _, r3, r4⟩ := replayVia_sim sim hc hf hok _ s kv [] hR hT hne
    rw [hrep] at r4
    have e2 : A = (replayVia C c (s, []) (evalQO env n { answers := A } q raw .none none true).1.trace).2 := by
      rw [r3]; exact congrArg Prod.snd r4
    have hl := viaLoop_spec C c env n q raw A s e2.symm steps 0 s [] (Nat.zero_le _) (by omega) rfl
    simp only [evalVia, hl, Option.getD_some]
    refine ⟨ho, ?_, r1⟩
    rw [hcalls]
    rfl

/-! the admissibility side conditions of the provided back-ends hold for the cache operations of an evaluation -/

/-- every state handed to `store` carries a value -/
theorem toCache_hasData {c : StateCodec} (hc : CodecOK c) (op : COp) : (COp.toCache c op).hasData = true := by
  cases op with
  | store st => exact hc.hasData st
  | _ => rfl

/-- a progress write names the type the data of the entry was stored with -/
theorem toCache_typeStable {c : StateCodec} {kv : KV} (hT : TypeInv c kv) (op : COp) :
    (COp.toCache c op).typeStable kv = true := by
  cases op with
  | storeMeta k status =>
    simp only [COp.toCache, CacheOp.typeStable]
    split
    · next m0 d h =>
      have : m0.typeId = c.typeId := hT _ _ _ h
      simp [StateCodec.metaOf, this]
    · rfl
  | _ => rfl

/-- `Sound` does not look at the call log -/
theorem sound_setCalls {env : Env} {w : World} (h : Sound env w) (cs : List Str) : Sound env { w with calls := cs } :=
  fun k st hd => h k st hd

theorem sound_worldOf_empty (env : Env) (cfg : KVCfg) (c : StateCodec) : Sound env (worldOf cfg c []) := by
  intro k st h; simp [World.dataAt, World.entry, worldOf] at h

/-! ### 5. the concrete codec `codecT` satisfies the laws -/

namespace SerL
open Liquer.Ser

/-- `get` reads back what `put` wrote for `a`, whatever follows -/
def LawAt {α : Type} (put : α → Str) (get : Str → Option (α × Str)) (a : α) : Prop :=
  ∀ r, get (put a ++ r) = some (a, r)

theorem nat_law (n : Nat) : LawAt putNat getNat n := by
  intro r
  induction n with
  | zero => simp [putNat, getNat]
  | succ n ih =>
    have e : putNat (n + 1) ++ r = 'a' :: (putNat n ++ r) := by simp [putNat, List.replicate_succ]
    rw [e, getNat]
    simp [ih]

theorem bool_law (b : Bool) : LawAt putBool getBool b := by
  intro r; cases b <;> simp [putBool, getBool]

theorem int_law (i : Int) : LawAt putInt getInt i := by
  intro r
  simp only [putInt, getInt, List.append_assoc, bool_law _ _, Option.bind_some, nat_law _ _, Option.map_some]
  congr 2
  by_cases h : i < 0
  · simp only [h, decide_true, if_true]; omega
  · simp only [h, decide_false, Bool.false_eq_true, if_false]; omega

theorem str_law (x : Str) : LawAt putStr getStr x := by
  intro r
  simp [putStr, getStr, List.append_assoc, nat_law _ _]

theorem opt_law {α : Type} {put : α → Str} {get : Str → Option (α × Str)} (o : Option α)
    (h : ∀ a, o = some a → LawAt put get a) : LawAt (putOpt put) (getOpt get) o := by
  intro r
  cases o with
  | none => simp [putOpt, getOpt]
  | some a => simp [putOpt, getOpt, h a rfl r]

theorem pair_law {α β : Type} {pa : α → Str} {pb : β → Str} {ga : Str → Option (α × Str)} {gb : Str → Option (β × Str)}
    (x : α × β) (ha : LawAt pa ga x.1) (hb : LawAt pb gb x.2) : LawAt (putPair pa pb) (getPair ga gb) x := by
  intro r
  simp [putPair, getPair, List.append_assoc, ha _, hb _]

theorem list_law {α : Type} {put : α → Str} {get : Str → Option (α × Str)} (l : List α) :
    ∀ f, l.length < f → (∀ a ∈ l, LawAt put get a) → LawAt (putList put) (getList get f) l := by
  induction l with
  | nil =>
    intro f hf _ r
    cases f with
    | zero => omega
    | succ f => simp [putList, getList]
  | cons a as ih =>
    intro f hf h r
    cases f with
    | zero => omega
    | succ f =>
      have h1 := h a (List.mem_cons_self ..) (putList put as ++ r)
      have h2 := ih f (by simpa using hf) (fun b hb => h b (List.mem_cons_of_mem _ hb)) r
      simp [putList, getList, List.append_assoc, h1, h2]

theorem putList_length {α : Type} (put : α → Str) (l : List α) : l.length < (putList put l).length := by
  induction l with
  | nil => simp [putList]
  | cons a as ih => simp only [putList, List.length_cons, List.length_append]; omega

theorem putList_mem_length {α : Type} (put : α → Str) (l : List α) (a : α) (h : a ∈ l) :
    (put a).length < (putList put l).length := by
  induction l with
  | nil => cases h
  | cons b bs ih =>
    simp only [putList, List.length_cons, List.length_append]
    rcases List.mem_cons.1 h with rfl | h'
    · omega
    · have := ih h'; omega

mutual
  theorem val_law : (v : Val) → ∀ f r, (putVal v).length ≤ f → getVal f (putVal v ++ r) = some (v, r)
    | .none, f, r, hf => by
      cases f with
      | zero => simp [putVal] at hf
      | succ f => simp [putVal, getVal]
    | .int i, f, r, hf => by
      cases f with
      | zero => simp [putVal] at hf
      | succ f => simp [putVal, getVal, int_law i r]
    | .bool b, f, r, hf => by
      cases f with
      | zero => simp [putVal] at hf
      | succ f => simp [putVal, getVal, bool_law b r]
    | .str x, f, r, hf => by
      cases f with
      | zero => simp [putVal] at hf
      | succ f => simp [putVal, getVal, str_law x r]
    | .flt x, f, r, hf => by
      cases f with
      | zero => simp [putVal] at hf
      | succ f => simp [putVal, getVal, str_law x r]
    | .list l, f, r, hf => by
      cases f with
      | zero => simp [putVal] at hf
      | succ f =>
        have := vals_law l f r (by simpa [putVal] using hf)
        simp [putVal, getVal, this]
  theorem vals_law : (l : List Val) → ∀ f r, (putVals l).length ≤ f → getVals f (putVals l ++ r) = some (l, r)
    | [], f, r, hf => by
      cases f with
      | zero => simp [putVals] at hf
      | succ f => simp [putVals, getVals]
    | v :: vs, f, r, hf => by
      cases f with
      | zero => simp [putVals] at hf
      | succ f =>
        have hl : (putVal v).length + (putVals vs).length ≤ f := by
          simpa [putVals, List.length_append] using hf
        have h1 := val_law v f (putVals vs ++ r) (by omega)
        have h2 := vals_law vs f r (by omega)
        simp [putVals, getVals, List.append_assoc, h1, h2]
end

theorem val_lawAt (v : Val) (f : Nat) (hf : (putVal v).length ≤ f) : LawAt putVal (getVal f) v :=
  fun r => val_law v f r hf

theorem ofTup_toTup (st : EState) : ofTup (toTup st) = st := rfl

theorem tup_law (t : Tup) (r : Str) : getTup (putTup t ++ r) = some (t, r) := by
  obtain ⟨d, e, vars, vol, cach, fn, ext, cmds, attrs, q, stt, ep, eq⟩ := t
  unfold getTup
  generalize hF : (putTup (d, e, vars, vol, cach, fn, ext, cmds, attrs, q, stt, ep, eq) ++ r).length = F
  simp only [putTup, putPair, List.length_append] at hF
  have b1 := putList_length (putPair putStr putVal) vars
  have b2 := putList_length (putList putStr) cmds
  have b3 := putList_length (putPair putStr putStr) attrs
  refine (?_ : LawAt putTup _ (d, e, vars, vol, cach, fn, ext, cmds, attrs, q, stt, ep, eq)) r
  unfold putTup
  refine pair_law _ (val_lawAt d F (by omega)) ?_
  refine pair_law _ (bool_law e) ?_
  refine pair_law _ ?_ ?_
  rotate_left
  refine pair_law _ (bool_law vol) ?_
  refine pair_law _ (bool_law cach) ?_
  refine pair_law _ (opt_law fn fun a _ => str_law a) ?_
  refine pair_law _ (opt_law ext fun a _ => str_law a) ?_
  refine pair_law _ ?_ ?_
  rotate_left
  refine pair_law _ ?_ ?_
  rotate_left
  refine pair_law _ (str_law q) ?_
  refine pair_law _ (str_law stt) ?_
  exact pair_law _ (opt_law ep fun a _ => nat_law a) (opt_law eq fun a _ => str_law a)
  · refine list_law vars F (by omega) (fun kv hkv => pair_law _ (str_law kv.1) (val_lawAt kv.2 F ?_))
    have := putList_mem_length (putPair putStr putVal) vars kv hkv
    simp only [putPair, List.length_append] at this
    omega
  · refine list_law cmds F (by omega) (fun cmd hc => list_law cmd F ?_ (fun a _ => str_law a))
    have := putList_mem_length (putList putStr) cmds cmd hc
    have := putList_length putStr cmd
    omega
  · exact list_law attrs F (by omega) (fun kv _ => pair_law _ (str_law kv.1) (str_law kv.2))

end SerL

/-- the concrete codec satisfies the codec laws -/
theorem codecT_ok : CodecOK codecT where
  query := fun _ => rfl
  isError := fun _ => rfl
  typeId := fun _ => rfl
  hasData := fun _ => rfl
  dec_enc := fun st => by
    have := SerL.tup_law (Ser.toTup st) []
    simp only [List.append_nil] at this
    simp [codecT, this, SerL.ofTup_toTup]
  dec_data := fun _ _ _ => rfl

end Liquer.Via
