/-
C09, extension of a cached prefix by any number of steps.

Two ingredients on top of the refinement theorem R-eval (`refines`):
  * fuel adequacy: in a `Sound` world the evaluator never needs more fuel than the reference interpretation
    (a cache hit only shortens the recursion), so a modelled reference run at fuel `n` forces a modelled
    evaluation at every fuel `≥ n`; with determinism of the reference side this turns the existential fuel of
    R-eval into the *given* one (`TightAt`);
  * the chain induction: along `Chain p q k` the evaluator descends to the cached `p` (progress metadata is
    filed under the texts of the intermediate queries, which differ from the text of `p`), and on the way up
    executes, per step, a subsequence of the reference calls of that step.
-/
import LiquerProofs.Lemmas.EvalReuse
import LiquerProofs.Lemmas.EvalCor
import LiquerProofs.Lemmas.EvalExample

namespace Liquer

/-! ### determinism of the remaining reference stages -/

theorem refAction_det (env : Env) {m m' : Nat} (st a raw parent extra)
    (h : (refAction env m st a raw parent extra).1 ≠ .unmodelled)
    (h' : (refAction env m' st a raw parent extra).1 ≠ .unmodelled) :
    refAction env m st a raw parent extra = refAction env m' st a raw parent extra := by
  rw [← refAction_mono_le env (Nat.le_max_left m m') _ _ _ _ _ h,
    ← refAction_mono_le env (Nat.le_max_right m m') _ _ _ _ _ h']

theorem refParams_det (env : Env) {m m' : Nat} (ps raw parent)
    (h : (refParams env m ps raw parent).1 ≠ .inr .unmodelled)
    (h' : (refParams env m' ps raw parent).1 ≠ .inr .unmodelled) :
    refParams env m ps raw parent = refParams env m' ps raw parent := by
  rw [← refParams_mono_le env (Nat.le_max_left m m') _ _ _ h,
    ← refParams_mono_le env (Nat.le_max_right m m') _ _ _ h']

theorem refLink_det (env : Env) {m m' : Nat} (lq parent)
    (h : (refLink env m lq parent).1 ≠ .unmodelled) (h' : (refLink env m' lq parent).1 ≠ .unmodelled) :
    refLink env m lq parent = refLink env m' lq parent := by
  rw [← refLink_mono_le env (Nat.le_max_left m m') _ _ h, ← refLink_mono_le env (Nat.le_max_right m m') _ _ h']

theorem refPre_det (env : Env) {m m' : Nat} (q input)
    (h : (refPre env m q input).1 ≠ .unmodelled) (h' : (refPre env m' q input).1 ≠ .unmodelled) :
    refPre env m q input = refPre env m' q input := by
  rw [← refPre_mono_le env (Nat.le_max_left m m') _ _ h, ← refPre_mono_le env (Nat.le_max_right m m') _ _ h']

theorem refCall_det (env : Env) {m m' : Nat} (st act raw sig x)
    (h : (refCall env m st act raw sig x).1 ≠ .unmodelled) (h' : (refCall env m' st act raw sig x).1 ≠ .unmodelled) :
    refCall env m st act raw sig x = refCall env m' st act raw sig x := by
  rw [← refCall_mono_le env (Nat.le_max_left m m') _ _ _ _ _ h,
    ← refCall_mono_le env (Nat.le_max_right m m') _ _ _ _ _ h']

/-! ### refinement at a given reference fuel -/

/-- `(w', o)`, computed from `w`, refines the reference result `r` (no existential fuel) -/
def Tight (env : Env) (w w' : World) (o : Outcome) (r : Outcome × List Str) : Prop :=
  Sound env w' ∧ ∃ c', w'.calls = w.calls ++ c' ∧ c'.Sublist r.2 ∧ Outcome.sim o r.1

def TightP (env : Env) (w w' : World) (x : List PVal ⊕ Outcome) (r : (List PVal ⊕ Outcome) × List Str) : Prop :=
  Sound env w' ∧ ∃ c', w'.calls = w.calls ++ c' ∧ c'.Sublist r.2 ∧ r.1 = x

theorem Refines.tight {env : Env} {w w' : World} {o : Outcome} {f : Nat → Outcome × List Str}
    (h : Refines env w w' o f)
    (hdet : ∀ m m', (f m).1 ≠ .unmodelled → (f m').1 ≠ .unmodelled → f m = f m')
    (ho : o ≠ .unmodelled) {n : Nat} (hn : (f n).1 ≠ .unmodelled) : Tight env w w' o (f n) := by
  obtain ⟨m, c', h1, h2, h3⟩ := h.2 ho
  have := hdet m n (Outcome.sim_ne_unmodelled h3 ho) hn
  rw [this] at h2 h3
  exact ⟨h.1, c', h1, h2, h3⟩

theorem RefinesP.tight {env : Env} {w w' : World} {x : List PVal ⊕ Outcome}
    {f : Nat → (List PVal ⊕ Outcome) × List Str} (h : RefinesP env w w' x f)
    (hdet : ∀ m m', (f m).1 ≠ .inr .unmodelled → (f m').1 ≠ .inr .unmodelled → f m = f m')
    (ho : x ≠ .inr .unmodelled) {n : Nat} (hn : (f n).1 ≠ .inr .unmodelled) : TightP env w w' x (f n) := by
  obtain ⟨m, c', h1, h2, h3⟩ := h.2 ho
  have := hdet m n (by rw [h3]; exact ho) hn
  rw [this] at h2 h3
  exact ⟨h.1, c', h1, h2, h3⟩

theorem Tight.ne {env : Env} {w w' : World} {o : Outcome} {r : Outcome × List Str} (h : Tight env w w' o r)
    (hr : r.1 ≠ .unmodelled) : o ≠ .unmodelled := by
  obtain ⟨_, _, _, _, hs⟩ := h
  exact Outcome.sim_ne_unmodelled (Outcome.sim_symm hs) hr

/-- fuel adequacy at reference fuel `n`: a modelled reference run forces a modelled evaluation at every fuel `≥ n` -/
structure AdqAt (env : Env) (C : Query → Prop) (T : Str → Prop) (n : Nat) : Prop where
  text : ∀ n' w t ug, n ≤ n' → Sound env w → T t → (refText env n t).1 ≠ .unmodelled →
    (evalText env n' w t ug).2 ≠ .unmodelled
  q : ∀ n' w q raw extra input uc, n ≤ n' → Sound env w → C q → (uc = true → input = none) →
    (refQ env n q raw extra input).1 ≠ .unmodelled → (evalQ env n' w q raw extra input uc).2 ≠ .unmodelled
  act : ∀ n' w st a raw parent extra uc, n ≤ n' → Sound env w → LinksIn env C T parent a.params → SubIn env T a →
    (refAction env n st a raw parent extra).1 ≠ .unmodelled →
    (evalAction env n' w st a raw parent extra uc).2 ≠ .unmodelled
  params : ∀ n' w ps raw parent, n ≤ n' → Sound env w → LinksIn env C T parent ps →
    (refParams env n ps raw parent).1 ≠ .inr .unmodelled → (evalParams env n' w ps raw parent).2 ≠ .inr .unmodelled

/-- R-eval with the reference fuel given -/
structure TightAt (env : Env) (C : Query → Prop) (T : Str → Prop) (n : Nat) : Prop where
  text : ∀ n' w t ug, n ≤ n' → Sound env w → T t → (refText env n t).1 ≠ .unmodelled →
    Tight env w (evalText env n' w t ug).1 (evalText env n' w t ug).2 (refText env n t)
  q : ∀ n' w q raw extra input uc, n ≤ n' → Sound env w → C q → (uc = true → input = none) →
    (refQ env n q raw extra input).1 ≠ .unmodelled →
    Tight env w (evalQ env n' w q raw extra input uc).1 (evalQ env n' w q raw extra input uc).2
      (refQ env n q raw extra input)
  act : ∀ n' w st a raw parent extra uc, n ≤ n' → Sound env w → LinksIn env C T parent a.params → SubIn env T a →
    (refAction env n st a raw parent extra).1 ≠ .unmodelled →
    Tight env w (evalAction env n' w st a raw parent extra uc).1 (evalAction env n' w st a raw parent extra uc).2
      (refAction env n st a raw parent extra)
  params : ∀ n' w ps raw parent, n ≤ n' → Sound env w → LinksIn env C T parent ps →
    (refParams env n ps raw parent).1 ≠ .inr .unmodelled →
    TightP env w (evalParams env n' w ps raw parent).1 (evalParams env n' w ps raw parent).2
      (refParams env n ps raw parent)

theorem tight_of_adq {env : Env} {C : Query → Prop} {T : Str → Prop} (hC : Closed env C T)
    (hcanon : ∀ q, C q → CanonOK env q) {n : Nat} (h : AdqAt env C T n) : TightAt env C T n where
  text := fun n' w t ug hle hS hT href =>
    ((refines hC hcanon n').text w t ug hS hT).tight (fun _ _ => refText_det env t)
      (h.text n' w t ug hle hS hT href) href
  q := fun n' w q raw extra input uc hle hS hCq huc href =>
    ((refines hC hcanon n').q w q raw extra input uc hS hCq huc).tight (fun _ _ => refQ_det env q raw extra input)
      (h.q n' w q raw extra input uc hle hS hCq huc href) href
  act := fun n' w st a raw parent extra uc hle hS hL hSub href =>
    ((refines hC hcanon n').act w st a raw parent extra uc hS hL hSub).tight
      (fun _ _ => refAction_det env st a raw parent extra)
      (h.act n' w st a raw parent extra uc hle hS hL hSub href) href
  params := fun n' w ps raw parent hle hS hL href =>
    ((refines hC hcanon n').params w ps raw parent hS hL).tight (fun _ _ => refParams_det env ps raw parent)
      (h.params n' w ps raw parent hle hS hL href) href

/-! ### adequacy, stage by stage -/

theorem link_adq {env : Env} {C : Query → Prop} {T : Str → Prop} {n n' : Nat} (ih : AdqAt env C T n) (hle : n ≤ n')
    (w : World) (lq : Query) (parent : Str) (hS : Sound env w)
    (hCl : (lq.absolute || parent.isEmpty || parent == ['/']) = true → C lq)
    (hTl : (lq.absolute || parent.isEmpty || parent == ['/']) = false →
      ∀ h as f ab pq, lq = .mk [.transform h as f] ab → parse env.dec parent = some pq →
      T ((Query.mk (pq.segments ++ [.transform h as f]) pq.absolute).encode Gen.escapeTable))
    (href : (refLink env n lq parent).1 ≠ .unmodelled) : (evalLink env n' w lq parent).2 ≠ .unmodelled := by
  unfold refLink at href
  unfold evalLink
  split at href
  · next hc => rw [if_pos hc]; exact ih.q n' w lq _ .none none true hle hS (hCl hc) (fun _ => rfl) href
  · next hc =>
    rw [if_neg hc]
    split at href
    · next h as f ab =>
      split at href
      · exact absurd rfl href
      · next pq hp =>
        exact ih.text n' w _ true hle hS (hTl (by simpa using hc) _ _ _ _ _ rfl hp) href
    · exact absurd rfl href

theorem link_tight {env : Env} {C : Query → Prop} {T : Str → Prop} (hC : Closed env C T)
    (hcanon : ∀ q, C q → CanonOK env q) {n n' : Nat} (ih : AdqAt env C T n) (hle : n ≤ n')
    (w : World) (lq : Query) (parent : Str) (hS : Sound env w)
    (hCl : (lq.absolute || parent.isEmpty || parent == ['/']) = true → C lq)
    (hTl : (lq.absolute || parent.isEmpty || parent == ['/']) = false →
      ∀ h as f ab pq, lq = .mk [.transform h as f] ab → parse env.dec parent = some pq →
      T ((Query.mk (pq.segments ++ [.transform h as f]) pq.absolute).encode Gen.escapeTable))
    (href : (refLink env n lq parent).1 ≠ .unmodelled) :
    Tight env w (evalLink env n' w lq parent).1 (evalLink env n' w lq parent).2 (refLink env n lq parent) :=
  (link_refines (refines hC hcanon n') w lq parent hS hCl hTl).tight (fun _ _ => refLink_det env lq parent)
    (link_adq ih hle w lq parent hS hCl hTl href) href

theorem call_adq {env : Env} {C : Query → Prop} {T : Str → Prop} {n n' : Nat} (ht : TightAt env C T n) (hle : n ≤ n')
    (w1 : World) (st act raw sig x) (uc : Bool) (hS : Sound env w1)
    (hsub : ∀ args y qt, cmdSem sig.ns sig.name st.data st.vars args = .subeval y qt → T qt)
    (href : (refCall env n st act raw sig x).1 ≠ .unmodelled) :
    (evalCall env n' w1 st act raw sig x uc).2 ≠ .unmodelled := by
  unfold refCall at href
  unfold evalCall
  split
  · next hpa => simp [hpa] at href
  · simp
  · next args hpa =>
    simp only [hpa] at href
    split
    · next hc => simp [hc] at href
    · simp
    · simp
    · simp
    · simp
    · next y qtext hc =>
      simp only [hc] at href
      have hrt : (refText env n qtext).1 ≠ .unmodelled := subOutcome_ne_unmodelled href
      obtain ⟨_, _, _, _, hsim⟩ := ht.text n' (w1.logCall st sig args) qtext true hle (hS.logCall _ _ _) (hsub _ _ _ hc) hrt
      simp only
      rw [subOutcome_sim hsim]; exact href

/-- what follows the predecessor: modelled, and the calls are a subsequence of the reference calls of the step -/
theorem after_tight {env : Env} {C : Query → Prop} {T : Str → Prop} {n n' : Nat} (ht : TightAt env C T n) (hle : n ≤ n')
    (W1 : World) (oe o' : Outcome) (parent : Str) (r : Option Seg) (key raw : Str) (extra : Extra) (uc : Bool)
    (hS : Sound env W1) (hsim : Outcome.sim oe o')
    (hLS : ∀ h a, r = some (.transform h [a] none) → LinksIn env C T parent a.params ∧ SubIn env T a)
    (href : (refAfter env n o' parent r key raw extra).1 ≠ .unmodelled) :
    (evalAfter env n' W1 oe parent r key raw extra uc).2 ≠ .unmodelled ∧
    ∃ c', (evalAfter env n' W1 oe parent r key raw extra uc).1.calls = W1.calls ++ c' ∧
      c'.Sublist (refAfter env n o' parent r key raw extra).2 := by
  cases oe with
  | unmodelled => simp at hsim; subst hsim; exact absurd rfl href
  | raised a b => exact ⟨by simp [evalAfter], [], by simp [evalAfter], by simp⟩
  | parseError => exact ⟨by simp [evalAfter], [], by simp [evalAfter], by simp⟩
  | st se =>
    obtain ⟨s', rfl, hcore⟩ := Outcome.sim_st_left hsim
    have hse := EState.core_isError hcore
    cases hserr : se.isError with
    | true => exact ⟨by simp [evalAfter, hserr], [], by simp [evalAfter, hserr], by simp⟩
    | false =>
      have hserr' : s'.isError = false := by rw [← hse]; exact hserr
      simp only [refAfter, hserr', Bool.false_eq_true, if_false] at href ⊢
      simp only [evalAfter, hserr, Bool.false_eq_true, if_false]
      have triv : ∀ (w : World) (o : Outcome) (l : List Str), o ≠ .unmodelled → w.calls = W1.calls →
          (w, o).2 ≠ .unmodelled ∧ ∃ c', (w, o).1.calls = W1.calls ++ c' ∧ c'.Sublist l :=
        fun w o l ho hw => ⟨ho, [], by simp [hw], by simp⟩
      rcases r with _ | ⟨h, as, f⟩ | ⟨x, y⟩
      · simp only [evalPost]; exact triv _ _ _ (by simp) rfl
      · rcases as with _ | ⟨a, _ | ⟨b, rest⟩⟩
        · cases f with
          | none => simp [refPost] at href
          | some f =>
            simp only [evalPost]
            refine ⟨by simp, [], ?_, by simp⟩
            simp only [calls_fileW, World.calls_metaIf, List.append_nil]
        · cases f with
          | some f => simp [refPost] at href
          | none =>
            obtain ⟨hL, hSub⟩ := hLS h a rfl
            simp only [refPost] at href ⊢
            simp only [evalPost]
            have hra : (refAction env n s' a raw parent extra).1 ≠ .unmodelled := by
              intro hu; rw [hu] at href; exact href rfl
            have hta := ht.act n' W1 se a raw parent extra uc hle hS hL hSub (by rw [refAction_core env n hcore]; exact hra)
            rw [refAction_core env n hcore] at hta
            obtain ⟨_, c', h1, h2, h3⟩ := hta
            generalize evalAction env n' W1 se a raw parent extra uc = y at h1 h3 ⊢
            rcases y with ⟨w2, o2⟩
            generalize refAction env n s' a raw parent extra = z at h2 h3 hra ⊢
            rcases z with ⟨o2', c2⟩
            simp only at h1 h2 h3 hra ⊢
            have hne2 : o2 ≠ .unmodelled := Outcome.sim_ne_unmodelled (Outcome.sim_symm h3) hra
            cases o2 with
            | unmodelled => exact absurd rfl hne2
            | st st2 =>
              obtain ⟨st2', rfl, _⟩ := Outcome.sim_st_left h3
              exact ⟨by simp, c', by simp [h1], h2⟩
            | raised x y => simp at h3; subst h3; exact ⟨by simp, c', h1, h2⟩
            | parseError => simp at h3; subst h3; exact ⟨by simp, c', h1, h2⟩
        · simp [refPost] at href
      · simp [refPost] at href

theorem params_adq {env : Env} {C : Query → Prop} {T : Str → Prop} (hC : Closed env C T)
    (hcanon : ∀ q, C q → CanonOK env q) {n : Nat} (ih : AdqAt env C T n) :
    ∀ n' w ps raw parent, n + 1 ≤ n' → Sound env w → LinksIn env C T parent ps →
      (refParams env (n+1) ps raw parent).1 ≠ .inr .unmodelled →
      (evalParams env n' w ps raw parent).2 ≠ .inr .unmodelled := by
  intro n' w ps raw parent hle hS hL href
  obtain ⟨n'', rfl⟩ : ∃ k, n' = k + 1 := ⟨n' - 1, by omega⟩
  have hle' : n ≤ n'' := by omega
  cases ps with
  | nil => rw [evalParams_nil]; simp
  | cons p ps =>
    have hL' : LinksIn env C T parent ps := hL.tail
    cases p with
    | str t pos =>
      rw [evalParams_str]; rw [refParams_str] at href
      have hr : (refParams env n ps raw parent).1 ≠ .inr .unmodelled := by
        intro hu
        rcases hx : refParams env n ps raw parent with ⟨r, c⟩
        rw [hx] at hu href; simp only at hu; subst hu; exact href rfl
      have := ih.params n'' w ps raw parent hle' hS hL' hr
      rcases hp : evalParams env n'' w ps raw parent with ⟨w1, r⟩
      rw [hp] at this
      cases r with
      | inl rest => simp
      | inr o => simpa using this
    | link lq pos =>
      rw [evalParams_link]; rw [refParams_link] at href
      have hl : (refLink env n lq parent).1 ≠ .unmodelled := by
        intro hu
        rcases hx : refLink env n lq parent with ⟨o, c⟩
        rw [hx] at hu href; simp only at hu; subst hu; exact href rfl
      obtain ⟨hS1, c1', _, _, hsim⟩ := link_tight hC hcanon ih hle' w lq parent hS
        (hL lq pos (List.mem_cons_self ..)).1 (hL lq pos (List.mem_cons_self ..)).2 hl
      rcases hel : evalLink env n'' w lq parent with ⟨w1, o⟩
      rcases hrl : refLink env n lq parent with ⟨o', c1⟩
      rw [hel] at hS1 hsim; rw [hrl] at hsim href hl
      simp only at hS1 hsim href hl ⊢
      cases o with
      | unmodelled => exact absurd (by simpa using hsim) hl
      | raised a b => simp
      | parseError => simp
      | st v =>
        obtain ⟨v', rfl, hcore⟩ := Outcome.sim_st_left hsim
        have hve := EState.core_isError hcore
        simp only at href ⊢
        cases hv : v.isError
        · rw [hv] at hve
          simp only [← hve, Bool.false_eq_true, if_false] at href ⊢
          have hr : (refParams env n ps raw parent).1 ≠ .inr .unmodelled := by
            intro hu
            rcases hx : refParams env n ps raw parent with ⟨r, c⟩
            rw [hx] at hu href; simp only at hu; subst hu; exact href rfl
          have := ih.params n'' w1 ps raw parent hle' hS1 hL' hr
          rcases hp : evalParams env n'' w1 ps raw parent with ⟨w2, r⟩
          rw [hp] at this
          cases r with
          | inl rest => simp
          | inr o => simpa using this
        · simp

theorem text_adq {env : Env} {C : Query → Prop} {T : Str → Prop} (hC : Closed env C T) {n : Nat} (ih : AdqAt env C T n) :
    ∀ n' w t ug, n + 1 ≤ n' → Sound env w → T t → (refText env (n+1) t).1 ≠ .unmodelled →
      (evalText env n' w t ug).2 ≠ .unmodelled := by
  intro n' w t ug hle hS hT href
  obtain ⟨n'', rfl⟩ : ∃ k, n' = k + 1 := ⟨n' - 1, by omega⟩
  have hle' : n ≤ n'' := by omega
  rw [evalText_succ]; rw [refText_succ] at href
  cases hp : parse env.dec t with
  | none => simp
  | some q =>
    simp only [hp] at href ⊢
    exact ih.q n'' w q t .none none ug hle' hS (hC.text t q hT hp) (fun _ => rfl) href

theorem act_adq {env : Env} {C : Query → Prop} {T : Str → Prop} (hC : Closed env C T)
    (hcanon : ∀ q, C q → CanonOK env q) {n : Nat} (ih : AdqAt env C T n) :
    ∀ n' w st a raw parent extra uc, n + 1 ≤ n' → Sound env w → LinksIn env C T parent a.params → SubIn env T a →
      (refAction env (n+1) st a raw parent extra).1 ≠ .unmodelled →
      (evalAction env n' w st a raw parent extra uc).2 ≠ .unmodelled := by
  intro n' w st a raw parent extra uc hle hS hL hSub href
  obtain ⟨n'', rfl⟩ : ∃ k, n' = k + 1 := ⟨n' - 1, by omega⟩
  have hle' : n ≤ n'' := by omega
  have ht := tight_of_adq hC hcanon ih
  rw [evalAction_succ]; rw [refAction_succ] at href
  cases hns : namespacesOf st.vars with
  | none => simp [hns] at href
  | some nss =>
    simp only [hns] at href ⊢
    split
    · next hl => simp [hl] at href
    · next hl =>
      rw [if_neg hl] at href
      cases hr : resolve env.reg nss a.name with
      | none => simp
      | some sig =>
        simp only [hr] at href ⊢
        rcases hr1 : refParams env n a.params raw parent with ⟨r', c1⟩
        rw [hr1] at href
        have hS0 := hS.metaIf uc raw (s "evaluation")
        have hp1 : (refParams env n a.params raw parent).1 ≠ .inr .unmodelled := by
          rw [hr1]; intro hu; simp only at hu; subst hu; exact href rfl
        obtain ⟨hS1, _, _, _, heq⟩ := ht.params n'' (w.metaIf uc raw (s "evaluation")) a.params raw parent hle' hS0 hL hp1
        rcases hp : evalParams env n'' (w.metaIf uc raw (s "evaluation")) a.params raw parent with ⟨w1, r⟩
        rw [hp] at hS1 heq; rw [hr1] at heq
        simp only at hS1 heq; subst heq
        cases r' with
        | inr o => exact href
        | inl given =>
          simp only at href ⊢
          exact call_adq ht hle' w1 st a raw sig (applyExtra extra given) uc hS1
            (fun args y qt hc => hSub nss sig hr _ _ _ _ _ hc) href

theorem preRem_classes {env : Env} {C : Query → Prop} {T : Str → Prop} (hC : Closed env C T) {q : Query} (hCq : C q) :
    ∀ h a, q.preRem = some (.transform h [a] none) → LinksIn env C T q.preParent a.params ∧ SubIn env T a := by
  intro h a hrem
  obtain ⟨p0, hp0⟩ := Query.preRem_some hrem
  exact hC.act q p0 h a hCq hp0

theorem q_adq {env : Env} {C : Query → Prop} {T : Str → Prop} (hC : Closed env C T)
    (hcanon : ∀ q, C q → CanonOK env q) {n : Nat} (ih : AdqAt env C T n) :
    ∀ n' w q raw extra input uc, n + 1 ≤ n' → Sound env w → C q → (uc = true → input = none) →
      (refQ env (n+1) q raw extra input).1 ≠ .unmodelled → (evalQ env n' w q raw extra input uc).2 ≠ .unmodelled := by
  intro n' w q raw extra input uc hle hS hCq huc href
  obtain ⟨n'', rfl⟩ : ∃ k, n' = k + 1 := ⟨n' - 1, by omega⟩
  have hle' : n ≤ n'' := by omega
  have ht := tight_of_adq hC hcanon ih
  rw [evalQ_succ']; rw [refQ_succ'] at href
  split
  · simp
  · cases hres : q.isRes with
    | true => simp [hres] at href
    | false =>
      simp only [hres, Bool.false_eq_true, if_false] at href ⊢
      have hpre : (refPre env n q input).1 ≠ .unmodelled := by
        intro hu; rw [hu] at href; exact href rfl
      have hpa : (evalPre env n'' w q raw input uc).2 ≠ .unmodelled := by
        unfold evalPre
        cases hp : q.preQ with
        | none => simp
        | some p =>
          simp only [refPre, hp] at hpre ⊢
          obtain ⟨r, hpr, hpe⟩ := Query.preQ_some hp
          exact ih.q n'' _ p _ .none input uc hle' (hS.metaIf _ _ _) (hC.pred q p r hCq hpr hpe) huc hpre
      obtain ⟨hS1, c', h1, h2, hsim⟩ := (pre_refines hC (refines hC hcanon n'') w q raw input uc hS hCq huc).tight
        (fun _ _ => refPre_det env q input) hpa hpre
      exact (after_tight ht hle' _ _ _ q.preParent q.preRem _ raw extra uc hS1 hsim (preRem_classes hC hCq) href).1

theorem adq_zero (env : Env) (C : Query → Prop) (T : Str → Prop) : AdqAt env C T 0 where
  text := fun _ _ t _ _ _ _ h => absurd (by rw [refText_zero]) h
  q := fun _ _ q raw extra input _ _ _ _ _ h => absurd (by rw [refQ_zero]) h
  act := fun _ _ st a raw parent extra _ _ _ _ _ h => absurd (by rw [refAction_zero]) h
  params := fun _ _ ps raw parent _ _ _ h => absurd (by rw [refParams_zero]) h

/-- fuel adequacy: the evaluator never needs more fuel than the reference interpretation -/
theorem adq {env : Env} {C : Query → Prop} {T : Str → Prop} (hC : Closed env C T)
    (hcanon : ∀ q, C q → CanonOK env q) : ∀ n, AdqAt env C T n
  | 0 => adq_zero env C T
  | n + 1 =>
    have ih := adq hC hcanon n
    { text := text_adq hC ih
      q := q_adq hC hcanon ih
      act := act_adq hC hcanon ih
      params := params_adq hC hcanon ih }

/-- R-eval at the reference fuel -/
theorem tight {env : Env} {C : Query → Prop} {T : Str → Prop} (hC : Closed env C T)
    (hcanon : ∀ q, C q → CanonOK env q) (n : Nat) : TightAt env C T n :=
  tight_of_adq hC hcanon (adq hC hcanon n)

/-! ### the chain of predecessors down to a cached prefix -/

theorem World.get_metaIf_other (w : World) (uc : Bool) {k k' : Str} (status : Str) (h : k' ≠ k) :
    (w.metaIf uc k status).get k' = w.get k' := by
  cases uc
  · rfl
  · exact World.get_storeMeta_other w status h

/-- one level of the descent: given what the evaluation of the predecessor `q'` did (calls `c1'`, a `Sound` world,
an outcome similar to the reference outcome), the evaluation of `q` executes `c1'` and then a subsequence of the
reference calls of the last step — or nothing at all when `q` itself is cached -/
theorem chain_step {env : Env} {C : Query → Prop} {T : Str → Prop} (hC : Closed env C T)
    (hcanon : ∀ q, C q → CanonOK env q) {n n' : Nat} (hle : n ≤ n') (W : World) (q q' : Query) (r : Option Seg)
    (raw : Str) (hCq : C q) (hpred : q.predecessor = some (q', r)) (hpe : q'.segments.isEmpty = false)
    (o' : Outcome) (cq' c1' : List Str)
    (href' : refQ env n q' (q'.encode Gen.escapeTable) .none none = (o', cq'))
    (hS1 : Sound env (evalQ env n' (W.storeMeta raw (s "evaluating parent")) q' (q'.encode Gen.escapeTable) .none none true).1)
    (hcalls : (evalQ env n' (W.storeMeta raw (s "evaluating parent")) q' (q'.encode Gen.escapeTable) .none none true).1.calls =
      W.calls ++ c1')
    (hsim : Outcome.sim (evalQ env n' (W.storeMeta raw (s "evaluating parent")) q' (q'.encode Gen.escapeTable) .none none true).2 o')
    (href : (refQ env (n+1) q raw .none none).1 ≠ .unmodelled) :
    ∃ d2, (refQ env (n+1) q raw .none none).2 = cq' ++ d2 ∧
      ∀ dd, c1'.Sublist dd →
        ∃ c', (evalQ env (n'+1) W q raw .none none true).1.calls = W.calls ++ c' ∧ c'.Sublist (dd ++ d2) := by
  have hres := Query.predecessor_not_isRes hpred
  have hpq : q.preQ = some q' := by simp [Query.preQ, hpred, hpe]
  have hpre : refPre env n q none = (o', cq') := by simp [refPre, hpq, href']
  have hrq := refQ_succ_of_pre (raw := raw) (extra := .none) hres hpre
  rw [hrq] at href ⊢
  simp only at href
  refine ⟨_, rfl, fun dd hdd => ?_⟩
  rw [evalQ_succ']
  cases hg : W.get (q.encode Gen.escapeTable) with
  | some st => exact ⟨[], by simp [Extra.isEmpty], by simp⟩
  | none =>
    simp only [Extra.isEmpty, Option.isNone_none, Bool.and_self, if_true, hres, Bool.false_eq_true, if_false]
    have hep : evalPre env n' W q raw none true =
        evalQ env n' (W.storeMeta raw (s "evaluating parent")) q' (q'.encode Gen.escapeTable) .none none true := by
      simp [evalPre, hpq]
    rw [hep]
    obtain ⟨_, c2', g1, g2⟩ := after_tight (tight hC hcanon n) hle _ _ _ q.preParent q.preRem
      (q.encode Gen.escapeTable) raw .none true hS1 hsim (preRem_classes hC hCq) href
    exact ⟨c1' ++ c2', by rw [g1, hcalls, List.append_assoc], hdd.append g2⟩

theorem Chain.class {env : Env} {C : Query → Prop} {T : Str → Prop} (hC : Closed env C T) {p q : Query} {k : Nat}
    (h : Chain p q k) (hCq : C q) : C p := by
  induction h with
  | one q r hpred hpe => exact hC.pred q p r hCq hpred hpe
  | step q' q r k _ hpred hpe ih => exact ih (hC.pred q q' r hCq hpred hpe)

/-- `Chain p q k` all of whose members (the intermediate queries and `q` itself) are spelled differently from `p`:
progress metadata filed under their canonical texts does not touch the entry of `p` -/
inductive ChainOff (p : Query) : Query → Nat → Prop where
  | one (q : Query) (r : Option Seg) : q.predecessor = some (p, r) → p.segments.isEmpty = false →
      q.encode Gen.escapeTable ≠ p.encode Gen.escapeTable → ChainOff p q 1
  | step (q' q : Query) (r : Option Seg) (k : Nat) : ChainOff p q' k → q.predecessor = some (q', r) →
      q'.segments.isEmpty = false → q.encode Gen.escapeTable ≠ p.encode Gen.escapeTable → ChainOff p q (k + 1)

theorem ChainOff.chain {p q : Query} {k : Nat} (h : ChainOff p q k) : Chain p q k := by
  induction h with
  | one q r hpred hpe _ => exact .one p q r hpred hpe
  | step q' q r k _ hpred hpe _ ih => exact .step p q' q r k ih hpred hpe

theorem ChainOff.ne {p q : Query} {k : Nat} (h : ChainOff p q k) :
    q.encode Gen.escapeTable ≠ p.encode Gen.escapeTable := by
  cases h <;> assumption

theorem ChainOff.of_chain {p q : Query} {k : Nat} (h : Chain p q k)
    (hne : ∀ q' j, Chain p q' j → q'.encode Gen.escapeTable ≠ p.encode Gen.escapeTable) : ChainOff p q k := by
  induction h with
  | one q r hpred hpe => exact .one q r hpred hpe (hne q 1 (.one p q r hpred hpe))
  | step q' q r k hch hpred hpe ih => exact .step q' q r k ih hpred hpe (hne q (k+1) (.step p q' q r k hch hpred hpe))

/-- the extension of a cached prefix by `k` steps: the reference calls of `q` start with those of `p`, and the
evaluation of `q` in a sound world that serves `p` executes a subsequence of the rest -/
theorem chain_suffix {env : Env} {C : Query → Prop} {T : Str → Prop} (hC : Closed env C T)
    (hcanon : ∀ q, C q → CanonOK env q) (m : Nat) {p q : Query} {k : Nat} (hch : ChainOff p q k)
    (st s0 : EState) (c0 : List Str) (hcore : s0.core = st.core)
    (hp : refQ env m p (p.encode Gen.escapeTable) .none none = (.st st, c0))
    (hCq : C q) (W : World) (raw : Str) (hS : Sound env W) (hget : W.get (p.encode Gen.escapeTable) = some s0)
    (hraw : raw ≠ p.encode Gen.escapeTable)
    (href : (refQ env (m+k) q raw .none none).1 ≠ .unmodelled) :
    ∃ d c', (refQ env (m+k) q raw .none none).2 = c0 ++ d ∧
      (evalQ env (m+k+1) W q raw .none none true).1.calls = W.calls ++ c' ∧ c'.Sublist d := by
  induction hch generalizing W raw with
  | one q r hpred hpe _ =>
    have hget1 : (W.storeMeta raw (s "evaluating parent")).get (p.encode Gen.escapeTable) = some s0 := by
      rw [World.get_storeMeta_other W _ (Ne.symm hraw)]; exact hget
    have hhit := evalQ_hit env m (W.storeMeta raw (s "evaluating parent")) p (p.encode Gen.escapeTable) .none none s0
      hget1 rfl rfl
    obtain ⟨d2, e1, e2⟩ := chain_step hC hcanon (Nat.le_succ m) W q p r raw hCq hpred hpe (.st st) c0 [] hp
      (by rw [hhit]; exact hS.storeMeta _ _) (by rw [hhit]; simp) (by rw [hhit]; exact hcore) href
    obtain ⟨c', e3, e4⟩ := e2 [] (List.Sublist.refl _)
    exact ⟨d2, c', e1, e3, by simpa using e4⟩
  | step q' q r k hch hpred hpe _ ih =>
    have hCq' : C q' := hC.pred q q' r hCq hpred hpe
    have hres := Query.predecessor_not_isRes hpred
    have hpq : q.preQ = some q' := by simp [Query.preQ, hpred, hpe]
    rcases hrq' : refQ env (m+k) q' (q'.encode Gen.escapeTable) .none none with ⟨o', cq'⟩
    have hpre : refPre env (m+k) q none = (o', cq') := by simp [refPre, hpq, hrq']
    have href0 : (refQ env (m+k+1) q raw .none none).1 ≠ .unmodelled := href
    have ho' : o' ≠ .unmodelled := by
      intro hu; subst hu
      rw [refQ_succ_of_pre hres hpre] at href0
      exact href0 rfl
    have hq'ne := hch.ne
    have hS1 : Sound env (W.storeMeta raw (s "evaluating parent")) := hS.storeMeta _ _
    have hget1 : (W.storeMeta raw (s "evaluating parent")).get (p.encode Gen.escapeTable) = some s0 := by
      rw [World.get_storeMeta_other W _ (Ne.symm hraw)]; exact hget
    obtain ⟨d', c1', e1, e2, e3⟩ := ih hCq' (W.storeMeta raw (s "evaluating parent")) (q'.encode Gen.escapeTable)
      hS1 hget1 hq'ne (by rw [hrq']; exact ho')
    rw [hrq'] at e1; simp only at e1
    obtain ⟨hS2, _, _, _, hsim⟩ := (tight hC hcanon (m+k)).q (m+k+1) (W.storeMeta raw (s "evaluating parent")) q'
      (q'.encode Gen.escapeTable) .none none true (Nat.le_succ _) hS1 hCq' (fun _ => rfl) (by rw [hrq']; exact ho')
    rw [hrq'] at hsim
    obtain ⟨d2, f1, f2⟩ := chain_step hC hcanon (Nat.le_succ (m+k)) W q q' r raw hCq hpred hpe o' cq' c1' hrq'
      hS2 (by rw [e2]; simp) hsim href0
    obtain ⟨c', f3, f4⟩ := f2 d' e3
    exact ⟨d' ++ d2, c', by rw [show m + (k+1) = m + k + 1 from rfl, f1, e1, List.append_assoc], f3, f4⟩

/-- C09, extension by any number of steps: after a cacheable evaluation of `p`, the evaluation of a `k`-step
extension `q` executes a subsequence of the reference calls of `q` to the right of those of `p` -/
theorem extension_runs_suffix {env : Env} {C : Query → Prop} {T : Str → Prop} (hC : Closed env C T)
    (hcanon : ∀ q, C q → CanonOK env q) (n m k : Nat) (w w' : World) (p q : Query) (st : EState)
    (c0 c : List Str) (o : Outcome) (hen : w.enabled = true) (hS : Sound env w) (hCq : C q)
    (h1 : evalQ env (n+1) w p (p.encode Gen.escapeTable) .none none true = (w', .st st))
    (hc : st.caching = true) (he : st.isError = false) (hv : st.volatile = false) (hstep : p.hasStep = true)
    (hch : ChainOff p q k)
    (hp : refQ env m p (p.encode Gen.escapeTable) .none none = (.st st, c0))
    (hq : refQ env (m+k) q (q.encode Gen.escapeTable) .none none = (o, c)) (ho : o ≠ .unmodelled) :
    ∃ c', (evalQ env (m+k+1) w' q (q.encode Gen.escapeTable) .none none true).1.calls = w'.calls ++ c' ∧
      c'.Sublist (c.drop c0.length) := by
  have hCp : C p := hch.chain.class hC hCq
  obtain ⟨s0, hcore, hget, _⟩ := second_run_silent env n w w' p _ st hen h1 hc he hv hstep
  have hS' : Sound env w' := by
    have := (evalQ_refines hC hcanon (n+1) w p (p.encode Gen.escapeTable) .none none true hS hCp (fun _ => rfl)).1
    rwa [h1] at this
  obtain ⟨d, c', e1, e2, e3⟩ := chain_suffix hC hcanon m hch st s0 c0 hcore hp hCq w' _ hS' hget hch.ne
    (by rw [hq]; exact ho)
  rw [hq] at e1; simp only at e1; subst e1
  exact ⟨c', e2, by simpa using e3⟩

end Liquer

/-! ### a two-step extension for the non-vacuity examples: `one/add-2/add-1` over the cached `one` -/

namespace Liquer.Ex

def aAdd1 : Action := .mk (s "add") [.str (s "1") 14] 10
def qOneAddAdd : Query := .mk [.transform none [aOne 0, aAdd2, aAdd1] none] false

theorem key2 : qOneAddAdd.encode Gen.escapeTable = s "one/add-2/add-1" := by decide +kernel

def C1 (q : Query) : Prop := q = qOneAddAdd ∨ q = qOneAdd ∨ q = qOne

theorem closed1 : Closed env0 C1 T0 where
  pred := by
    intro q p r hq hp hpe
    rcases hq with rfl | rfl | rfl
    · simp [qOneAddAdd, Query.predecessor] at hp; right; left; exact hp.1.symm
    · simp [qOneAdd, Query.predecessor] at hp; right; right; exact hp.1.symm
    · simp [qOne, Query.predecessor] at hp; rw [← hp.1] at hpe; simp [Query.segments] at hpe
  act := by
    intro q p h a hq hp
    rcases hq with rfl | rfl | rfl
    · simp [qOneAddAdd, Query.predecessor] at hp
      obtain ⟨_, _, rfl⟩ := hp
      exact plain_act _ _ _ _ (by decide)
    · simp [qOneAdd, Query.predecessor] at hp
      obtain ⟨_, _, rfl⟩ := hp
      exact plain_act _ _ _ _ (by decide)
    · simp [qOne, Query.predecessor] at hp
      obtain ⟨_, _, rfl⟩ := hp
      exact plain_act _ _ _ _ (by decide)
  text := fun _ _ h => h.elim

theorem canon1 : ∀ q, C1 q → CanonOK env0 q := by
  intro q hq
  rcases hq with rfl | rfl | rfl
  · exact CanonOK.of_check (m := 9) (m' := 10) (by decide +kernel)
  · exact CanonOK.of_check (m := 8) (m' := 9) (by decide +kernel)
  · exact CanonOK.of_check (m := 8) (m' := 9) (by decide +kernel)

theorem chainOff2 : ChainOff qOne qOneAddAdd 2 :=
  .step qOneAdd qOneAddAdd (some (.transform none [aAdd1] none)) 1
    (.one qOneAdd (some (.transform none [aAdd2] none)) (by simp [qOneAdd, qOne, Query.predecessor]) (by decide)
      (by decide +kernel))
    (by simp [qOneAddAdd, qOneAdd, Query.predecessor]) (by decide) (by decide +kernel)

end Liquer.Ex
