/-
Helper lemmas for C08, part 3: the recipe layer over the `FileStore` model `fileOps root` (POSIX tree `PFS`).

The facts are local to one key `k` (plain components, not the status file): what a successful `store` /
`store_metadata` of ANOTHER key can change (`Touch`), when the writes of `k` succeed (`fileWritable`: no regular file on
the way to the metadata file, which is not a directory), the reads of `k` afterwards, and the two ways `make` ends.
Nothing here needs the simulation `SimF` with the reference store: a failed recipe leaves a metadata file without a
data file, a state the reference store does not have.
-/
import LiquerProofs.Lemmas.RecipesMem
import LiquerProofs.Lemmas.StoreFileRef2

namespace Liquer

/-! ### POSIX primitives: what a successful call changed -/

theorem PFS.mkdirList_touch (as : List Path) : ∀ (s s' : PFS), as.foldlM PFS.mkdirStep s = .ok s' →
    ∀ q, s'.get q = s.get q ∨ (s.get q = none ∧ s'.get q = some .dir ∧ q ∈ as) := by
  induction as with
  | nil =>
    intro s s' h q
    simp only [List.foldlM_nil, pure, Except.pure, Except.ok.injEq] at h
    subst h
    exact Or.inl rfl
  | cons a as ih =>
    intro s s' h q
    rw [List.foldlM_cons] at h
    cases hg : s.get a with
    | none =>
      have ha : a ≠ [] := by intro e; subst e; rw [PFS.get_root] at hg; cases hg
      have hstep : PFS.mkdirStep s a = .ok (s.set a .dir) := by simp [PFS.mkdirStep, hg]
      rw [hstep] at h
      have := ih (s.set a .dir) s' h q
      rw [PFS.get_set _ ha] at this
      by_cases e : a = q
      · subst e
        simp only [↓reduceIte] at this
        rcases this with h1 | ⟨h1, _⟩
        · exact Or.inr ⟨hg, h1, List.mem_cons_self⟩
        · cases h1
      · simp only [e, ↓reduceIte] at this
        rcases this with h1 | ⟨h1, h2, h3⟩
        · exact Or.inl h1
        · exact Or.inr ⟨h1, h2, List.mem_cons_of_mem _ h3⟩
    | some x =>
      cases x with
      | dir =>
        have hstep : PFS.mkdirStep s a = .ok s := by simp [PFS.mkdirStep, hg]
        rw [hstep] at h
        rcases ih s s' h q with h1 | ⟨h1, h2, h3⟩
        · exact Or.inl h1
        · exact Or.inr ⟨h1, h2, List.mem_cons_of_mem _ h3⟩
      | dfile d =>
        have hstep : PFS.mkdirStep s a = .error .other := by simp [PFS.mkdirStep, hg]
        rw [hstep] at h
        cases h
      | mfile m =>
        have hstep : PFS.mkdirStep s a = .error .other := by simp [PFS.mkdirStep, hg]
        rw [hstep] at h
        cases h

/-- a successful `mkdir -p` only turns absent prefixes of the path into directories -/
theorem PFS.mkdirP_touch {s s' : PFS} {p : Path} (h : s.mkdirP p = .ok s') (q : Path) :
    s'.get q = s.get q ∨ (s.get q = none ∧ s'.get q = some .dir ∧ q <+: p) := by
  rw [PFS.mkdirP_eq] at h
  rcases PFS.mkdirList_touch _ s s' h q with h1 | ⟨h1, h2, h3⟩
  · exact Or.inl h1
  · exact Or.inr ⟨h1, h2, ((mem_mkdirP_list p q).mp h3).2⟩

/-- a successful `write` replaced a node that was not a directory -/
theorem PFS.write_inv {s s' : PFS} {p : Path} {n : PNode} (h : s.write p n = .ok s') :
    p ≠ [] ∧ s.get p ≠ some .dir ∧ s' = s.set p n := by
  unfold PFS.write at h
  have hd : s.get p ≠ some .dir := by
    intro e
    rw [e] at h
    cases h
  have hp : p ≠ [] := by
    intro e
    subst e
    exact hd (PFS.get_root s)
  refine ⟨hp, hd, ?_⟩
  cases hg : s.get p with
  | none =>
    rw [hg] at h
    simp only at h
    split at h
    · cases h; rfl
    · cases h
  | some x =>
    cases x with
    | dir => exact absurd hg hd
    | dfile d =>
      rw [hg] at h
      simp only at h
      split at h
      · cases h; rfl
      · cases h
    | mfile m =>
      rw [hg] at h
      simp only at h
      split at h
      · cases h; rfl
      · cases h

/-- no regular file at a non-empty prefix of `p` -/
def PFS.NoFile (s : PFS) (p : Path) : Prop := ∀ a, a ≠ [] → a <+: p → s.get a = none ∨ s.get a = some .dir

theorem PFS.fileOnWay_false (s : PFS) (p : Path) : s.fileOnWay p = false ↔ s.NoFile p.dropLast := by
  unfold PFS.fileOnWay PFS.NoFile
  rw [List.any_eq_false]
  constructor
  · intro h a ha hap
    have := h a ((mem_ancestors_iff_dropLast a p).mpr ⟨ha, hap⟩)
    cases hg : s.get a with
    | none => exact Or.inl rfl
    | some x =>
      cases x with
      | dir => exact Or.inr rfl
      | dfile d => simp [hg] at this
      | mfile m => simp [hg] at this
  · intro h a ha
    obtain ⟨h1, h2⟩ := (mem_ancestors_iff_dropLast a p).mp ha
    rcases h a h1 h2 with e | e <;> simp [e]


theorem PFS.mkdirP_notdir {s s' : PFS} {p : Path} (h : s.mkdirP p = .ok s') {q : Path} (hq : s'.get q ≠ some .dir) :
    s'.get q = s.get q := by
  rcases PFS.mkdirP_touch h q with t | ⟨_, t, _⟩
  · exact t
  · exact absurd t hq

/-! ### `store` / `store_metadata` of a plain key: what a successful call changed -/

/-- the metadata file was (over)written, absent directories on the way to it were created, nothing else changed -/
def TouchM (root : Path) (k : Key) (s s' : PFS) : Prop :=
  ∀ q, s'.get q = s.get q ∨ (s.get q ≠ some .dir ∧ q = root ++ metaRel k) ∨
    (s.get q = none ∧ s'.get q = some .dir ∧ q <+: root ++ (k.dropLast ++ [metaDirName]))

/-- … the data file or the metadata file … -/
def Touch (root : Path) (k : Key) (s s' : PFS) : Prop :=
  ∀ q, s'.get q = s.get q ∨ (s.get q ≠ some .dir ∧ (q = root ++ k ∨ q = root ++ metaRel k)) ∨
    (s.get q = none ∧ s'.get q = some .dir ∧ q <+: root ++ (k.dropLast ++ [metaDirName]))

theorem TouchM.touch {root : Path} {k : Key} {s s' : PFS} (h : TouchM root k s s') : Touch root k s s' := by
  intro q
  rcases h q with a | ⟨a, b⟩ | a
  · exact Or.inl a
  · exact Or.inr (Or.inl ⟨a, Or.inr b⟩)
  · exact Or.inr (Or.inr a)

theorem Touch.refl (root : Path) (k : Key) (s : PFS) : Touch root k s s := fun _ => Or.inl rfl

theorem mdir_dropLast (root : Path) (k : Key) : (root ++ metaRel k).dropLast = root ++ (k.dropLast ++ [metaDirName]) := by
  rw [metaRel_path, List.dropLast_concat, List.append_assoc]

theorem metaRel_not_prefix_mdir (root : Path) (k : Key) : ¬ root ++ metaRel k <+: root ++ (k.dropLast ++ [metaDirName]) := by
  intro h
  have := h.length_le
  simp [metaRel] at this

theorem key_not_prefix_parent (root : Path) {k : Key} (hk0 : k ≠ []) : ¬ root ++ k <+: root ++ k.dropLast := by
  intro h
  have := h.length_le
  have h0 : 0 < k.length := List.length_pos_iff.mpr hk0
  simp only [List.length_append, List.length_dropLast] at this
  omega

theorem key_not_prefix_mdir (root : Path) {k : Key} (hk : PlainKey k) (hk0 : k ≠ []) :
    ¬ root ++ k <+: root ++ (k.dropLast ++ [metaDirName]) := by
  intro h
  have hl : (root ++ k).length = (root ++ (k.dropLast ++ [metaDirName])).length := by
    have h0 : 0 < k.length := List.length_pos_iff.mpr hk0
    simp only [List.length_append, List.length_dropLast, List.length_cons, List.length_nil]
    omega
  have := h.eq_of_length hl
  exact plain_ne_mdir hk.no_meta _ ((root_append_inj root).mp this)

theorem metaRel_ne_key (root : Path) {k : Key} (hk : PlainKey k) : root ++ metaRel k ≠ root ++ k := by
  rw [Ne, root_append_inj]; exact fun e => plain_ne_metaRel hk.no_meta _ e.symm

variable {root : Path}

theorem File.storeMeta_touch {s s' : PFS} {k : Key} (hk : PlainKey k) (hk0 : k ≠ []) {m : UMeta}
    (h : File.storeMeta root s k m = .ok s') : TouchM root k s s' := by
  unfold File.storeMeta at h
  obtain ⟨mp, hmp, h⟩ := Except.bind_ok h
  obtain ⟨s1, h1, h⟩ := Except.bind_ok h
  rw [File.metaPath_plain root hk hk0] at hmp
  cases hmp
  rw [mdir_dropLast] at h1
  obtain ⟨w1, w2, rfl⟩ := PFS.write_inv h
  intro q
  rw [PFS.get_set _ w1]
  by_cases e : root ++ metaRel k = q
  · subst e
    right; left
    refine ⟨?_, rfl⟩
    rw [← PFS.mkdirP_notdir h1 w2]
    exact w2
  · simp only [e, if_false]
    rcases PFS.mkdirP_touch h1 q with t | t
    · exact Or.inl t
    · exact Or.inr (Or.inr t)

theorem File.store_touch {s s' : PFS} {k : Key} (hk : PlainKey k) (hk0 : k ≠ []) {d : Data} {m : UMeta}
    (h : File.store root s k d m = .ok s') : Touch root k s s' := by
  unfold File.store at h
  obtain ⟨p, hp, h⟩ := Except.bind_ok h
  obtain ⟨_, _, h⟩ := Except.bind_ok h
  obtain ⟨s1, h1, h⟩ := Except.bind_ok h
  obtain ⟨s2, h2, h⟩ := Except.bind_ok h
  rw [File.path_plain root hk] at hp
  cases hp
  rw [compsParts_plain hk, List.dropLast_append_of_ne_nil hk0] at h1
  obtain ⟨w1, w2, rfl⟩ := PFS.write_inv h2
  have t3 := File.storeMeta_touch hk hk0 h
  have hpre : root ++ k.dropLast <+: root ++ (k.dropLast ++ [metaDirName]) := by
    rw [← List.append_assoc]; exact List.prefix_append _ _
  intro q
  by_cases e : root ++ k = q
  · subst e
    right; left
    refine ⟨?_, Or.inl rfl⟩
    rw [← PFS.mkdirP_notdir h1 w2]
    exact w2
  · have hq2 : (s1.set (root ++ k) (.dfile d)).get q = s1.get q := by
      rw [PFS.get_set _ w1]; simp only [e, if_false]
    rcases t3 q with a | ⟨a1, a2⟩ | ⟨a1, a2, a3⟩
    · rw [a, hq2]
      rcases PFS.mkdirP_touch h1 q with t | ⟨t1, t2, t3⟩
      · exact Or.inl t
      · exact Or.inr (Or.inr ⟨t1, t2, t3.trans hpre⟩)
    · right; left
      rw [hq2] at a1
      refine ⟨?_, Or.inr a2⟩
      rw [← PFS.mkdirP_notdir h1 a1]
      exact a1
    · right; right
      rw [hq2] at a1
      refine ⟨?_, a2, a3⟩
      rw [← PFS.mkdirP_notdir h1 (by rw [a1]; simp)]
      exact a1

instance (c : Str) : Decidable (PlainC c) := by unfold PlainC; infer_instance
instance (k : Key) : Decidable (PlainKey k) := by unfold PlainKey; infer_instance

/-! ### … and when it succeeds -/

theorem File.storeMeta_ok (s : PFS) {k : Key} (hk : PlainKey k) (hk0 : k ≠ []) (m : UMeta)
    (hnf : s.NoFile (root ++ (k.dropLast ++ [metaDirName]))) (hmp : s.get (root ++ metaRel k) ≠ some .dir) :
    ∃ s', File.storeMeta root s k m = .ok s' ∧ s'.get (root ++ metaRel k) = some (.mfile m) ∧
      (∀ a, a <+: root ++ (k.dropLast ++ [metaDirName]) → s'.get a = some .dir) := by
  obtain ⟨s1, hs1, hget1, _⟩ := PFS.mkdirP_spec s (root ++ (k.dropLast ++ [metaDirName])) hnf
  have hchain : ∀ a, a <+: root ++ (k.dropLast ++ [metaDirName]) → s1.get a = some .dir := by
    intro a ha
    by_cases e : a = []
    · subst e; exact PFS.get_root _
    · rw [hget1]
      rcases hnf a e ha with g | g
      · rw [if_pos ⟨e, ha, g⟩]
      · rw [if_neg (by rw [g]; simp), g]
  have hmne : root ++ metaRel k ≠ [] := by simp [metaRel]
  have hw : s1.write (root ++ metaRel k) (.mfile m) = .ok (s1.set (root ++ metaRel k) (.mfile m)) := by
    apply PFS.write_ok
    · rw [hget1, if_neg (fun c => metaRel_not_prefix_mdir root k c.2.1)]
      exact hmp
    · rw [mdir_dropLast]
      exact hchain _ (List.prefix_refl _)
  refine ⟨s1.set (root ++ metaRel k) (.mfile m), ?_, ?_, ?_⟩
  · unfold File.storeMeta
    simp only [File.metaPath_plain root hk hk0, bind, Except.bind]
    rw [mdir_dropLast, hs1]
    exact hw
  · rw [PFS.get_set _ hmne]; simp
  · intro a ha
    rw [PFS.get_set _ hmne, if_neg (fun e : root ++ metaRel k = a => metaRel_not_prefix_mdir root k (by rw [e]; exact ha))]
    exact hchain a ha

theorem File.store_ok (s : PFS) {k : Key} (hk : PlainKey k) (hk0 : k ≠ []) (d : Data) (m : UMeta)
    (hnf : s.NoFile (root ++ (k.dropLast ++ [metaDirName]))) (hmp : s.get (root ++ metaRel k) ≠ some .dir)
    (hp : s.get (root ++ k) ≠ some .dir) :
    ∃ s', File.store root s k d m = .ok s' ∧ s'.get (root ++ k) = some (.dfile d) ∧
      s'.get (root ++ metaRel k) = some (.mfile { m with size := some d.length, md5 := some d }) ∧
      (∀ a, a <+: root ++ (k.dropLast ++ [metaDirName]) → s'.get a = some .dir) := by
  have hpre : root ++ k.dropLast <+: root ++ (k.dropLast ++ [metaDirName]) := by
    rw [← List.append_assoc]; exact List.prefix_append _ _
  obtain ⟨s1, hs1, hget1, _⟩ := PFS.mkdirP_spec s (root ++ k.dropLast) (fun a ha hap => hnf a ha (hap.trans hpre))
  have hpne : root ++ k ≠ [] := by simp [hk0]
  have h1nf : ∀ a, a ≠ [] → a <+: root ++ (k.dropLast ++ [metaDirName]) → s1.get a = none ∨ s1.get a = some .dir := by
    intro a ha hap
    rw [hget1]
    split
    · exact Or.inr rfl
    · exact hnf a ha hap
  have hw : s1.write (root ++ k) (.dfile d) = .ok (s1.set (root ++ k) (.dfile d)) := by
    apply PFS.write_ok
    · rw [hget1, if_neg (fun c => key_not_prefix_parent root hk0 c.2.1)]
      exact hp
    · rw [List.dropLast_append_of_ne_nil hk0]
      by_cases e : root ++ k.dropLast = []
      · rw [e]; exact PFS.get_root _
      · rw [hget1]
        rcases hnf _ e hpre with g | g
        · rw [if_pos ⟨e, List.prefix_refl _, g⟩]
        · rw [if_neg (by rw [g]; simp), g]
  obtain ⟨s', hs', g1, g2⟩ := File.storeMeta_ok (root := root) (s1.set (root ++ k) (.dfile d)) hk hk0
    { m with size := some d.length, md5 := some d }
    (by
      intro a ha hap
      rw [PFS.get_set _ hpne, if_neg (fun e : root ++ k = a => key_not_prefix_mdir root hk hk0 (by rw [e]; exact hap))]
      exact h1nf a ha hap)
    (by
      rw [PFS.get_set _ hpne, if_neg (fun e => metaRel_ne_key root hk e.symm), hget1,
        if_neg (fun c => metaRel_not_prefix_mdir root k (c.2.1.trans hpre))]
      exact hmp)
  refine ⟨s', ?_, ?_, g1, g2⟩
  · unfold File.store
    simp only [File.path_plain root hk, File.metaPath_plain root hk hk0, compsParts_plain hk, bind, Except.bind]
    rw [List.dropLast_append_of_ne_nil hk0, hs1]
    simp only []
    rw [hw]
    exact hs'
  · rcases File.storeMeta_touch hk hk0 hs' (root ++ k) with a | ⟨_, a⟩ | ⟨a, _, _⟩
    · rw [a, PFS.get_set _ hpne]; simp
    · exact absurd a.symm (metaRel_ne_key root hk)
    · rw [PFS.get_set _ hpne] at a; simp at a


theorem File.remove_ok (s : PFS) {k : Key} (hk : PlainKey k) (hk0 : k ≠ [])
    (hnf : s.NoFile (root ++ (k.dropLast ++ [metaDirName]))) (hmp : s.get (root ++ metaRel k) ≠ some .dir)
    (hp : s.get (root ++ k) ≠ some .dir) :
    ∃ s', File.remove root s k = .ok s' ∧
      ∀ q, s'.get q = if q = root ++ metaRel k ∨ q = root ++ k then none else s.get q := by
  have hpre : root ++ k.dropLast <+: root ++ (k.dropLast ++ [metaDirName]) := by
    rw [← List.append_assoc]; exact List.prefix_append _ _
  have hpne : root ++ k ≠ [] := by simp [hk0]
  have hmne : root ++ metaRel k ≠ [] := by simp [metaRel]
  -- the data file
  have h1 : ∃ s1, s.unlinkMissingOk (root ++ k) = .ok s1 ∧ ∀ q, s1.get q = if q = root ++ k then none else s.get q := by
    cases hg : s.get (root ++ k) with
    | none =>
      refine ⟨s, PFS.unlink_missing s _ hg ?_, ?_⟩
      · intro a ha
        obtain ⟨a1, a2⟩ := (mem_ancestors_iff_dropLast a _).mp ha
        rw [List.dropLast_append_of_ne_nil hk0] at a2
        exact hnf a a1 (a2.trans hpre)
      · intro q
        by_cases e : q = root ++ k
        · rw [e, hg]; simp
        · simp [e]
    | some x =>
      refine ⟨s.erase (root ++ k), PFS.unlink_file s _ hg (fun e => hp (by rw [hg, e])), ?_⟩
      intro q
      exact PFS.get_erase s hpne q
  obtain ⟨s1, hs1, hget1⟩ := h1
  have h2 : ∃ s2, s1.unlinkMissingOk (root ++ metaRel k) = .ok s2 ∧
      ∀ q, s2.get q = if q = root ++ metaRel k then none else s1.get q := by
    cases hg : s1.get (root ++ metaRel k) with
    | none =>
      refine ⟨s1, PFS.unlink_missing s1 _ hg ?_, ?_⟩
      · intro a ha
        obtain ⟨a1, a2⟩ := (mem_ancestors_iff_dropLast a _).mp ha
        rw [mdir_dropLast] at a2
        rw [hget1]
        split
        · exact Or.inl rfl
        · exact hnf a a1 a2
      · intro q
        by_cases e : q = root ++ metaRel k
        · rw [e, hg]; simp
        · simp [e]
    | some x =>
      refine ⟨s1.erase (root ++ metaRel k), PFS.unlink_file s1 _ hg ?_, ?_⟩
      · intro e
        rw [hget1, if_neg (metaRel_ne_key root hk), e] at hg
        exact hmp hg
      · intro q
        exact PFS.get_erase s1 hmne q
  obtain ⟨s2, hs2, hget2⟩ := h2
  refine ⟨s2, ?_, ?_⟩
  · unfold File.remove
    simp only [File.path_plain root hk, File.metaPath_plain root hk hk0, bind, Except.bind, hs1]
    exact hs2
  · intro q
    rw [hget2, hget1]
    by_cases e1 : q = root ++ metaRel k
    · simp [e1]
    · by_cases e2 : q = root ++ k
      · simp [e2]
      · simp [e1, e2]

/-! ### reads of a plain key -/

theorem File.contains_plain (s : PFS) {k : Key} (hk : PlainKey k) (hk0 : k ≠ []) :
    File.contains root s k = .ok (s.get (root ++ k)).isSome := by
  have hke : k.isEmpty = false := by simpa using hk0
  simp [File.contains, hke, File.path_plain root hk, bind, Except.bind, pure, Except.pure, PFS.existsB]

theorem File.isDir_plain (s : PFS) {k : Key} (hk : PlainKey k) (hk0 : k ≠ []) :
    File.isDir root s k = .ok (s.isDirB (root ++ k)) := by
  have hke : k.isEmpty = false := by simpa using hk0
  simp [File.isDir, hke, File.path_plain root hk, bind, Except.bind, pure, Except.pure]

theorem File.contains_nil (s : PFS) : File.contains root s [] = .ok true := rfl

theorem File.absent_of_contains {s : PFS} {k : Key} (hk : PlainKey k) (h : File.contains root s k = .ok false) :
    k ≠ [] ∧ s.get (root ++ k) = none := by
  have hk0 : k ≠ [] := by
    intro e; subst e
    rw [File.contains_nil] at h
    cases h
  rw [File.contains_plain s hk hk0] at h
  refine ⟨hk0, ?_⟩
  cases hg : s.get (root ++ k) with
  | none => rfl
  | some x => rw [hg] at h; cases h

theorem File.getBytes_dfile (s : PFS) {k : Key} (hk : PlainKey k) {d : Data} (h : s.get (root ++ k) = some (.dfile d)) :
    File.getBytes root s k = .ok d := by
  simp [File.getBytes, File.path_plain root hk, bind, Except.bind, h]

theorem File.getBytes_none (s : PFS) {k : Key} (hk : PlainKey k) (h : s.get (root ++ k) = none) :
    File.getBytes root s k = .error .keyNotFound := by
  simp [File.getBytes, File.path_plain root hk, bind, Except.bind, h]

/-- the metadata file is read whether or not the data file exists -/
theorem File.getMeta_mfile (s : PFS) {k : Key} (hk : PlainKey k) (hk0 : k ≠ []) {um : UMeta}
    (hd : s.get (root ++ k) ≠ some .dir) (hm : s.get (root ++ metaRel k) = some (.mfile um)) :
    File.getMeta root s k = .ok { key := k, name := keyName k, isDir := false, size := um.size, md5 := um.md5, user := um.user } := by
  have h1 : s.isDirB (root ++ k) = false := by simpa [PFS.isDirB] using hd
  have h2 : s.existsB (root ++ metaRel k) = true := by simp [PFS.existsB, hm]
  unfold File.getMeta
  simp only [File.path_plain root hk, File.metaPath_plain root hk hk0, bind, Except.bind, h1, h2, File.readMeta, hm]
  cases s.existsB (root ++ k) <;> rfl

theorem File.getMeta_absent (s : PFS) {k : Key} (hk : PlainKey k) (hk0 : k ≠ [])
    (hd : s.get (root ++ k) = none) (hm : s.get (root ++ metaRel k) = none) :
    File.getMeta root s k = .error .keyNotFound := by
  have h1 : s.isDirB (root ++ k) = false := by simp [PFS.isDirB, hd]
  have h2 : s.existsB (root ++ metaRel k) = false := by simp [PFS.existsB, hm]
  have h3 : s.existsB (root ++ k) = false := by simp [PFS.existsB, hd]
  unfold File.getMeta
  simp [File.path_plain root hk, File.metaPath_plain root hk hk0, bind, Except.bind, h1, h2, h3]

end Liquer

namespace Liquer.Rcp
open Liquer

/-! ### generic steps of `make` (any sub-store), given that the sub-store's writes succeed -/

section generic
variable {σ : Type} (S : StoreOps σ) (cfg : Cfg)

theorem writeBack_ok_of (st : RState σ) (k : Key) (d : Data) (s1 : σ)
    (h : S.store st.sub k d { user := encRM (evMeta .ready) } = .ok s1) :
    writeBack S cfg st k (.ok d) = (createStatus S cfg (createStatus S cfg { st with sub := s1 } k) k, false) := by
  simp [writeBack, store, h]

theorem writeBack_failed_of (st : RState σ) (k : Key) (bare : Bool) (s1 : σ)
    (h : S.storeMeta st.sub k { user := encRM (declaredMeta cfg k (if bare then evMetaBare else evMeta .error)), size := none, md5 := none } = .ok s1) :
    writeBack S cfg st k (.failed bare) = (createStatus S cfg { st with sub := s1 } k, false) := by
  simp [writeBack, storeMeta, h]

theorem finishTail_of (st2 : RState σ) (k : Key) (r : Recipe) (b : Bool) (mo : MetaObs) (s3 : σ)
    (hg : S.getMeta st2.sub k = .ok mo)
    (hs : S.storeMeta st2.sub k { user := encRM (mergeMeta r b (decRM mo.user)), size := mo.size, md5 := mo.md5 } = .ok s3) :
    finishTail S cfg st2 k r b = (createStatus S cfg (createStatus S cfg { st2 with sub := s3 } k) k, none) := by
  simp [finishTail, hg, hs]

/-- entering `make`: a read of a declared key the sub-store does not contain -/
theorem getBytesF_absent (E : Env) (n : Nat) (st : RState σ) (k : Key) (r : Recipe)
    (hl : cfg.lookup k = some r) (hc : S.contains st.sub k = .ok false) :
    getBytesF S cfg E (n + 1) st k =
      afterMake S k (finish S cfg (evalPhase S cfg E (getBytesF S cfg E n) st r k).1 k r
        (evalPhase S cfg E (getBytesF S cfg E n) st r k).2) := by
  simp [getBytesF, hc, makeWith, hl]

end generic

/-! ### the status file of a plain key -/

theorem plainC_statusFile : PlainC statusFile := by
  unfold PlainC
  decide

theorem statusKey_plain {k : Key} (hk : PlainKey k) (d : Bool) : PlainKey (statusKeyOf d k) := by
  unfold statusKeyOf
  cases d
  · exact (PlainKey.dropLast hk).concat plainC_statusFile
  · exact hk.concat plainC_statusFile

theorem statusKey_ne_nil (d : Bool) (k : Key) : statusKeyOf d k ≠ [] := by simp [statusKeyOf]

theorem statusKey_name (d : Bool) (k : Key) : keyName (statusKeyOf d k) = statusFile := by
  unfold statusKeyOf
  exact keyName_append_singleton _ _

theorem statusKey_dropLast_false (k : Key) : (statusKeyOf false k).dropLast = k.dropLast := by
  simp [statusKeyOf, parentKey]

variable {root : Path}

/-- the four paths of `k` and of a status key are different -/
theorem status_paths_ne {k : Key} (hk : PlainKey k) (hk0 : k ≠ []) (hsf : keyName k ≠ statusFile) (d : Bool) :
    root ++ k ≠ root ++ statusKeyOf d k ∧ root ++ k ≠ root ++ metaRel (statusKeyOf d k) ∧
    root ++ metaRel k ≠ root ++ statusKeyOf d k ∧ root ++ metaRel k ≠ root ++ metaRel (statusKeyOf d k) := by
  have hsp := statusKey_plain hk d
  refine ⟨?_, ?_, ?_, ?_⟩
  · rw [Ne, root_append_inj]; exact fun e => statusKey_ne hsf d k e.symm
  · rw [Ne, root_append_inj]; exact plain_ne_metaRel hk.no_meta _
  · rw [Ne, root_append_inj]; exact fun e => plain_ne_metaRel hsp.no_meta _ e.symm
  · rw [Ne, root_append_inj]
    intro e
    exact statusKey_ne hsf d k (metaRel_inj hk0 (statusKey_ne_nil d k) e).symm

/-- `create_status` over a `FileStore`: nothing happens, or the status file was stored -/
theorem createStatus_file (cfg : Cfg) (st : RState PFS) (k : Key) :
    ∃ sub', createStatus (fileOps root) cfg st k = { st with sub := sub' } ∧
      (sub' = st.sub ∨ ∃ d, isDir (fileOps root) cfg st k = .ok d ∧
        File.store root st.sub (statusKeyOf d k) [] statusMeta = .ok sub') := by
  unfold createStatus
  by_cases h : keyName k = statusFile
  · exact ⟨st.sub, by simp [h], Or.inl rfl⟩
  · rw [if_neg h]
    cases hd : isDir (fileOps root) cfg st k with
    | error e => exact ⟨st.sub, rfl, Or.inl rfl⟩
    | ok d =>
      simp only
      have hs : (fileOps root).store st.sub (statusKeyOf d k) [] statusMeta =
          File.store root st.sub (statusKeyOf d k) [] statusMeta := rfl
      rw [hs]
      cases hst : File.store root st.sub (statusKeyOf d k) [] statusMeta with
      | error e => exact ⟨st.sub, rfl, Or.inl rfl⟩
      | ok s' => exact ⟨s', rfl, Or.inr ⟨d, rfl, hst⟩⟩

theorem isDir_file_absent (cfg : Cfg) (st : RState PFS) {k : Key} (hk : PlainKey k) (hk0 : k ≠ [])
    (hp : st.sub.get (root ++ k) ≠ some .dir) : isDir (fileOps root) cfg st k = .ok (recipeDir cfg.recipes k) := by
  unfold isDir
  have h : (fileOps root).isDir st.sub k = .ok false := by
    show File.isDir root st.sub k = _
    rw [File.isDir_plain _ hk hk0]
    congr 1
    simpa [PFS.isDirB] using hp
  rw [h]

/-! ### the entry of a key: data file (or none), metadata file, the folders on the way -/

def FEntry (root : Path) (s : PFS) (k : Key) (x : Option PNode) (um : UMeta) : Prop :=
  s.get (root ++ k) = x ∧ s.get (root ++ metaRel k) = some (.mfile um) ∧
  ∀ a, a <+: root ++ (k.dropLast ++ [metaDirName]) → s.get a = some .dir

theorem Touch.keep_dir {k' : Key} {s s' : PFS} (h : Touch root k' s s') {q : Path} (hq : s.get q = some .dir) :
    s'.get q = some .dir := by
  rcases h q with a | ⟨a, _⟩ | ⟨a, _, _⟩
  · rw [a, hq]
  · exact absurd hq a
  · rw [hq] at a; cases a

theorem Touch.keep_some {k' : Key} {s s' : PFS} (h : Touch root k' s s') {q : Path} {x : PNode} (hq : s.get q = some x)
    (h1 : q ≠ root ++ k') (h2 : q ≠ root ++ metaRel k') : s'.get q = some x := by
  rcases h q with a | ⟨_, a | a⟩ | ⟨a, _, _⟩
  · rw [a, hq]
  · exact absurd a h1
  · exact absurd a h2
  · rw [hq] at a; cases a

theorem Touch.keep_none {k' : Key} {s s' : PFS} (h : Touch root k' s s') {q : Path} (hq : s.get q = none)
    (h1 : q ≠ root ++ k') (h2 : q ≠ root ++ metaRel k') (h3 : ¬ q <+: root ++ (k'.dropLast ++ [metaDirName])) :
    s'.get q = none := by
  rcases h q with a | ⟨_, a | a⟩ | ⟨_, _, a⟩
  · rw [a, hq]
  · exact absurd a h1
  · exact absurd a h2
  · exact absurd a h3

/-- `create_status` keeps the entry of a key (an entry without data file: provided the key is not a directory of recipes) -/
theorem createStatus_entry (cfg : Cfg) (st : RState PFS) {k : Key} (hk : PlainKey k) (hk0 : k ≠ []) (hsf : keyName k ≠ statusFile)
    (x : Option PNode) (um : UMeta) (hx : x ≠ some .dir) (hnd : x = none → recipeDir cfg.recipes k = false)
    (h : FEntry root st.sub k x um) : FEntry root (createStatus (fileOps root) cfg st k).sub k x um := by
  obtain ⟨sub', e, hc⟩ := createStatus_file (root := root) cfg st k
  rw [e]
  simp only
  rcases hc with rfl | ⟨d, hd, hst⟩
  · exact h
  · have ht := File.store_touch (statusKey_plain hk d) (statusKey_ne_nil d k) hst
    obtain ⟨n1, n2, n3, n4⟩ := status_paths_ne (root := root) hk hk0 hsf d
    obtain ⟨e1, e2, e3⟩ := h
    refine ⟨?_, Touch.keep_some ht e2 n3 n4, fun a ha => Touch.keep_dir ht (e3 a ha)⟩
    cases x with
    | some y => exact Touch.keep_some ht e1 n1 n2
    | none =>
      rw [isDir_file_absent cfg st hk hk0 (by rw [e1]; simp), hnd rfl] at hd
      cases hd
      refine Touch.keep_none ht e1 n1 n2 ?_
      rw [statusKey_dropLast_false]
      exact key_not_prefix_mdir root hk hk0

/-- `create_status` keeps an absent key absent (provided the key is not a directory of recipes) -/
theorem createStatus_absent (cfg : Cfg) (st : RState PFS) {k : Key} (hk : PlainKey k) (hk0 : k ≠ []) (hsf : keyName k ≠ statusFile)
    (hnd : recipeDir cfg.recipes k = false)
    (h1 : st.sub.get (root ++ k) = none) (h2 : st.sub.get (root ++ metaRel k) = none) :
    (createStatus (fileOps root) cfg st k).sub.get (root ++ k) = none ∧
    (createStatus (fileOps root) cfg st k).sub.get (root ++ metaRel k) = none := by
  obtain ⟨sub', e, hc⟩ := createStatus_file (root := root) cfg st k
  rw [e]
  simp only
  rcases hc with rfl | ⟨d, hd, hst⟩
  · exact ⟨h1, h2⟩
  · have ht := File.store_touch (statusKey_plain hk d) (statusKey_ne_nil d k) hst
    obtain ⟨n1, n2, n3, n4⟩ := status_paths_ne (root := root) hk hk0 hsf d
    rw [isDir_file_absent cfg st hk hk0 (by rw [h1]; simp), hnd] at hd
    cases hd
    refine ⟨Touch.keep_none ht h1 n1 n2 ?_, Touch.keep_none ht h2 n3 n4 ?_⟩
    · rw [statusKey_dropLast_false]
      exact key_not_prefix_mdir root hk hk0
    · rw [statusKey_dropLast_false]
      exact metaRel_not_prefix_mdir root k


/-! ### when the writes of `k` succeed -/

/-- nothing prevents the `FileStore` from writing (or unlinking) the metadata file of `k`, hence its data file: no
regular file on the way to `<dir>/__metadata__/<name>.json`, which is not a directory itself -/
def fileWritable (root : Path) (s : PFS) (k : Key) : Bool :=
  !s.fileOnWay (root ++ metaRel k) && !s.isDirB (root ++ metaRel k)

theorem fileWritable_iff (s : PFS) (k : Key) :
    fileWritable root s k = true ↔
      s.NoFile (root ++ (k.dropLast ++ [metaDirName])) ∧ s.get (root ++ metaRel k) ≠ some .dir := by
  unfold fileWritable
  rw [Bool.and_eq_true, Bool.not_eq_true', Bool.not_eq_true', PFS.fileOnWay_false, mdir_dropLast]
  simp [PFS.isDirB]

theorem FEntry.noFile {s : PFS} {k : Key} {x : Option PNode} {um : UMeta} (h : FEntry root s k x um) :
    s.NoFile (root ++ (k.dropLast ++ [metaDirName])) := fun a _ ha => Or.inr (h.2.2 a ha)

theorem FEntry.writable {s : PFS} {k : Key} {x : Option PNode} {um : UMeta} (h : FEntry root s k x um) :
    fileWritable root s k = true :=
  (fileWritable_iff s k).mpr ⟨h.noFile, by rw [h.2.1]; simp⟩

/-- `store_metadata` on an existing entry replaces the metadata file only -/
theorem storeMeta_entry {s : PFS} {k : Key} (hk : PlainKey k) (hk0 : k ≠ []) {x : Option PNode} {um : UMeta} (um' : UMeta)
    (h : FEntry root s k x um) :
    ∃ s', File.storeMeta root s k um' = .ok s' ∧ FEntry root s' k x um' := by
  obtain ⟨s', hs', g1, g2⟩ := File.storeMeta_ok (root := root) s hk hk0 um' h.noFile (by rw [h.2.1]; simp)
  refine ⟨s', hs', ?_, g1, g2⟩
  rcases File.storeMeta_touch hk hk0 hs' (root ++ k) with a | ⟨_, a⟩ | ⟨_, _, a⟩
  · rw [a, h.1]
  · exact absurd a.symm (metaRel_ne_key root hk)
  · exact absurd a (key_not_prefix_mdir root hk hk0)

/-! ### how `make` ends over a `FileStore` -/

theorem finish_ok_file (cfg : Cfg) (st : RState PFS) {k : Key} (hk : PlainKey k) (hk0 : k ≠ []) (hsf : keyName k ≠ statusFile)
    (r : Recipe) (d : Data) (hw : fileWritable root st.sub k = true) (hp : st.sub.get (root ++ k) ≠ some .dir) :
    (finish (fileOps root) cfg st k r (.ok d)).2 = none ∧
    FEntry root (finish (fileOps root) cfg st k r (.ok d)).1.sub k (some (.dfile d))
      { user := encRM (readyMeta r), size := some d.length, md5 := some d } := by
  obtain ⟨hnf, hmp⟩ := (fileWritable_iff st.sub k).mp hw
  obtain ⟨s1, hs1, g1, g2, g3⟩ := File.store_ok (root := root) st.sub hk hk0 d { user := encRM (evMeta .ready) } hnf hmp hp
  have hwb := writeBack_ok_of (fileOps root) cfg st k d s1 hs1
  unfold finish
  rw [hwb]
  simp only
  generalize hs2 : createStatus (fileOps root) cfg (createStatus (fileOps root) cfg { st with sub := s1 } k) k = st2
  have hx : (some (PNode.dfile d)) ≠ some .dir := by simp
  have e2 : FEntry root st2.sub k (some (.dfile d)) { user := encRM (evMeta .ready), size := some d.length, md5 := some d } := by
    rw [← hs2]
    exact createStatus_entry cfg _ hk hk0 hsf _ _ hx (fun e => by cases e)
      (createStatus_entry cfg _ hk hk0 hsf _ _ hx (fun e => by cases e) ⟨g1, g2, g3⟩)
  have hg : (fileOps root).getMeta st2.sub k = .ok { key := k, name := keyName k, isDir := false, size := some d.length, md5 := some d, user := encRM (evMeta .ready) } :=
    File.getMeta_mfile st2.sub hk hk0 (by rw [e2.1]; simp) e2.2.1
  obtain ⟨s3, hs3, e3⟩ := storeMeta_entry (root := root) hk hk0
    { user := encRM (mergeMeta r false (decRM (encRM (evMeta .ready)))), size := some d.length, md5 := some d } e2
  rw [finishTail_of (fileOps root) cfg st2 k r false _ s3 hg hs3]
  refine ⟨rfl, ?_⟩
  rw [decRM_encRM, mergeMeta_ready] at e3
  exact createStatus_entry cfg _ hk hk0 hsf _ _ hx (fun e => by cases e)
    (createStatus_entry cfg _ hk hk0 hsf _ _ hx (fun e => by cases e) e3)

theorem finish_failed_file (cfg : Cfg) (st : RState PFS) {k : Key} (hk : PlainKey k) (hk0 : k ≠ []) (hsf : keyName k ≠ statusFile)
    (r : Recipe) (bare : Bool) (hl : cfg.lookup k = some r) (hnd : recipeDir cfg.recipes k = false)
    (hw : fileWritable root st.sub k = true) (hp : st.sub.get (root ++ k) = none) :
    (finish (fileOps root) cfg st k r (.failed bare)).2 = none ∧
    FEntry root (finish (fileOps root) cfg st k r (.failed bare)).1.sub k none
      { user := encRM (failedMeta r bare), size := none, md5 := none } := by
  obtain ⟨hnf, hmp⟩ := (fileWritable_iff st.sub k).mp hw
  obtain ⟨s1, hs1, g2, g3⟩ := File.storeMeta_ok (root := root) st.sub hk hk0
    { user := encRM (declaredMeta cfg k (if bare then evMetaBare else evMeta .error)), size := none, md5 := none } hnf hmp
  have g1 : s1.get (root ++ k) = none := by
    rcases File.storeMeta_touch hk hk0 hs1 (root ++ k) with a | ⟨_, a⟩ | ⟨_, _, a⟩
    · rw [a, hp]
    · exact absurd a.symm (metaRel_ne_key root hk)
    · exact absurd a (key_not_prefix_mdir root hk hk0)
  have hwb := writeBack_failed_of (fileOps root) cfg st k bare s1 hs1
  unfold finish
  rw [hwb]
  simp only
  generalize hs2 : createStatus (fileOps root) cfg { st with sub := s1 } k = st2
  have hx : (none : Option PNode) ≠ some .dir := by simp
  have e2 : FEntry root st2.sub k none
      { user := encRM (declaredMeta cfg k (if bare then evMetaBare else evMeta .error)), size := none, md5 := none } := by
    rw [← hs2]
    exact createStatus_entry cfg _ hk hk0 hsf _ _ hx (fun _ => hnd) ⟨g1, g2, g3⟩
  have hg : (fileOps root).getMeta st2.sub k = .ok { key := k, name := keyName k, isDir := false, size := none, md5 := none, user := encRM (declaredMeta cfg k (if bare then evMetaBare else evMeta .error)) } :=
    File.getMeta_mfile st2.sub hk hk0 (by rw [e2.1]; simp) e2.2.1
  obtain ⟨s3, hs3, e3⟩ := storeMeta_entry (root := root) hk hk0
    { user := encRM (mergeMeta r false (decRM (encRM (declaredMeta cfg k (if bare then evMetaBare else evMeta .error))))), size := none, md5 := none } e2
  rw [finishTail_of (fileOps root) cfg st2 k r false _ s3 hg hs3]
  refine ⟨rfl, ?_⟩
  rw [decRM_encRM, mergeMeta_failed cfg k r bare hl] at e3
  exact createStatus_entry cfg _ hk hk0 hsf _ _ hx (fun _ => hnd)
    (createStatus_entry cfg _ hk hk0 hsf _ _ hx (fun _ => hnd) e3)

/-! ### reads of the recipe layer over a `FileStore` -/

theorem getMeta_file_entry (cfg : Cfg) (st : RState PFS) {k : Key} (hk : PlainKey k) (hk0 : k ≠ []) {x : Option PNode} {um : UMeta}
    (hx : x ≠ some .dir) (h : FEntry root st.sub k x um) :
    getMeta (fileOps root) cfg st k = .ok { isDir := false, rm := decRM um.user } := by
  unfold getMeta
  have : (fileOps root).getMeta st.sub k = _ := File.getMeta_mfile st.sub hk hk0 (by rw [h.1]; exact hx) h.2.1
  rw [this]
  rfl

/-- a read of a key whose data file exists: served, nothing changes -/
theorem getBytesF_file_data (cfg : Cfg) (E : Env) (n : Nat) (st : RState PFS) {k : Key} (hk : PlainKey k) (hk0 : k ≠ []) (d : Data)
    (h : st.sub.get (root ++ k) = some (.dfile d)) : getBytesF (fileOps root) cfg E (n + 1) st k = (st, .ok d) := by
  rw [getBytesF_present (fileOps root) cfg E n st k (by
    show File.contains root st.sub k = _
    rw [File.contains_plain _ hk hk0, h]; rfl)]
  show (st, File.getBytes root st.sub k) = _
  rw [File.getBytes_dfile _ hk h]

/-! ### `remove` -/

theorem Touch.noFile {k' : Key} {s s' : PFS} (h : Touch root k' s s') {p : Path} (hn : s.NoFile p)
    (h1 : ¬ root ++ k' <+: p) (h2 : ¬ root ++ metaRel k' <+: p) : s'.NoFile p := by
  intro a ha hap
  rcases h a with e | ⟨_, e | e⟩ | ⟨_, e, _⟩
  · rw [e]; exact hn a ha hap
  · exact absurd (e ▸ hap) h1
  · exact absurd (e ▸ hap) h2
  · exact Or.inr e

theorem remove_file (cfg : Cfg) (st : RState PFS) {k : Key} (hk : PlainKey k) (hk0 : k ≠ []) (hsf : keyName k ≠ statusFile)
    (hnd : recipeDir cfg.recipes k = false) (hw : fileWritable root st.sub k = true) (hp : st.sub.get (root ++ k) ≠ some .dir) :
    ∃ st', remove (fileOps root) cfg st k = .ok st' ∧ st'.log = st.log ∧
      st'.sub.get (root ++ k) = none ∧ st'.sub.get (root ++ metaRel k) = none ∧ fileWritable root st'.sub k = true := by
  obtain ⟨hnf, hmp⟩ := (fileWritable_iff st.sub k).mp hw
  obtain ⟨s1, hs1, hget1⟩ := File.remove_ok (root := root) st.sub hk hk0 hnf hmp hp
  have hr : remove (fileOps root) cfg st k = .ok (createStatus (fileOps root) cfg { st with sub := s1 } k) := by
    unfold remove
    have : (fileOps root).remove st.sub k = .ok s1 := hs1
    rw [this]
  have h1 : s1.get (root ++ k) = none := by rw [hget1]; simp
  have h2 : s1.get (root ++ metaRel k) = none := by rw [hget1]; simp
  have hnf1 : s1.NoFile (root ++ (k.dropLast ++ [metaDirName])) := by
    intro a ha hap
    rw [hget1]
    split
    · exact Or.inl rfl
    · exact hnf a ha hap
  obtain ⟨a1, a2⟩ := createStatus_absent (root := root) cfg { st with sub := s1 } hk hk0 hsf hnd h1 h2
  refine ⟨_, hr, remove_log (fileOps root) cfg hr, a1, a2, ?_⟩
  rw [fileWritable_iff]
  refine ⟨?_, by rw [a2]; simp⟩
  obtain ⟨sub', e, hc⟩ := createStatus_file (root := root) cfg { st with sub := s1 } k
  rw [e]
  simp only
  rcases hc with rfl | ⟨d, hd, hst⟩
  · exact hnf1
  · have ht := File.store_touch (statusKey_plain hk d) (statusKey_ne_nil d k) hst
    have hd' : isDir (fileOps root) cfg { st with sub := s1 } k = .ok false := by
      rw [isDir_file_absent cfg _ hk hk0 (by simp only; rw [h1]; simp), hnd]
    rw [hd'] at hd
    cases hd
    refine Touch.noFile ht hnf1 ?_ ?_
    · intro hpre
      have hl : (root ++ statusKeyOf false k).length = (root ++ (k.dropLast ++ [metaDirName])).length := by
        simp [statusKeyOf, parentKey]
      have := (root_append_inj root).mp (hpre.eq_of_length hl)
      exact plain_ne_mdir (statusKey_plain hk false).no_meta _ this
    · intro hpre
      have := hpre.length_le
      simp [statusKeyOf, parentKey, metaRel] at this

end Liquer.Rcp
