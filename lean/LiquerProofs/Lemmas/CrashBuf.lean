/-
C16, buffered writes (`LiquerModel/CrashBuf.lean`): a protocol that closes every file before it renames it
and never disturbs an open file reads, at every name that is not open at the kill, exactly as the
write-through execution of the same steps.  Generic in the executor (laws `FsLaws`), then the two
concrete file systems and the fixed writers.
-/
import LiquerModel.CrashBuf
import LiquerProofs.Lemmas.CrashFlat
import LiquerProofs.Lemmas.CrashTree

namespace Liquer
namespace Crash

variable {ν φ β : Type} [DecidableEq ν]

/-- what the generic argument needs to know about an executor and an observation `get fs p` of one name -/
structure FsLaws (exec : φ → Step ν → φ) (get : φ → ν → β) : Prop where
  /-- a step changes only the names it mentions -/
  untouched : ∀ fs s p, p ∉ s.names → get (exec fs s) p = get fs p
  /-- what a step leaves at the names it mentions depends only on what was there -/
  cong : ∀ fs1 fs2 s, (∀ q ∈ s.names, get fs1 q = get fs2 q) → ∀ q ∈ s.names, get (exec fs1 s) q = get (exec fs2 s) q
  append_nil : ∀ fs p, get (exec fs (.append p [])) p = get fs p
  append_append : ∀ fs p x y, get (exec (exec fs (.append p x)) (.append p y)) p = get (exec fs (.append p (x ++ y))) p

/-! ### the simulation: buffered disk + buffers against the write-through disk -/

/-- at a name without buffer the two disks agree; writing the buffer of an open file out makes them agree -/
def BInv (exec : φ → Step ν → φ) (get : φ → ν → β) (disk : φ) (B : ν → Option Data) (wt : φ) : Prop :=
  (∀ p, B p = none → get disk p = get wt p) ∧ (∀ p x, B p = some x → get (exec disk (.append p x)) p = get wt p)

section generic
variable {exec : φ → Step ν → φ} {get : φ → ν → β} (L : FsLaws exec get)
include L

omit [DecidableEq ν] L in
theorem binv_congr {disk wt : φ} {B B' : ν → Option Data} (h : ∀ q, B' q = B q) (hI : BInv exec get disk B wt) :
    BInv exec get disk B' wt :=
  ⟨fun p hp => hI.1 p (by rw [← h]; exact hp), fun p x hp => hI.2 p x (by rw [← h]; exact hp)⟩

/-- a step that mentions no open file -/
theorem binv_quiet {disk wt : φ} {B : ν → Option Data} (s : Step ν) (hs : ∀ q ∈ s.names, B q = none)
    (hI : BInv exec get disk B wt) : BInv exec get (exec disk s) B (exec wt s) := by
  refine ⟨fun p hp => ?_, fun p x hp => ?_⟩
  · by_cases hm : p ∈ s.names
    · exact L.cong disk wt s (fun q hq => hI.1 q (hs q hq)) p hm
    · rw [L.untouched _ _ _ hm, L.untouched _ _ _ hm]; exact hI.1 p hp
  · have hm : p ∉ s.names := fun hm => by rw [hs p hm] at hp; cases hp
    rw [L.untouched wt s p hm, ← hI.2 p x hp]
    exact L.cong (exec disk s) disk (.append p x) (fun q hq => by
      simp only [Step.names, List.mem_singleton] at hq; subst hq; exact L.untouched _ _ _ hm) p (by simp [Step.names])

/-- `create`: the file becomes open with an empty buffer -/
theorem binv_open {disk wt : φ} {B : ν → Option Data} (p : ν) (hI : BInv exec get disk B wt) (hp : B p = none) :
    BInv exec get disk (fun q => if q = p then some [] else B q) wt := by
  refine ⟨fun q hq => ?_, fun q x hq => ?_⟩
  · by_cases h : q = p
    · simp [h] at hq
    · simp only [h, ↓reduceIte] at hq; exact hI.1 q hq
  · by_cases h : q = p
    · subst h
      simp only [↓reduceIte, Option.some.injEq] at hq; subst hq
      rw [L.append_nil]; exact hI.1 q hp
    · simp only [h, ↓reduceIte] at hq; exact hI.2 q x hq

/-- `append` to an open file: only the buffer grows -/
theorem binv_write {disk wt : φ} {B : ν → Option Data} (p : ν) (x b : Data) (hI : BInv exec get disk B wt) (hp : B p = some x) :
    BInv exec get disk (fun q => if q = p then some (x ++ b) else B q) (exec wt (.append p b)) := by
  refine ⟨fun q hq => ?_, fun q y hq => ?_⟩
  · by_cases h : q = p
    · simp [h] at hq
    · simp only [h, ↓reduceIte] at hq
      rw [L.untouched wt _ q (by simpa [Step.names] using h)]; exact hI.1 q hq
  · by_cases h : q = p
    · subst h
      simp only [↓reduceIte, Option.some.injEq] at hq; subst hq
      rw [← L.append_append]
      exact L.cong _ _ (.append q b) (fun r hr => by
        simp only [Step.names, List.mem_singleton] at hr; subst hr; exact hI.2 r x hp) q (by simp [Step.names])
    · simp only [h, ↓reduceIte] at hq
      rw [L.untouched wt _ q (by simpa [Step.names] using h)]; exact hI.2 q y hq

/-- writing a buffer out -/
theorem binv_flush {disk wt : φ} {B : ν → Option Data} (p : ν) (x : Data) (hI : BInv exec get disk B wt) (hp : B p = some x) :
    BInv exec get (exec disk (.append p x)) (fun q => if q = p then none else B q) wt := by
  refine ⟨fun q hq => ?_, fun q y hq => ?_⟩
  · by_cases h : q = p
    · subst h; exact hI.2 q x hp
    · simp only [h, ↓reduceIte] at hq
      rw [L.untouched disk _ q (by simpa [Step.names] using h)]; exact hI.1 q hq
  · by_cases h : q = p
    · simp [h] at hq
    · simp only [h, ↓reduceIte] at hq
      rw [← hI.2 q y hq]
      exact L.cong _ _ (.append q y) (fun r hr => by
        simp only [Step.names, List.mem_singleton] at hr; subst hr
        exact L.untouched disk _ r (by simpa [Step.names] using h)) q (by simp [Step.names])

end generic

/-! ### the buffers and the open names -/

/-- the names with a buffer are the names `openStep` tracks -/
def Link (buf : List (ν × Data)) (o : List ν) : Prop := ∀ q, AL.get buf q = none ↔ q ∉ o

theorem link_step (exec : φ → Step ν → φ) (st : φ × List (ν × Data)) (o : List ν) (s : Step ν) (h : Link st.2 o) :
    Link (execBuf exec st s).2 (openStep o s) := by
  intro q
  cases s with
  | mkdir p => exact h q
  | create p =>
    simp only [execBuf, openStep, AL.get_set, List.mem_cons, List.mem_filter, bne_iff_ne, ne_eq]
    by_cases hq : q = p
    · simp [hq]
    · simp [hq, h q]
  | append p b =>
    simp only [execBuf, openStep]
    cases hp : AL.get st.2 p with
    | none => exact h q
    | some x =>
      simp only [AL.get_set]
      by_cases hq : q = p
      · subst hq; simp only [BEq.rfl, ↓reduceIte, reduceCtorEq, false_iff, Decidable.not_not]
        have := h q; rw [hp] at this; simpa using this
      · simp [hq, h q]
  | close p =>
    simp only [execBuf, openStep, List.mem_filter, bne_iff_ne, ne_eq]
    cases hp : AL.get st.2 p with
    | none =>
      have := (h p).1 hp
      by_cases hq : q = p
      · subst hq; simp [hp]
      · simp [hq, h q]
    | some x =>
      simp only [AL.get_erase]
      by_cases hq : q = p
      · simp [hq]
      · simp [hq, h q]
  | unlink p =>
    simp only [execBuf, openStep, List.mem_filter, bne_iff_ne, ne_eq, AL.get_erase]
    by_cases hq : q = p
    · simp [hq]
    · simp [hq, h q]
  | rename a b =>
    simp only [execBuf, openStep]
    cases ha : AL.get st.2 a with
    | none =>
      have hao : a ∉ o := (h a).1 ha
      simp only [List.contains_eq_mem, hao, decide_false, Bool.false_eq_true, ↓reduceIte, AL.get_erase, List.mem_filter,
        bne_iff_ne, ne_eq]
      by_cases hq : q = b
      · simp [hq]
      · simp [hq, h q]
    | some x =>
      have hao : a ∈ o := by
        have := h a; rw [ha] at this; simpa using this
      simp only [List.contains_eq_mem, hao, decide_true, ↓reduceIte, AL.get_set, AL.get_erase, List.mem_cons, List.mem_filter,
        bne_iff_ne, ne_eq]
      by_cases hq : q = b
      · simp [hq]
      · by_cases hqa : q = a
        · simp [hqa]
        · simp [hq, hqa, h q]

section generic
variable {exec : φ → Step ν → φ} {get : φ → ν → β} (L : FsLaws exec get)
include L

/-- one step of a disciplined protocol keeps the simulation -/
theorem binv_step (st : φ × List (ν × Data)) (wt : φ) (o : List ν) (s : Step ν) (hl : Link st.2 o)
    (hr : renamesOpen o s = false) (hd : disturbsOpen o s = false)
    (hI : BInv exec get st.1 (AL.get st.2) wt) :
    BInv exec get (execBuf exec st s).1 (AL.get (execBuf exec st s).2) (exec wt s) := by
  have hno : ∀ p, o.contains p = false → AL.get st.2 p = none := fun p hp => (hl p).2 (by simpa using hp)
  cases s with
  | mkdir p =>
    exact binv_quiet L _ (fun q hq => by
      simp only [Step.names, List.mem_singleton] at hq; subst hq; exact hno _ (by simpa [disturbsOpen] using hd)) hI
  | create p =>
    have hp : AL.get st.2 p = none := hno _ (by simpa [disturbsOpen] using hd)
    have h1 := binv_quiet L (.create p) (fun q hq => by
      simp only [Step.names, List.mem_singleton] at hq; subst hq; exact hp) hI
    refine binv_congr (fun q => ?_) (binv_open L p h1 hp)
    simp only [execBuf, AL.get_set, beq_iff_eq]
  | unlink p =>
    have hp : AL.get st.2 p = none := hno _ (by simpa [disturbsOpen] using hd)
    have h1 := binv_quiet L (.unlink p) (fun q hq => by
      simp only [Step.names, List.mem_singleton] at hq; subst hq; exact hp) hI
    refine binv_congr (fun q => ?_) h1
    simp only [execBuf, AL.get_erase, beq_iff_eq]
    split
    · rename_i h; subst h; exact hp.symm
    · rfl
  | append p b =>
    simp only [execBuf]
    cases hp : AL.get st.2 p with
    | none =>
      exact binv_quiet L _ (fun q hq => by
        simp only [Step.names, List.mem_singleton] at hq; subst hq; exact hp) hI
    | some x =>
      refine binv_congr (fun q => ?_) (binv_write L p x b hI hp)
      simp only [AL.get_set, beq_iff_eq]
  | close p =>
    simp only [execBuf]
    cases hp : AL.get st.2 p with
    | none =>
      exact binv_quiet L _ (fun q hq => by
        simp only [Step.names, List.mem_singleton] at hq; subst hq; exact hp) hI
    | some x =>
      have h1 := binv_flush L p x hI hp
      have h2 := binv_quiet L (.close p) (fun q hq => by
        simp only [Step.names, List.mem_singleton] at hq; subst hq; simp) h1
      refine binv_congr (fun q => ?_) h2
      simp only [AL.get_erase, beq_iff_eq]
  | rename a b =>
    have ha : AL.get st.2 a = none := hno _ (by simpa [renamesOpen] using hr)
    have hb : AL.get st.2 b = none := hno _ (by simpa [disturbsOpen] using hd)
    have h1 := binv_quiet L (.rename a b) (fun q hq => by
      simp only [Step.names, List.mem_cons, List.not_mem_nil, or_false] at hq
      rcases hq with rfl | rfl
      · exact ha
      · exact hb) hI
    refine binv_congr (fun q => ?_) h1
    simp only [execBuf, ha, AL.get_erase, beq_iff_eq]
    split
    · rename_i h; subst h; exact hb.symm
    · rfl

theorem binv_foldl (l : List (Step ν)) : ∀ (st : φ × List (ν × Data)) (wt : φ) (o : List ν), Link st.2 o →
    checkFrom renamesOpen o l = true → checkFrom disturbsOpen o l = true → BInv exec get st.1 (AL.get st.2) wt →
    BInv exec get (l.foldl (execBuf exec) st).1 (AL.get (l.foldl (execBuf exec) st).2) (l.foldl exec wt) ∧
      Link (l.foldl (execBuf exec) st).2 (l.foldl openStep o) := by
  induction l with
  | nil => intro st wt o hl _ _ hI; exact ⟨hI, hl⟩
  | cons s rest ih =>
    intro st wt o hl hr hd hI
    simp only [checkFrom, Bool.and_eq_true, Bool.not_eq_true'] at hr hd
    simp only [List.foldl_cons]
    exact ih _ _ _ (link_step exec st o s hl) hr.2 hd.2 (binv_step L st wt o s hl hr.1 hd.1 hI)

/-- what the kill writes out goes to open files only -/
theorem get_flushSome (keep : ν → Nat) (st : φ × List (ν × Data)) (p : ν) (hp : AL.get st.2 p = none) :
    get (flushSome exec keep st) p = get st.1 p := by
  have hall : ∀ e ∈ st.2, e.1 ≠ p := by
    intro e he heq
    simp only [AL.get, Option.map_eq_none_iff, List.find?_eq_none] at hp
    exact hp e he (by simp [heq])
  unfold flushSome
  generalize st.1 = fs
  generalize st.2 = l at hall
  induction l generalizing fs with
  | nil => rfl
  | cons e rest ih =>
    rw [List.foldl_cons, ih _ (fun e' he' => hall e' (List.mem_cons_of_mem _ he'))]
    exact L.untouched _ _ _ (by simpa [Step.names] using fun h => hall e (List.mem_cons_self ..) h.symm)

/-- a write-through crash that cuts the next write to nothing shows what the completed steps left -/
theorem get_crashAt_zero (n : Nat) (steps : List (Step ν)) (fs : φ) (p : ν) :
    get (crashAt exec n 0 steps fs) p = get ((steps.take n).foldl exec fs) p := by
  unfold crashAt
  split
  · rename_i q b _ _
    simp only [List.take_zero]
    by_cases h : p = q
    · subst h; exact L.append_nil _ _
    · exact L.untouched _ _ _ (by simpa [Step.names] using h)
  · rfl

end generic

theorem checkFrom_take (bad : List ν → Step ν → Bool) (l : List (Step ν)) (n : Nat) : ∀ o, checkFrom bad o l = true →
    checkFrom bad o (l.take n) = true := by
  induction l generalizing n with
  | nil => intro o h; simpa using h
  | cons s rest ih =>
    intro o h
    cases n with
    | zero => rfl
    | succ n =>
      simp only [checkFrom, Bool.and_eq_true, List.take_succ_cons] at h ⊢
      exact ⟨h.1, ih n _ h.2⟩

/-- **buffered writes read as write-through writes**: for a protocol that closes before it renames and does not
disturb open files, whatever suffixes of the unclosed files the kill after `n` steps loses, every name that is not
open at that point holds what the write-through crash at the same point leaves there -/
theorem buffered_reads_as_writethrough {exec : φ → Step ν → φ} {get : φ → ν → β} (L : FsLaws exec get)
    (steps : List (Step ν)) (hc : closedBeforeRename steps = true) (hu : openUndisturbed steps = true)
    (n : Nat) (keep : ν → Nat) (fs : φ) (p : ν) (hp : p ∉ openAt steps n) :
    get (crashBuf exec n keep steps fs) p = get (crashAt exec n 0 steps fs) p := by
  have h := binv_foldl L (steps.take n) (fs, []) fs [] (fun q => by simp [AL.get])
    (checkFrom_take _ _ n _ hc) (checkFrom_take _ _ n _ hu) ⟨fun _ _ => rfl, fun p x hx => by simp [AL.get] at hx⟩
  have hb : AL.get ((steps.take n).foldl (execBuf exec) (fs, [])).2 p = none := (h.2 p).2 hp
  rw [get_crashAt_zero L, crashBuf, get_flushSome L keep _ p hb]
  exact h.1.1 p hb

/-! ### which names can be open -/

theorem mem_foldl_openStep (l : List (Step ν)) : ∀ (o : List ν), checkFrom renamesOpen o l = true → ∀ p, p ∈ l.foldl openStep o →
    p ∈ o ∨ Step.create p ∈ l := by
  induction l with
  | nil => intro o _ p hp; exact Or.inl hp
  | cons s rest ih =>
    intro o hc p hp
    simp only [checkFrom, Bool.and_eq_true, Bool.not_eq_true'] at hc
    rcases ih _ hc.2 p hp with h | h
    · cases s with
      | mkdir q => exact Or.inl h
      | append q b => exact Or.inl h
      | create q =>
        simp only [openStep, List.mem_cons, List.mem_filter] at h
        rcases h with rfl | h
        · exact Or.inr (List.mem_cons_self ..)
        · exact Or.inl h.1
      | close q => simp only [openStep, List.mem_filter] at h; exact Or.inl h.1
      | unlink q => simp only [openStep, List.mem_filter] at h; exact Or.inl h.1
      | rename a b =>
        have ha : o.contains a = false := by simpa [renamesOpen] using hc.1
        simp only [openStep, ha, Bool.false_eq_true, ↓reduceIte, List.mem_filter] at h
        exact Or.inl h.1
    · exact Or.inr (List.mem_cons_of_mem _ h)

/-- only files the protocol `create`s are ever open -/
theorem openAt_creates (steps : List (Step ν)) (hc : closedBeforeRename steps = true) (n : Nat) (p : ν)
    (hp : p ∈ openAt steps n) : Step.create p ∈ steps := by
  rcases mem_foldl_openStep (steps.take n) [] (checkFrom_take _ _ n _ hc) p hp with h | h
  · cases h
  · exact List.mem_of_mem_take h

/-! ### tidy protocols: built from quiet steps and writes through a temporary file -/

theorem checkFrom_append (bad : List ν → Step ν → Bool) (l1 l2 : List (Step ν)) : ∀ o,
    checkFrom bad o (l1 ++ l2) = (checkFrom bad o l1 && checkFrom bad (l1.foldl openStep o) l2) := by
  induction l1 with
  | nil => intro o; simp [checkFrom]
  | cons s rest ih => intro o; simp [checkFrom, ih, Bool.and_assoc]

/-- the protocol satisfies both checks, leaves nothing open, and creates only files in `T` (the temporaries) -/
structure Tidy (T : ν → Prop) (l : List (Step ν)) : Prop where
  cbr : closedBeforeRename l = true
  und : openUndisturbed l = true
  closed : l.foldl openStep [] = []
  creates : ∀ p, Step.create p ∈ l → T p

theorem Tidy.append {T : ν → Prop} {l1 l2 : List (Step ν)} (h1 : Tidy T l1) (h2 : Tidy T l2) : Tidy T (l1 ++ l2) where
  cbr := by
    have := h1.cbr; have := h2.cbr
    simp_all [closedBeforeRename, checkFrom_append, h1.closed]
  und := by
    have := h1.und; have := h2.und
    simp_all [openUndisturbed, checkFrom_append, h1.closed]
  closed := by rw [List.foldl_append, h1.closed, h2.closed]
  creates := fun p hp => by
    rcases List.mem_append.1 hp with h | h
    · exact h1.creates p h
    · exact h2.creates p h

def Step.isQuiet : Step ν → Bool
  | .mkdir _ => true
  | .unlink _ => true
  | _ => false

/-- `mkdir`s and `unlink`s while nothing is open -/
theorem Tidy.of_quiet {T : ν → Prop} (l : List (Step ν)) (h : ∀ s ∈ l, s.isQuiet = true) : Tidy T l := by
  induction l with
  | nil => exact ⟨rfl, rfl, rfl, fun p hp => by cases hp⟩
  | cons s rest ih =>
    have hr := ih (fun s' hs' => h s' (List.mem_cons_of_mem _ hs'))
    have hs := h s (List.mem_cons_self ..)
    have := hr.cbr; have := hr.und; have := hr.closed
    cases s <;> simp [Step.isQuiet] at hs
    · refine ⟨?_, ?_, ?_, ?_⟩
      · simp_all [closedBeforeRename, checkFrom, renamesOpen, openStep]
      · simp_all [openUndisturbed, checkFrom, disturbsOpen, openStep]
      · simp_all [openStep]
      · intro p hp
        simp only [List.mem_cons, reduceCtorEq, false_or] at hp
        exact hr.creates p hp
    · refine ⟨?_, ?_, ?_, ?_⟩
      · simp_all [closedBeforeRename, checkFrom, renamesOpen, openStep]
      · simp_all [openUndisturbed, checkFrom, disturbsOpen, openStep]
      · simp_all [openStep]
      · intro p hp
        simp only [List.mem_cons, reduceCtorEq, false_or] at hp
        exact hr.creates p hp

/-- write the temporary file, close it, then rename it -/
theorem Tidy.writeFile {T : ν → Prop} (tmp target : ν) (b : Data) (ht : T tmp) :
    Tidy T [.create tmp, .append tmp b, .close tmp, .rename tmp target] where
  cbr := by simp [closedBeforeRename, checkFrom, renamesOpen, openStep]
  und := by simp [openUndisturbed, checkFrom, disturbsOpen, openStep]
  closed := by simp [openStep]
  creates := fun p hp => by
    simp only [List.mem_cons, Step.create.injEq, reduceCtorEq, List.not_mem_nil, or_false] at hp
    subst hp; exact ht

/-! ### flat cache directory -/

theorem lawsC : FsLaws execC (fun (d : CDir) (p : FName) => AL.get d p) where
  untouched := fun fs s p h => get_execC_untouched fs s p h
  cong := by
    intro d1 d2 s h q hq
    cases s with
    | mkdir p => exact h q hq
    | close p => exact h q hq
    | create p => simp only [Step.names, List.mem_singleton] at hq; subst hq; simp [execC, AL.get_set]
    | unlink p => simp only [Step.names, List.mem_singleton] at hq; subst hq; simp [execC, AL.get_erase]
    | append p b =>
      simp only [Step.names, List.mem_singleton] at hq; subst hq
      have := h q (by simp [Step.names])
      simp only [execC, this]
      cases h2 : AL.get d2 q with
      | none => simpa [h2] using this
      | some x => simp [AL.get_set]
    | rename a b =>
      have ha := h a (by simp [Step.names])
      have hb := h b (by simp [Step.names])
      simp only [execC, ha]
      cases h2 : AL.get d2 a with
      | none =>
        simp only [Step.names, List.mem_cons, List.not_mem_nil, or_false] at hq
        rcases hq with rfl | rfl
        · exact ha
        · exact hb
      | some x =>
        simp only [AL.get_set, AL.get_erase]
        simp only [Step.names, List.mem_cons, List.not_mem_nil, or_false] at hq
        rcases hq with rfl | rfl
        · split <;> simp
        · simp
  append_nil := by
    intro d p
    simp only [execC]
    cases h : AL.get d p with
    | none => exact h
    | some x => simp [AL.get_set]
  append_append := by
    intro d p x y
    simp only [execC]
    cases h : AL.get d p with
    | none => simp [h]
    | some z => simp [AL.get_set, List.append_assoc]

/-- the temporaries of the flat cache directory -/
def isTmpC : FName → Prop
  | .tmp _ => True
  | _ => False

theorem tidy_writeFileC (target : FName) (b : Data) : Tidy isTmpC (writeFileC target b) :=
  Tidy.writeFile tmpC target b trivial

theorem tidy_removeStepsC (c : FileCfg) (d : CDir) (k : Str) : Tidy isTmpC (removeStepsC c d k) := by
  apply Tidy.of_quiet
  intro s hs
  simp only [removeStepsC, List.mem_append, List.mem_map] at hs
  rcases hs with hs | ⟨e, _, rfl⟩
  · split at hs
    · simp only [List.mem_cons, List.not_mem_nil, or_false] at hs; subst hs; rfl
    · simp at hs
  · rfl

theorem tidy_storeMetaStepsC (c : FileCfg) (m : CMeta) : Tidy isTmpC (storeMetaStepsC c m) := tidy_writeFileC _ _

theorem tidy_storeStepsC (c : FileCfg) (d : CDir) (st : CState) : Tidy isTmpC (storeStepsC c d st) :=
  ((tidy_removeStepsC c d _).append (tidy_writeFileC _ _)).append (tidy_storeMetaStepsC c _)

/-- a file that is not a temporary holds after the buffered crash what it holds after the write-through crash -/
theorem getC_buffered (steps : List (Step FName)) (ht : Tidy isTmpC steps) (n : Nat) (keep : FName → Nat) (d : CDir)
    (nm : FName) (hnm : ¬ isTmpC nm) :
    AL.get (crashBuf execC n keep steps d) nm = AL.get (crashAt execC n 0 steps d) nm :=
  buffered_reads_as_writethrough lawsC steps ht.cbr ht.und n keep d nm
    (fun h => hnm (ht.creates nm (openAt_creates steps ht.cbr n nm h)))

/-- **flat cache directory**: a fresh `FileCache` reads every key after the buffered crash as after the write-through crash -/
theorem readC_buffered (c : FileCfg) (steps : List (Step FName)) (ht : Tidy isTmpC steps) (n : Nat) (keep : FName → Nat)
    (d : CDir) (k : Str) :
    readC c (crashBuf execC n keep steps d) k = readC c (crashAt execC n 0 steps d) k :=
  readC_congr c _ _ k (getC_buffered steps ht n keep d _ (fun h => h)) (fun _ => getC_buffered steps ht n keep d _ (fun h => h))

/-! ### directory store -/

theorem lawsT : FsLaws execT (fun (t : Tree) (p : SName) => AL.get t p) where
  untouched := fun fs s p h => get_execT_untouched fs s p h
  cong := by
    intro d1 d2 s h q hq
    cases s with
    | close p => exact h q hq
    | mkdir p =>
      simp only [Step.names, List.mem_singleton] at hq; subst hq
      have := h q (by simp [Step.names])
      simp only [execT, this]
      cases h2 : AL.get d2 q with
      | none => simp [AL.get_set]
      | some x => simpa [h2] using this
    | create p => simp only [Step.names, List.mem_singleton] at hq; subst hq; simp [execT, AL.get_set]
    | unlink p => simp only [Step.names, List.mem_singleton] at hq; subst hq; simp [execT, AL.get_erase]
    | append p b =>
      simp only [Step.names, List.mem_singleton] at hq; subst hq
      have := h q (by simp [Step.names])
      simp only [execT, this]
      cases h2 : AL.get d2 q with
      | none => simpa [h2] using this
      | some x =>
        cases x with
        | dir => simpa [h2] using this
        | file y => simp [AL.get_set]
    | rename a b =>
      have ha := h a (by simp [Step.names])
      have hb := h b (by simp [Step.names])
      simp only [execT, ha]
      cases h2 : AL.get d2 a with
      | none =>
        simp only [Step.names, List.mem_cons, List.not_mem_nil, or_false] at hq
        rcases hq with rfl | rfl
        · exact ha
        · exact hb
      | some x =>
        simp only [AL.get_set, AL.get_erase]
        simp only [Step.names, List.mem_cons, List.not_mem_nil, or_false] at hq
        rcases hq with rfl | rfl
        · split <;> simp
        · simp
  append_nil := by
    intro d p
    simp only [execT]
    cases h : AL.get d p with
    | none => exact h
    | some x => cases x <;> simp [AL.get_set, h]
  append_append := by
    intro d p x y
    simp only [execT]
    cases h : AL.get d p with
    | none => simp [h]
    | some z => cases z <;> simp [AL.get_set, List.append_assoc, h]

/-- the temporaries of the directory store -/
def isTmpT : SName → Prop
  | .tmp _ => True
  | _ => False

theorem tidy_writeFileT (dk : Key) (target : SName) (b : Data) : Tidy isTmpT (writeFileT dk target b) :=
  Tidy.writeFile (.tmp dk) target b trivial

theorem tidy_mkdirsT (t : Tree) (ns : List SName) : Tidy isTmpT (mkdirsT t ns) :=
  Tidy.of_quiet _ (fun s hs => by obtain ⟨n, _, rfl⟩ := mkdirsT_mem t ns s hs; rfl)

theorem tidy_unlinkIfPresent (t : Tree) (n : SName) : Tidy isTmpT (unlinkIfPresent t n) :=
  Tidy.of_quiet _ (fun s hs => by
    simp only [unlinkIfPresent] at hs
    split at hs
    · simp only [List.mem_cons, List.not_mem_nil, or_false] at hs; subst hs; rfl
    · simp at hs)

theorem tidy_storeStepsT (t : Tree) (k : Key) (b mb : Data) : Tidy isTmpT (storeStepsT t k b mb) :=
  ((((tidy_mkdirsT t _).append (tidy_unlinkIfPresent t _)).append (tidy_mkdirsT t _)).append (tidy_writeFileT _ _ _)).append
    (tidy_writeFileT _ _ _)

theorem tidy_storeMetaStepsT (t : Tree) (k : Key) (mb : Data) : Tidy isTmpT (storeMetaStepsT t k mb) :=
  (tidy_mkdirsT t _).append (tidy_writeFileT _ _ _)

theorem tidy_removeStepsT (t : Tree) (k : Key) : Tidy isTmpT (removeStepsT t k) :=
  (tidy_unlinkIfPresent t _).append (tidy_unlinkIfPresent t _)

theorem getT_buffered (steps : List (Step SName)) (ht : Tidy isTmpT steps) (n : Nat) (keep : SName → Nat) (t : Tree)
    (nm : SName) (hnm : ¬ isTmpT nm) :
    AL.get (crashBuf execT n keep steps t) nm = AL.get (crashAt execT n 0 steps t) nm :=
  buffered_reads_as_writethrough lawsT steps ht.cbr ht.und n keep t nm
    (fun h => hnm (ht.creates nm (openAt_creates steps ht.cbr n nm h)))

/-- **directory store**: the two files of every key after the buffered crash are those after the write-through crash -/
theorem pairT_buffered (steps : List (Step SName)) (ht : Tidy isTmpT steps) (n : Nat) (keep : SName → Nat) (t : Tree) (k : Key) :
    pairT (crashBuf execT n keep steps t) k = pairT (crashAt execT n 0 steps t) k := by
  simp only [pairT]
  rw [getT_buffered steps ht n keep t (.node k) (fun h => h), getT_buffered steps ht n keep t (.mfile k) (fun h => h)]

theorem readBytesT_buffered (steps : List (Step SName)) (ht : Tidy isTmpT steps) (n : Nat) (keep : SName → Nat) (t : Tree) (k : Key) :
    readBytesT (crashBuf execT n keep steps t) k = readBytesT (crashAt execT n 0 steps t) k := by
  rw [readBytesT_eq, readBytesT_eq, pairT_buffered steps ht]

theorem readMetaT_buffered (steps : List (Step SName)) (ht : Tidy isTmpT steps) (n : Nat) (keep : SName → Nat) (t : Tree) (k : Key) :
    readMetaT (crashBuf execT n keep steps t) k = readMetaT (crashAt execT n 0 steps t) k := by
  rw [readMetaT_eq, readMetaT_eq, pairT_buffered steps ht]

theorem readSC_buffered (deM : Data → Option CMeta) (deD : Str → Data → Option (Option Str))
    (steps : List (Step SName)) (ht : Tidy isTmpT steps) (n : Nat) (keep : SName → Nat) (t : Tree) (k : Key) :
    readSC deM deD (crashBuf execT n keep steps t) k = readSC deM deD (crashAt execT n 0 steps t) k := by
  rw [readSC_eq, readSC_eq, pairT_buffered steps ht]

end Crash
end Liquer
