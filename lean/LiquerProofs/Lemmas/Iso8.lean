/-
C10 helpers, part 8: variable dictionaries as association lists (`setVar`/`getVar` on the heap side and `setVarV`/`getVarV`
on the value side are the same functions), and how the abstraction commutes with them.
-/
import LiquerProofs.Lemmas.Iso7

namespace Liquer.Iso

/-! ### generic association-list update -/

def setKV {α : Type} (vars : List (Str × α)) (k : Str) (v : α) : List (Str × α) :=
  if vars.any (fun e => e.1 == k) then vars.map (fun e => if e.1 == k then (k, v) else e) else vars ++ [(k, v)]

def getKV {α : Type} (vars : List (Str × α)) (k : Str) : Option α := (vars.find? (fun e => e.1 == k)).map (·.2)

theorem setVar_eq (vars : List (Str × HV)) (k : Str) (v : HV) : setVar vars k v = setKV vars k v := rfl
theorem setVarV_eq (vars : List (Str × Val)) (k : Str) (v : Val) : setVarV vars k v = setKV vars k v := rfl
theorem getVar_eq (vars : List (Str × HV)) (k : Str) : getVar vars k = getKV vars k := rfl
theorem getVarV_eq (vars : List (Str × Val)) (k : Str) : getVarV vars k = getKV vars k := rfl

section kv
variable {α β : Type}

def mapKV (f : α → β) (vars : List (Str × α)) : List (Str × β) := vars.map (fun kv => (kv.1, f kv.2))

theorem mapKV_keys (f : α → β) (vars : List (Str × α)) : (mapKV f vars).map Prod.fst = vars.map Prod.fst := by
  simp [mapKV, Function.comp_def]

theorem any_key_iff (vars : List (Str × α)) (k : Str) : (vars.any (fun e => e.1 == k)) = true ↔ k ∈ vars.map Prod.fst := by
  simp only [List.any_eq_true, beq_iff_eq, List.mem_map]

theorem setKV_absent {vars : List (Str × α)} {k : Str} (h : k ∉ vars.map Prod.fst) (v : α) :
    setKV vars k v = vars ++ [(k, v)] := by
  have : ¬ (vars.any (fun e => e.1 == k)) = true := fun e => h ((any_key_iff vars k).1 e)
  simp [setKV, this]

theorem map_upd_absent {vars : List (Str × α)} {k : Str} (h : k ∉ vars.map Prod.fst) (v : α) :
    vars.map (fun e => if e.1 == k then (k, v) else e) = vars := by
  induction vars with
  | nil => rfl
  | cons e rest ih =>
    simp only [List.map_cons, List.mem_cons, not_or] at h
    have : ¬ e.1 = k := fun x => h.1 x.symm
    rw [List.map_cons, ih h.2]
    simp [this]

theorem setKV_present {l₁ l₂ : List (Str × α)} {k : Str} {v₀ : α} (h₁ : k ∉ l₁.map Prod.fst) (h₂ : k ∉ l₂.map Prod.fst)
    (v : α) : setKV (l₁ ++ (k, v₀) :: l₂) k v = l₁ ++ (k, v) :: l₂ := by
  have : ((l₁ ++ (k, v₀) :: l₂).any (fun e => e.1 == k)) = true := by simp
  simp only [setKV, this, ↓reduceIte, List.map_append, List.map_cons, beq_self_eq_true]
  rw [map_upd_absent h₁, map_upd_absent h₂]

theorem getKV_split {vars : List (Str × α)} {k : Str} {v₀ : α} (h : getKV vars k = some v₀) :
    ∃ l₁ l₂, vars = l₁ ++ (k, v₀) :: l₂ ∧ k ∉ l₁.map Prod.fst := by
  induction vars with
  | nil => simp [getKV] at h
  | cons e rest ih =>
    by_cases he : e.1 = k
    · refine ⟨[], rest, ?_, by simp⟩
      simp only [getKV, List.find?_cons, he, beq_self_eq_true, Option.map_some, Option.some.injEq] at h
      obtain ⟨k', v'⟩ := e
      simp only at he h
      simp [he, h]
    · have hr : getKV rest k = some v₀ := by
        simpa [getKV, List.find?_cons, he] using h
      obtain ⟨l₁, l₂, rfl, hk⟩ := ih hr
      refine ⟨e :: l₁, l₂, rfl, ?_⟩
      simp only [List.map_cons, List.mem_cons, not_or]
      exact ⟨fun x => he x.symm, hk⟩

theorem getKV_none {vars : List (Str × α)} {k : Str} (h : getKV vars k = none) : k ∉ vars.map Prod.fst := by
  intro hk
  rw [← any_key_iff] at hk
  simp only [List.any_eq_true] at hk
  obtain ⟨e, he, hek⟩ := hk
  simp only [getKV, Option.map_eq_none_iff, List.find?_eq_none] at h
  exact h e he hek

theorem getKV_mid {l₁ l₂ : List (Str × α)} {k : Str} {v₀ : α} (h₁ : k ∉ l₁.map Prod.fst) :
    getKV (l₁ ++ (k, v₀) :: l₂) k = some v₀ := by
  induction l₁ with
  | nil => simp [getKV]
  | cons e rest ih =>
    simp only [List.map_cons, List.mem_cons, not_or] at h₁
    have : ¬ e.1 = k := fun x => h₁.1 x.symm
    simpa [getKV, List.find?_cons, this] using ih h₁.2

theorem getKV_map (f : α → β) (vars : List (Str × α)) (k : Str) : getKV (mapKV f vars) k = (getKV vars k).map f := by
  induction vars with
  | nil => rfl
  | cons e rest ih =>
    by_cases he : e.1 = k
    · simp [getKV, mapKV, he]
    · simpa [getKV, mapKV, he] using ih

theorem setKV_map (f : α → β) (vars : List (Str × α)) (k : Str) (v : α) :
    mapKV f (setKV vars k v) = setKV (mapKV f vars) k (f v) := by
  by_cases hk : k ∈ vars.map Prod.fst
  · have h1 : (vars.any (fun e => e.1 == k)) = true := (any_key_iff vars k).2 hk
    have h2 : ((mapKV f vars).any (fun e => e.1 == k)) = true := (any_key_iff _ k).2 (by rw [mapKV_keys]; exact hk)
    simp only [setKV, h1, h2, ↓reduceIte]
    simp only [mapKV, List.map_map]
    apply List.map_congr_left
    intro e _
    by_cases he : e.1 = k <;> simp [he]
  · rw [setKV_absent hk, setKV_absent (by rw [mapKV_keys]; exact hk)]
    simp [mapKV]

theorem setKV_keys_nodup {vars : List (Str × α)} (nd : (vars.map Prod.fst).Nodup) (k : Str) (v : α) :
    ((setKV vars k v).map Prod.fst).Nodup := by
  by_cases hk : k ∈ vars.map Prod.fst
  · have h1 : (vars.any (fun e => e.1 == k)) = true := (any_key_iff vars k).2 hk
    simp only [setKV, h1, ↓reduceIte, List.map_map]
    have : (Prod.fst ∘ fun e : Str × α => if (e.1 == k) = true then (k, v) else e) = Prod.fst := by
      funext e
      by_cases he : e.1 = k <;> simp [he]
    rw [this]; exact nd
  · rw [setKV_absent hk]
    simp only [List.map_append, List.map_cons, List.map_nil]
    rw [List.nodup_append]
    exact ⟨nd, by simp, fun a ha b hb => by simp at hb; subst hb; exact fun e => hk (e ▸ ha)⟩

/-- with distinct keys, a present key splits the list uniquely -/
theorem getKV_split_nodup {vars : List (Str × α)} {k : Str} {v₀ : α} (nd : (vars.map Prod.fst).Nodup)
    (h : getKV vars k = some v₀) :
    ∃ l₁ l₂, vars = l₁ ++ (k, v₀) :: l₂ ∧ k ∉ l₁.map Prod.fst ∧ k ∉ l₂.map Prod.fst := by
  obtain ⟨l₁, l₂, rfl, h₁⟩ := getKV_split h
  refine ⟨l₁, l₂, rfl, h₁, ?_⟩
  simp only [List.map_append, List.map_cons, List.nodup_append, List.nodup_cons] at nd
  exact nd.2.1.1

end kv

/-! ### the abstraction of a variable dictionary -/

theorem absVars_eq (h : Heap) (vs : List (Str × HV)) : absVars h vs = mapKV (absHV h) vs := rfl

theorem getVarV_abs (h : Heap) (vs : List (Str × HV)) (k : Str) :
    getVarV (absVars h vs) k = (getVar vs k).map (absHV h) := by
  rw [getVarV_eq, getVar_eq, absVars_eq, getKV_map]

theorem setVarV_abs (h : Heap) (vs : List (Str × HV)) (k : Str) (v : HV) :
    absVars h (setVar vs k v) = setVarV (absVars h vs) k (absHV h v) := by
  rw [setVarV_eq, setVar_eq, absVars_eq, absVars_eq, setKV_map]

theorem absVars_keys (h : Heap) (vs : List (Str × HV)) : (absVars h vs).map Prod.fst = vs.map Prod.fst := by
  rw [absVars_eq, mapKV_keys]

theorem absHV_write_notin {h : Heap} {a : Addr} {v : HV} (n : a ∉ cellsHV v) (c : Cell) :
    absHV (h.write a c) v = absHV h v :=
  absHV_congr (fun x hx => by have : x ≠ a := fun e => n (e ▸ hx)
                              simp [this])

theorem absVars_write_notin {h : Heap} {a : Addr} {vs : List (Str × HV)} (n : a ∉ cellsVars vs) (c : Cell) :
    absVars (h.write a c) vs = absVars h vs :=
  absVars_congr (fun x hx => by have : x ≠ a := fun e => n (e ▸ hx)
                                simp [this])

/-- in-place update of the object of variable `k` is assignment of the new value to `k` -/
theorem absVars_write_var {h : Heap} {vs : List (Str × HV)} {k : Str} {a : Addr} (x : Val)
    (kn : (vs.map Prod.fst).Nodup) (cn : (cellsVars vs).Nodup) (hg : getVar vs k = some (.ref a)) :
    absVars (h.write a (.val x)) vs = setVarV (absVars h vs) k x := by
  rw [getVar_eq] at hg
  obtain ⟨l₁, l₂, rfl, h₁, h₂⟩ := getKV_split_nodup kn hg
  rw [cellsVars_append, cellsVars_cons, List.nodup_append] at cn
  obtain ⟨-, cn2, cn3⟩ := cn
  have n1 : a ∉ cellsVars l₁ := fun hx => cn3 a hx a (by simp [cellsHV]) rfl
  have n2 : a ∉ cellsVars l₂ := by
    simp only [cellsHV, List.singleton_append, List.nodup_cons] at cn2
    exact cn2.1
  rw [setVarV_eq, absVars_append, absVars_cons, absVars_append, absVars_cons,
    setKV_present (by rw [absVars_keys]; exact h₁) (by rw [absVars_keys]; exact h₂),
    absVars_write_notin n1, absVars_write_notin n2]
  simp [absHV]

/-- cells of an updated dictionary with distinct keys: nothing is duplicated -/
theorem cellsVars_setVar_nodup {vs : List (Str × HV)} {k : Str} {v : HV} (kn : (vs.map Prod.fst).Nodup)
    (cn : (cellsVars vs).Nodup) (dv : ∀ a ∈ cellsHV v, a ∉ cellsVars vs) : (cellsVars (setVar vs k v)).Nodup := by
  have vn : (cellsHV v).Nodup := by cases v <;> simp [cellsHV]
  rw [setVar_eq]
  cases hg : getKV vs k with
  | none =>
    rw [setKV_absent (getKV_none hg), cellsVars_append, List.nodup_append]
    refine ⟨cn, by simpa [cellsVars] using vn, fun a ha b hb e => ?_⟩
    simp only [cellsVars, List.flatMap_cons, List.flatMap_nil, List.append_nil] at hb
    exact dv b hb (e ▸ ha)
  | some v₀ =>
    obtain ⟨l₁, l₂, rfl, h₁, h₂⟩ := getKV_split_nodup kn hg
    rw [setKV_present h₁ h₂]
    rw [cellsVars_append, cellsVars_cons, List.nodup_append, List.nodup_append] at cn ⊢
    obtain ⟨c1, ⟨-, c2, -⟩, c3⟩ := cn
    simp only [cellsVars_append, cellsVars_cons, List.mem_append] at dv
    refine ⟨c1, ⟨vn, c2, fun a ha b hb e => dv a ha (Or.inr (Or.inr (e ▸ hb)))⟩, fun a ha b hb e => ?_⟩
    rcases List.mem_append.1 hb with hb | hb
    · exact dv b hb (Or.inl (e ▸ ha))
    · exact c3 a ha b (List.mem_append.2 (Or.inr hb)) e

end Liquer.Iso
