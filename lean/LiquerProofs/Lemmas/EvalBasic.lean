/-
Frame lemmas for `World` (the global cache with its call log), `core`/`sim` algebra, and the
preservation of `Sound` by the cache operations.
-/
import LiquerProofs.Lemmas.EvalDefs

namespace Liquer

/-! ### `core` and `sim` -/

theorem EState.core_eq_withStatus {a b : EState} (h : a.core = b.core) : a = { b with status := a.status } := by
  cases a; cases b; simp [EState.core] at h ⊢; simp [h]

@[simp] theorem EState.core_core (a : EState) : a.core.core = a.core := rfl
@[simp] theorem EState.core_setStatus (a : EState) (x : Str) : ({ a with status := x } : EState).core = a.core := rfl

theorem EState.core_isError {a b : EState} (h : a.core = b.core) : a.isError = b.isError := by
  have := congrArg EState.isError h; simpa [EState.core] using this
theorem EState.core_volatile {a b : EState} (h : a.core = b.core) : a.volatile = b.volatile := by
  have := congrArg EState.volatile h; simpa [EState.core] using this
theorem EState.core_caching {a b : EState} (h : a.core = b.core) : a.caching = b.caching := by
  have := congrArg EState.caching h; simpa [EState.core] using this
theorem EState.core_data {a b : EState} (h : a.core = b.core) : a.data = b.data := by
  have := congrArg EState.data h; simpa [EState.core] using this
theorem EState.core_query {a b : EState} (h : a.core = b.core) : a.query = b.query := by
  have := congrArg EState.query h; simpa [EState.core] using this
theorem EState.core_errPos {a b : EState} (h : a.core = b.core) : a.errPos = b.errPos := by
  have := congrArg EState.errPos h; simpa [EState.core] using this
theorem EState.core_errQuery {a b : EState} (h : a.core = b.core) : a.errQuery = b.errQuery := by
  have := congrArg EState.errQuery h; simpa [EState.core] using this

@[simp] theorem Outcome.sim_st_st (a b : EState) : Outcome.sim (.st a) (.st b) ↔ a.core = b.core := Iff.rfl
@[simp] theorem Outcome.sim_raised (a b o) : Outcome.sim (.raised a b) o ↔ o = .raised a b := Iff.rfl
@[simp] theorem Outcome.sim_parseError (o) : Outcome.sim .parseError o ↔ o = .parseError := Iff.rfl
@[simp] theorem Outcome.sim_unmodelled (o) : Outcome.sim .unmodelled o ↔ o = .unmodelled := Iff.rfl

theorem Outcome.sim_refl (o : Outcome) : Outcome.sim o o := by cases o <;> simp

theorem Outcome.sim_of_eq {a b : Outcome} (h : a = b) : Outcome.sim a b := h ▸ Outcome.sim_refl a

theorem Outcome.sim_st_left {a : EState} {o : Outcome} (h : Outcome.sim (.st a) o) :
    ∃ b, o = .st b ∧ a.core = b.core := by
  cases o <;> simp [Outcome.sim] at h ⊢; exact h

theorem Outcome.sim_symm {a b : Outcome} (h : Outcome.sim a b) : Outcome.sim b a := by
  cases a <;> cases b <;> simp_all [Outcome.sim]

theorem Outcome.sim_trans {a b c : Outcome} (h1 : Outcome.sim a b) (h2 : Outcome.sim b c) : Outcome.sim a c := by
  cases a <;> cases b <;> cases c <;> simp_all [Outcome.sim]

theorem Outcome.sim_ne_unmodelled {a b : Outcome} (h : Outcome.sim a b) (ha : a ≠ .unmodelled) : b ≠ .unmodelled := by
  cases a <;> cases b <;> simp_all [Outcome.sim]

/-- similar outcomes have the same observation -/
theorem Outcome.sim_obs {a b : Outcome} (h : Outcome.sim a b) : a.obs = b.obs := by
  cases a with
  | st x =>
    obtain ⟨y, rfl, hc⟩ := Outcome.sim_st_left h
    have := EState.core_eq_withStatus hc
    rw [this]; rfl
  | raised p q => simp at h; subst h; rfl
  | parseError => simp at h; subst h; rfl
  | unmodelled => simp at h; subst h; rfl

/-! ### entries -/

theorem strBne (a b : Str) : (a != b) = !(a == b) := rfl

theorem World.put_disabled {w : World} (h : w.enabled = false) (k : Str) (e : Entry) : w.put k e = w := by
  simp [World.put, h]

theorem World.entry_put (w : World) (h : w.enabled = true) (k k' : Str) (e : Entry) :
    (w.put k e).entry k' = if k' = k then some e else w.entry k' := by
  unfold World.put World.entry
  simp only [h, Bool.not_true, Bool.false_eq_true, if_false]
  by_cases h : k' = k
  · subst h; simp
  · have hk : (k == k') = false := by simpa using fun x : k = k' => h x.symm
    simp only [List.find?_cons, hk, h, if_false, List.find?_filter]
    congr 2
    funext a
    by_cases ha : a.1 = k' <;> simp [ha, h]

theorem World.entry_remove (w : World) (k k' : Str) :
    (w.remove k).entry k' = if k' = k then none else w.entry k' := by
  unfold World.remove World.entry
  simp only [List.find?_filter]
  by_cases h : k' = k
  · subst h
    simp only [if_true, Option.map_eq_none_iff, List.find?_eq_none]
    intro x _; by_cases hx : x.1 = k' <;> simp [hx]
  · simp only [h, if_false]
    congr 2
    funext a
    by_cases ha : a.1 = k' <;> simp [ha, h]

@[simp] theorem World.entry_log (w : World) (c k : Str) : (w.log c).entry k = w.entry k := rfl

theorem World.dataAt_put_enabled (w : World) (h : w.enabled = true) (k k' : Str) (e : Entry) :
    (w.put k e).dataAt k' = if k' = k then e.st else w.dataAt k' := by
  unfold World.dataAt; rw [World.entry_put w h]; split <;> rfl

/-- data after a `put`: the new entry's, or what was there -/
theorem World.dataAt_put {w : World} {k k' : Str} {e : Entry} {s : EState}
    (h : (w.put k e).dataAt k' = some s) : (k' = k ∧ e.st = some s) ∨ w.dataAt k' = some s := by
  cases he : w.enabled with
  | false => rw [World.put_disabled he] at h; exact Or.inr h
  | true =>
    rw [World.dataAt_put_enabled w he] at h
    split at h
    next hk => exact Or.inl ⟨hk, h⟩
    next => exact Or.inr h

theorem World.dataAt_remove (w : World) (k k' : Str) :
    (w.remove k).dataAt k' = if k' = k then none else w.dataAt k' := by
  unfold World.dataAt; rw [World.entry_remove]; split <;> rfl

@[simp] theorem World.dataAt_log (w : World) (c k : Str) : (w.log c).dataAt k = w.dataAt k := rfl

/-- `store_metadata` never creates data: what an entry holds afterwards it held before -/
theorem World.dataAt_storeMeta {w : World} {k status k' : Str} {s : EState}
    (h : (w.storeMeta k status).dataAt k' = some s) : w.dataAt k' = some s := by
  unfold World.storeMeta at h
  split at h
  next e he =>
    rcases World.dataAt_put h with ⟨hk, h2⟩ | h2
    · subst hk
      simp only at h2
      split at h2
      · simp [World.dataAt, he]; exact h2
      · simp at h2
    · exact h2
  next he =>
    rcases World.dataAt_put h with ⟨_, h2⟩ | h2
    · simp at h2
    · exact h2

theorem World.dataAt_store {w : World} {st : EState} {k' : Str} {s : EState}
    (h : (w.store st).dataAt k' = some s) :
    (k' = st.query ∧ s = { st with status := statusReady }) ∨ w.dataAt k' = some s := by
  unfold World.store at h
  rcases World.dataAt_put h with ⟨hk, h2⟩ | h2
  · simp at h2; exact Or.inl ⟨hk, h2.symm⟩
  · exact Or.inr h2

theorem World.dataAt_of_get {w : World} {k : Str} {s : EState} (h : w.get k = some s) : w.dataAt k = some s := by
  unfold World.get at h
  unfold World.dataAt
  split at h
  next st s' he =>
    split at h
    · simp at h; subst h; simp [he]
    · simp at h
  next => simp at h

theorem World.get_of_NoData {w : World} (h : w.NoData) (k : Str) : w.get k = none := by
  cases hg : w.get k with
  | none => rfl
  | some s => have := World.dataAt_of_get hg; rw [h k] at this; simp at this

theorem World.get_store_self (w : World) (h : w.enabled = true) (st : EState) :
    (w.store st).get st.query = some { st with status := statusReady } := by
  unfold World.store World.get
  rw [World.entry_put w h]; simp

theorem World.get_remove_self (w : World) (k : Str) : (w.remove k).get k = none := by
  unfold World.get; rw [World.entry_remove]; simp

theorem World.get_storeMeta_self_of_ne (w : World) (hen : w.enabled = true) (k status : Str)
    (h : (status == statusReady) = false) :
    (w.storeMeta k status).get k = none := by
  have h' : ¬ status = statusReady := by simpa using h
  unfold World.storeMeta
  split <;> (unfold World.get; rw [World.entry_put w hen]; simp only [if_true]; try (split <;> simp_all))

/-! ### the call log and the cache flag -/

@[simp] theorem World.calls_put (w : World) (k : Str) (e : Entry) : (w.put k e).calls = w.calls := by
  unfold World.put; split <;> rfl
@[simp] theorem World.calls_storeMeta (w : World) (k st : Str) : (w.storeMeta k st).calls = w.calls := by
  unfold World.storeMeta; split <;> simp
@[simp] theorem World.calls_store (w : World) (st : EState) : (w.store st).calls = w.calls := by
  unfold World.store; simp
@[simp] theorem World.calls_remove (w : World) (k : Str) : (w.remove k).calls = w.calls := rfl
@[simp] theorem World.calls_log (w : World) (c : Str) : (w.log c).calls = w.calls ++ [c] := rfl

@[simp] theorem World.mkd_put (w : World) (k : Str) (e : Entry) : (w.put k e).metaKeepsData = w.metaKeepsData := by
  unfold World.put; split <;> rfl
@[simp] theorem World.mkd_storeMeta (w : World) (k st : Str) : (w.storeMeta k st).metaKeepsData = w.metaKeepsData := by
  unfold World.storeMeta; split <;> simp
@[simp] theorem World.mkd_store (w : World) (st : EState) : (w.store st).metaKeepsData = w.metaKeepsData := by
  unfold World.store; simp
@[simp] theorem World.mkd_remove (w : World) (k : Str) : (w.remove k).metaKeepsData = w.metaKeepsData := rfl
@[simp] theorem World.mkd_log (w : World) (c : Str) : (w.log c).metaKeepsData = w.metaKeepsData := rfl

@[simp] theorem World.enabled_put (w : World) (k : Str) (e : Entry) : (w.put k e).enabled = w.enabled := by
  unfold World.put; split <;> rfl
@[simp] theorem World.enabled_storeMeta (w : World) (k st : Str) : (w.storeMeta k st).enabled = w.enabled := by
  unfold World.storeMeta; split <;> simp
@[simp] theorem World.enabled_store (w : World) (st : EState) : (w.store st).enabled = w.enabled := by
  unfold World.store; simp
@[simp] theorem World.enabled_remove (w : World) (k : Str) : (w.remove k).enabled = w.enabled := rfl
@[simp] theorem World.enabled_log (w : World) (c : Str) : (w.log c).enabled = w.enabled := rfl

/-! ### conditional progress metadata: evaluations on `NoCache` (`useCache = false`) write none -/

/-- `if useCache then cache.store_metadata(...)` -/
def World.metaIf (w : World) (uc : Bool) (k st : Str) : World := if uc then w.storeMeta k st else w

@[simp] theorem World.metaIf_true (w : World) (k st : Str) : w.metaIf true k st = w.storeMeta k st := rfl
@[simp] theorem World.metaIf_false (w : World) (k st : Str) : w.metaIf false k st = w := rfl
@[simp] theorem World.calls_metaIf (w : World) (uc : Bool) (k st : Str) : (w.metaIf uc k st).calls = w.calls := by
  cases uc <;> simp
@[simp] theorem World.enabled_metaIf (w : World) (uc : Bool) (k st : Str) : (w.metaIf uc k st).enabled = w.enabled := by
  cases uc <;> simp
@[simp] theorem World.mkd_metaIf (w : World) (uc : Bool) (k st : Str) :
    (w.metaIf uc k st).metaKeepsData = w.metaKeepsData := by
  cases uc <;> simp
theorem World.dataAt_metaIf {w : World} {uc : Bool} {k status k' : Str} {s : EState}
    (h : (w.metaIf uc k status).dataAt k' = some s) : w.dataAt k' = some s := by
  cases uc
  · exact h
  · exact World.dataAt_storeMeta h

/-! ### a disabled global cache (`NoCache()`) stays without data -/

/-- the global cache is `NoCache()`: disabled and without data -/
def World.NoCache (w : World) : Prop := w.enabled = false ∧ w.NoData

theorem World.NoCache.storeMeta {w : World} (h : w.NoCache) (k st : Str) : (w.storeMeta k st).NoCache := by
  unfold World.storeMeta; split <;> (rw [World.put_disabled h.1]; exact h)
theorem World.NoCache.metaIf {w : World} (h : w.NoCache) (uc : Bool) (k st : Str) : (w.metaIf uc k st).NoCache := by
  cases uc
  · exact h
  · exact h.storeMeta k st
theorem World.NoCache.store {w : World} (h : w.NoCache) (st : EState) : (w.store st).NoCache := by
  unfold World.store; rw [World.put_disabled h.1]; exact h
theorem World.NoCache.remove {w : World} (h : w.NoCache) (k : Str) : (w.remove k).NoCache := by
  refine ⟨h.1, fun k' => ?_⟩
  rw [World.dataAt_remove]; split
  · rfl
  · exact h.2 k'
theorem World.NoCache.log {w : World} (h : w.NoCache) (c : Str) : (w.log c).NoCache := h
theorem World.NoCache.get {w : World} (h : w.NoCache) (k : Str) : w.get k = none := World.get_of_NoData h.2 k

/-! ### `Sound` is preserved by the cache operations -/

theorem Sound.get {env : Env} {w : World} (h : Sound env w) {k : Str} {st : EState} (hg : w.get k = some st) :
    ∃ fuel st' c, refText env fuel k = (.st st', c) ∧ st'.isError = false ∧ st'.volatile = false ∧
      st'.caching = true ∧ st.core = st'.core :=
  h k st (World.dataAt_of_get hg)

theorem Sound.empty (env : Env) : Sound env {} := by
  intro k st h; simp [World.dataAt, World.entry] at h

theorem Sound.clean {env : Env} (w : World) : Sound env { w with cache := [] } := by
  intro k st h; simp [World.dataAt, World.entry] at h

theorem Sound.storeMeta {env : Env} {w : World} (h : Sound env w) (k status : Str) :
    Sound env (w.storeMeta k status) :=
  fun k' st hd => h k' st (World.dataAt_storeMeta hd)

theorem Sound.metaIf {env : Env} {w : World} (h : Sound env w) (uc : Bool) (k status : Str) :
    Sound env (w.metaIf uc k status) :=
  fun k' st hd => h k' st (World.dataAt_metaIf hd)

theorem Sound.remove {env : Env} {w : World} (h : Sound env w) (k : Str) : Sound env (w.remove k) := by
  intro k' st hd
  rw [World.dataAt_remove] at hd
  split at hd
  · simp at hd
  · exact h k' st hd

theorem Sound.log {env : Env} {w : World} (h : Sound env w) (c : Str) : Sound env (w.log c) :=
  fun k st hd => h k st hd

/-- storing a state that is (up to status) the successful, cacheable reference value of its key -/
theorem Sound.store {env : Env} {w : World} (h : Sound env w) (st : EState)
    (href : ∃ fuel st' c, refText env fuel st.query = (.st st', c) ∧ st'.isError = false ∧
      st'.volatile = false ∧ st'.caching = true ∧ st.core = st'.core) :
    Sound env (w.store st) := by
  intro k' s hd
  rcases World.dataAt_store hd with ⟨hk, hs⟩ | hd
  · subst hk; subst hs
    obtain ⟨fuel, st', c, h1, h2, h3, h4, h5⟩ := href
    exact ⟨fuel, st', c, h1, h2, h3, h4, by simpa using h5⟩
  · exact h k' s hd

/-- NoData worlds are sound, trivially -/
theorem Sound.of_NoData {env : Env} {w : World} (h : w.NoData) : Sound env w := by
  intro k st hd; rw [h k] at hd; simp at hd

end Liquer
