/-
C10 helpers, part 13: variable scope on the value-level meaning — a `let` is visible to the steps to its right, link
arguments and every chain start from the defaults, a chain that never assigns `k` reads the default of `k`.
-/
import LiquerProofs.Lemmas.Iso12

namespace Liquer.Iso

variable {d : List (Str × Val)}

section kv
variable {α : Type}

theorem getKV_setKV_self (vars : List (Str × α)) (k : Str) (v : α) : getKV (setKV vars k v) k = some v := by
  cases hg : getKV vars k with
  | none =>
    have hk := getKV_none hg
    rw [setKV_absent hk]
    exact getKV_mid (l₂ := []) hk
  | some v₀ =>
    obtain ⟨l₁, l₂, rfl, h₁⟩ := getKV_split hg
    have : ((l₁ ++ (k, v₀) :: l₂).any (fun e => e.1 == k)) = true := by simp
    simp only [setKV, this, ↓reduceIte, List.map_append, List.map_cons, beq_self_eq_true]
    rw [map_upd_absent h₁]
    exact getKV_mid h₁

theorem getKV_cons_ne {e : Str × α} {k : Str} (ne : e.1 ≠ k) (l : List (Str × α)) : getKV (e :: l) k = getKV l k := by
  simp [getKV, ne]

theorem getKV_cons_eq {e : Str × α} {k : Str} (eq : e.1 = k) (l : List (Str × α)) : getKV (e :: l) k = some e.2 := by
  simp [getKV, eq]

theorem getKV_map_upd_ne (vars : List (Str × α)) {k k' : Str} (v : α) (ne : k' ≠ k) :
    getKV (vars.map (fun e => if e.1 == k' then (k', v) else e)) k = getKV vars k := by
  induction vars with
  | nil => rfl
  | cons e rest ih =>
    rw [List.map_cons]
    by_cases h1 : e.1 = k'
    · have h2 : e.1 ≠ k := fun x => ne (h1 ▸ x)
      have : (if (e.1 == k') = true then (k', v) else e) = (k', v) := by simp [h1]
      rw [this, getKV_cons_ne (e := (k', v)) ne, getKV_cons_ne h2, ih]
    · have : (if (e.1 == k') = true then (k', v) else e) = e := by simp [h1]
      rw [this]
      by_cases h2 : e.1 = k
      · rw [getKV_cons_eq h2, getKV_cons_eq h2]
      · rw [getKV_cons_ne h2, getKV_cons_ne h2, ih]

theorem getKV_append_ne (vars : List (Str × α)) {k k' : Str} (v : α) (ne : k' ≠ k) :
    getKV (vars ++ [(k', v)]) k = getKV vars k := by
  induction vars with
  | nil => exact getKV_cons_ne (e := (k', v)) ne []
  | cons e rest ih =>
    rw [List.cons_append]
    by_cases h2 : e.1 = k
    · rw [getKV_cons_eq h2, getKV_cons_eq h2]
    · rw [getKV_cons_ne h2, getKV_cons_ne h2, ih]

theorem getKV_setKV_ne (vars : List (Str × α)) {k k' : Str} (v : α) (ne : k' ≠ k) :
    getKV (setKV vars k' v) k = getKV vars k := by
  unfold setKV
  split
  · exact getKV_map_upd_ne vars v ne
  · exact getKV_append_ne vars v ne

end kv

theorem refChain_snoc (n : Nat) (acts : List Act) (act : Act) :
    refChain d (n + 1) (acts ++ [act]) =
      (if acts.isEmpty then some { vars := d } else refChain d n acts).bind (fun pred =>
        (refArgs d n act.args).bind (fun args => cmdV pred (String.ofList act.name) args)) := by
  rw [refChain_succ (act := act) (by simp), predRef]
  simp

/-- with enough fuel, the first step of a chain starts from the configured defaults (and so does every link argument:
`refArgs` does not take the predecessor at all) -/
theorem first_step_from_defaults (n : Nat) (act : Act) :
    refChain d (n + 1) [act] = (refArgs d n act.args).bind (fun args => cmdV { vars := d } (String.ofList act.name) args) := by
  have := refChain_snoc (d := d) n [] act
  simpa using this

theorem refArgs_two_texts (n : Nat) (a b : Str) : refArgs d (n + 3) [.text a, .text b] = some [.str a, .str b] := by
  rw [refArgs_text, refArgs_text, refArgs_nil]; rfl

theorem refArgs_one_text (n : Nat) (a : Str) : refArgs d (n + 2) [.text a] = some [.str a] := by
  rw [refArgs_text, refArgs_nil]; rfl

/-- `let-k-v` makes `getvar-k` to its right return `v` -/
theorem let_visible_right {n : Nat} {acts : List Act} {r : RState} (k v : Str) (hne : acts ≠ [])
    (h : refChain d n acts = some r) :
    ∃ m, refChain d m (acts ++ [.mk "let".toList [.text k, .text v], .mk "getvar".toList [.text k]]) =
      some { r with data := .str v, vars := setVarV r.vars k (.str v) } := by
  refine ⟨n + 5, ?_⟩
  have e1 : acts ++ [Act.mk "let".toList [.text k, .text v], Act.mk "getvar".toList [.text k]] =
      (acts ++ [Act.mk "let".toList [.text k, .text v]]) ++ [Act.mk "getvar".toList [.text k]] := by simp
  have hne' : (acts ++ [Act.mk "let".toList [.text k, .text v]]).isEmpty = false := by simp
  have hne'' : acts.isEmpty = false := by simpa using hne
  rw [e1, refChain_snoc, hne', refChain_snoc, hne'', refChain_mono h (Nat.le_add_right n 3)]
  simp only [Bool.false_eq_true, ↓reduceIte, Option.bind_some, Act.args, Act.name, refArgs_two_texts, refArgs_one_text]
  have hl : String.ofList "let".toList = "let" := by decide
  have hg : String.ofList "getvar".toList = "getvar" := by decide
  rw [hl, hg]
  simp only [cmdV, Option.bind_some]
  rw [getVarV_eq, setVarV_eq, getKV_setKV_self]
  rfl

/-- the first argument of every `let` / `vapp` of the chain is a literal name other than `k` -/
def NoSet (k : Str) (acts : List Act) : Prop :=
  ∀ b ∈ acts, (String.ofList b.name = "let" ∨ String.ofList b.name = "vapp") →
    ∃ k' rest, b.args = .text k' :: rest ∧ k' ≠ k

theorem cmdV_vars_other {st r' : RState} {name : String} {args : List Val} {k : Str} (h : cmdV st name args = some r')
    (hn : name = "let" ∨ name = "vapp" → ∃ k' rest, args = .str k' :: rest ∧ k' ≠ k) :
    getVarV r'.vars k = getVarV st.vars k := by
  unfold cmdV at h
  split at h
  all_goals first
    | (simp only [Option.some.injEq] at h; subst h; rfl)
    | (split at h <;> first | (simp only [Option.some.injEq] at h; subst h; rfl) | cases h)
    | skip
  · -- let
    obtain ⟨k', rest, he, hne⟩ := hn (Or.inl rfl)
    simp only [List.cons.injEq, Val.str.injEq] at he
    obtain ⟨rfl, -⟩ := he
    simp only [Option.some.injEq] at h; subst h
    simp only
    rw [getVarV_eq, setVarV_eq, getKV_setKV_ne _ _ hne, ← getVarV_eq]
  · -- vapp
    obtain ⟨k', rest, he, hne⟩ := hn (Or.inr rfl)
    simp only [List.cons.injEq, Val.str.injEq] at he
    obtain ⟨rfl, -⟩ := he
    simp only
    rw [getVarV_eq, setVarV_eq, getKV_setKV_ne _ _ hne, ← getVarV_eq]
  · cases h

/-- a chain that never assigns `k` leaves `k` at its configured default: nothing set elsewhere can leak in -/
theorem unset_var_is_default (k : Str) (m : Nat) : ∀ (acts : List Act) (r : RState), refChain d m acts = some r →
    NoSet k acts → getVarV r.vars k = getVarV d k := by
  induction m with
  | zero => intro acts r h; rw [refChain_zero] at h; cases h
  | succ m ih =>
    intro acts r h hv
    cases hl : acts.getLast? with
    | none => rw [refChain_nil hl] at h; cases h; rfl
    | some act =>
      rw [refChain_succ hl, Option.bind_eq_some_iff] at h
      obtain ⟨pred, hp, h⟩ := h
      rw [Option.bind_eq_some_iff] at h
      obtain ⟨args, ha, h⟩ := h
      have hacts : acts.dropLast ++ [act] = acts := dropLast_getLast? hl
      have hpv : getVarV pred.vars k = getVarV d k := by
        unfold predRef at hp
        split at hp
        · cases hp; rfl
        · exact ih _ _ hp (fun b hb => hv b (by rw [← hacts]; exact List.mem_append_left _ hb))
      rw [cmdV_vars_other h (fun hn => ?_)]
      · exact hpv
      · obtain ⟨k', rest, he, hne⟩ := hv act (by rw [← hacts]; simp) hn
        rw [he] at ha
        cases m with
        | zero => rw [refArgs_zero] at ha; cases ha
        | succ m =>
          rw [refArgs_text, Option.map_eq_some_iff] at ha
          obtain ⟨vs, -, rfl⟩ := ha
          exact ⟨k', vs, rfl, hne⟩

end Liquer.Iso
