/-
The simulation between the `FileStore` model and the reference store, part 2: `SimF` is preserved by the
building blocks of the writes (directories on the way, the `__metadata__` folder, data + metadata file, removal of
a key) and by `store`, `store_metadata`, `remove`, `makedir` and the last phase of `removedir`.
-/
import LiquerProofs.Lemmas.StoreFileRef

namespace Liquer

variable {root : Path} {s : PFS} {fs : FS}

/-! ### justifications under a change of the specification state -/

theorem Just.mono {fs fs' : FS} {t : List Str} {x : PNode} (h : Just fs t x)
    (hm : ∀ q n, fs.get q = some n → fs'.get q = some n) : Just fs' t x := by
  cases h with
  | dir h' hx => exact .dir (hm _ _ h') hx
  | file d m h' hx => exact .file d m (hm _ _ h') hx
  | mdir k ht hx hk => exact .mdir k ht hx (hk.imp id (hm _ _))
  | mfile k d m ht hx hk => exact .mfile k d m ht hx (hm _ _ hk)

theorem Just.of_agree {fs fs' : FS} {k : Key} {t : List Str} {x : PNode} (h : Just fs t x)
    (hag : ∀ q, q ≠ k → fs'.get q = fs.get q) (h1 : t ≠ k) (h2 : t ≠ metaRel k) (h3 : t ≠ k ++ [metaDirName]) :
    Just fs' t x := by
  cases h with
  | dir h' hx => exact .dir (by rw [hag _ h1]; exact h') hx
  | file d m h' hx => exact .file d m (by rw [hag _ h1]; exact h') hx
  | mdir k' ht hx hk =>
    have : k' ≠ k := by intro e; subst e; exact h3 ht
    exact .mdir k' ht hx (hk.imp id (fun e => by rw [hag _ this]; exact e))
  | mfile k' d m ht hx hk =>
    have : k' ≠ k := by intro e; subst e; exact h2 ht
    exact .mfile k' d m ht hx (by rw [hag _ this]; exact hk)

theorem plain_ne_metaRel {k' : Key} (hm : metaDirName ∉ k') (k : Key) : k' ≠ metaRel k :=
  fun e => hm (e ▸ meta_mem_metaRel k)

theorem plain_ne_mdir {k' : Key} (hm : metaDirName ∉ k') (k : Key) : k' ≠ k ++ [metaDirName] :=
  fun e => hm (e ▸ by simp)

theorem plainFS_mkdirs (hp : PlainFS fs) (ks : List Key) (hks : ∀ a ∈ ks, PlainKey a) : PlainFS (fs.mkdirs ks) := by
  intro q hq
  rw [FS.get_mkdirs] at hq
  by_cases c : q ∈ ks ∧ fs.get q = none
  · exact hks q c.1
  · simp only [c, ↓reduceIte] at hq; exact hp q hq

theorem mkdirs_mono (fs : FS) (ks : List Key) (q : Key) (n : Node) (h : fs.get q = some n) : (fs.mkdirs ks).get q = some n := by
  rw [FS.get_mkdirs]
  simp [h]

/-! ### the directories on the way to a key -/

theorem simF_mkdirP_data (h : SimF root s fs) {k : Key} (hk : PlainKey k)
    (hnf : ∀ a, a ≠ [] → a <+: k → fs.get a = none ∨ fs.get a = some .dir)
    (ks : List Key) (hks : ∀ a, a ∈ ks ↔ a ≠ [] ∧ a <+: k) :
    ∃ s', s.mkdirP (root ++ k) = .ok s' ∧ SimF root s' (fs.mkdirs ks) := by
  have hnm : ∀ t, t <+: k → metaDirName ∉ t := fun t ht hm => hk.no_meta (ht.subset hm)
  have hpre : ∀ a, a ≠ [] → a <+: root ++ k → s.get a = none ∨ s.get a = some .dir := by
    intro a _ ha
    rcases prefix_root_cases ha with h1 | ⟨t, ht0, rfl, htk⟩
    · right; exact h.ready a h1
    · rw [h.get_data ht0 (hnm t htk)]
      rcases hnf t ht0 htk with e | e <;> simp [e, dnode]
  obtain ⟨s', h1, hget, h3⟩ := PFS.mkdirP_spec s (root ++ k) hpre
  have hmono : ∀ q x, s.get q = some x → s'.get q = some x := by
    intro q x hq
    rw [hget, hq]; simp
  refine ⟨s', h1, h3 h.nd, ?_, ?_, ?_, ?_⟩
  · intro a ha
    exact hmono _ _ (h.ready a ha)
  · intro k' hk'
    rw [FS.get_mkdirs] at hk'
    by_cases c : k' ∈ ks ∧ fs.get k' = none
    · obtain ⟨c1, c2⟩ := c
      obtain ⟨hk0, hkp⟩ := (hks k').mp c1
      have hsn : s.get (root ++ k') = none := by rw [h.get_data hk0 (hnm k' hkp), c2]; rfl
      rw [hget]
      have hpp : root ++ k' <+: root ++ k := (List.prefix_append_right_inj root).mpr hkp
      simp [hk0, hpp, hsn]
    · simp only [c, ↓reduceIte] at hk'
      exact hmono _ _ (h.cdir k' hk')
  · intro k' d m hk'
    rw [FS.get_mkdirs] at hk'
    by_cases c : k' ∈ ks ∧ fs.get k' = none
    · simp [c] at hk'
    · simp only [c, ↓reduceIte] at hk'
      obtain ⟨c1, c2⟩ := h.cfile k' d m hk'
      exact ⟨hmono _ _ c1, hmono _ _ c2⟩
  · intro t x ht0 hs
    rw [hget] at hs
    by_cases c : root ++ t ≠ [] ∧ root ++ t <+: root ++ k ∧ s.get (root ++ t) = none
    · rw [if_pos c] at hs
      have hs := Option.some.inj hs
      have htk : t <+: k := (List.prefix_append_right_inj root).mp c.2.1
      have hfn : fs.get t = none := by
        have := c.2.2
        rw [h.get_data ht0 (hnm t htk)] at this
        cases hg : fs.get t with
        | none => rfl
        | some n => cases n <;> simp [hg, dnode] at this
      refine .dir ?_ hs.symm
      rw [FS.get_mkdirs]
      simp [(hks t).mpr ⟨ht0, htk⟩, hfn]
    · rw [if_neg c] at hs
      exact (h.sound t x ht0 hs).mono (mkdirs_mono fs ks)

/-! ### a `__metadata__` folder -/

/-- `mkdir -p` of a path whose parent chain exists -/
theorem PFS.mkdirP_last (s : PFS) (p : Path) (c : Str) (hpre : ∀ a, a ≠ [] → a <+: p → s.get a = some .dir)
    (hl : s.get (p ++ [c]) = none ∨ s.get (p ++ [c]) = some .dir) :
    ∃ s', s.mkdirP (p ++ [c]) = .ok s' ∧
      (∀ q, s'.get q = if q = p ++ [c] ∧ s.get q = none then some .dir else s.get q) ∧ (s.ND → s'.ND) := by
  obtain ⟨s', h1, hget, h3⟩ := PFS.mkdirP_spec s (p ++ [c]) (by
    intro a ha hap
    rcases List.prefix_concat_iff.mp hap with e | e
    · rw [e]; exact hl
    · right; exact hpre a ha e)
  refine ⟨s', h1, ?_, h3⟩
  intro q
  rw [hget]
  by_cases e : q = p ++ [c]
  · subst e; simp
  · by_cases hn : s.get q = none
    · have : ¬ (q ≠ [] ∧ q <+: p ++ [c] ∧ s.get q = none) := by
        rintro ⟨c1, c2, _⟩
        rcases List.prefix_concat_iff.mp c2 with e' | e'
        · exact e e'
        · rw [hpre q c1 e'] at hn; cases hn
      simp [this, e]
    · simp [hn]

theorem simF_addMdir (h : SimF root s fs) {k : Key} (hd : k = [] ∨ fs.get k = some .dir) {s' : PFS} (hnd : s'.ND)
    (hget : ∀ q, s'.get q = if q = root ++ (k ++ [metaDirName]) ∧ s.get q = none then some .dir else s.get q) :
    SimF root s' fs := by
  have hmono : ∀ q x, s.get q = some x → s'.get q = some x := by
    intro q x hq
    rw [hget, hq]; simp
  refine ⟨hnd, fun a ha => hmono _ _ (h.ready a ha), fun k' hk' => hmono _ _ (h.cdir k' hk'),
    fun k' d m hk' => ⟨hmono _ _ (h.cfile k' d m hk').1, hmono _ _ (h.cfile k' d m hk').2⟩, ?_⟩
  intro t x ht0 hs
  rw [hget] at hs
  by_cases c : root ++ t = root ++ (k ++ [metaDirName]) ∧ s.get (root ++ t) = none
  · rw [if_pos c] at hs
    exact .mdir k ((root_append_inj root).mp c.1) (Option.some.inj hs).symm hd
  · rw [if_neg c] at hs
    exact h.sound t x ht0 hs

/-! ### data file + metadata file -/

theorem simF_setFile (h : SimF root s fs) (hp : PlainFS fs) (ht : FS.Tree fs) {k : Key} (hk0 : k ≠ []) (hk : PlainKey k)
    (d : Data) (m : UMeta) (hndir : fs.get k ≠ some .dir) (hpar : k.dropLast = [] ∨ fs.get k.dropLast = some .dir)
    {s' : PFS} (hnd : s'.ND)
    (hget : ∀ q, s'.get q =
      if q = root ++ metaRel k then some (.mfile m)
      else if q = root ++ (k.dropLast ++ [metaDirName]) ∧ s.get q = none then some .dir
      else if q = root ++ k then some (.dfile d) else s.get q) :
    SimF root s' (fs.set k (.file d m)) := by
  -- a path that is none of the three keeps its node
  have hkeep : ∀ q x, s.get q = some x → q ≠ root ++ metaRel k → q ≠ root ++ k → s'.get q = some x := by
    intro q x hq h1 h2
    rw [hget]
    simp [h1, h2, hq]
  refine ⟨hnd, ?_, ?_, ?_, ?_⟩
  · intro a ha
    exact hkeep a _ (h.ready a ha) (prefix_root_ne ha (metaRel_ne_nil k)) (prefix_root_ne ha hk0)
  · intro k' hk'
    rw [FS.get_set] at hk'
    by_cases e : k = k'
    · simp [e] at hk'
    · simp only [e, ↓reduceIte] at hk'
      have hm' := hp.no_meta hk'
      refine hkeep _ _ (h.cdir k' hk') ?_ ?_
      · rw [Ne, root_append_inj]; exact plain_ne_metaRel hm' k
      · rw [Ne, root_append_inj]; exact fun e' => e e'.symm
  · intro k' d' m' hk'
    rw [FS.get_set] at hk'
    by_cases e : k = k'
    · subst e
      simp only [↓reduceIte, Option.some.injEq, Node.file.injEq] at hk'
      obtain ⟨rfl, rfl⟩ := hk'
      refine ⟨?_, ?_⟩
      · rw [hget]
        have e1 : root ++ k ≠ root ++ metaRel k := by
          rw [Ne, root_append_inj]; exact plain_ne_metaRel hk.no_meta k
        have e2 : root ++ k ≠ root ++ (k.dropLast ++ [metaDirName]) := by
          rw [Ne, root_append_inj]; exact plain_ne_mdir hk.no_meta _
        simp [e1, e2]
      · rw [hget]; simp
    · simp only [e, ↓reduceIte] at hk'
      have hm' := hp.no_meta hk'
      have hk0' : k' ≠ [] := ht.nonroot k' (by simp [hk'])
      obtain ⟨c1, c2⟩ := h.cfile k' d' m' hk'
      refine ⟨hkeep _ _ c1 ?_ ?_, hkeep _ _ c2 ?_ ?_⟩
      · rw [Ne, root_append_inj]; exact plain_ne_metaRel hm' k
      · rw [Ne, root_append_inj]; exact fun e' => e e'.symm
      · rw [Ne, root_append_inj]; exact fun e' => e (metaRel_inj hk0' hk0 e').symm
      · rw [Ne, root_append_inj]; exact fun e' => plain_ne_metaRel hk.no_meta k' e'.symm
  · intro t x ht0 hs
    rw [hget] at hs
    by_cases e1 : t = metaRel k
    · subst e1
      simp only [↓reduceIte, Option.some.injEq] at hs
      exact .mfile k d m rfl hs.symm (by rw [FS.get_set]; simp)
    · have e1' : root ++ t ≠ root ++ metaRel k := by rw [Ne, root_append_inj]; exact e1
      simp only [e1', ↓reduceIte] at hs
      by_cases c : root ++ t = root ++ (k.dropLast ++ [metaDirName]) ∧ s.get (root ++ t) = none
      · rw [if_pos c] at hs
        refine .mdir k.dropLast ((root_append_inj root).mp c.1) (Option.some.inj hs).symm ?_
        rcases hpar with e | e
        · exact Or.inl e
        · right
          rw [FS.get_set]
          have : k ≠ k.dropLast := by
            intro e'
            have := congrArg List.length e'
            rw [List.length_dropLast] at this
            have : 0 < k.length := List.length_pos_iff.mpr hk0
            omega
          simp [this, e]
      · rw [if_neg c] at hs
        by_cases e2 : t = k
        · subst e2
          simp only [↓reduceIte, Option.some.injEq] at hs
          exact .file d m (by rw [FS.get_set]; simp) hs.symm
        · have e2' : root ++ t ≠ root ++ k := by rw [Ne, root_append_inj]; exact e2
          simp only [e2', ↓reduceIte] at hs
          have hj := h.sound t x ht0 hs
          refine hj.of_agree (k := k) ?_ e2 e1 ?_
          · intro q hq
            rw [FS.get_set]
            have : ¬ k = q := fun e => hq e.symm
            simp [this]
          · intro e3
            subst e3
            rcases h.get_mdir hp (k := k) with e | ⟨_, e | e⟩
            · rw [e] at hs; cases hs
            · exact hk0 e
            · exact hndir e

/-! ### removal of a key -/

theorem simF_eraseKey (h : SimF root s fs) (hp : PlainFS fs) (ht : FS.Tree fs) {k : Key} (hk0 : k ≠ []) (hk : PlainKey k)
    {s' : PFS} (hnd : s'.ND)
    (hget : ∀ q, s'.get q = if q = root ++ k ∨ q = root ++ metaRel k then none else s.get q)
    (hmd : s.get (root ++ (k ++ [metaDirName])) = none) :
    SimF root s' (fs.erase k) := by
  have hkeep : ∀ q x, s.get q = some x → q ≠ root ++ metaRel k → q ≠ root ++ k → s'.get q = some x := by
    intro q x hq h1 h2
    rw [hget]
    simp [h1, h2, hq]
  refine ⟨hnd, ?_, ?_, ?_, ?_⟩
  · intro a ha
    exact hkeep a _ (h.ready a ha) (prefix_root_ne ha (metaRel_ne_nil k)) (prefix_root_ne ha hk0)
  · intro k' hk'
    rw [FS.get_erase] at hk'
    by_cases e : k' = k
    · simp [e] at hk'
    · simp only [e, ↓reduceIte] at hk'
      have hm' := hp.no_meta hk'
      refine hkeep _ _ (h.cdir k' hk') ?_ ?_
      · rw [Ne, root_append_inj]; exact plain_ne_metaRel hm' k
      · rw [Ne, root_append_inj]; exact e
  · intro k' d' m' hk'
    rw [FS.get_erase] at hk'
    by_cases e : k' = k
    · simp [e] at hk'
    · simp only [e, ↓reduceIte] at hk'
      have hm' := hp.no_meta hk'
      have hk0' : k' ≠ [] := ht.nonroot k' (by simp [hk'])
      obtain ⟨c1, c2⟩ := h.cfile k' d' m' hk'
      refine ⟨hkeep _ _ c1 ?_ ?_, hkeep _ _ c2 ?_ ?_⟩
      · rw [Ne, root_append_inj]; exact plain_ne_metaRel hm' k
      · rw [Ne, root_append_inj]; exact e
      · rw [Ne, root_append_inj]; exact fun e' => e (metaRel_inj hk0' hk0 e')
      · rw [Ne, root_append_inj]; exact fun e' => plain_ne_metaRel hk.no_meta k' e'.symm
  · intro t x ht0 hs
    rw [hget] at hs
    by_cases c : root ++ t = root ++ k ∨ root ++ t = root ++ metaRel k
    · rw [if_pos c] at hs; cases hs
    · rw [if_neg c] at hs
      have e1 : t ≠ k := fun e => c (Or.inl (by rw [e]))
      have e2 : t ≠ metaRel k := fun e => c (Or.inr (by rw [e]))
      refine (h.sound t x ht0 hs).of_agree (k := k) ?_ e1 e2 ?_
      · intro q hq
        rw [FS.get_erase]
        simp [hq]
      · intro e3
        subst e3
        rw [hmd] at hs; cases hs

theorem simF_eraseMdir (h : SimF root s fs) (hp : PlainFS fs) (k : Key) :
    SimF root (s.erase (root ++ (k ++ [metaDirName]))) fs := by
  have hne : root ++ (k ++ [metaDirName]) ≠ [] := by simp
  have hkeep : ∀ q x, s.get q = some x → q ≠ root ++ (k ++ [metaDirName]) →
      (s.erase (root ++ (k ++ [metaDirName]))).get q = some x := by
    intro q x hq h1
    rw [PFS.get_erase _ hne]
    simp [h1, hq]
  refine ⟨PFS.nd_erase h.nd _, ?_, ?_, ?_, ?_⟩
  · intro a ha
    exact hkeep a _ (h.ready a ha) (prefix_root_ne ha (by simp))
  · intro k' hk'
    refine hkeep _ _ (h.cdir k' hk') ?_
    rw [Ne, root_append_inj]; exact plain_ne_mdir (hp.no_meta hk') k
  · intro k' d m hk'
    obtain ⟨c1, c2⟩ := h.cfile k' d m hk'
    refine ⟨hkeep _ _ c1 ?_, hkeep _ _ c2 ?_⟩
    · rw [Ne, root_append_inj]; exact plain_ne_mdir (hp.no_meta hk') k
    · rw [Ne, root_append_inj]; exact metaRel_ne_mdir k' k
  · intro t x ht0 hs
    rw [PFS.get_erase _ hne] at hs
    by_cases c : root ++ t = root ++ (k ++ [metaDirName])
    · simp [c] at hs
    · simp only [c, ↓reduceIte] at hs
      exact h.sound t x ht0 hs

end Liquer

namespace Liquer

variable {root : Path} {s : PFS} {fs : FS}

/-! ### `store_metadata`, `store` -/

theorem metaRel_path (root : Path) (k : Key) :
    root ++ metaRel k = ((root ++ k.dropLast) ++ [metaDirName]) ++ [keyName k ++ jsonExt] := by
  simp [metaRel]

theorem mdir_path (root : Path) (k : Key) : root ++ (k ++ [metaDirName]) = (root ++ k) ++ [metaDirName] := by simp

/-- `store_metadata` on a POSIX tree in which the directory of the key exists -/
theorem File.storeMeta_run (s : PFS) {k : Key} (hk : PlainKey k) (hk0 : k ≠ []) (m : UMeta)
    (hpre : ∀ a, a ≠ [] → a <+: root ++ k.dropLast → s.get a = some .dir)
    (hl : s.get (root ++ (k.dropLast ++ [metaDirName])) = none ∨ s.get (root ++ (k.dropLast ++ [metaDirName])) = some .dir)
    (hmp : s.get (root ++ metaRel k) ≠ some .dir) :
    ∃ s', File.storeMeta root s k m = .ok s' ∧ (s.ND → s'.ND) ∧
      ∀ q, s'.get q = if q = root ++ metaRel k then some (.mfile m)
        else if q = root ++ (k.dropLast ++ [metaDirName]) ∧ s.get q = none then some .dir else s.get q := by
  rw [mdir_path] at hl
  obtain ⟨s1, hs1, hget1, hnd1⟩ := PFS.mkdirP_last s (root ++ k.dropLast) metaDirName hpre hl
  have hne : root ++ metaRel k ≠ (root ++ k.dropLast) ++ [metaDirName] := by
    rw [← mdir_path, Ne, root_append_inj]; exact metaRel_ne_mdir k _
  have hdl : (root ++ metaRel k).dropLast = (root ++ k.dropLast) ++ [metaDirName] := by
    rw [metaRel_path, List.dropLast_concat]
  have hw : s1.write (root ++ metaRel k) (.mfile m) = .ok (s1.set (root ++ metaRel k) (.mfile m)) := by
    apply PFS.write_ok
    · rw [hget1]; simp only [hne, false_and, ↓reduceIte]; exact hmp
    · rw [hdl, hget1]
      rcases hl with e | e
      · rw [if_pos ⟨rfl, e⟩]
      · rw [if_neg (by rw [e]; simp), e]
  refine ⟨s1.set (root ++ metaRel k) (.mfile m), ?_, fun h => PFS.nd_set (hnd1 h) _ _, ?_⟩
  · unfold File.storeMeta
    simp only [File.metaPath_plain root hk hk0, bind, Except.bind]
    rw [hdl, hs1]
    exact hw
  · intro q
    rw [PFS.get_set _ (by simp [metaRel]), hget1, mdir_path]
    by_cases e : q = root ++ metaRel k
    · subst e; simp
    · have : ¬ root ++ metaRel k = q := fun e' => e e'.symm
      simp only [this, ↓reduceIte, e]

theorem simF_storeMeta (h : SimF root s fs) (hp : PlainFS fs) (ht : FS.Tree fs) {k : Key} (m : UMeta) {d0 : Data} {m0 : UMeta}
    (hg : fs.get k = some (.file d0 m0)) :
    ∃ s', File.storeMeta root s k m = .ok s' ∧ SimF root s' (fs.set k (.file d0 m)) := by
  have hk : PlainKey k := hp.of_get hg
  have hs : (fs.get k).isSome = true := by simp [hg]
  have hk0 : k ≠ [] := ht.nonroot k hs
  have hpar : k.dropLast = [] ∨ fs.get k.dropLast = some .dir := by
    by_cases h2 : 2 ≤ k.length
    · right; exact ht.anc k hs _ (parent_mem_ancestors h2)
    · left
      apply List.eq_nil_of_length_eq_zero
      rw [List.length_dropLast]; omega
  obtain ⟨c1, c2⟩ := h.cfile k d0 m0 hg
  obtain ⟨s', hs', hnd', hget'⟩ := File.storeMeta_run (root := root) s hk hk0 m
    (fun a _ ha => h.chain ht hpar a ha)
    (by rcases h.get_mdir hp (k := k.dropLast) with e | ⟨e, _⟩
        · exact Or.inl e
        · exact Or.inr e)
    (by rw [c2]; simp)
  refine ⟨s', hs', simF_setFile h hp ht hk0 hk d0 m (by rw [hg]; simp) hpar (hnd' h.nd) ?_⟩
  intro q
  rw [hget']
  by_cases e : q = root ++ k
  · subst e; simp [c1]
  · simp [e]

theorem mem_ancestors_iff_dropLast (a k : Key) : a ∈ ancestors k ↔ a ≠ [] ∧ a <+: k.dropLast := by
  rw [mem_ancestors]
  constructor
  · rintro ⟨h1, h2, h3⟩
    exact ⟨h1, prefix_dropLast_of_ne h2 h3⟩
  · rintro ⟨h1, h2⟩
    refine ⟨h1, h2.trans (List.dropLast_prefix k), ?_⟩
    intro e
    subst e
    have := h2.length_le
    rw [List.length_dropLast] at this
    have : 0 < a.length := List.length_pos_iff.mpr h1
    omega

theorem simF_store (h : SimF root s fs) (hp : PlainFS fs) (ht : FS.Tree fs) {k : Key} (hk : PlainKey k) (d : Data) (m : UMeta)
    (hwf : wfOp fs (.store k d m) = true) :
    ∃ s', File.store root s k d m = .ok s' ∧ SimF root s' (specOps.step fs (.store k d m)) := by
  simp only [wfOp, Bool.and_eq_true, Bool.not_eq_true', List.isEmpty_eq_false_iff, List.all_eq_true] at hwf
  obtain ⟨⟨hk0, hnd⟩, hanc⟩ := hwf
  have hnf : ∀ a ∈ ancestors k, fs.get a = none ∨ fs.get a = some .dir := fun a ha => notFile_cases (hanc a ha)
  have hkd : fs.get k ≠ some .dir := by
    intro e; simp [FS.isDirB, e] at hnd
  -- the directories on the way
  obtain ⟨s1, hs1, hsim1⟩ := simF_mkdirP_data h hk.dropLast
    (fun a ha hap => hnf a ((mem_ancestors_iff_dropLast a k).mpr ⟨ha, hap⟩)) (ancestors k) (fun a => mem_ancestors_iff_dropLast a k)
  have ht1 : FS.Tree (fs.mkdirs (ancestors k)) :=
    ht.mkdirs (fun a ha => ancestors_ne_nil ha) (fun a ha b hb => ancestors_trans hb ha) hnf
  have hp1 : PlainFS (fs.mkdirs (ancestors k)) :=
    plainFS_mkdirs hp _ (fun a ha => hk.sub (fun c hc => (ancestors_prefix ha).subset hc))
  have hg1k : (fs.mkdirs (ancestors k)).get k = fs.get k := by
    rw [FS.get_mkdirs]
    have : k ∉ ancestors k := fun hm => ancestors_ne_self hm rfl
    simp [this]
  have hpar1 : k.dropLast = [] ∨ (fs.mkdirs (ancestors k)).get k.dropLast = some .dir := by
    by_cases h2 : 2 ≤ k.length
    · right
      have hm := parent_mem_ancestors h2
      unfold parentKey at hm
      rw [FS.get_mkdirs]
      rcases hnf _ hm with e | e <;> simp [hm, e]
    · left
      apply List.eq_nil_of_length_eq_zero
      rw [List.length_dropLast]; omega
  have hkd1 : (fs.mkdirs (ancestors k)).get k ≠ some .dir := by rw [hg1k]; exact hkd
  -- the data file
  have hpk : root ++ k ≠ [] := by simp [hk0]
  have hdl : (root ++ k).dropLast = root ++ k.dropLast := List.dropLast_append_of_ne_nil hk0
  have hw : s1.write (root ++ k) (.dfile d) = .ok (s1.set (root ++ k) (.dfile d)) := by
    apply PFS.write_ok
    · rw [hsim1.get_data hk0 hk.no_meta, hg1k]
      cases hg : fs.get k with
      | none => simp [dnode]
      | some n =>
        cases n with
        | dir => exact absurd hg hkd
        | file d' m' => simp [dnode]
    · rw [hdl]; exact hsim1.chain ht1 hpar1 _ (List.prefix_refl _)
  -- the metadata file
  have hget2 : ∀ q, (s1.set (root ++ k) (.dfile d)).get q = if q = root ++ k then some (.dfile d) else s1.get q := by
    intro q
    rw [PFS.get_set _ hpk]
    by_cases e : q = root ++ k
    · subst e; simp
    · have : ¬ root ++ k = q := fun e' => e e'.symm
      simp [this, e]
  have hmd_ne : root ++ (k.dropLast ++ [metaDirName]) ≠ root ++ k := by
    rw [Ne, root_append_inj]; exact fun e => plain_ne_mdir hk.no_meta _ e.symm
  have hmp_ne : root ++ metaRel k ≠ root ++ k := by
    rw [Ne, root_append_inj]; exact fun e => plain_ne_metaRel hk.no_meta _ e.symm
  obtain ⟨s4, hs4, hnd4, hget4⟩ := File.storeMeta_run (root := root) (s1.set (root ++ k) (.dfile d)) hk hk0
    { m with size := some d.length, md5 := some d }
    (by
      intro a _ ha
      rw [hget2]
      have : a ≠ root ++ k := by
        intro e
        have h1 := ha.length_le
        rw [e, List.length_append, List.length_append, List.length_dropLast] at h1
        have : 0 < k.length := List.length_pos_iff.mpr hk0
        omega
      simp only [this, ↓reduceIte]
      exact hsim1.chain ht1 hpar1 a ha)
    (by
      rw [hget2]
      simp only [hmd_ne, ↓reduceIte]
      rcases hsim1.get_mdir hp1 (k := k.dropLast) with e | ⟨e, _⟩
      · exact Or.inl e
      · exact Or.inr e)
    (by
      rw [hget2]
      simp only [hmp_ne, ↓reduceIte]
      rw [hsim1.get_meta hp1 ht1 hk0]
      cases (fs.mkdirs (ancestors k)).get k with
      | none => simp [mnode]
      | some n => cases n <;> simp [mnode])
  refine ⟨s4, ?_, ?_⟩
  · unfold File.store
    simp only [File.path_plain root hk, File.metaPath_plain root hk hk0, compsParts_plain hk, bind, Except.bind]
    rw [hdl, hs1]
    simp only []
    rw [hw]
    exact hs4
  · simp only [StoreOps.step, StoreOps.apply, specOps]
    refine simF_setFile hsim1 hp1 ht1 hk0 hk d _ hkd1 hpar1 (hnd4 (PFS.nd_set hsim1.nd _ _)) ?_
    intro q
    rw [hget4, hget2]
    by_cases e1 : q = root ++ metaRel k
    · simp [e1]
    · simp only [e1, ↓reduceIte]
      by_cases e2 : q = root ++ (k.dropLast ++ [metaDirName])
      · subst e2
        simp only [hmd_ne, ↓reduceIte]
      · simp [e2]

/-! ### `remove` -/

theorem simF_remove (h : SimF root s fs) (hp : PlainFS fs) (ht : FS.Tree fs) {k : Key} {d0 : Data} {m0 : UMeta}
    (hg : fs.get k = some (.file d0 m0)) :
    ∃ s', File.remove root s k = .ok s' ∧ SimF root s' (fs.erase k) := by
  have hk : PlainKey k := hp.of_get hg
  have hk0 : k ≠ [] := ht.nonroot k (by simp [hg])
  obtain ⟨c1, c2⟩ := h.cfile k d0 m0 hg
  have hpk : root ++ k ≠ [] := by simp [hk0]
  have hmk : root ++ metaRel k ≠ [] := by simp [metaRel]
  have hne : root ++ metaRel k ≠ root ++ k := by
    rw [Ne, root_append_inj]; exact fun e => plain_ne_metaRel hk.no_meta _ e.symm
  have hu1 : s.unlinkMissingOk (root ++ k) = .ok (s.erase (root ++ k)) := PFS.unlink_file s _ c1 (by simp)
  have hu2 : (s.erase (root ++ k)).unlinkMissingOk (root ++ metaRel k) = .ok ((s.erase (root ++ k)).erase (root ++ metaRel k)) := by
    apply PFS.unlink_file _ _ (x := .mfile m0) _ (by simp)
    rw [PFS.get_erase _ hpk]
    simp only [hne, ↓reduceIte]
    exact c2
  refine ⟨(s.erase (root ++ k)).erase (root ++ metaRel k), ?_, ?_⟩
  · unfold File.remove
    simp only [File.path_plain root hk, File.metaPath_plain root hk hk0, bind, Except.bind, hu1]
    exact hu2
  · refine simF_eraseKey h hp ht hk0 hk (PFS.nd_erase (PFS.nd_erase h.nd _) _) ?_ ?_
    · intro q
      rw [PFS.get_erase _ hmk, PFS.get_erase _ hpk]
      by_cases e1 : q = root ++ metaRel k
      · simp [e1]
      · by_cases e2 : q = root ++ k
        · simp [e2]
        · simp [e1, e2]
    · rcases h.get_mdir hp (k := k) with e | ⟨_, e | e⟩
      · exact e
      · exact absurd e hk0
      · rw [hg] at e; cases e

/-! ### `makedir` -/

theorem simF_makedir (h : SimF root s fs) (hp : PlainFS fs) (ht : FS.Tree fs) {k : Key} (hk : PlainKey k)
    (hwf : wfOp fs (.makedir k) = true) :
    ∃ s', File.makedir root s k = .ok s' ∧ SimF root s' (specOps.step fs (.makedir k)) := by
  simp only [wfOp, Bool.and_eq_true, Bool.not_eq_true', List.isEmpty_eq_false_iff, List.all_eq_true] at hwf
  obtain ⟨hk0, hall⟩ := hwf
  have hke : k.isEmpty = false := by simpa using hk0
  have hmem : ∀ a, a ∈ ancestors k ++ (if k.isEmpty then [] else [k]) ↔ a ≠ [] ∧ a <+: k := mem_mkdirP_list k
  have hnf : ∀ a, a ≠ [] → a <+: k → fs.get a = none ∨ fs.get a = some .dir := by
    intro a ha hap
    apply notFile_cases
    apply hall
    have := (hmem a).mpr ⟨ha, hap⟩
    simpa [hke] using this
  obtain ⟨s1, hs1, hsim1⟩ := simF_mkdirP_data h hk hnf _ hmem
  have ht1 : FS.Tree (specOps.step fs (.makedir k)) := spec_tree_step ht _ (by
    simp only [wfOp, Bool.and_eq_true, Bool.not_eq_true', List.isEmpty_eq_false_iff, List.all_eq_true]
    exact ⟨hk0, hall⟩)
  simp only [StoreOps.step, StoreOps.apply, specOps] at ht1 ⊢
  have hp1 : PlainFS (fs.mkdirs (ancestors k ++ (if k.isEmpty then [] else [k]))) :=
    plainFS_mkdirs hp _ (fun a ha => hk.sub (fun c hc => ((hmem a).mp ha).2.subset hc))
  have hkd : (fs.mkdirs (ancestors k ++ (if k.isEmpty then [] else [k]))).get k = some .dir := by
    rw [FS.get_mkdirs]
    have hm : k ∈ ancestors k ++ (if k.isEmpty then [] else [k]) := (hmem k).mpr ⟨hk0, List.prefix_refl _⟩
    rcases hnf k hk0 (List.prefix_refl _) with e | e
    · rw [if_pos ⟨hm, e⟩]
    · rw [if_neg (by rw [e]; simp), e]
  obtain ⟨s2, hs2, hget2, hnd2⟩ := PFS.mkdirP_last s1 (root ++ k) metaDirName
    (fun a _ ha => hsim1.chain ht1 (Or.inr hkd) a ha)
    (by rw [← mdir_path]
        rcases hsim1.get_mdir hp1 (k := k) with e | ⟨e, _⟩
        · exact Or.inl e
        · exact Or.inr e)
  refine ⟨s2, ?_, simF_addMdir hsim1 (Or.inr hkd) (hnd2 hsim1.nd) (by rw [mdir_path]; exact hget2)⟩
  unfold File.makedir
  simp only [File.path_plain root hk, bind, Except.bind, hs1]
  exact hs2

/-! ### the last phase of `removedir` -/

/-- what `removedir` does after the walk: the key's own metadata file, the `__metadata__` folder, the directory -/
def File.removedirTail (root : Path) (s : PFS) (k : Key) : Except StoreErr PFS := do
  let mp ← File.metaPath root k
  let fs2 ← s.unlinkMissingOk mp
  let p ← File.path root k
  let fs3 ← (if fs2.existsB (p ++ [metaDirName]) then fs2.rmdir (p ++ [metaDirName]) else pure fs2)
  fs3.rmdir p

theorem simF_removedirTail (h : SimF root s fs) (hp : PlainFS fs) (ht : FS.Tree fs) {k : Key} (hk0 : k ≠ [])
    (hd : fs.get k = some .dir) (hc : (fs.children k).isEmpty = true) :
    ∃ s', File.removedirTail root s k = .ok s' ∧ SimF root s' (fs.erase k) := by
  have hk : PlainKey k := hp.of_get hd
  have hs : (fs.get k).isSome = true := by simp [hd]
  have hpar : k.dropLast = [] ∨ fs.get k.dropLast = some .dir := by
    by_cases h2 : 2 ≤ k.length
    · right; exact ht.anc k hs _ (parent_mem_ancestors h2)
    · left
      apply List.eq_nil_of_length_eq_zero
      rw [List.length_dropLast]; omega
  have hchild : ∀ nm, fs.get (k ++ [nm]) = none := by
    intro nm
    cases hg : fs.get (k ++ [nm]) with
    | none => rfl
    | some n =>
      exfalso
      exact (FS.children_isEmpty_iff fs k).mp hc (k ++ [nm]) (by simp [hg]) (by simp) (by simp)
  -- no metadata file for a directory
  have hmp : s.get (root ++ metaRel k) = none := by rw [h.get_meta hp ht hk0, hd]; rfl
  have hu : s.unlinkMissingOk (root ++ metaRel k) = .ok s := by
    apply PFS.unlink_missing _ _ hmp
    intro a ha
    obtain ⟨_, hap, hne⟩ := (mem_ancestors _ _).mp ha
    rw [metaRel_path] at hap hne
    rcases List.prefix_concat_iff.mp hap with e | e
    · exact absurd e hne
    · rcases List.prefix_concat_iff.mp e with e' | e'
      · rw [e', ← mdir_path]
        rcases h.get_mdir hp (k := k.dropLast) with x | ⟨x, _⟩
        · exact Or.inl x
        · exact Or.inr x
      · right; exact h.chain ht hpar a e'
  -- the `__metadata__` folder is empty
  have hmdEmpty : ∀ (st : PFS), SimF root st fs → (st.iterdir ((root ++ k) ++ [metaDirName])).isEmpty = true := by
    intro st hst
    rw [PFS.iterdir_isEmpty']
    intro nm
    cases hg : st.get (root ++ k ++ [metaDirName] ++ [nm]) with
    | none => rfl
    | some x =>
      exfalso
      have : root ++ k ++ [metaDirName] ++ [nm] = root ++ (k ++ [metaDirName, nm]) := by simp
      rw [this] at hg
      obtain ⟨k', d, m, hne, h1, _, h3, _⟩ := hst.get_mfile hp ht hg
      have : k' = k ++ [keyName k'] := by rw [← h1]; exact (dropLast_concat_keyName hne).symm
      rw [this, hchild] at h3
      cases h3
  -- state after the folder has gone
  have hstep3 : ∃ s3, (if s.existsB ((root ++ k) ++ [metaDirName]) then s.rmdir ((root ++ k) ++ [metaDirName]) else pure s) = .ok s3 ∧
      SimF root s3 fs ∧ s3.get (root ++ (k ++ [metaDirName])) = none := by
    rcases h.get_mdir hp (k := k) with e | ⟨e, _⟩
    · refine ⟨s, ?_, h, e⟩
      rw [mdir_path] at e
      simp only [PFS.existsB, e, Option.isSome_none, Bool.false_eq_true, ↓reduceIte, pure, Except.pure]
    · refine ⟨s.erase (root ++ (k ++ [metaDirName])), ?_, simF_eraseMdir h hp k, ?_⟩
      · rw [mdir_path] at e ⊢
        simp only [PFS.existsB, e, Option.isSome_some, ↓reduceIte]
        exact PFS.rmdir_ok _ _ (by simp) e (hmdEmpty s h)
      · rw [PFS.get_erase _ (by simp)]; simp
  obtain ⟨s3, hs3, hsim3, hmd3⟩ := hstep3
  -- the directory itself
  have hr : s3.rmdir (root ++ k) = .ok (s3.erase (root ++ k)) := by
    apply PFS.rmdir_ok _ _ (by simp [hk0]) (hsim3.cdir k hd)
    rw [PFS.iterdir_isEmpty']
    intro nm
    by_cases e : nm = metaDirName
    · subst e; rw [← mdir_path]; exact hmd3
    · have hm : metaDirName ∉ k ++ [nm] := by
        intro hx
        rcases List.mem_append.mp hx with e' | e'
        · exact hk.no_meta e'
        · simp at e'; exact e e'.symm
      rw [List.append_assoc, hsim3.get_data (by simp) hm, hchild]
      rfl
  refine ⟨s3.erase (root ++ k), ?_, ?_⟩
  · unfold File.removedirTail
    simp only [File.metaPath_plain root hk hk0, File.path_plain root hk, bind, Except.bind, hu, hs3]
    exact hr
  · refine simF_eraseKey hsim3 hp ht hk0 hk (PFS.nd_erase hsim3.nd _) ?_ hmd3
    intro q
    rw [PFS.get_erase _ (by simp [hk0])]
    by_cases e1 : q = root ++ k
    · simp [e1]
    · by_cases e2 : q = root ++ metaRel k
      · subst e2
        simp only [e1, ↓reduceIte, or_true]
        rw [hsim3.get_meta hp ht hk0, hd]; rfl
      · simp [e1, e2]

end Liquer
