/-
A concrete instance of the hypotheses of the evaluator theorems, shared by the non-vacuity examples of
C01/C04/C05/C06/C09: the real vocabulary, and the family
  `one`, `/one`, `one/add-2`, `one/add-~X~/one~E`   (the last with an absolute link argument)
as hand-built ASTs.  The closure and `CanonOK` are *proved* for this family (`CanonOK` by running both sides
in the kernel, parsing included).
-/
import LiquerProofs.Lemmas.EvalDec
import LiquerModel.Text

namespace Liquer.Ex

def env0 : Env := { reg := Gen.registry, defaults := [], dec := decUtf8 }

def aOne (pos : Nat) : Action := .mk (s "one") [] pos
def qOne : Query := .mk [.transform none [aOne 0] none] false
def qAbsOne : Query := .mk [.transform none [aOne 1] none] true
def aAdd2 : Action := .mk (s "add") [.str (s "2") 8] 4
def aAddLink : Action := .mk (s "add") [.link qAbsOne 8] 4
def qOneAdd : Query := .mk [.transform none [aOne 0, aAdd2] none] false
def qLink : Query := .mk [.transform none [aOne 0, aAddLink] none] false
/-- `one/boom/add-2`: the second step raises -/
def qBoom : Query := .mk [.transform none [aOne 0, .mk (s "boom") [] 4, .mk (s "add") [.str (s "2") 13] 9] none] false

/-- `one/boom`: the last step raises -/
def qOneBoom : Query := .mk [.transform none [aOne 0, .mk (s "boom") [] 4] none] false

theorem keys : qOne.encode Gen.escapeTable = s "one" ∧ qAbsOne.encode Gen.escapeTable = s "/one" ∧
    qOneAdd.encode Gen.escapeTable = s "one/add-2" ∧ qLink.encode Gen.escapeTable = s "one/add-~X~/one~E" := by
  decide +kernel

def C0 (q : Query) : Prop := q = qLink ∨ q = qOneAdd ∨ q = qOne ∨ q = qAbsOne
def T0 (_ : Str) : Prop := False

theorem sub_of_name (env : Env) (T : Str → Prop) {a : Action} (h : a.name ≠ s "sub") : SubIn env T a :=
  fun _ _ hr _ _ _ _ _ hc => absurd (cmdSem_subeval_name hc) (by rw [resolve_name hr]; exact h)

theorem closed0 : Closed env0 C0 T0 where
  pred := by
    intro q p r hq hp hpe
    rcases hq with rfl | rfl | rfl | rfl
    · simp [qLink, Query.predecessor] at hp; right; right; left; exact hp.1.symm
    · simp [qOneAdd, Query.predecessor] at hp; right; right; left; exact hp.1.symm
    · simp [qOne, Query.predecessor] at hp; rw [← hp.1] at hpe; simp [Query.segments] at hpe
    · simp [qAbsOne, Query.predecessor] at hp; rw [← hp.1] at hpe; simp [Query.segments] at hpe
  act := by
    intro q p h a hq hp
    rcases hq with rfl | rfl | rfl | rfl
    · simp [qLink, Query.predecessor] at hp
      obtain ⟨_, _, rfl⟩ := hp
      refine ⟨fun lq pos hm => ?_, sub_of_name _ _ (by decide)⟩
      simp [aAddLink, Action.params] at hm
      obtain ⟨rfl, rfl⟩ := hm
      exact ⟨fun _ => Or.inr (Or.inr (Or.inr rfl)), fun hc => by simp [qAbsOne, Query.absolute] at hc⟩
    · simp [qOneAdd, Query.predecessor] at hp
      obtain ⟨_, _, rfl⟩ := hp
      exact plain_act _ _ _ _ (by decide)
    · simp [qOne, Query.predecessor] at hp
      obtain ⟨_, _, rfl⟩ := hp
      exact plain_act _ _ _ _ (by decide)
    · simp [qAbsOne, Query.predecessor] at hp
      obtain ⟨_, _, rfl⟩ := hp
      exact plain_act _ _ _ _ (by decide)
  text := fun _ _ h => h.elim

theorem canon0 : ∀ q, C0 q → CanonOK env0 q := by
  intro q hq
  rcases hq with rfl | rfl | rfl | rfl
  · exact CanonOK.of_check (m := 8) (m' := 9) (by decide +kernel)
  · exact CanonOK.of_check (m := 8) (m' := 9) (by decide +kernel)
  · exact CanonOK.of_check (m := 8) (m' := 9) (by decide +kernel)
  · exact CanonOK.of_check (m := 8) (m' := 9) (by decide +kernel)

end Liquer.Ex
