/-
C02 helper lemmas, part 3: the terminals of the grammar in their canonical context — what each one
consumes when the text that follows is a delimiter (`-`, `/`, `~E`) or the end of the input.
-/
import LiquerProofs.Lemmas.ParseParam

namespace Liquer
open PS

/-! ### follow sets -/

/-- what may follow a query: the end of the input or the end of the enclosing link -/
def qStop (r : Str) : Bool := r.isEmpty || isPrefix ['~', 'E'] r

/-- what may follow a parameter list, a file name or a resource name -/
def dpStop (r : Str) : Bool := qStop r || r.head? == some '/'

theorem pieceStop_of_dpStop {r : Str} (h : dpStop r = true) : pieceStop r = true := by
  simp only [dpStop, qStop, pieceStop, Bool.or_eq_true] at h ⊢
  rcases h with (h | h) | h
  · exact Or.inl (Or.inl (Or.inl h))
  · exact Or.inr h
  · exact Or.inl (Or.inr h)

theorem dpStop_of_qStop {r : Str} (h : qStop r = true) : dpStop r = true := by
  simp [dpStop, h]

theorem pieceStop_dash (t : Str) : pieceStop ('-' :: t) = true := by simp [pieceStop]
theorem dpStop_slash (t : Str) : dpStop ('/' :: t) = true := by simp [dpStop]
theorem pieceStop_slash (t : Str) : pieceStop ('/' :: t) = true := by simp [pieceStop]

theorem qStop_cases {r : Str} (h : qStop r = true) : r = [] ∨ ∃ t, r = '~' :: 'E' :: t := by
  simp only [qStop, Bool.or_eq_true] at h
  rcases h with h | h
  · left; simpa using h
  · right; exact (isPrefix_iff _ _).mp h

theorem dpStop_cases {r : Str} (h : dpStop r = true) :
    r = [] ∨ (∃ t, r = '~' :: 'E' :: t) ∨ ∃ t, r = '/' :: t := by
  simp only [dpStop, Bool.or_eq_true, beq_iff_eq] at h
  rcases h with h | h
  · rcases qStop_cases h with h | h
    · exact Or.inl h
    · exact Or.inr (Or.inl h)
  · right; right
    cases r with
    | nil => simp at h
    | cons c t => simp only [List.head?_cons, Option.some.injEq] at h; exact ⟨t, by rw [h]⟩

theorem dpStop_not_dash {r : Str} (h : dpStop r = true) : stopAt [(45, 45)] r = true := by
  rcases dpStop_cases h with rfl | ⟨t, rfl⟩ | ⟨t, rfl⟩ <;> simp [stopAt] <;> decide

theorem pieceStop_head {r : Str} (h : pieceStop r = true) :
    r = [] ∨ ∃ c t, r = c :: t ∧ c ∈ Inst.delims := by
  rcases pieceStop_cases h with rfl | ⟨t, rfl⟩ | ⟨t, rfl⟩ | ⟨t, rfl⟩
  · exact Or.inl rfl
  · exact Or.inr ⟨_, _, rfl, by simp [Inst.delims]⟩
  · exact Or.inr ⟨_, _, rfl, by simp [Inst.delims]⟩
  · exact Or.inr ⟨_, _, rfl, by simp [Inst.delims]⟩

theorem dpStop_head {r : Str} (h : dpStop r = true) :
    r = [] ∨ ∃ c t, r = c :: t ∧ c ∈ ['/', '~'] := by
  rcases dpStop_cases h with rfl | ⟨t, rfl⟩ | ⟨t, rfl⟩
  · exact Or.inl rfl
  · exact Or.inr ⟨_, _, rfl, by simp⟩
  · exact Or.inr ⟨_, _, rfl, by simp⟩

theorem stopAt_of_excl {r : Re} {ds : List Char} (h : ds.all (Inst.excl r) = true) {rest : Str}
    (hr : rest = [] ∨ ∃ c t, rest = c :: t ∧ c ∈ ds) : ∀ it ∈ r, stopAt it.ranges rest = true := by
  intro it hit
  rcases hr with rfl | ⟨c, t, rfl, hc⟩
  · rfl
  · have := List.all_eq_true.mp h c hc
    simp only [Inst.excl, List.all_eq_true] at this
    simpa [stopAt] using this it hit

theorem excl_item {r : Re} {c : Char} (h : Inst.excl r c = true) {it : ReItem} (hit : it ∈ r) :
    inRanges it.ranges c = false := by
  simp only [Inst.excl, List.all_eq_true] at h
  simpa using h it hit

/-! ### white space in names -/

theorem fullMatch_noWs {r : Re} (hr : Gen.whiteChars.all (Inst.excl r) = true) {s : Str}
    (h : fullMatch r s = true) : NoWs s := by
  intro c hc
  obtain ⟨it, hit, hin⟩ := fullMatch_mem h c hc
  cases hw : isWhite c with
  | false => rfl
  | true =>
    have hm : c ∈ Gen.whiteChars := by simpa [isWhite] using hw
    have := excl_item (List.all_eq_true.mp hr c hm) hit
    rw [hin] at this; cases this

theorem terminal_noWhite {r : Re}
    (hr : r ∈ [Gen.identifierRe, Gen.filenameRe, Gen.resourceNameRe, Gen.parameterTextRe,
      Gen.percentEncodingRe, Gen.resourceIdentifierRe, Gen.segmentIdentifierNamedRe,
      Gen.segmentIdentifierBareRe]) : Gen.whiteChars.all (Inst.excl r) = true :=
  List.all_eq_true.mp Inst.terminals_noWhite r hr

theorem isWhite_dash : isWhite '-' = false := by
  apply isWhite_false_of (P := fun c => c == '-') _ (by rfl)
  have := Inst.tokSafe_noWhite
  simp only [List.all_eq_true, Bool.and_eq_true] at this ⊢
  intro w hw; have := (this w hw).1.2; simpa using this

theorem isWhite_slash : isWhite '/' = false := by
  apply isWhite_false_of (P := fun c => c == '/') _ (by rfl)
  have := Inst.tokSafe_noWhite
  simp only [List.all_eq_true, Bool.and_eq_true] at this ⊢
  intro w hw; have := (this w hw).2; simpa using this

theorem isWhite_tilde : isWhite '~' = false :=
  (noWs_of_tokSafe (s := ['~']) (by simp; decide)) '~' (by simp)

theorem noWs_replicate_dash (n : Nat) : NoWs (List.replicate n '-') := by
  intro c hc
  rw [List.mem_replicate] at hc
  rw [hc.2]; exact isWhite_dash

/-! ### plain terminals -/

theorem re_identifier {name rest : Str} {p : Nat} (hf : fullMatch Gen.identifierRe name = true)
    (hs : pieceStop rest = true) (hws : NoWs (name ++ rest)) :
    PS.re Gen.identifierRe ⟨name ++ rest, p⟩ = some (name, ⟨rest, p + name.length⟩) :=
  re_append hf (stopAt_of_excl Inst.identifier_stops (pieceStop_head hs)) hws

theorem re_filename {name rest : Str} {p : Nat} (hf : fullMatch Gen.filenameRe name = true)
    (hs : dpStop rest = true) (hws : NoWs (name ++ rest)) :
    PS.re Gen.filenameRe ⟨name ++ rest, p⟩ = some (name, ⟨rest, p + name.length⟩) :=
  re_append hf (stopAt_of_excl Inst.filename_stops (dpStop_head hs)) hws

theorem re_resourceName {name rest : Str} {p : Nat} (hf : fullMatch Gen.resourceNameRe name = true)
    (hs : dpStop rest = true) (hws : NoWs (name ++ rest)) :
    PS.re Gen.resourceNameRe ⟨name ++ rest, p⟩ = some (name, ⟨rest, p + name.length⟩) :=
  re_append hf (stopAt_of_excl Inst.resourceName_stops (dpStop_head hs)) hws

/-- a full match of an expression whose first item is one mandatory character -/
theorem fullMatch_first {rs : List (Nat × Nat)} {its : Re} {s : Str}
    (h : fullMatch (⟨rs, 1, some 1⟩ :: its) s = true) : ∃ c t, s = c :: t ∧ inRanges rs c = true := by
  rw [fullMatch_iff, matchRe_cons] at h
  cases s with
  | nil => simp [takeClass_nil] at h
  | cons c t =>
    refine ⟨c, t, rfl, ?_⟩
    cases hc : inRanges rs c with
    | true => rfl
    | false => simp [takeClass_cons_one, hc] at h

theorem re_fail_first {rs : List (Nat × Nat)} {mx : Option Nat} {its : Re} {s : Str} {p : Nat}
    (hws : NoWs s) (hs : stopAt rs s = true) : PS.re (⟨rs, 1, mx⟩ :: its) ⟨s, p⟩ = none := by
  rw [re_noWs hws, matchRe_fail_first (by simp) hs]

/-! ### dashes -/

theorem takeWhile_dash_replicate (n : Nat) (x : Str) (hx : stopAt [(45, 45)] x = true) :
    (List.replicate n '-' ++ x).takeWhile (· == '-') = List.replicate n '-' := by
  induction n with
  | zero =>
    cases x with
    | nil => rfl
    | cons c t =>
      have : c ≠ '-' := by rintro rfl; simp [stopAt] at hx; revert hx; decide
      simp [this]
  | succ n ih => simp [List.replicate_succ, ih]

theorem splitLevel_replicate (n : Nat) (x : Str) (hx : stopAt [(45, 45)] x = true) :
    splitLevel (List.replicate n '-' ++ x) = (n, x) := by
  simp [splitLevel, takeWhile_dash_replicate n x hx]

theorem stopAt_dash_of {rs : List (Nat × Nat)} (h : inRanges rs '-' = false) {c : Char} {t : Str}
    (hc : inRanges rs c = true) : stopAt [(45, 45)] (c :: t) = true := by
  have : c ≠ '-' := by rintro rfl; rw [h] at hc; cases hc
  have h2 : c.toNat ≠ 45 := fun e => this ((char_eq_iff _ _).mpr e)
  simp only [stopAt, inRanges, List.any_cons, List.any_nil, Bool.or_false, Bool.not_eq_true',
    Bool.and_eq_false_imp, decide_eq_true_eq, decide_eq_false_iff_not]
  omega

theorem inRanges_dash : inRanges [(45, 45)] '-' = true := by decide

theorem matchRe_dashes {tl : Re} {lvl : Nat} {x : Str} (hl : 1 ≤ lvl)
    (hx : stopAt [(45, 45)] x = true) :
    matchRe (Inst.dashItem :: tl) (List.replicate lvl '-' ++ x) =
      match matchRe tl x with
      | none => none
      | some (m2, r2) => some (List.replicate lvl '-' ++ m2, r2) := by
  rw [matchRe_cons]
  have : takeClass Inst.dashItem.ranges Inst.dashItem.max (List.replicate lvl '-' ++ x) =
      (List.replicate lvl '-', x) := by
    apply takeClass_run
    · intro c hc; rw [List.mem_replicate] at hc; rw [hc.2]; exact inRanges_dash
    · intro k hk; simp [Inst.dashItem] at hk
    · exact Or.inr hx
  rw [this]
  simp only [List.length_replicate]
  rw [if_neg (by simp only [Inst.dashItem]; omega)]
  rfl

/-! ### header identifiers -/

/-- the name part of a transform header matches the expression behind the dashes -/
theorem segIdTail_of_nameOK {n : Str} (h : transformHeaderNameOK n = true) (hne : n ≠ []) :
    fullMatch Inst.segIdTail n = true := by
  simp only [transformHeaderNameOK, Bool.or_eq_true, Bool.and_eq_true, bne_iff_ne, ne_eq] at h
  rcases h with h | ⟨h1, h2⟩
  · simp at h; exact absurd h hne
  · have hx : stopAt [(45, 45)] n = true := by
      cases n with
      | nil => rfl
      | cons c t =>
        simp only [List.head?_cons, Option.some.injEq] at h1
        have h2 : c.toNat ≠ 45 := fun e => h1 ((char_eq_iff _ _).mpr e)
        simp only [stopAt, inRanges, List.any_cons, List.any_nil, Bool.or_false, Bool.not_eq_true',
          Bool.and_eq_false_imp, decide_eq_true_eq, decide_eq_false_iff_not]
        omega
    rw [fullMatch_iff, Inst.segmentIdentifierNamed_shape] at h2
    have := matchRe_dashes (tl := Inst.segIdTail) (lvl := 1) (x := n) (Nat.le_refl _) hx
    simp only [List.replicate_one, List.singleton_append] at this
    rw [this] at h2
    rw [fullMatch_iff]
    cases hm : matchRe Inst.segIdTail n with
    | none => simp [hm] at h2
    | some mr =>
      obtain ⟨m2, r2⟩ := mr
      simp only [hm, Option.some.injEq, Prod.mk.injEq, List.cons.injEq, true_and] at h2
      rw [h2.1, h2.2]

theorem resIdTail_of_nameOK {n : Str} (h : resourceHeaderNameOK n = true) :
    fullMatch Inst.resIdTail ('R' :: n) = true := by
  unfold resourceHeaderNameOK at h
  rw [fullMatch_iff, Inst.resourceIdentifier_shape] at h
  have hx : stopAt [(45, 45)] ('R' :: n) = true := by simp [stopAt]; decide
  have := matchRe_dashes (tl := Inst.resIdTail) (lvl := 1) (x := 'R' :: n) (Nat.le_refl _) hx
  simp only [List.replicate_one, List.singleton_append] at this
  rw [this] at h
  rw [fullMatch_iff]
  cases hm : matchRe Inst.resIdTail ('R' :: n) with
  | none => simp [hm] at h
  | some mr =>
    obtain ⟨m2, r2⟩ := mr
    simp only [hm, Option.some.injEq, Prod.mk.injEq, List.cons.injEq, true_and] at h
    rw [h.1, h.2]

theorem segIdTail_head {n : Str} (h : fullMatch Inst.segIdTail n = true) :
    ∃ c t, n = c :: t ∧ inRanges Inst.siR1 c = true := by
  rw [Inst.segIdTail_shape] at h
  exact fullMatch_first h

theorem siR1_no_dash : inRanges Inst.siR1 '-' = false := by
  have := Inst.segIdTail_stops
  rw [Inst.segIdTail_shape] at this
  simp only [Inst.delims, Inst.excl, List.all_cons, List.all_nil, Bool.and_true, Bool.and_eq_true,
    Bool.not_eq_true'] at this
  exact this.1.1

theorem siR1_no_slash : inRanges Inst.siR1 '/' = false := by
  have := Inst.segIdTail_stops
  rw [Inst.segIdTail_shape] at this
  simp only [Inst.delims, Inst.excl, List.all_cons, List.all_nil, Bool.and_true, Bool.and_eq_true,
    Bool.not_eq_true'] at this
  exact this.2.1.1

/-- a named transform header -/
theorem parseSegIdent_named {lvl : Nat} {name rest : Str} {p : Nat} (hl : 1 ≤ lvl)
    (hf : fullMatch Inst.segIdTail name = true) (hs : pieceStop rest = true)
    (hws : NoWs (List.replicate lvl '-' ++ (name ++ rest))) :
    parseSegIdent ⟨List.replicate lvl '-' ++ (name ++ rest), p⟩ =
      some ((lvl, name), ⟨rest, p + (List.replicate lvl '-' ++ name).length⟩) := by
  obtain ⟨c, t, rfl, hc⟩ := segIdTail_head hf
  have hx : stopAt [(45, 45)] (c :: t ++ rest) = true := stopAt_dash_of siR1_no_dash hc
  have hx' : stopAt [(45, 45)] (c :: t) = true := stopAt_dash_of siR1_no_dash hc
  have hm := matchRe_append _ _ _ rest ((fullMatch_iff _ _).mp hf)
    (stopAt_of_excl Inst.segIdTail_stops (pieceStop_head hs))
  simp only [parseSegIdent, re_noWs hws, Inst.segmentIdentifierNamed_shape, matchRe_dashes hl hx, hm,
    splitLevel_replicate lvl _ hx']

/-- a resource header -/
theorem parseResIdent_ok {lvl : Nat} {name rest : Str} {p : Nat} (hl : 1 ≤ lvl)
    (hf : fullMatch Inst.resIdTail ('R' :: name) = true) (hs : pieceStop rest = true)
    (hws : NoWs (List.replicate lvl '-' ++ ('R' :: name ++ rest))) :
    parseResIdent ⟨List.replicate lvl '-' ++ ('R' :: name ++ rest), p⟩ =
      some ((lvl, name), ⟨rest, p + (List.replicate lvl '-' ++ 'R' :: name).length⟩) := by
  have hx : stopAt [(45, 45)] ('R' :: name ++ rest) = true := by simp [stopAt]; decide
  have hx' : stopAt [(45, 45)] ('R' :: name) = true := by simp [stopAt]; decide
  have hm := matchRe_append _ _ _ rest ((fullMatch_iff _ _).mp hf)
    (stopAt_of_excl Inst.resIdTail_stops (pieceStop_head hs))
  simp only [parseResIdent, re_noWs hws, Inst.resourceIdentifier_shape, matchRe_dashes hl hx, hm,
    splitLevel_replicate lvl _ hx', List.drop_succ_cons, List.drop_zero]

/-- a bare transform header: dashes followed by `/` -/
theorem parseSegIdent_bare {lvl : Nat} {r : Str} {p : Nat} (hl : 1 ≤ lvl)
    (hws : NoWs (List.replicate lvl '-' ++ '/' :: r)) :
    parseSegIdent ⟨List.replicate lvl '-' ++ '/' :: r, p⟩ =
      some ((lvl, []), ⟨'/' :: r, p + (List.replicate lvl '-').length⟩) := by
  have hx : stopAt [(45, 45)] ('/' :: r) = true := by simp [stopAt]; decide
  have h1 : matchRe Inst.segIdTail ('/' :: r) = none := by
    rw [Inst.segIdTail_shape]
    exact matchRe_fail_first (by simp) (by simp [stopAt, siR1_no_slash])
  have h2 := splitLevel_replicate lvl [] (by rfl)
  simp only [List.append_nil] at h2
  simp only [parseSegIdent, re_noWs hws, Inst.segmentIdentifierNamed_shape, matchRe_dashes hl hx, h1,
    Inst.segmentIdentifierBare_shape, matchRe_nil, List.append_nil, lit_cons hws.right, h2]

/-- a text that does not begin with a dash is no header -/
theorem parseSegIdent_none {r : Str} {p : Nat} (hws : NoWs r) (hx : stopAt [(45, 45)] r = true) :
    parseSegIdent ⟨r, p⟩ = none := by
  have h1 : PS.re Gen.segmentIdentifierNamedRe ⟨r, p⟩ = none := by
    rw [Inst.segmentIdentifierNamed_shape]; exact re_fail_first hws hx
  have h2 : PS.re Gen.segmentIdentifierBareRe ⟨r, p⟩ = none := by
    rw [Inst.segmentIdentifierBare_shape]; exact re_fail_first hws hx
  simp only [parseSegIdent, h1, h2]

theorem parseResIdent_none {r : Str} {p : Nat} (hws : NoWs r) (hx : stopAt [(45, 45)] r = true) :
    parseResIdent ⟨r, p⟩ = none := by
  have h1 : PS.re Gen.resourceIdentifierRe ⟨r, p⟩ = none := by
    rw [Inst.resourceIdentifier_shape]; exact re_fail_first hws hx
  simp only [parseResIdent, h1]

theorem notSegStart_of_noDash {r : Str} {p : Nat} (hws : NoWs r) (hx : stopAt [(45, 45)] r = true) :
    notSegStart ⟨r, p⟩ = true := by
  simp [notSegStart, parseSegIdent_none hws hx, parseResIdent_none hws hx]

/-- a resource header is not a transform header -/
theorem parseSegIdent_resource {lvl : Nat} {r : Str} {p : Nat} (hl : 1 ≤ lvl)
    (hws : NoWs (List.replicate lvl '-' ++ 'R' :: r)) :
    parseSegIdent ⟨List.replicate lvl '-' ++ 'R' :: r, p⟩ = none := by
  have hx : stopAt [(45, 45)] ('R' :: r) = true := by simp [stopAt]; decide
  have h1 : matchRe Inst.segIdTail ('R' :: r) = none := by
    rw [Inst.segIdTail_shape]
    exact matchRe_fail_first (by simp) (by simp [stopAt, Inst.segId_not_R])
  have hlit : lit ['/'] ⟨'R' :: r, p + (List.replicate lvl '-' ++ []).length⟩ = none :=
    lit_ne_head hws.right (by decide)
  simp only [parseSegIdent, re_noWs hws, Inst.segmentIdentifierNamed_shape, matchRe_dashes hl hx, h1,
    Inst.segmentIdentifierBare_shape, matchRe_nil, hlit]

end Liquer
