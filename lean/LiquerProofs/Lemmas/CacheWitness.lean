/-
Non-vacuity witnesses for the codec laws of the cache refinement theorems: an honest (if wasteful)
codec obtained from `Encodable` — a value is written as that many zero bytes.  Only used by `example`s.
-/
import Mathlib.Tactic.DeriveEncodable
import Mathlib.Logic.Equiv.List
import LiquerProofs.Lemmas.CacheFileRef
import LiquerProofs.Lemmas.CacheSqlRef
import LiquerProofs.Lemmas.CacheStoreRef

namespace Liquer.Witness
open Liquer

instance : Encodable Char :=
  Encodable.ofLeftInjection (fun c => c.toNat) (fun n => some (Char.ofNat n)) (fun c => by simp [Char.ofNat_toNat])

deriving instance Encodable for CMeta

def unary {α : Type} [Encodable α] (a : α) : Data := List.replicate (Encodable.encode a) 0
def ofUnary {α : Type} [Encodable α] (b : Data) : Option α := Encodable.decode b.length

theorem ofUnary_unary {α : Type} [Encodable α] (a : α) : ofUnary (unary a) = some a := by
  simp [ofUnary, unary, Encodable.encodek]

def fileCfg : FileCfg :=
  { h := id, ext := id, enc := id, dec := some, serM := unary, deM := ofUnary, serD := fun _ v => unary v, deD := fun _ b => ofUnary b }

theorem fileCfg_ok : Crash.CodecOK fileCfg := ⟨fun _ => rfl, ofUnary_unary, fun _ v => ofUnary_unary v⟩

def sqlCfg : SqlCfg :=
  { deleteBeforeInsert := true, metaEnabled := true, enc := id, dec := some, serM := unary, deM := ofUnary,
    serD := fun _ v => unary v, deD := fun _ b => ofUnary b }

theorem sqlCfg_ok : SqlOK sqlCfg := ⟨rfl, rfl, fun _ => rfl, ofUnary_unary, fun _ v => ofUnary_unary v⟩

def storeCfg (flat : Bool) : StoreCCfg :=
  { path := "cache".toList, flat := flat, h := fun k => List.replicate (Encodable.encode k) 'x',
    encM := fun m => List.replicate (Encodable.encode m) 'x', decM := fun s => Encodable.decode s.length,
    serD := fun _ v => unary v, deD := fun _ b => ofUnary b }

theorem storeCfg_ok (flat : Bool) : CodecS (storeCfg flat) :=
  ⟨fun m => by simp [storeCfg, Encodable.encodek], fun _ v => ofUnary_unary v⟩

theorem storeCfg_hinj (flat : Bool) (a b : Str) (h : (storeCfg flat).h a = (storeCfg flat).h b) : a = b := by
  have := congrArg List.length h
  simp only [storeCfg, List.length_replicate] at this
  exact Encodable.encode_injective this

theorem storeCfg_noslash (flat : Bool) (k : Str) : '/' ∉ (storeCfg flat).h k := by
  simp [storeCfg, List.mem_replicate]

end Liquer.Witness
