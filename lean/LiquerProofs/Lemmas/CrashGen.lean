/-
Generic facts on `crashAt` (any step executor): unfolding, invariants along a protocol whose last step
publishes, and names a protocol never touches.
-/
import LiquerModel.CrashSteps
import LiquerProofs.Lemmas.CacheAL

namespace Liquer
namespace Crash

variable {ν φ : Type}

def Step.names : Step ν → List ν
  | .mkdir p => [p] | .create p => [p] | .append p _ => [p] | .close p => [p] | .rename a b => [a, b] | .unlink p => [p]

def Step.isAppend : Step ν → Bool
  | .append _ _ => true
  | _ => false

theorem crashAt_nil (exec : φ → Step ν → φ) (n cut : Nat) (fs : φ) : crashAt exec n cut [] fs = fs := by
  simp [crashAt]

theorem crashAt_zero_cons (exec : φ → Step ν → φ) (cut : Nat) (s : Step ν) (rest : List (Step ν)) (fs : φ)
    (h : s.isAppend = false) : crashAt exec 0 cut (s :: rest) fs = fs := by
  cases s <;> simp_all [crashAt, Step.isAppend]

theorem crashAt_succ_cons (exec : φ → Step ν → φ) (n cut : Nat) (s : Step ν) (rest : List (Step ν)) (fs : φ) :
    crashAt exec (n + 1) cut (s :: rest) fs = crashAt exec n cut rest (exec fs s) := by
  simp [crashAt]

theorem crashAt_ge (exec : φ → Step ν → φ) (n cut : Nat) (steps : List (Step ν)) (fs : φ) (h : steps.length ≤ n) :
    crashAt exec n cut steps fs = steps.foldl exec fs := by
  simp [crashAt, List.take_of_length_le h, List.drop_eq_nil_of_le h]

/-- a property that every complete step and every partial write of the protocol preserves holds at every crash point -/
theorem crashAt_inv (exec : φ → Step ν → φ) (I : φ → Prop) (steps : List (Step ν))
    (hstep : ∀ s ∈ steps, ∀ fs, I fs → I (exec fs s))
    (hpart : ∀ p b, Step.append p b ∈ steps → ∀ cut fs, I fs → I (exec fs (.append p (b.take cut)))) :
    ∀ (n cut : Nat) (fs : φ), I fs → I (crashAt exec n cut steps fs) := by
  induction steps with
  | nil => intro n cut fs h; rw [crashAt_nil]; exact h
  | cons s rest ih =>
    intro n cut fs h
    cases n with
    | succ n =>
      rw [crashAt_succ_cons]
      exact ih (fun s' hs' => hstep s' (List.mem_cons_of_mem _ hs')) (fun p b hm => hpart p b (List.mem_cons_of_mem _ hm)) n cut _
        (hstep s (List.mem_cons_self ..) fs h)
    | zero =>
      cases s with
      | append p b => simpa [crashAt] using hpart p b (List.mem_cons_self ..) cut fs h
      | mkdir p => rw [crashAt_zero_cons _ _ _ _ _ rfl]; exact h
      | create p => rw [crashAt_zero_cons _ _ _ _ _ rfl]; exact h
      | close p => rw [crashAt_zero_cons _ _ _ _ _ rfl]; exact h
      | rename a b => rw [crashAt_zero_cons _ _ _ _ _ rfl]; exact h
      | unlink p => rw [crashAt_zero_cons _ _ _ _ _ rfl]; exact h

/-- crash strictly before the last step of `pre ++ [last]` (which is not a write): only steps of `pre` have run -/
theorem crashAt_before_last (exec : φ → Step ν → φ) (I : φ → Prop) (pre : List (Step ν)) (last : Step ν)
    (hlast : last.isAppend = false)
    (hstep : ∀ s ∈ pre, ∀ fs, I fs → I (exec fs s))
    (hpart : ∀ p b, Step.append p b ∈ pre → ∀ cut fs, I fs → I (exec fs (.append p (b.take cut)))) :
    ∀ (n cut : Nat) (fs : φ), n ≤ pre.length → I fs → I (crashAt exec n cut (pre ++ [last]) fs) := by
  induction pre with
  | nil =>
    intro n cut fs hn h
    have : n = 0 := by simpa using hn
    subst this
    rw [List.nil_append, crashAt_zero_cons _ _ _ _ _ hlast]; exact h
  | cons s rest ih =>
    intro n cut fs hn h
    cases n with
    | succ n =>
      rw [List.cons_append, crashAt_succ_cons]
      exact ih (fun s' hs' => hstep s' (List.mem_cons_of_mem _ hs')) (fun p b hm => hpart p b (List.mem_cons_of_mem _ hm)) n cut _
        (by simpa using hn) (hstep s (List.mem_cons_self ..) fs h)
    | zero =>
      rw [List.cons_append]
      cases s with
      | append p b => simpa [crashAt] using hpart p b (List.mem_cons_self ..) cut fs h
      | mkdir p => rw [crashAt_zero_cons _ _ _ _ _ rfl]; exact h
      | create p => rw [crashAt_zero_cons _ _ _ _ _ rfl]; exact h
      | close p => rw [crashAt_zero_cons _ _ _ _ _ rfl]; exact h
      | rename a b => rw [crashAt_zero_cons _ _ _ _ _ rfl]; exact h
      | unlink p => rw [crashAt_zero_cons _ _ _ _ _ rfl]; exact h

end Crash
end Liquer
