/-
Answer-extension stability of the oracle evaluator: running an evaluation with more answers available at the end of the answer
list changes nothing as long as the evaluation does not starve, and when it starves the longer run goes on from the trace the
shorter one stopped at.  Hence the trace with answers `A` is a prefix of the trace with answers `A ++ B`.
-/
import LiquerProofs.Lemmas.ConcO2

namespace Liquer

/-- the same world with more answers available at the end -/
def OW.ext (w : OW) (B : List (Option EState)) : OW := { w with answers := w.answers ++ B }

@[simp] theorem OW.ext_starved (w : OW) (B : List (Option EState)) : (w.ext B).starved = w.starved := rfl
@[simp] theorem OW.ext_trace (w : OW) (B : List (Option EState)) : (w.ext B).trace = w.trace := rfl
@[simp] theorem OW.ext_answers (w : OW) (B : List (Option EState)) : (w.ext B).answers = w.answers ++ B := rfl
@[simp] theorem OW.ext_calls (w : OW) (B : List (Option EState)) : (w.ext B).calls = w.calls := rfl

/-! ### the primitives that ask nothing commute with the extension -/

theorem OW.emit_ext (w : OW) (B : List (Option EState)) (op : COp) : (w.ext B).emit op = (w.emit op).ext B := by
  unfold OW.emit
  cases h : w.starved <;> simp only [OW.ext_starved, h, Bool.false_eq_true, if_true, if_false] <;> rfl

theorem OW.storeMeta_ext (w : OW) (B : List (Option EState)) (k x : Str) :
    (w.ext B).storeMeta k x = (w.storeMeta k x).ext B := OW.emit_ext w B _
theorem OW.store_ext (w : OW) (B : List (Option EState)) (st : EState) :
    (w.ext B).store st = (w.store st).ext B := OW.emit_ext w B _
theorem OW.remove_ext (w : OW) (B : List (Option EState)) (k : Str) :
    (w.ext B).remove k = (w.remove k).ext B := OW.emit_ext w B _

theorem OW.log_ext (w : OW) (B : List (Option EState)) (c : Str) : (w.ext B).log c = (w.log c).ext B := by
  unfold OW.log
  cases h : w.starved <;> simp only [OW.ext_starved, h, Bool.false_eq_true, if_true, if_false] <;> rfl

theorem OW.metaIf_ext (w : OW) (B : List (Option EState)) (uc : Bool) (k x : Str) :
    (w.ext B).metaIf uc k x = (w.metaIf uc k x).ext B := by
  cases uc
  · rfl
  · exact OW.storeMeta_ext w B k x

theorem OW.logCall_ext (w : OW) (B : List (Option EState)) (st : EState) (sig : CmdSig) (args : List Val) :
    (w.ext B).logCall st sig args = (w.logCall st sig args).ext B := by
  unfold OW.logCall
  split
  · rfl
  · exact OW.log_ext w B _

theorem subWO_ext (uc : Bool) (raw : Str) (o : Outcome) (w : OW) (B : List (Option EState)) :
    subWO uc raw o (w.ext B) = (subWO uc raw o w).ext B := by
  unfold subWO
  split
  · exact OW.metaIf_ext _ _ _ _ _
  · exact OW.metaIf_ext _ _ _ _ _
  · rfl

theorem admitWO_ext (uc : Bool) (key : Str) (st3 : EState) (w : OW) (B : List (Option EState)) :
    admitWO uc key st3 (w.ext B) = (admitWO uc key st3 w).ext B := by
  unfold admitWO
  split
  · rfl
  · split
    · exact OW.store_ext _ _ _
    · split
      · exact OW.storeMeta_ext _ _ _ _
      · exact OW.remove_ext _ _ _

theorem fileWO_ext (uc : Bool) (key : Str) (st2 : EState) (w : OW) (B : List (Option EState)) :
    fileWO uc key st2 (w.ext B) = (fileWO uc key st2 w).ext B := by
  unfold fileWO
  split
  · rfl
  · split
    · exact OW.store_ext _ _ _
    · exact OW.remove_ext _ _ _

/-! ### the relation between the two runs -/

/-- `r` is the result from `w`, `r'` the result from `w.ext B` -/
def ExtO {α : Type} (B : List (Option EState)) (r r' : OW × α) : Prop :=
  (r.1.starved = false → r' = (r.1.ext B, r.2)) ∧ (r.1.starved = true → r.1.trace <+: r'.1.trace)

theorem ExtO.ret {α : Type} (B : List (Option EState)) (w : OW) (o : α) : ExtO B (w, o) (w.ext B, o) :=
  ⟨fun _ => rfl, fun _ => List.prefix_refl _⟩

/-- sequential composition: `k` is what follows; when the first part starves, `k` hands its world back -/
theorem ExtO.bind {α β : Type} {B : List (Option EState)} {r r' : OW × α} (k : OW × α → OW × β)
    (h : ExtO B r r')
    (hns : r.1.starved = false → ExtO B (k r) (k (r.1.ext B, r.2)))
    (hst : r.1.starved = true → (k r).1 = r.1)
    (hfr : r'.1.trace <+: (k r').1.trace) : ExtO B (k r) (k r') := by
  cases hs : r.1.starved
  · rw [h.1 hs]; exact hns hs
  · have e := hst hs
    refine ⟨fun h' => ?_, fun _ => ?_⟩
    · rw [e, hs] at h'; cases h'
    · rw [e]; exact (h.2 hs).trans hfr

/-- the same with the frame of the first part: a starved first part returned `u` -/
theorem ExtO.bindO {α β : Type} {B : List (Option EState)} {u : α} {w : OW} {r r' : OW × α} (k : OW × α → OW × β)
    (hw : w.starved = false) (f : OkO u w r) (h : ExtO B r r')
    (hns : r.1.starved = false → ExtO B (k r) (k (r.1.ext B, r.2)))
    (hst : ∀ w1, (k (w1, u)).1 = w1)
    (hfr : r'.1.trace <+: (k r').1.trace) : ExtO B (k r) (k r') := by
  refine ExtO.bind k h hns (fun hs => ?_) hfr
  have hu := f.2.2 hw hs
  rcases r with ⟨w1, o⟩
  simp only at hu
  subst hu
  exact hst w1

/-- the look-up -/
theorem OW.askIf_extO (B : List (Option EState)) (w : OW) (c : Bool) (k : Str) :
    ExtO B (w.askIf c k) ((w.ext B).askIf c k) := by
  cases c
  · exact ExtO.ret B w none
  · simp only [OW.askIf, if_true]
    cases hA : w.answers with
    | nil =>
      have e : w.ask k = ({ w with starved := true, trace := w.trace ++ [.get k] }, none) := by
        simp only [OW.ask, hA]
      refine ⟨fun h => ?_, fun _ => ?_⟩
      · rw [e] at h; cases h
      · rw [OW.ask_trace, OW.ask_trace]; exact List.prefix_refl _
    | cons a rest =>
      have e : w.ask k = ({ w with answers := rest, trace := w.trace ++ [.get k] }, a) := by
        simp only [OW.ask, hA]
      have e' : (w.ext B).ask k = (({ w with answers := rest, trace := w.trace ++ [.get k] } : OW).ext B, a) := by
        simp only [OW.ask, OW.ext, hA, List.cons_append]
      rw [e, e']; exact ExtO.ret _ _ _

/-! ### the four functions -/

structure ExtAtO (env : Env) (B : List (Option EState)) (n : Nat) : Prop where
  text : ∀ w t ug, w.starved = false → ExtO B (evalTextO env n w t ug) (evalTextO env n (w.ext B) t ug)
  q : ∀ w q raw extra input uc, w.starved = false →
    ExtO B (evalQO env n w q raw extra input uc) (evalQO env n (w.ext B) q raw extra input uc)
  act : ∀ w st a raw parent extra uc, w.starved = false →
    ExtO B (evalActionO env n w st a raw parent extra uc) (evalActionO env n (w.ext B) st a raw parent extra uc)
  params : ∀ w ps raw parent, w.starved = false →
    ExtO B (evalParamsO env n w ps raw parent) (evalParamsO env n (w.ext B) ps raw parent)

/-- quiet steps: pull the extension out and finish -/
macro "ext_ret" : tactic => `(tactic| (
  simp only [OW.metaIf_ext, OW.logCall_ext, subWO_ext, admitWO_ext, fileWO_ext]
  exact ExtO.ret _ _ _))

theorem call_extO {env : Env} {B : List (Option EState)} {n : Nat} (ih : ExtAtO env B n) (w1 : OW)
    (hw : w1.starved = false) (st act raw sig x uc) :
    ExtO B (evalCallO env n w1 st act raw sig x uc) (evalCallO env n (w1.ext B) st act raw sig x uc) := by
  unfold evalCallO
  cases parseArgv sig.args x.1 x.2.1 with
  | unmodelled => exact ExtO.ret _ _ _
  | fail => ext_ret
  | ok args =>
    simp only []
    cases cmdSem sig.ns sig.name st.data st.vars args with
    | unmodelled => ext_ret
    | raises => ext_ret
    | value v => ext_ret
    | stateVars v vars => ext_ret
    | nocache v => ext_ret
    | subeval y qtext =>
      simp only [OW.logCall_ext]
      have hw2 : (w1.logCall st sig args).starved = false := by rw [(Quiet.logCall w1 st sig args).2.1]; exact hw
      have f := (frameO env n).text (w1.logCall st sig args) qtext true
      have h := ih.text (w1.logCall st sig args) qtext true hw2
      generalize evalTextO env n (w1.logCall st sig args) qtext true = r at f h ⊢
      generalize evalTextO env n ((w1.logCall st sig args).ext B) qtext true = r' at h ⊢
      refine ExtO.bindO (fun r => (subWO uc raw r.2 r.1, subOutcome st act raw sig x.2.2 y r.2)) hw2 f h ?_ ?_ ?_
      · intro _; ext_ret
      · intro _; rfl
      · exact (Quiet.subWO _ _ _ _).prefix

theorem link_extO {env : Env} {B : List (Option EState)} {n : Nat} (ih : ExtAtO env B n) (w : OW)
    (hw : w.starved = false) (lq : Query) (parent : Str) :
    ExtO B (evalLinkO env n w lq parent) (evalLinkO env n (w.ext B) lq parent) := by
  unfold evalLinkO
  split
  · exact ih.q _ _ _ _ _ _ hw
  · split
    · split
      · exact ExtO.ret _ _ _
      · exact ih.text _ _ _ hw
    · exact ExtO.ret _ _ _

theorem text_extO_step {env : Env} {B : List (Option EState)} {n : Nat} (ih : ExtAtO env B n) (w : OW) (t : Str)
    (ug : Bool) (hw : w.starved = false) :
    ExtO B (evalTextO env (n+1) w t ug) (evalTextO env (n+1) (w.ext B) t ug) := by
  rw [evalTextO_succ, evalTextO_succ]
  split
  · exact ExtO.ret _ _ _
  · exact ih.q _ _ _ _ _ _ hw

/-- what follows the conversion of the remaining parameters -/
def consKO (pv : PVal) (r : OW × (List PVal ⊕ Outcome)) : OW × (List PVal ⊕ Outcome) :=
  match r with
  | (w1, .inl rest) => (w1, .inl (pv :: rest))
  | other => other

/-- what follows the evaluation of a link -/
def linkKO (env : Env) (n : Nat) (pos : Nat) (ps : List Param) (raw parent : Str) (r : OW × Outcome) :
    OW × (List PVal ⊕ Outcome) :=
  match r with
  | (w1, .st v) =>
    if v.isError then (w1, .inr (.raised (some pos) (some raw)))
    else consKO (.expanded v.data pos) (evalParamsO env n w1 ps raw parent)
  | (w1, .raised a b) => (w1, .inr (.raised a b))
  | (w1, .parseError) => (w1, .inr .parseError)
  | (w1, .unmodelled) => (w1, .inr .unmodelled)

theorem evalParamsO_str' (env : Env) (n : Nat) (w : OW) (t : Str) (pos : Nat) (ps : List Param) (raw parent : Str) :
    evalParamsO env (n+1) w (.str t pos :: ps) raw parent = consKO (.text t pos) (evalParamsO env n w ps raw parent) := by
  rw [evalParamsO_str]; rfl

theorem evalParamsO_link' (env : Env) (n : Nat) (w : OW) (lq : Query) (pos : Nat) (ps : List Param) (raw parent : Str) :
    evalParamsO env (n+1) w (.link lq pos :: ps) raw parent = linkKO env n pos ps raw parent (evalLinkO env n w lq parent) := by
  rw [evalParamsO_link]; rfl

theorem consKO_extO {B : List (Option EState)} {w : OW} {r r' : OW × (List PVal ⊕ Outcome)} (pv : PVal)
    (hw : w.starved = false) (f : OkO (.inr .unmodelled) w r) (h : ExtO B r r') : ExtO B (consKO pv r) (consKO pv r') := by
  refine ExtO.bindO _ hw f h ?_ ?_ ?_
  · intro _
    rcases r with ⟨w1, x⟩
    cases x <;> exact ExtO.ret _ _ _
  · intro _; rfl
  · rcases r' with ⟨w1, x⟩
    cases x <;> exact List.prefix_refl _

theorem consKO_trace (pv : PVal) (r : OW × (List PVal ⊕ Outcome)) : (consKO pv r).1.trace = r.1.trace := by
  rcases r with ⟨w1, x⟩
  cases x <;> rfl

theorem params_extO_step {env : Env} {B : List (Option EState)} {n : Nat} (ih : ExtAtO env B n) (w : OW)
    (ps : List Param) (raw parent : Str) (hw : w.starved = false) :
    ExtO B (evalParamsO env (n+1) w ps raw parent) (evalParamsO env (n+1) (w.ext B) ps raw parent) := by
  cases ps with
  | nil => rw [evalParamsO_nil, evalParamsO_nil]; exact ExtO.ret _ _ _
  | cons p ps =>
    cases p with
    | str t pos =>
      rw [evalParamsO_str', evalParamsO_str']
      exact consKO_extO _ hw ((frameO env n).params w ps raw parent) (ih.params w ps raw parent hw)
    | link lq pos =>
      rw [evalParamsO_link', evalParamsO_link']
      refine ExtO.bindO _ hw (link_frameO (frameO env n) w lq parent) (link_extO ih w hw lq parent) ?_ ?_ ?_
      · intro hs
        generalize evalLinkO env n w lq parent = r at hs ⊢
        rcases r with ⟨w1, o⟩
        cases o with
        | st v =>
          simp only [linkKO]
          split
          · exact ExtO.ret _ _ _
          · exact consKO_extO _ hs ((frameO env n).params w1 ps raw parent) (ih.params w1 ps raw parent hs)
        | raised a b => exact ExtO.ret _ _ _
        | parseError => exact ExtO.ret _ _ _
        | unmodelled => exact ExtO.ret _ _ _
      · intro _; rfl
      · generalize evalLinkO env n (w.ext B) lq parent = r'
        rcases r' with ⟨w1, o⟩
        cases o with
        | st v =>
          simp only [linkKO]
          split
          · exact List.prefix_refl _
          · rw [consKO_trace]; exact ((frameO env n).params w1 ps raw parent).1
        | raised a b => exact List.prefix_refl _
        | parseError => exact List.prefix_refl _
        | unmodelled => exact List.prefix_refl _

/-- what follows the conversion of the parameters of an action -/
def callKO (env : Env) (n : Nat) (st : EState) (act : Action) (raw : Str) (sig : CmdSig) (extra : Extra) (uc : Bool)
    (r : OW × (List PVal ⊕ Outcome)) : OW × Outcome :=
  match r with
  | (w1, .inr o) => (w1, o)
  | (w1, .inl given) => evalCallO env n w1 st act raw sig (applyExtra extra given) uc

theorem act_extO_step {env : Env} {B : List (Option EState)} {n : Nat} (ih : ExtAtO env B n) (w : OW) (st : EState)
    (a : Action) (raw parent : Str) (extra : Extra) (uc : Bool) (hw : w.starved = false) :
    ExtO B (evalActionO env (n+1) w st a raw parent extra uc) (evalActionO env (n+1) (w.ext B) st a raw parent extra uc) := by
  rw [evalActionO_succ, evalActionO_succ]
  have hw0 : (w.metaIf uc raw (s "evaluation")).starved = false := by rw [(Quiet.metaIf w uc raw _).2.1]; exact hw
  cases namespacesOf st.vars with
  | none => ext_ret
  | some nss =>
    simp only []
    cases (!(nss.getLast?.map env.reg.hasNs).getD false)
    · simp only [Bool.false_eq_true, if_false]
      cases resolve env.reg nss a.name with
      | none => ext_ret
      | some sig =>
        simp only [OW.metaIf_ext]
        show ExtO B (callKO env n st a raw sig extra uc (evalParamsO env n (w.metaIf uc raw (s "evaluation")) a.params raw parent))
          (callKO env n st a raw sig extra uc (evalParamsO env n ((w.metaIf uc raw (s "evaluation")).ext B) a.params raw parent))
        refine ExtO.bindO _ hw0 ((frameO env n).params _ a.params raw parent) (ih.params _ a.params raw parent hw0) ?_ ?_ ?_
        · intro hs
          generalize evalParamsO env n (w.metaIf uc raw (s "evaluation")) a.params raw parent = r at hs ⊢
          rcases r with ⟨w1, x⟩
          cases x with
          | inr o => exact ExtO.ret _ _ _
          | inl given => exact call_extO ih w1 hs _ _ _ _ _ _
        · intro _; rfl
        · generalize evalParamsO env n ((w.metaIf uc raw (s "evaluation")).ext B) a.params raw parent = r'
          rcases r' with ⟨w1, x⟩
          cases x with
          | inr o => exact List.prefix_refl _
          | inl given => exact (call_frameO (frameO env n) w1 _ _ _ _ _ _).1
    · simp only [if_true]
      ext_ret

/-- what follows the last action -/
def admitKO (uc : Bool) (key : Str) (x : OW × Outcome) : OW × Outcome :=
  match x.2 with
  | .st st2 => (admitWO uc key { st2 with query := key } x.1, .st { st2 with query := key })
  | other => (x.1, other)

theorem post_extO {env : Env} {B : List (Option EState)} {n : Nat} (ih : ExtAtO env B n) (w1 : OW)
    (hw : w1.starved = false) (st parent r key raw extra uc) :
    ExtO B (evalPostO env n w1 st parent r key raw extra uc) (evalPostO env n (w1.ext B) st parent r key raw extra uc) := by
  unfold evalPostO
  split
  · exact ExtO.ret _ _ _
  · ext_ret
  · next hd a =>
    show ExtO B (admitKO uc key (evalActionO env n w1 st a raw parent extra uc))
      (admitKO uc key (evalActionO env n (w1.ext B) st a raw parent extra uc))
    refine ExtO.bindO _ hw ((frameO env n).act w1 st a raw parent extra uc) (ih.act w1 st a raw parent extra uc hw) ?_ ?_ ?_
    · intro _
      generalize evalActionO env n w1 st a raw parent extra uc = x
      rcases x with ⟨w2, o⟩
      cases o with
      | st st2 => simp only [admitKO]; ext_ret
      | _ => exact ExtO.ret _ _ _
    · intro _; rfl
    · generalize evalActionO env n (w1.ext B) st a raw parent extra uc = x
      rcases x with ⟨w2, o⟩
      cases o with
      | st st2 => exact (Quiet.admitWO _ _ _ _).prefix
      | _ => exact List.prefix_refl _
  · exact ExtO.ret _ _ _

theorem after_extO {env : Env} {B : List (Option EState)} {n : Nat} (ih : ExtAtO env B n) (w1 : OW)
    (hw : w1.starved = false) (o parent r key raw extra uc) :
    ExtO B (evalAfterO env n w1 o parent r key raw extra uc) (evalAfterO env n (w1.ext B) o parent r key raw extra uc) := by
  unfold evalAfterO
  split
  · exact ExtO.ret _ _ _
  · exact ExtO.ret _ _ _
  · exact ExtO.ret _ _ _
  · split
    · ext_ret
    · exact post_extO ih w1 hw _ _ _ _ _ _ _

theorem pre_extO {env : Env} {B : List (Option EState)} {n : Nat} (ih : ExtAtO env B n) (w : OW)
    (hw : w.starved = false) (q raw input uc) :
    ExtO B (evalPreO env n w q raw input uc) (evalPreO env n (w.ext B) q raw input uc) := by
  unfold evalPreO
  split
  · exact ExtO.ret _ _ _
  · rw [OW.metaIf_ext]
    exact ih.q _ _ _ _ _ _ (by rw [(Quiet.metaIf w uc raw _).2.1]; exact hw)

/-- what follows the predecessor -/
def afterKO (env : Env) (n : Nat) (parent : Str) (r : Option Seg) (key raw : Str) (extra : Extra) (uc : Bool)
    (x : OW × Outcome) : OW × Outcome :=
  evalAfterO env n x.1 x.2 parent r key raw extra uc

theorem miss_extO {env : Env} {B : List (Option EState)} {n : Nat} (ih : ExtAtO env B n) (w : OW)
    (hw : w.starved = false) (q : Query) (raw : Str) (extra : Extra) (input : Option Val) (uc : Bool) :
    ExtO B (evalMissO env n w q raw extra input uc) (evalMissO env n (w.ext B) q raw extra input uc) := by
  unfold evalMissO
  split
  · exact ExtO.ret _ _ _
  · show ExtO B (afterKO env n q.preParent q.preRem (q.encode Gen.escapeTable) raw extra uc (evalPreO env n w q raw input uc))
      (afterKO env n q.preParent q.preRem (q.encode Gen.escapeTable) raw extra uc (evalPreO env n (w.ext B) q raw input uc))
    refine ExtO.bindO _ hw (pre_frameO (frameO env n) w q raw input uc) (pre_extO ih w hw q raw input uc) ?_ ?_ ?_
    · intro hs; exact after_extO ih _ hs _ _ _ _ _ _ _
    · intro _; rfl
    · exact (after_frameO (frameO env n) _ _ _ _ _ _ _ _).1

/-- what follows the look-up -/
def askKO (env : Env) (n : Nat) (q : Query) (raw : Str) (extra : Extra) (input : Option Val) (uc : Bool)
    (a : OW × Option EState) : OW × Outcome :=
  if a.1.starved then (a.1, .unmodelled) else
    match a.2 with
    | some st => (a.1, .st st)
    | none => evalMissO env n a.1 q raw extra input uc

theorem q_extO_step {env : Env} {B : List (Option EState)} {n : Nat} (ih : ExtAtO env B n) (w : OW) (q : Query)
    (raw : Str) (extra : Extra) (input : Option Val) (uc : Bool) (_hw : w.starved = false) :
    ExtO B (evalQO env (n+1) w q raw extra input uc) (evalQO env (n+1) (w.ext B) q raw extra input uc) := by
  rw [evalQO_succ', evalQO_succ']
  show ExtO B (askKO env n q raw extra input uc (w.askIf (extra.isEmpty && input.isNone && uc) (q.encode Gen.escapeTable)))
    (askKO env n q raw extra input uc ((w.ext B).askIf (extra.isEmpty && input.isNone && uc) (q.encode Gen.escapeTable)))
  refine ExtO.bind _ (OW.askIf_extO B w _ _) ?_ ?_ ?_
  · intro hs
    generalize w.askIf (extra.isEmpty && input.isNone && uc) (q.encode Gen.escapeTable) = a at hs ⊢
    rcases a with ⟨w1, hit⟩
    simp only at hs
    simp only [askKO, OW.ext_starved, hs, Bool.false_eq_true, if_false]
    cases hit with
    | some st => exact ExtO.ret _ _ _
    | none => exact miss_extO ih w1 hs _ _ _ _ _
  · intro hs
    simp only [askKO, hs, if_true]
  · generalize (w.ext B).askIf (extra.isEmpty && input.isNone && uc) (q.encode Gen.escapeTable) = a
    unfold askKO
    split
    · exact List.prefix_refl _
    · split
      · exact List.prefix_refl _
      · exact (miss_frameO (frameO env n) _ _ _ _ _ _).1

theorem extAtO_zero (env : Env) (B : List (Option EState)) : ExtAtO env B 0 where
  text := fun w t ug _ => by rw [evalTextO_zero, evalTextO_zero]; exact ExtO.ret _ _ _
  q := fun w q raw extra input uc _ => by rw [evalQO_zero, evalQO_zero]; exact ExtO.ret _ _ _
  act := fun w st a raw parent extra uc _ => by rw [evalActionO_zero, evalActionO_zero]; exact ExtO.ret _ _ _
  params := fun w ps raw parent _ => by rw [evalParamsO_zero, evalParamsO_zero]; exact ExtO.ret _ _ _

/-- more answers at the end of the answer list do not change an evaluation that does not starve; one that starves is continued
from the same trace -/
theorem extO (env : Env) (B : List (Option EState)) : ∀ n, ExtAtO env B n
  | 0 => extAtO_zero env B
  | n + 1 =>
    have ih := extO env B n
    { text := text_extO_step ih, q := q_extO_step ih, act := act_extO_step ih, params := params_extO_step ih }

/-- the trace with answers `A` is a prefix of the trace with answers `A ++ B` -/
theorem evalQO_ext_prefix (env : Env) (n : Nat) (A B : List (Option EState)) (q : Query) (raw : Str) (extra : Extra)
    (input : Option Val) (uc : Bool) :
    (evalQO env n { answers := A } q raw extra input uc).1.trace <+:
      (evalQO env n { answers := A ++ B } q raw extra input uc).1.trace := by
  have h := (extO env B n).q { answers := A } q raw extra input uc rfl
  have e : ({ answers := A } : OW).ext B = { answers := A ++ B } := rfl
  rw [e] at h
  cases hs : (evalQO env n { answers := A } q raw extra input uc).1.starved
  · rw [h.1 hs]; exact List.prefix_refl _
  · exact h.2 hs

end Liquer
