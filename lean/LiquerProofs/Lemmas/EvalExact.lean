/-
With the global cache disabled (`NoCache()`: `enabled = false`, no data) the evaluator *is* the reference
interpretation: same outcome (exactly, `status` included), same calls, same fuel; and the world stays `NoCache`.
-/
import LiquerProofs.Lemmas.EvalRefine

namespace Liquer

/-- exact agreement of an evaluation started in `w` with a reference result -/
def Exact {α : Type} (w w' : World) (o o' : α) (c : List Str) : Prop :=
  w'.NoCache ∧ o = o' ∧ w'.calls = w.calls ++ c

structure ExactAt (env : Env) (n : Nat) : Prop where
  text : ∀ w t ug, w.NoCache →
    Exact w (evalText env n w t ug).1 (evalText env n w t ug).2 (refText env n t).1 (refText env n t).2
  q : ∀ w q raw extra input uc, w.NoCache →
    Exact w (evalQ env n w q raw extra input uc).1 (evalQ env n w q raw extra input uc).2
      (refQ env n q raw extra input).1 (refQ env n q raw extra input).2
  act : ∀ w st a raw parent extra uc, w.NoCache →
    Exact w (evalAction env n w st a raw parent extra uc).1 (evalAction env n w st a raw parent extra uc).2
      (refAction env n st a raw parent extra).1 (refAction env n st a raw parent extra).2
  params : ∀ w ps raw parent, w.NoCache →
    Exact w (evalParams env n w ps raw parent).1 (evalParams env n w ps raw parent).2
      (refParams env n ps raw parent).1 (refParams env n ps raw parent).2

theorem World.NoCache.logCall {w : World} (h : w.NoCache) (st sig args) : (w.logCall st sig args).NoCache := by
  unfold World.logCall; split
  · exact h
  · exact h.log _

theorem World.NoCache.subW {w : World} (h : w.NoCache) (uc raw o) : (subW uc raw o w).NoCache := by
  unfold Liquer.subW; split
  · exact h.metaIf _ _ _
  · exact h.metaIf _ _ _
  · exact h

theorem World.NoCache.admitW {w : World} (h : w.NoCache) (uc key st3) : (admitW uc key st3 w).NoCache := by
  unfold Liquer.admitW; split
  · exact h
  · split
    · exact h.store _
    · split
      · exact h.storeMeta _ _
      · exact h.remove _

theorem World.NoCache.fileW {w : World} (h : w.NoCache) (uc key st2) : (fileW uc key st2 w).NoCache := by
  unfold Liquer.fileW; split
  · exact h
  · split
    · exact h.store _
    · exact h.remove _

theorem call_exact {env : Env} {n : Nat} (ih : ExactAt env n) (w1 : World) (st act raw sig x) (uc : Bool) (hN : w1.NoCache) :
    Exact w1 (evalCall env n w1 st act raw sig x uc).1 (evalCall env n w1 st act raw sig x uc).2
      (refCall env n st act raw sig x).1 (refCall env n st act raw sig x).2 := by
  unfold evalCall refCall
  split
  · exact ⟨hN, rfl, by simp⟩
  · exact ⟨hN.metaIf _ _ _, rfl, by simp⟩
  · next args hpa =>
    split
    · exact ⟨hN.logCall _ _ _, rfl, by simp⟩
    · exact ⟨(hN.logCall _ _ _).metaIf _ _ _, rfl, by simp⟩
    · exact ⟨(hN.logCall _ _ _).metaIf _ _ _, rfl, by simp⟩
    · exact ⟨(hN.logCall _ _ _).metaIf _ _ _, rfl, by simp⟩
    · exact ⟨(hN.logCall _ _ _).metaIf _ _ _, rfl, by simp⟩
    · next y qtext hc =>
      obtain ⟨h1, h2, h3⟩ := ih.text (w1.logCall st sig args) qtext true (hN.logCall _ _ _)
      refine ⟨h1.subW _ _ _, by simp only [h2], ?_⟩
      simp only [calls_subW, h3, World.calls_logCall, List.append_assoc]

theorem link_exact {env : Env} {n : Nat} (ih : ExactAt env n) (w : World) (lq : Query) (parent : Str) (hN : w.NoCache) :
    Exact w (evalLink env n w lq parent).1 (evalLink env n w lq parent).2
      (refLink env n lq parent).1 (refLink env n lq parent).2 := by
  unfold evalLink refLink
  split
  · exact ih.q w lq _ .none none true hN
  · split
    · split
      · exact ⟨hN, rfl, by simp⟩
      · exact ih.text w _ true hN
    · exact ⟨hN, rfl, by simp⟩

theorem params_exact_step {env : Env} {n : Nat} (ih : ExactAt env n) (w : World) (ps : List Param) (raw parent : Str)
    (hN : w.NoCache) :
    Exact w (evalParams env (n+1) w ps raw parent).1 (evalParams env (n+1) w ps raw parent).2
      (refParams env (n+1) ps raw parent).1 (refParams env (n+1) ps raw parent).2 := by
  cases ps with
  | nil => rw [evalParams_nil, refParams_nil]; exact ⟨hN, rfl, by simp⟩
  | cons p ps =>
    cases p with
    | str t pos =>
      rw [evalParams_str, refParams_str]
      obtain ⟨h1, h2, h3⟩ := ih.params w ps raw parent hN
      rcases hp : evalParams env n w ps raw parent with ⟨w1, r⟩
      rcases hr : refParams env n ps raw parent with ⟨r', c⟩
      simp only [hp, hr] at h1 h2 h3
      subst h2
      cases r <;> exact ⟨h1, rfl, h3⟩
    | link lq pos =>
      rw [evalParams_link, refParams_link]
      obtain ⟨h1, h2, h3⟩ := link_exact ih w lq parent hN
      rcases hl : evalLink env n w lq parent with ⟨w1, o⟩
      rcases hr : refLink env n lq parent with ⟨o', c1⟩
      simp only [hl, hr] at h1 h2 h3
      subst h2
      cases o with
      | st v =>
        simp only
        split
        · exact ⟨h1, rfl, h3⟩
        · obtain ⟨g1, g2, g3⟩ := ih.params w1 ps raw parent h1
          rcases hp : evalParams env n w1 ps raw parent with ⟨w2, r⟩
          rcases hr2 : refParams env n ps raw parent with ⟨r', c2⟩
          simp only [hp, hr2] at g1 g2 g3
          subst g2
          cases r <;> exact ⟨g1, rfl, by rw [g3, h3, List.append_assoc]⟩
      | _ => exact ⟨h1, rfl, h3⟩

theorem act_exact_step {env : Env} {n : Nat} (ih : ExactAt env n) (w : World) (st : EState) (a : Action)
    (raw parent : Str) (extra : Extra) (uc : Bool) (hN : w.NoCache) :
    Exact w (evalAction env (n+1) w st a raw parent extra uc).1 (evalAction env (n+1) w st a raw parent extra uc).2
      (refAction env (n+1) st a raw parent extra).1 (refAction env (n+1) st a raw parent extra).2 := by
  rw [evalAction_succ, refAction_succ]
  have hN0 := hN.metaIf uc raw (s "evaluation")
  split
  · exact ⟨hN0, rfl, by simp⟩
  · split
    · exact ⟨hN0, rfl, by simp⟩
    · split
      · exact ⟨hN0.metaIf _ _ _, rfl, by simp⟩
      · next sig hr =>
        obtain ⟨h1, h2, h3⟩ := ih.params (w.metaIf uc raw (s "evaluation")) a.params raw parent hN0
        rcases hp : evalParams env n (w.metaIf uc raw (s "evaluation")) a.params raw parent with ⟨w1, r⟩
        rcases hr2 : refParams env n a.params raw parent with ⟨r', c1⟩
        simp only [hp, hr2, World.calls_metaIf] at h1 h2 h3
        subst h2
        cases r with
        | inr o => exact ⟨h1, rfl, h3⟩
        | inl given =>
          obtain ⟨g1, g2, g3⟩ := call_exact ih w1 st a raw sig (applyExtra extra given) uc h1
          exact ⟨g1, g2, by simp only; rw [g3, h3, List.append_assoc]⟩

theorem text_exact_step {env : Env} {n : Nat} (ih : ExactAt env n) (w : World) (t : Str) (ug : Bool) (hN : w.NoCache) :
    Exact w (evalText env (n+1) w t ug).1 (evalText env (n+1) w t ug).2 (refText env (n+1) t).1 (refText env (n+1) t).2 := by
  rw [evalText_succ, refText_succ]
  split
  · exact ⟨hN, rfl, by simp⟩
  · exact ih.q w _ t .none none ug hN

theorem post_exact {env : Env} {n : Nat} (ih : ExactAt env n) (w1 : World) (st parent r key raw extra uc) (hN : w1.NoCache) :
    Exact w1 (evalPost env n w1 st parent r key raw extra uc).1 (evalPost env n w1 st parent r key raw extra uc).2
      (refPost env n st parent r key raw extra).1 (refPost env n st parent r key raw extra).2 := by
  unfold evalPost refPost
  split
  · exact ⟨hN, rfl, by simp⟩
  · exact ⟨(hN.metaIf _ _ _).fileW _ _ _, rfl, by simp⟩
  · next hd a =>
    obtain ⟨h1, h2, h3⟩ := ih.act w1 st a raw parent extra uc hN
    rw [h2]
    cases (refAction env n st a raw parent extra).1 with
    | st st2 => exact ⟨h1.admitW _ _ _, rfl, by simp only [calls_admitW]; exact h3⟩
    | _ => exact ⟨h1, rfl, h3⟩
  · exact ⟨hN, rfl, by simp⟩

theorem after_exact {env : Env} {n : Nat} (ih : ExactAt env n) (w1 : World) (o parent r key raw extra uc) (hN : w1.NoCache) :
    Exact w1 (evalAfter env n w1 o parent r key raw extra uc).1 (evalAfter env n w1 o parent r key raw extra uc).2
      (refAfter env n o parent r key raw extra).1 (refAfter env n o parent r key raw extra).2 := by
  unfold evalAfter refAfter
  split
  · exact ⟨hN, rfl, by simp⟩
  · exact ⟨hN, rfl, by simp⟩
  · exact ⟨hN, rfl, by simp⟩
  · split
    · exact ⟨hN.metaIf _ _ _, rfl, by simp⟩
    · exact post_exact ih w1 _ _ _ _ _ _ _ hN

theorem pre_exact {env : Env} {n : Nat} (ih : ExactAt env n) (w : World) (q raw input uc) (hN : w.NoCache) :
    Exact w (evalPre env n w q raw input uc).1 (evalPre env n w q raw input uc).2
      (refPre env n q input).1 (refPre env n q input).2 := by
  unfold evalPre refPre
  split
  · exact ⟨hN, rfl, by simp⟩
  · next p hp =>
    obtain ⟨h1, h2, h3⟩ := ih.q (w.metaIf uc raw (s "evaluating parent")) p _ .none input uc (hN.metaIf _ _ _)
    exact ⟨h1, h2, by simpa using h3⟩

theorem q_exact_step {env : Env} {n : Nat} (ih : ExactAt env n) (w : World) (q : Query) (raw : Str) (extra : Extra)
    (input : Option Val) (uc : Bool) (hN : w.NoCache) :
    Exact w (evalQ env (n+1) w q raw extra input uc).1 (evalQ env (n+1) w q raw extra input uc).2
      (refQ env (n+1) q raw extra input).1 (refQ env (n+1) q raw extra input).2 := by
  rw [evalQ_succ', refQ_succ']
  have hmiss : (if (extra.isEmpty && input.isNone && uc) = true then w.get (q.encode Gen.escapeTable) else none) = none := by
    split
    · exact hN.get _
    · rfl
  rw [hmiss]
  simp only
  split
  · exact ⟨hN, rfl, by simp⟩
  · obtain ⟨h1, h2, h3⟩ := pre_exact ih w q raw input uc hN
    rw [← h2]
    obtain ⟨g1, g2, g3⟩ := after_exact ih (evalPre env n w q raw input uc).1 (evalPre env n w q raw input uc).2
      q.preParent q.preRem (q.encode Gen.escapeTable) raw extra uc h1
    exact ⟨g1, g2, by simp only; rw [g3, h3, List.append_assoc]⟩

theorem exactAt_zero (env : Env) : ExactAt env 0 where
  text := fun w t ug hN => by rw [evalText_zero, refText_zero]; exact ⟨hN, rfl, by simp⟩
  q := fun w q raw extra input uc hN => by rw [evalQ_zero, refQ_zero]; exact ⟨hN, rfl, by simp⟩
  act := fun w st a raw parent extra uc hN => by rw [evalAction_zero, refAction_zero]; exact ⟨hN, rfl, by simp⟩
  params := fun w ps raw parent hN => by rw [evalParams_zero, refParams_zero]; exact ⟨hN, rfl, by simp⟩

/-- under `NoCache()` the evaluator and the reference interpretation coincide -/
theorem exact (env : Env) : ∀ n, ExactAt env n
  | 0 => exactAt_zero env
  | n + 1 =>
    have ih := exact env n
    { text := text_exact_step ih, q := q_exact_step ih, act := act_exact_step ih, params := params_exact_step ih }

end Liquer
