/-
`MemoryCache` (as fixed) refines the key-value specification that keeps data on metadata-only writes.
-/
import LiquerProofs.Lemmas.CacheKV

namespace Liquer

namespace AL
variable {κ : Type} [BEq κ] {β γ : Type}

def mapVal (f : β → γ) (l : List (κ × β)) : List (κ × γ) := l.map (fun e => (e.1, f e.2))

theorem get_mapVal (f : β → γ) (l : List (κ × β)) (k : κ) : get (mapVal f l) k = (get l k).map f := by
  induction l with
  | nil => rfl
  | cons e l ih =>
    unfold get at ih ⊢
    unfold mapVal at ih ⊢
    rw [List.map_cons, List.find?_cons, List.find?_cons]
    by_cases h : e.1 == k
    · simp [h]
    · simp only [h]
      exact ih

theorem mapVal_erase (f : β → γ) (l : List (κ × β)) (k : κ) : mapVal f (erase l k) = erase (mapVal f l) k := by
  simp [mapVal, erase, List.filter_map]; rfl

theorem mapVal_set (f : β → γ) (l : List (κ × β)) (k : κ) (v : β) : mapVal f (set l k v) = set (mapVal f l) k (f v) := by
  simp only [set, ← mapVal_erase]; rfl

omit [BEq κ] in
theorem keys_mapVal (f : β → γ) (l : List (κ × β)) : (mapVal f l).map (·.1) = l.map (·.1) := by
  simp [mapVal]

end AL

def memEntry (e : CState × Bool) : CMeta × Option Str := (e.1.metadata, e.1.data)

/-- the abstraction: a placeholder is an entry without data -/
def absM (s : MemCState) : KV := AL.mapVal memEntry s

/-- placeholders are exactly the entries without data -/
def InvM (s : MemCState) : Prop := ∀ k e, AL.get s k = some e → e.2 = e.1.data.isNone

def RM (s : MemCState) (kv : KV) : Prop := kv = absM s ∧ InvM s

theorem InvM_set (s : MemCState) (k : Str) (e : CState × Bool) (hi : InvM s) (he : e.2 = e.1.data.isNone) : InvM (AL.set s k e) := by
  intro k' e' h
  rw [AL.get_set] at h
  by_cases hk : k' == k
  · simp only [hk, ↓reduceIte, Option.some.injEq] at h; subst h; exact he
  · simp only [hk] at h; exact hi k' e' h

theorem InvM_erase (s : MemCState) (k : Str) (hi : InvM s) : InvM (AL.erase s k) := by
  intro k' e' h
  rw [AL.get_erase] at h
  by_cases hk : k' == k
  · simp [hk] at h
  · simp only [hk] at h; exact hi k' e' h

theorem mem_sim : CSim memCOps (kvOpsC kvCfgKeep) RM (fun _ op => op.hasData = true) := by
  intro s t op ⟨ht, hi⟩ hok
  subst ht
  have hget : ∀ k, (absM s).get k = (AL.get s k).map memEntry := fun k => AL.get_mapVal memEntry s k
  cases op with
  | get k =>
    refine ⟨⟨rfl, hi⟩, outEq_of_eq ?_⟩
    simp only [CacheOps.step, memCOps, kvOpsC, kvOps, hget]
    cases h : AL.get s k with
    | none => rfl
    | some e =>
      obtain ⟨st, ph⟩ := e
      have := hi k _ h
      simp only at this
      obtain ⟨m, d⟩ := st
      cases d with
      | none => simp_all [memEntry]
      | some d => simp_all [memEntry]
  | getMeta k =>
    refine ⟨⟨rfl, hi⟩, outEq_of_eq ?_⟩
    simp only [CacheOps.step, memCOps, kvOpsC, kvOps, hget]
    cases h : AL.get s k <;> simp [memEntry]
  | contains k =>
    refine ⟨⟨rfl, hi⟩, outEq_of_eq ?_⟩
    simp only [CacheOps.step, memCOps, kvOpsC, kvOps, hget]
    cases h : AL.get s k <;> simp
  | keys =>
    refine ⟨⟨rfl, hi⟩, outEq_of_eq ?_⟩
    simp [CacheOps.step, memCOps, kvOpsC, kvOps, absM, AL.keys_mapVal]
  | clean =>
    refine ⟨⟨rfl, ?_⟩, outEq_refl _⟩
    intro k e h; simp [CacheOps.step, memCOps, AL.get] at h
  | remove k =>
    refine ⟨⟨?_, InvM_erase s k hi⟩, outEq_refl _⟩
    simp [CacheOps.step, memCOps, kvOpsC, kvOps, absM, AL.mapVal_erase, KV.erase_eq]
  | store st =>
    by_cases he : st.metadata.isError
    · refine ⟨⟨?_, ?_⟩, outEq_of_eq ?_⟩ <;> simp [CacheOps.step, memCOps, kvOpsC, kvOps, he, hi]
    · have hd : st.data.isSome = true := by simpa [CacheOp.hasData] using hok
      refine ⟨⟨?_, ?_⟩, outEq_of_eq ?_⟩
      · simp [CacheOps.step, memCOps, kvOpsC, kvOps, he, absM, AL.mapVal_set, KV.set_eq, memEntry]
      · simp only [CacheOps.step, memCOps, he, Bool.false_eq_true, ↓reduceIte]
        apply InvM_set _ _ _ hi
        cases h : st.data <;> simp_all
      · simp [CacheOps.step, memCOps, kvOpsC, kvOps, he]
  | storeMeta m =>
    simp only [CacheOps.step, memCOps, kvOpsC, hget, kvCfgKeep]
    cases h : AL.get s m.query with
    | none =>
      refine ⟨⟨?_, ?_⟩, outEq_of_eq ?_⟩
      · simp [absM, AL.mapVal_set, KV.set_eq, memEntry]
      · exact InvM_set _ _ _ hi rfl
      · simp
    | some e =>
      obtain ⟨st, ph⟩ := e
      refine ⟨⟨?_, ?_⟩, outEq_of_eq ?_⟩
      · simp [absM, AL.mapVal_set, KV.set_eq, memEntry]
      · exact InvM_set _ _ _ hi (by simpa using hi _ _ h)
      · simp

theorem RM_init : RM [] [] := ⟨rfl, by intro k e h; simp [AL.get] at h⟩

end Liquer
