/-
Reference-side one-step equations used by the C18 lemmas: the pieces `refCall` / `refPost` / `refAfter` of `refAction` / `refQ`
(LiquerModel/Ref.lean) and three inversion lemmas.  These are the reference-side parts of Lemmas/EvalStep.lean, EvalRef.lean and
EvalErr.lean, repeated here in their own namespace so that the C18 obligations depend on `Ref.lean` only and not on the
evaluator-with-cache model `Eval.lean` and its proofs (which change with the cache protocol).
-/
import LiquerProofs.Lemmas.EvalDefs

namespace Liquer.C18R
open Liquer

/-! ### shared pieces -/

/-- `create_initial_state` with the injected input value -/
def initSt (env : Env) (input : Option Val) : EState := { vars := env.defaults, data := input.getD .none }

/-- extra positional / keyword parameters appended to the converted parameters; the flag marks the result volatile -/
def applyExtra (extra : Extra) (given : List PVal) : List PVal × List (Str × Val) × Bool :=
  match extra with
  | .none => (given, [], false)
  | .list vs => if vs.isEmpty then (given, [], false) else (given ++ vs.map .raw, [], true)
  | .dict kv => if kv.isEmpty then (given, [], false) else (given, kv, true)

/-- the error state of a failed action -/
def failSt (st : EState) (act : Action) (attrs : List (Str × Str)) (vol : Bool) (pos : Option Nat) (q : Option Str) : EState :=
  { st with data := .none, isError := true, status := s "error", commands := [act.toList Gen.escapeTable], attrs := attrs,
            volatile := st.volatile || vol, errPos := pos, errQuery := q }

/-- the state after a successful action -/
def doneSt (st : EState) (act : Action) (sig : CmdSig) (xv : Bool) (v : Val) (vars : Vars) (caching : Bool) : EState :=
  { st with data := v, vars := st.vars.update vars, status := statusReady, commands := [act.toList Gen.escapeTable],
            attrs := mergeAttrs st.attrs sig.attrs, caching := caching && st.caching,
            volatile := st.volatile || xv || cmdVolatile sig.attrs }

/-- the call-log line of an instrumented command (library commands are not instrumented) -/
def callOf (st : EState) (sig : CmdSig) (args : List Val) : List Str :=
  if isLibraryCommand sig.name then [] else [callText sig.ns sig.name (if sig.first then .none else st.data) args]

/-- the outcome of a sub-evaluating command from the outcome of its sub-evaluation -/
def subOutcome (st : EState) (act : Action) (raw : Str) (sig : CmdSig) (xv : Bool) (x : Val) (o : Outcome) : Outcome :=
  match o with
  | .st sub => if sub.isError then .st (failSt st act (mergeAttrs st.attrs sig.attrs) xv sub.errPos sub.errQuery)
               else .st (doneSt st act sig xv (.list [x, sub.data]) [] true)
  | .parseError => .st (failSt st act (mergeAttrs st.attrs sig.attrs) xv (some act.pos) (some raw))
  | .raised _ _ => .unmodelled
  | .unmodelled => .unmodelled

/-! ### reference side -/

/-- conversion of the arguments and the call, reference side (own calls only) -/
def refCall (env : Env) (n : Nat) (st : EState) (act : Action) (raw : Str) (sig : CmdSig)
    (x : List PVal × List (Str × Val) × Bool) : Outcome × List Str :=
  match parseArgv sig.args x.1 x.2.1 with
  | .unmodelled => (.unmodelled, [])
  | .fail => (.st (failSt st act (mergeAttrs st.attrs sig.attrs) (x.2.2 || cmdVolatile sig.attrs) (some act.pos) (some raw)), [])
  | .ok args =>
    match cmdSem sig.ns sig.name st.data st.vars args with
    | .unmodelled => (.unmodelled, callOf st sig args)
    | .raises => (.st (failSt st act (mergeAttrs st.attrs sig.attrs) (x.2.2 || cmdVolatile sig.attrs) (some act.pos) (some raw)), callOf st sig args)
    | .value v => (.st (doneSt st act sig x.2.2 v [] true), callOf st sig args)
    | .stateVars v vars => (.st (doneSt st act sig x.2.2 v vars true), callOf st sig args)
    | .nocache v => (.st (doneSt st act sig x.2.2 v [] false), callOf st sig args)
    | .subeval y qtext => (subOutcome st act raw sig x.2.2 y (refText env n qtext).1, callOf st sig args ++ (refText env n qtext).2)

macro "fin_call" : tactic => `(tactic| (
  split
  · simp [*]
  · simp [*, failSt]
  · simp only [*]
    split <;> simp [*, failSt, doneSt, subOutcome]
    split <;> simp [*, failSt, doneSt]
    split <;> simp [*]))

theorem refAction_zero (env : Env) (st : EState) (act : Action) (raw parent : Str) (extra : Extra) :
    refAction env 0 st act raw parent extra = (.unmodelled, []) := by simp [refAction]

theorem refAction_succ (env : Env) (n : Nat) (st : EState) (act : Action) (raw parent : Str) (extra : Extra) :
    refAction env (n+1) st act raw parent extra =
      match namespacesOf st.vars with
      | none => (.unmodelled, [])
      | some nss =>
        if !(nss.getLast?.map env.reg.hasNs).getD false then (.unmodelled, []) else
        match resolve env.reg nss act.name with
        | none => (.st (failSt st act (mergeAttrs st.attrs []) false (some act.pos) (some raw)), [])
        | some sig =>
          match refParams env n act.params raw parent with
          | (.inr o, c1) => (o, c1)
          | (.inl given, c1) =>
            ((refCall env n st act raw sig (applyExtra extra given)).1,
              c1 ++ (refCall env n st act raw sig (applyExtra extra given)).2) := by
  simp only [refAction]
  cases hns : namespacesOf st.vars with
  | none => rfl
  | some nss =>
    simp only []
    by_cases hl : (!(nss.getLast?.map env.reg.hasNs).getD false) = true
    · simp only [hl, if_true]
    · simp only [hl]
      cases hr : resolve env.reg nss act.name with
      | none => rfl
      | some sig =>
        simp only []
        rcases hp : refParams env n act.params raw parent with ⟨r, c1⟩
        cases r with
        | inr o => rfl
        | inl given =>
          simp only [refCall]
          have hc : ∀ args, (if isLibraryCommand sig.name = true then c1
            else c1 ++ [callText sig.ns sig.name (if sig.first = true then Val.none else st.data) args]) = c1 ++ callOf st sig args := by
            intro args; unfold callOf; split <;> simp
          simp only [hc, Bool.false_eq_true, if_false]
          cases extra with
          | none => simp only [applyExtra]; fin_call
          | list vs =>
            simp only [applyExtra]
            cases hv : vs.isEmpty <;> simp only [Bool.false_eq_true, if_true, if_false] <;> fin_call
          | dict kv =>
            simp only [applyExtra]
            cases hv : kv.isEmpty <;> simp only [Bool.false_eq_true, if_true, if_false] <;> fin_call

/-- the value of a link argument, reference side -/
def refLink (env : Env) (n : Nat) (lq : Query) (parent : Str) : Outcome × List Str :=
  if lq.absolute || parent.isEmpty || parent == ['/'] then refQ env n lq (lq.encode Gen.escapeTable) .none none
  else
    match lq with
    | .mk [.transform h as f] _ =>
      (match parse env.dec parent with
       | none => (.unmodelled, [])
       | some pq => refText env n ((Query.mk (pq.segments ++ [.transform h as f]) pq.absolute).encode Gen.escapeTable))
    | _ => (.unmodelled, [])

theorem refParams_zero (env : Env) (ps : List Param) (raw parent : Str) :
    refParams env 0 ps raw parent = (.inr .unmodelled, []) := by simp [refParams]

theorem refParams_nil (env : Env) (n : Nat) (raw parent : Str) :
    refParams env (n+1) [] raw parent = (.inl [], []) := by simp [refParams]

theorem refParams_str (env : Env) (n : Nat) (t : Str) (pos : Nat) (ps : List Param) (raw parent : Str) :
    refParams env (n+1) (.str t pos :: ps) raw parent =
      match refParams env n ps raw parent with
      | (.inl rest, c) => (.inl (.text t pos :: rest), c)
      | other => other := by
  simp only [refParams]; rfl

theorem refParams_link (env : Env) (n : Nat) (lq : Query) (pos : Nat) (ps : List Param) (raw parent : Str) :
    refParams env (n+1) (.link lq pos :: ps) raw parent =
      match refLink env n lq parent with
      | (.st v, c1) =>
        if v.isError then (.inr (.raised (some pos) (some raw)), c1)
        else
          (match refParams env n ps raw parent with
           | (.inl rest, c2) => (.inl (.expanded v.data pos :: rest), c1 ++ c2)
           | (.inr o2, c2) => (.inr o2, c1 ++ c2))
      | (.raised a b, c1) => (.inr (.raised a b), c1)
      | (.parseError, c1) => (.inr .parseError, c1)
      | (.unmodelled, c1) => (.inr .unmodelled, c1) := by
  simp only [refParams, refLink]
  generalize (if (lq.absolute || parent.isEmpty || parent == ['/']) = true then _ else _ : Outcome × List Str) = x
  rcases x with ⟨o, c1⟩
  cases o <;> rfl

theorem refText_zero (env : Env) (t : Str) : refText env 0 t = (.unmodelled, []) := by simp [refText]

theorem refText_succ (env : Env) (n : Nat) (t : Str) :
    refText env (n+1) t = match parse env.dec t with
      | none => (.parseError, [])
      | some q => refQ env n q t .none none := by
  simp only [refText]; rfl

/-- the last step of a query applied to the successful state of its predecessor, reference side (own calls only) -/
def refPost (env : Env) (n : Nat) (st : EState) (parent : Str) (r : Option Seg) (key raw : Str) (extra : Extra) :
    Outcome × List Str :=
  match r with
  | none => (.st { st with query := key }, [])
  | some (.transform _ [] (some f)) =>
    (.st { st with filename := some f, extension := some (extensionOf f), query := key }, [])
  | some (.transform _ [a] none) =>
    (match (refAction env n st a raw parent extra).1 with
     | .st st2 => (.st { st2 with query := key }, (refAction env n st a raw parent extra).2)
     | other => (other, (refAction env n st a raw parent extra).2))
  | some _ => (.unmodelled, [])

/-- what follows the evaluation of the predecessor, reference side (own calls only) -/
def refAfter (env : Env) (n : Nat) (o : Outcome) (parent : Str) (r : Option Seg) (key raw : Str) (extra : Extra) :
    Outcome × List Str :=
  match o with
  | .raised a b => (.raised a b, [])
  | .parseError => (.parseError, [])
  | .unmodelled => (.unmodelled, [])
  | .st st =>
    if st.isError then (.st { st with data := .none, query := key }, [])
    else refPost env n st parent r key raw extra

theorem refQ_zero (env : Env) (q : Query) (raw : Str) (extra : Extra) (input : Option Val) :
    refQ env 0 q raw extra input = (.unmodelled, []) := by simp [refQ]

theorem refQ_succ (env : Env) (n : Nat) (q : Query) (raw : Str) (extra : Extra) (input : Option Val) :
    refQ env (n+1) q raw extra input =
      if q.isRes then (.unmodelled, []) else
      match q.predecessor with
      | none => refAfter env n (.st (initSt env input)) [] none (q.encode Gen.escapeTable) raw extra
      | some (p, r) =>
        if p.segments.isEmpty then refAfter env n (.st (initSt env input)) [] r (q.encode Gen.escapeTable) raw extra
        else
          ((refAfter env n (refQ env n p (p.encode Gen.escapeTable) .none input).1 (p.encode Gen.escapeTable) r
              (q.encode Gen.escapeTable) raw extra).1,
            (refQ env n p (p.encode Gen.escapeTable) .none input).2 ++
            (refAfter env n (refQ env n p (p.encode Gen.escapeTable) .none input).1 (p.encode Gen.escapeTable) r
              (q.encode Gen.escapeTable) raw extra).2) := by
  simp only [refQ]
  split
  · simp [Query.isRes]
  · next hres =>
    have hr : q.isRes = false := by
      unfold Query.isRes; split
      · exact absurd rfl (hres _ _ _)
      · rfl
    simp only [hr, Bool.false_eq_true, if_false]
    cases hp : q.predecessor with
    | none => simp [refAfter, refPost, initSt]
    | some pr =>
      rcases pr with ⟨p, r⟩
      simp only []
      cases hpe : p.segments.isEmpty
      · simp only [Bool.false_eq_true, if_false]
        rcases hrec : refQ env n p (p.encode Gen.escapeTable) .none input with ⟨o, c⟩
        cases o with
        | st st =>
          simp only [refAfter]
          cases hse : st.isError
          · simp only [Bool.false_eq_true, if_false, refPost]
            split <;> simp [*] <;> (split <;> simp [*])
          · simp
        | _ => simp [refAfter]
      · simp only [if_true, refAfter, initSt, Bool.false_eq_true, if_false, refPost]
        split <;> simp [*] <;> (split <;> simp [*])


theorem refParams_inr_not_st (env : Env) : ∀ n ps raw parent e, (refParams env n ps raw parent).1 ≠ .inr (.st e)
  | 0, ps, raw, parent, e => by simp [refParams_zero]
  | n + 1, [], raw, parent, e => by simp [refParams_nil]
  | n + 1, .str t pos :: ps, raw, parent, e => by
    rw [refParams_str]
    have ih := refParams_inr_not_st env n ps raw parent e
    rcases hp : refParams env n ps raw parent with ⟨r, c⟩
    rw [hp] at ih
    cases r with
    | inl g => simp
    | inr o => exact ih
  | n + 1, .link lq pos :: ps, raw, parent, e => by
    rw [refParams_link]
    have ih := refParams_inr_not_st env n ps raw parent e
    rcases refLink env n lq parent with ⟨o, c1⟩
    cases o with
    | st v =>
      simp only
      split
      · simp
      · rcases hp : refParams env n ps raw parent with ⟨r, c⟩
        rw [hp] at ih
        cases r with
        | inl g => simp
        | inr o => exact ih
    | _ => simp

theorem refParams_raw_indep (env : Env) (raw' : Str) : ∀ n ps raw parent g, (refParams env n ps raw parent).1 = .inl g →
    refParams env n ps raw' parent = refParams env n ps raw parent
  | 0, ps, raw, parent, g, h => by simp [refParams_zero] at h
  | n + 1, [], raw, parent, g, h => by simp [refParams_nil]
  | n + 1, .str t pos :: ps, raw, parent, g, h => by
    rw [refParams_str] at h ⊢
    rw [refParams_str]
    have ih := refParams_raw_indep env raw' n ps raw parent
    rcases hp : refParams env n ps raw parent with ⟨r, c⟩
    rw [hp] at h ih
    cases r with
    | inl g' => rw [ih g' rfl]
    | inr o => simp at h
  | n + 1, .link lq pos :: ps, raw, parent, g, h => by
    rw [refParams_link] at h ⊢
    rw [refParams_link]
    have ih := refParams_raw_indep env raw' n ps raw parent
    generalize refLink env n lq parent = x at h ⊢
    rcases x with ⟨o, c1⟩
    cases o with
    | st v =>
      simp only at h ⊢
      cases hv : v.isError
      · simp only [hv, Bool.false_eq_true, if_false] at h ⊢
        rcases hp : refParams env n ps raw parent with ⟨r, c⟩
        rw [hp] at h ih
        cases r with
        | inl g' => rw [ih g' rfl]
        | inr o => simp at h
      · simp [hv] at h
    | _ => simp at h

/-- inversion, all branches at once: an error state produced by the call of a command on a successful input has no data -/
theorem refCall_error_no_data (env : Env) (n : Nat) (st : EState) (act : Action) (raw : Str) (sig : CmdSig) (x)
    (e : EState) (hst : st.isError = false)
    (h : (refCall env n st act raw sig x).1 = .st e) (he : e.isError = true) : e.data = .none := by
  unfold refCall at h
  split at h
  · simp at h
  · simp only [Outcome.st.injEq] at h; subst h; rfl
  · split at h
    · simp at h
    · simp only [Outcome.st.injEq] at h; subst h; rfl
    · simp only [Outcome.st.injEq] at h; subst h; simp [doneSt, hst] at he
    · simp only [Outcome.st.injEq] at h; subst h; simp [doneSt, hst] at he
    · simp only [Outcome.st.injEq] at h; subst h; simp [doneSt, hst] at he
    · simp only at h
      unfold subOutcome at h
      split at h
      · split at h
        · simp only [Outcome.st.injEq] at h; subst h; rfl
        · simp only [Outcome.st.injEq] at h; subst h; simp [doneSt, hst] at he
      · simp only [Outcome.st.injEq] at h; subst h; rfl
      · simp at h
      · simp at h

/-- … and so has every error state produced by an action on a successful input: a failing step never yields a
normal-looking value -/
theorem refAction_error_no_data (env : Env) (n : Nat) (st : EState) (act : Action) (raw parent : Str) (extra : Extra)
    (e : EState) (hst : st.isError = false)
    (h : (refAction env n st act raw parent extra).1 = .st e) (he : e.isError = true) : e.data = .none := by
  cases n with
  | zero => simp [refAction_zero] at h
  | succ n =>
    rw [refAction_succ] at h
    split at h
    · simp at h
    · split at h
      · simp at h
      · split at h
        · simp only [Outcome.st.injEq] at h; subst h; rfl
        · next sig hr =>
          have hni := refParams_inr_not_st env n act.params raw parent e
          generalize refParams env n act.params raw parent = x at h hni
          rcases x with ⟨r, c1⟩
          cases r with
          | inr o => simp only at h; subst h; simp at hni
          | inl g => exact refCall_error_no_data env n st act raw sig _ e hst h he

end Liquer.C18R
