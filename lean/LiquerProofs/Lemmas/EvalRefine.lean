/-
The refinement theorem R-eval: in a `Sound` world the evaluator computes (up to `status`) what the reference
interpretation computes, keeps the world `Sound`, and logs a subsequence of the reference calls.
Induction on the fuel, simultaneously for the four mutual functions; the reference fuel is existential
(a cache hit stands for a reference computation of unknown depth; `ref_mono` aligns fuels).
`CanonOK` is used at cache hits (`CanonHit`) and at `store` (`CanonStore`) only.
-/
import LiquerProofs.Lemmas.EvalRef

namespace Liquer

/-! ### classes of queries and texts an evaluation stays in -/

/-- link arguments of a parameter list: a link that is evaluated as its own query (absolute, or no parent) is
in the class `C`; the text a relative link is evaluated as (`parse(parent_query) + link`, encoded) is in the
class `T` of texts -/
def LinksIn (env : Env) (C : Query → Prop) (T : Str → Prop) (parent : Str) (ps : List Param) : Prop :=
  ∀ lq pos, Param.link lq pos ∈ ps →
    ((lq.absolute || parent.isEmpty || parent == ['/']) = true → C lq) ∧
    ((lq.absolute || parent.isEmpty || parent == ['/']) = false →
      ∀ h as f ab pq, lq = .mk [.transform h as f] ab → parse env.dec parent = some pq →
        T ((Query.mk (pq.segments ++ [.transform h as f]) pq.absolute).encode Gen.escapeTable))

/-- the texts the command of an action may sub-evaluate are in `T` -/
def SubIn (env : Env) (T : Str → Prop) (a : Action) : Prop :=
  ∀ nss sig, resolve env.reg nss a.name = some sig → ∀ input vars args x qt,
    cmdSem sig.ns sig.name input vars args = .subeval x qt → T qt

/-- a class `C` of queries and a class `T` of texts closed under everything an evaluation descends into:
non-empty predecessors, link arguments and sub-evaluated texts of the last action, and the queries the texts of `T`
parse to.  (`C = T = everything` is closed; so is the chain of predecessors of a link-free, `sub`-free query with
`T = ∅`.) -/
structure Closed (env : Env) (C : Query → Prop) (T : Str → Prop) : Prop where
  pred : ∀ q p r, C q → q.predecessor = some (p, r) → p.segments.isEmpty = false → C p
  act : ∀ q p h a, C q → q.predecessor = some (p, some (.transform h [a] none)) →
    LinksIn env C T q.preParent a.params ∧ SubIn env T a
  text : ∀ t q, T t → parse env.dec t = some q → C q

theorem LinksIn.tail {env : Env} {C : Query → Prop} {T : Str → Prop} {parent : Str} {p : Param} {ps : List Param}
    (h : LinksIn env C T parent (p :: ps)) : LinksIn env C T parent ps :=
  fun lq pos hm => h lq pos (List.mem_cons_of_mem _ hm)

/-- the result `(w', o)` of an evaluation started in `w` refines the reference computation `f` -/
def Refines (env : Env) (w w' : World) (o : Outcome) (f : Nat → Outcome × List Str) : Prop :=
  Sound env w' ∧
  (o ≠ .unmodelled → ∃ m c', w'.calls = w.calls ++ c' ∧ c'.Sublist (f m).2 ∧ Outcome.sim o (f m).1)

def RefinesP (env : Env) (w w' : World) (r : List PVal ⊕ Outcome) (f : Nat → (List PVal ⊕ Outcome) × List Str) : Prop :=
  Sound env w' ∧
  (r ≠ .inr .unmodelled → ∃ m c', w'.calls = w.calls ++ c' ∧ c'.Sublist (f m).2 ∧ (f m).1 = r)

/-- the four statements at one fuel level, for a class `C` of queries -/
structure RefAt (env : Env) (C : Query → Prop) (T : Str → Prop) (n : Nat) : Prop where
  text : ∀ w t ug, Sound env w → T t →
    Refines env w (evalText env n w t ug).1 (evalText env n w t ug).2 (fun m => refText env m t)
  q : ∀ w q raw extra input uc, Sound env w → C q → (uc = true → input = none) →
    Refines env w (evalQ env n w q raw extra input uc).1 (evalQ env n w q raw extra input uc).2
      (fun m => refQ env m q raw extra input)
  act : ∀ w st a raw parent extra uc, Sound env w → LinksIn env C T parent a.params → SubIn env T a →
    Refines env w (evalAction env n w st a raw parent extra uc).1 (evalAction env n w st a raw parent extra uc).2
      (fun m => refAction env m st a raw parent extra)
  params : ∀ w ps raw parent, Sound env w → LinksIn env C T parent ps →
    RefinesP env w (evalParams env n w ps raw parent).1 (evalParams env n w ps raw parent).2
      (fun m => refParams env m ps raw parent)

/-! ### frame facts of the evaluator-side pieces -/

@[simp] theorem World.calls_logCall (w : World) (st sig args) :
    (w.logCall st sig args).calls = w.calls ++ callOf st sig args := by
  unfold World.logCall callOf; split <;> simp

theorem Sound.logCall {env : Env} {w : World} (h : Sound env w) (st sig args) : Sound env (w.logCall st sig args) := by
  unfold World.logCall; split
  · exact h
  · exact h.log _

@[simp] theorem calls_subW (uc raw o) (w : World) : (subW uc raw o w).calls = w.calls := by
  unfold subW; split <;> simp

theorem Sound.subW {env : Env} {w : World} (h : Sound env w) (uc raw o) : Sound env (subW uc raw o w) := by
  unfold Liquer.subW; split
  · exact h.metaIf _ _ _
  · exact h.metaIf _ _ _
  · exact h

@[simp] theorem calls_admitW (uc key st3) (w : World) : (admitW uc key st3 w).calls = w.calls := by
  unfold admitW; split
  · rfl
  · split
    · simp
    · split <;> simp

@[simp] theorem calls_fileW (uc key st2) (w : World) : (fileW uc key st2 w).calls = w.calls := by
  unfold fileW; split
  · rfl
  · split <;> simp

theorem subOutcome_sim {o o' : Outcome} (h : Outcome.sim o o') (st act raw sig xv x) :
    subOutcome st act raw sig xv x o = subOutcome st act raw sig xv x o' := by
  cases o with
  | st a =>
    obtain ⟨b, rfl, hc⟩ := Outcome.sim_st_left h
    simp only [subOutcome, EState.core_isError hc, EState.core_errPos hc, EState.core_errQuery hc, EState.core_data hc]
  | raised p q => simp at h; subst h; rfl
  | parseError => simp at h; subst h; rfl
  | unmodelled => simp at h; subst h; rfl

theorem subOutcome_ne_unmodelled {st act raw sig xv x o} (h : subOutcome st act raw sig xv x o ≠ .unmodelled) :
    o ≠ .unmodelled := by
  intro hu; subst hu; exact h rfl

/-! ### the call -/

theorem call_refines {env : Env} {C : Query → Prop} {T : Str → Prop} {n : Nat} (ih : RefAt env C T n) (w1 : World) (st act raw sig x) (uc : Bool)
    (hS : Sound env w1)
    (hsub : ∀ args y qt, cmdSem sig.ns sig.name st.data st.vars args = .subeval y qt → T qt) :
    Refines env w1 (evalCall env n w1 st act raw sig x uc).1 (evalCall env n w1 st act raw sig x uc).2
      (fun m => refCall env m st act raw sig x) := by
  unfold evalCall
  split
  · exact ⟨hS, by simp⟩
  · next hpa =>
    refine ⟨hS.metaIf _ _ _, fun _ => ⟨0, [], by simp, ?_, ?_⟩⟩
    · simp
    · simp [refCall, hpa]
  · next args hpa =>
    split
    · exact ⟨hS.logCall _ _ _, by simp⟩
    · next hc =>
      refine ⟨(hS.logCall _ _ _).metaIf _ _ _, fun _ => ⟨0, callOf st sig args, by simp, ?_, ?_⟩⟩
      · simp [refCall, hpa, hc]
      · simp [refCall, hpa, hc]
    · next v hc =>
      refine ⟨(hS.logCall _ _ _).metaIf _ _ _, fun _ => ⟨0, callOf st sig args, by simp, ?_, ?_⟩⟩
      · simp [refCall, hpa, hc]
      · simp [refCall, hpa, hc]
    · next v vars hc =>
      refine ⟨(hS.logCall _ _ _).metaIf _ _ _, fun _ => ⟨0, callOf st sig args, by simp, ?_, ?_⟩⟩
      · simp [refCall, hpa, hc]
      · simp [refCall, hpa, hc]
    · next v hc =>
      refine ⟨(hS.logCall _ _ _).metaIf _ _ _, fun _ => ⟨0, callOf st sig args, by simp, ?_, ?_⟩⟩
      · simp [refCall, hpa, hc]
      · simp [refCall, hpa, hc]
    · next y qtext hc =>
      obtain ⟨hS3, hw⟩ := ih.text (w1.logCall st sig args) qtext true (hS.logCall _ _ _) (hsub _ _ _ hc)
      refine ⟨hS3.subW _ _ _, fun hne => ?_⟩
      obtain ⟨m, c3', hc1, hc2, hsim⟩ := hw (subOutcome_ne_unmodelled hne)
      refine ⟨m, callOf st sig args ++ c3', ?_, ?_, ?_⟩
      · simp [hc1, List.append_assoc]
      · simp only [refCall, hpa, hc]; exact (List.Sublist.refl _).append hc2
      · simp only [refCall, hpa, hc]; rw [subOutcome_sim hsim]; exact Outcome.sim_refl _

/-! ### link arguments -/

theorem link_refines {env : Env} {C : Query → Prop} {T : Str → Prop} {n : Nat} (ih : RefAt env C T n) (w : World) (lq : Query)
    (parent : Str) (hS : Sound env w)
    (hC : (lq.absolute || parent.isEmpty || parent == ['/']) = true → C lq)
    (hT : (lq.absolute || parent.isEmpty || parent == ['/']) = false →
      ∀ h as f ab pq, lq = .mk [.transform h as f] ab → parse env.dec parent = some pq →
      T ((Query.mk (pq.segments ++ [.transform h as f]) pq.absolute).encode Gen.escapeTable)) :
    Refines env w (evalLink env n w lq parent).1 (evalLink env n w lq parent).2 (fun m => refLink env m lq parent) := by
  unfold evalLink refLink
  split
  · next hc => exact ih.q w lq _ .none none true hS (hC hc) (fun _ => rfl)
  · next hc =>
    split
    · split
      · exact ⟨hS, by simp⟩
      · next pq hpq => exact ih.text w _ true hS (hT (by simpa using hc) _ _ _ _ _ rfl hpq)
    · exact ⟨hS, by simp⟩

/-! ### parameters -/

theorem params_step {env : Env} {C : Query → Prop} {T : Str → Prop} {n : Nat} (ih : RefAt env C T n) (w : World) (ps : List Param)
    (raw parent : Str) (hS : Sound env w) (hL : LinksIn env C T parent ps) :
    RefinesP env w (evalParams env (n+1) w ps raw parent).1 (evalParams env (n+1) w ps raw parent).2
      (fun m => refParams env m ps raw parent) := by
  cases ps with
  | nil =>
    rw [evalParams_nil]
    exact ⟨hS, fun _ => ⟨1, [], by simp, by simp [refParams_nil], by simp [refParams_nil]⟩⟩
  | cons p ps =>
    have hL' : LinksIn env C T parent ps := hL.tail
    cases p with
    | str t pos =>
      rw [evalParams_str]
      obtain ⟨hS1, hw⟩ := ih.params w ps raw parent hS hL'
      rcases hp : evalParams env n w ps raw parent with ⟨w1, r⟩
      rw [hp] at hS1 hw
      cases r with
      | inl rest =>
        refine ⟨hS1, fun _ => ?_⟩
        obtain ⟨m, c', h1, h2, h3⟩ := hw (by simp)
        rcases hr : refParams env m ps raw parent with ⟨r', c⟩
        simp only [hr] at h2 h3
        subst h3
        exact ⟨m+1, c', h1, by simp only [refParams_str, hr]; exact h2, by simp only [refParams_str, hr]⟩
      | inr o =>
        refine ⟨hS1, fun hne => ?_⟩
        obtain ⟨m, c', h1, h2, h3⟩ := hw hne
        rcases hr : refParams env m ps raw parent with ⟨r', c⟩
        simp only [hr] at h2 h3
        subst h3
        exact ⟨m+1, c', h1, by simp only [refParams_str, hr]; exact h2, by simp only [refParams_str, hr]⟩
    | link lq pos =>
      rw [evalParams_link]
      obtain ⟨hS1, hw⟩ := link_refines ih w lq parent hS (hL lq pos (List.mem_cons_self ..)).1
        (hL lq pos (List.mem_cons_self ..)).2
      rcases hl : evalLink env n w lq parent with ⟨w1, o⟩
      rw [hl] at hS1 hw
      simp only at hS1 hw
      cases o with
      | unmodelled => exact ⟨hS1, by simp⟩
      | raised a b =>
        refine ⟨hS1, fun _ => ?_⟩
        obtain ⟨m, c', h1, h2, h3⟩ := hw (by simp)
        rcases hr : refLink env m lq parent with ⟨o', c1⟩
        simp only [hr, Outcome.sim_raised] at h2 h3
        subst h3
        exact ⟨m+1, c', h1, by simp only [refParams_link, hr]; exact h2, by simp only [refParams_link, hr]⟩
      | parseError =>
        refine ⟨hS1, fun _ => ?_⟩
        obtain ⟨m, c', h1, h2, h3⟩ := hw (by simp)
        rcases hr : refLink env m lq parent with ⟨o', c1⟩
        simp only [hr, Outcome.sim_parseError] at h2 h3
        subst h3
        exact ⟨m+1, c', h1, by simp only [refParams_link, hr]; exact h2, by simp only [refParams_link, hr]⟩
      | st v =>
        obtain ⟨m, c1', h1, h2, h3⟩ := hw (by simp)
        rcases hr : refLink env m lq parent with ⟨o', c1⟩
        simp only [hr] at h2 h3
        obtain ⟨v', rfl, hcore⟩ := Outcome.sim_st_left h3
        have hve := EState.core_isError hcore
        have hvd := EState.core_data hcore
        simp only
        cases hv : v.isError
        · simp only [Bool.false_eq_true, if_false]
          rw [hv] at hve
          obtain ⟨hS2, hw2⟩ := ih.params w1 ps raw parent hS1 hL'
          rcases hp : evalParams env n w1 ps raw parent with ⟨w2, r⟩
          rw [hp] at hS2 hw2
          simp only at hS2 hw2
          have hve : v'.isError = false := hve.symm
          cases r <;> (
            refine ⟨hS2, fun hne => ?_⟩
            obtain ⟨m2, c2', g1, g2, g3⟩ := hw2 (by first | exact Sum.inl_ne_inr | exact hne)
            rcases hr2 : refParams env m2 ps raw parent with ⟨r2, c2⟩
            simp only [hr2] at g2 g3
            subst g3
            have hlM : refLink env (max m m2) lq parent = (.st v', c1) := by
              rw [refLink_mono_le env (Nat.le_max_left m m2) lq parent (by rw [hr]; simp), hr]
            have hpM := refParams_mono_le env (Nat.le_max_right m m2) ps raw parent
                (by rw [hr2]; first | exact Sum.inl_ne_inr | exact hne)
            rw [hr2] at hpM
            refine ⟨max m m2 + 1, c1' ++ c2', ?_, ?_, ?_⟩
            · rw [g1, h1, List.append_assoc]
            · simp only [refParams_link, hlM, hve, Bool.false_eq_true, if_false, hpM]
              exact h2.append g2
            · simp only [refParams_link, hlM, hve, Bool.false_eq_true, if_false, hpM, hvd])
        · simp only [if_true]
          have hve : v'.isError = true := by rw [← hve, hv]
          refine ⟨hS1, fun _ => ⟨m+1, c1', h1, ?_, ?_⟩⟩
          · simp only [refParams_link, hr, hve, if_true]; exact h2
          · simp only [refParams_link, hr, hve, if_true]

/-! ### actions -/

theorem act_step {env : Env} {C : Query → Prop} {T : Str → Prop} {n : Nat} (ih : RefAt env C T n) (w : World) (st : EState) (a : Action)
    (raw parent : Str) (extra : Extra) (uc : Bool) (hS : Sound env w) (hL : LinksIn env C T parent a.params)
    (hSub : SubIn env T a) :
    Refines env w (evalAction env (n+1) w st a raw parent extra uc).1 (evalAction env (n+1) w st a raw parent extra uc).2
      (fun m => refAction env m st a raw parent extra) := by
  rw [evalAction_succ]
  have hS0 := hS.metaIf uc raw (s "evaluation")
  split
  · exact ⟨hS0, by simp⟩
  · next nss hns =>
    split
    · exact ⟨hS0, by simp⟩
    · next hl =>
      split
      · next hr =>
        refine ⟨hS0.metaIf _ _ _, fun _ => ⟨1, [], by simp, by simp, ?_⟩⟩
        simp only [refAction_succ, hns, hl, hr]; exact Outcome.sim_refl _
      · next sig hr =>
        obtain ⟨hS1, hw⟩ := ih.params (w.metaIf uc raw (s "evaluation")) a.params raw parent hS0 hL
        rcases hp : evalParams env n (w.metaIf uc raw (s "evaluation")) a.params raw parent with ⟨w1, r⟩
        rw [hp] at hS1 hw
        simp only [World.calls_metaIf] at hS1 hw
        cases r with
        | inr o =>
          refine ⟨hS1, fun hne => ?_⟩
          obtain ⟨m, c', h1, h2, h3⟩ := hw (fun hu => hne (by simpa using hu))
          rcases hr1 : refParams env m a.params raw parent with ⟨r', c1⟩
          simp only [hr1] at h2 h3
          subst h3
          refine ⟨m+1, c', h1, ?_, ?_⟩
          · simp only [refAction_succ, hns, hl, hr, hr1]; exact h2
          · simp only [refAction_succ, hns, hl, hr, hr1]; exact Outcome.sim_refl _
        | inl given =>
          obtain ⟨hS2, hw2⟩ := call_refines ih w1 st a raw sig (applyExtra extra given) uc hS1
            (fun args y qt hc => hSub nss sig hr _ _ _ _ _ hc)
          refine ⟨hS2, fun hne => ?_⟩
          obtain ⟨m, c1', h1, h2, h3⟩ := hw (by simp)
          obtain ⟨m2, c2', g1, g2, g3⟩ := hw2 hne
          rcases hr1 : refParams env m a.params raw parent with ⟨r', c1⟩
          simp only [hr1] at h2 h3
          subst h3
          have hpM := refParams_mono_le env (Nat.le_max_left m m2) a.params raw parent (by rw [hr1]; simp)
          rw [hr1] at hpM
          have hcM := refCall_mono_le env (Nat.le_max_right m m2) st a raw sig (applyExtra extra given)
            (Outcome.sim_ne_unmodelled g3 hne)
          refine ⟨max m m2 + 1, c1' ++ c2', ?_, ?_, ?_⟩
          · rw [g1, h1, List.append_assoc]
          · simp only [refAction_succ, hns, hl, hr, hpM, hcM]; exact h2.append g2
          · simp only [refAction_succ, hns, hl, hr, hpM, hcM]; exact g3

/-! ### texts -/

theorem text_step {env : Env} {C : Query → Prop} {T : Str → Prop} {n : Nat} (hC : Closed env C T) (ih : RefAt env C T n) (w : World) (t : Str)
    (ug : Bool) (hS : Sound env w) (hT : T t) :
    Refines env w (evalText env (n+1) w t ug).1 (evalText env (n+1) w t ug).2 (fun m => refText env m t) := by
  rw [evalText_succ]
  split
  · next hp =>
    refine ⟨hS, fun _ => ⟨1, [], by simp, by simp, ?_⟩⟩
    simp only [refText_succ, hp]; exact Outcome.sim_refl _
  · next q hp =>
    obtain ⟨hS1, hw⟩ := ih.q w q t .none none ug hS (hC.text t q hT hp) (fun _ => rfl)
    refine ⟨hS1, fun hne => ?_⟩
    obtain ⟨m, c', h1, h2, h3⟩ := hw hne
    exact ⟨m+1, c', h1, by simp only [refText_succ, hp]; exact h2, by simp only [refText_succ, hp]; exact h3⟩

/-! ### queries -/

theorem Refines.of_calls_eq {env : Env} {w0 w w' : World} {o f} (h : Refines env w0 w' o f) (hc : w0.calls = w.calls) :
    Refines env w w' o f := by
  unfold Refines at h ⊢; rw [hc] at h; exact h

theorem Refines.intro {env : Env} {w w' : World} {o : Outcome} {f : Nat → Outcome × List Str}
    (hS : Sound env w') (m : Nat) (c' : List Str) {o' : Outcome} {c : List Str} (hf : f m = (o', c))
    (hc : w'.calls = w.calls ++ c') (hsub : c'.Sublist c) (hsim : Outcome.sim o o') : Refines env w w' o f :=
  ⟨hS, fun _ => ⟨m, c', hc, by rw [hf]; exact hsub, by rw [hf]; exact hsim⟩⟩

theorem pre_refines {env : Env} {C : Query → Prop} {T : Str → Prop} {n : Nat} (hC : Closed env C T) (ih : RefAt env C T n) (w : World)
    (q : Query) (raw : Str) (input : Option Val) (uc : Bool) (hS : Sound env w) (hCq : C q)
    (huc : uc = true → input = none) :
    Refines env w (evalPre env n w q raw input uc).1 (evalPre env n w q raw input uc).2
      (fun m => refPre env m q input) := by
  unfold evalPre refPre
  split
  · exact ⟨hS, fun _ => ⟨0, [], by simp, by simp, Outcome.sim_refl _⟩⟩
  · next p hp =>
    obtain ⟨r, hpr, hpe⟩ := Query.preQ_some hp
    exact (ih.q (w.metaIf uc raw (s "evaluating parent")) p _ .none input uc (hS.metaIf _ _ _)
      (hC.pred q p r hCq hpr hpe) huc).of_calls_eq (by simp)

/-- a state that is, up to status, the successful cacheable reference value of `q` (under any spelling and
extra parameters) may be stored under the canonical text of `q`: this is where `CanonStore` is used -/
theorem store_ok {env : Env} {q : Query} (hcs : CanonStore env q) {M : Nat} {raw : Str} {extra : Extra}
    {s' : EState} (href : (refQ env M q raw extra none).1 = .st s')
    (s : EState) (hcore : s.core = s'.core) (he : s.isError = false) (hv : s.volatile = false) (hc : s.caching = true)
    (hq : s.query = q.encode Gen.escapeTable) :
    ∃ fuel st'' c, refText env fuel s.query = (.st st'', c) ∧ st''.isError = false ∧ st''.volatile = false ∧
      st''.caching = true ∧ s.core = st''.core := by
  have he' : s'.isError = false := by rw [← EState.core_isError hcore]; exact he
  have hv' : s'.volatile = false := by rw [← EState.core_volatile hcore]; exact hv
  have h1 := refQ_good_indep env (q.encode Gen.escapeTable) M q raw extra none s' href he' (Or.inr hv')
  rcases hr : refQ env M q raw extra none with ⟨o, c⟩
  rw [hr] at href h1
  simp only at href; subst href
  obtain ⟨fuel', st'', c', hrt, hcore'⟩ := hcs M s' c h1 he'
  have hcc := hcore.trans hcore'
  refine ⟨fuel', st'', c', by rw [hq]; exact hrt, ?_, ?_, ?_, hcc⟩
  · rw [← EState.core_isError hcc]; exact he
  · rw [← EState.core_volatile hcc]; exact hv
  · rw [← EState.core_caching hcc]; exact hc

theorem core_setQuery {a b : EState} (h : a.core = b.core) (k : Str) :
    ({ a with query := k } : EState).core = ({ b with query := k } : EState).core := by
  rw [EState.core_eq_withStatus h]; rfl

theorem core_propagate {a b : EState} (h : a.core = b.core) (k : Str) :
    ({ a with data := .none, query := k } : EState).core = ({ b with data := .none, query := k } : EState).core := by
  rw [EState.core_eq_withStatus h]; rfl

theorem core_file {a b : EState} (h : a.core = b.core) (f : Str) (k : Str) :
    ({ a with filename := some f, extension := some (extensionOf f), query := k } : EState).core =
      ({ b with filename := some f, extension := some (extensionOf f), query := k } : EState).core := by
  rw [EState.core_eq_withStatus h]; rfl

theorem refQ_succ_of_pre {env : Env} {M : Nat} {q : Query} {raw : Str} {extra : Extra} {input : Option Val}
    {o' : Outcome} {c0 : List Str} (hres : q.isRes = false) (hpre : refPre env M q input = (o', c0)) :
    refQ env (M+1) q raw extra input =
      ((refAfter env M o' q.preParent q.preRem (q.encode Gen.escapeTable) raw extra).1,
        c0 ++ (refAfter env M o' q.preParent q.preRem (q.encode Gen.escapeTable) raw extra).2) := by
  rw [refQ_succ', hpre]; simp [hres]

theorem Sound.admitW {env : Env} {w : World} (h : Sound env w) (uc : Bool) (key : Str) (st3 : EState)
    (hstore : uc = true → st3.isError = false → st3.volatile = false → st3.caching = true →
      ∃ fuel st' c, refText env fuel st3.query = (.st st', c) ∧ st'.isError = false ∧
        st'.volatile = false ∧ st'.caching = true ∧ st3.core = st'.core) :
    Sound env (admitW uc key st3 w) := by
  unfold Liquer.admitW
  split
  · exact h
  · next huc =>
    split
    · next hadm =>
      simp only [Bool.and_eq_true, Bool.not_eq_eq_eq_not, Bool.not_true] at hadm huc
      exact h.store st3 (hstore (by simpa using huc) hadm.1.2 hadm.2 hadm.1.1)
    · split
      · exact h.storeMeta _ _
      · exact h.remove _

theorem Sound.fileW {env : Env} {w : World} (h : Sound env w) (uc : Bool) (key : Str) (st2 : EState)
    (hstore : uc = true → st2.volatile = false → st2.caching = true →
      ∃ fuel st' c, refText env fuel st2.query = (.st st', c) ∧ st'.isError = false ∧
        st'.volatile = false ∧ st'.caching = true ∧ st2.core = st'.core) :
    Sound env (fileW uc key st2 w) := by
  unfold Liquer.fileW
  split
  · exact h
  · next huc =>
    split
    · next hadm =>
      simp only [Bool.and_eq_true, Bool.not_eq_eq_eq_not, Bool.not_true] at hadm huc
      exact h.store st2 (hstore (by simpa using huc) hadm.2 hadm.1)
    · exact h.remove _

theorem q_step {env : Env} {C : Query → Prop} {T : Str → Prop} {n : Nat} (hC : Closed env C T) (hcanon : ∀ q, C q → CanonOK env q)
    (ih : RefAt env C T n) (w : World) (q : Query) (raw : Str) (extra : Extra) (input : Option Val) (uc : Bool)
    (hS : Sound env w) (hCq : C q) (huc : uc = true → input = none) :
    Refines env w (evalQ env (n+1) w q raw extra input uc).1 (evalQ env (n+1) w q raw extra input uc).2
      (fun m => refQ env m q raw extra input) := by
  rw [evalQ_succ']
  split
  · next st hhit =>
    -- cache hit: `Sound` gives the reference value of the key text, `CanonHit` that of the query
    have hcond : (extra.isEmpty && input.isNone && uc) = true ∧ w.get (q.encode Gen.escapeTable) = some st := by
      split at hhit
      · exact ⟨‹_›, hhit⟩
      · simp at hhit
    obtain ⟨hcond, hget⟩ := hcond
    simp only [Bool.and_eq_true] at hcond
    obtain ⟨⟨hxe, hin⟩, _⟩ := hcond
    have hin : input = none := by cases input <;> simp_all
    subst hin
    obtain ⟨fuel, st', c, hrt, he, hv, hc, hcore⟩ := hS.get hget
    obtain ⟨fuel', st'', c', hrq, hcore'⟩ := (hcanon q hCq).1 fuel st' c hrt he
    have he'' : st''.isError = false := by rw [← EState.core_isError hcore']; exact he
    have := refQ_good_indep' env raw fuel' q _ extra none st'' (by rw [hrq]) he'' hxe
    refine ⟨hS, fun _ => ⟨fuel', [], by simp, by simp, ?_⟩⟩
    simp only [this, hrq]; exact hcore.trans hcore'
  · split
    · exact ⟨hS, by simp⟩
    · next hres =>
      have hres : q.isRes = false := by simpa using hres
      obtain ⟨hS1, hw⟩ := pre_refines hC ih w q raw input uc hS hCq huc
      rcases hpre : evalPre env n w q raw input uc with ⟨w1, o⟩
      rw [hpre] at hS1 hw
      simp only at hS1 hw ⊢
      unfold evalAfter
      cases o with
      | unmodelled => exact ⟨hS1, by simp⟩
      | raised a b =>
        refine ⟨hS1, fun _ => ?_⟩
        obtain ⟨m1, c', h1, h2, h3⟩ := hw (by simp)
        rcases hr1 : refPre env m1 q input with ⟨o', c0⟩
        simp only [hr1, Outcome.sim_raised] at h2 h3
        subst h3
        refine ⟨m1+1, c', h1, ?_, ?_⟩
        · simp only [refQ_succ_of_pre hres hr1, refAfter, List.append_nil]; exact h2
        · simp only [refQ_succ_of_pre hres hr1, refAfter]; exact Outcome.sim_refl _
      | parseError =>
        refine ⟨hS1, fun _ => ?_⟩
        obtain ⟨m1, c', h1, h2, h3⟩ := hw (by simp)
        rcases hr1 : refPre env m1 q input with ⟨o', c0⟩
        simp only [hr1, Outcome.sim_parseError] at h2 h3
        subst h3
        refine ⟨m1+1, c', h1, ?_, ?_⟩
        · simp only [refQ_succ_of_pre hres hr1, refAfter, List.append_nil]; exact h2
        · simp only [refQ_succ_of_pre hres hr1, refAfter]; exact Outcome.sim_refl _
      | st st =>
        obtain ⟨m1, c', h1, h2, h3⟩ := hw (by simp)
        rcases hr1 : refPre env m1 q input with ⟨o', c0⟩
        simp only [hr1] at h2 h3
        obtain ⟨st', rfl, hcore⟩ := Outcome.sim_st_left h3
        have hse := EState.core_isError hcore
        simp only
        rcases Bool.eq_false_or_eq_true st.isError with hserr | hserr
        rotate_left
        · -- successful predecessor: the last step
          have hserr' : st'.isError = false := by rw [← hse]; exact hserr
          rw [if_neg (by rw [hserr]; simp)]
          unfold evalPost
          generalize hrem : q.preRem = r
          split
          · -- no step
            have href : (refQ env (m1+1) q raw extra input) =
                (.st { st' with query := q.encode Gen.escapeTable }, c0) := by
              simp only [refQ_succ_of_pre hres hr1, refAfter, hserr', Bool.false_eq_true, if_false, hrem, refPost,
                List.append_nil]
            exact Refines.intro hS1 (m1+1) c' href h1 h2 (core_setQuery hcore _)
          · -- file name
            next hd f =>
            have href : (refQ env (m1+1) q raw extra input) =
                (.st { st' with filename := some f, extension := some (extensionOf f), query := q.encode Gen.escapeTable },
                  c0) := by
              simp only [refQ_succ_of_pre hres hr1, refAfter, hserr', Bool.false_eq_true, if_false, hrem, refPost,
                List.append_nil]
            have hcore2 := core_file hcore f (q.encode Gen.escapeTable)
            refine Refines.intro ((hS1.metaIf _ _ _).fileW _ _ _ ?_) (m1+1) c' href (by simpa using h1) h2 hcore2
            intro hu hv hc
            have hin := huc hu; subst hin
            exact store_ok (hcanon q hCq).2 (by rw [href]) _ hcore2 hserr hv hc rfl
          · -- action
            next hd a =>
            obtain ⟨p0, hp0⟩ := Query.preRem_some hrem
            obtain ⟨hL, hSub⟩ := hC.act q p0 hd a hCq hp0
            obtain ⟨hS2, hw2⟩ := ih.act w1 st a raw q.preParent extra uc hS1 hL hSub
            rcases hact : evalAction env n w1 st a raw q.preParent extra uc with ⟨w2, o2⟩
            rw [hact] at hS2 hw2
            simp only at hS2 hw2 ⊢
            -- the reference side at a common fuel
            have key : o2 ≠ .unmodelled → ∃ M c2' o2' c2, w2.calls = w1.calls ++ c2' ∧ c2'.Sublist c2 ∧ Outcome.sim o2 o2' ∧
                refPre env M q input = (.st st', c0) ∧ refAction env M st' a raw q.preParent extra = (o2', c2) := by
              intro hne
              obtain ⟨m2, c2', g1, g2, g3⟩ := hw2 hne
              simp only [refAction_core env m2 hcore] at g2 g3
              refine ⟨max m1 m2, c2', _, _, g1, g2, g3, ?_, ?_⟩
              · rw [refPre_mono_le env (Nat.le_max_left m1 m2) q input (by rw [hr1]; simp), hr1]
              · rw [refAction_mono_le env (Nat.le_max_right m1 m2) st' a raw q.preParent extra
                  (Outcome.sim_ne_unmodelled g3 hne)]
            cases o2 with
            | unmodelled => exact ⟨hS2, by simp⟩
            | raised x y =>
              obtain ⟨M, c2', o2', c2, g1, g2, g3, hpM, haM⟩ := key (by simp)
              simp only [Outcome.sim_raised] at g3; subst g3
              have href : (refQ env (M+1) q raw extra input) = (.raised x y, c0 ++ c2) := by
                simp only [refQ_succ_of_pre hres hpM, refAfter, hserr', Bool.false_eq_true, if_false, hrem, refPost, haM]
              exact Refines.intro hS2 (M+1) (c' ++ c2') href (by rw [g1, h1, List.append_assoc]) (h2.append g2)
                (Outcome.sim_refl _)
            | parseError =>
              obtain ⟨M, c2', o2', c2, g1, g2, g3, hpM, haM⟩ := key (by simp)
              simp only [Outcome.sim_parseError] at g3; subst g3
              have href : (refQ env (M+1) q raw extra input) = (.parseError, c0 ++ c2) := by
                simp only [refQ_succ_of_pre hres hpM, refAfter, hserr', Bool.false_eq_true, if_false, hrem, refPost, haM]
              exact Refines.intro hS2 (M+1) (c' ++ c2') href (by rw [g1, h1, List.append_assoc]) (h2.append g2)
                (Outcome.sim_refl _)
            | st st2 =>
              obtain ⟨M, c2', o2', c2, g1, g2, g3, hpM, haM⟩ := key (by simp)
              obtain ⟨st2', rfl, hcore2⟩ := Outcome.sim_st_left g3
              have href : (refQ env (M+1) q raw extra input) =
                  (.st { st2' with query := q.encode Gen.escapeTable }, c0 ++ c2) := by
                simp only [refQ_succ_of_pre hres hpM, refAfter, hserr', Bool.false_eq_true, if_false, hrem, refPost, haM]
              have hcore3 := core_setQuery hcore2 (q.encode Gen.escapeTable)
              refine Refines.intro (hS2.admitW _ _ _ ?_) (M+1) (c' ++ c2') href
                (by simp only [calls_admitW]; rw [g1, h1, List.append_assoc]) (h2.append g2) hcore3
              intro hu he hv hc
              have hin := huc hu; subst hin
              exact store_ok (hcanon q hCq).2 (by rw [href]) _ hcore3 he hv hc rfl
          · exact ⟨hS1, by simp⟩
        · -- failed predecessor: propagated
          have hserr' : st'.isError = true := by rw [← hse]; exact hserr
          rw [if_pos hserr]
          have href : (refQ env (m1+1) q raw extra input) =
              (.st { st' with data := .none, query := q.encode Gen.escapeTable }, c0) := by
            simp only [refQ_succ_of_pre hres hr1, refAfter, hserr', if_true, List.append_nil]
          exact Refines.intro (hS1.metaIf _ _ _) (m1+1) c' href (by simpa using h1) h2 (core_propagate hcore _)

/-! ### the refinement theorem -/

theorem refAt_zero (env : Env) (C : Query → Prop) (T : Str → Prop) : RefAt env C T 0 where
  text := fun w t ug hS _ => by rw [evalText_zero]; exact ⟨hS, by simp⟩
  q := fun w q raw extra input uc hS _ _ => by rw [evalQ_zero]; exact ⟨hS, by simp⟩
  act := fun w st a raw parent extra uc hS _ _ => by rw [evalAction_zero]; exact ⟨hS, by simp⟩
  params := fun w ps raw parent hS _ => by rw [evalParams_zero]; exact ⟨hS, by simp⟩

/-- R-eval: for every fuel, all four evaluator functions refine their reference counterparts -/
theorem refines {env : Env} {C : Query → Prop} {T : Str → Prop} (hC : Closed env C T)
    (hcanon : ∀ q, C q → CanonOK env q) :
    ∀ n, RefAt env C T n
  | 0 => refAt_zero env C T
  | n + 1 =>
    have ih := refines hC hcanon n
    { text := fun w t ug hS hT => text_step hC ih w t ug hS hT
      q := fun w q raw extra input uc hS hCq huc => q_step hC hcanon ih w q raw extra input uc hS hCq huc
      act := fun w st a raw parent extra uc hS hL hSub => act_step ih w st a raw parent extra uc hS hL hSub
      params := fun w ps raw parent hS hL => params_step ih w ps raw parent hS hL }

end Liquer
