/-
The refinement theorem R-eval: in a `Sound` world the evaluator computes (up to `status`) what the reference
interpretation computes, keeps the world `Sound`, and logs a subsequence of the reference calls.
Induction on the fuel, simultaneously for the four mutual functions; the reference fuel is existential
(a cache hit stands for a reference computation of unknown depth; `ref_mono` aligns fuels).
`CanonOK` is used at cache hits (`CanonHit`) and at `store` (`CanonStore`) only.
-/
import LiquerProofs.Lemmas.EvalRef

namespace Liquer

/-- the result `(w', o)` of an evaluation started in `w` refines the reference computation `f` -/
def Refines (env : Env) (w w' : World) (o : Outcome) (f : Nat → Outcome × List Str) : Prop :=
  Sound env w' ∧
  (o ≠ .unmodelled → ∃ m c', w'.calls = w.calls ++ c' ∧ c'.Sublist (f m).2 ∧ Outcome.sim o (f m).1)

def RefinesP (env : Env) (w w' : World) (r : List PVal ⊕ Outcome) (f : Nat → (List PVal ⊕ Outcome) × List Str) : Prop :=
  Sound env w' ∧
  (r ≠ .inr .unmodelled → ∃ m c', w'.calls = w.calls ++ c' ∧ c'.Sublist (f m).2 ∧ (f m).1 = r)

/-- the four statements at one fuel level, for a class `C` of queries -/
structure RefAt (env : Env) (C : Query → Prop) (n : Nat) : Prop where
  text : ∀ w t ug, Sound env w →
    Refines env w (evalText env n w t ug).1 (evalText env n w t ug).2 (fun m => refText env m t)
  q : ∀ w q raw extra input uc, Sound env w → C q → (uc = true → input = none) →
    Refines env w (evalQ env n w q raw extra input uc).1 (evalQ env n w q raw extra input uc).2
      (fun m => refQ env m q raw extra input)
  act : ∀ w st a raw parent extra uc, Sound env w → LinksIn C a.params →
    Refines env w (evalAction env n w st a raw parent extra uc).1 (evalAction env n w st a raw parent extra uc).2
      (fun m => refAction env m st a raw parent extra)
  params : ∀ w ps raw parent, Sound env w → LinksIn C ps →
    RefinesP env w (evalParams env n w ps raw parent).1 (evalParams env n w ps raw parent).2
      (fun m => refParams env m ps raw parent)

/-! ### frame facts of the evaluator-side pieces -/

@[simp] theorem World.calls_logCall (w : World) (st sig args) :
    (w.logCall st sig args).calls = w.calls ++ callOf st sig args := by
  unfold World.logCall callOf; split <;> simp

theorem Sound.logCall {env : Env} {w : World} (h : Sound env w) (st sig args) : Sound env (w.logCall st sig args) := by
  unfold World.logCall; split
  · exact h
  · exact h.log _

@[simp] theorem calls_subW (raw o) (w : World) : (subW raw o w).calls = w.calls := by
  unfold subW; split <;> simp

theorem Sound.subW {env : Env} {w : World} (h : Sound env w) (raw o) : Sound env (subW raw o w) := by
  unfold Liquer.subW; split
  · exact h.storeMeta _ _
  · exact h.storeMeta _ _
  · exact h

@[simp] theorem calls_admitW (uc key st3) (w : World) : (admitW uc key st3 w).calls = w.calls := by
  unfold admitW; split
  · rfl
  · split
    · simp
    · split <;> simp

@[simp] theorem calls_fileW (uc key st2) (w : World) : (fileW uc key st2 w).calls = w.calls := by
  unfold fileW; split
  · rfl
  · split <;> simp

theorem subOutcome_sim {o o' : Outcome} (h : Outcome.sim o o') (st act raw sig xv x) :
    subOutcome st act raw sig xv x o = subOutcome st act raw sig xv x o' := by
  cases o with
  | st a =>
    obtain ⟨b, rfl, hc⟩ := Outcome.sim_st_left h
    simp only [subOutcome, EState.core_isError hc, EState.core_errPos hc, EState.core_errQuery hc, EState.core_data hc]
  | raised p q => simp at h; subst h; rfl
  | parseError => simp at h; subst h; rfl
  | unmodelled => simp at h; subst h; rfl

theorem subOutcome_ne_unmodelled {st act raw sig xv x o} (h : subOutcome st act raw sig xv x o ≠ .unmodelled) :
    o ≠ .unmodelled := by
  intro hu; subst hu; exact h rfl

/-! ### the call -/

theorem call_refines {env : Env} {C : Query → Prop} {n : Nat} (ih : RefAt env C n) (w1 : World) (st act raw sig x)
    (hS : Sound env w1) :
    Refines env w1 (evalCall env n w1 st act raw sig x).1 (evalCall env n w1 st act raw sig x).2
      (fun m => refCall env m st act raw sig x) := by
  unfold evalCall
  split
  · exact ⟨hS, by simp⟩
  · next hpa =>
    refine ⟨hS.storeMeta _ _, fun _ => ⟨0, [], by simp, ?_, ?_⟩⟩
    · simp
    · simp [refCall, hpa]
  · next args hpa =>
    split
    · exact ⟨hS.logCall _ _ _, by simp⟩
    · next hc =>
      refine ⟨(hS.logCall _ _ _).storeMeta _ _, fun _ => ⟨0, callOf st sig args, by simp, ?_, ?_⟩⟩
      · simp [refCall, hpa, hc]
      · simp [refCall, hpa, hc]
    · next v hc =>
      refine ⟨(hS.logCall _ _ _).storeMeta _ _, fun _ => ⟨0, callOf st sig args, by simp, ?_, ?_⟩⟩
      · simp [refCall, hpa, hc]
      · simp [refCall, hpa, hc]
    · next v vars hc =>
      refine ⟨(hS.logCall _ _ _).storeMeta _ _, fun _ => ⟨0, callOf st sig args, by simp, ?_, ?_⟩⟩
      · simp [refCall, hpa, hc]
      · simp [refCall, hpa, hc]
    · next v hc =>
      refine ⟨(hS.logCall _ _ _).storeMeta _ _, fun _ => ⟨0, callOf st sig args, by simp, ?_, ?_⟩⟩
      · simp [refCall, hpa, hc]
      · simp [refCall, hpa, hc]
    · next y qtext hc =>
      obtain ⟨hS3, hw⟩ := ih.text (w1.logCall st sig args) qtext true (hS.logCall _ _ _)
      refine ⟨hS3.subW _ _, fun hne => ?_⟩
      obtain ⟨m, c3', hc1, hc2, hsim⟩ := hw (subOutcome_ne_unmodelled hne)
      refine ⟨m, callOf st sig args ++ c3', ?_, ?_, ?_⟩
      · simp [hc1, List.append_assoc]
      · simp only [refCall, hpa, hc]; exact (List.Sublist.refl _).append hc2
      · simp only [refCall, hpa, hc]; rw [subOutcome_sim hsim]; exact Outcome.sim_refl _

/-! ### link arguments -/

theorem link_refines {env : Env} {C : Query → Prop} {n : Nat} (ih : RefAt env C n) (w : World) (lq : Query)
    (parent : Str) (hS : Sound env w) (hC : C lq) :
    Refines env w (evalLink env n w lq parent).1 (evalLink env n w lq parent).2 (fun m => refLink env m lq parent) := by
  unfold evalLink refLink
  split
  · exact ih.q w lq _ .none none true hS hC (fun _ => rfl)
  · split
    · split
      · exact ⟨hS, by simp⟩
      · exact ih.text w _ true hS
    · exact ⟨hS, by simp⟩

/-! ### parameters -/

theorem params_step {env : Env} {C : Query → Prop} {n : Nat} (ih : RefAt env C n) (w : World) (ps : List Param)
    (raw parent : Str) (hS : Sound env w) (hL : LinksIn C ps) :
    RefinesP env w (evalParams env (n+1) w ps raw parent).1 (evalParams env (n+1) w ps raw parent).2
      (fun m => refParams env m ps raw parent) := by
  cases ps with
  | nil =>
    rw [evalParams_nil]
    exact ⟨hS, fun _ => ⟨1, [], by simp, by simp [refParams_nil], by simp [refParams_nil]⟩⟩
  | cons p ps =>
    have hL' : LinksIn C ps := fun lq pos h => hL lq pos (List.mem_cons_of_mem _ h)
    cases p with
    | str t pos =>
      rw [evalParams_str]
      obtain ⟨hS1, hw⟩ := ih.params w ps raw parent hS hL'
      rcases hp : evalParams env n w ps raw parent with ⟨w1, r⟩
      rw [hp] at hS1 hw
      cases r with
      | inl rest =>
        refine ⟨hS1, fun _ => ?_⟩
        obtain ⟨m, c', h1, h2, h3⟩ := hw (by simp)
        rcases hr : refParams env m ps raw parent with ⟨r', c⟩
        simp only [hr] at h2 h3
        subst h3
        exact ⟨m+1, c', h1, by simp only [refParams_str, hr]; exact h2, by simp only [refParams_str, hr]⟩
      | inr o =>
        refine ⟨hS1, fun hne => ?_⟩
        obtain ⟨m, c', h1, h2, h3⟩ := hw hne
        rcases hr : refParams env m ps raw parent with ⟨r', c⟩
        simp only [hr] at h2 h3
        subst h3
        exact ⟨m+1, c', h1, by simp only [refParams_str, hr]; exact h2, by simp only [refParams_str, hr]⟩
    | link lq pos =>
      rw [evalParams_link]
      obtain ⟨hS1, hw⟩ := link_refines ih w lq parent hS (hL lq pos (List.mem_cons_self ..))
      rcases hl : evalLink env n w lq parent with ⟨w1, o⟩
      rw [hl] at hS1 hw
      simp only at hS1 hw
      cases o with
      | unmodelled => exact ⟨hS1, by simp⟩
      | raised a b =>
        refine ⟨hS1, fun _ => ?_⟩
        obtain ⟨m, c', h1, h2, h3⟩ := hw (by simp)
        rcases hr : refLink env m lq parent with ⟨o', c1⟩
        simp only [hr, Outcome.sim_raised] at h2 h3
        subst h3
        exact ⟨m+1, c', h1, by simp only [refParams_link, hr]; exact h2, by simp only [refParams_link, hr]⟩
      | parseError =>
        refine ⟨hS1, fun _ => ?_⟩
        obtain ⟨m, c', h1, h2, h3⟩ := hw (by simp)
        rcases hr : refLink env m lq parent with ⟨o', c1⟩
        simp only [hr, Outcome.sim_parseError] at h2 h3
        subst h3
        exact ⟨m+1, c', h1, by simp only [refParams_link, hr]; exact h2, by simp only [refParams_link, hr]⟩
      | st v =>
        obtain ⟨m, c1', h1, h2, h3⟩ := hw (by simp)
        rcases hr : refLink env m lq parent with ⟨o', c1⟩
        simp only [hr] at h2 h3
        obtain ⟨v', rfl, hcore⟩ := Outcome.sim_st_left h3
        have hve := EState.core_isError hcore
        have hvd := EState.core_data hcore
        simp only
        cases hv : v.isError
        · simp only [Bool.false_eq_true, if_false]
          rw [hv] at hve
          obtain ⟨hS2, hw2⟩ := ih.params w1 ps raw parent hS1 hL'
          rcases hp : evalParams env n w1 ps raw parent with ⟨w2, r⟩
          rw [hp] at hS2 hw2
          simp only at hS2 hw2
          have hve : v'.isError = false := hve.symm
          have fin : ∀ r', (r = .inr .unmodelled → r' = .inr .unmodelled) →
              (∀ c2, (match ((r, c2) : (List PVal ⊕ Outcome) × List Str) with
                | (.inl rest, c2) => ((.inl (.expanded v'.data pos :: rest), c1 ++ c2) : (List PVal ⊕ Outcome) × List Str)
                | (.inr o2, c2) => (.inr o2, c1 ++ c2)) = (r', c1 ++ c2)) →
              RefinesP env w w2 r' (fun m => refParams env m (Param.link lq pos :: ps) raw parent) := by
            intro r' hr' hmatch
            refine ⟨hS2, fun hne => ?_⟩
            have hrne : r ≠ .inr .unmodelled := fun hu => hne (hr' hu)
            obtain ⟨m2, c2', g1, g2, g3⟩ := hw2 hrne
            rcases hr2 : refParams env m2 ps raw parent with ⟨r2, c2⟩
            simp only [hr2] at g2 g3
            subst g3
            have hlM : refLink env (max m m2) lq parent = (.st v', c1) := by
              rw [refLink_mono_le env (Nat.le_max_left m m2) lq parent (by rw [hr]; simp), hr]
            have hpM : refParams env (max m m2) ps raw parent = (r2, c2) := by
              rw [refParams_mono_le env (Nat.le_max_right m m2) ps raw parent (by rw [hr2]; exact hrne), hr2]
            refine ⟨max m m2 + 1, c1' ++ c2', ?_, ?_, ?_⟩
            · rw [g1, h1, List.append_assoc]
            · simp only [refParams_link, hlM, hve, Bool.false_eq_true, if_false, hpM, hmatch]
              exact h2.append g2
            · simp only [refParams_link, hlM, hve, Bool.false_eq_true, if_false, hpM, hmatch]
          cases r with
          | inl rest => exact fin _ (by simp) (fun c2 => by rw [hvd])
          | inr o => exact fin _ (by simp) (fun c2 => rfl)
        · simp only [if_true]
          have hve : v'.isError = true := by rw [← hve, hv]
          refine ⟨hS1, fun _ => ⟨m+1, c1', h1, ?_, ?_⟩⟩
          · simp only [refParams_link, hr, hve, if_true]; exact h2
          · simp only [refParams_link, hr, hve, if_true]

end Liquer
