/-
C12, file-operation granularity, directory tree (4): the SPLIT reader of `StoreCache` on a `FileStore` — the metadata file is read
after `n1` file operations of the interleaving, the node (data file) after `n2 ≥ n1` of them (`readSCSplit`,
`LiquerModel/ConcFileSplit.lean`).

* `NodeOK`: at every moment the node at `p` is what it was initially, or a file with the complete new bytes (`GT` of
  `ConcFileT2.lean` says nothing about the node between the first `unlink` of the metadata file and the first publication of the data);
* `inv3TD_prefix_two`: `Inv3T ∧ NodeOK` after two prefixes `n1 ≤ n2`, at componentwise ordered positions;
* `split_readT`, `tsplit_core`, `tsplit_writers2`, `tsplit_writers3`, the corollary `TSplitAns.sound`.
-/
import LiquerProofs.Lemmas.ConcFileSplit
import LiquerProofs.Lemmas.ConcFileT3

namespace Liquer
namespace Crash

/-! ### the node at every moment -/

def NodeOK (p : Key) (X : Data) (t0 t : Tree) : Prop :=
  AL.get t (.node p) = AL.get t0 (.node p) ∨ AL.get t (.node p) = some (.file X)

theorem NodeOK.frame {p X t0 t} (h : NodeOK p X t0 t) (s : Step SName) (hs : SName.node p ∉ s.names) : NodeOK p X t0 (execT t s) := by
  unfold NodeOK; rw [get_execT_untouched t s _ hs]; exact h

/-- one core step of a store writer keeps `NodeOK`: the only step that touches the node is the `rename` of the writer's own complete
temporary -/
theorem NodeOK.storeStepT {p : Key} {X : Data} {t0 : Tree} (n1 n2 : Key) (M : Data)
    (q : Nat) (s : Step SName) (hs : (coreS p n1 n2 X M)[q]? = some s) (t : Tree)
    (hL : LocalST n1 n2 X M q t) (hN : NodeOK p X t0 t) : NodeOK p X t0 (execT t s) := by
  obtain ⟨-, l45, -, -⟩ := hL
  obtain _ | _ | _ | _ | _ | _ | _ | _ | _ | _ | q := q
  · simp [coreS, writeFileTN] at hs; subst hs
    exact hN.frame _ (by simp [Step.names])
  · simp [coreS, writeFileTN] at hs; subst hs
    exact hN.frame _ (by simp [Step.names])
  · simp [coreS, writeFileTN] at hs; subst hs
    exact hN.frame _ (by simp [Step.names])
  · simp [coreS, writeFileTN] at hs; subst hs
    exact hN.frame _ (by simp [Step.names])
  · simp [coreS, writeFileTN] at hs; subst hs
    exact hN.frame _ (by simp [Step.names])
  · simp [coreS, writeFileTN] at hs; subst hs
    have h5 := l45 (Or.inr rfl)
    exact Or.inr (by simp [execT, h5, AL.get_set])
  · simp [coreS, writeFileTN] at hs; subst hs
    exact hN.frame _ (by simp [Step.names])
  · simp [coreS, writeFileTN] at hs; subst hs
    exact hN.frame _ (by simp [Step.names])
  · simp [coreS, writeFileTN] at hs; subst hs
    exact hN.frame _ (by simp [Step.names])
  · simp [coreS, writeFileTN] at hs; subst hs
    exact hN.frame _ (by simp [Step.names])
  · simp [coreS, writeFileTN] at hs

def Inv3TD (p : Key) (X : Data) (t0 : Tree) (PN : Data → Prop) (a1 a2 b1 b2 tp : Key) (MA MB MP : Data)
    (i j k : Nat) (t : Tree) : Prop :=
  Inv3T p X t0 PN a1 a2 b1 b2 tp MA MB MP i j k t ∧ NodeOK p X t0 t

/-- the invariant holds after two prefixes `n1 ≤ n2` of every three-way interleaving, at componentwise ordered positions -/
theorem inv3TD_prefix_two (p : Key) (X : Data) (t0 : Tree) (PN : Data → Prop) (a1 a2 b1 b2 tp : Key) (MA MB MP : Data)
    (hdist : [a1, a2, b1, b2, tp].Nodup)
    (lb : List (Step SName)) (hlb : ∀ (j : Nat) (s : Step SName), lb[j]? = some s → (preS p ++ coreS p b1 b2 X MB)[j]? = some s)
    (lp : List (Step SName)) (hMP : lp ≠ [] → PN MP)
    (hlp : ∀ (k : Nat) (s : Step SName), lp[k]? = some s → (preM p ++ coreM p tp MP)[k]? = some s)
    (l : List (Step SName)) (hl : Interleave3 (preS p ++ coreS p a1 a2 X MA) lb lp l) (n1 n2 : Nat) (hn : n1 ≤ n2) :
    ∃ i1 j1 k1 i2 j2 k2, i1 ≤ i2 ∧ j1 ≤ j2 ∧ k1 ≤ k2 ∧
      Inv3TD p X t0 PN a1 a2 b1 b2 tp MA MB MP i1 j1 k1 ((l.take n1).foldl execT t0) ∧
      Inv3TD p X t0 PN a1 a2 b1 b2 tp MA MB MP i2 j2 k2 ((l.take n2).foldl execT t0) := by
  simp only [List.nodup_cons, List.mem_cons, List.not_mem_nil, or_false, not_or, List.nodup_nil, and_true, not_false_eq_true] at hdist
  obtain ⟨⟨h1, h2, h3, h4⟩, ⟨h5, h6, h7⟩, ⟨h8, h9⟩, h10⟩ := hdist
  have hLM : (preM p).length = (preS p).length + 1 := by simp [preM]
  refine prefix_inv3_two execT (preS p ++ coreS p a1 a2 X MA) lb lp
    (Inv3TD p X t0 PN a1 a2 b1 b2 tp MA MB MP) ?_ ?_ ?_ l 0 0 0 t0 (by simpa using hl) ⟨Inv3T.init .., Or.inl rfl⟩ n1 n2 hn
  · intro i j k t s hs ⟨hI, hN⟩
    rcases getElem?_append_cases _ _ _ _ hs with ⟨hi, hs'⟩ | ⟨hi, hs'⟩
    · obtain ⟨a, ha, rfl⟩ := preS_mem (List.mem_of_getElem? hs')
      refine ⟨hI.mkdir_frame _ (ancestor_node_ne ha) (by simp) (by simp) ?_ rfl rfl ?_ Iff.rfl Iff.rfl ?_ Iff.rfl,
        hN.frame _ (by simp only [Step.names, List.mem_singleton]; exact fun e => ancestor_node_ne ha e.symm)⟩
      · omega
      · constructor <;> intro h <;> omega
      · constructor <;> intro h <;> omega
    · obtain ⟨hA, hB, hP, hG⟩ := hI
      have hnames := coreS_names (List.mem_of_getElem? hs')
      obtain ⟨hA', hG'⟩ := storeStepT a1 a2 MA (Or.inl rfl) _ s hs' t _ _ hA hG (fun h => Or.inl (by omega)) (fun h => Or.inl (by omega))
      have hq : i + 1 - (preS p).length = i - (preS p).length + 1 := by omega
      refine ⟨⟨by rw [hq]; exact hA', LocalST_frame s ?_ ?_ hB, LocalMT_frame s ?_ hP, hG'.flags ?_ ?_⟩,
        NodeOK.storeStepT a1 a2 MA _ s hs' t hA hN⟩
      · intro hm; rcases hnames _ hm with h | h | h | h | h <;> simp_all
      · intro hm; rcases hnames _ hm with h | h | h | h | h <;> simp_all
      · intro hm; rcases hnames _ hm with h | h | h | h | h <;> simp_all
      · constructor
        · intro _; exact Or.inl (by omega)
        · intro _; trivial
      · constructor <;> intro h <;> omega
  · intro i j k t s hs0 ⟨hI, hN⟩
    have hs := hlb j s hs0
    rcases getElem?_append_cases _ _ _ _ hs with ⟨hj, hs'⟩ | ⟨hj, hs'⟩
    · obtain ⟨a, ha, rfl⟩ := preS_mem (List.mem_of_getElem? hs')
      refine ⟨hI.mkdir_frame _ (ancestor_node_ne ha) (by simp) (by simp) rfl ?_ rfl Iff.rfl ?_ Iff.rfl Iff.rfl ?_,
        hN.frame _ (by simp only [Step.names, List.mem_singleton]; exact fun e => ancestor_node_ne ha e.symm)⟩
      · omega
      · constructor <;> intro h <;> omega
      · constructor <;> intro h <;> omega
    · obtain ⟨hA, hB, hP, hG⟩ := hI
      have hnames := coreS_names (List.mem_of_getElem? hs')
      obtain ⟨hB', hG'⟩ := storeStepT b1 b2 MB (Or.inr rfl) _ s hs' t _ _ hB hG (fun h => Or.inr (Or.inl (by omega)))
        (fun h => Or.inr (by omega))
      have hq : j + 1 - (preS p).length = j - (preS p).length + 1 := by omega
      refine ⟨⟨LocalST_frame s ?_ ?_ hA, by rw [hq]; exact hB', LocalMT_frame s ?_ hP, hG'.flags ?_ ?_⟩,
        NodeOK.storeStepT b1 b2 MB _ s hs' t hB hN⟩
      · intro hm; rcases hnames _ hm with h | h | h | h | h <;> simp_all
      · intro hm; rcases hnames _ hm with h | h | h | h | h <;> simp_all
      · intro hm; rcases hnames _ hm with h | h | h | h | h <;> simp_all
      · constructor
        · intro _; exact Or.inr (Or.inl (by omega))
        · intro _; trivial
      · constructor <;> intro h <;> omega
  · intro i j k t s hs0 ⟨hI, hN⟩
    have hs := hlp k s hs0
    rcases getElem?_append_cases _ _ _ _ hs with ⟨hk, hs'⟩ | ⟨hk, hs'⟩
    · have hfr : ∀ nm : SName, s = .mkdir nm → nm ≠ .node p → nm ≠ .mfile p → (∀ a, nm ≠ .tmp a) →
          Inv3TD p X t0 PN a1 a2 b1 b2 tp MA MB MP i j (k + 1) (execT t s) := by
        intro nm e hn1 hn2 hn3
        subst e
        refine ⟨hI.mkdir_frame _ hn1 hn2 hn3 rfl rfl ?_ Iff.rfl Iff.rfl ?_ Iff.rfl Iff.rfl,
          hN.frame _ (by simp only [Step.names, List.mem_singleton]; exact fun e => hn1 e.symm)⟩
        · omega
        · constructor <;> intro h <;> omega
      rcases preM_mem (List.mem_of_getElem? hs') with ⟨a, ha, e⟩ | e
      · exact hfr _ e (ancestor_node_ne ha) (by simp) (by simp)
      · exact hfr _ e (by simp) (by simp) (by simp)
    · obtain ⟨hA, hB, hP, hG⟩ := hI
      have hnames := coreM_names (List.mem_of_getElem? hs')
      obtain ⟨hP', hG'⟩ := metaStepT tp MP (hMP (by intro h; simp [h] at hs0)) _ s hs' t _ _ hP hG
      have hq : k + 1 - (preM p).length = k - (preM p).length + 1 := by omega
      refine ⟨⟨LocalST_frame s ?_ ?_ hA, LocalST_frame s ?_ ?_ hB, by rw [hq]; exact hP', hG'.flags ?_ Iff.rfl⟩, hN.frame s ?_⟩
      · intro hm; rcases hnames _ hm with h | h <;> simp_all
      · intro hm; rcases hnames _ hm with h | h <;> simp_all
      · intro hm; rcases hnames _ hm with h | h <;> simp_all
      · intro hm; rcases hnames _ hm with h | h <;> simp_all
      · constructor <;> intro h <;> omega
      · intro hm; rcases hnames _ hm with h | h <;> simp_all

/-! ### what the split reader sees -/

theorem readSCSplit_eq (deM : Data → Option CMeta) (deD : Str → Data → Option (Option Str)) (tM tD : Tree) (k : Key) :
    readSCSplit deM deD tM tD k = scOf deM deD (AL.get tD (.node k), AL.get tM (.mfile k)) := by
  simp only [readSCSplit, scOf]
  cases AL.get tD (.node k) with
  | none => rfl
  | some x =>
    cases x with
    | dir => rfl
    | file d => cases AL.get tM (.mfile k) with
      | none => rfl
      | some y => cases y <;> rfl

/-- the five possible answers of the split reader `R`: a miss, the complete new entry (A's or B's metadata), what the atomic reader
obtains from the initial tree, or the READY metadata record `m0` of the initial tree with the NEW bytes decoded under the type `m0`
names -/
def TSplitAns (deM : Data → Option CMeta) (deD : Str → Data → Option (Option Str)) (t0 : Tree) (p : Key) (X : Data)
    (newA newB : CState) (R : Option CState) : Prop :=
  R = none ∨ R = some newA ∨ R = some newB ∨ R = readSC deM deD t0 p ∨
  ∃ mb0 m0 w, AL.get t0 (.mfile p) = some (.file mb0) ∧ deM mb0 = some m0 ∧ m0.status = ready ∧
    deD m0.typeId X = some w ∧ R = some { metadata := m0, data := w }

theorem split_readT {p : Key} {X MA MB : Data} {t0 tM tD : Tree} {PN : Data → Prop} {tt1 dd1 tt2 dd2 : Prop}
    (hG1 : GT p X t0 (fun b => b = MA ∨ b = MB) PN tt1 dd1 tM)
    (hG2 : GT p X t0 (fun b => b = MA ∨ b = MB) PN tt2 dd2 tD)
    (hN2 : NodeOK p X t0 tD) (hdd : dd1 → dd2)
    (deM : Data → Option CMeta) (deD : Str → Data → Option (Option Str)) (mA mB : CMeta) (v : Option Str)
    (hMA : deM MA = some mA) (hAr : mA.status = ready) (hAv : deD mA.typeId X = some v)
    (hMB : deM MB = some mB) (hBr : mB.status = ready) (hBv : deD mB.typeId X = some v)
    (hPN : ∀ b, PN b → ∀ m, deM b = some m → m.status ≠ ready) :
    TSplitAns deM deD t0 p X { metadata := mA, data := v } { metadata := mB, data := v } (readSCSplit deM deD tM tD p) := by
  unfold TSplitAns
  rw [readSCSplit_eq]
  by_cases ht : tt1
  · rcases hG1.st ht with h | ⟨b, hb, hp⟩ | ⟨b, hb, hp, hd1⟩
    · left; rw [h]; exact scOf_no_meta ..
    · left; rw [hb]; exact scOf_not_ready _ _ _ _ (hPN b hp)
    · have hd := hG2.dat (hdd hd1)
      rcases hp with hp | hp
      · right; left; subst hp; rw [hb, hd]; simp [scOf, hMA, hAr, hAv]
      · right; right; left; subst hp; rw [hb, hd]; simp [scOf, hMB, hBr, hBv]
  · rw [(hG1.same ht).2]
    rcases hN2 with h | h
    · right; right; right; left; rw [h, readSC_eq, pairT]
    · rw [h]
      cases hmf : AL.get t0 (.mfile p) with
      | none => left; rfl
      | some y =>
        cases y with
        | dir => left; rfl
        | file mb0 =>
          cases hm0 : deM mb0 with
          | none => left; simp [scOf, hm0]
          | some m0 =>
            by_cases hr : m0.status = ready
            · cases hw : deD m0.typeId X with
              | none => left; simp [scOf, hm0, hr, hw]
              | some w => right; right; right; right; exact ⟨mb0, m0, w, rfl, hm0, hr, hw, by simp [scOf, hm0, hr, hw]⟩
            · left; simp [scOf, hm0, hr]

/-- the frame for every other path: both trees are `Other` -/
theorem Other.readSplit {t0 tM tD : Tree} {p' : Key} (hM : Other t0 p' tM) (hD : Other t0 p' tD)
    (deM : Data → Option CMeta) (deD : Str → Data → Option (Option Str)) :
    readSCSplit deM deD tM tD p' = readSC deM deD t0 p' := by
  rw [readSCSplit_eq, readSC_eq, pairT, hM.2]
  rcases hD.1 with hn | ⟨h0, h1⟩
  · rw [hn]
  · rw [h0, h1]; rfl

theorem other_prefix (p p' : Key) (hne : p' ≠ p) (l : List (Step SName)) (hl : ∀ s ∈ l, Benign p s) (t0 : Tree) (n : Nat) :
    Other t0 p' (runPrefixT n l t0) :=
  foldl_inv execT (Other t0 p') (l.take n) (fun s hs _ hI => hI.step hne (hl s (List.mem_of_mem_take hs))) t0 ⟨Or.inl rfl, rfl⟩

/-! ### two store writers and (possibly) one progress writer, a split reader -/

theorem tsplit_core (deM : Data → Option CMeta) (deD : Str → Data → Option (Option Str)) (t0 : Tree) (p : Key)
    (b mbA mbB : Data) (mA mB : CMeta) (v : Option Str)
    (hMA : deM mbA = some mA) (hAr : mA.status = ready) (hAv : deD mA.typeId b = some v)
    (hMB : deM mbB = some mB) (hBr : mB.status = ready) (hBv : deD mB.typeId b = some v)
    (a1 a2 b1 b2 tp : Key) (hdist : [a1, a2, b1, b2, tp].Nodup) (mbP : Data)
    (lb : List (Step SName)) (hlb : lb = [] ∨ lb = storeStepsTN (.tmp b1) (.tmp b2) p b mbB)
    (lp : List (Step SName)) (hlp : lp = [] ∨ lp = storeMetaStepsTN (.tmp tp) p mbP)
    (hP : lp ≠ [] → ∀ m, deM mbP = some m → m.status ≠ ready)
    (l : List (Step SName)) (hl : Interleave3 (storeStepsTN (.tmp a1) (.tmp a2) p b mbA) lb lp l) (n1 n2 : Nat) (hn : n1 ≤ n2) :
    TSplitAns deM deD t0 p b { metadata := mA, data := v } { metadata := mB, data := v }
      (readSCSplit deM deD (runPrefixT n1 l t0) (runPrefixT n2 l t0) p) ∧
    ∀ p', p' ≠ p → readSCSplit deM deD (runPrefixT n1 l t0) (runPrefixT n2 l t0) p' = readSC deM deD t0 p' := by
  constructor
  · rw [storeStepsTN_split] at hl
    obtain ⟨i1, j1, k1, i2, j2, k2, hi, hj, -, ⟨⟨-, -, -, hG1⟩, -⟩, ⟨⟨-, -, -, hG2⟩, hN2⟩⟩ :=
      inv3TD_prefix_two p b t0 (fun x => lp ≠ [] ∧ x = mbP) a1 a2 b1 b2 tp mbA mbB mbP hdist lb
      (by
        intro j s hs
        rcases hlb with rfl | rfl
        · simp at hs
        · rw [storeStepsTN_split] at hs; exact hs)
      lp (fun h => ⟨h, rfl⟩)
      (by
        intro k s hs
        rcases hlp with rfl | rfl
        · simp at hs
        · rw [storeMetaStepsTN_split] at hs; exact hs)
      l hl n1 n2 hn
    refine split_readT hG1 hG2 hN2 (by omega) deM deD mA mB v hMA hAr hAv hMB hBr hBv ?_
    rintro x ⟨hne, rfl⟩ m hm
    exact hP hne m hm
  · intro p' hne
    have hben : ∀ s ∈ l, Benign p s := by
      intro s hs
      rcases hl.mem s hs with h | h | h
      · exact storeStepsTN_benign p a1 a2 b mbA s h
      · rcases hlb with rfl | rfl
        · cases h
        · exact storeStepsTN_benign p b1 b2 b mbB s h
      · rcases hlp with rfl | rfl
        · cases h
        · exact storeMetaStepsTN_benign p tp mbP s h
    exact (other_prefix p p' hne l hben t0 n1).readSplit (other_prefix p p' hne l hben t0 n2) deM deD

/-- two store writers, a split reader -/
theorem tsplit_writers2 (deM : Data → Option CMeta) (deD : Str → Data → Option (Option Str)) (t0 : Tree) (p : Key)
    (b mbA mbB : Data) (mA mB : CMeta) (v : Option Str)
    (hMA : deM mbA = some mA) (hAr : mA.status = ready) (hAv : deD mA.typeId b = some v)
    (hMB : deM mbB = some mB) (hBr : mB.status = ready) (hBv : deD mB.typeId b = some v)
    (a1 a2 b1 b2 : Key) (hdist : [a1, a2, b1, b2].Nodup) (l : List (Step SName))
    (hl : Interleave (storeStepsTN (.tmp a1) (.tmp a2) p b mbA) (storeStepsTN (.tmp b1) (.tmp b2) p b mbB) l)
    (n1 n2 : Nat) (hn : n1 ≤ n2) :
    TSplitAns deM deD t0 p b { metadata := mA, data := v } { metadata := mB, data := v }
      (readSCSplit deM deD (runPrefixT n1 l t0) (runPrefixT n2 l t0) p) ∧
    ∀ p', p' ≠ p → readSCSplit deM deD (runPrefixT n1 l t0) (runPrefixT n2 l t0) p' = readSC deM deD t0 p' := by
  obtain ⟨tp, htp⟩ := fresh_label [a1, a2, b1, b2]
  refine tsplit_core deM deD t0 p b mbA mbB mA mB v hMA hAr hAv hMB hBr hBv a1 a2 b1 b2 tp ?_ [] _ (Or.inr rfl) []
    (Or.inl rfl) (fun h => absurd rfl h) l hl.to3 n1 n2 hn
  simp only [List.nodup_cons, List.mem_cons, List.not_mem_nil, or_false, not_or, List.nodup_nil, and_true, not_false_eq_true] at hdist htp ⊢
  obtain ⟨⟨h1, h2, h3⟩, ⟨h4, h5⟩, h6⟩ := hdist
  obtain ⟨g1, g2, g3, g4⟩ := htp
  exact ⟨⟨h1, h2, h3, fun e => g1 e.symm⟩, ⟨h4, h5, fun e => g2 e.symm⟩, ⟨h6, fun e => g3 e.symm⟩, fun e => g4 e.symm⟩

/-- two store writers and a progress writer, a split reader -/
theorem tsplit_writers3 (deM : Data → Option CMeta) (deD : Str → Data → Option (Option Str)) (t0 : Tree) (p : Key)
    (b mbA mbB mbP : Data) (mA mB : CMeta) (v : Option Str)
    (hMA : deM mbA = some mA) (hAr : mA.status = ready) (hAv : deD mA.typeId b = some v)
    (hMB : deM mbB = some mB) (hBr : mB.status = ready) (hBv : deD mB.typeId b = some v)
    (hP : ∀ m, deM mbP = some m → m.status ≠ ready)
    (a1 a2 b1 b2 tp : Key) (hdist : [a1, a2, b1, b2, tp].Nodup) (l : List (Step SName))
    (hl : Interleave3 (storeStepsTN (.tmp a1) (.tmp a2) p b mbA) (storeStepsTN (.tmp b1) (.tmp b2) p b mbB)
      (storeMetaStepsTN (.tmp tp) p mbP) l) (n1 n2 : Nat) (hn : n1 ≤ n2) :
    TSplitAns deM deD t0 p b { metadata := mA, data := v } { metadata := mB, data := v }
      (readSCSplit deM deD (runPrefixT n1 l t0) (runPrefixT n2 l t0) p) ∧
    ∀ p', p' ≠ p → readSCSplit deM deD (runPrefixT n1 l t0) (runPrefixT n2 l t0) p' = readSC deM deD t0 p' :=
  tsplit_core deM deD t0 p b mbA mbB mA mB v hMA hAr hAv hMB hBr hBv a1 a2 b1 b2 tp hdist mbP _ (Or.inr rfl) _ (Or.inr rfl)
    (fun _ => hP) l hl n1 n2 hn

/-! ### corollaries -/

/-- the existence test of `_load_metadata`, wherever it is placed, only adds misses -/
theorem readSCSplit3_cases (deM : Data → Option CMeta) (deD : Str → Data → Option (Option Str)) (tC tM tD : Tree) (p : Key) :
    readSCSplit3 deM deD tC tM tD p = none ∨ readSCSplit3 deM deD tC tM tD p = readSCSplit deM deD tM tD p := by
  unfold readSCSplit3
  cases AL.get tC (.node p) with
  | none => exact Or.inl rfl
  | some x => cases x with
    | dir => exact Or.inl rfl
    | file d => exact Or.inr rfl

theorem TSplitAns.of3 {deM deD t0 p X newA newB} {tC tM tD : Tree}
    (h : TSplitAns deM deD t0 p X newA newB (readSCSplit deM deD tM tD p)) :
    TSplitAns deM deD t0 p X newA newB (readSCSplit3 deM deD tC tM tD p) := by
  rcases readSCSplit3_cases deM deD tC tM tD p with e | e
  · exact Or.inl e
  · rw [e]; exact h

theorem readSC_meta {deM : Data → Option CMeta} {deD : Str → Data → Option (Option Str)} {t : Tree} {p : Key} {mb : Data} {m : CMeta}
    {st : CState} (h : readSC deM deD t p = some st) (hmf : AL.get t (.mfile p) = some (.file mb)) (hm : deM mb = some m) :
    st.metadata = m := by
  rw [readSC_eq, pairT, hmf] at h
  cases hn : AL.get t (.node p) with
  | none => rw [hn] at h; cases h
  | some x =>
    cases x with
    | dir => rw [hn] at h; cases h
    | file d =>
      rw [hn] at h
      simp only [scOf, hm] at h
      split at h
      · cases h
      · cases hv : deD m.typeId d with
        | none => rw [hv] at h; cases h
        | some v => rw [hv] at h; cases h; rfl

/-- if (1) a ready metadata record of `p` in the initial tree is backed by a readable data file (what C16 guarantees for every tree
the writers leave, crash or not), (2) the old entry holds the value the writers store (C05: one key, one value) and (3) has the
writers' type, then the fifth answer is the old entry: the split reader obtains a miss, the old entry, or the complete new entry -/
theorem TSplitAns.sound {deM : Data → Option CMeta} {deD : Str → Data → Option (Option Str)} {t0 : Tree} {p : Key} {X : Data}
    {newA newB : CState} {R : Option CState} {tid : Str} {v : Option Str}
    (h : TSplitAns deM deD t0 p X newA newB R) (hX : deD tid X = some v)
    (hcomplete : ∀ mb0 m0, AL.get t0 (.mfile p) = some (.file mb0) → deM mb0 = some m0 → m0.status = ready →
      ∃ old, readSC deM deD t0 p = some old)
    (hsound : ∀ old, readSC deM deD t0 p = some old → old.data = v)
    (htype : ∀ old, readSC deM deD t0 p = some old → old.metadata.typeId = tid) :
    R = none ∨ R = readSC deM deD t0 p ∨ R = some newA ∨ R = some newB := by
  rcases h with h | h | h | h | ⟨mb0, m0, w, hmf, hm, hr, hw, h⟩
  · exact Or.inl h
  · exact Or.inr (Or.inr (Or.inl h))
  · exact Or.inr (Or.inr (Or.inr h))
  · exact Or.inr (Or.inl h)
  · obtain ⟨old, hold⟩ := hcomplete mb0 m0 hmf hm hr
    have hmeta : old.metadata = m0 := readSC_meta hold hmf hm
    have hty : m0.typeId = tid := by rw [← hmeta]; exact htype old hold
    have hwv : w = v := by rw [hty, hX] at hw; exact (Option.some.inj hw).symm
    have hdat := hsound old hold
    refine Or.inr (Or.inl ?_)
    rw [h, hold, hwv]
    cases old
    simp_all

end Crash
end Liquer
