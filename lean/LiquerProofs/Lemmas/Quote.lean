/-
Helper lemmas about `quote` / `unquote` (percent encoding) of the text model.
-/
import LiquerProofs.Lemmas.Text
namespace Liquer

/-! ### characters as numbers -/

theorem char_le_iff (a b : Char) : a ≤ b ↔ a.toNat ≤ b.toNat := by
  simp only [Char.le_def, UInt32.le_iff_toNat_le]; rfl

theorem char_eq_iff (a b : Char) : a = b ↔ a.toNat = b.toNat := by
  constructor
  · rintro rfl; rfl
  · intro h; exact Char.toNat_inj.mp h

theorem quoteSafe_iff (c : Char) : quoteSafe c = true ↔
    ((65 ≤ c.toNat ∧ c.toNat ≤ 90) ∨ (97 ≤ c.toNat ∧ c.toNat ≤ 122) ∨
      (48 ≤ c.toNat ∧ c.toNat ≤ 57) ∨
      c.toNat = 95 ∨ c.toNat = 46 ∨ c.toNat = 45 ∨ c.toNat = 126 ∨ c.toNat = 47) := by
  simp only [quoteSafe, Bool.or_eq_true, Bool.and_eq_true, decide_eq_true_eq, beq_iff_eq,
    char_le_iff, char_eq_iff]
  have e1 : 'A'.toNat = 65 := rfl
  have e2 : 'Z'.toNat = 90 := rfl
  have e3 : 'a'.toNat = 97 := rfl
  have e4 : 'z'.toNat = 122 := rfl
  have e5 : '0'.toNat = 48 := rfl
  have e6 : '9'.toNat = 57 := rfl
  have e7 : '_'.toNat = 95 := rfl
  have e8 : '.'.toNat = 46 := rfl
  have e9 : '-'.toNat = 45 := rfl
  have e10 : '~'.toNat = 126 := rfl
  have e11 : '/'.toNat = 47 := rfl
  rw [e1, e2, e3, e4, e5, e6, e7, e8, e9, e10, e11]
  omega

theorem quoteSafe_isAscii {c : Char} (h : quoteSafe c = true) : isAscii c = true := by
  rw [quoteSafe_iff] at h
  simp only [isAscii, decide_eq_true_eq]; omega

theorem quoteSafe_ne_pct {c : Char} (h : quoteSafe c = true) : c ≠ '%' := by
  rintro rfl; revert h; decide

theorem quoteSafe_tilde : quoteSafe '~' = true := by decide

/-! ### hex digits -/

theorem hexVal_hexDigitUpper {n : Nat} (h : n < 16) : hexVal? (hexDigitUpper n) = some n :=
  (by decide : ∀ n : Fin 16, hexVal? (hexDigitUpper n.val) = some n.val) ⟨n, h⟩

theorem hexDigitUpper_ne_pct {n : Nat} (h : n < 16) : '%' ≠ hexDigitUpper n :=
  (by decide : ∀ n : Fin 16, '%' ≠ hexDigitUpper n.val) ⟨n, h⟩

theorem hexDigitUpper_isAscii {n : Nat} (h : n < 16) : isAscii (hexDigitUpper n) = true :=
  (by decide : ∀ n : Fin 16, isAscii (hexDigitUpper n.val) = true) ⟨n, h⟩

theorem hexDigitUpper_7E {a b : Nat} (ha : a < 16) (hb : b < 16)
    (h : hexDigitUpper a = '7' ∧ (hexDigitUpper b = 'E' ∨ hexDigitUpper b = 'e')) :
    a = 7 ∧ b = 14 :=
  (by decide : ∀ a b : Fin 16, (hexDigitUpper a.val = '7' ∧
      (hexDigitUpper b.val = 'E' ∨ hexDigitUpper b.val = 'e')) → a.val = 7 ∧ b.val = 14)
    ⟨a, ha⟩ ⟨b, hb⟩ h

theorem byte_hi_lt (b : UInt8) : b.toNat / 16 < 16 := by
  have := b.toNat_lt; omega

theorem byte_lo_lt (b : UInt8) : b.toNat % 16 < 16 := by omega

/-! ### UTF-8 bytes -/

theorem utf8_ascii {c : Char} (h : isAscii c = true) :
    String.utf8EncodeChar c = [UInt8.ofNat c.toNat] := by
  simp only [isAscii, decide_eq_true_eq, Char.toNat] at h
  simp only [String.utf8EncodeChar]
  rw [if_pos (by omega)]
  rfl

/-- a percent-escaped byte is never `0x7E`: `~` is quote-safe and all bytes of a multi-byte
encoding are `≥ 0x80`. -/
theorem utf8_ne_7E {c : Char} (h : quoteSafe c = false) :
    ∀ b ∈ String.utf8EncodeChar c, b.toNat ≠ 126 := by
  have hq : ¬ (quoteSafe c = true) := by simp [h]
  rw [quoteSafe_iff] at hq
  have hv : c.val.toNat = c.toNat := rfl
  intro b hb
  simp only [String.utf8EncodeChar] at hb
  split at hb
  · simp only [List.mem_singleton] at hb
    subst hb
    simp only [UInt8.toNat_ofNat']
    omega
  · split at hb
    · simp only [List.mem_cons, List.not_mem_nil, or_false] at hb
      rcases hb with hb | hb <;> subst hb <;> simp only [UInt8.toNat_ofNat'] <;> omega
    · split at hb
      · simp only [List.mem_cons, List.not_mem_nil, or_false] at hb
        rcases hb with hb | hb | hb <;> subst hb <;> simp only [UInt8.toNat_ofNat'] <;> omega
      · simp only [List.mem_cons, List.not_mem_nil, or_false] at hb
        rcases hb with hb | hb | hb | hb <;> subst hb <;> simp only [UInt8.toNat_ofNat'] <;>
          omega

/-! ### `quote` as a sequence of atoms -/

/-- the blocks `quote` emits: a bare safe character or a percent-escaped byte -/
inductive Atom where
  | ch (c : Char)
  | pct (b : UInt8)

def Atom.str : Atom → List Char
  | .ch c => [c]
  | .pct b => pctByte b

def atomsOf (c : Char) : List Atom :=
  if quoteSafe c then [.ch c] else (String.utf8EncodeChar c).map .pct

def flatAtoms (as : List Atom) : List Char := as.flatMap Atom.str

/-- what holds of every atom of `quote` output -/
def Atom.ok : Atom → Prop
  | .ch c => quoteSafe c = true
  | .pct b => b.toNat ≠ 126

theorem quoteChar_eq (c : Char) : quoteChar c = flatAtoms (atomsOf c) := by
  unfold quoteChar atomsOf flatAtoms
  split
  · simp [Atom.str]
  · simp only [List.flatMap_map]; rfl

theorem atomsOf_ok (c : Char) : ∀ a ∈ atomsOf c, a.ok := by
  intro a ha
  unfold atomsOf at ha
  split at ha
  next h => simp only [List.mem_singleton] at ha; subst ha; exact h
  next h =>
    simp only [List.mem_map] at ha
    obtain ⟨b, hb, rfl⟩ := ha
    exact utf8_ne_7E (by simpa using h) b hb

theorem quote_eq (s : List Char) : quote s = flatAtoms (s.flatMap atomsOf) := by
  simp only [quote, flatAtoms, List.flatMap_assoc]
  congr 1; funext c; exact quoteChar_eq c

theorem quote_nil : quote [] = [] := rfl
theorem quote_cons (c : Char) (s : List Char) : quote (c :: s) = quoteChar c ++ quote s := by
  simp [quote]
theorem quote_append (s t : List Char) : quote (s ++ t) = quote s ++ quote t := by
  simp [quote]

theorem quoteChar_ne_nil (c : Char) : quoteChar c ≠ [] := by
  unfold quoteChar
  split
  · simp
  · have := @String.utf8EncodeChar_ne_nil c
    cases h : String.utf8EncodeChar c with
    | nil => exact absurd h this
    | cons b bs => simp [pctByte]

/-- the trailing `.replace("%7E", "~")` / `.replace("%7e", "~")` never fire on `quote` output -/
theorem replaceAll_pct7_noop (x : Char) (hx : x = 'E' ∨ x = 'e') (as : List Atom)
    (h : ∀ a ∈ as, a.ok) :
    replaceAll ['%', '7', x] ['~'] (flatAtoms as) = flatAtoms as := by
  induction as with
  | nil => simp [flatAtoms, replaceAll_nil]
  | cons a as ih =>
    have ih := ih (fun a ha => h a (List.mem_cons_of_mem _ ha))
    have ha := h a List.mem_cons_self
    simp only [flatAtoms, List.flatMap_cons] at ih ⊢
    cases a with
    | ch c =>
      simp only [Atom.str, List.singleton_append]
      rw [replaceAll_cons_ne _ _ _ _ _ (Ne.symm (quoteSafe_ne_pct ha)), ih]
    | pct b =>
      simp only [Atom.str, pctByte, List.cons_append, List.nil_append]
      rw [replaceAll_cons_noPrefix, replaceAll_cons_ne _ _ _ _ _ (hexDigitUpper_ne_pct (byte_hi_lt b)),
        replaceAll_cons_ne _ _ _ _ _ (hexDigitUpper_ne_pct (byte_lo_lt b)), ih]
      simp only [isPrefix, beq_self_eq_true, Bool.true_and, Bool.and_true, Bool.and_eq_false_imp,
        beq_iff_eq]
      intro h7
      rw [beq_eq_false_iff_ne]
      intro hxe
      have := hexDigitUpper_7E (byte_hi_lt b) (byte_lo_lt b)
        ⟨h7.symm, by rcases hx with rfl | rfl <;> simp [← hxe]⟩
      exact ha (by omega)

/-! ### `unquoteBytes` inverts `quote` -/

theorem unquoteBytes_cons_ne {c : Char} (h : c ≠ '%') (rest : List Char) :
    unquoteBytes (c :: rest) = UInt8.ofNat c.toNat :: unquoteBytes rest := by
  rw [unquoteBytes.eq_def]
  split
  · simp_all
  · simp_all
  · next heq => simp only [List.cons.injEq] at heq; obtain ⟨rfl, rfl⟩ := heq; rfl

theorem unquoteBytes_pctByte (b : UInt8) (rest : List Char) :
    unquoteBytes (pctByte b ++ rest) = b :: unquoteBytes rest := by
  simp only [pctByte, List.cons_append, List.nil_append]
  rw [unquoteBytes]
  simp only [hexVal_hexDigitUpper (byte_hi_lt b), hexVal_hexDigitUpper (byte_lo_lt b)]
  congr 1
  apply UInt8.toNat_inj.mp
  simp only [UInt8.toNat_ofNat']
  have := b.toNat_lt
  omega

theorem unquoteBytes_pctBytes (bs : List UInt8) (rest : List Char) :
    unquoteBytes (bs.flatMap pctByte ++ rest) = bs ++ unquoteBytes rest := by
  induction bs with
  | nil => simp
  | cons b bs ih =>
    simp only [List.flatMap_cons, List.append_assoc, unquoteBytes_pctByte, ih, List.cons_append]

theorem unquoteBytes_quoteChar (c : Char) (rest : List Char) :
    unquoteBytes (quoteChar c ++ rest) = String.utf8EncodeChar c ++ unquoteBytes rest := by
  unfold quoteChar
  split
  next h =>
    rw [List.singleton_append, unquoteBytes_cons_ne (quoteSafe_ne_pct h),
      utf8_ascii (quoteSafe_isAscii h)]
    rfl
  next h => exact unquoteBytes_pctBytes _ _

theorem unquoteBytes_quote_append (pre rest : List Char) :
    unquoteBytes (quote pre ++ rest) = pre.flatMap String.utf8EncodeChar ++ unquoteBytes rest := by
  induction pre with
  | nil => simp [quote]
  | cons c pre ih =>
    rw [quote_cons, List.append_assoc, unquoteBytes_quoteChar, ih]
    simp

theorem unquoteBytes_plain (q : List Char) (h : ∀ c ∈ q, isAscii c = true ∧ c ≠ '%') :
    unquoteBytes q = q.flatMap String.utf8EncodeChar := by
  induction q with
  | nil => simp [unquoteBytes]
  | cons c q ih =>
    have hc := h c List.mem_cons_self
    rw [unquoteBytes_cons_ne hc.2, ih (fun c hc => h c (List.mem_cons_of_mem _ hc)),
      List.flatMap_cons, utf8_ascii hc.1]
    rfl

/-! ### `unquote` on an all-ASCII text -/

theorem pctByte_isAscii (b : UInt8) : ∀ c ∈ pctByte b, isAscii c = true := by
  intro c hc
  simp only [pctByte, List.mem_cons, List.not_mem_nil, or_false] at hc
  rcases hc with rfl | rfl | rfl
  · decide
  · exact hexDigitUpper_isAscii (byte_hi_lt b)
  · exact hexDigitUpper_isAscii (byte_lo_lt b)

theorem quoteChar_isAscii (c : Char) : ∀ x ∈ quoteChar c, isAscii x = true := by
  intro x hx
  unfold quoteChar at hx
  split at hx
  next h => simp only [List.mem_singleton] at hx; subst hx; exact quoteSafe_isAscii h
  next h =>
    simp only [List.mem_flatMap] at hx
    obtain ⟨b, _, hb⟩ := hx
    exact pctByte_isAscii b x hb

theorem quote_isAscii (s : List Char) : ∀ x ∈ quote s, isAscii x = true := by
  intro x hx
  simp only [quote, List.mem_flatMap] at hx
  obtain ⟨c, _, hc⟩ := hx
  exact quoteChar_isAscii c x hc

theorem unquoteGo_ascii (dec : List UInt8 → List Char) (s acc : List Char)
    (h : ∀ c ∈ s, isAscii c = true) :
    unquoteGo dec s acc = flushRun dec (s.reverse ++ acc) := by
  induction s generalizing acc with
  | nil => simp [unquoteGo]
  | cons c s ih =>
    simp only [unquoteGo, h c List.mem_cons_self, ↓reduceIte]
    rw [ih _ (fun c hc => h c (List.mem_cons_of_mem _ hc))]
    simp

theorem unquote_ascii {dec : List UInt8 → List Char} (hd : DecOK dec) (s : List Char)
    (h : ∀ c ∈ s, isAscii c = true) : unquote dec s = dec (unquoteBytes s) := by
  unfold unquote
  rw [unquoteGo_ascii dec s [] h]
  simp only [List.append_nil, flushRun, List.isEmpty_reverse, List.reverse_reverse]
  split
  next he =>
    have : s = [] := by simpa using he
    subst this
    simp [unquoteBytes, hd.nil]
  next => rfl

/-- the heart of decoding: a quoted text followed by a plain ASCII pattern decodes to itself -/
theorem unquote_quote_append {dec : List UInt8 → List Char} (hd : DecOK dec)
    (pre q : List Char) (hq : ∀ c ∈ q, isAscii c = true ∧ c ≠ '%') :
    unquote dec (quote pre ++ q) = pre ++ q := by
  rw [unquote_ascii hd]
  · rw [unquoteBytes_quote_append, unquoteBytes_plain q hq, ← List.flatMap_append]
    exact hd _
  · intro c hc
    rcases List.mem_append.mp hc with hc | hc
    · exact quote_isAscii pre c hc
    · exact (hq c hc).1

end Liquer
