/-
C10 helpers, part 6: the separation invariant of histories and isolation.

`Sep s`: the world is well formed and the returned states, the cache entries and the defaults own pairwise disjoint cells.
Every operation of a history preserves it; a caller operation on the returned state `i` changes the abstraction of nothing
else, an evaluation changes the abstraction of nothing that existed before it.
-/
import LiquerProofs.Lemmas.Iso5

namespace Liquer.Iso

structure Sep (s : Hist) : Prop where
  inv : Inv s.w
  retLt : ∀ i st, s.nth i = some st → ∀ a ∈ cellsState s.w.heap st, a < s.w.heap.next
  retSep : ∀ i j st st', i ≠ j → s.nth i = some st → s.nth j = some st' →
    Disj (cellsState s.w.heap st) (cellsState s.w.heap st')
  retCache : ∀ i st, s.nth i = some st → ∀ e ∈ s.w.cache, Disj (cellsState s.w.heap st) (cellsState s.w.heap e.2)
  retDflt : ∀ i st, s.nth i = some st → Disj (cellsState s.w.heap st) (cellsVars s.w.defaults)

/-! ### the operations of a history -/

def resOpt : Res → Option HState
  | .st st => some st
  | .fail => none

theorem step_eval (s : Hist) (q : List Act) :
    step s (.eval q) =
      { w := (evalChain (evalFuel q) { s.w with calls := [] } false q).1,
        returned := s.returned ++ [resOpt (evalChain (evalFuel q) { s.w with calls := [] } false q).2] } := by
  simp only [step]
  generalize (evalChain (evalFuel q) { s.w with calls := [] } false q) = wr
  obtain ⟨w', r⟩ := wr
  cases r <;> rfl

def Op.target : Op → Option Nat
  | .eval _ => none
  | .mutData i _ => some i
  | .mutInner i _ => some i
  | .mutVar i _ _ => some i
  | .setVar i _ _ => some i
  | .setMeta i _ _ _ _ _ => some i
  | .scribble i => some i

/-- the write does not enlarge any variable dictionary's cells -/
def Tame (h : Heap) (a : Addr) (c : Cell) : Prop :=
  ∀ b, ∀ x ∈ cellsVars ((h.write a c).metaAt b).vars, x ∈ cellsVars (h.metaAt b).vars

theorem Tame.cells {h : Heap} {a : Addr} {c : Cell} (t : Tame h a c) (st : HState) :
    ∀ x ∈ cellsState (h.write a c) st, x ∈ cellsState h st := by
  intro x hx
  rw [mem_cellsState] at hx ⊢
  rcases hx with hx | hx | hx
  · exact Or.inl hx
  · exact Or.inr (Or.inl hx)
  · exact Or.inr (Or.inr (t _ x hx))

theorem Tame.val {h : Heap} {a : Addr} (hv : ∃ x, h.cells a = some (.val x)) (y : Val) : Tame h a (.val y) := by
  intro b x hx
  rwa [metaAt_write_val hv] at hx

theorem Tame.md {h : Heap} {a : Addr} {m : MetaRec} (hs : ∀ x ∈ cellsVars m.vars, x ∈ cellsVars (h.metaAt a).vars) :
    Tame h a (.md m) := by
  intro b x hx
  by_cases e : b = a
  · subst e
    rw [Heap.metaAt_write_same] at hx
    exact hs x hx
  · rwa [Heap.metaAt_write_ne h _ e] at hx

/-- a caller operation does nothing or writes one cell of the state it addresses -/
theorem caller_cases (s : Hist) (op : Op) (i : Nat) (ht : op.target = some i) :
    step s op = s ∨ ∃ st a c, s.nth i = some st ∧ a ∈ cellsState s.w.heap st ∧ Tame s.w.heap a c ∧
      step s op = { s with w := { s.w with heap := s.w.heap.write a c } } := by
  cases op with
  | eval q => cases ht
  | mutData j l =>
    obtain rfl : j = i := by simpa [Op.target] using ht
    simp only [step]
    cases hn : s.nth j with
    | none => exact Or.inl rfl
    | some st =>
      simp only
      cases hl : listAt s.w.heap st.data with
      | none => exact Or.inl rfl
      | some al =>
        obtain ⟨a, l'⟩ := al
        obtain ⟨hd, -, hv⟩ := listAt_some hl
        exact Or.inr ⟨st, a, _, rfl, by simp [mem_cellsState, hd, cellsHV], Tame.val hv _, rfl⟩
  | mutInner j l =>
    obtain rfl : j = i := by simpa [Op.target] using ht
    simp only [step]
    cases hn : s.nth j with
    | none => exact Or.inl rfl
    | some st =>
      simp only
      split
      · rename_i a x rest hl
        obtain ⟨hd, -, hv⟩ := listAt_some hl
        exact Or.inr ⟨st, a, _, rfl, by simp [mem_cellsState, hd, cellsHV], Tame.val hv _, rfl⟩
      · exact Or.inl rfl
  | mutVar j name l =>
    obtain rfl : j = i := by simpa [Op.target] using ht
    simp only [step]
    cases hn : s.nth j with
    | none => exact Or.inl rfl
    | some st =>
      simp only
      cases hl : (getVar (s.w.heap.metaAt st.md).vars name).bind (listAt s.w.heap) with
      | none => exact Or.inl rfl
      | some al =>
        obtain ⟨a, l'⟩ := al
        obtain ⟨-, hin, -, hv⟩ := getVar_listAt hl
        exact Or.inr ⟨st, a, _, rfl, by simp [mem_cellsState, hin], Tame.val hv _, rfl⟩
  | setVar j name v =>
    obtain rfl : j = i := by simpa [Op.target] using ht
    simp only [step]
    cases hn : s.nth j with
    | none => exact Or.inl rfl
    | some st =>
      refine Or.inr ⟨st, st.md, _, rfl, md_mem_cellsState _ _, Tame.md (fun x hx => ?_), rfl⟩
      rcases mem_cellsVars_setVar hx with h1 | h1
      · exact h1
      · simp [cellsHV] at h1
  | setMeta j status isError volatile caching query =>
    obtain rfl : j = i := by simpa [Op.target] using ht
    simp only [step]
    cases hn : s.nth j with
    | none => exact Or.inl rfl
    | some st =>
      exact Or.inr ⟨st, st.md,
        .md { s.w.heap.metaAt st.md with
              status := status, isError := isError, volatile := volatile, caching := caching, query := query },
        rfl, md_mem_cellsState _ _, Tame.md (fun x hx => hx), rfl⟩
  | scribble j => exact Or.inl rfl

/-! ### one write by the caller -/

section write
variable {s : Hist} {i : Nat} {st : HState} {a : Addr} {c : Cell}

/-- cells of anything that does not own `a` are unchanged -/
theorem cells_write_other {h : Heap} {st' : HState} (n : a ∉ cellsState h st') :
    ∀ x ∈ cellsState h st', (h.write a c).cells x = h.cells x := by
  intro x hx
  have : x ≠ a := fun e => n (e ▸ hx)
  simp [this]

theorem cellsState_write_other {h : Heap} {st' : HState} (n : a ∉ cellsState h st') :
    cellsState (h.write a c) st' = cellsState h st' :=
  cellsState_congr (cells_write_other n _ (md_mem_cellsState _ _))

theorem Sep.write (sp : Sep s) (hn : s.nth i = some st) (ha : a ∈ cellsState s.w.heap st) (t : Tame s.w.heap a c) :
    Sep { s with w := { s.w with heap := s.w.heap.write a c } } := by
  have alt : a < s.w.heap.next := sp.retLt i st hn a ha
  have hm : HMod [a] s.w.heap (s.w.heap.write a c) := HMod.write (by simp) alt c
  have hcache : ∀ e ∈ s.w.cache, a ∉ cellsState s.w.heap e.2 := fun e he h => sp.retCache i st hn e he a ha h
  have hother : ∀ j st', j ≠ i → s.nth j = some st' → a ∉ cellsState s.w.heap st' :=
    fun j st' hj hn' h => sp.retSep i j st st' (Ne.symm hj) hn hn' a ha h
  have ce : ∀ e ∈ s.w.cache, cellsState (s.w.heap.write a c) e.2 = cellsState s.w.heap e.2 :=
    fun e he => cellsState_write_other (hcache e he)
  have sub : ∀ j st', s.nth j = some st' → ∀ x ∈ cellsState (s.w.heap.write a c) st', x ∈ cellsState s.w.heap st' :=
    fun j st' _ => t.cells st'
  refine ⟨sp.inv.heap hm (fun e he x h1 h2 => ?_), fun j st' hn' x hx => ?_, fun j k st' st'' hjk hj hk x h1 h2 => ?_,
    fun j st' hn' e he x h1 h2 => ?_, fun j st' hn' x h1 h2 => ?_⟩
  · simp only [List.mem_singleton] at h2
    exact hcache e he (h2 ▸ h1)
  · exact sp.retLt j st' hn' x (sub j st' hn' x hx)
  · exact sp.retSep j k st' st'' hjk hj hk x (sub j st' hj x h1) (sub k st'' hk x h2)
  · simp only at he h2
    rw [ce e he] at h2
    exact sp.retCache j st' hn' e he x (sub j st' hn' x h1) h2
  · exact sp.retDflt j st' hn' x (sub j st' hn' x h1) h2

/-- the abstraction of every other returned state is unchanged -/
theorem write_abs_other (sp : Sep s) (hn : s.nth i = some st) (ha : a ∈ cellsState s.w.heap st) {j : Nat} {st' : HState}
    (hj : j ≠ i) (hn' : s.nth j = some st') : absState (s.w.heap.write a c) st' = absState s.w.heap st' :=
  absState_congr (cells_write_other (fun h => sp.retSep i j st st' (Ne.symm hj) hn hn' a ha h))

theorem write_abs_cache (sp : Sep s) (hn : s.nth i = some st) (ha : a ∈ cellsState s.w.heap st) {e : Str × HState}
    (he : e ∈ s.w.cache) : absState (s.w.heap.write a c) e.2 = absState s.w.heap e.2 :=
  absState_congr (cells_write_other (fun h => sp.retCache i st hn e he a ha h))

theorem write_abs_dflt (sp : Sep s) (hn : s.nth i = some st) (ha : a ∈ cellsState s.w.heap st) :
    absVars (s.w.heap.write a c) s.w.defaults = absVars s.w.heap s.w.defaults := by
  refine absVars_congr (fun x hx => ?_)
  have : x ≠ a := fun e => sp.retDflt i st hn a ha (e ▸ hx)
  simp [this]

end write

/-! ### an evaluation -/

theorem nth_append {s : Hist} {r : Option HState} {i : Nat} {st : HState}
    (h : ({ w := w', returned := s.returned ++ [r] } : Hist).nth i = some st) :
    s.nth i = some st ∨ (i = s.returned.length ∧ r = some st) := by
  simp only [Hist.nth] at h ⊢
  by_cases hi : i < s.returned.length
  · rw [List.getElem?_append_left hi] at h
    exact Or.inl h
  · have hi' : s.returned.length ≤ i := Nat.le_of_not_lt hi
    rw [List.getElem?_append_right hi'] at h
    by_cases h0 : i - s.returned.length = 0
    · right
      rw [h0] at h
      simp only [List.getElem?_cons_zero, Option.join_some] at h
      exact ⟨by omega, h⟩
    · obtain ⟨k, hk⟩ : ∃ k, i - s.returned.length = k + 1 := ⟨i - s.returned.length - 1, by omega⟩
      rw [hk] at h
      simp at h

theorem nth_lt {s : Hist} {i : Nat} {st : HState} (h : s.nth i = some st) : i < s.returned.length := by
  simp only [Hist.nth] at h
  by_cases hi : i < s.returned.length
  · exact hi
  · rw [List.getElem?_eq_none (Nat.le_of_not_lt hi)] at h
    simp at h

/-- what an evaluation step gives, in terms of `Good` -/
theorem Sep.eval_good (sp : Sep s) (q : List Act) :
    Good { s.w with calls := [] } (step s (.eval q)).w
      (optCells (step s (.eval q)).w.heap (resOpt (evalChain (evalFuel q) { s.w with calls := [] } false q).2)) := by
  rw [step_eval]
  have g := (eval_frame (evalFuel q)).1 { s.w with calls := [] } false q (sp.inv.calls [])
    (evalChain (evalFuel q) { s.w with calls := [] } false q).1 (evalChain (evalFuel q) { s.w with calls := [] } false q).2 rfl
  generalize (evalChain (evalFuel q) { s.w with calls := [] } false q).2 = r at g ⊢
  cases r <;> exact g

theorem Sep.eval (sp : Sep s) (q : List Act) : Sep (step s (.eval q)) := by
  have g := sp.eval_good q
  have p := g.post
  have hce : ∀ i st, s.nth i = some st → cellsState (step s (.eval q)).w.heap st = cellsState s.w.heap st :=
    fun i st hn => p.cells_eq (sp.retLt i st hn _ (md_mem_cellsState _ _))
  rw [step_eval] at g p hce ⊢
  generalize (evalChain (evalFuel q) { s.w with calls := [] } false q) = wr at g p hce ⊢
  obtain ⟨w', r⟩ := wr
  simp only at g p hce ⊢
  have lo_le : s.w.heap.next ≤ w'.heap.next := p.mono
  -- cells of a state of the new history: an old state with its old cells, or the new one
  have cases_nth : ∀ i st, ({ w := w', returned := s.returned ++ [resOpt r] } : Hist).nth i = some st →
      (s.nth i = some st ∧ cellsState w'.heap st = cellsState s.w.heap st) ∨
      (i = s.returned.length ∧ resOpt r = some st ∧ ∀ a ∈ cellsState w'.heap st, s.w.heap.next ≤ a ∧ a < w'.heap.next) := by
    intro i st hn
    rcases nth_append hn with h | ⟨h1, h2⟩
    · exact Or.inl ⟨h, hce i st h⟩
    · refine Or.inr ⟨h1, h2, fun a ha => g.own.rng a ?_⟩
      rw [h2]; exact ha
  have cache_cases : ∀ e ∈ w'.cache,
      (e ∈ s.w.cache ∧ cellsState w'.heap e.2 = cellsState s.w.heap e.2) ∨ ∀ a ∈ cellsState w'.heap e.2, s.w.heap.next ≤ a := by
    intro e he
    rcases p.cache e he with ⟨h1, h2⟩ | h
    · exact Or.inl ⟨h1, p.cells_eq (h2 _ (md_mem_cellsState _ _))⟩
    · exact Or.inr h
  refine ⟨g.inv, fun i st hn a ha => ?_, fun i j st st' hij hi hj a h1 h2 => ?_, fun i st hn e he a h1 h2 => ?_,
    fun i st hn a h1 h2 => ?_⟩
  · rcases cases_nth i st hn with ⟨h, hc⟩ | ⟨-, -, h⟩
    · rw [hc] at ha
      have := sp.retLt i st h a ha
      show a < w'.heap.next
      aomega
    · exact (h a ha).2
  · rcases cases_nth i st hi with ⟨hi', hc⟩ | ⟨hi', -, hf⟩ <;> rcases cases_nth j st' hj with ⟨hj', hc'⟩ | ⟨hj', -, hf'⟩
    · rw [hc] at h1; rw [hc'] at h2
      exact sp.retSep i j st st' hij hi' hj' a h1 h2
    · rw [hc] at h1
      have := sp.retLt i st hi' a h1; have := (hf' a h2).1
      aomega
    · rw [hc'] at h2
      have := sp.retLt j st' hj' a h2; have := (hf a h1).1
      aomega
    · exact hij (hi'.trans hj'.symm)
  · simp only at he h2
    rcases cases_nth i st hn with ⟨hi', hc⟩ | ⟨-, hr, hf⟩
    · rw [hc] at h1
      rcases cache_cases e he with ⟨he', hc'⟩ | hf'
      · rw [hc'] at h2
        exact sp.retCache i st hi' e he' a h1 h2
      · have := sp.retLt i st hi' a h1; have := hf' a h2
        aomega
    · refine g.own.cache e he a h2 ?_
      rw [hr]; exact h1
  · simp only at h2
    rw [p.dflt] at h2
    rcases cases_nth i st hn with ⟨hi', hc⟩ | ⟨-, -, hf⟩
    · rw [hc] at h1
      exact sp.retDflt i st hi' a h1 h2
    · have := (hf a h1).1; have := sp.inv.dfltLt a h2
      aomega

/-- every operation preserves the separation invariant -/
theorem Sep.step (sp : Sep s) (op : Op) : Sep (step s op) := by
  cases ht : op.target with
  | none =>
    cases op with
    | eval q => exact sp.eval q
    | _ => cases ht
  | some i =>
    rcases caller_cases s op i ht with h | ⟨st, a, c, hn, ha, t, h⟩
    · rw [h]; exact sp
    · rw [h]; exact sp.write hn ha t

theorem run_cons (s : Hist) (op : Op) (ops : List Op) : run s (op :: ops) = run (Liquer.Iso.step s op) ops := rfl

theorem run_append (s : Hist) (ops : List Op) (op : Op) : run s (ops ++ [op]) = Liquer.Iso.step (run s ops) op := by
  simp [run, List.foldl_append]

theorem Sep.run (sp : Sep s) (ops : List Op) : Sep (run s ops) := by
  induction ops generalizing s with
  | nil => exact sp
  | cons op ops ih => exact ih (sp.step op)

/-- the initial history: nothing returned, nothing cached, the configured defaults allocated -/
theorem Sep.init {h0 : Heap} {d : List (Str × HV)} (b : Bool) (wf : h0.WF) (hd : ∀ a ∈ cellsVars d, a < h0.next) :
    Sep { w := { heap := h0, defaults := d, cacheOn := b } } :=
  ⟨⟨wf, fun _ h => (nomatch h), hd, List.Pairwise.nil, fun _ h => (nomatch h)⟩, fun i st h => by simp [Hist.nth] at h,
   fun i j st st' _ h => by simp [Hist.nth] at h, fun i st h => by simp [Hist.nth] at h,
   fun i st h => by simp [Hist.nth] at h⟩

end Liquer.Iso
