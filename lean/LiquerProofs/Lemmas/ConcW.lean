/-
C12, world side: what a thread may do to the shared cache without breaking `Sound`, and what a `Sound` cache answers.
`GoodAt env k st` is the body of `Sound` for one key; an answer of the cache is good when it is a miss or `GoodAt` its key; a
trace operation is harmless when it writes no data (`get`, `storeMeta`, `remove`) or writes `GoodAt` data under its own key.
-/
import LiquerModel.Conc
import LiquerProofs.Lemmas.EvalBasic

namespace Liquer

/-- `st` is, up to `status`, the successful, non-volatile, cacheable reference value of the key text `k` (the body of `Sound`) -/
def GoodAt (env : Env) (k : Str) (st : EState) : Prop :=
  ∃ fuel st' c, refText env fuel k = (.st st', c) ∧ st'.isError = false ∧ st'.volatile = false ∧
    st'.caching = true ∧ st.core = st'.core

theorem sound_iff (env : Env) (w : World) : Sound env w ↔ ∀ k st, w.dataAt k = some st → GoodAt env k st := Iff.rfl

/-- an answer to `get k`: a miss, or a good value of `k` -/
def GoodAns (env : Env) (k : Str) (a : Option EState) : Prop := ∀ st, a = some st → GoodAt env k st

@[simp] theorem GoodAns.none (env : Env) (k : Str) : GoodAns env k none := fun _ h => by simp at h

/-- what one trace operation is allowed to do to a shared cache -/
def OpGood (env : Env) : COp → Prop
  | .store st => GoodAt env st.query st
  | _ => True

/-- every answer of a `Sound` cache is good -/
theorem Sound.get_good {env : Env} {w : World} (h : Sound env w) (k : Str) : GoodAns env k (w.get k) :=
  fun _ hg => h.get hg

@[simp] theorem applyOp_get (acc : World × List (Option EState)) (k : Str) :
    applyOp acc (.get k) = (acc.1, acc.2 ++ [acc.1.get k]) := rfl
@[simp] theorem applyOp_storeMeta (acc : World × List (Option EState)) (k x : Str) :
    applyOp acc (.storeMeta k x) = (acc.1.storeMeta k x, acc.2) := rfl
@[simp] theorem applyOp_store (acc : World × List (Option EState)) (st : EState) :
    applyOp acc (.store st) = (acc.1.store st, acc.2) := rfl
@[simp] theorem applyOp_remove (acc : World × List (Option EState)) (k : Str) :
    applyOp acc (.remove k) = (acc.1.remove k, acc.2) := rfl

/-- a harmless operation keeps the shared cache `Sound` -/
theorem Sound.applyOp {env : Env} {acc : World × List (Option EState)} (h : Sound env acc.1) {op : COp}
    (hop : OpGood env op) : Sound env (applyOp acc op).1 := by
  cases op with
  | get k => exact h
  | storeMeta k x => exact h.storeMeta k x
  | store st => exact h.store st hop
  | remove k => exact h.remove k

/-- only a `get` changes the answers, and it appends the cache's answer -/
theorem applyOp_answers (acc : World × List (Option EState)) (op : COp) :
    (applyOp acc op).2 = match op with
      | .get k => acc.2 ++ [acc.1.get k]
      | _ => acc.2 := by
  cases op <;> rfl

/-- a run of progress writes keeps the cache `Sound` and the answers unchanged -/
theorem foldl_metas {env : Env} (ops : List COp) (hm : ∀ op ∈ ops, op.isMeta = true)
    (acc : World × List (Option EState)) (h : Sound env acc.1) :
    Sound env (ops.foldl applyOp acc).1 ∧ (ops.foldl applyOp acc).2 = acc.2 := by
  induction ops generalizing acc with
  | nil => exact ⟨h, rfl⟩
  | cons op ops ih =>
    have hop := hm op (List.mem_cons_self ..)
    cases op with
    | storeMeta k x =>
      simp only [List.foldl_cons, applyOp_storeMeta]
      exact ih (fun o ho => hm o (List.mem_cons_of_mem _ ho)) _ (h.storeMeta k x)
    | _ => simp [COp.isMeta] at hop

/-! ### progress metadata never makes an unfinished entry visible -/

/-- a metadata write never creates data: afterwards the entry holds what it held before, or nothing -/
theorem World.dataAt_storeMeta_self (w : World) (hen : w.enabled = true) (k status : Str) :
    (w.storeMeta k status).dataAt k = if w.metaKeepsData then w.dataAt k else none := by
  unfold World.storeMeta
  cases he : w.entry k with
  | none =>
    simp only [World.dataAt_put_enabled w hen, if_true]
    simp [World.dataAt, he]
  | some e =>
    simp only [World.dataAt_put_enabled w hen, if_true]
    simp [World.dataAt, he]

theorem World.dataAt_storeMeta_other (w : World) (k status k' : Str) (hk : k' ≠ k) :
    (w.storeMeta k status).dataAt k' = w.dataAt k' := by
  cases hen : w.enabled with
  | false => unfold World.storeMeta; split <;> rw [World.put_disabled hen]
  | true => unfold World.storeMeta; split <;> simp [World.dataAt_put_enabled w hen, hk]

/-- an entry without data is a miss -/
theorem World.get_of_dataAt_none {w : World} {k : Str} (h : w.dataAt k = none) : w.get k = none := by
  cases hg : w.get k with
  | none => rfl
  | some s => rw [World.dataAt_of_get hg] at h; simp at h

end Liquer
