/-
C10 helpers: concrete objects for the non-vacuity examples — a heap with one default variable `lst ↦ [d1]`, a few chains,
the finite class `P0` of their sub-chains with its closure, key and safety properties.
-/
import LiquerProofs.Lemmas.Iso12

namespace Liquer.Iso.Ex

def S (s : String) : Str := s.toList

/-- one list object `["d1"]` at address 0 -/
def h0 : Heap := (({} : Heap).alloc (.val (.list [.str (S "d1")]))).1

/-- `lst ↦ <object 0>` -/
def dd : List (Str × HV) := [(S "lst", .ref 0)]

def s0 : Hist := { w := { heap := h0, defaults := dd, cacheOn := true } }

def mkA : Act := .mk (S "mk") [.text (S "a")]
def mkZ : Act := .mk (S "mk") [.text (S "z")]
def appB : Act := .mk (S "app") [.text (S "b")]
def appC : Act := .mk (S "app") [.text (S "c")]
def appX : Act := .mk (S "app") [.text (S "x")]
def getL : Act := .mk (S "getvar") [.text (S "lst")]
def extZ : Act := .mk (S "ext") [.link [mkZ]]
def vol : Act := .mk (S "vol") []
/-- `cvapp-lst-x`: append to the context's variable `lst` (the object of the predecessor state) -/
def cvX : Act := .mk (S "cvapp") [.text (S "lst"), .text (S "x")]
def pairZ : Act := .mk (S "pair") [.link [mkZ]]

def qAB : List Act := [mkA, appB]
def qABC : List Act := [mkA, appB, appC]
def qAGX : List Act := [mkA, getL, appX]
def qAE : List Act := [mkA, extZ]
def qCG : List Act := [cvX, getL]
def qAP : List Act := [mkA, pairZ]

/-- the chains the example history evaluates, with their predecessors and link arguments -/
def chains : List (List Act) := [[mkA], qAB, qABC, [mkA, getL], qAGX, [mkZ], qAE, [cvX], qCG, qAP]

def P0 (acts : List Act) : Prop := acts ∈ chains

theorem h0_wf : h0.WF := fun a ha => by
  have : a ≠ 0 := by
    intro e; subst e
    exact absurd ha (by decide)
  simp [h0, this]

theorem dd_lt : ∀ a ∈ cellsVars dd, a < h0.next := by
  intro a ha
  simp [dd, cellsVars, cellsHV] at ha
  subst ha; decide

theorem dd_keys : (dd.map Prod.fst).Nodup := by simp [dd]

theorem sep0 : Sep s0 := Sep.init true h0_wf dd_lt

/-- the abstraction of the configured defaults -/
def d0 : List (Str × Val) := [(S "lst", .list [.str (S "d1")])]

theorem abs_dd : absVars h0 dd = d0 := rfl

theorem closed0 : Closed P0 := by
  refine ⟨fun acts hP he => ?_, fun acts act q hP hl hq => ?_⟩
  · simp only [P0, chains, List.mem_cons, List.not_mem_nil, or_false] at hP
    rcases hP with rfl | rfl | rfl | rfl | rfl | rfl | rfl | rfl | rfl | rfl <;>
      first
        | (exfalso; revert he; decide)
        | simp [P0, chains, qAB, qABC, qAGX, qAE, qCG, qAP]
  · simp only [P0, chains, List.mem_cons, List.not_mem_nil, or_false] at hP
    rcases hP with rfl | rfl | rfl | rfl | rfl | rfl | rfl | rfl | rfl | rfl <;>
      (simp only [qAB, qABC, qAGX, qAE, qCG, qAP, List.getLast?_cons_cons, List.getLast?_singleton, Option.some.injEq] at hl
       subst hl
       simp [Act.args, mkA, mkZ, appB, appC, appX, getL, extZ, cvX, pairZ] at hq) <;>
      (subst hq; simp [P0, chains, mkZ])

theorem keys_inj0 : ∀ a b acts acts', P0 acts → P0 acts' → keyOf a acts = keyOf b acts' → acts = acts' := by
  intro a b acts acts' h1 h2 hk
  simp only [P0, chains, List.mem_cons, List.not_mem_nil, or_false] at h1 h2
  rcases h1 with rfl | rfl | rfl | rfl | rfl | rfl | rfl | rfl | rfl | rfl <;>
    rcases h2 with rfl | rfl | rfl | rfl | rfl | rfl | rfl | rfl | rfl | rfl <;>
      first
        | rfl
        | (exfalso; revert hk; cases a <;> cases b <;> decide)

theorem keyOK0 : KeyOK d0 P0 := keyOK_of_injective keys_inj0

theorem safe0 : Safe d0 P0 := by
  refine safe_of_syntactic (fun acts act hP hl hn b hb => ?_)
  simp only [P0, chains, List.mem_cons, List.not_mem_nil, or_false] at hP
  rcases hP with rfl | rfl | rfl | rfl | rfl | rfl | rfl | rfl | rfl | rfl <;>
    (simp only [qAB, qABC, qAGX, qAE, qCG, qAP, List.dropLast, List.mem_cons, List.not_mem_nil, or_false] at hb
     try (rcases hb with rfl | rfl)
     all_goals (first | (subst hb; decide) | decide | (exact absurd hb (by simp))))

end Liquer.Iso.Ex
