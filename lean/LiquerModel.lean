import LiquerModel.Text
import LiquerModel.Token
import LiquerModel.Proto
import LiquerModel.Gen.EscapeTable
import LiquerModel.Handlers.Token
