/-
M9: the web service (`liquer/server/blueprint.py`), the remote-registration gate (`liquer/commands.py`)
and the `RemoteStore` client (`liquer/remote_store.py`).

Mirrors (modelled, tied by the C20 correspondence streams):
  * `enable_remote_registration`, `disable_remote_registration` (AS FIXED: it assigns `False`),
    `register_remote_serialized`'s guard                                  -> `gateStep`, `gateTrace`;
  * `serve` / `response`: WSGI un-quotes the path once, `evaluate`, `state.get()`, `encode_state_data`;
    any exception -> `abort(500)`                                         -> `serve`;
  * the store / cache endpoints: one library call per endpoint             -> `Route`, `apiSpec`, `routesOK`
    over the table regenerated from the Flask URL map and the `ast` of every view function;
  * `RemoteStore`: which URL each method requests                          -> `RemoteRow`, `remoteOK`.
No imports outside `LiquerModel`: linked into the `driver` executable.
-/
import LiquerModel.Text
import LiquerModel.Ast

namespace Liquer.Web
open Liquer

/-! ### remote registration gate -/

inductive GateOp where
  | enable | disable | register
deriving DecidableEq, Repr

/-- one call: new flag, and for `register` whether the guard let it through -/
def gateStep (enabled : Bool) : GateOp → Bool × Option Bool
  | .enable => (true, none)
  | .disable => (false, none)
  | .register => (enabled, some enabled)

/-- outcome of every call of a history (`none` for the toggles) -/
def gateTrace (enabled : Bool) : List GateOp → List (Option Bool)
  | [] => []
  | op :: rest => (gateStep enabled op).2 :: gateTrace (gateStep enabled op).1 rest

/-- specification: the most recent toggle in a history, `init` if there is none -/
def lastToggle (init : Bool) : List GateOp → Bool
  | [] => init
  | .enable :: rest => lastToggle true rest
  | .disable :: rest => lastToggle false rest
  | .register :: rest => lastToggle init rest

/-! ### `serve` -/

/-- what `evaluate(query)` followed by `state.get()` can do -/
inductive EvalOutcome (V : Type) where
  /-- `evaluate` raises (parse error, unknown command outside the evaluator's try, link failure …) -/
  | raises
  /-- `evaluate` returns a state with `is_error`; `state.get()` raises -/
  | errorState
  /-- a value and the extension of the query's file name (`state.extension`) -/
  | ok (v : V) (ext : Option Str)

structure ServeEnv (V B : Type) where
  evaluate : Str → EvalOutcome V
  /-- `encode_state_data(value, extension)`: bytes and media type; `none` = raises -/
  serialise : V → Option Str → Option (B × Str)

inductive Response (B : Type) where
  | ok (body : B) (mime : Str)
  | error (status : Nat)
deriving DecidableEq, Repr

def Response.status {B} : Response B → Nat
  | .ok _ _ => 200
  | .error s => s

def Response.is2xx {B} (r : Response B) : Bool := 200 ≤ r.status && r.status < 300

/-- the view function on the already un-quoted query text -/
def serveQuery {V B} (env : ServeEnv V B) (q : Str) : Response B :=
  match env.evaluate q with
  | .raises => .error 500
  | .errorState => .error 500
  | .ok v ext =>
    match env.serialise v ext with
    | none => .error 500
    | some (b, m) => .ok b m

/-- `GET /q/<path>`: the WSGI layer un-quotes the raw path once (`dec`: UTF-8 decoding policy) -/
def serve {V B} (env : ServeEnv V B) (dec : List UInt8 → List Char) (rawPath : Str) : Response B :=
  serveQuery env (unquote dec rawPath)

/-! ### routes: endpoint ↦ library operation -/

inductive LibOp where
  | storeGetBytes | storeGetMetadata | storeStore | storeStoreMetadata | storeRemove | storeRemovedir
  | storeContains | storeIsDir | storeKeys | storeListdir | storeMakedir
  | cacheGet | cacheGetMetadata | cacheStoreMetadata | cacheRemove | cacheContains | cacheKeys | cacheClean
  | evaluate | evaluateInBackground | registerRemote
  | other (target method : Str)
deriving DecidableEq, Repr

/-- where the key argument of a library call comes from -/
inductive KeyArg where
  /-- the `<path:…>` parameter of the rule, unmodified -/
  | path
  /-- the call takes no key (or the key travels in the body: `Cache.store_metadata(metadata)`) -/
  | none
  /-- something computed in the view -/
  | derived
deriving DecidableEq, Repr

structure Route where
  rule : Str
  methods : List Str
  endpoint : Str
  /-- library calls made by the view function, in source order -/
  calls : List (LibOp × KeyArg)
deriving DecidableEq, Repr

/-- a `RemoteStore` method: the store operation it implements and the requests it issues itself
(verb, URL suffix below the API prefix, whether `/key` is appended) -/
structure RemoteRow where
  method : Str
  requests : List (Str × Str × Bool)
deriving DecidableEq, Repr

def sGET : Str := ['G', 'E', 'T']
def sPOST : Str := ['P', 'O', 'S', 'T']

/-- operations that do not change the store / cache: they may accompany the primary call of a view -/
def readOnly : LibOp → Bool
  | .storeGetMetadata | .storeContains | .storeIsDir | .storeKeys | .cacheKeys | .cacheContains => true
  | _ => false

/-- does the operation take the key as its first argument -/
def keyOf : LibOp → KeyArg
  | .storeKeys | .cacheKeys | .cacheClean | .cacheStoreMetadata => .none
  | _ => .path

/-- the documented web API (the interface `RemoteStore` and remote caches are written against):
URL below the blueprint root, verb, the one library operation it stands for -/
def apiSpec : List (Str × Str × LibOp) :=
  [ (['/', 'a', 'p', 'i', '/', 's', 't', 'o', 'r', 'e', '/', 'd', 'a', 't', 'a', '/', '<', 'p', 'a', 't', 'h', ':', 'q', 'u', 'e', 'r', 'y', '>'], sGET, .storeGetBytes),
    (['/', 'a', 'p', 'i', '/', 's', 't', 'o', 'r', 'e', '/', 'd', 'a', 't', 'a', '/', '<', 'p', 'a', 't', 'h', ':', 'q', 'u', 'e', 'r', 'y', '>'], sPOST, .storeStore),
    (['/', 'a', 'p', 'i', '/', 's', 't', 'o', 'r', 'e', '/', 'm', 'e', 't', 'a', 'd', 'a', 't', 'a', '/', '<', 'p', 'a', 't', 'h', ':', 'q', 'u', 'e', 'r', 'y', '>'], sGET, .storeGetMetadata),
    (['/', 'a', 'p', 'i', '/', 's', 't', 'o', 'r', 'e', '/', 'm', 'e', 't', 'a', 'd', 'a', 't', 'a', '/', '<', 'p', 'a', 't', 'h', ':', 'q', 'u', 'e', 'r', 'y', '>'], sPOST, .storeStoreMetadata),
    (['/', 'a', 'p', 'i', '/', 's', 't', 'o', 'r', 'e', '/', 'r', 'e', 'm', 'o', 'v', 'e', '/', '<', 'p', 'a', 't', 'h', ':', 'q', 'u', 'e', 'r', 'y', '>'], sGET, .storeRemove),
    (['/', 'a', 'p', 'i', '/', 's', 't', 'o', 'r', 'e', '/', 'r', 'e', 'm', 'o', 'v', 'e', 'd', 'i', 'r', '/', '<', 'p', 'a', 't', 'h', ':', 'q', 'u', 'e', 'r', 'y', '>'], sGET, .storeRemovedir),
    (['/', 'a', 'p', 'i', '/', 's', 't', 'o', 'r', 'e', '/', 'c', 'o', 'n', 't', 'a', 'i', 'n', 's', '/', '<', 'p', 'a', 't', 'h', ':', 'q', 'u', 'e', 'r', 'y', '>'], sGET, .storeContains),
    (['/', 'a', 'p', 'i', '/', 's', 't', 'o', 'r', 'e', '/', 'i', 's', '_', 'd', 'i', 'r', '/', '<', 'p', 'a', 't', 'h', ':', 'q', 'u', 'e', 'r', 'y', '>'], sGET, .storeIsDir),
    (['/', 'a', 'p', 'i', '/', 's', 't', 'o', 'r', 'e', '/', 'k', 'e', 'y', 's'], sGET, .storeKeys),
    (['/', 'a', 'p', 'i', '/', 's', 't', 'o', 'r', 'e', '/', 'l', 'i', 's', 't', 'd', 'i', 'r', '/', '<', 'p', 'a', 't', 'h', ':', 'q', 'u', 'e', 'r', 'y', '>'], sGET, .storeListdir),
    (['/', 'a', 'p', 'i', '/', 's', 't', 'o', 'r', 'e', '/', 'm', 'a', 'k', 'e', 'd', 'i', 'r', '/', '<', 'p', 'a', 't', 'h', ':', 'q', 'u', 'e', 'r', 'y', '>'], sGET, .storeMakedir),
    (['/', 'a', 'p', 'i', '/', 'c', 'a', 'c', 'h', 'e', '/', 'g', 'e', 't', '/', '<', 'p', 'a', 't', 'h', ':', 'q', 'u', 'e', 'r', 'y', '>'], sGET, .cacheGet),
    (['/', 'a', 'p', 'i', '/', 'c', 'a', 'c', 'h', 'e', '/', 'm', 'e', 't', 'a', '/', '<', 'p', 'a', 't', 'h', ':', 'q', 'u', 'e', 'r', 'y', '>'], sGET, .cacheGetMetadata),
    (['/', 'a', 'p', 'i', '/', 'c', 'a', 'c', 'h', 'e', '/', 'm', 'e', 't', 'a', '/', '<', 'p', 'a', 't', 'h', ':', 'q', 'u', 'e', 'r', 'y', '>'], sPOST, .cacheStoreMetadata),
    (['/', 'a', 'p', 'i', '/', 'c', 'a', 'c', 'h', 'e', '/', 'r', 'e', 'm', 'o', 'v', 'e', '/', '<', 'p', 'a', 't', 'h', ':', 'q', 'u', 'e', 'r', 'y', '>'], sGET, .cacheRemove),
    (['/', 'a', 'p', 'i', '/', 'c', 'a', 'c', 'h', 'e', '/', 'c', 'o', 'n', 't', 'a', 'i', 'n', 's', '/', '<', 'p', 'a', 't', 'h', ':', 'q', 'u', 'e', 'r', 'y', '>'], sGET, .cacheContains),
    (['/', 'a', 'p', 'i', '/', 'c', 'a', 'c', 'h', 'e', '/', 'k', 'e', 'y', 's', '.', 'j', 's', 'o', 'n'], sGET, .cacheKeys),
    (['/', 'a', 'p', 'i', '/', 'c', 'a', 'c', 'h', 'e', '/', 'c', 'l', 'e', 'a', 'n'], sGET, .cacheClean) ]

/-- the store operations (all eleven) and the cache operations that are exposed (`Cache.store(state)` is
not: results enter a served cache only by evaluating) -/
def storeOps : List LibOp :=
  [.storeGetBytes, .storeGetMetadata, .storeStore, .storeStoreMetadata, .storeRemove, .storeRemovedir,
   .storeContains, .storeIsDir, .storeKeys, .storeListdir, .storeMakedir]
def cacheOps : List LibOp :=
  [.cacheGet, .cacheGetMetadata, .cacheStoreMetadata, .cacheRemove, .cacheContains, .cacheKeys, .cacheClean]

def findRoute (routes : List Route) (rule verb : Str) : Option Route :=
  routes.find? (fun r => r.rule == rule && r.methods.contains verb)

/-- the view performs exactly one call of the expected operation, with the path parameter as key where the
operation takes one, and nothing else that could change the store / cache -/
def routeDoes (r : Route) (op : LibOp) : Bool :=
  r.calls.filter (fun c => c.1 == op || !readOnly c.1) == [(op, keyOf op)]

def specOK (routes : List Route) : Bool :=
  apiSpec.all (fun s => match findRoute routes s.1 s.2.1 with
    | some r => routeDoes r s.2.2
    | none => false)

def coverageOK : Bool :=
  (storeOps ++ cacheOps).all (fun op => apiSpec.any (fun s => s.2.2 == op))

/-- the primary operation of the endpoint a request addresses, by the specification -/
def specOp (rule verb : Str) : Option LibOp :=
  (apiSpec.find? (fun s => s.1 == rule && s.2.1 == verb)).map (·.2.2)

def apiPrefix : Str := ['/', 'a', 'p', 'i', '/']
def pathParam : Str := ['/', '<', 'p', 'a', 't', 'h', ':', 'q', 'u', 'e', 'r', 'y', '>']

/-- the rule a `RemoteStore` request addresses -/
def requestRule (suffix : Str) (withKey : Bool) : Str :=
  apiPrefix ++ suffix ++ (if withKey then pathParam else [])

/-- which store operation each `RemoteStore` method implements, by name -/
def remoteMethods : List (Str × LibOp) :=
  [ (['g', 'e', 't', '_', 'b', 'y', 't', 'e', 's'], .storeGetBytes), (['g', 'e', 't', '_', 'm', 'e', 't', 'a', 'd', 'a', 't', 'a'], .storeGetMetadata), (['s', 't', 'o', 'r', 'e'], .storeStore),
    (['s', 't', 'o', 'r', 'e', '_', 'm', 'e', 't', 'a', 'd', 'a', 't', 'a'], .storeStoreMetadata), (['r', 'e', 'm', 'o', 'v', 'e'], .storeRemove), (['r', 'e', 'm', 'o', 'v', 'e', 'd', 'i', 'r'], .storeRemovedir),
    (['c', 'o', 'n', 't', 'a', 'i', 'n', 's'], .storeContains), (['i', 's', '_', 'd', 'i', 'r'], .storeIsDir), (['k', 'e', 'y', 's'], .storeKeys),
    (['l', 'i', 's', 't', 'd', 'i', 'r'], .storeListdir), (['m', 'a', 'k', 'e', 'd', 'i', 'r'], .storeMakedir) ]

/-- `store` posts the metadata first and then the data: the only method with an accompanying request -/
def companion (op o : LibOp) : Bool := op == .storeStore && o == .storeStoreMetadata

/-- every store method of the client exists, and each of its own requests addresses a served endpoint whose
operation is the method's operation (or its companion), the method's operation among them; requests carry
the key exactly when the operation takes one -/
def remoteOK (routes : List Route) (rows : List RemoteRow) : Bool :=
  remoteMethods.all (fun mo =>
    match rows.find? (fun r => r.method == mo.1) with
    | none => false
    | some row =>
      let ops := row.requests.map (fun q =>
        match findRoute routes (requestRule q.2.1 q.2.2) q.1 with
        | some _ => (specOp (requestRule q.2.1 q.2.2) q.1, q.2.2)
        | none => (none, q.2.2))
      ops.any (fun o => o.1 == some mo.2) &&
      ops.all (fun o => match o.1 with
        | some x => (x == mo.2 || companion mo.2 x) && (o.2 == (keyOf x == .path))
        | none => false))

def routesOK (routes : List Route) (rows : List RemoteRow) : Bool :=
  coverageOK && specOK routes && remoteOK routes rows

/-! ### endpoint histories -/

/-- a library with state `σ`: every operation maps a key (and an opaque payload) to a new state and a result -/
structure Lib (σ K P R : Type) where
  step : LibOp → K → P → σ → σ × R

/-- a view function executes its calls in source order; the response reports the primary call's result -/
def runCalls {σ K P R} (lib : Lib σ K P R) (calls : List (LibOp × KeyArg)) (k : K) (p : P) (s : σ) : σ :=
  calls.foldl (fun st c => (lib.step c.1 k p st).1) s

end Liquer.Web
