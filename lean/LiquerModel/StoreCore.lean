/-
M5 (core): vocabulary shared by every store model, and the *specification* file system `FS`.

Keys are lists of non-empty path components (`"a/b"` = `[a, b]`, `""` = `[]`); the harness only
sends normalised keys to the models (the string-level prefix tests of the Python code coincide with
component-prefix tests on normalised keys).
-/
import LiquerModel.Ast

namespace Liquer

abbrev Key := List Str
abbrev Data := List UInt8

/-- error classes the correspondence distinguishes (`Other` = any other exception) -/
inductive StoreErr where
  | keyNotFound | keyNotSupported | routeNotFound | readOnly | other
  deriving DecidableEq, Repr, Inhabited

/-- what a caller hands to `store` / `store_metadata`: an abstract token for his own fields plus the
`fileinfo.size` / `fileinfo.md5` the dictionary already carried (they survive `store_metadata`) -/
structure UMeta where
  user : Str
  size : Option Nat := none
  md5 : Option Data := none      -- md5 is modelled as an injective function of the data: the data itself
  deriving DecidableEq, Repr, Inhabited

/-- what `get_metadata` reports, projected on the fields the properties talk about -/
structure MetaObs where
  key : Key
  name : Str
  isDir : Bool
  size : Option Nat
  md5 : Option Data
  user : Str           -- `[]` for directories / default metadata
  deriving DecidableEq, Repr, Inhabited

def keyName (k : Key) : Str := k.getLast?.getD []
def parentKey (k : Key) : Key := k.dropLast

/-- a store model: state type `σ` and the eleven operations of `liquer.store.Store`.
`listdir` returns `none` where the Python method returns `None`. -/
structure StoreOps (σ : Type) where
  getBytes : σ → Key → Except StoreErr Data
  getMeta : σ → Key → Except StoreErr MetaObs
  store : σ → Key → Data → UMeta → Except StoreErr σ
  storeMeta : σ → Key → UMeta → Except StoreErr σ
  remove : σ → Key → Except StoreErr σ
  removedir : σ → Key → Bool → Except StoreErr σ
  makedir : σ → Key → Except StoreErr σ
  contains : σ → Key → Except StoreErr Bool
  isDir : σ → Key → Except StoreErr Bool
  keys : σ → Except StoreErr (List Key)
  listdir : σ → Key → Except StoreErr (Option (List Str))

/-- operations of a history -/
inductive StoreOp where
  | store (k : Key) (d : Data) (m : UMeta)
  | storeMeta (k : Key) (m : UMeta)
  | remove (k : Key)
  | removedir (k : Key) (recursive : Bool)
  | makedir (k : Key)
  deriving DecidableEq, Repr, Inhabited

def StoreOps.apply {σ} (S : StoreOps σ) (s : σ) : StoreOp → Except StoreErr σ
  | .store k d m => S.store s k d m
  | .storeMeta k m => S.storeMeta s k m
  | .remove k => S.remove s k
  | .removedir k r => S.removedir s k r
  | .makedir k => S.makedir s k

/-- a failing (raising) operation leaves the state as it was *in the model*; the harness compares
the observable state after every operation, so a Python method that mutates and then raises shows up -/
def StoreOps.step {σ} (S : StoreOps σ) (s : σ) (op : StoreOp) : σ :=
  match S.apply s op with
  | .ok s' => s'
  | .error _ => s

def StoreOps.run {σ} (S : StoreOps σ) (s : σ) (h : List StoreOp) : σ := h.foldl S.step s

/-- everything observable about one key -/
structure KeyObs where
  contains : Except StoreErr Bool
  isDir : Except StoreErr Bool
  bytes : Except StoreErr Data
  metadata : Except StoreErr MetaObs
  listdir : Except StoreErr (Option (List Str))

def StoreOps.obs {σ} (S : StoreOps σ) (s : σ) (k : Key) : KeyObs :=
  { contains := S.contains s k, isDir := S.isDir s k, bytes := S.getBytes s k, metadata := S.getMeta s k,
    listdir := S.listdir s k }

/-! ### the specification: a tree of nodes -/

inductive Node where
  | file (d : Data) (m : UMeta)
  | dir
  deriving DecidableEq, Repr, Inhabited

/-- association list; at most one binding per key (`FS.WF`) -/
abbrev FS := List (Key × Node)

def FS.get (fs : FS) (k : Key) : Option Node := (fs.find? (fun kv => kv.1 == k)).map (·.2)
def FS.erase (fs : FS) (k : Key) : FS := fs.filter (fun kv => kv.1 != k)
def FS.set (fs : FS) (k : Key) (n : Node) : FS := (k, n) :: fs.erase k

/-- all proper, non-root prefixes of `k`, shortest first -/
def ancestors (k : Key) : List Key := (List.range k.length).filterMap (fun i => if i == 0 then none else some (k.take i))

def FS.mkdirs (fs : FS) (ks : List Key) : FS := ks.foldl (fun f a => if (f.get a).isSome then f else f.set a .dir) fs

def FS.isDirB (fs : FS) (k : Key) : Bool := k.isEmpty || fs.get k == some .dir
def FS.containsB (fs : FS) (k : Key) : Bool := k.isEmpty || (fs.get k).isSome
def FS.children (fs : FS) (k : Key) : List Str :=
  (fs.filter (fun kv => !kv.1.isEmpty && kv.1.dropLast == k)).map (fun kv => keyName kv.1)
def FS.below (fs : FS) (k : Key) : FS := fs.filter (fun kv => k.isPrefixOf kv.1 && kv.1 != k)

/-- `Tree`: every ancestor of a present key is a directory; no duplicate bindings; no root binding -/
def FS.tree (fs : FS) : Bool :=
  fs.all (fun kv => !kv.1.isEmpty && (ancestors kv.1).all (fun a => fs.get a == some .dir)) &&
  (fs.map (·.1)).eraseDups.length == fs.length

/-- the reference store (the "single reference model" of C07) -/
def specOps : StoreOps FS where
  getBytes fs k := match fs.get k with
    | some (.file d _) => .ok d
    | _ => .error .keyNotFound
  getMeta fs k := match fs.get k with
    | some (.file _ m) => .ok { key := k, name := keyName k, isDir := false, size := m.size, md5 := m.md5, user := m.user }
    | some .dir => .ok { key := k, name := keyName k, isDir := true, size := none, md5 := none, user := [] }
    | none => if k.isEmpty then .ok { key := k, name := [], isDir := true, size := none, md5 := none, user := [] }
              else .error .keyNotFound
  store fs k d m := .ok ((fs.mkdirs (ancestors k)).set k (.file d { m with size := some d.length, md5 := some d }))
  storeMeta fs k m := match fs.get k with
    | some (.file d _) => .ok (fs.set k (.file d m))
    | _ => .error .other
  remove fs k := .ok (fs.erase k)
  removedir fs k recursive :=
    if k.isEmpty then .ok fs
    else if recursive then .ok (fs.filter (fun kv => !(k.isPrefixOf kv.1)))
    else if (fs.children k).isEmpty then .ok (fs.erase k) else .ok fs
  makedir fs k := .ok (fs.mkdirs (ancestors k ++ (if k.isEmpty then [] else [k])))
  contains fs k := .ok (fs.containsB k)
  isDir fs k := .ok (fs.isDirB k)
  keys fs := .ok (fs.map (·.1))
  listdir fs k := if fs.isDirB k then .ok (some (fs.children k)) else .ok none

/-- well-formed next operation, decidable on the specification state (C07's quantifier) -/
def wfOp (fs : FS) : StoreOp → Bool
  | .store k _ _ => !k.isEmpty && !(fs.isDirB k) && (ancestors k).all (fun a => match fs.get a with | some (.file ..) => false | _ => true)
  | .storeMeta k _ => (match fs.get k with | some (.file ..) => true | _ => false)
  | .remove k => (match fs.get k with | some (.file ..) => true | _ => false)
  | .removedir k recursive => !k.isEmpty && fs.get k == some .dir && (recursive || (fs.children k).isEmpty)
  | .makedir k => !k.isEmpty && (ancestors k ++ [k]).all (fun a => match fs.get a with | some (.file ..) => false | _ => true)

def wfHist (fs : FS) : List StoreOp → Bool
  | [] => true
  | op :: rest => wfOp fs op && wfHist (specOps.step fs op) rest

end Liquer
