/-
M7 (crash part): the file-system steps the file-backed writers issue, **as fixed by D6a / D6b / D17**,
a crash after any number of them (the next one possibly a partial `append`), and what a fresh object
reads afterwards.

Granularity: one step = one Python-level file operation that changes the file system
(`os.mkdir`, `os.open(O_CREAT)`/`open("wb")`, `write`, `close`, `os.replace`, `os.remove`/`unlink`);
completed steps are assumed to be applied in order (no torn sectors, no write-back reordering).

* flat cache directory (`FileCache` and subclasses): names `FName`, state `CDir` (`CacheFile.lean`);
* directory store (`FileStore`, and `StoreCache` on it): names are *roles* below the store root —
  the node at a key (data file or directory), the hidden `__metadata__` folder of a directory, the
  metadata file of a key, the temporary file inside a hidden folder.  Keys are lists of plain
  components (non-empty, no `__metadata__`, no `.`/`..`): the harness only uses such keys.
-/
import LiquerModel.CacheFile

namespace Liquer
namespace Crash

inductive Step (ν : Type) where
  | mkdir (p : ν)
  | create (p : ν)             -- create or truncate
  | append (p : ν) (b : Data)
  | close (p : ν)
  | rename (a b : ν)           -- `os.replace`
  | unlink (p : ν)
  deriving DecidableEq, Repr, Inhabited

/-- execute the first `n` steps; if the next one is an `append`, additionally its first `cut` bytes -/
def crashAt {ν φ : Type} (exec : φ → Step ν → φ) (n cut : Nat) (steps : List (Step ν)) (fs : φ) : φ :=
  let fs1 := (steps.take n).foldl exec fs
  match steps.drop n with
  | .append p b :: _ => exec fs1 (.append p (b.take cut))
  | _ => fs1

/-! ### flat cache directory -/

def execC (d : CDir) : Step FName → CDir
  | .mkdir _ => d
  | .create p => AL.set d p []
  | .append p b => match AL.get d p with
    | some x => AL.set d p (x ++ b)
    | none => d
  | .close _ => d
  | .rename a b => match AL.get d a with
    | some x => AL.set (AL.erase d a) b x
    | none => d
  | .unlink p => AL.erase d p

def tmpC : FName := .tmp 0

/-- `_write_file(path, b)`: `mkstemp`, `write`, `close`, `os.replace` -/
def writeFileC (target : FName) (b : Data) : List (Step FName) :=
  [.create tmpC, .append tmpC b, .close tmpC, .rename tmpC target]

/-- `FileCache.remove(key)`: the metadata file first (if it exists), then every `data_<h>.*` -/
def removeStepsC (c : FileCfg) (d : CDir) (k : Str) : List (Step FName) :=
  (if (AL.get d (.state (c.h k))).isSome then [.unlink (.state (c.h k))] else []) ++
  ((d.filter (fun e => FileC.isDataOf (c.h k) e.1)).map (fun e => Step.unlink e.1))

def storeMetaStepsC (c : FileCfg) (m : CMeta) : List (Step FName) :=
  writeFileC (.state (c.h m.query)) (c.enc (c.serM m))

/-- `FileCache.store(state)` (not an error state) -/
def storeStepsC (c : FileCfg) (d : CDir) (st : CState) : List (Step FName) :=
  let m := { st.metadata with status := ready }
  removeStepsC c d m.query ++
  writeFileC (.data (c.h m.query) (c.ext m.typeId)) (c.enc (c.serD m.typeId st.data)) ++
  storeMetaStepsC c m

/-- what a fresh `FileCache` object answers: `get`, `get_metadata` -/
def readC (c : FileCfg) (d : CDir) (k : Str) : Option CState × Option CMeta :=
  (FileC.get c d k, FileC.loadMeta c d (.state (c.h k)))

/-! ### directory store -/

inductive SName where
  | node (k : Key)       -- `root/k`
  | metaDir (k : Key)    -- `root/k/__metadata__`
  | mfile (k : Key)      -- `root/parent(k)/__metadata__/<name(k)>.json`
  | tmp (k : Key)        -- `tmp_*` inside `root/k/__metadata__`
  deriving DecidableEq, Repr, Inhabited

inductive TNode where
  | file (d : Data)
  | dir
  deriving DecidableEq, Repr, Inhabited

abbrev Tree := List (SName × TNode)

def execT (t : Tree) : Step SName → Tree
  | .mkdir p => match AL.get t p with
    | none => AL.set t p .dir
    | some _ => t
  | .create p => AL.set t p (.file [])
  | .append p b => match AL.get t p with
    | some (.file x) => AL.set t p (.file (x ++ b))
    | _ => t
  | .close _ => t
  | .rename a b => match AL.get t a with
    | some x => AL.set (AL.erase t a) b x
    | none => t
  | .unlink p => AL.erase t p

/-- `mkdir(parents=True, exist_ok=True)`: only the missing directories are created, top-down -/
def mkdirsT (t : Tree) (ns : List SName) : List (Step SName) :=
  (ns.filter (fun n => (AL.get t n).isNone)).map Step.mkdir

def writeFileT (dirKey : Key) (target : SName) (b : Data) : List (Step SName) :=
  [.create (.tmp dirKey), .append (.tmp dirKey) b, .close (.tmp dirKey), .rename (.tmp dirKey) target]

/-- the directories above the data file of `k` (`path_for_key(k).parent` and its ancestors) -/
def parentNodes (k : Key) : List SName := (ancestors k).map SName.node

def unlinkIfPresent (t : Tree) (n : SName) : List (Step SName) :=
  if (AL.get t n).isSome then [.unlink n] else []

/-- `FileStore.store(key, data, metadata)`: parents, unpublish the old metadata, data, metadata -/
def storeStepsT (t : Tree) (k : Key) (b mb : Data) : List (Step SName) :=
  mkdirsT t (parentNodes k) ++ unlinkIfPresent t (.mfile k) ++ mkdirsT t [.metaDir (parentKey k)] ++
  writeFileT (parentKey k) (.node k) b ++ writeFileT (parentKey k) (.mfile k) mb

/-- `FileStore.store_metadata(key, metadata)` -/
def storeMetaStepsT (t : Tree) (k : Key) (mb : Data) : List (Step SName) :=
  mkdirsT t (parentNodes k ++ [.metaDir (parentKey k)]) ++ writeFileT (parentKey k) (.mfile k) mb

/-- `FileStore.remove(key)`: data, then metadata (`FileNotFoundError` ignored) -/
def removeStepsT (t : Tree) (k : Key) : List (Step SName) :=
  unlinkIfPresent t (.node k) ++ unlinkIfPresent t (.mfile k)

/-- a fresh `FileStore`: `get_bytes(k)` (`none` = raises) -/
def readBytesT (t : Tree) (k : Key) : Option Data :=
  match AL.get t (.node k) with
  | some (.file d) => some d
  | _ => none

/-- a fresh `FileStore`: the recorded metadata `get_metadata(k)` is built from (`none` = key not found,
a directory, or a data file without metadata — status `external`) -/
def readMetaT (t : Tree) (k : Key) : Option Data :=
  match AL.get t (.node k) with
  | some .dir => none
  | _ => match AL.get t (.mfile k) with
    | some (.file d) => some d
    | _ => none

/-- a fresh `StoreCache` on a fresh `FileStore`: `get(key)`, `p = to_path(key)` -/
def readSC (deM : Data → Option CMeta) (deD : Str → Data → Option (Option Str)) (t : Tree) (p : Key) : Option CState :=
  match AL.get t (.node p) with
  | some (.file d) =>
    match AL.get t (.mfile p) with
    | some (.file mb) =>
      match deM mb with
      | some m => if m.status != ready then none else
        match deD m.typeId d with
        | some v => some { metadata := m, data := v }
        | none => none
      | none => none
    | _ => none
  | _ => none

end Crash
end Liquer
