/-
M5: `ProxyStore` (every method forwards; the `on_*` event hooks are no-ops in the base classes),
`IndexerStore` (a `ProxyStore` whose `store` first lets the indexer registry decorate the metadata:
the caller's fields and the `fileinfo` of the data are kept, so on the observed fields it is the
identity) and `ReadOnlyStore` (a `ProxyStore` whose five mutators raise `ReadOnlyStoreException`).
-/
import LiquerModel.StoreCore

namespace Liquer

/-- `ProxyStore(S)` / `IndexerStore(S)` on the observed fields -/
def proxyOps {σ : Type} (S : StoreOps σ) : StoreOps σ where
  getBytes := S.getBytes
  getMeta := S.getMeta
  store := S.store
  storeMeta := S.storeMeta
  remove := S.remove
  removedir := S.removedir
  makedir := S.makedir
  contains := S.contains
  isDir := S.isDir
  keys := S.keys
  listdir := S.listdir

/-- `ReadOnlyStore(S)` -/
def readOnlyOps {σ : Type} (S : StoreOps σ) : StoreOps σ where
  getBytes := S.getBytes
  getMeta := S.getMeta
  store _ _ _ _ := .error .readOnly
  storeMeta _ _ _ := .error .readOnly
  remove _ _ := .error .readOnly
  removedir _ _ _ := .error .readOnly
  makedir _ _ := .error .readOnly
  contains := S.contains
  isDir := S.isDir
  keys := S.keys
  listdir := S.listdir

end Liquer
