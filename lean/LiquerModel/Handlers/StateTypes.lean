import LiquerModel.Proto
import LiquerModel.StateTypes
import LiquerModel.Gen.StateTypes
import LiquerModel.StateTypesCodec

namespace Liquer.Handlers
open Liquer Liquer.Proto Liquer.StateTypes

/-- element field: `i<digits>` / `n<digits>` (negative) / `s<hex>` (string, `s-` empty) -/
def decScalar (f : String) : Option Scalar :=
  match f.toList with
  | 'i' :: ds => some (.int false ds)
  | 'n' :: ds => some (.int true ds)
  | 's' :: h => (decChars (String.ofList h)).map .str
  | _ => none

def encScalar : Scalar → String
  | .int false ds => "i" ++ String.ofList ds
  | .int true ds => (if ds.all (· == '0') then "i" else "n") ++ String.ofList ds
  | .str s => "s" ++ encChars s

/-- `key,element` with hex key -/
def decPair (f : String) : Option (Str × Scalar) :=
  match f.splitOn "," with
  | [k, v] => match decChars k, decScalar v with
    | some k', some v' => some (k', v')
    | _, _ => none
  | _ => none

def decPairs : List String → Option (List (Str × Scalar))
  | [] => some []
  | f :: fs => match decPair f, decPairs fs with
    | some p, some ps => some (p :: ps)
    | _, _ => none

def stateTypes (cmd : String) (args : List String) : Option String :=
  match cmd, args with
  | "st.get", [k] => some <| match decChars k with
      | some k' => encChars (Gen.stateTypeRegistry.get k')
      | none => "BADINPUT"
  -- dispatch decision of encode_state_data: qualified type name, extension (`NONE` = default)
  | "st.enc", [q, e] => some <| match decChars q with
      | none => "BADINPUT"
      | some q' =>
        let reg := Gen.stateTypeRegistry
        let tid := reg.get q'
        let ext : Option Str := if e == "NONE" then none else decChars e
        match reg.row tid, extOr reg tid ext with
        | some r, some x => match r.mimeOf x with
          | some m => "ok " ++ encChars tid ++ " " ++ encChars x ++ " " ++ encChars m
          | none => "raise"
        | _, _ => "raise"
  -- does the state type selected by identifier `t` read extension `e`
  | "st.reads", [t, e] => some <| match decChars t, decChars e with
      | some t', some e' =>
        let reg := Gen.stateTypeRegistry
        match reg.row (reg.get t') with
        | some r => toString (r.readsExt e')
        | none => "norow"
      | _, _ => "BADINPUT"
  -- `st.reg <qual.name.ident>,… <key>,…`: a history of register calls on an empty dictionary, then the object found under each key
  | "st.reg", [calls, keys] => some <|
      let cs : List (Str × Obj) := (if calls == "-" then [] else calls.splitOn ",").filterMap (fun c =>
        match c.splitOn "." with
        | [q, n, i] => (match decChars q, decChars n, decChars i with
            | some q, some n, some i => some (q, ({ name := n, ident := i } : Obj))
            | _, _, _ => none)
        | _ => none)
      let d := registerAll [] cs
      String.intercalate "," ((keys.splitOn ",").map (fun k =>
        match decChars k with
        | some k' => (match lookupO k' d with | some o => encChars o.name | none => "~")
        | none => "BAD"))
  | "st.esc", [h] => some <| match decChars h with
      | some s => encChars (jsonEscape s)
      | none => "BADINPUT"
  | "st.unesc", [h] => some <| match decChars h with
      | some t => (match parseJStr t with
          | some (s, rest) => "ok " ++ encChars s ++ " " ++ encChars rest
          | none => "none")
      | none => "BADINPUT"
  | "st.djson", ps => some <| match decPairs ps with
      | some d => encChars (toDjson Scalar.dumps d)
      | none => "BADINPUT"
  | "st.undjson", [h] => some <| match decChars h with
      | some t => (match fromDjson Scalar.parse t with
          | some d => "ok" ++ String.join (d.map (fun kv => " " ++ encChars kv.1 ++ "," ++ encScalar kv.2))
          | none => "none")
      | none => "BADINPUT"
  -- `st.own <text|bytes> <enc|dec> <ext> <hex>`: the codec of the two own state types (`ownCodec`). `text enc`: hex = UTF-8 of the
  -- string handed to `as_bytes`; otherwise hex = the raw bytes. Answer `ok <hex of the bytes / of the UTF-8 of the decoded string>` or `raise`
  | "st.own", [t, op, e, h] => some <|
      let hexL (b : List UInt8) : String := bytesToHex b.toByteArray
      match decChars e with
      | none => "BADINPUT"
      | some e' =>
        match t, op with
        | "text", "enc" => (match decChars h with
            | some s => (match ownCodec.enc identText e' (.text s) with
                | some b => "ok " ++ hexL b
                | none => "raise")
            | none => "BADINPUT")
        | "text", "dec" => (match ownCodec.dec identText e' (hexToBytes h).toList with
            | some (.text s) => "ok " ++ encChars s
            | some (.bytes _) => "BADTYPE"
            | none => "raise")
        | "bytes", "enc" => (match ownCodec.enc identBytes e' (.bytes (hexToBytes h).toList) with
            | some b => "ok " ++ hexL b
            | none => "raise")
        | "bytes", "dec" => (match ownCodec.dec identBytes e' (hexToBytes h).toList with
            | some (.bytes b) => "ok " ++ hexL b
            | some (.text _) => "BADTYPE"
            | none => "raise")
        | _, _ => "BADINPUT"
  | _, _ => none

end Liquer.Handlers
