import LiquerModel.Recipes
import LiquerModel.Parse
import LiquerModel.StoreMem
import LiquerModel.StoreFile
import LiquerModel.Gen.EscapeTable
import LiquerModel.Handlers.Token
import LiquerModel.Handlers.StoreLayers

/-!
Line protocol of the recipe store (C08).  One line = one configuration + one history.

  rcp <B> <root> <files> <table> <universe> <history>
    B        = M (`memOps`, a MemoryStore sub-store) | F (`fileOps`, a FileStore sub-store)
    root     = mount point in the global store (hex of `a/b`)
    files    = `.` | file (`;` file)*          file    = <key of recipes.yaml> `=` section (`|` section)*
    section  = <name> `:` item (`,` item)*     item    = (`p`|`d`) `.` query `.` title `.` descr `.` filename `.` version
                                                (`p` plain string, `d` dictionary; absent fields `~`)
    table    = `.` | entry (`,` entry)*        entry   = <resolved query> `.` (<extension> | `~`) `.` (<bytes> | `!` = fails)
                                                = the abstract evaluator `evalQ` (anything not listed fails)
    universe = key (`,` key)*                  keys observed after every operation
    history  = `.` | op (`,` op)*              b.K get_bytes | m.K get_metadata | c.K contains | d.K is_dir | k keys |
                                               l.K listdir | r.K remove | x.K.0 / x.K.1 clean_recipes (non-)recursive on directory K
                                               (result: the removed keys that were not in the `recipe` state before)
  All strings hex (`-` = empty).  Answer: `UNMODELLED` (a definition that does not resolve) or, joined by `;`,
    D<key=query.title.descr.name,…>            the declarations (sorted by key)
    then one state for the initial state and one after every operation:
    r=<result> <O key|contains|is_dir|metadata|listdir>* K<keys> G<log>
  metadata = `D` (directory) | status/title/descr/has_recipe/recipe name/recipe version; `recipes_status.txt` is masked in all
  listings; listings are sorted; the log lists the evaluated keys, oldest first.
-/
namespace Liquer.Handlers.RcpH
open Liquer Liquer.Proto Liquer.Rcp Liquer.Handlers.SL

def optHex (h : String) : Option Str := if h == "~" then none else some ((decChars h).getD [])
def encOptS : Option Str → String | none => "~" | some s => encChars s

def decItem (t : String) : Option Item :=
  match t.splitOn "." with
  | [kind, q, ti, de, fn, ver] =>
    some { query := (decChars q).getD [], isDict := kind == "d", title := optHex ti, descr := optHex de,
           filename := optHex fn, version := (decChars ver).getD [] }
  | _ => none

def decSection (t : String) : Option (Str × List Item) :=
  match t.splitOn ":" with
  | [n, items] => some ((decChars n).getD [], (items.splitOn ",").filterMap decItem)
  | _ => none

def decFile (t : String) : Option (Key × List (Str × List Item)) :=
  match t.splitOn "=" with
  | [k, secs] => some (decKey k, (secs.splitOn "|").filterMap decSection)
  | _ => none

def decFiles (f : String) : List (Key × List (Str × List Item)) :=
  if f == "." then [] else (f.splitOn ";").filterMap decFile

def decTable (f : String) : List (Str × Option Str × Option Data) :=
  if f == "." then [] else (f.splitOn ",").filterMap fun t =>
    match t.splitOn "." with
    | [q, e, o] => some ((decChars q).getD [], optHex e, if o == "!" then none else some (decData o))
    | _ => none

def tableEval (tbl : List (Str × Option Str × Option Data)) (q : Str) (e : Option Str) : Option Data :=
  match tbl.find? (fun r => r.1 == q && r.2.1 == e) with
  | some r => r.2.2
  | none => none

def decROp (t : String) : Option ROp :=
  match t.splitOn "." with
  | ["b", k] => some (.getBytes (decKey k))
  | ["m", k] => some (.getMeta (decKey k))
  | ["c", k] => some (.contains (decKey k))
  | ["d", k] => some (.isDir (decKey k))
  | ["k"] => some .keys
  | ["l", k] => some (.listdir (decKey k))
  | ["r", k] => some (.remove (decKey k))
  | ["x", k, r] => some (.clean (decKey k) (r == "1"))
  | _ => none

def decHist (f : String) : List ROp := if f == "." then [] else (f.splitOn ",").filterMap decROp

def statusS : RStatus → String
  | .unset => "none" | .recipe => "recipe" | .ready => "ready" | .error => "error" | .other => "other"

def metaS (o : RObs) : String :=
  if o.isDir then "D" else
  String.intercalate "/" [statusS o.rm.status, encOptS o.rm.title, encOptS o.rm.descr, encBool o.rm.hasRecipe,
    encOptS o.rm.depName, encOptS o.rm.depVersion]

def masked (k : Key) : Bool := keyName k == statusFile

def keysS (ks : List Key) : String := String.intercalate "," (sortS ((ks.filter (fun k => !masked k)).map encKey))
def namesS (l : List Str) : String := String.intercalate "," (sortS ((l.filter (· != statusFile)).map encChars))

section
variable {σ : Type} (S : StoreOps σ) (cfg : Cfg) (E : Env)

def obsS (st : RState σ) (k : Key) : String :=
  "O" ++ encKey k ++ "|" ++ showE encBool (Rcp.contains S cfg st k) ++ "|" ++ showE encBool (Rcp.isDir S cfg st k) ++ "|" ++
    showE metaS (Rcp.getMeta S cfg st k) ++ "|" ++ showE namesS (Rcp.listdir S cfg st k)

def stateS (univ : List Key) (res : String) (st : RState σ) : String :=
  String.intercalate " " (["r=" ++ res] ++ univ.map (obsS S cfg st) ++
    ["K" ++ showE keysS (Rcp.keys S cfg st), "G" ++ String.intercalate "," (st.log.reverse.map encKey)])

/-- result text of an operation (on the state before it) and the state after it -/
def applyS (st : RState σ) : ROp → String × RState σ
  | .getBytes k => let r := Rcp.getBytes S cfg E st k; ((match r.2 with | .ok d => "B" ++ encData d | .error e => encErr e), r.1)
  | .getMeta k => (showE metaS (Rcp.getMeta S cfg st k), st)
  | .contains k => (showE encBool (Rcp.contains S cfg st k), st)
  | .isDir k => (showE encBool (Rcp.isDir S cfg st k), st)
  | .keys => (showE keysS (Rcp.keys S cfg st), st)
  | .listdir k => (showE namesS (Rcp.listdir S cfg st k), st)
  | .remove k => (match Rcp.remove S cfg st k with | .ok s => ("ok", s) | .error e => (encErr e, st))
  | .clean d r =>
    let c := Rcp.clean S cfg st d r
    -- of the reported keys only those that were not in the `recipe` state before (whether never-made keys are reported is not observed)
    let was (k : Key) : Bool := match Rcp.getMeta S cfg st k with | .ok o => o.rm.status != .recipe | .error _ => true
    ((match c.2 with | some l => "X" ++ keysS (l.filter was) | none => "XE"), c.1)

def runS (s0 : σ) (files : List Key) (univ : List Key) (hist : List ROp) : List String :=
  let st0 := Rcp.initState S cfg s0 files
  let r := hist.foldl (fun (acc : RState σ × List String) op =>
      let a := applyS S cfg E acc.1 op
      (a.2, stateS S cfg univ a.1 a.2 :: acc.2)) (st0, [stateS S cfg univ "init" st0])
  r.2.reverse
end

def declS (rs : List (Key × Recipe)) : String :=
  "D" ++ String.intercalate "," (sortS (rs.map fun kv =>
    encKey kv.1 ++ "=" ++ encChars kv.2.query ++ "." ++ encOptS kv.2.title ++ "." ++ encOptS kv.2.descr ++ "." ++ encChars kv.2.name))

def fileRoot : Path := [['s', 'r', 'v'], ['r', 'c', 'p']]

def theEnv (tbl : List (Str × Option Str × Option Data)) : Env :=
  { prs := parse (decWith (Char.ofNat 0xFFFD)), enc := fun q => q.encode Gen.escapeTable, evalQ := tableEval tbl }

def rcpRun (b root files table univ hist : String) : String :=
  let E := theEnv (decTable table)
  let fs := decFiles files
  let rt := decKey root
  match declare E rt fs [] with
  | none => "UNMODELLED"
  | some rs =>
    let cfg : Cfg := { root := rt, recipes := rs }
    let u := decKeys univ
    let h := decHist hist
    let states := match b with
      | "M" => runS memOps cfg E memInit (fs.map (·.1)) u h
      | "F" => runS (fileOps fileRoot) cfg E (fileInit fileRoot) (fs.map (·.1)) u h
      | _ => ["BADINPUT"]
    String.intercalate ";" (declS rs :: states)

end Liquer.Handlers.RcpH

namespace Liquer.Handlers

def recipes (cmd : String) (args : List String) : Option String :=
  match cmd, args with
  | "rcp", [b, root, files, table, univ, hist] => some (RcpH.rcpRun b root files table univ hist)
  | _, _ => none

end Liquer.Handlers
