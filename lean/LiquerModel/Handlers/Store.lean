/-
Line protocol of the store models (C07, C17).  Keys travel as hex-encoded *strings* (`-` = the root key `""`).

  store.run <stack> <universe> <op>*
      stack    = [ro.|proxy.]* (spec | mem | file)
      universe = comma separated hex keys
      op       = S:<key>:<data>:<user> | M:<key>:<user>:<size|~>:<md5 data|~> | R:<key> | D:<key>:<0|1> | K:<key>
      answer   = wf=<T|F> <state>*          one <state> for the initial state and one after every operation
      <state>  = <result>;<keys>;<obs of universe key 1>;...
      <result> = init | ok | E<err>
      <keys>   = sorted hex keys joined by `,` (`0` = none) | E<err>
      <obs>    = <contains>/<is_dir>/<bytes>/<metadata>/<listdir>
                 booleans T|F, bytes hex, metadata = key.name.isdir.size.md5.user (`~` = absent),
                 listdir = N (None) | 0 (empty) | sorted hex names joined by `,`; any of them may be E<err>
      <err>    = nf (KeyNotFound) | ns (KeyNotSupported) | rt (KeyRouteNotFound) | ro (ReadOnly) | ot (other)

  store.ro <base> <universe> <setup op>* / <op>*
      the setup operations go to the base store directly, the others through `readOnlyOps base`;
      answer = <state>* (one after every non-setup operation), <state> = <result>;<view keys>;<view obs>*;U;<base keys>;<base obs>*

  store.path <root> <key>
      answer = <path_for_key> <metadata_path_for_key> <keyOK> <metaKeyOK> <within path> <within metadata path>
               paths: ok:<hex of the `/`-joined path> | E<err>
  store.fileop <root> <key> <opname>     opname = get_bytes | get_metadata | store | store_metadata | remove | removedir | removedir_r
                                                  | makedir | contains | is_dir | listdir
      answer = ok | E<err>      (on a store that already holds `a/b.txt` and the directory `a/c`)
-/
import LiquerModel.Proto
import LiquerModel.StoreCore
import LiquerModel.StoreMem
import LiquerModel.StoreFile
import LiquerModel.StoreProxy

namespace Liquer.Handlers
open Liquer Liquer.Proto

namespace StoreH

def keyOfChars (s : List Char) : Key := keyOfString s
def keyOfHex (h : String) : Key := keyOfChars ((decChars h).getD [])
def keyToHex (k : Key) : String := encChars (joinStr ['/'] k)
def dataOfHex (h : String) : Data := (hexToBytes h).toList
def dataToHex (d : Data) : String := bytesToHex d.toByteArray

def errS : StoreErr → String
  | .keyNotFound => "Enf" | .keyNotSupported => "Ens" | .routeNotFound => "Ert" | .readOnly => "Ero" | .other => "Eot"

def boolS (b : Bool) : String := if b then "T" else "F"
def exS {α} (f : α → String) : Except StoreErr α → String
  | .ok a => f a
  | .error e => errS e

def sortedJoin (xs : List String) : String :=
  if xs.isEmpty then "0" else String.intercalate "," (xs.mergeSort (fun a b => decide (a ≤ b)))

def optS {α} (f : α → String) : Option α → String
  | some a => f a
  | none => "~"

def metaS (m : MetaObs) : String :=
  String.intercalate "." [keyToHex m.key, encChars m.name, boolS m.isDir, optS toString m.size, optS dataToHex m.md5, encChars m.user]

def listdirS : Option (List Str) → String
  | none => "N"
  | some l => sortedJoin (l.map encChars)

def obsS {σ} (S : StoreOps σ) (s : σ) (k : Key) : String :=
  let o := S.obs s k
  String.intercalate "/" [exS boolS o.contains, exS boolS o.isDir, exS dataToHex o.bytes, exS metaS o.metadata, exS listdirS o.listdir]

def keysS {σ} (S : StoreOps σ) (s : σ) : String := exS (fun ks => sortedJoin (ks.map keyToHex)) (S.keys s)

def stateS {σ} (S : StoreOps σ) (s : σ) (uni : List Key) : String :=
  String.intercalate ";" (keysS S s :: uni.map (obsS S s))

def optNat (t : String) : Option Nat := if t == "~" then none else t.toNat?
def optData (t : String) : Option Data := if t == "~" then none else some (dataOfHex t)

def parseOp (t : String) : Option StoreOp :=
  match t.splitOn ":" with
  | ["S", k, d, u] => some (.store (keyOfHex k) (dataOfHex d) { user := (decChars u).getD [] })
  | ["M", k, u, sz, md] => some (.storeMeta (keyOfHex k) { user := (decChars u).getD [], size := optNat sz, md5 := optData md })
  | ["R", k] => some (.remove (keyOfHex k))
  | ["D", k, r] => some (.removedir (keyOfHex k) (r == "1"))
  | ["K", k] => some (.makedir (keyOfHex k))
  | _ => none

def parseOps (ts : List String) : Option (List StoreOp) := ts.mapM parseOp

def parseUni (u : String) : List Key := (u.splitOn ",").map keyOfHex

/-- observations after every operation -/
def runObs {σ} (S : StoreOps σ) (uni : List Key) : σ → List StoreOp → List String
  | _, [] => []
  | s, op :: rest =>
    let r := S.apply s op
    let s' := S.step s op
    ((match r with | .ok _ => "ok" | .error e => errS e) ++ ";" ++ stateS S s' uni) :: runObs S uni s' rest

def runAll {σ} (S : StoreOps σ) (init : σ) (uni : List Key) (ops : List StoreOp) : String :=
  String.intercalate " " (("init;" ++ stateS S init uni) :: runObs S uni init ops)

def applyWrappers {σ} (S : StoreOps σ) : List String → Option (StoreOps σ)
  | [] => some S
  | "ro" :: ws => (applyWrappers S ws).map readOnlyOps
  | "proxy" :: ws => (applyWrappers S ws).map proxyOps
  | _ => none

def driverRoot : Path := [['s', 'r', 'v'], ['r', 'o', 'o', 't']]

def withStack (stack : String) (f : {σ : Type} → StoreOps σ → σ → String) : Option String :=
  let parts := stack.splitOn "."
  let ws := parts.dropLast
  match parts.getLast? with
  | some "spec" => (applyWrappers specOps ws).map (fun S => f S [])
  | some "mem" => (applyWrappers memOps ws).map (fun S => f S memInit)
  | some "file" => (applyWrappers (fileOps driverRoot) ws).map (fun S => f S (fileInit driverRoot))
  | _ => none

def roObs {σ} (S : StoreOps σ) (uni : List Key) : σ → List StoreOp → List String
  | _, [] => []
  | s, op :: rest =>
    let V := readOnlyOps S
    let r := V.apply s op
    let s' := V.step s op
    ((match r with | .ok _ => "ok" | .error e => errS e) ++ ";" ++ stateS V s' uni ++ ";U;" ++ stateS S s' uni) :: roObs S uni s' rest

def pathS (p : Except StoreErr Path) : String := exS (fun p => "ok:" ++ encChars (joinStr ['/'] p)) p

def sampleFS (root : Path) : PFS :=
  let ops := fileOps root
  ops.run (fileInit root) [.store [['a'], "b.txt".toList] [1, 2] { user := ['u'] }, .makedir [['a'], ['c']]]

def fileop (root : Path) (k : Key) (op : String) : Option String :=
  let S := fileOps root
  let fs := sampleFS root
  let r {α} (x : Except StoreErr α) : Option String := some (match x with | .ok _ => "ok" | .error e => errS e)
  match op with
  | "get_bytes" => r (S.getBytes fs k)
  | "get_metadata" => r (S.getMeta fs k)
  | "store" => r (S.store fs k [7] { user := ['w'] })
  | "store_metadata" => r (S.storeMeta fs k { user := ['w'] })
  | "remove" => r (S.remove fs k)
  | "removedir" => r (S.removedir fs k false)
  | "removedir_r" => r (S.removedir fs k true)
  | "makedir" => r (S.makedir fs k)
  | "contains" => r (S.contains fs k)
  | "is_dir" => r (S.isDir fs k)
  | "listdir" => r (S.listdir fs k)
  | _ => none

end StoreH

open StoreH in
def store (cmd : String) (args : List String) : Option String :=
  match cmd, args with
  | "store.run", stack :: uni :: ops =>
    match parseOps ops with
    | none => some "BADINPUT"
    | some h =>
      (withStack stack (fun S init => runAll S init (parseUni uni) h)).map
        (fun r => "wf=" ++ boolS (wfHist [] h) ++ " " ++ r)
  | "store.ro", base :: uni :: ops =>
    let setup := ops.takeWhile (· != "/")
    let rest := (ops.dropWhile (· != "/")).drop 1
    match parseOps setup, parseOps rest with
    | some hs, some hr =>
      withStack base (fun S init => String.intercalate " " (roObs S (parseUni uni) (S.run init hs) hr))
    | _, _ => some "BADINPUT"
  | "store.path", [root, key] =>
    let r := keyOfHex root
    let kc := (decChars key).getD []
    let k := keyOfChars kc
    some (String.intercalate " " [pathS (File.path r k), pathS (File.metaPath r k), boolS (keyOK kc), boolS (metaKeyOK kc),
      boolS (within r (pathOf r kc)), boolS (within r (metaPathOf r kc))])
  | "store.fileop", [root, key, op] => fileop (keyOfHex root) (keyOfHex key) op
  | _, _ => none

end Liquer.Handlers
