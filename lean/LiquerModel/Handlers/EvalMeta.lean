import LiquerModel.EvalMeta
import LiquerModel.Handlers.Eval

/-
Protocol: `eval.meta <defaults> <op>` — one evaluation, no cache (same `defaults` / `op` syntax as `eval.ref` in Handlers/Eval.lean):
  op := `E:<hex text>` | `V:<hex text>:<canon>:<0|1>` | `XL:<hex text>:<canon>;…` | `XD:<hex text>:<hexk>=<canon>;…`
Answer: `<outcome> # <metadata>` where `<outcome>` is rendered exactly like `eval.ref` renders it and `<metadata>` is
  `M query=<hex> status=<hex|~> err=<0|1> tid=<hex> dk=<hex> cmd=<hex,…> name=<hex|~> ns=<hex|~> ver=<0|1> parent=<hex|~>
     argq=<hex,…> subq=<hex,…> fn=<hex|~> ext=<hex|~> mime=<hex|~> attrs=<hexk>=<hexv>;…`
  (`~` when the evaluation raises). `PARSEERR # ~` for a text that does not parse; `UNMODELLED` outside the model.
-/
namespace Liquer.Handlers
open Liquer Liquer.Proto

def renderMeta (m : MetaRec) : String :=
  "M query=" ++ hexS m.query ++
  " status=" ++ optHex m.status ++
  " err=" ++ b01 m.isError ++
  " tid=" ++ hexS m.typeId ++
  " dk=" ++ hexS m.dataKind ++
  " cmd=" ++ String.intercalate "," (m.lastCommand.map hexS) ++
  " name=" ++ optHex m.lastName ++
  " ns=" ++ optHex m.lastNs ++
  " ver=" ++ b01 m.lastVersionKnown ++
  " parent=" ++ optHex m.parentQuery ++
  " argq=" ++ String.intercalate "," (m.argumentQueries.map hexS) ++
  " subq=" ++ String.intercalate "," (m.directSubqueries.map hexS) ++
  " fn=" ++ optHex m.filename ++ " ext=" ++ optHex m.extension ++ " mime=" ++ optHex m.mimetype ++
  " attrs=" ++ String.intercalate ";" (sortStrings (m.attrs.map (fun kv => hexS kv.1 ++ "=" ++ hexS kv.2)))

def evalMetaH (cmd : String) (args : List String) : Option String :=
  match cmd, args with
  | "eval.meta", [dflt, op] => some <|
    let run (sentinel : Char) : String :=
      let env : Env := { reg := Gen.registry, defaults := kvOf dflt, dec := decWith sentinel }
      let fin (r : Outcome × MetaRec) : String :=
        match r.1 with
        | .unmodelled => "UNMODELLED"
        | .st _ => renderOutcome r.1 ++ " # " ++ renderMeta r.2
        | o => renderOutcome o ++ " # ~"
      match op.splitOn ":" with
      | ["E", h] =>
        let t := hexToChars h.toList
        (match parse env.dec t with
         | some q => fin (metaQ env (evalFuel t) q t .none none)
         | none => "PARSEERR # ~")
      | ["V", h, v, _] =>
        let t := hexToChars h.toList
        (match parse env.dec t, valOf v with
         | some q, some v => fin (metaQ env (evalFuel t) q t .none (match v with | .none => none | v => some v))
         | none, _ => "PARSEERR # ~"
         | _, none => "BADINPUT")
      | ["XL", h, vs] =>
        let t := hexToChars h.toList
        (match parse env.dec t with
         | some q => fin (metaQ env (evalFuel t) q t (.list ((splitNonEmpty vs ";").filterMap valOf)) none)
         | none => "PARSEERR # ~")
      | ["XD", h, kv] =>
        let t := hexToChars h.toList
        (match parse env.dec t with
         | some q => fin (metaQ env (evalFuel t) q t (.dict (kvOf kv)) none)
         | none => "PARSEERR # ~")
      | _ => "BADOP"
    let a := run (Char.ofNat 0xFFFD)
    let b := run (Char.ofNat 0xFFFC)
    if a == b then a else "UNMODELLED"
  | _, _ => none

end Liquer.Handlers
