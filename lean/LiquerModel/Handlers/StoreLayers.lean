import LiquerModel.Proto
import LiquerModel.StoreCore
import LiquerModel.StoreMem
import LiquerModel.StoreOverlay
import LiquerModel.StoreMount

/-!
Line protocol of the layered stores (C15 overlay, C14 mount points).

  ov <U> <L> <init-ops of the fall-back> <history> <universe>
  mt <P> <default: N | ops> <table: - | prefix=ops;prefix=ops…> <history> <universe>
  mt.root <prefix> <key>
  mt.rootchain <prefix>,<prefix>,… <key>      (to_root_key through nested mount-point stores, innermost prefix first)

`<U>`, `<L>`, `<P>`: `M` = `memOps`, `S` = `specOps` (also the model of a `FileStore` part).
keys: hex of `a/b` (`-` = root); op lists: `-` or ops joined by `,`:
  `s:K:D:U:Z:H` store, `m:K:U:Z:H` store_metadata, `r:K` remove, `d:K:0|1` removedir, `k:K` makedir
  (`Z` size: `n` or decimal, `H` md5: `n` or `h<hex of the data it is the md5 of>`).
Answer: states joined by `;` (initial state first, then after every operation); a state is
`r=<ok|E..> <obs of every universe key> K<keys> P<dump of the parts>`, all listings sorted; the error class of
`get_bytes` is not reported (a `FileStore` raises `IsADirectoryError` on directories).
-/
namespace Liquer.Handlers.SL
open Liquer Liquer.Proto

def decKey (h : String) : Key :=
  match decStr h with
  | none => []
  | some s => if s.isEmpty then [] else (s.splitOn "/").map String.toList

def encKey (k : Key) : String := encChars (joinStr ['/'] k)

def decData (h : String) : Data := (hexToBytes h).toList
def encData (d : Data) : String := bytesToHex d.toByteArray

def decMeta (u z h : String) : UMeta :=
  { user := (decChars u).getD [],
    size := if z == "n" then none else z.toNat?,
    md5 := if h == "n" then none else some (decData (h.drop 1).toString) }

def decOp (t : String) : Option StoreOp :=
  match t.splitOn ":" with
  | ["s", k, d, u, z, h] => some (.store (decKey k) (decData d) (decMeta u z h))
  | ["m", k, u, z, h] => some (.storeMeta (decKey k) (decMeta u z h))
  | ["r", k] => some (.remove (decKey k))
  | ["d", k, r] => some (.removedir (decKey k) (r == "1"))
  | ["k", k] => some (.makedir (decKey k))
  | _ => none

def decOps (f : String) : List StoreOp :=
  if f == "-" then [] else (f.splitOn ",").filterMap decOp

def decKeys (f : String) : List Key :=
  if f == "." then [] else (f.splitOn ",").map decKey

def sortS (l : List String) : List String := l.mergeSort (fun a b => decide (a ≤ b))

def encErr : StoreErr → String
  | .keyNotFound => "Enf" | .keyNotSupported => "Ens" | .routeNotFound => "Ern" | .readOnly => "Ero" | .other => "Eot"

def showE {α : Type} (f : α → String) : Except StoreErr α → String
  | .ok a => f a
  | .error e => encErr e

def encBool (b : Bool) : String := if b then "T" else "F"
def encOptNat : Option Nat → String | none => "n" | some n => toString n
def encMeta (m : MetaObs) : String :=
  "M" ++ encKey m.key ++ "," ++ encChars m.name ++ "," ++ encBool m.isDir ++ "," ++ encOptNat m.size ++ "," ++
    (match m.md5 with | none => "n" | some d => "h" ++ encData d) ++ "," ++ encChars m.user
def encListing : Option (List Str) → String
  | none => "N"
  | some l => "L" ++ String.intercalate "," (sortS (l.map encChars))

def encObs {σ : Type} (S : StoreOps σ) (s : σ) (k : Key) : String :=
  "O" ++ encKey k ++ "|" ++ showE encBool (S.contains s k) ++ "|" ++ showE encBool (S.isDir s k) ++ "|" ++
    (match S.getBytes s k with | .ok d => "B" ++ encData d | .error _ => "E") ++ "|" ++ showE encMeta (S.getMeta s k) ++ "|" ++
    showE encListing (S.listdir s k)

def encKeys {σ : Type} (S : StoreOps σ) (s : σ) : String :=
  "K" ++ showE (fun ks => String.intercalate "," (sortS (ks.map encKey))) (S.keys s)

/-- full content of a part through its own interface: every listed key with directory flag or bytes + metadata -/
def dump {σ : Type} (S : StoreOps σ) (s : σ) : String :=
  match S.keys s with
  | .error e => encErr e
  | .ok ks => String.intercalate "," (sortS (ks.map fun k =>
      encKey k ++ "=" ++ (match S.isDir s k with
        | .ok true => "D"
        | _ => (match S.getBytes s k with | .ok d => "B" ++ encData d | .error _ => "E") ++ "/" ++ showE encMeta (S.getMeta s k))))

def encRes {σ : Type} : Except StoreErr σ → String
  | .ok _ => "r=ok"
  | .error e => "r=" ++ encErr e

/-! ### overlay -/

def ovState {σu σl : Type} (U : StoreOps σu) (L : StoreOps σl) (univ : List Key) (res : String) (s : OvState σu σl) : String :=
  let O := overlayOps U L
  String.intercalate " " ([res] ++ univ.map (encObs O s) ++ [encKeys O s, "P" ++ dump L s.2.1])

def ovRun {σu σl : Type} (U : StoreOps σu) (u0 : σu) (L : StoreOps σl) (l0 : σl) (init hist : List StoreOp) (univ : List Key) : String :=
  let s0 : OvState σu σl := (u0, L.run l0 init, [])
  let O := overlayOps U L
  let (_, outs) := hist.foldl (fun (acc : OvState σu σl × List String) op =>
      let r := O.apply acc.1 op
      let s' := O.step acc.1 op
      (s', ovState U L univ (encRes r) s' :: acc.2)) (s0, [ovState U L univ "r=ok" s0])
  String.intercalate ";" outs.reverse

/-! ### mount points -/

def mtState {σ : Type} (P : StoreOps σ) (univ : List Key) (res : String) (s : MtState σ) : String :=
  let M := mountOps P (fun _ _ => true)
  String.intercalate " " ([res] ++ univ.map (encObs M s) ++ [encKeys M s, "P" ++
    String.intercalate "|" ((match s.1 with | none => "N" | some d => dump P d) :: s.2.map (fun e => dump P e.2))])

def mtRes {σ : Type} (P : StoreOps σ) (s : MtState σ) (op : StoreOp) : String :=
  match op with
  | .removedir k r => (match (Mt.removedirFull P (fun _ _ => true) s k r).2 with | none => "r=ok" | some e => "r=" ++ encErr e)
  | op => encRes ((mountOps P (fun _ _ => true)).apply s op)

def decTable {σ : Type} (P : StoreOps σ) (s0 : σ) (f : String) : List (Key × σ) :=
  if f == "-" then [] else (f.splitOn ";").filterMap fun e =>
    match e.splitOn "=" with
    | [p, ops] => some (decKey p, P.run s0 (decOps ops))
    | _ => none

def mtRun {σ : Type} (P : StoreOps σ) (s0 : σ) (dflt table : String) (hist : List StoreOp) (univ : List Key) : String :=
  let st0 : MtState σ := ((if dflt == "N" then none else some (P.run s0 (decOps dflt))), decTable P s0 table)
  let (_, outs) := hist.foldl (fun (acc : MtState σ × List String) op =>
      let s' := Mt.stepX P (fun _ _ => true) acc.1 op
      (s', mtState P univ (mtRes P acc.1 op) s' :: acc.2)) (st0, [mtState P univ "r=ok" st0])
  String.intercalate ";" outs.reverse

end Liquer.Handlers.SL

namespace Liquer.Handlers
open Liquer Liquer.Handlers.SL

def storeLayers (cmd : String) (args : List String) : Option String :=
  match cmd, args with
  | "ov", [u, l, init, hist, univ] =>
    let i := decOps init; let h := decOps hist; let un := decKeys univ
    some <| match u, l with
      | "M", "M" => ovRun memOps memInit memOps memInit i h un
      | "M", "S" => ovRun memOps memInit specOps [] i h un
      | "S", "M" => ovRun specOps [] memOps memInit i h un
      | "S", "S" => ovRun specOps [] specOps [] i h un
      | _, _ => "BADINPUT"
  | "mt", [p, dflt, table, hist, univ] =>
    some <| match p with
      | "M" => mtRun memOps memInit dflt table (decOps hist) (decKeys univ)
      | "S" => mtRun specOps [] dflt table (decOps hist) (decKeys univ)
      | _ => "BADINPUT"
  | "mt.root", [p, k] => some (encKey (Pfx.inverse (decKey p) (decKey k)))
  -- `mt.rootchain <prefix>,<prefix>,… <key>`: prefixes from the innermost layer outwards
  | "mt.rootchain", [ps, k] => some (encKey (Mt.toRootKeyChain ((ps.splitOn ",").map decKey) (decKey k)))
  | _, _ => none

end Liquer.Handlers
