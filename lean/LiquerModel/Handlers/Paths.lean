import LiquerModel.Wire
import LiquerModel.Paths
import LiquerModel.Gen.EscapeTable

namespace Liquer.Handlers
open Liquer Liquer.Proto

/-- a list of names: comma separated hex fields, `-` for the empty list -/
def decNames (h : String) : List Str :=
  if h == "-" then [] else (h.splitOn ",").map (fun t => (decChars t).getD [])

def encNames (ns : List Str) : String :=
  if ns.isEmpty then "-" else String.intercalate "," (ns.map encChars)

def paths (cmd : String) (args : List String) : Option String :=
  match cmd, args with
  | "path.abs", [d, p] => some <| match toAbs (decNames d) (decNames p) with
      | some r => "ok " ++ encNames r
      | none => "reject"
  | "path.norm", [p] => some <| match posixNorm (decNames p) with
      | some r => "ok " ++ encNames r
      | none => "reject"
  | "path.qabs", d :: sel :: ast => some <| match Wire.de ast with
      | none => "BADINPUT"
      | some q =>
        let s : Option Str := if sel == "ALL" then none else some ((decChars sel).getD [])
        match q.toAbsolute (decNames d) s with
        | some r => "ok " ++ Wire.ser r
        | none => "reject"
  | "ast.encode", ast => some <| match Wire.de ast with
      | none => "BADINPUT"
      | some q => encChars (q.encode Gen.escapeTable)
  | _, _ => none

end Liquer.Handlers
