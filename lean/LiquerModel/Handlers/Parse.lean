import LiquerModel.Parse
import LiquerModel.WF
import LiquerModel.Wire
import LiquerModel.Handlers.Token

namespace Liquer.Handlers
open Liquer Liquer.Proto

def parseAns (d : List UInt8 → List Char) (t : List Char) : String :=
  match parse d t with
  | some q => "ok " ++ Wire.ser q
  | none => "reject"

def parseH (cmd : String) (args : List String) : Option String :=
  match cmd, args with
  | "parse", [h] => some <| match decChars h with
      | none => "BADINPUT"
      | some t =>
        let a := parseAns (decWith (Char.ofNat 0xFFFD)) t
        let b := parseAns (decWith (Char.ofNat 0xFFFC)) t
        if a == b then a else "UNMODELLED"
  | "parse.canon", [h] => some <| match decChars h with
      -- canonical text of an accepted string, and the result of re-parsing it
      | none => "BADINPUT"
      | some t =>
        match parse (decWith (Char.ofNat 0xFFFD)) t with
        | none => "reject"
        | some q =>
          let e := q.encode Gen.escapeTable
          match parse (decWith (Char.ofNat 0xFFFD)) e with
          | none => "canon-rejected " ++ encChars e
          | some q2 => if Wire.ser q2.erase == Wire.ser q.erase && q2.encode Gen.escapeTable == e then "fix " ++ encChars e
                       else "canon-differs " ++ encChars e
  | "parse.wf", [h] => some <| match decChars h with
      | none => "BADINPUT"
      | some t =>
        match parse (decWith (Char.ofNat 0xFFFD)) t with
        | none => "reject"
        | some q => if wfTop Gen.escapeTable q then "wf" else "notwf"
  | "shape.ok", [] => some (toString Gen.grammarShapeOK)
  | _, _ => none

end Liquer.Handlers
