import LiquerModel.Conc
import LiquerModel.Handlers.Eval

/-
`conc.run <keep:0|1> <defaults> <schedule: i,i,i… | -> <hex query text>…`
Answer: per thread `outcome # calls # trace`, then the final data-bearing cache content; parts separated by ` | `.
Trace entries: `G:<hexkey>`, `M:<hexkey>:<r|e|o>` (ready / error / other status), `S:<hexkey>`, `R:<hexkey>`.
-/
namespace Liquer.Handlers
open Liquer Liquer.Proto

def renderCOp : COp → String
  | .get k => "G:" ++ hexS k
  | .storeMeta k st => "M:" ++ hexS k ++ ":" ++ (if st == statusReady then "r" else if st == s "error" then "e" else "o")
  | .store st => "S:" ++ hexS st.query
  | .remove k => "R:" ++ hexS k
  | .metas l => "M:" ++ String.intercalate "+" (sortStrings (l.map (fun e => hexS e.1 ++ ":" ++ (if e.2 == statusReady then "r" else if e.2 == s "error" then "e" else "o"))))

def concH (cmd : String) (args : List String) : Option String :=
  match cmd, args with
  | "conc.run", keep :: dflt :: sched :: qs => some <|
    let run (sentinel : Char) : String :=
      let env : Env := { reg := Gen.registry, defaults := kvOf dflt, dec := decWith sentinel }
      let threads : List (Option Thread) := qs.map (fun h =>
        let t := hexToChars h.toList
        (parse env.dec t).map (fun q => ({ q := q, raw := t } : Thread)))
      if threads.any Option.isNone then "PARSEERR" else
      let threads := threads.filterMap id
      let c0 : Config := { shared := { metaKeepsData := keep == "1" }, threads := threads }
      let schedule : List Nat := if sched == "-" then [] else (sched.splitOn ",").filterMap String.toNat?
      let c1 := runSchedule env c0 schedule
      let c2 := finishAll env 100000 c1
      let perThread := c2.threads.map (fun t =>
        let (ow, _) := t.run env
        (match t.result with | some o => renderOutcome o | none => "UNFINISHED") ++ " # " ++
          String.intercalate "," (t.calls.map String.ofList) ++ " # " ++
          String.intercalate "," ((canonTrace ow.trace).map renderCOp))
      String.intercalate " | " (perThread ++ [renderCache c2.shared])
    let a := run (Char.ofNat 0xFFFD)
    let b := run (Char.ofNat 0xFFFC)
    if a == b then a else "UNMODELLED"
  | _, _ => none

end Liquer.Handlers
