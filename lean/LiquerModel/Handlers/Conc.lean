import LiquerModel.Conc
import LiquerModel.Handlers.Eval

/-
`conc.run <keep:0|1> <defaults> <schedule: i,i,i… | -> <hex query text>…`
Answer: per thread `outcome # calls # trace`, then the final data-bearing cache content; parts separated by ` | `.
Trace entries (pre-emption points): `G:<hexkey>`, `S:<hexkey>`, `R:<hexkey>`.
-/
namespace Liquer.Handlers
open Liquer Liquer.Proto

/-- the trace shows the pre-emption points only -/
def renderPoint : COp → Option String
  | .get k => some ("G:" ++ hexS k)
  | .store st => some ("S:" ++ hexS st.query)
  | .remove k => some ("R:" ++ hexS k)
  | .storeMeta _ _ => none

def concH (cmd : String) (args : List String) : Option String :=
  match cmd, args with
  | "conc.run", keep :: dflt :: sched :: qs => some <|
    let run (sentinel : Char) : String :=
      let env : Env := { reg := Gen.registry, defaults := kvOf dflt, dec := decWith sentinel }
      -- a text that does not parse: `evaluate` raises before any cache operation
      let threads : List Thread := qs.map (fun h =>
        let t := hexToChars h.toList
        match parse env.dec t with
        | some q => ({ q := q, raw := t } : Thread)
        | none => ({ q := .mk [] false, raw := t, result := some .parseError } : Thread))
      let c0 : Config := startAll env { shared := { metaKeepsData := keep == "1" }, threads := threads }
      let schedule : List Nat := if sched == "-" then [] else (sched.splitOn ",").filterMap String.toNat?
      let c1 := runSchedule env c0 schedule
      let c2 := finishAll env 100000 c1
      let perThread := c2.threads.map (fun t =>
        let (ow, _) := t.run env
        (match t.result with | some o => renderOutcome o | none => "UNFINISHED") ++ " # " ++
          String.intercalate "," (t.calls.map String.ofList) ++ " # " ++
          String.intercalate "," ((ow.trace.take t.done).filterMap renderPoint))
      String.intercalate " | " (perThread ++ [renderCache c2.shared])
    let a := run (Char.ofNat 0xFFFD)
    let b := run (Char.ofNat 0xFFFC)
    if a == b then a else "UNMODELLED"
  | _, _ => none

end Liquer.Handlers
