import LiquerModel.Conc
import LiquerModel.Handlers.Eval

/-
`conc.replay <keep:0|1> <defaults> <events: e,e,… | -> <hex query text>…`
  event := `<i>` (thread i performs its next own cache operation: get / store / remove, or finishes)
         | `m.<hexkey>.<hexstatus>` (somebody writes metadata: an environment step)
  The harness sends the global sequence of cache operations the implementation performed under its scheduler.
Answer: per thread `outcome # calls # own operations`, then the final data-bearing cache content; parts separated by ` | `.
Own operations: `G:<hexkey>`, `S:<hexkey>`, `R:<hexkey>`.
-/
namespace Liquer.Handlers
open Liquer Liquer.Proto

/-- the trace shows the thread's own operations only -/
def renderPoint : COp → Option String
  | .get k => some ("G:" ++ hexS k)
  | .store st => some ("S:" ++ hexS st.query)
  | .remove k => some ("R:" ++ hexS k)
  | .storeMeta _ _ => none

def evOf (s : String) : Option Ev :=
  match s.splitOn "." with
  | ["m", k, st] => some (.meta_ (hexToChars k.toList) (hexToChars st.toList))
  | [i] => i.toNat?.map Ev.thread
  | _ => none

def concH (cmd : String) (args : List String) : Option String :=
  match cmd, args with
  | "conc.replay", keep :: dflt :: evs :: qs => some <|
    let run (sentinel : Char) : String :=
      let env : Env := { reg := Gen.registry, defaults := kvOf dflt, dec := decWith sentinel }
      -- a text that does not parse: `evaluate` raises before any cache operation
      let threads : List Thread := qs.map (fun h =>
        let t := hexToChars h.toList
        match parse env.dec t with
        | some q => ({ q := q, raw := t } : Thread)
        | none => ({ q := .mk [] false, raw := t, result := some .parseError } : Thread))
      let c0 : Config := { shared := { metaKeepsData := keep == "1" }, threads := threads }
      let events : List Ev := if evs == "-" then [] else (evs.splitOn ",").filterMap evOf
      let c1 := runEvents env c0 events
      let c2 := finishAll env 100000 c1
      let perThread := c2.threads.map (fun t =>
        let (ow, _) := t.run env
        (match t.result with | some o => renderOutcome o | none => "UNFINISHED") ++ " # " ++
          String.intercalate "," (t.calls.map String.ofList) ++ " # " ++
          String.intercalate "," (((ownOps ow.trace).take t.done).filterMap renderPoint))
      String.intercalate " | " (perThread ++ [renderCache c2.shared])
    let a := run (Char.ofNat 0xFFFD)
    let b := run (Char.ofNat 0xFFFC)
    if a == b then a else "UNMODELLED"
  | _, _ => none

end Liquer.Handlers
