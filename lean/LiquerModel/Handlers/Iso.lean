import LiquerModel.Iso
import LiquerModel.Parse
import LiquerModel.Handlers.Eval

/-
Line protocol of the heap evaluator (C10).  One line = one history.

  iso.run <cacheOn:0|1> <live:0|1> <defaults> <universe> <op> <op> …
    defaults := `-` | `hexk=canon;hexk=canon`      list values become mutable objects
    universe := `-` | hexkey,hexkey,…              cache keys observed after every operation
    op       := `E:<hex query text>`                                     evaluate
              | `MD:<i>:<canon list>`                                    R[i].data[:] = list
              | `MI:<i>:<canon list>`                                    R[i].data[0][:] = list (a list nested in the data)
              | `MV:<i>:<hexname>:<canon list>`                          R[i].vars[name][:] = list
              | `SV:<i>:<hexname>:<canon>`                               R[i].metadata["vars"][name] = value
              | `SM:<i>:<hexstatus>:<err>:<vol>:<caching>:<hexquery>`    scribble on R[i].metadata
              | `SX:<i>`                                                 scribble on the unmodelled parts of R[i].metadata (no-op here)
  Answer, per op (joined by ` | `):  `<result> # <calls> # <R> # <C> # <D> # <SH>`
    result := `ST <abs>` | `FAIL` | `OK` | `BADOP`;   abs := `d=<canon> q=<hex> s=<hex> e=<b> v=<b> c=<b> vars=<hexk=canon;…>`
    R := returned states so far `i:<abs>` | `i:-`, joined by `&`;  C := `<hexkey>:<abs>` | `<hexkey>:-` joined by `&`
    D := defaults `hexk=canon;…`;  SH := pairs of distinct roots (`R<i>`, `C<hexkey>` if live, `D`) that share a cell
  `UNMODELLED` when a query is outside the chain fragment (headers, file names, relative links, resource segments).
-/
namespace Liquer.Handlers
open Liquer Liquer.Proto Liquer.Iso

mutual
  def chainOfQuery : Nat → Query → Option (List Act)
    | 0, _ => none
    | n + 1, .mk [.transform none actions none] _ => chainOfActions n actions
    | _, _ => none
  def chainOfActions : Nat → List Action → Option (List Act)
    | 0, _ => none
    | _ + 1, [] => some []
    | n + 1, .mk name params _ :: rest =>
      match argsOfParams n params, chainOfActions n rest with
      | some args, some more => some (.mk name args :: more)
      | _, _ => none
  def argsOfParams : Nat → List Param → Option (List Arg)
    | 0, _ => none
    | _ + 1, [] => some []
    | n + 1, .str t _ :: rest => (argsOfParams n rest).map (fun r => .text t :: r)
    | n + 1, .link (.mk segs true) _ :: rest =>
      (match chainOfQuery n (.mk segs true), argsOfParams n rest with
       | some q, some r => some (.link q :: r)
       | _, _ => none)
    | _, _ => none                                   -- relative links are not in the fragment
end

def isoChain (dec : List UInt8 → Str) (text : Str) : Option (List Act) :=
  match parse dec text with
  | some q => if q.absolute then none else chainOfQuery (4 * text.length + 8) q
  | none => none

def renderVarsV (vs : List (Str × Val)) : String :=
  String.intercalate ";" (sortStrings (vs.map (fun kv => hexS kv.1 ++ "=" ++ String.ofList kv.2.canon)))

def renderAbs (a : AbsState) : String :=
  "d=" ++ String.ofList a.data.canon ++ " q=" ++ hexS a.query ++ " s=" ++ hexS a.status ++ " e=" ++ b01 a.isError ++
  " v=" ++ b01 a.volatile ++ " c=" ++ b01 a.caching ++ " vars=" ++ renderVarsV a.vars

def isoDefaults (h : Heap) : List (Str × Val) → Heap × List (Str × HV)
  | [] => (h, [])
  | (k, .list l) :: rest =>
    let (h1, a) := h.alloc (.val (.list l))
    let (h2, more) := isoDefaults h1 rest
    (h2, (k, .ref a) :: more)
  | (k, v) :: rest => let (h2, more) := isoDefaults h rest; (h2, (k, .imm v) :: more)

def listOf (s : String) : Option (List Val) := match valOf s with | some (.list l) => some l | _ => none
def boolOf (s : String) : Bool := s == "1"
def charsOf (h : String) : Str := hexToChars h.toList

def isoOp (dec : List UInt8 → Str) (op : String) : Option (Option Op) :=
  match op.splitOn ":" with
  | ["E", h] => some ((isoChain dec (charsOf h)).map Op.eval)
  | ["MD", i, l] => (match i.toNat?, listOf l with | some i, some l => some (some (.mutData i l)) | _, _ => none)
  | ["MI", i, l] => (match i.toNat?, listOf l with | some i, some l => some (some (.mutInner i l)) | _, _ => none)
  | ["MV", i, n, l] => (match i.toNat?, listOf l with | some i, some l => some (some (.mutVar i (charsOf n) l)) | _, _ => none)
  | ["SV", i, n, v] => (match i.toNat?, valOf v with | some i, some v => some (some (.setVar i (charsOf n) v)) | _, _ => none)
  | ["SM", i, st, e, v, c, q] =>
    (match i.toNat? with | some i => some (some (.setMeta i (charsOf st) (boolOf e) (boolOf v) (boolOf c) (charsOf q))) | none => none)
  | ["SX", i] => (match i.toNat? with | some i => some (some (.scribble i)) | none => none)
  | _ => none

def peekCache (w : Iso.World) (k : Str) : Option AbsState :=
  match w.entry k with
  | none => none
  | some e => let m := w.heap.metaAt e.md; if m.status == Iso.statusReady then some (absState w.heap e) else none

def shares (a b : List Addr) : Bool := a.any (fun x => b.contains x)

def sharing (s : Hist) (live : Bool) : String :=
  let h := s.w.heap
  let roots : List (String × List Addr) :=
    (s.returned.zipIdx.filterMap (fun (r, i) => r.map (fun st => ("R" ++ toString i, cellsState h st)))) ++
    (if live then s.w.cache.map (fun e => ("C" ++ hexS e.1, cellsState h e.2)) else []) ++
    [("D", cellsVars s.w.defaults)]
  let pairs := roots.zipIdx.flatMap (fun (a, i) => (roots.drop (i + 1)).filterMap (fun b =>
    if shares a.2 b.2 then some (a.1 ++ "~" ++ b.1) else none))
  String.intercalate "," (sortStrings pairs)

def observe (s : Hist) (live : Bool) (univ : List Str) : String :=
  let h := s.w.heap
  let r := String.intercalate "&" (s.returned.zipIdx.map (fun (r, i) =>
    toString i ++ ":" ++ (match r with | some st => renderAbs (absState h st) | none => "-")))
  let c := String.intercalate "&" (univ.map (fun k =>
    hexS k ++ ":" ++ (match peekCache s.w k with | some a => renderAbs a | none => "-")))
  r ++ " # " ++ c ++ " # " ++ renderVarsV (absVars h s.w.defaults) ++ " # " ++ sharing s live

def isoH (cmd : String) (args : List String) : Option String :=
  match cmd, args with
  | "iso.run", cacheOn :: live :: dflt :: univ :: ops => some <|
    let run (sentinel : Char) : String :=
      let dec := decWith sentinel
      let (h0, d) := isoDefaults {} (kvOf dflt)
      let s0 : Hist := { w := { heap := h0, defaults := d, cacheOn := cacheOn == "1" } }
      let keyUniv : List Str := if univ == "-" then [] else (univ.splitOn ",").map charsOf
      let (_, outs, bad) := ops.foldl (fun (acc : Hist × List String × Bool) op =>
        let (s, outs, bad) := acc
        match isoOp dec op with
        | none => (s, outs ++ ["BADOP"], bad)
        | some none => (s, outs, true)
        | some (some o) =>
          let s' := step s o
          let res := match o with
            | .eval _ => (match s'.returned.getLast? with
                          | some (some st) => "ST " ++ renderAbs (absState s'.w.heap st)
                          | _ => "FAIL")
            | _ => "OK"
          let calls := match o with | .eval _ => String.intercalate "," (s'.w.calls.map String.ofList) | _ => ""
          (s', outs ++ [res ++ " # " ++ calls ++ " # " ++ observe s' (live == "1") keyUniv], bad)) (s0, [], false)
      if bad then "UNMODELLED" else String.intercalate " | " outs
    let a := run (Char.ofNat 0xFFFD)
    let b := run (Char.ofNat 0xFFFC)
    if a == b then a else "UNMODELLED"
  | _, _ => none

end Liquer.Handlers
