import LiquerModel.Proto
import LiquerModel.Web

namespace Liquer.Handlers
open Liquer Liquer.Proto Liquer.Web

def decGateOps (s : String) : Option (List GateOp) :=
  s.toList.foldr (fun c acc => match acc, c with
    | some l, 'e' => some (GateOp.enable :: l)
    | some l, 'd' => some (GateOp.disable :: l)
    | some l, 'r' => some (GateOp.register :: l)
    | _, _ => none) (some [])

/-- `web.gate <0|1> <history over e/d/r>` → one character per call: `-` toggle, `1` accepted, `0` refused -/
def web (cmd : String) (args : List String) : Option String :=
  match cmd, args with
  | "web.gate", [init, ops] => some <| match decGateOps (if ops == "-" then "" else ops) with
      | some h => String.ofList ((gateTrace (init == "1") h).map (fun o => match o with
          | none => '-'
          | some true => '1'
          | some false => '0'))
      | none => "BADINPUT"
  | _, _ => none

end Liquer.Handlers
