/-
Line protocol of the cache models (C13) and of the crash model (C16).

  cache.run <cfg> <ext> <op>*
      cfg  = no | mem | file | xor:<hex code> | fernet | sql | sqlstr | sqldup (no delete_before_insert)
           | scfm | scnm (StoreCache flat/nested on MemoryStore) | scff | scnf (on FileStore) | scfs | scns (on the reference store)
           | mem+file | no+mem | ifhas:<hex attr> | ifhasnot:<hex attr> | attreq:<hex attr>:<hex value> | proxy      (the last four wrap `mem`)
      ext  = type identifier → file extension: <hex tid>=<hex ext>;…
      op   = g:<key> | m:<key> | s:<state> | t:<meta> | r:<key> | c:<key> | k | x
      meta = <query>,<status>,<typeId>,<0|1>,<attrs>,<rest>        attrs = <name>=<value>;… | -
      state = <meta>,<data>         data = N | <hex token>
      answer = one token per op: S:none | S:<state> | M:none | M:<meta> | R:T | R:F | R:N | B:1 | B:0 | K:<sorted hex keys joined by ,> | U

  crash.c <ext> <metatable> <datatable> <dir> <op> <n> <cut> <key> <otherkey>
      flat cache directory.  metatable = <hex file bytes>=<meta with `.` for `,`>;… (what `decode` + `json.loads` yield), datatable =
      <hex file bytes>=<hex token>;…, dir = <name>=<hex bytes>;… with names S.<hexkey> | D.<hexkey>.<hexext> | T.<n>
      op = store:<state>:<hex data payload>:<hex meta payload> | storem:<meta>:<hex meta payload> | remove:<key>
      answer = steps=<kinds of the steps: m c a x r u> <listing name:length,…> <get class> <get_metadata class> <other key: same|changed>
      class = miss | old | new | other
  crash.t <metatable> <datatable> <tree> <op> <n> <cut> <key> <otherkey> <mode>
      directory store; names N.<hex key> | H.<hex key> (hidden folder) | M.<hex key> | T.<hex key>; content `/` = directory;
      op = store:<hex data>:<hex meta> | storem:<hex meta> | remove; mode = fs (FileStore reads: bytes class, metadata class) | sc (StoreCache.get class)
-/
import LiquerModel.Proto
import LiquerModel.CacheMem
import LiquerModel.CacheFile
import LiquerModel.CacheSql
import LiquerModel.CacheComb
import LiquerModel.CacheStoreBacked
import LiquerModel.CrashSteps
import LiquerModel.StoreMem
import LiquerModel.StoreFile

namespace Liquer.Handlers
open Liquer Liquer.Proto

namespace CacheH

def dch (h : String) : Str := (decChars h).getD []
def dataOfHex (h : String) : Data := (hexToBytes h).toList
def dataToHex (d : Data) : String := bytesToHex d.toByteArray
def strData (s : String) : Data := s.toUTF8.toList
def dataStr (d : Data) : Option String := String.fromUTF8? d.toByteArray

/-! wire format of metadata and states (`sep` = `,` on the line, `.` inside tables) -/

def attrsS (a : List (Str × Str)) : String :=
  if a.isEmpty then "-" else String.intercalate ";" (a.map (fun e => encChars e.1 ++ "=" ++ encChars e.2))

def parseAttrs (t : String) : List (Str × Str) :=
  if t == "-" then [] else (t.splitOn ";").filterMap (fun p => match p.splitOn "=" with
    | [a, b] => some (dch a, dch b)
    | _ => none)

def metaS (sep : String) (m : CMeta) : String :=
  String.intercalate sep [encChars m.query, encChars m.status, encChars m.typeId, if m.isError then "1" else "0", attrsS m.attrs, encChars m.rest]

def parseMetaFields : List String → Option CMeta
  | [q, s, t, e, a, r] => some { query := dch q, status := dch s, typeId := dch t, isError := e == "1", attrs := parseAttrs a, rest := dch r }
  | _ => none

def dataS : Option Str → String
  | none => "N"
  | some v => encChars v

def parseData (t : String) : Option Str := if t == "N" then none else some (dch t)

def stateS (s : CState) : String := metaS "," s.metadata ++ "," ++ dataS s.data

def parseState (t : String) : Option CState :=
  match t.splitOn "," with
  | [q, s, ty, e, a, r, d] => (parseMetaFields [q, s, ty, e, a, r]).map (fun m => { metadata := m, data := parseData d })
  | _ => none

def parseOp (t : String) : Option CacheOp :=
  match t.splitOn ":" with
  | ["g", k] => some (.get (dch k))
  | ["m", k] => some (.getMeta (dch k))
  | ["s", s] => (parseState s).map .store
  | ["t", m] => (parseMetaFields (m.splitOn ",")).map .storeMeta
  | ["r", k] => some (.remove (dch k))
  | ["c", k] => some (.contains (dch k))
  | ["k"] => some .keys
  | ["x"] => some .clean
  | _ => none

def sortedJoin (xs : List String) : String :=
  if xs.isEmpty then "-" else String.intercalate "," (xs.mergeSort (fun a b => decide (a ≤ b)))

def outS : CacheOut → String
  | .state none => "S:none"
  | .state (some s) => "S:" ++ stateS s
  | .metadata none => "M:none"
  | .metadata (some m) => "M:" ++ metaS "," m
  | .res .true => "R:T"
  | .res .false => "R:F"
  | .res .none => "R:N"
  | .bool b => if b then "B:1" else "B:0"
  | .keys ks => "K:" ++ sortedJoin (ks.map encChars)
  | .unit => "U"

/-! concrete stand-ins for the codec parameters (any injective rendering will do: only the outputs of the operations are compared) -/

def parseTable (t : String) : List (Str × Str) :=
  if t == "-" then [] else (t.splitOn ";").filterMap (fun p => match p.splitOn "=" with
    | [a, b] => some (dch a, dch b)
    | _ => none)

def extOf (tbl : List (Str × Str)) (t : Str) : Str := ((tbl.find? (fun e => e.1 == t)).map (·.2)).getD "bin".toList

def serM (m : CMeta) : Data := strData (metaS "," m)
def deM (d : Data) : Option CMeta := (dataStr d).bind (fun s => parseMetaFields (s.splitOn ","))
def encMS (m : CMeta) : Str := (metaS "," m).toList
def decMS (s : Str) : Option CMeta := parseMetaFields ((String.ofList s).splitOn ",")

/-- the payload names the extension class of the type that wrote it: types sharing an extension read each other's files -/
def serD (tbl : List (Str × Str)) (t : Str) (v : Option Str) : Data :=
  strData (encChars (extOf tbl t) ++ "," ++ dataS v)
def deD (tbl : List (Str × Str)) (t : Str) (d : Data) : Option (Option Str) :=
  (dataStr d).bind (fun s => match s.splitOn "," with
    | [e, v] => if dch e == extOf tbl t then some (parseData v) else none
    | _ => none)

def fernetEnc (b : Data) : Data := 0x80 :: b.reverse
def fernetDec : Data → Option Data
  | 0x80 :: r => some r.reverse
  | _ => none
def b64Enc (b : Data) : Data := b.map (· + 1)
def b64Dec (b : Data) : Option Data := some (b.map (· - 1))

def fileCfg (tbl : List (Str × Str)) (enc : Data → Data) (dec : Data → Option Data) : FileCfg :=
  { h := fun k => (encChars k).toList, ext := extOf tbl, enc := enc, dec := dec, serM := serM, deM := deM, serD := serD tbl, deD := deD tbl }

def sqlCfg (tbl : List (Str × Str)) (dbi : Bool) (str : Bool) : SqlCfg :=
  { deleteBeforeInsert := dbi, metaEnabled := true, enc := if str then b64Enc else id, dec := if str then b64Dec else some,
    serM := serM, deM := deM, serD := serD tbl, deD := deD tbl }

def storeCfg (tbl : List (Str × Str)) (flat : Bool) (path : Str := "cache".toList) : StoreCCfg :=
  { path := path, flat := flat, h := fun k => (encChars k).toList, encM := encMS, decM := decMS, serD := serD tbl, deD := deD tbl }

def driverRoot : Path := [['s', 'r', 'v'], ['r', 'o', 'o', 't']]

def runOut {σ} (C : CacheOps σ) (init : σ) (ops : List CacheOp) : String :=
  String.intercalate " " ((C.run init ops).2.map outS)

def runCfg (cfg : String) (tbl : List (Str × Str)) (ops : List CacheOp) : Option String :=
  match cfg.splitOn ":" with
  | ["no"] => some (runOut noCOps () ops)
  | ["mem"] => some (runOut memCOps [] ops)
  | ["file"] => some (runOut (fileCOps (fileCfg tbl id some)) [] ops)
  | ["xor", code] => some (runOut (fileCOps (fileCfg tbl (xorEnc (dataOfHex code)) (fun b => some (xorEnc (dataOfHex code) b)))) [] ops)
  | ["fernet"] => some (runOut (fileCOps (fileCfg tbl fernetEnc fernetDec)) [] ops)
  | ["sql"] => some (runOut (sqlCOps (sqlCfg tbl true false)) {} ops)
  | ["sqlstr"] => some (runOut (sqlCOps (sqlCfg tbl true true)) {} ops)
  | ["sqldup"] => some (runOut (sqlCOps (sqlCfg tbl false true)) {} ops)
  | ["scfm"] => some (runOut (storeCacheOps (storeCfg tbl true) memOps) (storeCacheNew (storeCfg tbl true) memOps memInit) ops)
  | ["scnm"] => some (runOut (storeCacheOps (storeCfg tbl false) memOps) (storeCacheNew (storeCfg tbl false) memOps memInit) ops)
  | ["scfm", p] => some (runOut (storeCacheOps (storeCfg tbl true (dch p)) memOps) (storeCacheNew (storeCfg tbl true (dch p)) memOps memInit) ops)
  | ["scnm", p] => some (runOut (storeCacheOps (storeCfg tbl false (dch p)) memOps) (storeCacheNew (storeCfg tbl false (dch p)) memOps memInit) ops)
  | ["scff"] => some (runOut (storeCOps (storeCfg tbl true) (fileOps driverRoot)) (storeCInit (storeCfg tbl true) (fileOps driverRoot) (fileInit driverRoot)) ops)
  | ["scnf"] => some (runOut (storeCOps (storeCfg tbl false) (fileOps driverRoot)) (storeCInit (storeCfg tbl false) (fileOps driverRoot) (fileInit driverRoot)) ops)
  | ["scfs"] => some (runOut (storeCOps (storeCfg tbl true) specOps) (storeCInit (storeCfg tbl true) specOps []) ops)
  | ["scns"] => some (runOut (storeCOps (storeCfg tbl false) specOps) (storeCInit (storeCfg tbl false) specOps []) ops)
  | ["mem+file"] => some (runOut (combineOps memCOps (fileCOps (fileCfg tbl id some))) ([], []) ops)
  | ["no+mem"] => some (runOut (combineOps noCOps memCOps) ((), []) ops)
  | ["ifhas+mem", a] => some (runOut (combineOps (ifHasOps [dch a] memCOps) memCOps) ([], []) ops)
  | ["ifhas", a] => some (runOut (ifHasOps [dch a] memCOps) [] ops)
  | ["ifhasnot", a] => some (runOut (ifHasNotOps [dch a] memCOps) [] ops)
  | ["attreq", a, v] => some (runOut (attrCondOps (dch a) (dch v) true memCOps) [] ops)
  | ["proxy"] => some (runOut (proxyCOps memCOps) [] ops)
  | _ => none

/-! ### crash model -/

open Crash

def fnameS : FName → String
  | .state h => "S." ++ encChars h
  | .data h e => "D." ++ encChars h ++ "." ++ encChars e
  | .tmp n => "T." ++ toString n

def parseFName (t : String) : Option FName :=
  match t.splitOn "." with
  | ["S", h] => some (.state (dch h))
  | ["D", h, e] => some (.data (dch h) (dch e))
  | ["T", n] => n.toNat?.map .tmp
  | _ => none

def parseDir (t : String) : CDir :=
  if t == "-" then [] else (t.splitOn ";").filterMap (fun p => match p.splitOn "=" with
    | [a, b] => (parseFName a).map (fun n => (n, dataOfHex b))
    | _ => none)

def parseBytesTable (t : String) : List (Data × String) :=
  if t == "-" then [] else (t.splitOn ";").filterMap (fun p => match p.splitOn "=" with
    | [a, b] => some (dataOfHex a, b)
    | _ => none)

def tblLookup (tbl : List (Data × String)) (d : Data) : Option String := (tbl.find? (fun e => e.1 == d)).map (·.2)

def stepKind {ν} : Step ν → Char
  | .mkdir _ => 'm' | .create _ => 'c' | .append _ _ => 'a' | .close _ => 'x' | .rename _ _ => 'r' | .unlink _ => 'u'

def classOf {α} [DecidableEq α] (r old new : Option α) : String :=
  if r = none then "miss" else if r = old then "old" else if r = new then "new" else "other"

def crashCfg (tbl : List (Str × Str)) (mt dt : List (Data × String)) (dataPayload metaPayload : Data) : FileCfg :=
  { h := id, ext := extOf tbl, enc := id, dec := some,
    serM := fun _ => metaPayload,
    deM := fun d => (tblLookup mt d).bind (fun s => parseMetaFields (s.splitOn ".")),
    serD := fun _ _ => dataPayload,
    deD := fun _ d => (tblLookup dt d).map parseData }

def crashC (ext mtab dtab dir op n cut key other : String) : Option String :=
  let tbl := parseTable ext
  let mt := parseBytesTable mtab
  let dt := parseBytesTable dtab
  let d := parseDir dir
  let k := dch key
  let k' := dch other
  let go (c : FileCfg) (steps : List (Step FName)) (final : CDir) : String :=
    let d' := crashAt execC n.toNat! cut.toNat! steps d
    let listing := sortedJoin (d'.map (fun e => fnameS e.1 ++ ":" ++ toString e.2.length))
    let r := readC c d' k
    let o := readC c d k
    let w := readC c final k
    String.intercalate " " ["steps=" ++ String.ofList (steps.map stepKind), listing, classOf r.1 o.1 w.1, classOf r.2 o.2 w.2,
      if readC c d' k' = readC c d k' then "same" else "changed"]
  match op.splitOn ":" with
  | ["store", st, dp, mp] => (parseState st).map (fun st =>
      let c := crashCfg tbl mt dt (dataOfHex dp) (dataOfHex mp)
      go c (storeStepsC c d st) (FileC.store c d st))
  | ["storem", m, mp] => (parseMetaFields (m.splitOn ",")).map (fun m =>
      let c := crashCfg tbl mt dt [] (dataOfHex mp)
      go c (storeMetaStepsC c m) (FileC.storeMeta c d m))
  | ["remove", kk] =>
      let c := crashCfg tbl mt dt [] []
      some (go c (removeStepsC c d (dch kk)) (FileC.remove c d (dch kk)))
  | _ => none

def keyOfHex (h : String) : Key := if h == "-" then [] else StoreC.splitSlash (dch h)
def keyS (k : Key) : String := encChars (List.intercalate ['/'] k)

def snameS : SName → String
  | .node k => "N." ++ keyS k
  | .metaDir k => "H." ++ keyS k
  | .mfile k => "M." ++ keyS k
  | .tmp k => "T." ++ keyS k

def parseSName (t : String) : Option SName :=
  match t.splitOn "." with
  | ["N", k] => some (.node (keyOfHex k))
  | ["H", k] => some (.metaDir (keyOfHex k))
  | ["M", k] => some (.mfile (keyOfHex k))
  | ["T", k] => some (.tmp (keyOfHex k))
  | _ => none

def parseTree (t : String) : Tree :=
  if t == "-" then [] else (t.splitOn ";").filterMap (fun p => match p.splitOn "=" with
    | [a, b] => (parseSName a).map (fun n => (n, if b == "/" then TNode.dir else TNode.file (dataOfHex b)))
    | _ => none)

def tnodeS : TNode → String
  | .dir => "/"
  | .file d => toString d.length

def crashT (mtab dtab tree op n cut key other mode : String) : Option String :=
  let mt := parseBytesTable mtab
  let dt := parseBytesTable dtab
  let t := parseTree tree
  let k := keyOfHex key
  let k' := keyOfHex other
  let deMf : Data → Option CMeta := fun d => (tblLookup mt d).bind (fun s => parseMetaFields (s.splitOn "."))
  let deDf : Str → Data → Option (Option Str) := fun _ d => (tblLookup dt d).map parseData
  let steps? : Option (List (Step SName)) := match op.splitOn ":" with
    | ["store", dp, mp] => some (storeStepsT t k (dataOfHex dp) (dataOfHex mp))
    | ["storem", mp] => some (storeMetaStepsT t k (dataOfHex mp))
    | ["remove"] => some (removeStepsT t k)
    | _ => none
  steps?.map (fun steps =>
    let t' := crashAt execT n.toNat! cut.toNat! steps t
    let final := steps.foldl execT t
    let listing := sortedJoin (t'.map (fun e => snameS e.1 ++ ":" ++ tnodeS e.2))
    let classes :=
      if mode == "sc" then
        [classOf (readSC deMf deDf t' k) (readSC deMf deDf t k) (readSC deMf deDf final k),
         if readSC deMf deDf t' k' = readSC deMf deDf t k' then "same" else "changed"]
      else
        [classOf (readBytesT t' k) (readBytesT t k) (readBytesT final k),
         classOf (readMetaT t' k) (readMetaT t k) (readMetaT final k),
         if (readBytesT t' k', readMetaT t' k') = (readBytesT t k', readMetaT t k') then "same" else "changed"]
    String.intercalate " " (["steps=" ++ String.ofList (steps.map stepKind), listing] ++ classes))

end CacheH

def cache (cmd : String) (args : List String) : Option String :=
  match cmd, args with
  | "cache.run", cfg :: ext :: ops => some <| match ops.mapM CacheH.parseOp with
      | none => "BADINPUT"
      | some ops => (CacheH.runCfg cfg (CacheH.parseTable ext) ops).getD "BADCFG"
  | "crash.c", [ext, mt, dt, dir, op, n, cut, key, other] => some ((CacheH.crashC ext mt dt dir op n cut key other).getD "BADINPUT")
  | "crash.t", [mt, dt, tree, op, n, cut, key, other, mode] => some ((CacheH.crashT mt dt tree op n cut key other mode).getD "BADINPUT")
  | _, _ => none

end Liquer.Handlers
