import LiquerModel.Proto
import LiquerModel.Gen.EscapeTable

namespace Liquer.Handlers
open Liquer Liquer.Proto

/-- decoder with a sentinel for invalid UTF-8; two sentinels expose whether one was used -/
def decWith (sentinel : Char) (bs : List UInt8) : List Char :=
  match decUtf8? bs with
  | some cs => cs
  | none => [sentinel]

/-- run `f` with two different sentinels; a difference means the input left the modelled domain -/
def modelled (f : (List UInt8 → List Char) → List Char) : Option (List Char) :=
  let a := f (decWith (Char.ofNat 0xFFFD))
  let b := f (decWith (Char.ofNat 0xFFFC))
  if a == b then some a else none

def token (cmd : String) (args : List String) : Option String :=
  match cmd, args with
  | "tok.enc", [h] => some <| match decChars h with
      | some s => encChars (encodeToken Gen.escapeTable s)
      | none => "BADINPUT"
  | "tok.dec", [h] => some <| match decChars h with
      | some t => (match modelled (fun d => decodeToken Gen.escapeTable d t) with
          | some r => encChars r
          | none => "UNMODELLED")
      | none => "BADINPUT"
  | "tok.quote", [h] => some <| match decChars h with
      | some s => encChars (quote s)
      | none => "BADINPUT"
  | "tok.unquote", [h] => some <| match decChars h with
      | some t => (match modelled (fun d => unquote d t) with
          | some r => encChars r
          | none => "UNMODELLED")
      | none => "BADINPUT"
  | "tok.encll", hs => some <|
      -- each argument is one command: tokens separated by ',' (each token hex)
      let ql := hs.map (fun h => (h.splitOn ",").map (fun t => (decChars t).getD []))
      encChars (encodeLL Gen.escapeTable ql)
  | "tok.decll", [h] => some <| match decChars h with
      | some q => (match modelled (fun d =>
            -- flatten with separators that cannot occur in hex
            let r := decodeLL Gen.escapeTable d q
            (String.intercalate " " (r.map (fun qc => String.intercalate "," (qc.map encChars)))).toList) with
          | some r => String.ofList r
          | none => "UNMODELLED")
      | none => "BADINPUT"
  | "tok.tableok", [] => some (toString (tableOK Gen.escapeTable))
  | _, _ => none

end Liquer.Handlers
