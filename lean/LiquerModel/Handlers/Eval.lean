import LiquerModel.Eval
import LiquerModel.Ref
import LiquerModel.Handlers.Token

/-
Protocol: `eval.session <keep:0|1|N> <defaults> <op> <op> …` — one whole history on one global cache.
  defaults := `-` | `k=canon,k=canon`         (keys hex)
  op       := `E:<hex text>` | `V:<hex text>:<canon>:<0|1>` | `XL:<hex text>:<canon>;<canon>…` | `XD:<hex text>:<hexk>=<canon>;…`
              | `R:<hex key>` | `C`
Answer: per op `outcome # calls # cache`, ops separated by ` | `.
-/
namespace Liquer.Handlers
open Liquer Liquer.Proto

/-! canonical value parser (inverse of `Val.canon`) -/

def takeUntil (stop : Char → Bool) : List Char → List Char × List Char
  | [] => ([], [])
  | c :: cs => if stop c then ([], c :: cs) else let (a, b) := takeUntil stop cs; (c :: a, b)

def hexToChars (h : List Char) : List Char :=
  if h == ['-'] then [] else ((decStr (String.ofList h)).map String.toList).getD []

mutual
  def parseVal : Nat → List Char → Option (Val × List Char)
    | 0, _ => none
    | _ + 1, 'N' :: r => some (.none, r)
    | _ + 1, 'B' :: '1' :: r => some (.bool true, r)
    | _ + 1, 'B' :: '0' :: r => some (.bool false, r)
    | _ + 1, 'I' :: r =>
      let (d, rest) := takeUntil (fun c => c == ',' || c == ']' || c == ';') r
      (String.ofList d).toInt?.map (fun i => (.int i, rest))
    | _ + 1, 'S' :: r =>
      let (d, rest) := takeUntil (fun c => c == ',' || c == ']' || c == ';') r
      some (.str (hexToChars d), rest)
    | _ + 1, 'F' :: r =>
      let (d, rest) := takeUntil (fun c => c == ',' || c == ']' || c == ';') r
      some (.flt d, rest)
    | n + 1, 'L' :: '[' :: r => (parseVals n r).map (fun (vs, rest) => (.list vs, rest))
    | _, _ => none
  def parseVals : Nat → List Char → Option (List Val × List Char)
    | 0, _ => none
    | _ + 1, ']' :: r => some ([], r)
    | n + 1, r =>
      match parseVal n r with
      | none => none
      | some (v, ',' :: rest) => (parseVals n rest).map (fun (vs, r2) => (v :: vs, r2))
      | some (v, ']' :: rest) => some ([v], rest)
      | _ => none
end

def valOf (s : String) : Option Val :=
  match parseVal (s.length + 2) s.toList with
  | some (v, []) => some v
  | _ => none

def splitNonEmpty (s : String) (sep : String) : List String := (s.splitOn sep).filter (· ≠ "")

def kvOf (s : String) : List (Str × Val) :=
  if s == "-" then [] else
  (splitNonEmpty s ";").filterMap (fun kv => match kv.splitOn "=" with
    | [k, v] => (valOf v).map (fun v => (hexToChars k.toList, v))
    | _ => none)

/-! rendering -/

def hexS (s : Str) : String := encChars s
def optHex (o : Option Str) : String := match o with | some s => hexS s | none => "~"
def optNat (o : Option Nat) : String := match o with | some n => toString n | none => "~"
def b01 (b : Bool) : String := if b then "1" else "0"

def sortStrings (l : List String) : List String := (l.toArray.qsort (· < ·)).toList

def renderVars (vs : Vars) : String :=
  String.intercalate ";" (sortStrings (vs.map (fun kv => hexS kv.1 ++ "=" ++ String.ofList kv.2.canon)))

def renderState (st : EState) : String :=
  "ST v=" ++ (if st.isError then "ERR" else String.ofList st.data.canon) ++
  " err=" ++ b01 st.isError ++
  " vars=" ++ (if st.isError then "" else renderVars st.vars) ++
  " vol=" ++ b01 st.volatile ++ " caching=" ++ b01 st.caching ++
  " fn=" ++ optHex st.filename ++ " ext=" ++ optHex st.extension ++
  " cmd=" ++ String.intercalate "," ((st.commands.getLast?.getD []).map hexS) ++
  " attrs=" ++ String.intercalate ";" (sortStrings (st.attrs.map (fun kv => hexS kv.1 ++ "=" ++ hexS kv.2))) ++
  " epos=" ++ (if st.isError then optNat st.errPos else "~") ++
  " equery=" ++ (if st.isError then optHex st.errQuery else "~") ++
  " query=" ++ hexS st.query

def renderOutcome : Outcome → String
  | .st s => renderState s
  | .raised p q => "RAISED pos=" ++ optNat p ++ " q=" ++ optHex q
  | .parseError => "PARSEERR"
  | .unmodelled => "UNMODELLED"

def renderCache (w : World) : String :=
  String.intercalate ";" (sortStrings (w.cache.filterMap (fun e =>
    match w.get e.1 with
    | some st => some (hexS e.1 ++ "=" ++ String.ofList st.data.canon)
    | none => none)))

def runOp (env : Env) (w : World) (op : String) : World × String :=
  let w := { w with calls := [] }
  let fin (r : World × Outcome) : World × String :=
    (r.1, renderOutcome r.2 ++ " # " ++ String.intercalate "," (r.1.calls.map String.ofList) ++ " # " ++ renderCache r.1)
  match op.splitOn ":" with
  | ["E", h] => let t := hexToChars h.toList; fin (evalText env (evalFuel t) w t true)
  | ["V", h, v, ivs] =>
    -- `evaluate(q, input_value=v)` (`ivs = 0`) or `evaluate_on(v, q)` (`ivs = 1`: NoCache, input value specified)
    let t := hexToChars h.toList
    (match parse env.dec t, valOf v with
     | some q, some v =>
       let input : Option Val := match v with | .none => none | v => some v
       let plain := input.isNone && ivs != "1"
       fin (evalQ env (evalFuel t) w q t .none input plain)
     | none, _ => fin (w, .parseError)
     | _, none => (w, "BADINPUT"))
  | ["XL", h, vs] =>
    let t := hexToChars h.toList
    (match parse env.dec t with
     | some q => fin (evalQ env (evalFuel t) w q t (.list ((splitNonEmpty vs ";").filterMap valOf)) none true)
     | none => fin (w, .parseError))
  | ["XD", h, kv] =>
    let t := hexToChars h.toList
    (match parse env.dec t with
     | some q => fin (evalQ env (evalFuel t) w q t (.dict (kvOf kv)) none true)
     | none => fin (w, .parseError))
  | ["R", h] => let w := w.remove (hexToChars h.toList); (w, "OK #  # " ++ renderCache w)
  | ["C"] => let w := { w with cache := [] }; (w, "OK #  # ")
  | _ => (w, "BADOP")

def evalH (cmd : String) (args : List String) : Option String :=
  match cmd, args with
  | "eval.session", keep :: dflt :: ops => some <|
    let run (sentinel : Char) : String :=
      let env : Env := { reg := Gen.registry, defaults := kvOf dflt, dec := decWith sentinel }
      let w0 : World := { metaKeepsData := keep == "1", enabled := keep != "N" }
      let (_, outs) := ops.foldl (fun (acc : World × List String) op =>
        let (w, o) := runOp env acc.1 op
        (w, acc.2 ++ [o])) (w0, [])
      String.intercalate " | " outs
    let a := run (Char.ofNat 0xFFFD)
    let b := run (Char.ofNat 0xFFFC)
    if a == b then a else "UNMODELLED"
  | "eval.ref", [dflt, op] => some <|
    -- the reference interpretation (specification) of one evaluation: `outcome # calls`
    let run (sentinel : Char) : String :=
      let env : Env := { reg := Gen.registry, defaults := kvOf dflt, dec := decWith sentinel }
      let fin (r : Outcome × List Str) : String := renderOutcome r.1 ++ " # " ++ String.intercalate "," (r.2.map String.ofList)
      match op.splitOn ":" with
      | ["E", h] =>
        let t := hexToChars h.toList
        (match parse env.dec t with
         | some q => fin (refQ env (evalFuel t) q t .none none)
         | none => "PARSEERR # ")
      | ["V", h, v, _] =>
        let t := hexToChars h.toList
        (match parse env.dec t, valOf v with
         | some q, some v => fin (refQ env (evalFuel t) q t .none (match v with | .none => none | v => some v))
         | none, _ => "PARSEERR # "
         | _, none => "BADINPUT")
      | ["XL", h, vs] =>
        let t := hexToChars h.toList
        (match parse env.dec t with
         | some q => fin (refQ env (evalFuel t) q t (.list ((splitNonEmpty vs ";").filterMap valOf)) none)
         | none => "PARSEERR # ")
      | ["XD", h, kv] =>
        let t := hexToChars h.toList
        (match parse env.dec t with
         | some q => fin (refQ env (evalFuel t) q t (.dict (kvOf kv)) none)
         | none => "PARSEERR # ")
      | _ => "BADOP"
    let a := run (Char.ofNat 0xFFFD)
    let b := run (Char.ofNat 0xFFFC)
    if a == b then a else "UNMODELLED"
  | _, _ => none

end Liquer.Handlers
