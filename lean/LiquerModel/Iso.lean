/-
M3 (part 4, C10): evaluation on a heap of mutable objects.

The evaluator models of Eval.lean / Ref.lean treat values as immutable.  Python values are objects: a list, a dictionary,
the metadata dictionary of a `State` can be mutated in place by a command or by the caller who received a state.  This
model makes the objects explicit — every mutable value lives in a heap cell, a `State` is a pair of references (its data,
its metadata dictionary, which holds the variable dictionary) — and mirrors *where the implementation copies*:

  * `vars_clone()` (deep copy of the configured defaults) for the initial state,
  * `State.clone()` of the input state before a command runs, unless that state is volatile (`evaluate_action`),
  * `MemoryCache.store` keeps `state.clone()`, `MemoryCache.get` returns `state.clone()` (a serialising cache is the same:
    it keeps bytes and builds fresh objects),
  * a command gets the live objects: it may mutate its input in place and return it, mutate a variable's value in place,
    mutate the value of a link argument; a link argument is the live data of the sub-evaluation's returned state,
  * the caller gets the live state and may mutate its data, its variables and its metadata dictionary.

One cell per value: the object graph below a reference (a list of lists) is the content of one cell (DESIGN §4 C10).
Queries are chains of actions with text and absolute-link arguments over a small vocabulary of its own (harness/props/C10.py
registers the same commands on the real registry); `refChain` is the value-level meaning of a chain (no heap, no cache).
-/
import LiquerModel.Value

namespace Liquer.Iso

abbrev Addr := Nat

/-- a value as the evaluator holds it: an immutable scalar, or a reference to a mutable object -/
inductive HV where
  | imm (v : Val)
  | ref (a : Addr)
  deriving Repr, Inhabited

/-- the part of a metadata dictionary that matters here; `vars` values may be mutable objects -/
structure MetaRec where
  query : Str := []
  status : Str := []
  isError : Bool := false
  volatile : Bool := false
  caching : Bool := true
  vars : List (Str × HV) := []
  deriving Repr, Inhabited

inductive Cell where
  | val (v : Val)
  | md (m : MetaRec)
  deriving Repr, Inhabited

/-- heap: total map with an allocation pointer; addresses `≥ next` are unused -/
structure Heap where
  cells : Addr → Option Cell := fun _ => none
  next : Addr := 0

instance : Inhabited Heap := ⟨{}⟩

def Heap.read (h : Heap) (a : Addr) : Option Cell := h.cells a

def Heap.write (h : Heap) (a : Addr) (c : Cell) : Heap :=
  { h with cells := fun x => if x = a then some c else h.cells x }

def Heap.alloc (h : Heap) (c : Cell) : Heap × Addr :=
  ({ cells := fun x => if x = h.next then some c else h.cells x, next := h.next + 1 }, h.next)

def Heap.valAt (h : Heap) (a : Addr) : Val :=
  match h.read a with
  | some (.val v) => v
  | _ => .none

def Heap.metaAt (h : Heap) (a : Addr) : MetaRec :=
  match h.read a with
  | some (.md m) => m
  | _ => {}

/-- a Python `State` object: its data and its metadata dictionary -/
structure HState where
  data : HV
  md : Addr
  deriving Repr, Inhabited

/-! ### copying -/

/-- `copy_state_data` / `deepcopy` of one value: a mutable object is copied into a fresh cell -/
def copyHV (h : Heap) : HV → Heap × HV
  | .imm v => (h, .imm v)
  | .ref a => let (h', a') := h.alloc (.val (h.valAt a)); (h', .ref a')

def copyVars (h : Heap) : List (Str × HV) → Heap × List (Str × HV)
  | [] => (h, [])
  | (k, v) :: rest =>
    let (h1, v') := copyHV h v
    let (h2, rest') := copyVars h1 rest
    (h2, (k, v') :: rest')

/-- `deepcopy(metadata)`: a fresh dictionary whose variable values are fresh objects -/
def copyMeta (h : Heap) (a : Addr) : Heap × Addr :=
  let m := h.metaAt a
  let (h1, vars') := copyVars h m.vars
  h1.alloc (.md { m with vars := vars' })

/-- `State.clone()` -/
def cloneState (h : Heap) (st : HState) : Heap × HState :=
  let (h1, ma) := copyMeta h st.md
  let (h2, d) := copyHV h1 st.data
  (h2, { data := d, md := ma })

/-! ### abstraction: what a reference means now -/

def absHV (h : Heap) : HV → Val
  | .imm v => v
  | .ref a => h.valAt a

structure AbsState where
  data : Val
  query : Str
  status : Str
  isError : Bool
  volatile : Bool
  caching : Bool
  vars : List (Str × Val)
  deriving Repr, Inhabited

def absVars (h : Heap) (vs : List (Str × HV)) : List (Str × Val) := vs.map (fun kv => (kv.1, absHV h kv.2))

def absState (h : Heap) (st : HState) : AbsState :=
  let m := h.metaAt st.md
  { data := absHV h st.data, query := m.query, status := m.status, isError := m.isError, volatile := m.volatile,
    caching := m.caching, vars := absVars h m.vars }

/-! ### queries -/

mutual
  inductive Act where
    | mk (name : Str) (args : List Arg)
  inductive Arg where
    | text (s : Str)
    | link (q : List Act)
end

instance : Inhabited Act := ⟨.mk [] []⟩

def Act.name : Act → Str
  | .mk n _ => n
def Act.args : Act → List Arg
  | .mk _ a => a

mutual
  /-- canonical text of a chain (the generated queries need no escaping) -/
  def encodeChain : List Act → Str
    | [] => []
    | [a] => encodeAct a
    | a :: rest => encodeAct a ++ '/' :: encodeChain rest
  def encodeAct : Act → Str
    | .mk n args => n ++ encodeArgs args
  def encodeArgs : List Arg → Str
    | [] => []
    | .text t :: rest => '-' :: t ++ encodeArgs rest
    | .link q :: rest => "-~X~/".toList ++ encodeChain q ++ "~E".toList ++ encodeArgs rest
end

/-- cache key of a chain: the canonical text, with a leading `/` for the query of an absolute link -/
def keyOf (absolute : Bool) (acts : List Act) : Str := if absolute then '/' :: encodeChain acts else encodeChain acts

/-! ### the world -/

def statusReady : Str := "ready".toList

structure World where
  heap : Heap := {}
  /-- `MemoryCache.storage` (data-bearing entries): key ↦ the cache's own state object -/
  cache : List (Str × HState) := []
  /-- `liquer.state._vars` -/
  defaults : List (Str × HV) := []
  /-- `false`: `NoCache()` -/
  cacheOn : Bool := true
  /-- call log -/
  calls : List Str := []

instance : Inhabited World := ⟨{}⟩

def World.entry (w : World) (k : Str) : Option HState := (w.cache.find? (fun e => e.1 == k)).map (·.2)

/-- `cache.get(key)`: the entry must say `ready` in the cache's own metadata; the caller gets a clone -/
def World.get (w : World) (k : Str) : World × Option HState :=
  match w.entry k with
  | none => (w, none)
  | some e =>
    let m := w.heap.metaAt e.md
    if m.status == statusReady then
      let (h, c) := cloneState w.heap e
      ({ w with heap := h }, some c)
    else (w, none)

/-- `cache.store(state)`: marks the caller's state `ready`, keeps a clone -/
def World.store (w : World) (k : Str) (st : HState) : World :=
  if !w.cacheOn then w else
  let m := w.heap.metaAt st.md
  let h0 := w.heap.write st.md (.md { m with status := statusReady })
  let (h1, c) := cloneState h0 st
  { w with heap := h1, cache := (k, c) :: w.cache.filter (fun e => e.1 != k) }

def World.remove (w : World) (k : Str) : World := { w with cache := w.cache.filter (fun e => e.1 != k) }

/-! ### commands -/

inductive CmdOut where
  | fail
  /-- new heap, result data, the command is volatile, the command leaves caching on -/
  | ok (h : Heap) (data : HV) (vol : Bool) (caching : Bool)

def strOf (_h : Heap) : HV → Option Str
  | .imm (.str s) => some s
  | .imm _ => none
  | .ref _ => none

def setVar (vars : List (Str × HV)) (k : Str) (v : HV) : List (Str × HV) :=
  if vars.any (fun e => e.1 == k) then vars.map (fun e => if e.1 == k then (k, v) else e) else vars ++ [(k, v)]

def getVar (vars : List (Str × HV)) (k : Str) : Option HV := (vars.find? (fun e => e.1 == k)).map (·.2)

/-- the content of a list object, if `v` is one -/
def listAt (h : Heap) : HV → Option (Addr × List Val)
  | .ref a => (match h.valAt a with | .list l => some (a, l) | _ => none)
  | .imm _ => none

/-- semantics on the heap; `old` is the state object handed to the command (its metadata cell holds the variables), `ctx` the
context's variables (`Vars(state.vars)` of the predecessor state *before* it was cloned: the very objects of that state) -/
def cmdH (h : Heap) (old : HState) (ctx : List (Str × HV)) (name : String) (args : List HV) : CmdOut :=
  let m := h.metaAt old.md
  match name, args with
  | "one", [] => .ok h (.imm (.int 1)) false true
  | "mk", args =>                                   -- `list(args)`: a fresh list object
    let (h', a) := h.alloc (.val (.list (args.map (absHV h))))
    .ok h' (.ref a) false true
  | "app", [v] =>                                   -- `x.append(v); return x`
    (match listAt h old.data with
     | some (a, l) => .ok (h.write a (.val (.list (l ++ [absHV h v])))) old.data false true
     | none => .fail)
  | "ident", [] => .ok h old.data false true
  | "copyl", [] =>                                  -- `list(x)`
    (match listAt h old.data with
     | some (_, l) => let (h', a) := h.alloc (.val (.list l)); .ok h' (.ref a) false true
     | none => .fail)
  | "ext", [o] =>                                   -- `x.extend(o); o.append("m"); return x` — mutates input AND argument
    (match listAt h old.data, listAt h o with
     | some (a, l), some (b, lo) =>
       let h1 := h.write a (.val (.list (l ++ lo)))
       let lo' := match h1.valAt b with | .list x => x | _ => []
       .ok (h1.write b (.val (.list (lo' ++ [.str ['m']])))) old.data false true
     | _, _ => .fail)
  | "pair", [o] =>                                  -- `[x, o]`
    let (h', a) := h.alloc (.val (.list [absHV h old.data, absHV h o]))
    .ok h' (.ref a) false true
  | "let", [k, v] =>                                -- `state.vars[name] = value; return state`
    (match strOf h k with
     | some k => .ok (h.write old.md (.md { m with vars := setVar m.vars k v })) old.data false true
     | none => .fail)
  | "getvar", [k] =>                                -- `state.with_data(state.vars.get(name))`: data IS the variable's object
    (match strOf h k with
     | some k => .ok h ((getVar m.vars k).getD (.imm .none)) false true
     | none => .fail)
  | "vapp", [k, v] =>                               -- `state.vars[name].append(v); return state`
    (match strOf h k with
     | some k =>
       (match (getVar m.vars k).bind (listAt h) with
        | some (a, l) => .ok (h.write a (.val (.list (l ++ [absHV h v])))) old.data false true
        | none => .fail)
     | none => .fail)
  | "cvapp", [k, v] =>                              -- `context.vars[name].append(v); return x`: mutates the PREDECESSOR state's object
    (match strOf h k with
     | some k =>
       (match (getVar ctx k).bind (listAt h) with
        | some (a, l) => .ok (h.write a (.val (.list (l ++ [absHV h v])))) old.data false true
        | none => .fail)
     | none => .fail)
  | "vol", [] => .ok h old.data true true
  | "nocache", [] => .ok h old.data false false
  | _, _ => .fail                                   -- `boom`, unknown commands, wrong arity

/-! ### evaluation -/

inductive Res where
  | st (s : HState)
  | fail
  deriving Inhabited

/-- `State()`: metadata with `vars = vars_clone()`, no data -/
def initialState (w : World) : World × HState :=
  let (h1, vars) := copyVars w.heap w.defaults
  let (h2, ma) := h1.alloc (.md { vars := vars })
  ({ w with heap := h2 }, { data := .imm .none, md := ma })

def callText (name : Str) (inp : Val) (args : List Val) : Str :=
  name ++ ['('] ++ inp.canon ++ [';'] ++ Val.canonList args ++ [')']

mutual
  /-- `Context.evaluate(chain)`; `absolute`: the query of an absolute link (`/…`), its cache keys carry the leading slash -/
  def evalChain : Nat → World → Bool → List Act → World × Res
    | 0, w, _, _ => (w, .fail)
    | n + 1, w, absolute, acts =>
      let key := keyOf absolute acts
      match (if w.cacheOn then w.get key else (w, none)) with
      | (w, some st) => (w, .st st)
      | (w, none) =>
        match acts.getLast?, acts.dropLast with
        | none, _ => let (w, st) := initialState w; (w, .st st)
        | some act, init =>
          -- predecessor: `create_initial_state()` for the empty one, a child evaluation otherwise
          let (w1, pre) : World × Res :=
            if init.isEmpty then (let (w, st) := initialState w; (w, .st st)) else evalChain n w absolute init
          match pre with
          | .fail => (w1, .fail)
          | .st pred =>
            -- `evaluate_action`
            let pm := w1.heap.metaAt pred.md
            let (h2, old) := if pm.volatile then (w1.heap, pred) else cloneState w1.heap pred
            let w2 := { w1 with heap := h2 }
            match evalArgs n w2 act.args with
            | (w3, none) => (w3, .fail)
            | (w3, some args) =>
              let w3 := { w3 with calls := w3.calls ++ [callText act.name (absHV w3.heap old.data) (args.map (absHV w3.heap))] }
              match cmdH w3.heap old pm.vars (String.ofList act.name) args with
              | .fail => (w3, .fail)
              | .ok h4 data vol caching =>
                -- the state object the command returns is `old` with the new data; its metadata dictionary is updated in place
                let m := h4.metaAt old.md
                let m' := { m with query := key, status := statusReady, isError := false,
                                   volatile := pm.volatile || vol, caching := m.caching && caching }
                let h5 := h4.write old.md (.md m')
                let st : HState := { data := data, md := old.md }
                let w5 := { w3 with heap := h5 }
                let w6 := if m'.caching && !m'.volatile then w5.store key st else w5.remove key
                (w6, .st st)

  /-- `evaluate_parameter` over the argument list: a link argument is the live data of the sub-evaluation's state -/
  def evalArgs : Nat → World → List Arg → World × Option (List HV)
    | 0, w, _ => (w, none)
    | _ + 1, w, [] => (w, some [])
    | n + 1, w, .text t :: rest =>
      (match evalArgs n w rest with
       | (w1, some vs) => (w1, some (.imm (.str t) :: vs))
       | (w1, none) => (w1, none))
    | n + 1, w, .link q :: rest =>
      (match evalChain n w true q with
       | (w1, .st v) =>
         (match evalArgs n w1 rest with
          | (w2, some vs) => (w2, some (v.data :: vs))
          | (w2, none) => (w2, none))
       | (w1, .fail) => (w1, none))
end

mutual
  def sizeChain : List Act → Nat
    | [] => 1
    | a :: rest => sizeAct a + sizeChain rest + 1
  def sizeAct : Act → Nat
    | .mk _ args => sizeArgs args + 1
  def sizeArgs : List Arg → Nat
    | [] => 1
    | .text _ :: rest => sizeArgs rest + 1
    | .link q :: rest => sizeChain q + sizeArgs rest + 1
end

/-- fuel that suffices -/
def evalFuel (acts : List Act) : Nat := 4 * sizeChain acts * (sizeChain acts + 1) + 8

/-! ### the value-level meaning of a chain (no heap, no cache, no objects) -/

structure RState where
  data : Val := .none
  vars : List (Str × Val) := []
  volatile : Bool := false
  caching : Bool := true
  deriving Repr, Inhabited

def setVarV (vars : List (Str × Val)) (k : Str) (v : Val) : List (Str × Val) :=
  if vars.any (fun e => e.1 == k) then vars.map (fun e => if e.1 == k then (k, v) else e) else vars ++ [(k, v)]

def getVarV (vars : List (Str × Val)) (k : Str) : Option Val := (vars.find? (fun e => e.1 == k)).map (·.2)

def cmdV (st : RState) (name : String) (args : List Val) : Option RState :=
  match name, args with
  | "one", [] => some { st with data := .int 1 }
  | "mk", args => some { st with data := .list args }
  | "app", [v] => (match st.data with | .list l => some { st with data := .list (l ++ [v]) } | _ => none)
  | "ident", [] => some st
  | "copyl", [] => (match st.data with | .list _ => some st | _ => none)
  | "ext", [o] => (match st.data, o with | .list l, .list lo => some { st with data := .list (l ++ lo) } | _, _ => none)
  | "pair", [o] => some { st with data := .list [st.data, o] }
  | "let", [.str k, v] => some { st with vars := setVarV st.vars k v }
  | "getvar", [.str k] => some { st with data := (getVarV st.vars k).getD .none }
  | "vapp", [.str k, v] =>
    (match getVarV st.vars k with
     | some (.list l) => some { st with vars := setVarV st.vars k (.list (l ++ [v])) }
     | _ => none)
  | "cvapp", [.str k, _] =>                          -- the context's variables are not the state's: no effect on the meaning
    (match getVarV st.vars k with
     | some (.list _) => some st
     | _ => none)
  | "vol", [] => some { st with volatile := true }
  | "nocache", [] => some { st with caching := false }
  | _, _ => none

mutual
  def refChain (dflt : List (Str × Val)) : Nat → List Act → Option RState
    | 0, _ => none
    | n + 1, acts =>
      match acts.getLast?, acts.dropLast with
      | none, _ => some { vars := dflt }
      | some act, init =>
        match (if init.isEmpty then some { vars := dflt } else refChain dflt n init) with
        | none => none
        | some pred =>
          match refArgs dflt n act.args with
          | none => none
          | some args => cmdV pred (String.ofList act.name) args
  def refArgs (dflt : List (Str × Val)) : Nat → List Arg → Option (List Val)
    | 0, _ => none
    | _ + 1, [] => some []
    | n + 1, .text t :: rest => (refArgs dflt n rest).map (fun vs => .str t :: vs)
    | n + 1, .link q :: rest =>
      (match refChain dflt n q with
       | some v => (refArgs dflt n rest).map (fun vs => v.data :: vs)
       | none => none)
end

/-! ### histories: evaluations and what a caller may do to the states it was given -/

inductive Op where
  | eval (q : List Act)
  /-- `R[i].data[:] = l` (in-place replacement of the content of the returned data object, if it is mutable) -/
  | mutData (i : Nat) (l : List Val)
  /-- `R[i].data[0][:] = l` (in-place replacement of the content of a list nested inside the returned data) -/
  | mutInner (i : Nat) (l : List Val)
  /-- `R[i].vars[name][:] = l` -/
  | mutVar (i : Nat) (name : Str) (l : List Val)
  /-- `R[i].metadata["vars"][name] = v` (assignment in the returned variable dictionary) -/
  | setVar (i : Nat) (name : Str) (v : Val)
  /-- the caller scribbles on the returned metadata dictionary: status, error flag, volatility, caching, query -/
  | setMeta (i : Nat) (status : Str) (isError volatile caching : Bool) (query : Str)
  /-- the caller scribbles on parts of the returned metadata dictionary this model does not represent (log, command records …) -/
  | scribble (i : Nat)

structure Hist where
  w : World := {}
  /-- the states returned so far, oldest first (`none`: that evaluation failed) -/
  returned : List (Option HState) := []

instance : Inhabited Hist := ⟨{}⟩

def Hist.nth (s : Hist) (i : Nat) : Option HState := (s.returned[i]?).join

def step (s : Hist) : Op → Hist
  | .eval q =>
    let (w, r) := evalChain (evalFuel q) { s.w with calls := [] } false q
    { w := w, returned := s.returned ++ [match r with | .st st => some st | .fail => none] }
  | .mutData i l =>
    (match s.nth i with
     | some st =>
       (match listAt s.w.heap st.data with
        | some (a, _) => { s with w := { s.w with heap := s.w.heap.write a (.val (.list l)) } }
        | none => s)
     | none => s)
  | .mutInner i l =>
    (match s.nth i with
     | some st =>
       (match listAt s.w.heap st.data with
        | some (a, .list _ :: rest) => { s with w := { s.w with heap := s.w.heap.write a (.val (.list (.list l :: rest))) } }
        | _ => s)
     | none => s)
  | .mutVar i name l =>
    (match s.nth i with
     | some st =>
       (match (getVar (s.w.heap.metaAt st.md).vars name).bind (listAt s.w.heap) with
        | some (a, _) => { s with w := { s.w with heap := s.w.heap.write a (.val (.list l)) } }
        | none => s)
     | none => s)
  | .setVar i name v =>
    (match s.nth i with
     | some st =>
       let m := s.w.heap.metaAt st.md
       { s with w := { s.w with heap := s.w.heap.write st.md (.md { m with vars := setVar m.vars name (.imm v) }) } }
     | none => s)
  | .setMeta i status isError volatile caching query =>
    (match s.nth i with
     | some st =>
       let m := s.w.heap.metaAt st.md
       let m' : MetaRec := { m with status := status, isError := isError, volatile := volatile, caching := caching, query := query }
       { s with w := { s.w with heap := s.w.heap.write st.md (.md m') } }
     | none => s)

  | .scribble _ => s

def run (s : Hist) (ops : List Op) : Hist := ops.foldl step s

/-! ### regions: which cells an object owns -/

def cellsHV : HV → List Addr
  | .imm _ => []
  | .ref a => [a]

def cellsVars (vs : List (Str × HV)) : List Addr := vs.flatMap (fun kv => cellsHV kv.2)

/-- the cells of the metadata dictionary of a state: the dictionary and its variable values -/
def cellsMeta (h : Heap) (a : Addr) : List Addr := a :: cellsVars (h.metaAt a).vars

def cellsState (h : Heap) (st : HState) : List Addr := cellsHV st.data ++ cellsMeta h st.md

end Liquer.Iso
