/-
M2 (part 4): `WF` — a decidable description of the *image* of the parser (which ASTs `parse` can
return), used as the hypothesis of the print-parse round trip of C02. `wfTop` is for `parse`
(top level: `resource_transform_query` first), `wfInner` for link queries (`parse_query` only).

The two known findings of C02 are exactly the accepted strings whose AST is *not* `wfTop`:
  * rtq-capture: header-less transform segments followed by one headed transform segment whose canonical
    text lexes as `resource_path/…` (excluded by `rtqCaptured`);
  * an empty parameter followed by another parameter in a resource header (excluded by `resParamsOK`).
-/
import LiquerModel.Parse

namespace Liquer

/-- the regular expression matches the whole string -/
def fullMatch (r : Re) (s : Str) : Bool :=
  match matchRe r s with
  | some (_, []) => true
  | _ => false

/-- name part of a transform header: empty, or `[a-z][a-zA-Z0-9_]*` (the regex without its dashes;
the name itself does not begin with a dash: `splitLevel` strips them all) -/
def transformHeaderNameOK (n : Str) : Bool :=
  n.isEmpty || (n.head? != some '-' && fullMatch Gen.segmentIdentifierNamedRe ('-' :: n))

/-- name part of a resource header: `[a-zA-Z0-9_]*` -/
def resourceHeaderNameOK (n : Str) : Bool :=
  fullMatch Gen.resourceIdentifierRe ('-' :: 'R' :: n)

/-- `Word("-")` swallows the dash of an empty parameter that is not the last one -/
def resParamsOK : List Param → Bool
  | [] => true
  | [_] => true
  | .str s _ :: p :: ps => !s.isEmpty && resParamsOK (p :: ps)
  | .link _ _ :: p :: ps => resParamsOK (p :: ps)

/-- what a segment looks like from outside, for the adjacency rules -/
inductive SegKind where
  | tPlain (endsInFile : Bool)          -- header-less transform segment (non-empty)
  | tHeaded (bare : Bool) (bodyEmpty : Bool) (endsInFile : Bool)
  | rHeaded
  | rPlain
  deriving DecidableEq, Repr

def Seg.kind : Seg → SegKind
  | .transform none _ f => .tPlain f.isSome
  | .transform (some h) as f => .tHeaded (h.name.isEmpty) (as.isEmpty && f.isNone) f.isSome
  | .resource (some _) _ => .rHeaded
  | .resource none _ => .rPlain

/-- may a header-less transform segment follow a segment of this kind? (otherwise only headed segments may) -/
def plainMayFollow : SegKind → Bool
  | .tPlain endsInFile => endsInFile
  | .tHeaded _ bodyEmpty endsInFile => !bodyEmpty && endsInFile
  | .rHeaded => false
  | .rPlain => false

/-- adjacency of the segment list produced by `delimitedList(query_segment)`; `last` = no segment follows -/
def adjacencyOK : List SegKind → Bool
  | [] => true
  | [k] =>
    -- a bare header (`-`, `--`) needs a following `/`: it cannot be the last segment when its body is empty
    (match k with
     | .tHeaded true true _ => false
     | .rPlain => false
     | _ => true)
  | k :: k2 :: rest =>
    (match k with | .rPlain => false | _ => true) &&
    (match k2 with
     | .tPlain _ => plainMayFollow k
     | .rPlain => false
     | _ => true) &&
    adjacencyOK (k2 :: rest)

def noTildePercent (s : Str) : Bool := s.all (fun c => c != '~' && c != '%' && c != '+')

mutual
  def wfParam : Param → Bool
    | .str _ _ => true
    | .link q _ => wfInner q
  def wfParams : List Param → Bool
    | [] => true
    | p :: ps => wfParam p && wfParams ps
  def wfAction : Action → Bool
    | .mk n ps _ => fullMatch Gen.identifierRe n && wfParams ps
  def wfActions : List Action → Bool
    | [] => true
    | a :: as => wfAction a && wfActions as
  def wfSeg : Seg → Bool
    | .transform none as f =>
      wfActions as && (!as.isEmpty || f.isSome) && (match f with | none => true | some f => fullMatch Gen.filenameRe f)
    | .transform (some (.mk n lvl ps res)) as f =>
      !res && lvl ≥ 1 && transformHeaderNameOK n && (!n.isEmpty || ps.isEmpty) && wfParams ps &&
      wfActions as && (match f with | none => true | some f => fullMatch Gen.filenameRe f)
    | .resource (some (.mk n lvl ps res)) names =>
      res && lvl ≥ 1 && resourceHeaderNameOK n && wfParams ps && resParamsOK ps &&
      names.all (fullMatch Gen.resourceNameRe)
    | .resource none names => !names.isEmpty && names.all (fullMatch Gen.resourceNameRe)
  def wfSegs : List Seg → Bool
    | [] => true
    | s :: ss => wfSeg s && wfSegs ss
  /-- a query as returned by `parse_query` (links): at least one segment, no header-less resource segment -/
  def wfInner : Query → Bool
    | .mk segs _ => !segs.isEmpty && wfSegs segs && adjacencyOK (kindsOf segs)
  def kindsOf : List Seg → List SegKind
    | [] => []
    | s :: ss => s.kind :: kindsOf ss
end

/-- the canonical text of the leading header-less transform segments would lex as a resource path
and exactly one headed transform segment follows: `parse` would take the `resource_transform_query` reading -/
def rtqCaptured (tbl : EscTable) : List Seg → Bool
  | segs =>
    match segs.reverse with
    | .transform (some _) _ _ :: front@(_ :: _) =>
      front.all (fun s => match s with
        | .transform none _ _ => noTildePercent (s.encode tbl)
        | _ => false)
    | _ => false

/-- a query as returned by `parse` -/
def wfTop (tbl : EscTable) : Query → Bool
  | .mk [.resource none names, t] a =>
    wfSeg (.resource none names) && wfSeg t && (match t with | .transform (some _) _ _ => true | _ => false)
    && adjacencyOK [t.kind]      -- a bare header with an empty body cannot be last
    && (match a with | _ => true)
  | .mk segs a => wfInner (.mk segs a) && !rtqCaptured tbl segs

end Liquer
