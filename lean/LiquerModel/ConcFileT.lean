/-
M7 (concurrency part, file-operation granularity, directory TREE): the file-system steps of `FileStore.store` /
`FileStore.store_metadata` — what `StoreCache.store(state)` / `StoreCache.store_metadata` issue on a `FileStore` — **with the
writer's own temporary names**, as STATIC lists (they do not depend on the tree the writer starts on), so that the lists of
several writers can be interleaved (`Interleave`, `Interleave3`, `merge`, `merge3` of `ConcFile.lean`).

`CrashSteps.lean` fixes one temporary name per hidden folder (`.tmp (parentKey k)`: one writer, crash anywhere) and computes the
list from the tree the writer starts on (`storeStepsT t k b mb`: only the missing directories are created, the metadata file is
unlinked only if present).  Here

* every `_write_file` call has its own temporary (`tmp_<uuid4>` inside the hidden folder in the code).  The name is `.tmp a`; the
  key `a` is a LABEL (read it as the path of the temporary: `parentKey k ++ [tmp_<uuid4>]`) — all that matters is that `.tmp`
  names differ from every `.node` / `.mfile` / `.metaDir` name and that different calls use different labels;
* `mkdir` is issued for EVERY directory above the key: `execT` makes the `mkdir` of an existing name a no-op — this is
  `mkdir(parents=True, exist_ok=True)` evaluated at the moment of the call rather than on the initial tree, which is what a
  concurrent setting needs (another thread may create the directory in between);
* `unlink (.mfile k)` is issued unconditionally: `execT` makes the `unlink` of a missing name a no-op (the code catches
  `FileNotFoundError` / tests existence first).

`LiquerProofs/Lemmas/ConcFileT1.lean` (`storeStepsTN_run_eq_storeStepsT`, `storeMetaStepsTN_run_eq_storeMetaStepsT`) ties the lists
to `storeStepsT` / `storeMetaStepsT` (the lists the C16 crash replay validates against the code): with the crash model's temporary
name, run from ANY tree `t`, they lead to the same tree.
-/
import LiquerModel.ConcFile

namespace Liquer
namespace Crash

/-- `_write_file(target, b)` with the writer's own temporary file: `open(tmp, "wb")`, `write`, `close`, `os.replace` -/
def writeFileTN (tmp target : SName) (b : Data) : List (Step SName) :=
  [.create tmp, .append tmp b, .close tmp, .rename tmp target]

/-- `FileStore.store(k, b, metadata)` of one thread (`t1`, `t2`: the temporary names of its two `_write_file` calls):
the directories above the data file, unpublish the old metadata, the hidden folder, data, metadata -/
def storeStepsTN (t1 t2 : SName) (k : Key) (b mb : Data) : List (Step SName) :=
  (parentNodes k).map Step.mkdir ++ [.unlink (.mfile k), .mkdir (.metaDir (parentKey k))] ++
  writeFileTN t1 (.node k) b ++ writeFileTN t2 (.mfile k) mb

/-- `FileStore.store_metadata(k, metadata)` of one thread -/
def storeMetaStepsTN (t : SName) (k : Key) (mb : Data) : List (Step SName) :=
  (parentNodes k).map Step.mkdir ++ [.mkdir (.metaDir (parentKey k))] ++ writeFileTN t (.mfile k) mb

/-- the tree after the first `n` file operations of an interleaving -/
def runPrefixT (n : Nat) (l : List (Step SName)) (t : Tree) : Tree := (l.take n).foldl execT t

end Crash
end Liquer
