/-
M3 (part 6): the METADATA that accompanies the result of `Context.evaluate` — model of C18.

A second, richer model of the same evaluator as `Ref.lean`: `metaQ` walks the chain of predecessors exactly like `refQ`
and returns, next to the outcome, the record of the metadata fields C18 names, assembled the way the code assembles
them (mechanism, not intent):

  * the *initial state* (`create_initial_state`) has `State()`'s default metadata: no `status`, `parent_query`,
    `mimetype` keys; `type_identifier` / `data_characteristics` of the injected input value (`with_data`);
  * an *error* of the predecessor is propagated as `state.next_state()`: a copy of the failing step's metadata with
    `with_data(None)` (type identifier and characteristics of `None`) and the outer query text — nothing else changes,
    in particular a trailing file name is NOT applied;
  * an action-less, file-less last segment returns the predecessor's state under the new query text;
  * the *file-name step*: `evaluate_action` returns `state.with_filename(name)` early — `filename`,
    `extension = name.split(".")[-1].lower()`, `mimetype = mimetype_from_extension(extension)`; everything else
    is inherited from the previous state;
  * a *command action*: `metadata = context.metadata()` overlaid on the metadata of the state the command returned
    (a clone of the previous state, `with_data(result)`; on failure `next_state()` of the previous state):
      `status` ready/error from `state.is_error or context.is_error`; `type_identifier`/`data_characteristics` of the
      new data; `commands`/`extended_commands` hold ONLY this action (name, resolved namespace, command metadata —
      none when the command is unknown); `parent_query` = canonical text of the predecessor ("" at the start);
      `argument_queries` = `link.encode()` of the action's link parameters in order (appended before each link is
      evaluated; none when the command is unknown: parameters are not looked at); `direct_subqueries` = the texts
      `Context.evaluate` was called with from this context: every link (absolute, or no parent: `link.encode()`;
      relative: `(parse(parent_query) + tq).encode()`), then the sub-query a command evaluated (logged only when that
      call returned); `mimetype`: the context's own is `application/octet-stream` (its query does not end in a
      file name), so `state.mimetype()` is taken = the inherited `mimetype`, else `mimetype_from_extension(inherited
      extension)`; `filename`/`extension` inherited; `attributes` = capitalised inherited ones + the command's own.

The outcome component is computed by `refAction` itself; `c18_outcome_agrees` (Props/C18.lean) proves that the
outcome of `metaQ` is `refQ`'s for every query and fuel. The tables (`type_identifier_of`, first word of the
`data_characteristics` description per value kind; the two final statuses; `MIMETYPES`) are regenerated from the live
objects (`Gen/EvalMeta.lean`, `Gen/StateTypes.lean`).
-/
import LiquerModel.Ref
import LiquerModel.Gen.EvalMeta
import LiquerModel.Gen.StateTypes

namespace Liquer

/-- the value kind a `Val` is looked up with in `Gen.valueTypeTable` -/
def Val.kindTag : Val → Str
  | .none => s "none"
  | .int _ => s "int"
  | .bool _ => s "bool"
  | .str _ => s "str"
  | .flt _ => s "flt"
  | .list _ => s "list"

/-- `type_identifier_of(v)` over a probed table -/
def typeIdIn (tbl : List (Str × Str × Str)) (v : Val) : Str :=
  ((tbl.find? (fun r => r.1 == v.kindTag)).map (·.2.1)).getD []

/-- first word of `data_characteristics(v)["description"]` over a probed table -/
def dataKindIn (tbl : List (Str × Str × Str)) (v : Val) : Str :=
  ((tbl.find? (fun r => r.1 == v.kindTag)).map (·.2.2)).getD []

def typeIdOf (v : Val) : Str := typeIdIn Gen.valueTypeTable v
def dataKindOf (v : Val) : Str := dataKindIn Gen.valueTypeTable v

/-- `mimetype_from_extension(ext)` over the regenerated `MIMETYPES` -/
def mimeOfExt (e : Str) : Str := StateTypes.mimeFromExt Gen.mimetypes e Gen.metaDefaultMimetype

/-- the metadata fields C18 names (`none` = the key is absent / `None`) -/
structure MetaRec where
  query : Str := []
  status : Option Str := none
  isError : Bool := false
  typeId : Str := []
  dataKind : Str := []
  lastCommand : List Str := []          -- `commands[-1]` (`[]`: no command yet)
  lastName : Option Str := none         -- `extended_commands[-1]["command_name"]`
  lastNs : Option Str := none           -- `extended_commands[-1]["ns"]`
  lastVersionKnown : Bool := false      -- `extended_commands[-1]["command_metadata"]` carries a version (the command resolved)
  parentQuery : Option Str := none
  argumentQueries : List Str := []
  directSubqueries : List Str := []
  filename : Option Str := none
  extension : Option Str := none
  mimetype : Option Str := none
  attrs : List (Str × Str) := []        -- `attributes` except `volatile`
  deriving Repr, Inhabited, DecidableEq

/-- metadata of `create_initial_state(input_value)` -/
def initMeta (input : Option Val) : MetaRec :=
  { typeId := typeIdOf (input.getD .none), dataKind := dataKindOf (input.getD .none) }

/-- `state.next_state()` + new query text: the error of a predecessor travels on -/
def MetaRec.propagate (m : MetaRec) (key : Str) : MetaRec :=
  { m with query := key, typeId := typeIdOf .none, dataKind := dataKindOf .none }

/-- `state.with_filename(f)` + new query text -/
def MetaRec.withFilename (m : MetaRec) (key f : Str) : MetaRec :=
  { m with query := key, filename := some f, extension := some (extensionOf f), mimetype := some (mimeOfExt (extensionOf f)) }

/-- `state.mimetype()` of a state that inherited `m` -/
def MetaRec.stateMimetype (m : MetaRec) : Str :=
  match m.mimetype with
  | some x => x
  | none => match m.extension with
    | some e => mimeOfExt e
    | none => Gen.metaDefaultMimetype

/-- `link.encode()` of the link parameters, in order -/
def linkQueries : List Param → List Str
  | [] => []
  | .str _ _ :: ps => linkQueries ps
  | .link lq _ :: ps => lq.encode Gen.escapeTable :: linkQueries ps

/-- the text `Context.evaluate` is called with for one link parameter (`evaluate_parameter` / `apply`) -/
def linkText (env : Env) (parent : Str) (lq : Query) : Option Str :=
  let tbl := Gen.escapeTable
  if lq.absolute || parent.isEmpty || parent == ['/'] then some (lq.encode tbl)
  else
    match lq with
    | .mk [.transform h as f] _ =>
      (match parse env.dec parent with
       | none => none
       | some pq => some ((Query.mk (pq.segments ++ [.transform h as f]) pq.absolute).encode tbl))
    | _ => none

def linkTexts (env : Env) (parent : Str) : List Param → List Str
  | [] => []
  | .str _ _ :: ps => linkTexts env parent ps
  | .link lq _ :: ps =>
    match linkText env parent lq with
    | some t => t :: linkTexts env parent ps
    | none => linkTexts env parent ps

/-- what the context of one command action records besides the outcome: the resolved command, `argument_queries`,
`direct_subqueries`. `n` is the fuel `refAction env n` runs with. -/
structure ActionInfo where
  sig : Option CmdSig := none
  argQ : List Str := []
  subQ : List Str := []
  deriving Repr, Inhabited

def actionInfo (env : Env) : Nat → EState → Action → Str → Str → Extra → ActionInfo
  | 0, _, _, _, _, _ => {}
  | n + 1, st, act, rawQuery, parent, extra =>
    match namespacesOf st.vars with
    | none => {}
    | some nss =>
      match resolve env.reg nss act.name with
      | none => {}
      | some sig =>
        -- the sub-query a command evaluates: logged after `context.evaluate(q)` returned a state
        let sub : List Str :=
          match refParams env n act.params rawQuery parent with
          | (.inr _, _) => []
          | (.inl given, _) =>
            let (given, kwargs) : List PVal × List (Str × Val) :=
              match extra with
              | .none => (given, [])
              | .list vs => if vs.isEmpty then (given, []) else (given ++ vs.map .raw, [])
              | .dict kv => if kv.isEmpty then (given, []) else (given, kv)
            match parseArgv sig.args given kwargs with
            | .ok args =>
              (match cmdSem sig.ns sig.name st.data st.vars args with
               | .subeval _ qtext =>
                 (match (refText env n qtext).1 with
                  | .st _ => [qtext]
                  | _ => [])
               | _ => [])
            | _ => []
        { sig := some sig, argQ := linkQueries act.params, subQ := linkTexts env parent act.params ++ sub }

/-- the metadata `evaluate_action` assembles for a command action whose outcome is the state `st2`; `m` is the
metadata of the previous state -/
def actionMeta (m : MetaRec) (act : Action) (parent : Str) (info : ActionInfo) (st2 : EState) : MetaRec :=
  { query := st2.query
    status := some (if st2.isError then Gen.metaStatusError else Gen.metaStatusReady)
    isError := st2.isError
    typeId := typeIdOf st2.data
    dataKind := dataKindOf st2.data
    lastCommand := act.toList Gen.escapeTable
    lastName := some act.name
    lastNs := info.sig.map (·.ns)
    lastVersionKnown := info.sig.isSome
    parentQuery := some parent
    argumentQueries := info.argQ
    directSubqueries := info.subQ
    filename := m.filename
    extension := m.extension
    mimetype := some m.stateMimetype
    attrs := mergeAttrs m.attrs ((info.sig.map (·.attrs)).getD []) }

/-- `Context.evaluate_action` for a command action: outcome (that of `refAction`) and metadata -/
def metaAction (env : Env) (n : Nat) (st : EState) (m : MetaRec) (act : Action) (rawQuery parent : Str) (extra : Extra) : Outcome × MetaRec :=
  match (refAction env n st act rawQuery parent extra).1 with
  | .st st2 => (.st st2, actionMeta m act parent (actionInfo env n st act rawQuery parent extra) st2)
  | other => (other, m)

/-- a query that is a single resource segment (C08/C17, not this model) -/
def Query.isResource : Query → Bool
  | .mk [.resource _ _] _ => true
  | _ => false

/-- the last step `r` of a query applied to the successful state `st` (metadata `m`) of its predecessor -/
def metaPost (env : Env) (n : Nat) (st : EState) (m : MetaRec) (parent : Str) (r : Option Seg) (key rawQuery : Str) (extra : Extra) :
    Outcome × MetaRec :=
  match r with
  | none => (.st { st with query := key }, { m with query := key })
  | some (.transform _ [] (some f)) =>
    (.st { st with filename := some f, extension := some (extensionOf f), query := key }, m.withFilename key f)
  | some (.transform _ [a] none) =>
    (match metaAction env n st m a rawQuery parent extra with
     | (.st st2, m2) => (.st { st2 with query := key }, { m2 with query := key })
     | other => other)
  | some _ => (.unmodelled, m)

/-- what follows the evaluation of the predecessor (outcome `o`, metadata `m`) -/
def metaAfter (env : Env) (n : Nat) (o : Outcome) (m : MetaRec) (parent : Str) (r : Option Seg) (key rawQuery : Str) (extra : Extra) :
    Outcome × MetaRec :=
  match o with
  | .raised a b => (.raised a b, m)
  | .parseError => (.parseError, m)
  | .unmodelled => (.unmodelled, m)
  | .st st =>
    if st.isError then (.st { st with data := .none, query := key }, m.propagate key)
    else metaPost env n st m parent r key rawQuery extra

/-- `Context.evaluate(query)`: outcome and metadata of the returned state -/
def metaQ (env : Env) : Nat → Query → Str → Extra → Option Val → Outcome × MetaRec
  | 0, _, _, _, _ => (.unmodelled, {})
  | n + 1, q, rawQuery, extra, input =>
    let tbl := Gen.escapeTable
    let key := q.encode tbl
    if q.isResource then (.unmodelled, {}) else
    let init : EState := { vars := env.defaults, data := input.getD .none }
    match q.predecessor with
    | none => metaAfter env n (.st init) (initMeta input) [] none key rawQuery extra
    | some (p, r) =>
      if p.segments.isEmpty then metaAfter env n (.st init) (initMeta input) [] r key rawQuery extra
      else
        let x := metaQ env n p (p.encode tbl) .none input
        metaAfter env n x.1 x.2 (p.encode tbl) r key rawQuery extra

/-- the metadata `Context.evaluate` returns with the state (`none`: the call raises, or is outside the model) -/
def metaOf (env : Env) (fuel : Nat) (q : Query) (rawQuery : Str) (extra : Extra) (input : Option Val) : Option MetaRec :=
  match metaQ env fuel q rawQuery extra input with
  | (.st _, m) => some m
  | _ => none

end Liquer
