/-
M2 (part 3): `ResourceQuerySegment._query_to_absolute / to_absolute`, `Query.to_absolute`,
and the specification `posixNorm` the property C19 compares them with.
-/
import LiquerModel.Ast

namespace Liquer

def dot : Str := ['.']
def dotdot : Str := ['.', '.']

/-- `_query_to_absolute(path, processed, rest)` with the `started` flag ("something of `rest` has been
consumed already") that distinguishes *nothing consumed yet* from *back at the root*.
`none` = the Python code raises `Exception("Can't go up from root")`. -/
def toAbsGo (path : List Str) : Bool → List Str → List Str → Option (List Str)
  | _, processed, [] => some processed
  | started, processed, r :: rest =>
    if r = dot then
      if !started then toAbsGo path true path rest
      else toAbsGo path true processed rest
    else if r = dotdot then
      if !started then
        if path.isEmpty then none else toAbsGo path true path.dropLast rest
      else
        if processed.isEmpty then none else toAbsGo path true processed.dropLast rest
    else toAbsGo path true (processed ++ [r]) rest

/-- `ResourceQuerySegment.to_absolute(path)` on the list of resource names (`[]` is returned as is). -/
def toAbs (dir p : List Str) : Option (List Str) := toAbsGo dir false [] p

/-- POSIX normalisation of a path given as components, rooted: `.` vanishes, `..` pops, popping the
root is rejected (`none`). This is the *specification*. -/
def normGo (acc : List Str) : List Str → Option (List Str)
  | [] => some acc
  | r :: rest =>
    if r = dot then normGo acc rest
    else if r = dotdot then (if acc.isEmpty then none else normGo acc.dropLast rest)
    else normGo (acc ++ [r]) rest

def posixNorm (p : List Str) : Option (List Str) := normGo [] p

def startsRelative (p : List Str) : Bool :=
  match p with
  | r :: _ => r == dot || r == dotdot
  | [] => false

/-- a directory path made of plain names -/
def plainPath (d : List Str) : Bool := d.all (fun n => n != dot && n != dotdot)

/-- `Seg`-level `to_absolute`: transform segments are returned unchanged, a resource segment with an
empty path too. `sel = none` selects all resource segments, `some n` those whose header name is `n`
(`""` when there is no header). -/
def Seg.segmentName : Seg → Str
  | .resource (some h) _ => h.name
  | _ => []

def segSelected (sel : Option Str) (segName : Str) : Bool :=
  match sel with
  | none => true
  | some n => n == segName

def Seg.toAbsolute (dir : List Str) (sel : Option Str) : Seg → Option Seg
  | .transform h a f => some (.transform h a f)
  | .resource h names =>
    if segSelected sel (Seg.resource h names).segmentName && !names.isEmpty then
      (toAbs dir names).map (fun r => .resource h r)
    else some (.resource h names)

def mapOpt {α β} (f : α → Option β) : List α → Option (List β)
  | [] => some []
  | a :: as => match f a, mapOpt f as with
    | some b, some bs => some (b :: bs)
    | _, _ => none

/-- `Query.to_absolute(path, resource_segment_name)` -/
def Query.toAbsolute (dir : List Str) (sel : Option Str) : Query → Option Query
  | .mk segs absolute => (mapOpt (Seg.toAbsolute dir sel) segs).map (fun s => .mk s absolute)

end Liquer
