/-
M5: `PrefixStore` / `KeyTranslatingStore` and `MountPointStore` / `RoutingStore`, method by method.

All parts (the optional default store and every mounted store) are models of the *same* type
`P : StoreOps σ`; the state of the composite is `(default?, routing table)` with the routing table in
mount order (`mount` appends; `route_to` and `keys` walk it reversed).  `supp` is the parts'
`is_supported` (constantly `true` for `MemoryStore` / `FileStore`).

Modelled code = `/repo` + the proposed fixes D7a-D7e (`/verif/proposed_fixes`):
* `keys()` skips a part key that *equals* a prefix yielded earlier (was: only keys strictly below it),
* `listdir` no longer adds first components of default-store keys below a key served by a mount,
* `KeyTranslatingStore.get_metadata` recomputes `fileinfo.name` from the outer key (was `""` at a mount point),
* `contains` / `is_dir`: mount points and their parents are directories whatever the routed store says;
  without a route the answer is `False` (was: `KeyRouteNotFoundStoreException`, a metadata dictionary),
* `get_metadata` of a parent of a mount point that the default store does not have = default directory metadata.

Also repaired later (D7f): `keys()` lists the parents of mount points (`mountParents`, appended when no store listed them).
Not repaired, modelled as it is: a recursive `removedir` reaching a mount point deletes what is below and *then* raises (the model
reports the error and, like every failing operation, keeps the state — `Mt.removedirX` returns the state actually left behind).
-/
import LiquerModel.StoreCore

namespace Liquer
variable {σ : Type}

namespace Pfx

/-- `PrefixStore.translate_key(key)`: outer key → key of the mounted store -/
def translate (pfx k : Key) : Except StoreErr Key :=
  if k == pfx then .ok []
  else if pfx.isPrefixOf k then .ok (k.drop pfx.length)
  else .error .keyNotSupported

/-- `PrefixStore.translate_key(key, inverse=True)` -/
def inverse (pfx k : Key) : Key := pfx ++ k

end Pfx

/-- `PrefixStore(P, prefix)` -/
def prefixOps (P : StoreOps σ) (pfx : Key) : StoreOps σ where
  getBytes s k := (Pfx.translate pfx k).bind (P.getBytes s)
  getMeta s k := (Pfx.translate pfx k).bind fun t =>
    (P.getMeta s t).map fun m => { m with key := k, name := keyName k }
  store s k d m := (Pfx.translate pfx k).bind fun t => P.store s t d m
  storeMeta s k m := (Pfx.translate pfx k).bind fun t => P.storeMeta s t m
  remove s k := (Pfx.translate pfx k).bind (P.remove s)
  removedir s k r := (Pfx.translate pfx k).bind fun t => P.removedir s t r
  makedir s k := (Pfx.translate pfx k).bind (P.makedir s)
  contains s k := if k == pfx then .ok true else (Pfx.translate pfx k).bind (P.contains s)
  isDir s k := if k == pfx then .ok true else (Pfx.translate pfx k).bind (P.isDir s)
  keys s := (P.keys s).map (fun ks => ks.map (Pfx.inverse pfx))
  listdir s k := (Pfx.translate pfx k).bind (P.listdir s)

abbrev MtState (σ : Type) := Option σ × List (Key × σ)

inductive Route where
  | part (i : Nat)
  | dflt
  deriving DecidableEq, Repr

namespace Mt

/-- one iteration of the loop in `route_to` -/
def hit (supp : σ → Key → Bool) (p : Key) (st : σ) (k : Key) : Bool :=
  k == p || (p.isPrefixOf k && supp st (k.drop p.length))

/-- `for prefix, store in reversed(routing_table)`: the *last* mounted entry that matches -/
def routeIdx (supp : σ → Key → Bool) : List (Key × σ) → Key → Option Nat
  | [], _ => none
  | (p, st) :: rest, k =>
    match routeIdx supp rest k with
    | some i => some (i + 1)
    | none => if hit supp p st k then some 0 else none

def route (supp : σ → Key → Bool) (s : MtState σ) (k : Key) : Except StoreErr Route :=
  match routeIdx supp s.2 k with
  | some i => .ok (.part i)
  | none => if s.1.isSome then .ok .dflt else .error .routeNotFound

def readAt {α : Type} (P : StoreOps σ) (s : MtState σ) (r : Route) (f : StoreOps σ → σ → Except StoreErr α) :
    Except StoreErr α :=
  match r with
  | .dflt => match s.1 with
    | some d => f P d
    | none => .error .routeNotFound
  | .part i => match s.2[i]? with
    | some (p, st) => f (prefixOps P p) st
    | none => .error .other

def writeAt (P : StoreOps σ) (s : MtState σ) (r : Route) (f : StoreOps σ → σ → Except StoreErr σ) :
    Except StoreErr (MtState σ) :=
  match r with
  | .dflt => match s.1 with
    | some d => (f P d).map fun d' => (some d', s.2)
    | none => .error .routeNotFound
  | .part i => match s.2[i]? with
    | some (p, st) => (f (prefixOps P p) st).map fun st' => (s.1, s.2.set i (p, st'))
    | none => .error .other

def routedRead {α : Type} (P : StoreOps σ) (supp : σ → Key → Bool) (s : MtState σ) (k : Key)
    (f : StoreOps σ → σ → Except StoreErr α) : Except StoreErr α :=
  (route supp s k).bind fun r => readAt P s r f

def routedWrite (P : StoreOps σ) (supp : σ → Key → Bool) (s : MtState σ) (k : Key)
    (f : StoreOps σ → σ → Except StoreErr σ) : Except StoreErr (MtState σ) :=
  (route supp s k).bind fun r => writeAt P s r f

/-- `route == key or route.startswith(key + "/")` for some mounted route -/
def aboveMount (tbl : List (Key × σ)) (k : Key) : Bool := tbl.any (fun e => k.isPrefixOf e.1)

/-- `is_dir` (fix D7d) -/
def isDir (P : StoreOps σ) (supp : σ → Key → Bool) (s : MtState σ) (k : Key) : Except StoreErr Bool :=
  if k.isEmpty || aboveMount s.2 k then .ok true
  else match route supp s k with
    | .error .routeNotFound => .ok false
    | .error e => .error e
    | .ok r => readAt P s r (fun S st => S.isDir st k)

/-- `contains` (fix D7d) -/
def contains (P : StoreOps σ) (supp : σ → Key → Bool) (s : MtState σ) (k : Key) : Except StoreErr Bool :=
  match isDir P supp s k with
  | .error e => .error e
  | .ok true => .ok true
  | .ok false =>
    match route supp s k with
    | .error .routeNotFound => .ok false
    | .error e => .error e
    | .ok r => readAt P s r (fun S st => S.contains st k)

def dirMeta (k : Key) : MetaObs := { key := k, name := keyName k, isDir := true, size := none, md5 := none, user := [] }

/-- `get_metadata` (fix D7e): the routed store's answer with `key` overwritten; without a route or when the
routed store does not know the key, directories of the composite get default metadata -/
def getMeta (P : StoreOps σ) (supp : σ → Key → Bool) (s : MtState σ) (k : Key) : Except StoreErr MetaObs :=
  let fallback : Except StoreErr MetaObs :=
    match isDir P supp s k with
    | .error e => .error e
    | .ok true => .ok (dirMeta k)
    | .ok false => .error .keyNotFound
  match routedRead P supp s k (fun S st => S.getMeta st k) with
  | .ok m => .ok { m with key := k }
  | .error .routeNotFound => fallback
  | .error .keyNotFound => fallback
  | .error e => .error e

/-- the mounted part of `keys()`: `tbl` is the *reversed* routing table, `seen` the prefixes already yielded -/
def keysMounts (P : StoreOps σ) : List (Key × σ) → List Key → Except StoreErr (List Key)
  | [], _ => .ok []
  | (p, st) :: rest, seen =>
    match (prefixOps P p).keys st with
    | .error e => .error e
    | .ok ks =>
      let here := ks.filter (fun k => !(seen.any (fun q => q.isPrefixOf k)) && (p.isPrefixOf k && k != p))
      match keysMounts P rest (seen ++ [p]) with
      | .error e => .error e
      | .ok more => .ok (p :: here ++ more)

/-- what `keys()` lists from the mounted stores and the default store (fix D7a) -/
def keysListed (P : StoreOps σ) (s : MtState σ) : Except StoreErr (List Key) :=
  match keysMounts P s.2.reverse [] with
  | .error e => .error e
  | .ok m =>
    match s.1 with
    | none => .ok m
    | some d =>
      match P.keys d with
      | .error e => .error e
      | .ok kd => .ok (m ++ kd.filter (fun k => !(s.2.any (fun e => e.1.isPrefixOf k))))

/-- the proper non-empty ancestors of the mount prefixes, without repetition -/
def mountParents (tbl : List (Key × σ)) : List Key :=
  (tbl.flatMap (fun e => (List.range e.1.length).filterMap (fun i => if i = 0 then none else some (e.1.take i)))).eraseDups

/-- `keys()` (fix D7f): the listed keys, then the parents of mount points that no store listed -/
def keys (P : StoreOps σ) (s : MtState σ) : Except StoreErr (List Key) :=
  match keysListed P s with
  | .error e => .error e
  | .ok l => .ok (l ++ (mountParents s.2).filter (fun a => !(l.contains a)))

/-- the component a mount prefix below `k` contributes to `listdir(k)` -/
def mountChild (k : Key) (p : Key) : Option Str :=
  if k.isEmpty then some (p.head?.getD [])
  else if k.isPrefixOf p && p != k then p[k.length]? else none

/-- Python `sorted` on names (code-point order); the order matters only because a recursive `removedir`
that raises at a mount point has by then deleted the entries *before* it -/
def insertName (a : Str) : List Str → List Str
  | [] => [a]
  | b :: l => if a ≤ b then a :: b :: l else b :: insertName a l

def sortNames (l : List Str) : List Str := l.foldr insertName []

/-- what the routed store lists for `k` (`None` and "no route" count as empty) -/
def listBase (P : StoreOps σ) (supp : σ → Key → Bool) (s : MtState σ) (k : Key) : Except StoreErr (List Str) :=
  match route supp s k with
  | .error .routeNotFound => .ok []
  | .error e => .error e
  | .ok r => (readAt P s r (fun S st => S.listdir st k)).map (fun o => o.getD [])

/-- `listdir` (fix D7b): `sorted(set(...))` of the routed listing and the mount points directly below; never `None` -/
def listdirL (P : StoreOps σ) (supp : σ → Key → Bool) (s : MtState σ) (k : Key) : Except StoreErr (List Str) :=
  (listBase P supp s k).map fun d => sortNames (d ++ s.2.filterMap (fun e => mountChild k e.1)).eraseDups

def remove (P : StoreOps σ) (supp : σ → Key → Bool) (s : MtState σ) (k : Key) : Except StoreErr (MtState σ) :=
  routedWrite P supp s k (fun S st => S.remove st k)

/-- `removedir`, returning the state left behind together with the exception (if any): the recursion
mutates before the mount-point test raises -/
def removedirX (P : StoreOps σ) (supp : σ → Key → Bool) : Nat → MtState σ → Key → Bool → MtState σ × Option StoreErr
  | 0, s, _, _ => (s, some .other)
  | n + 1, s, k, recursive =>
    if k.isEmpty then (s, none) else
    let walked : MtState σ × Option StoreErr :=
      if recursive then
        match listdirL P supp s k with
        | .error e => (s, some e)
        | .ok names => names.foldl (fun (acc : MtState σ × Option StoreErr) nm =>
            match acc.2 with
            | some _ => acc
            | none =>
              match isDir P supp acc.1 (k ++ [nm]) with
              | .error e => (acc.1, some e)
              | .ok true => removedirX P supp n acc.1 (k ++ [nm]) true
              | .ok false =>
                match remove P supp acc.1 (k ++ [nm]) with
                | .error e => (acc.1, some e)
                | .ok s' => (s', none)) (s, none)
      else (s, none)
    match walked.2 with
    | some e => (walked.1, some e)
    | none =>
      if walked.1.2.any (fun e => e.1 == k) then (walked.1, some .other)
      else match routedWrite P supp walked.1 k (fun S st => S.removedir st k false) with
        | .error e => (walked.1, some e)
        | .ok s' => (s', none)

def depthBound (P : StoreOps σ) (s : MtState σ) : Nat :=
  let ks := match keys P s with | .ok l => l | .error _ => []
  (ks.map List.length).foldl max 0

def removedirFull (P : StoreOps σ) (supp : σ → Key → Bool) (s : MtState σ) (k : Key) (recursive : Bool) :
    MtState σ × Option StoreErr :=
  removedirX P supp (depthBound P s + 2) s k recursive

def removedir (P : StoreOps σ) (supp : σ → Key → Bool) (s : MtState σ) (k : Key) (recursive : Bool) :
    Except StoreErr (MtState σ) :=
  match removedirFull P supp s k recursive with
  | (s', none) => .ok s'
  | (_, some e) => .error e

/-- `sub.to_root_key(k)` for the store mounted at entry `i` (`none` = the default store): `PrefixStore`
re-prefixes, `MountPointStore` (the root) is the identity -/
def toRootKey (tbl : List (Key × σ)) (i : Option Nat) (k : Key) : Key :=
  match i with
  | none => k
  | some i => match tbl[i]? with
    | some (p, _) => Pfx.inverse p k
    | none => k

/-- `to_root_key` through several translating layers (a `MountPointStore` mounted inside another one, as `web_mount()` builds):
every layer prepends its own prefix and hands the key to its parent; `ps` lists the prefixes from the innermost layer outwards -/
def toRootKeyChain (ps : List Key) (k : Key) : Key := ps.foldl (fun k p => Pfx.inverse p k) k

end Mt

/-- a store behind several prefix layers, outermost prefix first -/
def prefixChain (P : StoreOps σ) : List Key → StoreOps σ
  | [] => P
  | p :: ps => prefixOps (prefixChain P ps) p

/-- `MountPointStore(default, routing_table)` -/
def mountOps (P : StoreOps σ) (supp : σ → Key → Bool) : StoreOps (MtState σ) where
  getBytes s k := Mt.routedRead P supp s k (fun S st => S.getBytes st k)
  getMeta := Mt.getMeta P supp
  store s k d m := Mt.routedWrite P supp s k (fun S st => S.store st k d m)
  storeMeta s k m := Mt.routedWrite P supp s k (fun S st => S.storeMeta st k m)
  remove := Mt.remove P supp
  removedir := Mt.removedir P supp
  makedir s k := Mt.routedWrite P supp s k (fun S st => S.makedir st k)
  contains := Mt.contains P supp
  isDir := Mt.isDir P supp
  keys := Mt.keys P
  listdir s k := (Mt.listdirL P supp s k).map some

/-- the state the harness compares after an operation: like `StoreOps.step`, except that a raising
recursive `removedir` keeps what it had already deleted -/
def Mt.stepX (P : StoreOps σ) (supp : σ → Key → Bool) (s : MtState σ) : StoreOp → MtState σ
  | .removedir k r => (Mt.removedirFull P supp s k r).1
  | op => (mountOps P supp).step s op

end Liquer
