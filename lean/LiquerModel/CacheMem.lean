/-
M4: association-list helpers shared by the cache models, the configurable specification `kvOpsC`
(the given `kvOps` is one of its instances) and `liquer.cache.MemoryCache` **as fixed by D2**
(`store_metadata` keeps a copy of the metadata; an entry created by `store_metadata` alone is a
placeholder which `get` never serves; `store`/`remove`/`clean` clear the placeholder mark).

Python dictionaries are association lists without duplicate keys; an update moves the binding to the
front (Python keeps the position) — the order of `keys()` is not part of any comparison (multisets).
`State.clone()` is the identity on the immutable values of the model.
-/
import LiquerModel.CacheCore

namespace Liquer

namespace AL
variable {κ : Type} [BEq κ] {β : Type}

def get (l : List (κ × β)) (k : κ) : Option β := (l.find? (fun e => e.1 == k)).map (·.2)
def erase (l : List (κ × β)) (k : κ) : List (κ × β) := l.filter (fun e => e.1 != k)
def set (l : List (κ × β)) (k : κ) (v : β) : List (κ × β) := (k, v) :: erase l k

end AL

/-! ### the specification, with the three points on which correct back-ends legitimately differ -/

structure KVCfg where
  /-- a metadata-only write on an entry that has data keeps the data (file, memory, store-backed) or
  drops it (SQL: the row is replaced by one without data) -/
  keepData : Bool := true
  /-- a metadata-only write on an absent key is recorded (memory, file, SQL, `MemoryStore`) or not
  (store-backed on a file store: metadata without data is invisible) -/
  metaFresh : Bool := true
  /-- what `store_metadata` answers when it does not record -/
  metaFreshRes : Bool := true
  deriving DecidableEq, Repr, Inhabited

def kvOpsC (c : KVCfg) : CacheOps KV where
  get := kvOps.get
  getMeta := kvOps.getMeta
  store := kvOps.store
  storeMeta kv m := match kv.get m.query with
    | none => if c.metaFresh then (kv.set m.query m none, true) else (kv, c.metaFreshRes)
    | some (_, d) => (kv.set m.query m (if c.keepData then d else none), true)
  remove := kvOps.remove
  contains := kvOps.contains
  keys := kvOps.keys
  clean := kvOps.clean

/-- the given `kvOps` drops the data on a metadata-only write and records fresh keys -/
def kvCfgDrop : KVCfg := { keepData := false, metaFresh := true, metaFreshRes := true }
def kvCfgKeep : KVCfg := { keepData := true, metaFresh := true, metaFreshRes := true }

/-- the quantifier of the refinement theorems: states handed to `store` carry a value
(the Python value `None` is a value like any other: the harness sends it as a token, never as `none`) -/
def CacheOp.hasData : CacheOp → Bool
  | .store st => st.data.isSome
  | _ => true

/-- a metadata-only write on an entry that has data names the type the data was stored with -/
def CacheOp.typeStable (kv : KV) : CacheOp → Bool
  | .storeMeta m => match kv.get m.query with
    | some (m0, some _) => m.typeId == m0.typeId
    | _ => true
  | _ => true

def histOK (ok : KV → CacheOp → Bool) (S : CacheOps KV) (kv : KV) : List CacheOp → Bool
  | [] => true
  | op :: rest => ok kv op && histOK ok S (S.step kv op).1 rest

/-! ### `MemoryCache` -/

/-- key ↦ (state, placeholder?) -/
abbrev MemCState := List (Str × CState × Bool)

def memCOps : CacheOps MemCState where
  get s k := (s, match AL.get s k with
    | some (st, ph) => if ph then none else if st.metadata.status == ready then some st else none
    | none => none)
  getMeta s k := (s, (AL.get s k).map (·.1.metadata))
  store s st :=
    if st.metadata.isError then (s, .none)
    else (AL.set s st.metadata.query ({ st with metadata := { st.metadata with status := ready } }, false), .true)
  storeMeta s m := match AL.get s m.query with
    | some (st, ph) => (AL.set s m.query ({ st with metadata := m }, ph), true)
    | none => (AL.set s m.query ({ metadata := m, data := none }, true), true)
  remove s k := (AL.erase s k, true)
  contains s k := (s, (AL.get s k).isSome)
  keys s := (s, s.map (·.1))
  clean _ := []

end Liquer
