/-
M7 (concurrency part, file-operation granularity): the file-system steps of `FileCache` writers **with the
writer's own temporary names**, and interleavings of the step lists of several writers.

`CrashSteps.lean` fixes one temporary name (`tmpC`): one writer, crash anywhere.  Here every `_write_file`
call has its own name (`tmp_<uuid4>` in the code), several threads issue their step lists concurrently and
the scheduler may switch between any two file operations; a reader (`FileC.get` on the directory) may look
after any prefix of the interleaving.

* `storeStepsN` = `FileCache.store(state)`: `remove(key)` (unlink the metadata file, unlink the data file of
  the state's type; an `unlink` of a missing file is a no-op of `execC`: the code tests `os.path.exists` /
  globs first), `_write_file(data)`, `_write_file(metadata with status ready)`.  `remove` in the code unlinks
  *every* `data_<h>.*`; the link lemma `storeStepsN_eq_storeStepsC` / `storeStepsN_run_eq_storeStepsC`
  (`LiquerProofs/Lemmas/ConcFile1.lean`) ties this list to `storeStepsC` (the list the C16 crash replay
  validates against the code) for directories that hold no data file of another type for the key.
* `storeMetaStepsN` = `FileCache.store_metadata(metadata)`.
-/
import LiquerModel.CrashSteps

namespace Liquer
namespace Crash

/-- `_write_file(target, b)` with the writer's own temporary file: `open(tmp, "wb")`, `write`, `close`, `os.replace` -/
def writeFileN (tmp : FName) (target : FName) (b : Data) : List (Step FName) :=
  [.create tmp, .append tmp b, .close tmp, .rename tmp target]

/-- `FileCache.store(state)` of one thread (`t1`, `t2`: the temporary names of its two `_write_file` calls) -/
def storeStepsN (c : FileCfg) (t1 t2 : FName) (st : CState) : List (Step FName) :=
  let m := { st.metadata with status := ready }
  [.unlink (.state (c.h m.query)), .unlink (.data (c.h m.query) (c.ext m.typeId))] ++
  writeFileN t1 (.data (c.h m.query) (c.ext m.typeId)) (c.enc (c.serD m.typeId st.data)) ++
  writeFileN t2 (.state (c.h m.query)) (c.enc (c.serM m))

/-- `FileCache.store_metadata(m)` of one thread -/
def storeMetaStepsN (c : FileCfg) (t : FName) (m : CMeta) : List (Step FName) :=
  writeFileN t (.state (c.h m.query)) (c.enc (c.serM m))

/-! ### interleavings -/

/-- `Interleave x y l`: `l` is a shuffle of `x` and `y` (each list keeps its own order) -/
inductive Interleave {α : Type} : List α → List α → List α → Prop
  | nil : Interleave [] [] []
  | left {s x y l} : Interleave x y l → Interleave (s :: x) y (s :: l)
  | right {s x y l} : Interleave x y l → Interleave x (s :: y) (s :: l)

/-- shuffles of three lists -/
inductive Interleave3 {α : Type} : List α → List α → List α → List α → Prop
  | nil : Interleave3 [] [] [] []
  | first {s x y z l} : Interleave3 x y z l → Interleave3 (s :: x) y z (s :: l)
  | second {s x y z l} : Interleave3 x y z l → Interleave3 x (s :: y) z (s :: l)
  | third {s x y z l} : Interleave3 x y z l → Interleave3 x y (s :: z) (s :: l)

/-- the executable form: the schedule says whose turn it is (`true` = the first list); an exhausted list or
schedule lets the rest run in order -/
def merge {α : Type} : List Bool → List α → List α → List α
  | _, [], y => y
  | _, x, [] => x
  | [], x, y => x ++ y
  | true :: sch, s :: x, y => s :: merge sch x y
  | false :: sch, x, s :: y => s :: merge sch x y

/-- three lists: the schedule names the list (`0`, `1`, anything else = the third); a turn given to an
exhausted list is skipped; when the schedule ends the lists run one after the other -/
def merge3 {α : Type} : List Nat → List α → List α → List α → List α
  | [], x, y, z => x ++ y ++ z
  | 0 :: sch, s :: x, y, z => s :: merge3 sch x y z
  | 0 :: sch, [], y, z => merge3 sch [] y z
  | 1 :: sch, x, s :: y, z => s :: merge3 sch x y z
  | 1 :: sch, x, [], z => merge3 sch x [] z
  | (_ + 2) :: sch, x, y, s :: z => s :: merge3 sch x y z
  | (_ + 2) :: sch, x, y, [] => merge3 sch x y []

/-- the directory after the first `n` file operations of an interleaving -/
def runPrefix (n : Nat) (l : List (Step FName)) (d : CDir) : CDir := (l.take n).foldl execC d

end Crash
end Liquer
