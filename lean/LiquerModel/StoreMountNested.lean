/-
M5, nesting: a `MountPointStore` mounted inside a `MountPointStore` (what `get_web_store()` / `web_mount()` build).

`StoreMount.lean` takes the mounted stores' `is_supported` as a parameter `supp`; the C14 theorems idealise it as
"supports everything" (`MemoryStore` / `FileStore`).  A mounted `MountPointStore` answers `is_supported` by its own
routing, so the outer composite has to be modelled with the REAL function:

    MountPointStore.is_supported(key) = is_dir(key) or RoutingStore.is_supported(key)   (False when no route)
    RoutingStore.is_supported(key)    = route_to(key).is_supported(key)
    PrefixStore.is_supported(key)     = substore.is_supported(translate_key(key))        (False on KeyNotSupported)

(`/repo` a6dff51).  Before that repair `MountPointStore` inherited `RoutingStore.is_supported`, which lets the
`KeyRouteNotFoundStoreException` of `route_to` escape: an inner composite WITHOUT a default store raised for `''` and for
the parents of its mount points, the exception travelled through the outer `route_to` and the outer `is_dir` /
`contains` / `listdir` caught it as "no route" — the outer store lost the key.  `Mt.supportsOld` / `Mt.isDirOld` model
exactly that (an `is_supported` that may raise = `Option Bool`), for the negative witness only.

A `Bool` cannot express an exception other than `KeyRouteNotFound` escaping `is_dir` inside `is_supported` (a part whose own
`is_dir` raises): the model then answers by the routed part.  `MemoryStore` / `FileStore` / the specification never do that.
-/
import LiquerModel.StoreMount

namespace Liquer
variable {σ : Type}

namespace Mt

/-- `route_to(k).is_supported(k)` for the store the route selected: a mounted store is a `PrefixStore` and asks its
substore with the translated key (`KeyNotSupportedStoreException` = `False`), the default store is asked with `k` as it is -/
def routedSupports (supp : σ → Key → Bool) (s : MtState σ) (k : Key) : Route → Bool
  | .dflt => match s.1 with
    | some d => supp d k
    | none => false
  | .part i => match s.2[i]? with
    | some (p, st) => (match Pfx.translate p k with
      | .ok t => supp st t
      | .error _ => false)
    | none => false

/-- `MountPointStore.is_supported` (repaired, a6dff51 + 2edf0fa): the directories of the composite (root, mount points, their
parents, whatever the routed store calls a directory) are supported; otherwise the routed store decides.
**Where the model and the code part**: for a key WITHOUT a route (no default store, no mount hit) the code RAISES
`KeyRouteNotFoundStoreException` — out of `is_supported`, out of the enclosing store's `route_to`, out of the operation — while this
Boolean answers `false` (an exception cannot be expressed here).  The theorems of `Props/C14.lean` (nested section) use `supports`
only where it is `true` (directories; `nested_exclusive_partial` carries the hypothesis); what the `false` answer WOULD do is shown
there by `nested_exclusive_false_if_unsupported` (a first version of the repair answered `False` and was corrected for that reason). -/
def supports (P : StoreOps σ) (supp : σ → Key → Bool) (s : MtState σ) (k : Key) : Bool :=
  (match isDir P supp s k with
    | .ok true => true
    | _ => false) ||
  (match route supp s k with
    | .ok r => routedSupports supp s k r
    | .error _ => false)

/-- a plain (leaf) store seen as a composite: default store only, nothing mounted -/
def leaf (s : σ) : MtState σ := (some s, [])

end Mt

/-- an outer `MountPointStore` whose parts are `MountPointStore`s over parts of type `P`: the inner composites ask their
leaves by `supp`, the outer one asks the inner composites by their real `is_supported`.  Applying it again
(`nestedOps (mountOps P supp) (Mt.supports P supp)`) gives three levels, and so on. -/
def nestedOps (P : StoreOps σ) (supp : σ → Key → Bool) : StoreOps (MtState (MtState σ)) :=
  mountOps (mountOps P supp) (Mt.supports P supp)

/-! ### before the repair (negative witness only) -/

namespace Mt

/-- an `is_supported` that never raises -/
def liftSupp (supp : σ → Key → Bool) : σ → Key → Option Bool := fun s k => some (supp s k)

/-- `route_to` over mounted stores whose `is_supported` may raise `KeyRouteNotFoundStoreException` (`none`).
Outer `none` = the exception escapes `route_to`; `some none` = no mounted store matched; the walk is the one of `routeIdx`
(last mounted entry first; `key == prefix` is tested before `is_supported` is asked) -/
def routeIdxOld (suppO : σ → Key → Option Bool) : List (Key × σ) → Key → Option (Option Nat)
  | [], _ => some none
  | (p, st) :: rest, k =>
    match routeIdxOld suppO rest k with
    | none => none
    | some (some i) => some (some (i + 1))
    | some none =>
      if k == p then some (some 0)
      else if p.isPrefixOf k then
        (match suppO st (k.drop p.length) with
          | none => none
          | some true => some (some 0)
          | some false => some none)
      else some none

/-- `RoutingStore.is_supported`, which `MountPointStore` inherited before a6dff51: `route_to(key).is_supported(key)`;
`none` = `KeyRouteNotFoundStoreException` (from an inner `is_supported`, or no mount matched and there is no default store) -/
def supportsOld (suppO : σ → Key → Option Bool) (s : MtState σ) (k : Key) : Option Bool :=
  match routeIdxOld suppO s.2 k with
  | none => none
  | some (some i) => (match s.2[i]? with
    | some (p, st) => (match Pfx.translate p k with
      | .ok t => suppO st t
      | .error _ => some false)
    | none => some false)
  | some none => (match s.1 with
    | some d => suppO d k
    | none => none)

/-- `MountPointStore.is_dir` over such parts; `dir` is the parts' `is_dir`.  `except KeyRouteNotFoundStoreException:
return False` also catches the exception that escaped an inner `is_supported` -/
def isDirOld (dir : σ → Key → Except StoreErr Bool) (suppO : σ → Key → Option Bool) (s : MtState σ) (k : Key) :
    Except StoreErr Bool :=
  if k.isEmpty || aboveMount s.2 k then .ok true
  else match routeIdxOld suppO s.2 k with
    | none => .ok false
    | some none => (match s.1 with
      | some d => dir d k
      | none => .ok false)
    | some (some i) => (match s.2[i]? with
      | some (p, st) => if k == p then .ok true else (Pfx.translate p k).bind (dir st)
      | none => .error .other)

end Mt

/-- `is_dir` of the two-level composite before the repair (all levels with the old `is_supported`) -/
def oldNestedIsDir (P : StoreOps σ) (supp : σ → Key → Bool) : MtState (MtState σ) → Key → Except StoreErr Bool :=
  Mt.isDirOld (Mt.isDirOld P.isDir (Mt.liftSupp supp)) (Mt.supportsOld (Mt.liftSupp supp))

/-- … and of the three-level composite -/
def oldNestedIsDir3 (P : StoreOps σ) (supp : σ → Key → Bool) :
    MtState (MtState (MtState σ)) → Key → Except StoreErr Bool :=
  Mt.isDirOld (oldNestedIsDir P supp) (Mt.supportsOld (Mt.supportsOld (Mt.liftSupp supp)))

end Liquer
