/-
M3 (part 2): command signatures (regenerated from the live registry into Gen/VocabSig.lean) and the
float table (regenerated: `repr(float(text))` for the pool of float argument texts).
-/
import LiquerModel.Value

namespace Liquer

inductive ArgTy where
  | generic | int | float | bool | context | list
  deriving DecidableEq, Repr, Inhabited

structure ArgSig where
  name : Str
  ty : ArgTy
  default : Option Val      -- `"default" in a`
  multiple : Bool
  deriving Repr, Inhabited

structure CmdSig where
  ns : Str
  name : Str
  first : Bool              -- FirstCommandExecutable (no state argument)
  passState : Bool
  args : List ArgSig
  attrs : List (Str × Str)  -- decorator attributes (text of the value), includes `ns`
  deriving Repr, Inhabited

abbrev Registry := List CmdSig

def Registry.hasNs (r : Registry) (ns : Str) : Bool := r.any (fun c => c.ns == ns)
def Registry.find (r : Registry) (ns name : Str) : Option CmdSig := r.find? (fun c => c.ns == ns && c.name == name)

end Liquer
