/-
M3 (part 3): semantics of the vocabulary commands (written twice: here and in harness/vocab.py),
argument conversion (`CommandExecutable.parse_argv` + the argument parsers), command resolution.
Signatures come from `Gen.registry` (regenerated from the live registry).
-/
import LiquerModel.Sig
import LiquerModel.Gen.VocabSig

namespace Liquer

/-- a parameter as handed to `command(...)` -/
inductive PVal where
  | text (s : Str) (pos : Nat)         -- StringActionParameter
  | expanded (v : Val) (pos : Nat)     -- ExpandedActionParameter (value of a link)
  | raw (v : Val)                      -- default value / keyword argument / extra positional parameter
  deriving Repr, Inhabited

/-- what calling the Python function does, for the evaluator -/
inductive CmdEffect where
  | value (v : Val)                    -- returns a plain value
  | stateVars (v : Val) (vars : Vars)  -- pass_state command: returns the state with this data and these vars
  | nocache (v : Val)                  -- returns `v` after `context.disable_cache()`
  | subeval (x : Val) (q : Str)        -- `[x, context.evaluate(q).get()]`
  | raises                             -- the function raises
  | unmodelled                         -- outside the modelled domain (reported as UNMODELLED)
  deriving Repr, Inhabited

/-- conversion result -/
inductive Conv (α : Type) where
  | ok (a : α)
  | fail            -- ArgumentParserException / IndexError … (error state at the action's position)
  | unmodelled
  deriving Repr, Inhabited

def floatOfText (s : Str) : Conv Val :=
  match Gen.floatTable.find? (fun e => e.1 == s) with
  | some (_, some r) => .ok (.flt r)
  | some (_, none) => .fail
  | none => .unmodelled

def isAsciiStr (s : Str) : Bool := s.all (fun c => c.toNat < 128)

/-- one typed parser applied to one argument -/
def convertOne (ty : ArgTy) (a : PVal) : Conv Val :=
  match ty, a with
  | .generic, .text s _ => .ok (.str s)
  | .generic, .expanded v _ => .ok v
  | .generic, .raw v => .ok v
  | .list, .text s _ => .ok (.str s)
  | .list, .expanded v _ => .ok v
  | .list, .raw v => .ok v
  | .context, _ => .unmodelled
  | .int, .text s _ =>
    if !isAsciiStr s then .unmodelled else (match intOfText s with | some i => .ok (.int i) | none => .fail)
  | .int, .expanded v _ | .int, .raw v =>
    (match v with
     | .int i => .ok (.int i)
     | .bool b => .ok (.int (if b then 1 else 0))
     | .str s => if !isAsciiStr s then .unmodelled else (match intOfText s with | some i => .ok (.int i) | none => .fail)
     | .flt _ => .unmodelled
     | _ => .fail)
  | .float, .text s _ => floatOfText s
  | .float, .expanded v _ | .float, .raw v =>
    (match v with
     | .flt r => .ok (.flt r)
     | .int i => if i.natAbs < 1000000000000000 then .ok (.flt ((toString i).toList ++ ['.', '0'])) else .unmodelled
     | .bool b => .ok (.flt (if b then "1.0".toList else "0.0".toList))
     | .str s => floatOfText s
     | _ => .fail)
  | .bool, .text s _ => .ok (.bool (boolOfText s))
  | .bool, .expanded v _ | .bool, .raw v => .ok (.bool (boolOfText v.boolLookupText))

/-- `ListArgumentParser.parse_meta` for `*args`: strings and parameters only -/
def convertRest : List PVal → Conv (List Val)
  | [] => .ok []
  | a :: as =>
    let one : Conv Val := match a with
      | .text s _ => .ok (.str s)
      | .expanded v _ => .ok v
      | .raw (.str s) => .ok (.str s)
      | .raw _ => .fail
    match one, convertRest as with
    | .ok v, .ok vs => .ok (v :: vs)
    | .unmodelled, _ => .unmodelled
    | _, .unmodelled => .unmodelled
    | _, _ => .fail

/-- step 1 of `parse_argv`: fill the missing trailing arguments from kwargs, then defaults -/
def fillArgs (sig : List ArgSig) (given : List PVal) (kwargs : List (Str × Val)) : Conv (List PVal) :=
  let missing := sig.drop given.length
  let rec go : List ArgSig → List PVal → Conv (List PVal)
    | [], acc => .ok acc
    | a :: as, acc =>
      match kwargs.find? (fun kv => kv.1 == a.name) with
      | some (_, v) => go as (acc ++ [.raw v])
      | none =>
        if !a.multiple && a.ty != .context then
          match a.default with
          | some d => go as (acc ++ [.raw d])
          | none => .fail
        else go as acc
  go missing given

/-- step 2: `SequenceArgumentParser.parse_meta` over `zip(sequence, metadata)`; the sequence stops after the first
variadic argument; `context` consumes nothing -/
def parseSeq : List ArgSig → List PVal → Conv (List Val × List PVal)
  | [], rest => .ok ([], rest)
  | a :: as, args =>
    if a.multiple then
      match convertRest args with
      | .ok vs => .ok (vs, [])
      | .fail => .fail
      | .unmodelled => .unmodelled
    else if a.ty == .context then parseSeq as args
    else match args with
      | [] => .fail                     -- `args[0]` IndexError
      | x :: xs =>
        match convertOne a.ty x with
        | .ok v =>
          (match parseSeq as xs with
           | .ok (vs, rest) => .ok (v :: vs, rest)
           | .fail => .fail
           | .unmodelled => .unmodelled)
        | .fail => .fail
        | .unmodelled => .unmodelled

/-- `CommandExecutable.parse_argv`: converted positional arguments (without the context) -/
def parseArgv (sig : List ArgSig) (given : List PVal) (kwargs : List (Str × Val)) : Conv (List Val) :=
  match fillArgs sig given kwargs with
  | .fail => .fail
  | .unmodelled => .unmodelled
  | .ok args =>
    match parseSeq sig args with
    | .ok (vs, []) => .ok vs
    | .ok (_, _ :: _) => .fail        -- too many arguments
    | .fail => .fail
    | .unmodelled => .unmodelled

/-- `CommandRegistry.resolve_command` for a list of namespace names that ends in a registered namespace -/
def resolve (reg : Registry) (namespaces : List Str) (name : Str) : Option CmdSig :=
  namespaces.findSome? (fun ns => if reg.hasNs ns then reg.find ns name else none)

def s (x : String) : Str := x.toList

/-- the Python function bodies of harness/vocab.py and of let/flag/state_variable/ns of liquer.ext.basic -/
def cmdSem (ns name : Str) (input : Val) (vars : Vars) (args : List Val) : CmdEffect :=
  if ns == s "root" && name == s "one" then .value (.int 1)
  else if ns == s "root" && name == s "num" then (match args with | [.int n] => .value (.int n) | _ => .unmodelled)
  else if ns == s "root" && name == s "hello" then
    (match args with | [.str n] => .value (.str (s "hello " ++ n)) | [_] => .raises | _ => .unmodelled)
  else if ns == s "root" && name == s "vals" then .value (.list args)
  else if name == s "add" && (ns == s "root" || ns == s "alt") then
    (match args with
     | [.int y] =>
       let k : Int := if ns == s "alt" then 100 else 1
       (match input with
        | .int x => .value (.int (x + k * y))
        | .bool b => .value (.int ((if b then 1 else 0) + k * y))
        | _ => .raises)
     | _ => .unmodelled)
  else if ns == s "root" && name == s "cat" then
    (match args with
     | [a] => (match input.pyStr, a.pyStr with | some x, some y => .value (.str (x ++ y)) | _, _ => .raises)
     | _ => .unmodelled)
  else if ns == s "root" && name == s "rep" then
    (match args with
     | [.int n, sep] =>
       if n > 10000 then .raises else     -- the command refuses astronomically large counts (a link can produce one)
       (match sep.pyStr, input.pyStr with
        | some sp, some x => .value (.str (joinStr sp (List.replicate n.toNat x)))
        | _, _ => .raises)
     | _ => .unmodelled)
  else if ns == s "root" && name == s "argsc" then
    (match args with | a :: b :: rest => .value (.list (input :: a :: b :: rest)) | _ => .unmodelled)
  else if ns == s "root" && name == s "fl" then
    (match args with | [.flt r] => .value (.str (s "f=" ++ r)) | _ => .unmodelled)
  else if ns == s "root" && name == s "bo" then
    (match args with | [.bool b] => .value (.list [input, .bool b]) | _ => .unmodelled)
  else if ns == s "root" && (name == s "ident" || name == s "nvol" || name == s "vol" || name == s "attr1" || name == s "attr2") then .value input
  else if ns == s "root" && name == s "boom" then .raises
  else if ns == s "root" && name == s "tnum" then
    (match input with
     | .none => .value (.int 7)
     | v => (match v.pyStr with | some x => .value (.str ('t' :: x)) | none => .raises))
  else if ns == s "root" && name == s "nocache" then .nocache input
  else if ns == s "root" && name == s "app" then
    (match input, args with | .list l, [v] => .value (.list (l ++ [v])) | _, [_] => .raises | _, _ => .unmodelled)
  else if ns == s "root" && name == s "sub" then
    (match args with | [.str q] => .subeval input q | [_] => .unmodelled | _ => .unmodelled)
  else if ns == s "root" && (name == s "getvar" || name == s "state_variable") then
    (match args with
     | [.str n] => .stateVars ((vars.get n).getD .none) vars
     | _ => .unmodelled)
  else if ns == s "alt" && name == s "only" then
    (match input.pyStr with | some x => .value (.str (s "alt:" ++ x)) | none => .raises)
  else if ns == s "root" && name == s "let" then
    (match args with
     | [.str n, v] => if n == s "active_namespaces" then .unmodelled else .stateVars input (vars.set n v)
     | _ => .unmodelled)
  else if ns == s "root" && name == s "flag" then
    (match args with
     | [.str n, .bool b] => if n == s "active_namespaces" then .unmodelled else .stateVars input (vars.set n (.bool b))
     | _ => .unmodelled)
  else if ns == s "root" && name == s "ns" then
    if args.all (fun a => match a with | .str _ => true | _ => false) then
      let names := args
      let names := if names.any (fun a => a == .str (s "root")) then names else names ++ [.str (s "root")]
      .stateVars input (vars.set (s "active_namespaces") (.list names))
    else .unmodelled
  else .unmodelled

end Liquer
